(* Proofs/BetweenPaths.v — path-counting phase of the weighted routines, the DISTANCES:
   every finite D[x] is the length of an actual walk u -> x (soundness of D), a node is reached iff it is
   reachable (the reached set is closed under connections), D[x] is the minimum walk length = dist_spec, and
   reachable nodes have NP >= 1.  (NP = sigma and P = the tight connections: Proofs/BetweenCount.v, BetweenFull.v.) *)
From Coq Require Import QArith Lia List Arith Bool ZArith Permutation Sorted.
From BCT Require Import Base.Mat Base.SumQ Base.ListX Model.Between
  Proofs.BetweenAccum Proofs.BetweenReady Proofs.BetweenQueue Proofs.BetweenSpec.
Import ListNotations.
Open Scope Z_scope.

Lemma walk_snoc n G s v w p : wft n G s v p = true -> (w < n)%nat -> G v w <> 0 ->
  wft n G s w (p ++ [w]) = true /\ wlen G (p ++ [w]) = wlen G p + G v w.
Proof.
  intros Hp Hw Hg. apply wft_iff in Hp. destruct Hp as (Hh & Hl & Hi & Ho).
  assert (Hne : p <> []) by (intros ->; discriminate).
  destruct (exists_last Hne) as [l [z E]]. subst p. rewrite last_last in Hl. subst z.
  rewrite <- app_assoc. cbn [app]. split.
  - apply wft_iff. split; [|split; [|split]].
    + destruct l; cbn [app hd_error] in *; exact Hh.
    + change (l ++ [v; w]) with (l ++ v :: [w]). rewrite last_app_cons. reflexivity.
    + rewrite inb_app in *. apply andb_true_iff in Hi. destruct Hi as [-> Hv]. cbn [andb].
      cbn [inb forallb] in *. rewrite andb_true_r in Hv. rewrite Hv. cbn [andb].
      rewrite andb_true_r. apply Nat.ltb_lt. exact Hw.
    + rewrite okl_app, Ho. cbn [andb okl chain]. rewrite andb_true_r. unfold edge.
      apply negb_true_iff, Z.eqb_neq. exact Hg.
  - rewrite wlen_app. cbn [wlen clen]. lia.
Qed.

Definition Snd (n : nat) (G : mat Z) (u : nat) (st : sst) : Prop :=
  forall x d, (x < n)%nat -> sD st x = Some d -> exists p, wft n G u x p = true /\ wlen G p = d.
Definition Gsub (n : nat) (G G1 : mat Z) : Prop :=
  forall i j, (i < n)%nat -> (j < n)%nat -> G1 i j <> 0 -> G1 i j = G i j.

Lemma relax_w_snd n G u G1 v st w : (v < n)%nat -> (w < n)%nat -> G1 v w <> 0 -> Gsub n G G1 ->
  Snd n G u st -> Snd n G u (relax_w G1 v st w).
Proof.
  intros Hv Hw Hg Hsub HS. unfold relax_w.
  destruct (xlt (xadd (sD st v) (G1 v w)) (sD st w)) eqn:E1.
  - intros x d Hx. cbn [sD]. unfold vupd. destruct (Nat.eqb_spec x w) as [->|Hne]; [|apply HS; exact Hx].
    destruct (sD st v) as [dv|] eqn:Ev; [|discriminate]. cbn [xadd]. intros E. inversion E; subst d.
    destruct (HS v dv Hv Ev) as (p & Hp & Hl).
    assert (Hgg : G v w <> 0) by (rewrite <- (Hsub v w Hv Hw Hg); exact Hg).
    destruct (walk_snoc n G u v w p Hp Hw Hgg) as [H1 H2]. exists (p ++ [w]). split; [exact H1|].
    rewrite H2, Hl, (Hsub v w Hv Hw Hg). reflexivity.
  - destruct (xeq _ _); exact HS.
Qed.

Lemma visit_w_snd n G u G1 st v : (v < n)%nat -> Gsub n G G1 -> Snd n G u st -> Snd n G u (visit_w n G1 st v).
Proof.
  intros Hv Hsub HS. unfold visit_w.
  assert (Hl : forall w, In w (wherev n (fun w => nzb (G1 v w))) -> (w < n)%nat /\ G1 v w <> 0).
  { intros w Hw. apply wherev_In in Hw. destruct Hw as [H1 H2]. split; [exact H1|].
    unfold nzb in H2. apply negb_true_iff, Z.eqb_neq in H2. exact H2. }
  assert (HS' : Snd n G u (push st v)) by (unfold Snd, push in *; cbn [sD]; exact HS).
  revert Hl HS'. generalize (push st v). generalize (wherev n (fun w => nzb (G1 v w))).
  induction l as [|w l IH]; intros s Hl Hs; cbn [fold_left]; [exact Hs|].
  apply IH; [intros x Hx; apply Hl; right; exact Hx|].
  destruct (Hl w (or_introl eq_refl)) as [H1 H2]. apply relax_w_snd; assumption.
Qed.

Lemma fold_visit_w_snd n G u G1 V : forall st, (forall v, In v V -> (v < n)%nat) -> Gsub n G G1 ->
  Snd n G u st -> Snd n G u (fold_left (visit_w n G1) V st).
Proof.
  induction V as [|v V IH]; intros st HV Hsub HS; cbn [fold_left]; [exact HS|].
  apply IH; [intros x Hx; apply HV; right; exact Hx|exact Hsub|].
  apply visit_w_snd; auto. apply HV. left; reflexivity.
Qed.

Lemma search_w_snd n G u : forall fuel Sm G1 V st st',
  (forall v, In v V -> (v < n)%nat) -> Gsub n G G1 -> Snd n G u st ->
  search_w fuel n Sm G1 V st = Some st' -> Snd n G u st'.
Proof.
  induction fuel as [|f IH]; intros Sm G1 V st st' HV Hsub HS E; [discriminate|].
  cbn [search_w] in E.
  set (S1 := tabv false n (fun i => if nmem i V then false else Sm i)) in *.
  set (G2 := zero_cols n V G1) in *.
  set (st1 := tab_sst n (fold_left (visit_w n G2) V st)) in *.
  assert (Hsub2 : Gsub n G G2).
  { intros i j Hi Hj. unfold G2, zero_cols. rewrite tab_spec by assumption.
    destruct (nmem j V); [congruence|]. apply Hsub; assumption. }
  assert (HS1 : Snd n G u st1).
  { intros x d Hx. unfold st1. destruct (tab_sst_spec n (fold_left (visit_w n G2) V st)) as (TD & _).
    rewrite (TD x Hx). apply (fold_visit_w_snd n G u G2 V st HV Hsub2 HS x d Hx). }
  destruct (wherev n S1) as [|a sel'] eqn:Esel.
  - inversion E; subst. exact HS1.
  - cbn zeta in E. destruct (isinf (min_over (sD st1) (a :: sel'))).
    + unfold fill_front in E. destruct (Nat.eqb _ _); [|discriminate]. inversion E; subst.
      unfold Snd. cbn [sD]. exact HS1.
    + apply (IH _ _ _ _ _ (fun v Hv => proj1 (proj1 (wherev_In _ _ _) Hv)) Hsub2 HS1 E).
Qed.

Lemma last_default_irrel (r : list nat) b a : last (b :: r) a = last (b :: r) b.
Proof. revert b. induction r as [|c r IH]; intros b; [reflexivity|]. cbn [last] in *. destruct r; [reflexivity|apply IH]. Qed.

(* along any walk from a reached node the final distance obeys the accumulated triangle inequality *)
Lemma closed_chain n G st : closed n G st -> forall r a da, (a < n)%nat -> sD st a = Some da ->
  inb n r = true -> chain G a r = true ->
  exists dl, sD st (last (a :: r) a) = Some dl /\ dl <= da + clen G a r.
Proof.
  intros Hc. induction r as [|b r IH]; intros a da Ha Hd Hi Hch.
  - exists da. cbn [last clen]. split; [exact Hd|lia].
  - cbn [inb forallb] in Hi. apply andb_true_iff in Hi. destruct Hi as [Hb Hi]. apply Nat.ltb_lt in Hb.
    cbn [chain] in Hch. apply andb_true_iff in Hch. destruct Hch as [He Hch].
    unfold edge in He. apply negb_true_iff, Z.eqb_neq in He.
    destruct (Hc a b da Ha Hb Hd He) as (db & Edb & Hle).
    destruct (IH b db Hb Edb Hi Hch) as (dl & El & Hl).
    change (last (a :: b :: r) a) with (last (b :: r) a). rewrite last_default_irrel.
    exists dl. split; [exact El|]. cbn [clen]. lia.
Qed.

(* distances only decrease during the search *)
Lemma search_w_dec n : forall fuel Sm G1 V st st' x d, (x < n)%nat -> sD st x = Some d ->
  search_w fuel n Sm G1 V st = Some st' -> exists d', sD st' x = Some d' /\ d' <= d.
Proof.
  induction fuel as [|f IH]; intros Sm G1 V st st' x d Hx Hd E; [discriminate|].
  cbn [search_w] in E.
  set (S1 := tabv false n (fun i => if nmem i V then false else Sm i)) in *.
  set (G2 := zero_cols n V G1) in *.
  set (st1 := tab_sst n (fold_left (visit_w n G2) V st)) in *.
  assert (H1 : exists d1, sD st1 x = Some d1 /\ d1 <= d).
  { unfold st1. destruct (tab_sst_spec n (fold_left (visit_w n G2) V st)) as (TD & _). rewrite (TD x Hx).
    apply fold_visit_w_dec. exact Hd. }
  destruct H1 as (d1 & E1 & Hle1).
  destruct (wherev n S1) as [|a sel'] eqn:Esel.
  - inversion E; subst. exists d1. auto.
  - cbn zeta in E. destruct (isinf (min_over (sD st1) (a :: sel'))).
    + unfold fill_front in E. destruct (Nat.eqb _ _); [|discriminate]. inversion E; subst.
      cbn [sD]. exists d1. auto.
    + destruct (IH _ _ _ _ _ x d1 Hx E1 E) as (d2 & E2 & Hle2). exists d2. split; [exact E2|lia].
Qed.

(* path-counting phase of betweenness_wei / edge_betweenness_wei: the DISTANCES are correct (and the reached set,
   and NP >= 1 on it).  The rest of search_correct_wei (Properties/C08.v) is BetweenFull.search_w_correct. *)
Theorem search_w_dist n G u : (u < n)%nat -> nonneg_len n G ->
  exists st, source_w n G u = Some st /\
    (forall x, (x < n)%nat -> match sD st x with Some d => is_dist n G u x d | None => ~ reachable n G u x end) /\
    (forall x, (x < n)%nat -> sD st x = dist_spec n G u x) /\
    (forall x, (x < n)%nat -> reachable n G u x -> 1 <= sNP st x).
Proof.
  intros Hu HG. destruct (queue_slots_w_closed n G u Hu HG) as (st & E & Hok & Hcl). exists st.
  split; [exact E|].
  assert (HS : Snd n G u st).
  { unfold source_w in E. apply (search_w_snd n G u _ _ _ _ _ st) in E; [exact E| | |].
    - intros v [<-|[]]. exact Hu.
    - intros i j Hi Hj. rewrite tab_spec by assumption. reflexivity.
    - intros x d Hx. unfold init_w. cbn [sD]. unfold vupd. destruct (Nat.eqb_spec x u) as [->|Hne]; [|discriminate].
      intros Ed. inversion Ed; subst d. exists [u]. split; [|reflexivity].
      unfold wft. cbn [last inb forallb chain]. rewrite Nat.eqb_refl, (proj2 (Nat.ltb_lt u n) Hu). reflexivity. }
  (* D[u] = 0 *)
  assert (Hdu : sD st u = Some 0).
  { unfold source_w in E.
    assert (E0 : sD (init_w n u) u = Some 0) by (unfold init_w; cbn [sD]; apply vupd_same).
    destruct (search_w_dec n n (fun _ => true) (tab 0 n n G) [u] (init_w n u) st u 0 Hu E0 E) as (d' & Ed' & Hle).
    destruct (HS u d' Hu Ed') as (p & Hp & Hl). apply wft_iff in Hp. destruct Hp as (_ & _ & Hi & Ho).
      pose proof (wlen_ge n G p HG Hi Ho) as Hge. assert (p <> []) by (intros ->; discriminate).
      destruct p; [congruence|]. cbn [length] in Hge. assert (d' = 0) by lia. congruence. }

  destruct Hok as (front & _ & _ & _ & _ & _ & _ & _ & _ & _ & _ & _ & HNP).
  assert (Hlow : forall x p, wft n G u x p = true -> exists dl, sD st x = Some dl /\ dl <= wlen G p).
  { intros x p Hp. apply wft_iff in Hp. destruct Hp as (Hh & Hl & Hi & Ho).
    destruct p as [|a r]; [discriminate|]. inversion Hh; subst a. cbn [okl] in Ho.
    cbn [inb forallb] in Hi. apply andb_true_iff in Hi. destruct Hi as [_ Hi].
    destruct (closed_chain n G st Hcl r u 0 Hu Hdu Hi Ho) as (dl & El & Hle). rewrite Hl in El.
    exists dl. split; [exact El|]. cbn [wlen]. lia. }
  assert (Hmain : forall x, (x < n)%nat ->
            match sD st x with Some d => is_dist n G u x d | None => ~ reachable n G u x end).
  { intros x Hx. destruct (sD st x) as [d|] eqn:Ed.
    - split.
      + destruct (HS x d Hx Ed) as (p & Hp & Hl). exists p. split; [exact Hp|exact Hl].
      + intros p Hp. destruct (Hlow x p Hp) as (dl & El & Hle). assert (dl = d) by congruence. lia.
    - intros [p Hp]. destruct (Hlow x p Hp) as (dl & El & _). congruence. }
  split; [exact Hmain|]. split.
  - intros x Hx. specialize (Hmain x Hx). pose proof (dist_spec_correct n G u x HG) as Hspec.
    destruct (sD st x) as [d|] eqn:Ed, (dist_spec n G u x) as [d'|] eqn:Es.
    + destruct Hmain as [[p [Hp Hl]] Hmin], Hspec as [[p' [Hp' Hl']] Hmin'].
      specialize (Hmin p' Hp'). specialize (Hmin' p Hp). f_equal. lia.
    + exfalso. apply Hspec. destruct Hmain as [[p [Hp _]] _]. exists p. exact Hp.
    + exfalso. apply Hmain. destruct Hspec as [[p [Hp _]] _]. exists p. exact Hp.
    + reflexivity.
  - intros x Hx Hr. specialize (Hmain x Hx). destruct (sD st x) as [d|] eqn:Ed; [|contradiction].
    assert (0 < sNP st x) by (apply HNP; [exact Hx|congruence]). lia.
Qed.
