(* Proofs/BetweenPaths.v — path-counting phase of the weighted routines, PARTIAL correctness:
   every finite D[x] is the length of an actual walk u -> x (soundness of D), a node is reached iff it is
   reachable (the reached set is closed under connections), and reachable nodes have NP >= 1.
   NOT proved: minimality of D, NP = sigma, P = the tight connections. *)
From Coq Require Import QArith Lia List Arith Bool ZArith Permutation Sorted.
From BCT Require Import Base.Mat Base.SumQ Base.ListX Model.Between
  Proofs.BetweenAccum Proofs.BetweenReady Proofs.BetweenQueue Proofs.BetweenSpec.
Import ListNotations.
Open Scope Z_scope.

Lemma walk_snoc n G s v w p : wft n G s v p = true -> (w < n)%nat -> G v w <> 0 ->
  wft n G s w (p ++ [w]) = true /\ wlen G (p ++ [w]) = wlen G p + G v w.
Proof.
  intros Hp Hw Hg. apply wft_iff in Hp. destruct Hp as (Hh & Hl & Hi & Ho).
  assert (Hne : p <> []) by (intros ->; discriminate).
  destruct (exists_last Hne) as [l [z E]]. subst p. rewrite last_last in Hl. subst z.
  rewrite <- app_assoc. cbn [app]. split.
  - apply wft_iff. split; [|split; [|split]].
    + destruct l; cbn [app hd_error] in *; exact Hh.
    + change (l ++ [v; w]) with (l ++ v :: [w]). rewrite last_app_cons. reflexivity.
    + rewrite inb_app in *. apply andb_true_iff in Hi. destruct Hi as [-> Hv]. cbn [andb].
      cbn [inb forallb] in *. rewrite andb_true_r in Hv. rewrite Hv. cbn [andb].
      rewrite andb_true_r. apply Nat.ltb_lt. exact Hw.
    + rewrite okl_app, Ho. cbn [andb okl chain]. rewrite andb_true_r. unfold edge.
      apply negb_true_iff, Z.eqb_neq. exact Hg.
  - rewrite wlen_app. cbn [wlen clen]. lia.
Qed.

Definition Snd (n : nat) (G : mat Z) (u : nat) (st : sst) : Prop :=
  forall x d, (x < n)%nat -> sD st x = Some d -> exists p, wft n G u x p = true /\ wlen G p = d.
Definition Gsub (n : nat) (G G1 : mat Z) : Prop :=
  forall i j, (i < n)%nat -> (j < n)%nat -> G1 i j <> 0 -> G1 i j = G i j.

Lemma relax_w_snd n G u G1 v st w : (v < n)%nat -> (w < n)%nat -> G1 v w <> 0 -> Gsub n G G1 ->
  Snd n G u st -> Snd n G u (relax_w G1 v st w).
Proof.
  intros Hv Hw Hg Hsub HS. unfold relax_w.
  destruct (xlt (xadd (sD st v) (G1 v w)) (sD st w)) eqn:E1.
  - intros x d Hx. cbn [sD]. unfold vupd. destruct (Nat.eqb_spec x w) as [->|Hne]; [|apply HS; exact Hx].
    destruct (sD st v) as [dv|] eqn:Ev; [|discriminate]. cbn [xadd]. intros E. inversion E; subst d.
    destruct (HS v dv Hv Ev) as (p & Hp & Hl).
    assert (Hgg : G v w <> 0) by (rewrite <- (Hsub v w Hv Hw Hg); exact Hg).
    destruct (walk_snoc n G u v w p Hp Hw Hgg) as [H1 H2]. exists (p ++ [w]). split; [exact H1|].
    rewrite H2, Hl, (Hsub v w Hv Hw Hg). reflexivity.
  - destruct (xeq _ _); exact HS.
Qed.

Lemma visit_w_snd n G u G1 st v : (v < n)%nat -> Gsub n G G1 -> Snd n G u st -> Snd n G u (visit_w n G1 st v).
Proof.
  intros Hv Hsub HS. unfold visit_w.
  assert (Hl : forall w, In w (wherev n (fun w => nzb (G1 v w))) -> (w < n)%nat /\ G1 v w <> 0).
  { intros w Hw. apply wherev_In in Hw. destruct Hw as [H1 H2]. split; [exact H1|].
    unfold nzb in H2. apply negb_true_iff, Z.eqb_neq in H2. exact H2. }
  assert (HS' : Snd n G u (push st v)) by (unfold Snd, push in *; cbn [sD]; exact HS).
  revert Hl HS'. generalize (push st v). generalize (wherev n (fun w => nzb (G1 v w))).
  induction l as [|w l IH]; intros s Hl Hs; cbn [fold_left]; [exact Hs|].
  apply IH; [intros x Hx; apply Hl; right; exact Hx|].
  destruct (Hl w (or_introl eq_refl)) as [H1 H2]. apply relax_w_snd; assumption.
Qed.

Lemma fold_visit_w_snd n G u G1 V : forall st, (forall v, In v V -> (v < n)%nat) -> Gsub n G G1 ->
  Snd n G u st -> Snd n G u (fold_left (visit_w n G1) V st).
Proof.
  induction V as [|v V IH]; intros st HV Hsub HS; cbn [fold_left]; [exact HS|].
  apply IH; [intros x Hx; apply HV; right; exact Hx|exact Hsub|].
  apply visit_w_snd; auto. apply HV. left; reflexivity.
Qed.

Lemma search_w_snd n G u : forall fuel Sm G1 V st st',
  (forall v, In v V -> (v < n)%nat) -> Gsub n G G1 -> Snd n G u st ->
  search_w fuel n Sm G1 V st = Some st' -> Snd n G u st'.
Proof.
  induction fuel as [|f IH]; intros Sm G1 V st st' HV Hsub HS E; [discriminate|].
  cbn [search_w] in E.
  set (S1 := tabv false n (fun i => if nmem i V then false else Sm i)) in *.
  set (G2 := zero_cols n V G1) in *.
  set (st1 := tab_sst n (fold_left (visit_w n G2) V st)) in *.
  assert (Hsub2 : Gsub n G G2).
  { intros i j Hi Hj. unfold G2, zero_cols. rewrite tab_spec by assumption.
    destruct (nmem j V); [congruence|]. apply Hsub; assumption. }
  assert (HS1 : Snd n G u st1).
  { intros x d Hx. unfold st1. destruct (tab_sst_spec n (fold_left (visit_w n G2) V st)) as (TD & _).
    rewrite (TD x Hx). apply (fold_visit_w_snd n G u G2 V st HV Hsub2 HS x d Hx). }
  destruct (wherev n S1) as [|a sel'] eqn:Esel.
  - inversion E; subst. exact HS1.
  - cbn zeta in E. destruct (isinf (min_over (sD st1) (a :: sel'))).
    + unfold fill_front in E. destruct (Nat.eqb _ _); [|discriminate]. inversion E; subst.
      unfold Snd. cbn [sD]. exact HS1.
    + apply (IH _ _ _ _ _ (fun v Hv => proj1 (proj1 (wherev_In _ _ _) Hv)) Hsub2 HS1 E).
Qed.

Lemma closed_chain n G st : closed n G st -> forall r a, (a < n)%nat -> sD st a <> None ->
  inb n r = true -> chain G a r = true -> sD st (last (a :: r) a) <> None.
Proof.
  intros Hc. induction r as [|b r IH]; intros a Ha Hd Hi Hch; [exact Hd|].
  cbn [inb forallb] in Hi. apply andb_true_iff in Hi. destruct Hi as [Hb Hi]. apply Nat.ltb_lt in Hb.
  cbn [chain] in Hch. apply andb_true_iff in Hch. destruct Hch as [He Hch].
  unfold edge in He. apply negb_true_iff, Z.eqb_neq in He.
  assert (Hdb : sD st b <> None) by (apply (Hc a b); assumption).
  specialize (IH b Hb Hdb Hi Hch).
  change (last (a :: b :: r) a) with (last (b :: r) a).
  replace (last (b :: r) a) with (last (b :: r) b); [exact IH|].
  clear. revert b. induction r as [|c r IH]; intros b; [reflexivity|]. cbn [last] in *. destruct r; [reflexivity|apply IH].
Qed.

(* path-counting phase of betweenness_wei / edge_betweenness_wei: PARTIAL correctness *)
Theorem search_w_reach_partial n G u : (u < n)%nat -> nonneg_len n G ->
  exists st, source_w n G u = Some st /\
    (forall x, (x < n)%nat -> (sD st x <> None <-> reachable n G u x)) /\
    (forall x d, (x < n)%nat -> sD st x = Some d -> exists p, is_walk n G u x p /\ wlen G p = d) /\
    (forall x, (x < n)%nat -> reachable n G u x -> 1 <= sNP st x).
Proof.
  intros Hu HG. destruct (queue_slots_w_closed n G u Hu HG) as (st & E & Hok & Hcl). exists st.
  split; [exact E|].
  assert (HS : Snd n G u st).
  { unfold source_w in E. apply (search_w_snd n G u _ _ _ _ _ st) in E; [exact E| | |].
    - intros v [<-|[]]. exact Hu.
    - intros i j Hi Hj. rewrite tab_spec by assumption. reflexivity.
    - intros x d Hx. unfold init_w. cbn [sD]. unfold vupd. destruct (Nat.eqb_spec x u) as [->|Hne]; [|discriminate].
      intros Ed. inversion Ed; subst d. exists [u]. split; [|reflexivity].
      unfold wft. cbn [last inb forallb chain]. rewrite Nat.eqb_refl, (proj2 (Nat.ltb_lt u n) Hu). reflexivity. }
  destruct Hok as (front & _ & _ & _ & _ & _ & _ & Hv & _ & Hlast & Hne & _ & HNP).
  assert (Hdu : sD st u <> None).
  { assert (In u (vis n st)). { destruct (exists_last Hne) as [l [z Ez]]. rewrite Ez, last_last in Hlast. subst z.
      rewrite Ez. apply in_app_iff. right. left. reflexivity. }
    apply Hv in H. tauto. }
  assert (Hreach : forall x, (x < n)%nat -> (sD st x <> None <-> reachable n G u x)).
  { intros x Hx. split.
    - intros Hd. destruct (sD st x) as [d|] eqn:Ed; [|congruence]. destruct (HS x d Hx Ed) as (p & Hp & _).
      exists p. exact Hp.
    - intros [p Hp]. apply wft_iff in Hp. destruct Hp as (Hh & Hl & Hi & Ho).
      destruct p as [|a r]; [discriminate|]. inversion Hh; subst a. cbn [okl] in Ho.
      cbn [inb forallb] in Hi. apply andb_true_iff in Hi. destruct Hi as [_ Hi].
      rewrite <- Hl. apply (closed_chain n G st Hcl r u Hu Hdu Hi Ho). }
  split; [exact Hreach|]. split.
  - intros x d Hx Ed. destruct (HS x d Hx Ed) as (p & Hp & Hl). exists p. split; [exact Hp|exact Hl].
  - intros x Hx Hr. apply Hreach in Hr; [|exact Hx]. specialize (HNP x Hx Hr). lia.
Qed.
