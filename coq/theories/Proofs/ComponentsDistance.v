(* Proofs/ComponentsDistance.v — C16 meets C03: the labels of get_components agree with the finite
   entries of the distance_bin model.  Uses from C03 only: Model.Distance (reachable, below, wl,
   distance_bin) and Proofs.DistanceBin (Lbin, bw, wl_bin, distance_bin_inf_iff). *)
From Coq Require Import QArith List Arith Bool ZArith Lia.
From BCT Require Import Base.Mat Base.ListX Model.Components Proofs.Components Model.Distance Proofs.DistanceBin.
Import ListNotations.
Local Open Scope nat_scope.

Lemma bw_path n A mid : below n mid -> forall i j, i < n -> j < n -> bw A i mid j -> Components.path n A i j.
Proof.
  induction mid as [|m r IH]; intros Hb i j Hi Hj Hw; cbn [bw] in Hw.
  - exact (path_step n A i j j Hi Hj Hw (path_refl n A j)).
  - destruct Hw as [H1 H2]. inversion Hb as [|? ? Hm Hr]; subst.
    exact (path_step n A i m j Hi Hm H1 (IH Hr m j Hm Hj H2)).
Qed.

Lemma path_bw n A i j : Components.path n A i j -> j < n -> i = j \/ exists mid, below n mid /\ bw A i mid j.
Proof.
  induction 1 as [|u v w Hu Hv Huv Hp IH]; intros Hj; [left; reflexivity|]. right.
  destruct (IH Hj) as [->|[mid [Hb Hw]]].
  - exists []. split; [constructor|exact Huv].
  - exists (v :: mid). split; [constructor; assumption|]. cbn [bw]. split; assumption.
Qed.

Lemma reachable_path n A i j : i < n -> j < n -> i <> j ->
  (reachable n (Lbin A) i j <-> Components.path n A i j).
Proof.
  intros Hi Hj Hne. unfold reachable. split.
  - intros [mid [Hb Hw]]. pose proof (wl_bin A mid i j) as W.
    destruct (wl (Lbin A) i mid j); [|congruence]. destruct W as [W _]. exact (bw_path n A mid Hb i j Hi Hj W).
  - intros Hp. destruct (path_bw n A i j Hp Hj) as [->|[mid [Hb Hw]]]; [congruence|].
    exists mid. split; [exact Hb|]. pose proof (wl_bin A mid i j) as W.
    destruct (wl (Lbin A) i mid j); [discriminate|contradiction].
Qed.

Theorem agrees_with_distance_bin n A comps sizes D :
  get_components n A = Some (comps, sizes) -> distance_bin n A = Some D ->
  forall u v, u < n -> v < n -> u <> v -> (nth u comps 0 = nth v comps 0 <-> D u v <> None).
Proof.
  intros Hg Hd u v Hu Hv Hne.
  rewrite (distance_bin_inf_iff n A D Hd u v Hu Hv Hne), (reachable_path n A u v Hu Hv Hne).
  exact (proj2 (components_iff_path n A comps sizes Hg) u v Hu Hv).
Qed.
