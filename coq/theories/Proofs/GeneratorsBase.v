(* Proofs/GeneratorsBase.v — counting lemmas shared by the generator proofs:
   sums of indicators over the grid, setting a duplicate-free list of cells, picking through a permutation. *)
From Coq Require Import ZArith List Arith Bool Lia Permutation.
From BCT Require Import Base.Mat Base.ListX Model.Generators.
Import ListNotations.
Open Scope Z_scope.

Lemma sumn_single (x : nat) (v : Z) n : (x < n)%nat ->
  sumn (fun i => if Nat.eqb i x then v else 0) n = v.
Proof.
  intros Hx. rewrite (sumn_split _ n x Hx). rewrite Nat.eqb_refl.
  rewrite (sumn_ext _ (fun _ => 0)); [rewrite sumn_zero; lia|].
  intros i _. destruct (Nat.eqb_spec i x); reflexivity.
Qed.

Lemma sum2_add f g n : sum2 (fun i j => f i j + g i j) n = sum2 f n + sum2 g n.
Proof. unfold sum2. rewrite <- sumn_add. apply sumn_ext; intros. apply sumn_add. Qed.

Lemma sum2_zero n : sum2 (fun _ _ => 0) n = 0.
Proof. unfold sum2. rewrite (sumn_ext _ (fun _ => 0)); [apply sumn_zero|]. intros; apply sumn_zero. Qed.

Lemma sum2_scal c f n : sum2 (fun i j => c * f i j) n = c * sum2 f n.
Proof. unfold sum2. rewrite <- sumn_scal. apply sumn_ext; intros. apply sumn_scal. Qed.

Lemma sum2_single (x y : nat) (v : Z) n : (x < n)%nat -> (y < n)%nat ->
  sum2 (fun i j => if (Nat.eqb i x && Nat.eqb j y)%bool then v else 0) n = v.
Proof.
  intros Hx Hy. unfold sum2.
  rewrite (sumn_ext _ (fun i => if Nat.eqb i x then v else 0)); [apply sumn_single; exact Hx|].
  intros i _. destruct (Nat.eqb_spec i x); cbn [andb].
  - apply sumn_single; exact Hy.
  - apply sumn_zero.
Qed.

Lemma sum2_nonneg f n : (forall i j, (i < n)%nat -> (j < n)%nat -> 0 <= f i j) -> 0 <= sum2 f n.
Proof. intros H. unfold sum2. apply sumn_nonneg. intros i Hi. apply sumn_nonneg. intros j Hj. auto. Qed.

Lemma sum2_le f g n : (forall i j, (i < n)%nat -> (j < n)%nat -> f i j <= g i j) -> sum2 f n <= sum2 g n.
Proof. intros H. unfold sum2. apply sumn_le. intros i Hi. apply sumn_le. intros j Hj. auto. Qed.

(* a sum of non-negative terms that is 0 has only zero terms *)
Lemma sumn_zero_inv f n : (forall i, (i < n)%nat -> 0 <= f i) -> sumn f n = 0 -> forall i, (i < n)%nat -> f i = 0.
Proof.
  induction n; intros Hnn Hs i Hi; [lia|]. cbn [sumn] in Hs.
  assert (H1 : 0 <= sumn f n) by (apply sumn_nonneg; intros; apply Hnn; lia).
  assert (H2 : 0 <= f n) by (apply Hnn; lia).
  destruct (Nat.eq_dec i n) as [->|Hne]; [lia|]. apply IHn; try lia. intros; apply Hnn; lia.
Qed.

Definition in_grid (n : nat) (L : list cell) : Prop := forall c, In c L -> (fst c < n)%nat /\ (snd c < n)%nat.

Lemma cmem_cons c d L : cmem c (d :: L) = (cell_eqb c d || cmem c L)%bool.
Proof. reflexivity. Qed.

(* number of grid cells that belong to a duplicate-free list inside the grid = its length *)
Lemma sum2_cmem (L : list cell) n : NoDup L -> in_grid n L ->
  sum2 (fun i j => b2z (cmem (i, j) L)) n = Z.of_nat (length L).
Proof.
  induction L as [|c L IH]; intros Hnd Hg.
  - cbn [length cmem existsb b2z]. apply sum2_zero.
  - inversion Hnd as [|? ? Hc HL]; subst.
    assert (HgL : in_grid n L) by (intros d Hd; apply Hg; right; exact Hd).
    destruct (Hg c (or_introl eq_refl)) as [Hx Hy]. destruct c as [x y]; cbn [fst snd] in *.
    rewrite (sum2_ext _ (fun i j => (if (Nat.eqb i x && Nat.eqb j y)%bool then 1 else 0) + b2z (cmem (i, j) L)) n).
    + rewrite sum2_add, IH by assumption. rewrite sum2_single by assumption.
      cbn [length]. lia.
    + intros i j _ _. rewrite cmem_cons. unfold cell_eqb; cbn [fst snd].
      destruct (Nat.eqb_spec i x); destruct (Nat.eqb_spec j y); cbn [andb orb]; try lia.
      subst. destruct (cmem (x, y) L) eqn:E; [apply cmem_In in E; contradiction|]. cbn [b2z]. lia.
Qed.

(* sum over the grid after writing v into a duplicate-free list of cells that all held a *)
Lemma sum2_set_cells (M : mat Z) (L : list cell) (a v : Z) n : NoDup L -> in_grid n L ->
  (forall c, In c L -> M (fst c) (snd c) = a) ->
  sum2 (set_cells M L v) n = sum2 M n + (v - a) * Z.of_nat (length L).
Proof.
  intros Hnd Hg Ha. rewrite <- (sum2_cmem L n Hnd Hg). rewrite <- sum2_scal, <- sum2_add.
  apply sum2_ext. intros i j _ _. unfold set_cells.
  destruct (cmem (i, j) L) eqn:E; cbn [b2z]; [|lia].
  apply cmem_In in E. specialize (Ha _ E). cbn [fst snd] in Ha. lia.
Qed.

(* counting the cells that satisfy a predicate = length of the filtered row-major enumeration *)
Lemma sum2_filter (p : cell -> bool) n :
  sum2 (fun i j => b2z (p (i, j))) n = Z.of_nat (length (filter p (cells n))).
Proof.
  rewrite <- (sum2_cmem (filter p (cells n)) n).
  - apply sum2_ext. intros i j Hi Hj. f_equal.
    destruct (cmem (i, j) (filter p (cells n))) eqn:E.
    + apply cmem_In in E. apply filter_In in E. destruct E as [_ E]. rewrite E. reflexivity.
    + apply cmem_false in E. destruct (p (i, j)) eqn:Ep; [|reflexivity].
      exfalso. apply E. apply filter_In. split; [apply cells_In; lia|exact Ep].
  - apply NoDup_filter. apply cells_NoDup.
  - intros c Hc. apply filter_In in Hc. destruct Hc as [Hc _]. destruct c; apply cells_In in Hc. exact Hc.
Qed.

Lemma filter_cells_grid (p : cell -> bool) n : in_grid n (filter p (cells n)).
Proof. intros c Hc. apply filter_In in Hc. destruct Hc as [Hc _]. destruct c; apply cells_In in Hc. exact Hc. Qed.

Lemma filter_cells_NoDup (p : cell -> bool) n : NoDup (filter p (cells n)).
Proof. apply NoDup_filter. apply cells_NoDup. Qed.

Lemma filter_cells_In (p : cell -> bool) n i j :
  In (i, j) (filter p (cells n)) <-> (i < n)%nat /\ (j < n)%nat /\ p (i, j) = true.
Proof. rewrite filter_In, cells_In. tauto. Qed.

(* ---------- ix[rp][:k] when rp is a permutation of the positions of ix ---------- *)
Lemma incl_firstn {A} k (l : list A) x : In x (firstn k l) -> In x l.
Proof.
  revert l. induction k; intros l H; cbn [firstn] in H; [contradiction|]. destruct l; [contradiction|].
  destruct H as [H|H]; [left; exact H|right; apply IHk; exact H].
Qed.

Lemma NoDup_firstn {A} k (l : list A) : NoDup l -> NoDup (firstn k l).
Proof.
  revert l. induction k; intros l H; cbn [firstn]; [constructor|]. destruct l; [constructor|].
  inversion H; subst. constructor; [|apply IHk; assumption].
  intros Hin. apply incl_firstn in Hin. contradiction.
Qed.

Lemma NoDup_map_nth {A} (ix : list A) d (ts : list nat) :
  NoDup ix -> NoDup ts -> (forall t, In t ts -> (t < length ix)%nat) -> NoDup (map (fun t => nth t ix d) ts).
Proof.
  intros Hix. induction ts as [|t ts IH]; intros Hts Hlt; cbn [map]; [constructor|].
  inversion Hts; subst. constructor.
  - intros Hin. apply in_map_iff in Hin. destruct Hin as [u [Hu Hin]].
    assert (u = t).
    { apply (proj1 (NoDup_nth ix d) Hix); [apply Hlt; right; exact Hin|apply Hlt; left; reflexivity|exact Hu]. }
    subst. contradiction.
  - apply IH; [assumption|]. intros; apply Hlt; right; assumption.
Qed.

Section Pick.
Variables (ix : list cell) (rp : list nat) (k : nat).
Hypothesis Hix : NoDup ix.
Hypothesis Hrp : Permutation rp (seq 0 (length ix)).

Lemma rp_lt t : In t rp -> (t < length ix)%nat.
Proof. intros H. apply (Permutation_in _ Hrp) in H. apply in_seq in H. lia. Qed.

Lemma rp_NoDup : NoDup rp.
Proof. apply (Permutation_NoDup (Permutation_sym Hrp)). apply seq_NoDup. Qed.

Lemma pick_NoDup : NoDup (pick ix rp k).
Proof.
  unfold pick. apply NoDup_map_nth; [exact Hix|apply NoDup_firstn; exact rp_NoDup|].
  intros t Ht. apply rp_lt. apply (incl_firstn k); exact Ht.
Qed.

Lemma pick_length : length (pick ix rp k) = Nat.min k (length ix).
Proof.
  unfold pick. rewrite map_length, firstn_length.
  rewrite (Permutation_length Hrp), seq_length. reflexivity.
Qed.

Lemma pick_incl c : In c (pick ix rp k) -> In c ix.
Proof.
  unfold pick. intros H. apply in_map_iff in H. destruct H as [t [<- Ht]].
  apply nth_In. apply rp_lt. apply (incl_firstn k); exact Ht.
Qed.
End Pick.

Lemma set_cells_in M L v i j : In (i, j) L -> set_cells M L v i j = v.
Proof. intros H. unfold set_cells. apply cmem_In in H. rewrite H. reflexivity. Qed.
Lemma set_cells_out M L v i j : ~ In (i, j) L -> set_cells M L v i j = M i j.
Proof. intros H. unfold set_cells. apply cmem_false in H. rewrite H. reflexivity. Qed.
Lemma set_cells_cases M L v i j : set_cells M L v i j = v \/ set_cells M L v i j = M i j.
Proof. unfold set_cells. destruct (cmem (i, j) L); auto. Qed.
