(* Proofs/EquivModels.v — C04 for the STATEMENT-LEVEL models of the routines whose code is a search
   (matrix-power loop, Floyd-Warshall `for k in range(n)`, Dijkstra with its batch of equal-distance nodes,
   breadth-first queue): the models of Model/Distance.v, which follow the code's loops and their visiting
   order, commute with every renumbering of the nodes.

   Shape of every proof:  model = specification (C03's correctness theorems, proved for the loop as written)
                          /\  the specification is equivariant (this file: a renumbering maps walks to walks,
                              hence minimum lengths to minimum lengths)
                          /\  the specification determines its value (C03: is_min_dist_unique)
                          ==>  model (p.A) = p.(model A).
   Part 0 is the permutation toolkit (inverse renumbering) shared with Proofs/EquivModels*.v. *)
From Coq Require Import QArith Lia Arith List Bool Permutation ZArith.
From BCT Require Import Base.Mat Base.SumQ Base.ListX Model.SymTerm.
From BCT Require Proofs.SymTerm.
From BCT Require Import Model.Distance Proofs.DistanceBase Proofs.DistanceFloyd Proofs.DistanceBin Proofs.DistanceOther
  Proofs.DistanceReach Proofs.DistanceWei Proofs.DistanceFull Proofs.DistanceBFS Proofs.DistanceAgree.
Import ListNotations.
Open Scope Q_scope.

(* ================================================================== *)
(* Part 0 — renumberings have inverses                                  *)
(* ================================================================== *)
Lemma perm_lt n p i : perm_on n p -> (i < n)%nat -> (p i < n)%nat.
Proof. exact (Proofs.SymTerm.perm_lt n p i). Qed.
Lemma perm_lt_inv n p i : perm_on n p -> (p i < n)%nat -> (i < n)%nat.
Proof. intros [H _] Hi. apply H. exact Hi. Qed.
Lemma perm_inj n p i j : perm_on n p -> p i = p j -> i = j.
Proof. intros [_ H]. apply H. Qed.

Lemma perm_surj n p j : perm_on n p -> (j < n)%nat -> exists i, (i < n)%nat /\ p i = j.
Proof.
  intros Hp Hj. pose proof (Proofs.SymTerm.perm_map_seq n p Hp) as HP.
  assert (Hin : In j (map p (seq 0 n))).
  { apply (Permutation_in j (Permutation_sym HP)). apply in_seq. lia. }
  apply in_map_iff in Hin. destruct Hin as [i [Hi Hin]]. exists i. split; [apply in_seq in Hin; lia|exact Hi].
Qed.

(* the inverse renumbering, as a function (identity outside [0,n)) *)
Definition inv_perm (n : nat) (p : nat -> nat) (j : nat) : nat :=
  match find (fun i => Nat.eqb (p i) j) (seq 0 n) with Some i => i | None => j end.

Lemma inv_perm_r n p j : perm_on n p -> (j < n)%nat -> p (inv_perm n p j) = j /\ (inv_perm n p j < n)%nat.
Proof.
  intros Hp Hj. unfold inv_perm. destruct (find (fun i => Nat.eqb (p i) j) (seq 0 n)) as [i|] eqn:E.
  - apply find_some in E. destruct E as [Hin E]. apply Nat.eqb_eq in E. apply in_seq in Hin. split; [exact E|lia].
  - exfalso. destruct (perm_surj n p j Hp Hj) as [i [Hi Hpi]].
    pose proof (find_none _ _ E i) as Hn. cbv beta in Hn. rewrite Hpi, Nat.eqb_refl in Hn.
    assert (In i (seq 0 n)) by (apply in_seq; lia). specialize (Hn H). discriminate.
Qed.
Lemma inv_perm_l n p i : perm_on n p -> (i < n)%nat -> inv_perm n p (p i) = i.
Proof.
  intros Hp Hi. destruct (inv_perm_r n p (p i) Hp (perm_lt n p i Hp Hi)) as [H _].
  apply (perm_inj n p _ _ Hp H).
Qed.
Lemma inv_perm_out n p j : (n <= j)%nat -> perm_on n p -> inv_perm n p j = j.
Proof.
  intros Hj Hp. unfold inv_perm. destruct (find (fun i => Nat.eqb (p i) j) (seq 0 n)) as [i|] eqn:E; [|reflexivity].
  apply find_some in E. destruct E as [Hin E]. apply Nat.eqb_eq in E. apply in_seq in Hin.
  assert (p i < n)%nat by (apply (perm_lt n p i Hp); lia). lia.
Qed.
Lemma inv_perm_perm_on n p : perm_on n p -> perm_on n (inv_perm n p).
Proof.
  intros Hp. split.
  - intros j. destruct (Nat.lt_ge_cases j n) as [Hj|Hj].
    + split; [intros _; apply (inv_perm_r n p j Hp Hj)|intros _; exact Hj].
    + rewrite (inv_perm_out n p j Hj Hp). tauto.
  - intros a b E.
    destruct (Nat.lt_ge_cases a n) as [Ha|Ha]; destruct (Nat.lt_ge_cases b n) as [Hb|Hb].
    + destruct (inv_perm_r n p a Hp Ha) as [E1 _]. destruct (inv_perm_r n p b Hp Hb) as [E2 _]. congruence.
    + destruct (inv_perm_r n p a Hp Ha) as [_ E1]. rewrite (inv_perm_out n p b Hb Hp) in E. lia.
    + destruct (inv_perm_r n p b Hp Hb) as [_ E1]. rewrite (inv_perm_out n p a Ha Hp) in E. lia.
    + rewrite (inv_perm_out n p a Ha Hp), (inv_perm_out n p b Hb Hp) in E. exact E.
Qed.

Lemma below_map_perm n p l : perm_on n p -> below n l -> below n (map p l).
Proof.
  intros Hp H. unfold below in *. apply Forall_forall. intros x Hx. apply in_map_iff in Hx.
  destruct Hx as [y [<- Hy]]. apply (perm_lt n p y Hp). exact (proj1 (Forall_forall _ _) H y Hy).
Qed.
Lemma map_perm_inv n p l : perm_on n p -> below n l -> map p (map (inv_perm n p) l) = l.
Proof.
  intros Hp H. rewrite map_map. rewrite <- (map_id l) at 2. apply map_ext_in. intros a Ha.
  apply (inv_perm_r n p a Hp). exact (proj1 (Forall_forall _ _) H a Ha).
Qed.

(* number of nodes of a set, counted in either numbering *)
Lemma filter_length_perm {A} (f : A -> bool) l l' : Permutation l l' -> length (filter f l) = length (filter f l').
Proof.
  induction 1 as [|x l l' _ IH|x y l|l l' l'' _ IH1 _ IH2]; cbn [filter].
  - reflexivity.
  - destruct (f x); cbn [length]; congruence.
  - destruct (f x), (f y); reflexivity.
  - congruence.
Qed.
Lemma filter_map_comm {A B} (g : A -> B) (f : B -> bool) l : filter f (map g l) = map g (filter (fun a => f (g a)) l).
Proof. induction l as [|a l IH]; cbn [map filter]; [reflexivity|]. destruct (f (g a)); cbn [map]; congruence. Qed.
Lemma count_perm n p (S : nat -> bool) : perm_on n p ->
  length (filter (fun j => S (p j)) (seq 0 n)) = length (filter S (seq 0 n)).
Proof.
  intros Hp. rewrite <- (filter_length_perm S _ _ (Proofs.SymTerm.perm_map_seq n p Hp)).
  rewrite filter_map_comm, map_length. reflexivity.
Qed.

(* re-indexing an integer sum over all nodes *)
Definition sumlZ (l : list Z) : Z := fold_right Z.add 0%Z l.
Lemma sumlZ_app l x : sumlZ (l ++ [x]) = (sumlZ l + x)%Z.
Proof. induction l as [|a l IH]; cbn [app sumlZ fold_right]; [lia|]. unfold sumlZ in IH. rewrite IH. lia. Qed.
Lemma sumn_sumlZ f n : sumn f n = sumlZ (map f (seq 0 n)).
Proof. induction n; [reflexivity|]. rewrite seq_S, map_app. cbn [plus map sumn]. rewrite sumlZ_app, IHn. reflexivity. Qed.
Lemma sumlZ_perm l l' : Permutation l l' -> sumlZ l = sumlZ l'.
Proof.
  induction 1 as [|x l l' _ IH|x y l|l l' l'' _ IH1 _ IH2]; unfold sumlZ in *; cbn [fold_right]; [reflexivity|rewrite IH; reflexivity|lia|congruence].
Qed.
Lemma sumn_reindex n p (f : nat -> Z) : perm_on n p -> sumn (fun k => f (p k)) n = sumn f n.
Proof.
  intros Hp. rewrite !sumn_sumlZ. rewrite <- (map_map p f). apply sumlZ_perm. apply Permutation_map.
  apply Proofs.SymTerm.perm_map_seq. exact Hp.
Qed.

(* ================================================================== *)
(* Part 1 — the specification of C03 is equivariant                     *)
(* ================================================================== *)
Section DistSpec.
Variables (n : nat) (p : nat -> nat).
Hypothesis Hp : perm_on n p.

(* the walk i -> mid -> j of the renumbered network IS the walk p i -> p mid -> p j of the original *)
Lemma wl_pm (L : mat len) mid : forall i j, wl (pm p L) i mid j = wl L (p i) (map p mid) (p j).
Proof. induction mid as [|m r IH]; intros i j; cbn [wl map]; [reflexivity|]. rewrite IH. reflexivity. Qed.

Lemma is_min_dist_pm (L : mat len) i j d : is_min_dist n L (p i) (p j) d -> is_min_dist n (pm p L) i j d.
Proof.
  destruct d as [x|]; cbn [is_min_dist].
  - intros [[mid [Hb [y [Hw Hy]]]] Hmin]. split.
    + exists (map (inv_perm n p) mid). split.
      * apply below_map_perm; [apply inv_perm_perm_on; exact Hp|exact Hb].
      * exists y. split; [|exact Hy]. rewrite wl_pm, (map_perm_inv n p mid Hp Hb). exact Hw.
    + intros mid' y' Hb' Hw'. rewrite wl_pm in Hw'. apply (Hmin (map p mid') y'); [apply below_map_perm; assumption|exact Hw'].
  - intros H mid' Hb'. rewrite wl_pm. apply H. apply below_map_perm; assumption.
Qed.

Lemma reachable_pm (L : mat len) i j : Distance.reachable n (pm p L) i j <-> Distance.reachable n L (p i) (p j).
Proof.
  unfold Distance.reachable. split.
  - intros [mid [Hb Hw]]. exists (map p mid). split; [apply below_map_perm; assumption|]. rewrite <- wl_pm. exact Hw.
  - intros [mid [Hb Hw]]. exists (map (inv_perm n p) mid). split.
    + apply below_map_perm; [apply inv_perm_perm_on; exact Hp|exact Hb].
    + rewrite wl_pm, (map_perm_inv n p mid Hp Hb). exact Hw.
Qed.

Lemma nonneg_pm (L : mat len) : Distance.nonneg n L -> Distance.nonneg n (pm p L).
Proof. intros H i j x Hi Hj E. apply (H (p i) (p j) x); [apply (perm_lt n p i Hp Hi)|apply (perm_lt n p j Hp Hj)|exact E]. Qed.

(* a correct distance matrix of the original network, renumbered, is a correct distance matrix of the renumbered network *)
Lemma dist_correct_pm (L D : mat len) : dist_correct n L D -> dist_correct n (pm p L) (pm p D).
Proof.
  intros H i j Hi Hj Hne. apply is_min_dist_pm. apply H; [apply (perm_lt n p i Hp Hi)|apply (perm_lt n p j Hp Hj)|].
  intros E. apply Hne. apply (perm_inj n p _ _ Hp E).
Qed.

(* ================================================================== *)
(* Part 2 — the models                                                  *)
(* ================================================================== *)
(* distance_wei_floyd: the triple loop `for k in range(n)` visits the intermediate nodes in index order *)
Theorem floyd_model_equivariant (L : mat len) : Distance.nonneg n L ->
  forall i j, (i < n)%nat -> (j < n)%nat -> oeq (spl (floyd n (pm p L)) i j) (spl (floyd n L) (p i) (p j)).
Proof.
  intros Hnn i j Hi Hj. destruct (Nat.eq_dec i j) as [->|Hne].
  - pose proof (proj1 (floyd_diag_zero n (pm p L) j)) as E1. pose proof (proj1 (floyd_diag_zero n L (p j))) as E2.
    unfold FW in E1, E2. rewrite E1, E2. apply oeq_refl.
  - apply (is_min_dist_unique n (pm p L) i j).
    + apply (floyd_correct n (pm p L) (nonneg_pm L Hnn)); assumption.
    + apply (dist_correct_pm L (spl (floyd n L)) (floyd_correct n L Hnn)); assumption.
Qed.

(* the routine as called, with each transform (the lengths of the renumbered weights are the renumbered lengths) *)
Theorem distance_wei_floyd_model_equivariant (nlog : Q -> Q) (A : mat Q) (tr : transform) :
  (forall w, 0 < w -> w <= 1 -> 0 <= nlog w) ->
  (forall i j, (i < n)%nat -> (j < n)%nat -> 0 <= A i j) ->
  (tr = TLog -> forall i j, (i < n)%nat -> (j < n)%nat -> A i j <= 1) ->
  forall i j, (i < n)%nat -> (j < n)%nat ->
    oeq (spl (distance_wei_floyd nlog n (pm p A) tr) i j) (spl (distance_wei_floyd nlog n A tr) (p i) (p j)).
Proof.
  intros Hlog HA Hle i j Hi Hj. unfold distance_wei_floyd.
  change (lengths nlog tr (pm p A)) with (pm p (lengths nlog tr A)).
  apply floyd_model_equivariant; [|exact Hi|exact Hj].
  apply lengths_nonneg; [exact HA|]. intros Htr a b Ha Hb Hnz. apply Hlog.
  - specialize (HA a b Ha Hb). destruct (Qlt_le_dec 0 (A a b)) as [H|H]; [exact H|]. exfalso. apply Hnz. apply Qle_antisym; assumption.
  - apply (Hle Htr a b Ha Hb).
Qed.

(* distance_bin: the loop over matrix powers *)
Theorem distance_bin_model_equivariant (A : mat Z) :
  exists D' D, distance_bin n (pm p A) = Some D' /\ distance_bin n A = Some D /\
    forall i j, (i < n)%nat -> (j < n)%nat -> D' i j = D (p i) (p j).
Proof.
  destruct (distance_bin_total n (pm p A)) as [D' HD']. destruct (distance_bin_total n A) as [D HD].
  exists D', D. split; [exact HD'|split; [exact HD|]]. intros i j Hi Hj.
  destruct (Nat.eq_dec i j) as [->|Hne].
  - rewrite (distance_bin_diag_zero n _ D' HD' j), (distance_bin_diag_zero n _ D HD (p j)). reflexivity.
  - apply olen_of_nat_inj. apply (is_min_dist_unique n (pm p (Lbin A)) i j).
    + apply (distance_bin_correct n (pm p A) D' HD' i j Hi Hj Hne).
    + apply (dist_correct_pm (Lbin A) (fun a b => olen_of_nat (D a b)) (distance_bin_correct n A D HD)); assumption.
Qed.

(* distance_wei: Dijkstra as written (permanent set, batch V of all nodes at the current minimum, `for v in V`).
   The DISTANCE output commutes with the renumbering.  The edge-count output B does not in general: with two
   minimum-length routes of different edge counts it records the first one met, which depends on the index
   order inside a batch (the property leaves it free; C03 proves B is the edge count of SOME minimum walk). *)
Theorem distance_wei_model_equivariant (G : mat Q) : (forall i j, (i < n)%nat -> (j < n)%nat -> 0 <= G i j) ->
  exists D' B' D B, distance_wei n (pm p G) = Some (D', B') /\ distance_wei n G = Some (D, B) /\
    forall i j, (i < n)%nat -> (j < n)%nat -> oeq (D' i j) (D (p i) (p j)).
Proof.
  intros HG.
  assert (HG' : forall i j, (i < n)%nat -> (j < n)%nat -> 0 <= pm p G i j).
  { intros i j Hi Hj. apply HG; [apply (perm_lt n p i Hp Hi)|apply (perm_lt n p j Hp Hj)]. }
  destruct (distance_wei_total n (pm p G)) as [[D' B'] HD']. destruct (distance_wei_total n G) as [[D B] HD].
  exists D', B', D, B. split; [exact HD'|split; [exact HD|]]. intros i j Hi Hj.
  destruct (Nat.eq_dec i j) as [->|Hne].
  - rewrite (proj1 (distance_wei_diag_zero n _ D' B' HD' j Hj)).
    rewrite (proj1 (distance_wei_diag_zero n _ D B HD (p j) (perm_lt n p j Hp Hj))). apply oeq_refl.
  - apply (is_min_dist_unique n (pm p (Lg G)) i j).
    + apply (proj1 (distance_wei_correct n (pm p G) D' B' HG' HD') i j Hi Hj Hne).
    + apply (dist_correct_pm (Lg G) D (proj1 (distance_wei_correct n G D B HG HD))); assumption.
Qed.

(* breadthdist: one breadth-first search per source, neighbours appended to the queue in index order.
   Both outputs, every ordered pair, diagonal included (shortest cycle through the node). *)
Theorem breadthdist_model_equivariant (C : mat Z) :
  exists R' D' R D, breadthdist n (pm p C) = Some (R', D') /\ breadthdist n C = Some (R, D) /\
    forall i j, (i < n)%nat -> (j < n)%nat -> D' i j = D (p i) (p j) /\ R' i j = R (p i) (p j).
Proof.
  destruct (breadthdist_total n (pm p C)) as [[R' D'] H']. destruct (breadthdist_total n C) as [[R D] H].
  exists R', D', R, D. split; [exact H'|split; [exact H|]]. intros i j Hi Hj.
  assert (ED : D' i j = D (p i) (p j)).
  { apply olen_of_nat_inj. apply (is_min_dist_unique n (pm p (Lbin C)) i j).
    - apply (proj1 (breadthdist_dist_correct n (pm p C) R' D' H') i j Hi Hj).
    - apply is_min_dist_pm. apply (proj1 (breadthdist_dist_correct n C R D H)); [apply (perm_lt n p i Hp Hi)|apply (perm_lt n p j Hp Hj)]. }
  split; [exact ED|].
  pose proof (breadthdist_reach_flag n _ R' D' H' i j) as F1. pose proof (breadthdist_reach_flag n _ R D H (p i) (p j)) as F2.
  rewrite ED in F1. destruct (R' i j), (R (p i) (p j)); try reflexivity.
  - exfalso. assert (X : true = true) by reflexivity. apply F1 in X. apply F2 in X. discriminate.
  - exfalso. assert (X : true = true) by reflexivity. apply F2 in X. apply F1 in X. discriminate.
Qed.

(* reachdist: the recursion over matrix powers with its row / column pruning lists *)
Lemma zlen_inj a b : oeq (zlen a) (zlen b) -> a = b.
Proof.
  destruct a as [x|], b as [y|]; cbn; try tauto; intros H.
  f_equal. unfold Qeq in H. cbn in H. lia.
Qed.
Theorem reachdist_model_equivariant (A : mat Z) :
  exists R' D' R D, reachdist n (pm p A) = Some (R', D') /\ reachdist n A = Some (R, D) /\
    forall i j, (i < n)%nat -> (j < n)%nat -> D' i j = D (p i) (p j) /\ R' i j = R (p i) (p j).
Proof.
  destruct (reachdist_total n (pm p A)) as [[R' D'] H']. destruct (reachdist_total n A) as [[R D] H].
  exists R', D', R, D. split; [exact H'|split; [exact H|]]. intros i j Hi Hj.
  pose proof (perm_lt n p i Hp Hi) as Hpi. pose proof (perm_lt n p j Hp Hj) as Hpj.
  split.
  - apply zlen_inj. apply (is_min_dist_unique n (pm p (Lbin A)) i j).
    + apply (proj1 (reachdist_dist_correct n (pm p A) R' D' H') i j Hi Hj).
    + apply is_min_dist_pm. apply (proj1 (reachdist_dist_correct n A R D H)); assumption.
  - pose proof (proj2 (reachdist_dist_correct n (pm p A) R' D' H') i j Hi Hj) as F1.
    pose proof (proj2 (reachdist_dist_correct n A R D H) (p i) (p j) Hpi Hpj) as F2.
    change (Lbin (pm p A)) with (pm p (Lbin A)) in F1. rewrite reachable_pm in F1.
    destruct (R' i j), (R (p i) (p j)); try reflexivity.
    + exfalso. assert (X : true = true) by reflexivity. apply F1 in X. apply F2 in X. discriminate.
    + exfalso. assert (X : true = true) by reflexivity. apply F2 in X. apply F1 in X. discriminate.
Qed.
End DistSpec.
