(* Proofs/BetweenCorol.v — corollaries that turn statements about the SPECIFICATION into statements about the
   ROUTINES' outputs, and the asymmetry between the two binary routines on matrices that are not 0/1:

   * bin_sum_routines: on a 0/1 matrix the node vector returned by each of the four routines sums to
     sum (distance - 1) and the connection matrix returned by each edge routine sums to sum (distance) over
     reachable ordered pairs (composition of bin_sum_BC / bin_sum_EBC with bc_correct).
   * ebc_bin_ignores_weights: edge_betweenness_bin only ever tests `!= 0` (np.where(Gu[v,:]), np.any(Gu[V,:])):
     its result on ANY matrix is its result on the 0/1 support, hence (ebc_bin_correct_any) EBC_spec / BC_spec of
     the support, for every matrix.
   * bc_bin_weighted_refuted: betweenness_bin does NOT binarise (np.array(G, dtype=float), then matrix powers of G
     itself): on a diamond with one entry 2 it returns [0, 0, 1/3, 0], its value on the support is [0, 1/2, 1/2, 0]. *)
From Coq Require Import QArith Lia List Arith Bool ZArith.
From BCT Require Import Base.Mat Base.SumQ Base.ListX Model.Between
  Proofs.BetweenAccum Proofs.BetweenReady Proofs.BetweenQueue Proofs.BetweenSpec Proofs.BetweenBin Proofs.BetweenPaths
  Proofs.BetweenTight Proofs.BetweenLast Proofs.BetweenCount Proofs.BetweenFull Proofs.BetweenBfs Proofs.BetweenPow.
Import ListNotations.
Open Scope Z_scope.

(* ------------------------------------------------------------------------------------------ *)
(* 1. the sum identities for the routines' outputs                                              *)
(* ------------------------------------------------------------------------------------------ *)
Open Scope Q_scope.
Theorem bin_sum_routines n G : binary n G ->
  (exists BC, betweenness_bin n G = Some BC /\ sumQ BC n == sum2Q (pair_dist_minus1 n G) n) /\
  (exists E B, edge_betweenness_bin n G = Some (E, B) /\
     sum2Q E n == sum2Q (pair_dist n G) n /\ sumQ B n == sum2Q (pair_dist_minus1 n G) n) /\
  (exists BC, betweenness_wei n G = Some BC /\ sumQ BC n == sum2Q (pair_dist_minus1 n G) n) /\
  (exists E B, edge_betweenness_wei n G = Some (E, B) /\
     sum2Q E n == sum2Q (pair_dist n G) n /\ sumQ B n == sum2Q (pair_dist_minus1 n G) n).
Proof.
  intros HB. pose proof (binary_nonneg n G HB) as HG.
  pose proof (bin_sum_BC n G HB) as SB. pose proof (bin_sum_EBC n G HB) as SE.
  assert (Hv : forall BC : vec Q, (forall v, (v < n)%nat -> BC v == BC_spec n G v) ->
               sumQ BC n == sum2Q (pair_dist_minus1 n G) n).
  { intros BC H. rewrite <- SB. apply sumQ_ext. exact H. }
  assert (He : forall E : mat Q, (forall x y, (x < n)%nat -> (y < n)%nat -> E x y == EBC_spec n G x y) ->
               sum2Q E n == sum2Q (pair_dist n G) n).
  { intros E H. rewrite <- SE. unfold sum2Q. apply sumQ_ext. intros x Hx. apply sumQ_ext. intros y Hy. apply H; assumption. }
  split; [|split; [|split]].
  - destruct (bc_bin_correct n G HB) as (BC & E1 & H1). exists BC. split; [exact E1|apply Hv; exact H1].
  - destruct (ebc_bin_correct n G HB) as (E & B & E1 & H1 & H2). exists E, B. split; [exact E1|]. split; [apply He; exact H2|apply Hv; exact H1].
  - destruct (bc_wei_correct n G HG) as (BC & E1 & H1). exists BC. split; [exact E1|apply Hv; exact H1].
  - destruct (ebc_wei_correct n G HG) as (E & B & E1 & H1 & H2). exists E, B. split; [exact E1|]. split; [apply He; exact H2|apply Hv; exact H1].
Qed.
Open Scope Z_scope.

(* ------------------------------------------------------------------------------------------ *)
(* 2. edge_betweenness_bin reads its argument only through `!= 0`                                *)
(* ------------------------------------------------------------------------------------------ *)
(* the 0/1 support of a matrix *)
Definition binz (G : mat Z) : mat Z := fun i j => if Z.eqb (G i j) 0 then 0 else 1.

Lemma binz_binary n G : binary n (binz G).
Proof. intros i j _ _. unfold binz. destruct (Z.eqb (G i j) 0); [left|right]; reflexivity. Qed.
Lemma nzb_binz G i j : nzb (binz G i j) = nzb (G i j).
Proof. unfold binz, nzb. destruct (Z.eqb_spec (G i j) 0) as [E|E]; reflexivity. Qed.
Lemma edge_binz G i j : edge (binz G) i j = edge G i j.
Proof. exact (nzb_binz G i j). Qed.

Section SameSupport.
Variable n : nat.
Definition same_nz (X Y : mat Z) : Prop := forall i j, (i < n)%nat -> (j < n)%nat -> nzb (X i j) = nzb (Y i j).

Lemma same_nz_zero_cols V X Y : same_nz X Y -> same_nz (zero_cols n V X) (zero_cols n V Y).
Proof.
  intros H i j Hi Hj. unfold zero_cols. rewrite !tab_spec by assumption.
  destruct (nmem j V); [reflexivity|apply H; assumption].
Qed.

Lemma wherev_ext (f g : nat -> bool) : (forall w, (w < n)%nat -> f w = g w) -> wherev n f = wherev n g.
Proof. intros H. unfold wherev. apply filter_ext_in. intros w Hw. apply in_seq in Hw. apply H. lia. Qed.

Lemma visit_b_same X Y st v : same_nz X Y -> (v < n)%nat -> visit_b n X st v = visit_b n Y st v.
Proof.
  intros H Hv. unfold visit_b. rewrite (wherev_ext (fun w => nzb (X v w)) (fun w => nzb (Y v w))); [reflexivity|].
  intros w Hw. apply H; assumption.
Qed.

Lemma fold_visit_b_same X Y : same_nz X Y -> forall V st, (forall v, In v V -> (v < n)%nat) ->
  fold_left (visit_b n X) V st = fold_left (visit_b n Y) V st.
Proof.
  intros H. induction V as [|v V IH]; intros st HV; cbn [fold_left]; [reflexivity|].
  rewrite (visit_b_same X Y st v H) by (apply HV; left; reflexivity).
  apply IH. intros x Hx. apply HV. right. exact Hx.
Qed.

Lemma existsb_ext_in {A} (f g : A -> bool) l : (forall x, In x l -> f x = g x) -> existsb f l = existsb g l.
Proof.
  induction l as [|a l IH]; intros H; cbn [existsb]; [reflexivity|].
  rewrite (H a) by (left; reflexivity). rewrite IH; [reflexivity|]. intros x Hx. apply H. right. exact Hx.
Qed.

Lemma search_b_same : forall fuel X Y V st, same_nz X Y -> (forall v, In v V -> (v < n)%nat) ->
  search_b fuel n X V st = search_b fuel n Y V st.
Proof.
  induction fuel as [|f IH]; intros X Y V st H HV; destruct V as [|a V']; cbn [search_b]; try reflexivity.
  pose proof (same_nz_zero_cols (a :: V') X Y H) as H2.
  rewrite (fold_visit_b_same _ _ H2 (a :: V') st HV).
  rewrite (wherev_ext (fun j => existsb (fun v => nzb (zero_cols n (a :: V') X v j)) (a :: V'))
                      (fun j => existsb (fun v => nzb (zero_cols n (a :: V') Y v j)) (a :: V'))).
  - apply IH; [exact H2|]. intros v Hv. apply wherev_In in Hv. apply Hv.
  - intros j Hj. apply existsb_ext_in. intros v Hv. apply H2; [apply HV; exact Hv|exact Hj].
Qed.

Lemma source_b_same G u : (u < n)%nat -> source_b n G u = source_b n (binz G) u.
Proof.
  intros Hu. unfold source_b.
  rewrite (search_b_same (S n) (tab 0 n n G) (tab 0 n n (binz G)) [u] (init_b n u)); [reflexivity| |].
  - intros i j Hi Hj. rewrite !tab_spec by assumption. symmetry. apply nzb_binz.
  - intros v [<-|[]]. exact Hu.
Qed.

Lemma sources_e_ext (src src' : nat -> option sst) : (forall u, (u < n)%nat -> src u = src' u) ->
  sources_e n src = sources_e n src'.
Proof.
  intros H. unfold sources_e.
  assert (HL : forall l acc, (forall u, In u l -> (u < n)%nat) ->
    fold_left (fun acc u => match acc with None => None | Some (BC, EBC) =>
                 match src u with None => None | Some st => Some (accum_e n st BC EBC) end end) l acc =
    fold_left (fun acc u => match acc with None => None | Some (BC, EBC) =>
                 match src' u with None => None | Some st => Some (accum_e n st BC EBC) end end) l acc).
  { induction l as [|u l IH]; intros acc Hl; cbn [fold_left]; [reflexivity|].
    rewrite (H u) by (apply Hl; left; reflexivity). apply IH. intros x Hx. apply Hl. right. exact Hx. }
  apply HL. intros u Hu. apply in_seq in Hu. lia.
Qed.
End SameSupport.

(* edge_betweenness_bin on ANY matrix = edge_betweenness_bin on its 0/1 support (identical values) *)
Theorem ebc_bin_ignores_weights n G : edge_betweenness_bin n G = edge_betweenness_bin n (binz G).
Proof.
  unfold edge_betweenness_bin. rewrite (sources_e_ext n (source_b n G) (source_b n (binz G))); [reflexivity|].
  intros u Hu. apply source_b_same. exact Hu.
Qed.

(* hence clause 4 holds for EVERY matrix: the routine returns the betweenness of the support (hop counts) *)
Open Scope Q_scope.
Theorem ebc_bin_correct_any n G :
  exists EBC BC, edge_betweenness_bin n G = Some (EBC, BC) /\
    (forall v, (v < n)%nat -> BC v == BC_spec n (binz G) v) /\
    (forall x y, (x < n)%nat -> (y < n)%nat -> EBC x y == EBC_spec n (binz G) x y).
Proof. rewrite ebc_bin_ignores_weights. apply ebc_bin_correct. apply binz_binary. Qed.

(* ------------------------------------------------------------------------------------------ *)
(* 3. betweenness_bin does not binarise                                                         *)
(* ------------------------------------------------------------------------------------------ *)
Lemma bc_eval (r : option (vec Q)) n l : option_map (qlist n) r = Some l ->
  exists BC, r = Some BC /\ forall v, (v < n)%nat -> BC v == nth v l 0.
Proof.
  destruct r as [BC|]; cbn [option_map]; [|discriminate]. intros E. injection E as <-. exists BC. split; [reflexivity|].
  intros v Hv. unfold qlist. rewrite (nth_to_list 0 n _ v Hv). symmetry. apply Qred_correct.
Qed.

(* diamond 0->1->3, 0->2->3; the connection 0->1 carries the entry 2 *)
Definition wdiamond : list (list Z) := [[0;2;1;0]; [0;0;0;1]; [0;0;0;1]; [0;0;0;0]]%Z.

Lemma wdiamond_values :
  option_map (qlist 4) (betweenness_bin 4 (of_rows 0%Z wdiamond)) = Some [0; 0; 1#3; 0] /\
  option_map (qlist 4) (betweenness_bin 4 (binz (of_rows 0%Z wdiamond))) = Some [0; 1#2; 1#2; 0] /\
  option_map (fun r => qlist 4 (snd r)) (edge_betweenness_bin 4 (of_rows 0%Z wdiamond)) = Some [0; 1#2; 1#2; 0].
Proof. vm_compute. repeat split. Qed.

Definition bc_bin_binarises : Prop := forall n G, nonneg_len n G ->
  exists BC BC', betweenness_bin n G = Some BC /\ betweenness_bin n (binz G) = Some BC' /\
    forall v, (v < n)%nat -> BC v == BC' v.

Theorem bc_bin_weighted_refuted :
  (exists n G, nonneg_len n G /\
     exists BC, betweenness_bin n G = Some BC /\
       exists v, (v < n)%nat /\ ~ BC v == BC_spec n (binz G) v) /\
  ~ bc_bin_binarises.
Proof.
  destruct wdiamond_values as (E1 & E2 & _).
  destruct (bc_eval _ 4 _ E1) as (BC & R1 & V1). destruct (bc_eval _ 4 _ E2) as (BC' & R2 & V2).
  assert (HG : nonneg_len 4 (of_rows 0%Z wdiamond)).
  { intros i j Hi Hj. do 4 (destruct i as [|i]; [do 4 (destruct j as [|j]; [vm_compute; discriminate|]); lia|]). lia. }
  assert (Hne : ~ BC 1%nat == BC' 1%nat).
  { rewrite (V1 1%nat) by lia. rewrite (V2 1%nat) by lia. cbn [nth]. intros E. vm_compute in E. discriminate. }
  split.
  - exists 4%nat, (of_rows 0%Z wdiamond). split; [exact HG|]. exists BC. split; [exact R1|]. exists 1%nat. split; [lia|].
    destruct (bc_bin_correct 4 _ (binz_binary 4 (of_rows 0%Z wdiamond))) as (B2 & R3 & V3).
    rewrite R2 in R3. injection R3 as <-. rewrite <- (V3 1%nat) by lia. exact Hne.
  - intros H. destruct (H 4%nat _ HG) as (B1 & B2 & R1' & R2' & Hall).
    rewrite R1 in R1'. rewrite R2 in R2'. injection R1' as <-. injection R2' as <-. apply Hne. apply Hall. lia.
Qed.

Print Assumptions bin_sum_routines.
Print Assumptions ebc_bin_correct_any.
Print Assumptions bc_bin_weighted_refuted.
