(* Proofs/ModularityRun.v — C02/C07: WHOLE multi-level runs of modularity_louvain_und (run_louvain_und), composed from
   the per-level theorems of ModularityQ.v / ModularityGain.v by induction over the level list:
   * every computed level (labels on the ORIGINAL nodes, q) is a consistent pair on the ORIGINAL matrix, labels exactly 1..k;
   * the returned (ci, q) is such a pair;
   * with every accepted move of exact gain > 0 the true Q of the levels on the original network never falls (rises
     strictly on every level with a move) and the returned partition is never worse than the singleton start.
   The label-composition lemmas of this file are shared by ModularityRunSign.v / ModularityRunB.v. *)
From Coq Require Import QArith Qring Qfield Lia Lqa Arith List Bool ZArith Setoid Morphisms.
From BCT Require Import Base.Mat Base.SumQ Base.ListX Model.Modularity Proofs.ModularitySums Proofs.ModularityQ
  Proofs.ModularityGain.
Import ListNotations.
Open Scope Q_scope.

(* ---------- 1-based label vectors of the original nodes (ci[h]) ---------- *)
Definition p1 (prev : vec nat) : vec nat := fun x => pred (prev x).
(* the labels of the n0 original nodes are exactly the set 1..n *)
Definition lab1_ok (n0 n : nat) (prev : vec nat) : Prop :=
  (forall x, (x < n0)%nat -> (1 <= prev x <= n)%nat) /\
  (forall t, (1 <= t <= n)%nat -> exists x, (x < n0)%nat /\ prev x = t).
(* the same for the list the routine returns *)
Definition labels_exact (n0 : nat) (l : list nat) (k : nat) : Prop :=
  length l = n0 /\
  (forall x, (x < n0)%nat -> (1 <= nth x l O <= k)%nat) /\
  (forall t, (1 <= t <= k)%nat -> exists x, (x < n0)%nat /\ nth x l O = t).

Lemma lab1_lt n0 n prev : lab1_ok n0 n prev -> lab_lt n0 n (p1 prev).
Proof. intros [H _] x Hx. unfold p1. specialize (H x Hx). lia. Qed.

Lemma lab1_S n0 : lab1_ok n0 n0 (fun x => S x).
Proof. split; [intros x Hx; lia|]. intros t Ht. exists (pred t). split; lia. Qed.

Lemma labels_exact_to_list n0 n cih : lab1_ok n0 n cih -> labels_exact n0 (to_list n0 cih) n.
Proof.
  intros [H1 H2]. split; [apply to_list_length|]. split.
  - intros x Hx. rewrite nth_to_list by exact Hx. apply H1; exact Hx.
  - intros t Ht. destruct (H2 t Ht) as [x [Hx E]]. exists x. split; [exact Hx|]. rewrite nth_to_list by exact Hx. exact E.
Qed.

Lemma labels_exact_default n0 : labels_exact n0 (map S (seq 0 n0)) n0.
Proof.
  split; [rewrite map_length, seq_length; reflexivity|].
  assert (E : forall x, (x < n0)%nat -> nth x (map S (seq 0 n0)) O = S x).
  { intros x Hx. rewrite (nth_map_seq S O n0 x Hx). reflexivity. }
  split.
  - intros x Hx. rewrite (E x Hx). lia.
  - intros t Ht. exists (pred t). split; [lia|]. rewrite E by lia. lia.
Qed.

(* ---------- the labels a level produces: m = np.unique(m, return_inverse=True)[1] (+1) ---------- *)
Definition lev_m0 (n : nat) (lb : vec nat) : vec nat := tabv O n (relabel0 n (zlab lb)).
Definition lev_n (n : nat) (lb : vec nat) : nat := nlab n (zlab lb).

Lemma lev_m0_lt n lb : lab_lt n (lev_n n lb) (lev_m0 n lb).
Proof. apply final_lab_lt. Qed.

Lemma lev_m0_surj n lb t : (t < lev_n n lb)%nat -> exists i, (i < n)%nat /\ lev_m0 n lb i = t.
Proof.
  intros Ht. destruct (relabel_range n (zlab lb)) as [_ H]. destruct (H (S t)) as [u [Hu E]]; [unfold lev_n in Ht; lia|].
  exists u. split; [exact Hu|]. unfold lev_m0. rewrite tabv_spec by exact Hu. unfold relabel in E. lia.
Qed.

Lemma lev_m0_same n lb i j : (i < n)%nat -> (j < n)%nat -> (lev_m0 n lb i = lev_m0 n lb j <-> lb i = lb j).
Proof.
  intros Hi Hj. unfold lev_m0. rewrite !tabv_spec by assumption.
  rewrite (relabel0_same_partition n (zlab lb) i j Hi Hj). unfold zlab. split; [apply Nat2Z.inj|intros ->; reflexivity].
Qed.

(* ci[h][where(ci[h-1] == i+1)] = m[i] *)
Lemma compose_step n0 n n' prev m0 :
  lab1_ok n0 n prev -> lab_lt n n' m0 -> (forall t, (t < n')%nat -> exists i, (i < n)%nat /\ m0 i = t) ->
  let cih := tabv O n0 (compose_lab n prev (fun i => S (m0 i))) in
  lab1_ok n0 n' cih /\ (forall x, (x < n0)%nat -> cih x = S (m0 (p1 prev x))).
Proof.
  intros [P1 P2] Hl Hs cih.
  assert (E : forall x, (x < n0)%nat -> cih x = S (m0 (p1 prev x))).
  { intros x Hx. unfold cih. rewrite tabv_spec by exact Hx. unfold compose_lab, p1. specialize (P1 x Hx).
    destruct (prev x) as [|i]; [lia|]. cbn [pred]. destruct (Nat.ltb_spec i n); [reflexivity|lia]. }
  split; [|exact E]. split.
  - intros x Hx. rewrite (E x Hx). pose proof (lab1_lt n0 n prev (conj P1 P2) x Hx) as H. specialize (Hl _ H). lia.
  - intros t Ht. destruct (Hs (pred t)) as [i [Hi Ei]]; [lia|].
    destruct (P2 (S i)) as [x [Hx Ex]]; [lia|]. exists x. split; [exact Hx|]. rewrite (E x Hx). unfold p1. rewrite Ex. cbn [pred]. lia.
Qed.

(* ---------- replay = run_moves + the list of exact gains ---------- *)
Lemma replay_snd gain move ms : forall st, snd (replay gain move st ms) = run_moves move st ms.
Proof.
  induction ms as [|[u mb] r IH]; intros st; cbn [replay run_moves]; [reflexivity|].
  specialize (IH (move st u mb)). destruct (replay gain move (move st u mb) r) as [tr fin]. exact IH.
Qed.

Lemma replay_length gain move ms : forall st, length (fst (replay gain move st ms)) = length ms.
Proof.
  induction ms as [|[u mb] r IH]; intros st; cbn [replay]; [reflexivity|].
  specialize (IH (move st u mb)). destruct (replay gain move (move st u mb) r) as [tr fin]. cbn [fst length] in *. lia.
Qed.

Lemma replay_nil_iff gain move ms st : fst (replay gain move st ms) = [] <-> ms = [].
Proof.
  pose proof (replay_length gain move ms st) as H. split; intros E.
  - rewrite E in H. destruct ms; [reflexivity|discriminate].
  - subst. reflexivity.
Qed.

Lemma good_run_ext n gain gain' move ms : (forall st u mb, gain st u mb == gain' st u mb) ->
  forall st, good_run n gain move st ms -> good_run n gain' move st ms.
Proof.
  intros E. induction ms as [|[u mb] r IH]; intros st H; [constructor|].
  inversion H as [|? ? ? ? Hl Hg Hr]; subst. constructor; [exact Hl|rewrite <- (E st u mb); exact Hg|apply IH; exact Hr].
Qed.

(* ---------- small Q facts ---------- *)
Lemma agg_ident n W a b : (a < n)%nat -> (b < n)%nat -> agg n W ident a b == W a b.
Proof.
  intros Ha Hb. rewrite agg_spec. unfold ident.
  rewrite (sumQ_ext _ (fun i => is_ i a * sumQ (fun j => is_ j b * W i j) n)).
  - rewrite (collapse' (fun i => sumQ (fun j => is_ j b * W i j) n) n a Ha). apply (collapse' (fun j => W a j) n b Hb).
  - intros i Hi. rewrite <- sumQ_scal. apply sumQ_ext; intros; ring.
Qed.

Theorem Qund_partition_invariant n W g lb lb' :
  (forall i j, (i < n)%nat -> (j < n)%nat -> (lb i = lb j <-> lb' i = lb' j)) -> Qund n W g lb == Qund n W g lb'.
Proof.
  intros H. rewrite !Qund_spec. apply Qmult_comp; [reflexivity|]. apply sum2Q_ext; intros i j Hi Hj.
  rewrite (delta_same_partition n lb lb' H i j Hi Hj). reflexivity.
Qed.

Lemma gain_und_s_comp W g s s' k st u mb : s == s' -> gain_und W g s k st u mb == gain_und W g s' k st u mb.
Proof. intros E. unfold gain_und. cbv zeta. rewrite E. reflexivity. Qed.

(* the list a level stores and the label vector it was made from describe the same labelling *)
Lemma Qund_nth_to_list n W g cih : Qund n W g (fun x => nth x (to_list n cih) O) == Qund n W g cih.
Proof. apply Qund_lab_ext. intros j Hj. apply nth_to_list; exact Hj. Qed.

(* ================= modularity_louvain_und ================= *)
Definition und_k (n : nat) (W : mat Q) : vec Q := tabvQ n (colsum n W).
Definition und_st0 (n : nat) (W : mat Q) : state := mkst (tabv O n ident) (mkchan (tabQ n n W) (und_k n W)) chan0.
Definition und_fin (n : nat) (W : mat Q) (moves : list (nat * nat)) : state :=
  run_moves (move_und n W (und_k n W)) (und_st0 n W) moves.

Lemma louvain_und_level_eq n W g s moves :
  louvain_und_level n W g s moves =
  (fst (replay (gain_und W g s (und_k n W)) (move_und n W (und_k n W)) (und_st0 n W) moves),
   (lev_m0 n (lab (und_fin n W moves)),
    (lev_n n (lab (und_fin n W moves)),
     tabQ (lev_n n (lab (und_fin n W moves))) (lev_n n (lab (und_fin n W moves)))
          (agg_upper n W (lev_m0 n (lab (und_fin n W moves))))))).
Proof.
  unfold louvain_und_level, und_fin. cbv zeta. fold (und_k n W). fold (und_st0 n W).
  rewrite <- (replay_snd (gain_und W g s (und_k n W))).
  destruct (replay (gain_und W g s (und_k n W)) (move_und n W (und_k n W)) (und_st0 n W) moves) as [tr st]. reflexivity.
Qed.

(* the matrix the level works on is the original one aggregated by the current labels of the original nodes *)
Definition on_grid (n0 : nat) (Wo : mat Q) (n : nat) (W : mat Q) (prev : vec nat) : Prop :=
  forall a b, (a < n)%nat -> (b < n)%nat -> W a b == agg n0 Wo (p1 prev) a b.

Lemma on_grid_sym n0 Wo n W prev : sym_on n0 Wo -> on_grid n0 Wo n W prev -> sym_on n W.
Proof. intros Hs Hg a b Ha Hb. rewrite (Hg a b Ha Hb), (Hg b a Hb Ha). apply agg_sym; exact Hs. Qed.

Lemma on_grid_start n Wo : on_grid n Wo n Wo (fun x => S x).
Proof.
  intros a b Ha Hb. rewrite <- (agg_ident n Wo a b Ha Hb). apply Qeq_sym.
  rewrite !agg_spec. apply sumQ_ext; intros i Hi. apply sumQ_ext; intros j Hj. reflexivity.
Qed.

(* one pass of the outer loop keeps the invariant (lbf = the labels of the level's nodes when its sweeps end) *)
Lemma grid_step n0 Wo n W prev lbf :
  sym_on n0 Wo -> lab1_ok n0 n prev -> on_grid n0 Wo n W prev ->
  let m0 := lev_m0 n lbf in let n' := lev_n n lbf in
  let W1 := tabQ n' n' (agg_upper n W m0) in
  let cih := tabv O n0 (compose_lab n prev (fun i => S (m0 i))) in
  lab1_ok n0 n' cih /\ on_grid n0 Wo n' W1 cih /\ (forall x, (x < n0)%nat -> cih x = S (m0 (p1 prev x))).
Proof.
  intros Hs Hp Hg m0 n' W1 cih.
  destruct (compose_step n0 n n' prev m0 Hp (lev_m0_lt n lbf) (lev_m0_surj n lbf)) as [Hc E]. fold cih in Hc, E.
  split; [exact Hc|]. split; [|exact E].
  intros a b Ha Hb. unfold W1. rewrite tabQ_spec by assumption.
  rewrite (agg_upper_sym n W m0 a b (on_grid_sym n0 Wo n W prev Hs Hg)).
  rewrite (agg_ext n W (agg n0 Wo (p1 prev)) m0 a b Hg).
  rewrite (agg_compose n0 n Wo (p1 prev) m0 a b (lab1_lt n0 n prev Hp)).
  rewrite !agg_spec. apply sumQ_ext; intros i Hi. apply sumQ_ext; intros j Hj.
  unfold p1 at 3 4. rewrite (E i Hi), (E j Hj). reflexivity.
Qed.

Lemma und_step n0 Wo n W prev moves :
  sym_on n0 Wo -> lab1_ok n0 n prev -> on_grid n0 Wo n W prev ->
  let fin := und_fin n W moves in
  let m0 := lev_m0 n (lab fin) in let n' := lev_n n (lab fin) in
  let W1 := tabQ n' n' (agg_upper n W m0) in
  let cih := tabv O n0 (compose_lab n prev (fun i => S (m0 i))) in
  lab1_ok n0 n' cih /\ on_grid n0 Wo n' W1 cih /\ (forall x, (x < n0)%nat -> cih x = S (m0 (p1 prev x))).
Proof. intros Hs Hp Hg fin. apply grid_step; assumption. Qed.

(* q[h] of a level == modularity, on the ORIGINAL matrix, of the labels ci[h] of the original nodes *)
Lemma und_level_q n0 Wo g n' W1 cih : sym_on n0 Wo -> lab1_ok n0 n' cih -> on_grid n0 Wo n' W1 cih ->
  closing n' W1 g (stot n0 Wo) == Qund n0 Wo g cih.
Proof.
  intros Hs Hc Hg. rewrite (closing_ext n' W1 (agg n0 Wo (p1 cih)) g (stot n0 Wo) Hg).
  rewrite (q_closing_dir_eq_def n0 n' Wo g (p1 cih) (lab1_lt n0 n' cih Hc)).
  rewrite <- (Qund_Qdir n0 Wo g (p1 cih) Hs). apply Qund_partition_invariant.
  intros i j Hi Hj. unfold p1. destruct Hc as [H1 _]. pose proof (H1 i Hi). pose proof (H1 j Hj). lia.
Qed.

(* what C02 asks of a computed level: labels exactly 1..k, the stored q IS (reduced fraction) the definitional Q of the
   stored labels on the original matrix, and the model's own definitional value agrees *)
Definition lvl_labels (e : level_t * Q) : list nat := fst (snd (fst e)).
Definition lvl_q (e : level_t * Q) : Q := fst (snd (snd (fst e))).
Definition lvl_qd (e : level_t * Q) : Q := snd (snd (snd (fst e))).
Definition und_level_ok (n0 : nat) (Wo : mat Q) (g : Q) (e : level_t * Q) : Prop :=
  (exists k, labels_exact n0 (lvl_labels e) k) /\
  snd e = Qred (Qund n0 Wo g (fun x => nth x (lvl_labels e) O)) /\ lvl_q e = snd e /\ lvl_qd e = snd e.

Lemma und_levels_ok n0 Wo g : sym_on n0 Wo -> forall lv n W prev,
  lab1_ok n0 n prev -> on_grid n0 Wo n W prev ->
  Forall (und_level_ok n0 Wo g) (louvain_und_levels n0 Wo g (stot n0 Wo) n W prev lv).
Proof.
  intros Hs. induction lv as [|moves rest IH]; intros n W prev Hp Hg; cbn [louvain_und_levels]; [constructor|].
  rewrite louvain_und_level_eq.
  destruct (und_step n0 Wo n W prev moves Hs Hp Hg) as (Hc & Hg' & E).
  set (fin := und_fin n W moves) in *. set (m0 := lev_m0 n (lab fin)) in *. set (n' := lev_n n (lab fin)) in *.
  set (W1 := tabQ n' n' (agg_upper n W m0)) in *.
  set (cih := tabv O n0 (compose_lab n prev (fun i => S (m0 i)))) in *.
  constructor; [|apply IH; assumption].
  assert (Eq : Qred (closing n' W1 g (stot n0 Wo)) = Qred (Qund n0 Wo g (fun x => nth x (to_list n0 cih) O))).
  { apply Qred_complete. rewrite (und_level_q n0 Wo g n' W1 cih Hs Hc Hg'). symmetry. apply Qund_nth_to_list. }
  unfold und_level_ok, lvl_labels, lvl_q, lvl_qd. cbn [fst snd]. split; [exists n'; apply labels_exact_to_list; exact Hc|].
  split; [exact Eq|]. split; [reflexivity|]. rewrite Eq. apply Qred_complete. symmetry. apply Qund_nth_to_list.
Qed.

Lemma louvain_und_levels_length n0 Wo g s lv : forall n W prev,
  length (louvain_und_levels n0 Wo g s n W prev lv) = length lv.
Proof.
  induction lv as [|moves rest IH]; intros n W prev; cbn [louvain_und_levels]; [reflexivity|].
  destruct (louvain_und_level n W g s moves) as [tr [m0 [n' W1]]]. cbn [length]. rewrite IH. reflexivity.
Qed.

(* ---------- the run function ---------- *)
Definition ret_ci (r : result_t) : list nat := fst (snd r).
Definition rowsW (rows : list (list Q)) : mat Q := tabQ (length rows) (length rows) (of_rows 0 rows).
(* symmetric input (as list of rows) *)
Definition sym_rows (rows : list (list Q)) : Prop := sym_on (length rows) (of_rows 0 rows).

Lemma rowsW_sym rows : sym_rows rows -> sym_on (length rows) (rowsW rows).
Proof. intros H i j Hi Hj. unfold rowsW. rewrite !tabQ_spec by assumption. apply H; assumption. Qed.

Definition und_res (rows : list (list Q)) (g : Q) (lv : list (list (nat * nat))) : list (level_t * Q) :=
  louvain_und_levels (length rows) (rowsW rows) g (stot (length rows) (rowsW rows)) (length rows) (rowsW rows) (fun x => S x) lv.

Lemma run_louvain_und_eq rows g lv :
  run_louvain_und rows g lv =
  (map fst (und_res rows g lv),
   (fst (pick_prev (length rows) (und_res rows g lv)),
    (snd (pick_prev (length rows) (und_res rows g lv)),
     (Qred (Qund (length rows) (rowsW rows) g (fun x => nth x (fst (pick_prev (length rows) (und_res rows g lv))) O)),
      Qred (Qund (length rows) (rowsW rows) g ident))))).
Proof.
  unfold run_louvain_und. cbv zeta. fold (rowsW rows). fold (und_res rows g lv).
  destruct (pick_prev (length rows) (und_res rows g lv)) as [ci q]. reflexivity.
Qed.

Lemma und_res_ok rows g lv : sym_rows rows ->
  Forall (und_level_ok (length rows) (rowsW rows) g) (und_res rows g lv).
Proof.
  intros Hs. apply (und_levels_ok _ _ g (rowsW_sym rows Hs)); [apply lab1_S|apply on_grid_start].
Qed.

(* pick_prev returns either the default pair or a computed level *)
Lemma pick_prev_cases n0 (res : list (level_t * Q)) :
  (length res < 2)%nat /\ pick_prev n0 res = (map S (seq 0 n0), -(1)) \/
  (2 <= length res)%nat /\ exists e, In e res /\ pick_prev n0 res = (lvl_labels e, snd e).
Proof.
  unfold pick_prev. pose proof (rev_length res) as HL.
  destruct (rev res) as [|a [|[l q] r]] eqn:E.
  - left. cbn in HL. split; [lia|reflexivity].
  - left. cbn in HL. split; [lia|reflexivity].
  - right. cbn [length] in HL. split; [lia|]. exists (l, q). split; [|reflexivity].
    apply in_rev. rewrite E. right; left; reflexivity.
Qed.

(* C02, whole run: returned q = definitional Q (on the original W) of the returned labels, whenever a computed level is
   returned (at least two levels were computed: the code always computes one level more than it keeps) *)
Theorem louvain_und_run_q rows g lv : sym_rows rows -> (2 <= length lv)%nat ->
  let r := run_louvain_und rows g lv in ret_q r = ret_qdef r.
Proof.
  intros Hs Hl r. unfold r. rewrite run_louvain_und_eq. unfold ret_q, ret_qdef. cbn [fst snd].
  destruct (pick_prev_cases (length rows) (und_res rows g lv)) as [[Hlt _]|[_ [e [He Ep]]]].
  - unfold und_res in Hlt. rewrite louvain_und_levels_length in Hlt. lia.
  - rewrite Ep. cbn [fst snd]. pose proof (und_res_ok rows g lv Hs) as HF. rewrite Forall_forall in HF.
    destruct (HF e He) as (_ & Eq & _). exact Eq.
Qed.

(* returned labels: exactly 1..k, for EVERY input, gamma, level / move lists (also when the start ci[0] is returned) *)
Theorem louvain_und_run_labels rows g lv : sym_rows rows ->
  let r := run_louvain_und rows g lv in exists k, labels_exact (length rows) (ret_ci r) k.
Proof.
  intros Hs r. unfold r. rewrite run_louvain_und_eq. unfold ret_ci. cbn [fst snd].
  destruct (pick_prev_cases (length rows) (und_res rows g lv)) as [[_ Ep]|[_ [e [He Ep]]]]; rewrite Ep; cbn [fst].
  - exists (length rows). apply labels_exact_default.
  - pose proof (und_res_ok rows g lv Hs) as HF. rewrite Forall_forall in HF. destruct (HF e He) as (Hk & _). exact Hk.
Qed.

(* hierarchy=True: EVERY computed level (so every retained one) is a consistent pair on the original network *)
Definition level_pair_ok (n0 : nat) (Qof : vec nat -> Q) (l : level_t) : Prop :=
  let labels := fst (snd l) in let q := fst (snd (snd l)) in
  (exists k, labels_exact n0 labels k) /\ q = Qred (Qof (fun x => nth x labels O)) /\ q = snd (snd (snd l)).

Theorem louvain_und_run_levels rows g lv : sym_rows rows ->
  Forall (level_pair_ok (length rows) (Qund (length rows) (rowsW rows) g)) (fst (run_louvain_und rows g lv)).
Proof.
  intros Hs. rewrite run_louvain_und_eq. cbn [fst]. pose proof (und_res_ok rows g lv Hs) as HF.
  induction HF as [|e l He _ IH]; cbn [map]; constructor; [|exact IH].
  destruct He as (Hk & Eq & E1 & E2). unfold level_pair_ok. cbv zeta.
  unfold lvl_labels, lvl_q, lvl_qd in *. split; [exact Hk|]. split; [rewrite E1; exact Eq|rewrite E1, E2; reflexivity].
Qed.

(* ================= C07: monotone whole runs ================= *)
(* every accepted move of every level is legal and has exact gain > 0 (floats only decide which move / how many levels) *)
Fixpoint louvain_und_good (g s : Q) (n : nat) (W : mat Q) (lv : list (list (nat * nat))) : Prop :=
  match lv with
  | [] => True
  | moves :: rest =>
      good_run n (gain_und W g s (und_k n W)) (move_und n W (und_k n W)) (und_st0 n W) moves /\
      let fin := und_fin n W moves in
      let n' := lev_n n (lab fin) in
      louvain_und_good g s n' (tabQ n' n' (agg_upper n W (lev_m0 n (lab fin)))) rest
  end.

(* true Q of the successive levels: never below the previous one, strictly above when the level made a move *)
Fixpoint chain_mono (prev : Q) (l : list level_t) : Prop :=
  match l with
  | [] => True
  | lv :: r => let qd := snd (snd (snd lv)) in prev <= qd /\ (fst lv <> [] -> prev < qd) /\ chain_mono qd r
  end.

Lemma chain_mono_comp p p' l : p == p' -> chain_mono p l -> chain_mono p' l.
Proof. destruct l as [|lv r]; cbn [chain_mono]; [auto|]. intros E (A & B & C). rewrite <- E. auto. Qed.

Lemma und_level_mono n0 Wo g n W prev moves :
  sym_on n0 Wo -> 0 < stot n0 Wo -> lab1_ok n0 n prev -> on_grid n0 Wo n W prev ->
  good_run n (gain_und W g (stot n0 Wo) (und_k n W)) (move_und n W (und_k n W)) (und_st0 n W) moves ->
  let m0 := lev_m0 n (lab (und_fin n W moves)) in
  let cih := tabv O n0 (compose_lab n prev (fun i => S (m0 i))) in
  Qund n0 Wo g prev <= Qund n0 Wo g cih /\ (moves <> [] -> Qund n0 Wo g prev < Qund n0 Wo g cih).
Proof.
  intros Hs Hpos Hp Hg Hr m0 cih.
  pose proof (on_grid_sym n0 Wo n W prev Hs Hg) as HsW.
  assert (Hk : forall i, (i < n)%nat -> und_k n W i == sumQ (fun j => W i j) n).
  { intros i Hi. unfold und_k. rewrite tabvQ_spec by exact Hi. rewrite colsum_spec. apply sumQ_ext; intros j Hj. apply HsW; assumption. }
  assert (Es : stot n W == stot n0 Wo).
  { rewrite (stot_ext n W (agg n0 Wo (p1 prev)) Hg). apply stot_agg. apply lab1_lt; exact Hp. }
  assert (Hr' : good_run n (gain_und W g (stot n W) (und_k n W)) (move_und n W (und_k n W)) (und_st0 n W) moves).
  { apply (good_run_ext n (gain_und W g (stot n0 Wo) (und_k n W))); [|exact Hr].
    intros st u mb. apply gain_und_s_comp. symmetry. exact Es. }
  destruct (level_monotone n0 n Wo W g (p1 prev) (und_k n W) moves (lab1_lt n0 n prev Hp) Hs Hpos Hg Hk Hr') as [Hle Hlt].
  destruct (und_step n0 Wo n W prev moves Hs Hp Hg) as (Hc & _ & E). fold m0 in E. fold cih in E, Hc.
  assert (E0 : Qund n0 Wo g prev == Qund n0 Wo g (p1 prev)).
  { apply Qund_partition_invariant. intros i j Hi Hj. unfold p1. destruct Hp as [H1 _]. pose proof (H1 i Hi). pose proof (H1 j Hj). lia. }
  assert (E1 : Qund n0 Wo g cih ==
               Qund n0 Wo g (fun i => lab (run_moves (move_und n W (und_k n W))
                 (mkst (tabv O n ident) (mkchan (tabQ n n W) (und_k n W)) chan0) moves) (p1 prev i))).
  { apply Qund_partition_invariant. intros i j Hi Hj. rewrite (E i Hi), (E j Hj).
    pose proof (lab1_lt n0 n prev Hp i Hi) as Li. pose proof (lab1_lt n0 n prev Hp j Hj) as Lj.
    split.
    - intros H. injection H as H. exact (proj1 (lev_m0_same n (lab (und_fin n W moves)) _ _ Li Lj) H).
    - intros H. f_equal. exact (proj2 (lev_m0_same n (lab (und_fin n W moves)) _ _ Li Lj) H). }
  rewrite E0, E1. split; assumption.
Qed.

Lemma und_levels_mono n0 Wo g : sym_on n0 Wo -> 0 < stot n0 Wo -> forall lv n W prev,
  lab1_ok n0 n prev -> on_grid n0 Wo n W prev -> louvain_und_good g (stot n0 Wo) n W lv ->
  chain_mono (Qund n0 Wo g prev) (map fst (louvain_und_levels n0 Wo g (stot n0 Wo) n W prev lv)).
Proof.
  intros Hs Hpos. induction lv as [|moves rest IH]; intros n W prev Hp Hg Hgood; cbn [louvain_und_levels]; [exact I|].
  cbn [louvain_und_good] in Hgood. destruct Hgood as [Hr Hrest].
  rewrite louvain_und_level_eq.
  destruct (und_step n0 Wo n W prev moves Hs Hp Hg) as (Hc & Hg' & E).
  destruct (und_level_mono n0 Wo g n W prev moves Hs Hpos Hp Hg Hr) as [Hle Hlt].
  set (fin := und_fin n W moves) in *. set (m0 := lev_m0 n (lab fin)) in *. set (n' := lev_n n (lab fin)) in *.
  set (W1 := tabQ n' n' (agg_upper n W m0)) in *.
  set (cih := tabv O n0 (compose_lab n prev (fun i => S (m0 i)))) in *.
  cbn [map fst chain_mono snd].
  split; [rewrite Qred_correct; exact Hle|]. split.
  - intros Hne. rewrite Qred_correct. apply Hlt. intros ->. apply Hne. reflexivity.
  - apply (chain_mono_comp (Qund n0 Wo g cih)); [symmetry; apply Qred_correct|].
    apply (IH n' W1 cih Hc Hg' Hrest).
Qed.

Lemma chain_mono_ge l : forall p, chain_mono p l -> forall lv, In lv l -> p <= snd (snd (snd lv)).
Proof.
  induction l as [|a r IH]; intros p H lv Hin; [destruct Hin|]. cbn [chain_mono] in H. destruct H as (A & _ & C).
  destruct Hin as [<-|Hin]; [exact A|]. specialize (IH _ C lv Hin). lra.
Qed.

Lemma Qund_S_ident n W g : Qund n W g (fun x => S x) == Qund n W g ident.
Proof. apply Qund_partition_invariant. intros i j _ _. unfold ident. lia. Qed.

Lemma Qund_default n W g : Qund n W g (fun x => nth x (map S (seq 0 n)) O) == Qund n W g ident.
Proof.
  rewrite <- Qund_S_ident. apply Qund_lab_ext. intros j Hj. rewrite (nth_map_seq S O n j Hj). reflexivity.
Qed.

(* C07, whole run: with every accepted move of exact gain > 0, the true modularities (on the ORIGINAL network) of the
   successive levels never fall below the singleton start / the previous level, rise strictly on every level that made a
   move, and the returned partition is never worse than the singleton start *)
Theorem louvain_und_run_monotone rows g lv : sym_rows rows -> 0 < stot (length rows) (rowsW rows) ->
  louvain_und_good g (stot (length rows) (rowsW rows)) (length rows) (rowsW rows) lv ->
  let r := run_louvain_und rows g lv in
  chain_mono (ret_qstart r) (fst r) /\ ret_qstart r <= ret_qdef r.
Proof.
  intros Hs Hpos Hgood r. unfold r. rewrite run_louvain_und_eq. unfold ret_qstart, ret_qdef. cbn [fst snd].
  pose proof (und_levels_mono _ _ g (rowsW_sym rows Hs) Hpos lv _ _ _ (lab1_S (length rows)) (on_grid_start _ _) Hgood) as HC.
  fold (und_res rows g lv) in HC.
  assert (HC' : chain_mono (Qred (Qund (length rows) (rowsW rows) g ident)) (map fst (und_res rows g lv))).
  { apply (chain_mono_comp _ _ _ (Qeq_sym _ _ (Qeq_trans _ _ _ (Qred_correct _) (Qeq_sym _ _ (Qund_S_ident _ _ _)))) HC). }
  split; [exact HC'|].
  destruct (pick_prev_cases (length rows) (und_res rows g lv)) as [[_ Ep]|[_ [e [He Ep]]]]; rewrite Ep; cbn [fst].
  - rewrite !Qred_correct. rewrite Qund_default. apply Qle_refl.
  - pose proof (und_res_ok rows g lv Hs) as HF. rewrite Forall_forall in HF. destruct (HF e He) as (_ & Eq & _ & E2).
    rewrite <- Eq, <- E2. apply (chain_mono_ge _ _ HC' (fst e)). apply in_map. exact He.
Qed.

(* non-vacuity: two triangles joined by one edge; level 1 builds the two triangles, level 2 makes no move *)
Definition ex_rows : list (list Q) :=
  [[0; 1; 1; 0; 0; 0]; [1; 0; 1; 0; 0; 0]; [1; 1; 0; 1; 0; 0]; [0; 0; 1; 0; 1; 1]; [0; 0; 0; 1; 0; 1]; [0; 0; 0; 1; 1; 0]].
Definition ex_lv : list (list (nat * nat)) := [[(0, 1); (2, 1); (3, 4); (5, 4)]; []]%nat.

Ltac sym6 := intros i j Hi Hj;
  do 6 (destruct i as [|i]; [do 6 (destruct j as [|j]; [reflexivity|]); exfalso; cbn in Hj; lia|]); exfalso; cbn in Hi; lia.
Ltac good_run_tac :=
  repeat (first [ apply good_nil
                | apply good_cons; [split; [cbn; lia|split; [cbn; lia|vm_compute; discriminate]]
                                   |vm_compute; reflexivity|] ]).

Example louvain_und_run_nonvacuous :
  sym_rows ex_rows /\ (2 <= length ex_lv)%nat /\ 0 < stot (length ex_rows) (rowsW ex_rows) /\
  louvain_und_good 1 (stot (length ex_rows) (rowsW ex_rows)) (length ex_rows) (rowsW ex_rows) ex_lv /\
  ret_ci (run_louvain_und ex_rows 1 ex_lv) = [1; 1; 1; 2; 2; 2]%nat /\
  ret_q (run_louvain_und ex_rows 1 ex_lv) = 5 # 14 /\ ret_qstart (run_louvain_und ex_rows 1 ex_lv) = - (17 # 98).
Proof.
  split; [unfold sym_rows; sym6|]. split; [cbn; lia|]. split; [vm_compute; reflexivity|].
  split; [|split; [vm_compute; reflexivity|split; vm_compute; reflexivity]].
  cbn [louvain_und_good ex_lv]. split; [good_run_tac|]. split; [good_run_tac|exact I].
Qed.
