(* Proofs/ModularityGood.v — the executable deciders of Model/ModularityGood.v are sound: true implies the hypotheses
   (good moves on every level, symmetric input, positive total weight) of the whole-run theorems; hence the theorems hold
   for every run on which the extracted deciders answer true (C07_*_run_monotone_checked). *)
From Coq Require Import QArith Qring Qfield Lia Lqa Arith List Bool ZArith Setoid Morphisms.
From BCT Require Import Base.Mat Base.SumQ Base.ListX Model.Modularity Model.ModularityGood Proofs.ModularitySums
  Proofs.ModularityQ Proofs.ModularityGain Proofs.ModularityRun Proofs.ModularityRunSign Proofs.ModularityRunB.
Import ListNotations.
Open Scope Q_scope.

Lemma Qltb_true a b : Qltb a b = true -> a < b.
Proof.
  unfold Qltb. intros H. apply Qnot_le_lt. intros Hle. apply Qle_bool_iff in Hle. rewrite Hle in H. discriminate H.
Qed.

Lemma good_runb_sound n gain move ms : forall st, good_runb n gain move st ms = true -> good_run n gain move st ms.
Proof.
  induction ms as [|[u mb] r IH]; intros st H; [constructor|]. cbn [good_runb] in H.
  apply andb_prop in H. destruct H as [H Hr]. apply andb_prop in H. destruct H as [H Hg].
  apply andb_prop in H. destruct H as [H Hne]. apply andb_prop in H. destruct H as [Hu Hm].
  constructor; [|apply Qltb_true; exact Hg|apply IH; exact Hr].
  split; [apply Nat.ltb_lt; exact Hu|]. split; [apply Nat.ltb_lt; exact Hm|].
  intros E. rewrite E, Nat.eqb_refl in Hne. discriminate Hne.
Qed.

Lemma louvain_und_goodb_sound g s lv : forall n W, louvain_und_goodb g s n W lv = true -> louvain_und_good g s n W lv.
Proof.
  induction lv as [|moves rest IH]; intros n W H; [exact I|]. cbn [louvain_und_goodb] in H. cbv zeta in H.
  apply andb_prop in H. destruct H as [H1 H2]. cbn [louvain_und_good]. split.
  - apply good_runb_sound. exact H1.
  - apply IH. exact H2.
Qed.

Lemma louvain_sign_goodb_sound g s0 s1 d0 d1 lv : forall n W0 W1,
  louvain_sign_goodb g s0 s1 d0 d1 n W0 W1 lv = true -> louvain_sign_good g s0 s1 d0 d1 n W0 W1 lv.
Proof.
  induction lv as [|moves rest IH]; intros n W0 W1 H; [exact I|]. cbn [louvain_sign_goodb] in H. cbv zeta in H.
  apply andb_prop in H. destruct H as [H1 H2]. cbn [louvain_sign_good]. split.
  - apply good_runb_sound. exact H1.
  - apply IH. exact H2.
Qed.

Lemma cl_goodb_sound lv : forall first n B lab0, cl_goodb first n B lab0 lv = true -> cl_good first n B lab0 lv.
Proof.
  induction lv as [|moves rest IH]; intros first n B lab0 H; [exact I|]. cbn [cl_goodb] in H. cbv zeta in H.
  apply andb_prop in H. destruct H as [H1 H2]. cbn [cl_good]. split.
  - apply good_runb_sound. exact H1.
  - apply IH. exact H2.
Qed.

Lemma sym_rowsb_sound rows : sym_rowsb rows = true -> sym_rows rows.
Proof.
  unfold sym_rowsb, sym_rows. cbv zeta. intros H i j Hi Hj. rewrite forallb_forall in H.
  assert (Hi' : In i (seq 0 (length rows))) by (apply in_seq; lia). specialize (H i Hi'). rewrite forallb_forall in H.
  assert (Hj' : In j (seq 0 (length rows))) by (apply in_seq; lia). apply Qeq_bool_eq. exact (H j Hj').
Qed.

Lemma pos_totalb_sound rows : pos_totalb rows = true -> 0 < stot (length rows) (rowsW rows).
Proof. unfold pos_totalb. cbv zeta. apply Qltb_true. Qed.

(* ---------- the whole-run theorems with every hypothesis DECIDED by the extracted model ---------- *)
Theorem louvain_und_run_monotone_checked rows g lv :
  sym_rowsb rows = true -> pos_totalb rows = true -> run_louvain_und_good rows g lv = true ->
  let r := run_louvain_und rows g lv in
  chain_mono (ret_qstart r) (fst r) /\ ret_qstart r <= ret_qdef r.
Proof.
  intros Hs Hp Hg. apply louvain_und_run_monotone; [apply sym_rowsb_sound; exact Hs|apply pos_totalb_sound; exact Hp|].
  apply louvain_und_goodb_sound. exact Hg.
Qed.

Theorem louvain_sign_run_monotone_checked rows g qt lv :
  sym_rowsb rows = true -> lv <> [] -> run_louvain_sign_good rows g qt lv = true ->
  let r := run_louvain_sign rows g qt lv in
  chain_mono (ret_qstart r) (fst r) /\ ret_qstart r <= ret_qdef r.
Proof.
  intros Hs Hne Hg. apply louvain_sign_run_monotone; [apply sym_rowsb_sound; exact Hs|exact Hne|].
  cbv zeta. apply louvain_sign_goodb_sound. exact Hg.
Qed.

Theorem community_louvain_run_monotone_checked rows g kind ci lv :
  lv <> [] -> ((kind <= 1)%nat -> pos_totalb rows = true) -> run_community_louvain_good rows g kind ci lv = true ->
  let r := run_community_louvain rows g kind ci lv in
  chain_mono (ret_qstart r) (fst r) /\ ret_qstart r <= ret_qdef r.
Proof.
  intros Hne Hp Hg. apply community_louvain_run_monotone; [exact Hne|intros Hk; apply pos_totalb_sound; exact (Hp Hk)|].
  apply cl_goodb_sound. exact Hg.
Qed.

Example run_good_nonvacuous :
  sym_rowsb ex_rows = true /\ pos_totalb ex_rows = true /\ run_louvain_und_good ex_rows 1 ex_lv = true /\
  run_louvain_sign_good ex_sign_rows 1 0 ex_sign_lv = true /\
  run_community_louvain_good ex_dir_rows 1 0 [5; 5; 5; 9]%Z [[(2, 1)]; []]%nat = true /\
  (* a move of non-positive exact gain is rejected *)
  run_louvain_und_good ex_rows 1 [[(0, 5)]]%nat = false.
Proof. repeat split; vm_compute; reflexivity. Qed.
