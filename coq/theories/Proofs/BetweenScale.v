(* Proofs/BetweenScale.v — betweenness is invariant under scaling all lengths by a positive constant: the enumeration of
   minimum-length walks (hence sigma, sigma_through, sigma_edge, BC_spec, EBC_spec) does not change, so the weighted
   routines return the same values on k*G and on G.  This is what lets the harness feed dyadic lengths
   (integers * 2^-20) to the implementation and the integer numerators to the model. *)
From Coq Require Import QArith Lia List Arith Bool ZArith.
From BCT Require Import Base.Mat Base.SumQ Base.ListX Model.Between
  Proofs.BetweenAccum Proofs.BetweenReady Proofs.BetweenQueue Proofs.BetweenSpec Proofs.BetweenPaths
  Proofs.BetweenTight Proofs.BetweenLast Proofs.BetweenCount Proofs.BetweenFull.
Import ListNotations.
Open Scope Z_scope.

Definition scaleG (k : Z) (G : mat Z) : mat Z := fun i j => k * G i j.

Section Scale.
Variables (k : Z) (G : mat Z).
Hypothesis Hk : 0 < k.

Lemma edge_scale u v : edge (scaleG k G) u v = edge G u v.
Proof.
  unfold edge, scaleG. f_equal. destruct (Z.eqb_spec (G u v) 0) as [->|Hne].
  - rewrite Z.mul_0_r. reflexivity.
  - apply Z.eqb_neq. nia.
Qed.
Lemma chain_scale : forall r a, chain (scaleG k G) a r = chain G a r.
Proof. induction r as [|b r IH]; intros a; cbn [chain]; [reflexivity|]. rewrite edge_scale, IH. reflexivity. Qed.
Lemma clen_scale : forall r a, clen (scaleG k G) a r = k * clen G a r.
Proof. induction r as [|b r IH]; intros a; cbn [clen]; [lia|]. rewrite IH. unfold scaleG. lia. Qed.
Lemma wlen_scale p : wlen (scaleG k G) p = k * wlen G p.
Proof. destruct p; cbn [wlen]; [lia|apply clen_scale]. Qed.
Lemma wft_scale n s t p : wft n (scaleG k G) s t p = wft n G s t p.
Proof. destruct p as [|a r]; [reflexivity|]. unfold wft. rewrite chain_scale. reflexivity. Qed.

Lemma spaths_scale n s t : spaths n (scaleG k G) s t = spaths n G s t.
Proof.
  unfold spaths, walks_st.
  rewrite (filter_ext (wft n (scaleG k G) s t) (wft n G s t)) by (intros; apply wft_scale).
  apply filter_ext. intros p. (* forallb over the same list *)
  assert (E : forall l, forallb (fun q => wlen (scaleG k G) p <=? wlen (scaleG k G) q) l
                      = forallb (fun q => wlen G p <=? wlen G q) l).
  { induction l as [|q l IH]; cbn [forallb]; [reflexivity|]. rewrite IH. f_equal. rewrite !wlen_scale.
    destruct (Z.leb_spec (wlen G p) (wlen G q)), (Z.leb_spec (k * wlen G p) (k * wlen G q)); try reflexivity; nia. }
  apply E.
Qed.

Lemma sigma_scale n s t : sigma n (scaleG k G) s t = sigma n G s t.
Proof. unfold sigma. rewrite spaths_scale. reflexivity. Qed.
Lemma sigma_through_scale n s t v : sigma_through n (scaleG k G) s t v = sigma_through n G s t v.
Proof. unfold sigma_through. rewrite spaths_scale. reflexivity. Qed.
Lemma sigma_edge_scale n s t x y : sigma_edge n (scaleG k G) s t x y = sigma_edge n G s t x y.
Proof. unfold sigma_edge. rewrite spaths_scale. reflexivity. Qed.

Open Scope Q_scope.
Theorem spec_scale_invariant n :
  (forall v, BC_spec n (scaleG k G) v == BC_spec n G v) /\
  (forall x y, EBC_spec n (scaleG k G) x y == EBC_spec n G x y).
Proof.
  split.
  - intros v. unfold BC_spec. apply sumQ_ext. intros s _. apply sumQ_ext. intros t _.
    rewrite sigma_scale, sigma_through_scale. reflexivity.
  - intros x y. unfold EBC_spec. apply sumQ_ext. intros s _. apply sumQ_ext. intros t _.
    rewrite sigma_scale, sigma_edge_scale. reflexivity.
Qed.

Lemma nonneg_scale n : nonneg_len n G -> nonneg_len n (scaleG k G).
Proof. intros H i j Hi Hj. specialize (H i j Hi Hj). unfold scaleG. nia. Qed.

(* the weighted routines return the same values on k*G and on G *)
Theorem wei_scale_invariant n : nonneg_len n G ->
  (exists BC' BC, betweenness_wei n (scaleG k G) = Some BC' /\ betweenness_wei n G = Some BC /\
     forall v, (v < n)%nat -> BC' v == BC v) /\
  (exists E' B' E B, edge_betweenness_wei n (scaleG k G) = Some (E', B') /\ edge_betweenness_wei n G = Some (E, B) /\
     (forall v, (v < n)%nat -> B' v == B v) /\ (forall x y, (x < n)%nat -> (y < n)%nat -> E' x y == E x y)).
Proof.
  intros HG. pose proof (nonneg_scale n HG) as HG'. destruct (spec_scale_invariant n) as [S1 S2]. split.
  - destruct (bc_wei_correct n _ HG') as (BC' & E1 & H1). destruct (bc_wei_correct n G HG) as (BC & E2 & H2).
    exists BC', BC. split; [exact E1|]. split; [exact E2|]. intros v Hv. rewrite (H1 v Hv), (H2 v Hv). apply S1.
  - destruct (ebc_wei_correct n _ HG') as (E' & B' & E1 & H1 & H1'). destruct (ebc_wei_correct n G HG) as (E & B & E2 & H2 & H2').
    exists E', B', E, B. split; [exact E1|]. split; [exact E2|]. split.
    + intros v Hv. rewrite (H1 v Hv), (H2 v Hv). apply S1.
    + intros x y Hx Hy. rewrite (H1' x y Hx Hy), (H2' x y Hx Hy). apply S2.
Qed.
End Scale.

Print Assumptions wei_scale_invariant.
