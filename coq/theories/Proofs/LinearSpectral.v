(* Proofs/LinearSpectral.v — subgraph centrality (polynomial functional calculus) and eigenvector centrality (|u|). *)
From Coq Require Import QArith Qabs Qfield Lia Lqa Arith List Bool.
From BCT Require Import Base.Mat Base.SumQ Model.Linear Proofs.Linear.
Import ListNotations.
Open Scope Q_scope.

Lemma sumQ_delta_r' f n i : (i < n)%nat -> sumQ (fun k => delta k i * f k) n == f i.
Proof. intros Hi. rewrite <- (sumQ_delta_r f n i Hi). apply sumQ_ext. intros; ring. Qed.

(* ---------------- p(A) = V p(Lambda) V^T ---------------- *)
Section Spectral.
Variables (n : nat) (A V : mat Q) (lam : vec Q).
(* what eigh returns: A v_k = lam_k v_k for the columns v_k of V, and V V^T = I *)
Hypothesis Heig : forall i k, (i < n)%nat -> (k < n)%nat -> sumQ (fun l => A i l * V l k) n == lam k * V i k.
Hypothesis Horth : forall i j, (i < n)%nat -> (j < n)%nat -> sumQ (fun k => V i k * V j k) n == delta i j.

Theorem poly_spectral : forall p i j, (i < n)%nat -> (j < n)%nat ->
  pevalM n p A i j == sumQ (fun k => V i k * peval p (lam k) * V j k) n.
Proof.
  induction p as [|c p IH]; intros i j Hi Hj.
  - cbn [pevalM peval]. unfold zeroQ. symmetry. apply sumQ_zero'. intros; ring.
  - cbn [pevalM peval]. unfold mmulQ.
    rewrite (sumQ_ext (fun k => V i k * Qred (c + lam k * peval p (lam k)) * V j k)
                      (fun k => V i k * (c + lam k * peval p (lam k)) * V j k))
      by (intros; rewrite Qred_correct; reflexivity).
    rewrite (sumQ_ext _ (fun l => A i l * sumQ (fun k => V l k * peval p (lam k) * V j k) n)).
    2:{ intros l Hl. rewrite tab_spec by assumption. rewrite Qred_correct. rewrite (IH l j Hl Hj). reflexivity. }
    rewrite sumQ_swap_scal.
    rewrite (sumQ_ext (fun k => sumQ (fun l => A i l * (V l k * peval p (lam k) * V j k)) n)
                      (fun k => V i k * (lam k * peval p (lam k)) * V j k)).
    2:{ intros k Hk. rewrite (sumQ_ext _ (fun l => (A i l * V l k) * (peval p (lam k) * V j k))) by (intros; ring).
        rewrite sumQ_scal_r. rewrite (Heig i k Hi Hk). ring. }
    rewrite <- (Horth i j Hi Hj). rewrite <- sumQ_scal. rewrite <- sumQ_add.
    apply sumQ_ext. intros k _. ring.
Qed.

(* the diagonal: exactly the code's expression dot(vecs*vecs, p(vals)) *)
Theorem subgraph_poly : forall p i, (i < n)%nat -> pevalM n p A i i == spectral_diag n V lam p i.
Proof.
  intros p i Hi. rewrite (poly_spectral p i i Hi Hi). unfold spectral_diag. apply sumQ_ext. intros; ring.
Qed.
End Spectral.

(* the hypotheses in the form  A = V Lambda V^T  with V orthogonal imply the ones used above *)
Lemma decomposition_gives_eigen n (A V : mat Q) (lam : vec Q) :
  (forall i j, (i < n)%nat -> (j < n)%nat -> A i j == sumQ (fun k => V i k * lam k * V j k) n) ->
  (forall k l, (k < n)%nat -> (l < n)%nat -> sumQ (fun i => V i k * V i l) n == delta k l) ->
  forall i k, (i < n)%nat -> (k < n)%nat -> sumQ (fun l => A i l * V l k) n == lam k * V i k.
Proof.
  intros HA HVtV i k Hi Hk.
  rewrite (sumQ_ext _ (fun l => V l k * sumQ (fun m => V i m * lam m * V l m) n)).
  2:{ intros l Hl. rewrite (HA i l Hi Hl). ring. }
  rewrite sumQ_swap_scal.
  rewrite (sumQ_ext _ (fun m => delta m k * (V i m * lam m))).
  - rewrite (sumQ_delta_r' (fun m => V i m * lam m) n k Hk). ring.
  - intros m Hm. rewrite (sumQ_ext _ (fun l => (V l m * V l k) * (V i m * lam m))) by (intros; ring).
    rewrite sumQ_scal_r. rewrite (HVtV m k Hm Hk). reflexivity.
Qed.

(* ---------------- eigenvector centrality: |u| is again an eigenvector ---------------- *)
Section EigAbs.
Variables (n : nat) (A : mat Q) (u : vec Q) (lam : Q).
Hypothesis HA : forall i j, (i < n)%nat -> (j < n)%nat -> 0 <= A i j.
Hypothesis Hu : forall i, (i < n)%nat -> mvecQ n A u i == lam * u i.                       (* A u = lam u *)
(* the Perron / spectral part, ASSUMED: lam is the top of the Rayleigh quotient and only eigenvectors attain it *)
Hypothesis Hray : forall x : vec Q, qform n A x <= lam * normsq n x.
Hypothesis Hray_eq : forall x : vec Q, qform n A x == lam * normsq n x ->
                                       forall i, (i < n)%nat -> mvecQ n A x i == lam * x i.

Lemma normsq_abs : normsq n (vabs u) == normsq n u.
Proof.
  unfold normsq, vabs. apply sumQ_ext. intros i _. rewrite <- Qabs_Qmult.
  apply Qabs_pos. assert (H : 0 <= u i * u i) by nra. exact H.
Qed.

Lemma qform_abs_ge : qform n A u <= qform n A (vabs u).
Proof.
  unfold qform, mvecQ. apply sumQ_le. intros i Hi.
  rewrite <- !sumQ_scal. apply sumQ_le. intros j Hj. unfold vabs.
  assert (H1 : u i * (A i j * u j) == A i j * (u i * u j)) by ring.
  assert (H2 : Qabs (u i) * (A i j * Qabs (u j)) == A i j * Qabs (u i * u j)) by (rewrite Qabs_Qmult; ring).
  rewrite H1, H2. pose proof (Qle_Qabs (u i * u j)). pose proof (HA i j Hi Hj). nra.
Qed.

Lemma qform_u : qform n A u == lam * normsq n u.
Proof.
  unfold qform, normsq. rewrite <- sumQ_scal. apply sumQ_ext. intros i Hi. rewrite (Hu i Hi). ring.
Qed.

Theorem eigvec_abs_ok_partial :
  (forall i, 0 <= vabs u i) /\
  normsq n (vabs u) == normsq n u /\                       (* unit norm is inherited from the eigensolver's u *)
  (forall i, (i < n)%nat -> mvecQ n A (vabs u) i == lam * vabs u i).
Proof.
  split; [intros i; apply Qabs_nonneg|]. split; [exact normsq_abs|].
  apply Hray_eq. apply Qle_antisym; [apply Hray|].
  rewrite normsq_abs. rewrite <- qform_u. exact qform_abs_ge.
Qed.
End EigAbs.
