(* Proofs/DistanceFull.v — completion of the binary routines:
   (1) a shortest walk never repeats a node (pigeonhole): at most n edges, at most n-1 between distinct nodes;
   (2) the fuel n+2 of distance_bin / reachdist is always sufficient (totality);
   (3) reachdist: an infinite entry means there is no walk; the flag is true exactly when a walk exists. *)
From Coq Require Import QArith List Arith Bool ZArith Lia.
From BCT Require Import Base.Mat Base.ListX Model.Distance Proofs.DistanceBase Proofs.DistanceBin Proofs.DistanceReach.
Import ListNotations.

(* ====================== (1) shortest walks are simple ====================== *)
Section Simple.
Variable n : nat.
Variable G : mat Z.

Lemma NoDup_below_length (l : list nat) : NoDup l -> below n l -> (length l <= n)%nat.
Proof.
  intros Hnd B. rewrite <- (seq_length n 0). apply NoDup_incl_length; [exact Hnd|].
  intros x Hx. unfold below in B. rewrite Forall_forall in B. apply in_seq. specialize (B x Hx). lia.
Qed.

(* cut every cycle out of a walk *)
Lemma bw_simple mid : forall i j, bw G i mid j -> below n mid ->
  exists mid', bw G i mid' j /\ below n mid' /\ NoDup (i :: mid') /\ (length mid' <= length mid)%nat.
Proof.
  induction mid as [|m r IH]; intros i j W B.
  - exists []. split; [exact W|]. split; [apply below_nil|]. split; [|lia].
    constructor; [intros []|constructor].
  - cbn [bw] in W. destruct W as [E W]. apply below_cons in B. destruct B as [Hm B].
    destruct (IH m j W B) as [r' [W' [B' [ND Hl]]]].
    destruct (in_dec Nat.eq_dec i (m :: r')) as [Hin|Hnin].
    + apply in_split in Hin. destruct Hin as [l1 [l2 E12]].
      assert (B2 : below n (m :: r')) by (apply below_cons; auto).
      assert (L2 : length (m :: r') = length (l1 ++ i :: l2)) by (rewrite E12; reflexivity).
      rewrite app_length in L2. cbn [length] in L2.
      rewrite E12 in ND, B2.
      apply NoDup_app_inv in ND. destruct ND as [_ [ND _]].
      apply below_app in B2. destruct B2 as [_ B2]. apply below_cons in B2. destruct B2 as [_ B2].
      exists l2. split; [|split; [exact B2|split; [exact ND|cbn [length]; lia]]].
      destruct l1 as [|a l1]; cbn [app] in E12; injection E12 as -> ->.
      * exact W'.
      * apply bw_app in W'. tauto.
    + exists (m :: r'). split; [cbn [bw]; auto|]. split; [apply below_cons; auto|].
      split; [constructor; assumption|cbn [length]; lia].
Qed.

Lemma hasw_short e i j : (i < n)%nat -> hasw n G e i j ->
  exists e', (e' <= n)%nat /\ (e' <= e)%nat /\ hasw n G e' i j.
Proof.
  intros Hi [mid [Hl [B W]]]. destruct (bw_simple mid i j W B) as [mid' [W' [B' [ND Hl']]]].
  exists (S (length mid')). split; [|split; [lia|exists mid'; auto]].
  apply (NoDup_below_length (i :: mid') ND). apply below_cons. auto.
Qed.

Lemma hasw_short_ne e i j : (i < n)%nat -> (j < n)%nat -> i <> j -> hasw n G e i j ->
  exists e', (S e' <= n)%nat /\ (e' <= e)%nat /\ hasw n G e' i j.
Proof.
  intros Hi Hj Hne [mid [Hl [B W]]]. destruct (bw_simple mid i j W B) as [mid' [W' [B' [ND Hl']]]].
  assert (K : exists m1, bw G i m1 j /\ below n m1 /\ NoDup (i :: m1) /\ ~ In j m1 /\ (length m1 <= length mid')%nat).
  { destruct (in_dec Nat.eq_dec j mid') as [Hin|Hnin].
    - apply in_split in Hin. destruct Hin as [l1 [l2 ->]].
      apply bw_app in W'. destruct W' as [W1 _]. apply below_app in B'. destruct B' as [B1 _].
      exists l1. split; [exact W1|]. split; [exact B1|].
      inversion ND as [|? ? Hni ND']; subst.
      pose proof (NoDup_remove_2 _ _ _ ND') as Hnj.
      apply NoDup_app_inv in ND'. destruct ND' as [ND1 _].
      split; [constructor; [|exact ND1]|].
      + intros H. apply Hni. apply in_app_iff. left. exact H.
      + split; [intros H; apply Hnj; apply in_app_iff; left; exact H|].
        rewrite app_length. cbn [length]. lia.
    - exists mid'. auto. }
  destruct K as [m1 [W1 [B1 [ND1 [Hnj Hl1]]]]].
  exists (S (length m1)). split; [|split; [lia|exists m1; auto]].
  assert (ND2 : NoDup (j :: i :: m1)).
  { constructor; [|exact ND1]. intros [H|H]; [congruence|contradiction]. }
  pose proof (NoDup_below_length (j :: i :: m1) ND2) as Hlen.
  cbn [length] in Hlen. cbn [length]. apply Hlen.
  apply below_cons. split; [exact Hj|]. apply below_cons. auto.
Qed.

Lemma sd_le_n i j e : (i < n)%nat -> sd n G i j e -> (e <= n)%nat.
Proof.
  intros Hi [W Hmin]. destruct (hasw_short e i j Hi W) as [e' [H1 [H2 W']]].
  destruct (Nat.eq_dec e' e) as [->|Hne]; [exact H1|]. exfalso. apply (Hmin e'); [lia|exact W'].
Qed.
Lemma sd_lt_n i j e : (i < n)%nat -> (j < n)%nat -> i <> j -> sd n G i j e -> (S e <= n)%nat.
Proof.
  intros Hi Hj Hne [W Hmin]. destruct (hasw_short_ne e i j Hi Hj Hne W) as [e' [H1 [H2 W']]].
  destruct (Nat.eq_dec e' e) as [->|Hne']; [exact H1|]. exfalso. apply (Hmin e'); [lia|exact W'].
Qed.

End Simple.

(* ====================== (2) totality: the fuel is sufficient ====================== *)
Lemma anyb_true n (B : mat bool) : anyb n B = true -> exists i j, (i < n)%nat /\ (j < n)%nat /\ B i j = true.
Proof.
  unfold anyb. intros H. apply existsb_exists in H. destruct H as [i [Hi H]].
  apply existsb_exists in H. destruct H as [j [Hj H]]. apply in_seq in Hi, Hj.
  exists i, j. split; [lia|]. split; [lia|exact H].
Qed.

Section BinTotal.
Variable n : nat.
Variable G : mat Z.
Hypothesis HG : forall i j, (i < n)%nat -> (j < n)%nat -> (0 <= G i j)%Z.

(* one iteration of the while loop re-establishes the invariant of Proofs/DistanceBin.v *)
Lemma dinv_step d D nP Lm : dinv n G d D nP Lm ->
  let D' := tab 0%nat n n (fun i j => (D i j + (if Lm i j then d else 0))%nat) in
  let nP' := tab 0%Z n n (fun i j => b2z (znz (tab 0%Z n n (matmul n nP G) i j))) in
  let L' := tab false n n (fun i j => znz (nP' i j) && Nat.eqb (D' i j) 0) in
  dinv n G (S d) D' nP' L'.
Proof.
  intros I D' nP' L'.
  pose proof (di_d _ _ _ _ _ _ I) as Hd.
  assert (HD' : forall i j, (i < n)%nat -> (j < n)%nat -> D' i j = (D i j + (if Lm i j then d else 0))%nat)
    by (intros; unfold D'; rewrite tab_spec by assumption; reflexivity).
  assert (Hcase : forall i j, (i < n)%nat -> (j < n)%nat -> i <> j ->
            (Lm i j = true /\ D i j = 0%nat /\ D' i j = d /\ hasw n G d i j) \/
            (Lm i j = false /\ D' i j = D i j)).
  { intros i j Hi Hj Hne. rewrite HD' by assumption. destruct (Lm i j) eqn:E.
    - left. apply (di_L _ _ _ _ _ _ I i j Hi Hj Hne) in E. destruct E as [W E0]. rewrite E0. auto.
    - right. split; [reflexivity|lia]. }
  constructor.
  + lia.
  + apply pow_ok_clip, pow_ok_S; [exact HG|exact Hd|exact (di_pow _ _ _ _ _ _ I)].
  + intros i Hi. rewrite HD' by assumption. pose proof (di_diag _ _ _ _ _ _ I i Hi). lia.
  + intros i j Hi Hj Hne H0 e He.
    destruct (Hcase i j Hi Hj Hne) as [[_ [_ [E _]]]|[EL E]]; [lia|].
    rewrite E in H0. destruct (Nat.eq_dec e d) as [->|Hned].
    * intros W. assert (Lm i j = true) by (apply (di_L _ _ _ _ _ _ I i j Hi Hj Hne); auto). congruence.
    * apply (di_zero _ _ _ _ _ _ I i j Hi Hj Hne H0). lia.
  + intros i j Hi Hj Hne Hnz.
    destruct (Hcase i j Hi Hj Hne) as [[_ [E0 [E W]]]|[EL E]]; rewrite E in *.
    * split; [lia|]. split; [exact W|]. apply (di_zero _ _ _ _ _ _ I i j Hi Hj Hne E0).
    * destruct (di_set _ _ _ _ _ _ I i j Hi Hj Hne Hnz) as [Hlt Hsd]. split; [lia|exact Hsd].
  + intros i j Hi Hj Hne. unfold L'. rewrite tab_spec by assumption.
    pose proof (pow_ok_clip n G _ _ (pow_ok_S n G HG d nP Hd (di_pow _ _ _ _ _ _ I)) i j Hi Hj) as [_ HP].
    unfold znz. rewrite andb_true_iff, negb_true_iff, Z.eqb_neq, Nat.eqb_eq. fold nP' in HP. rewrite HP. tauto.
Qed.

(* the loop continues at length d only if a NEW pair of distinct nodes is first joined by d edges (or d = 1, where
   the initial L also carries the diagonal), hence d <= n; so at most n iterations and one final test *)
Lemma dbin_loop_total fuel : forall d D nP Lm, dinv n G d D nP Lm ->
  (d = 1%nat \/ forall i, (i < n)%nat -> Lm i i = false) ->
  (d <= n + 1)%nat -> (n + 2 <= fuel + d)%nat ->
  exists R, dbin_loop fuel n G D d nP Lm = Some R.
Proof.
  induction fuel as [|f IH]; intros d D nP Lm I Hdiag Hd Hf; [lia|].
  cbn [dbin_loop]. destruct (anyb n Lm) eqn:Eany; [|eexists; reflexivity].
  assert (Hdn : (d <= n)%nat).
  { apply anyb_true in Eany. destruct Eany as [i [j [Hi [Hj EL]]]].
    destruct (Nat.eq_dec i j) as [->|Hne].
    - destruct Hdiag as [->|Hdiag]; [lia|]. rewrite Hdiag in EL by assumption. discriminate.
    - apply (di_L _ _ _ _ _ _ I i j Hi Hj Hne) in EL. destruct EL as [W E0].
      assert (Hsd : sd n G i j d).
      { split; [exact W|]. intros e' He'. apply (di_zero _ _ _ _ _ _ I i j Hi Hj Hne E0 e' He'). }
      pose proof (sd_lt_n n G i j d Hi Hj Hne Hsd). lia. }
  pose proof (dinv_step d D nP Lm I) as I'. cbv zeta in I'.
  refine (IH (S d) _ _ _ I' _ ltac:(lia) ltac:(lia)).
  right. intros i Hi. rewrite tab_spec by assumption.
  pose proof (di_diag _ _ _ _ _ _ I' i Hi) as Hnz.
  destruct (Nat.eqb_spec (tab 0%nat n n (fun i0 j => (D i0 j + (if Lm i0 j then d else 0))%nat) i i) 0) as [E|E];
    [contradiction|apply andb_false_r].
Qed.
End BinTotal.

Theorem distance_bin_total n A : exists D, distance_bin n A = Some D.
Proof.
  unfold distance_bin, dbin_raw. set (G := tab 0%Z n n (bin A)).
  assert (HG : forall i j, (i < n)%nat -> (j < n)%nat -> (0 <= G i j)%Z).
  { intros i j Hi Hj. unfold G. rewrite tab_spec by assumption. unfold bin. destruct (A i j =? 0)%Z; lia. }
  destruct (dbin_loop_total n G HG (n + 2) 1 _ G _ (dinv_init n G HG) (or_introl eq_refl) ltac:(lia) ltac:(lia))
    as [R ->].
  eexists; reflexivity.
Qed.

Lemma reachdist2_total n C fuel : forall CP R D powr row col,
  (1 <= fuel)%nat -> (n + 2 <= fuel + powr)%nat ->
  exists r, reachdist2 fuel n C CP R D powr row col = Some r.
Proof.
  induction fuel as [|f IH]; intros CP R D powr row col H1 Hf; [lia|].
  cbn [reachdist2]. destruct (Nat.leb_spec powr n) as [Hle|Hgt]; cbn [andb]; [|eexists; reflexivity].
  destruct (existsb _ row); [|eexists; reflexivity].
  apply IH; lia.
Qed.

Theorem reachdist_total n A : exists RD, reachdist n A = Some RD.
Proof.
  unfold reachdist.
  destruct (reachdist2_total n (tab 0%Z n n (bin A)) (n + 2) (tab 0%Z n n (bin A))
              (fun i j => znz (tab 0%Z n n (bin A) i j)) (tab 0%Z n n (bin A)) 2
              (filter (fun i => negb (Z.eqb (sumn (fun j => tab 0%Z n n (bin A) i j) n) 0)) (seq 0 n))
              (filter (fun j => negb (Z.eqb (sumn (fun i => tab 0%Z n n (bin A) i j) n) 0)) (seq 0 n))
              ltac:(lia) ltac:(lia)) as [[[R D] p] E].
  cbv zeta. rewrite E. eexists; reflexivity.
Qed.

(* ====================== (3) reachdist: completeness ====================== *)
Open Scope Z_scope.

Lemma bw_last n G mid : forall i j, below n mid -> (i < n)%nat -> bw G i mid j -> exists m, (m < n)%nat /\ G m j <> 0.
Proof.
  induction mid as [|a r IH]; intros i j B Hi W; cbn [bw] in W.
  - exists i. auto.
  - apply below_cons in B. destruct B as [Ha B]. destruct W as [_ W]. apply (IH a j B Ha W).
Qed.
Lemma bw_first n G mid i j : below n mid -> (j < n)%nat -> bw G i mid j -> exists m, (m < n)%nat /\ G i m <> 0.
Proof.
  intros B Hj W. destruct mid as [|a r]; cbn [bw] in W.
  - exists j. auto.
  - apply below_cons in B. exists a. tauto.
Qed.

Lemma sumn_zero_all f n : (forall i, (i < n)%nat -> 0 <= f i) -> sumn f n = 0 -> forall i, (i < n)%nat -> f i = 0.
Proof.
  intros Hnn H0 i Hi. destruct (Z.eq_dec (f i) 0) as [E|E]; [exact E|exfalso].
  assert (sumn f n <> 0) by (apply (sumn_pos_iff f n Hnn); exists i; auto). contradiction.
Qed.

Lemma sd_unique n G i j a b : sd n G i j a -> sd n G i j b -> a = b.
Proof.
  intros [Wa Ma] [Wb Mb]. destruct (Nat.lt_trichotomy a b) as [H|[H|H]]; [|exact H|].
  - exfalso. exact (Mb a H Wa).
  - exfalso. exact (Ma b H Wb).
Qed.

(* full statement, every ordered pair INCLUDING the diagonal (where the entry is the length of the shortest cycle
   through the node, infinite if there is none): the returned entry is the exact minimum number of edges, it is
   infinite exactly when no walk exists, and the flag is true exactly when the entry is finite. *)
Theorem reachdist_correct n A R D : reachdist n A = Some (R, D) ->
  forall i j, (i < n)%nat -> (j < n)%nat ->
    (forall d, D i j = Some d -> exists k, d = Z.of_nat k /\ (1 <= k <= n)%nat) /\
    (forall k, D i j = Some (Z.of_nat k) <-> sd n A i j k) /\
    (D i j = None <-> forall e, ~ hasw n A e i j) /\
    (R i j = true <-> D i j <> None).
Proof.
  intros Hrun i j Hi Hj.
  pose proof (reachdist_partial n A R D Hrun i j) as Hpart.
  assert (Hcomp : D i j = None -> (forall e, ~ hasw n A e i j) /\ R i j = false).
  { revert Hrun. unfold reachdist. set (C := tab 0 n n (bin A)).
    destruct (reachdist2 _ n C C _ C 2 _ _) as [[[R' D'] p']|] eqn:Erun; [|discriminate].
    intros H. injection H as <- <-.
    assert (HC01 : forall i j, (i < n)%nat -> (j < n)%nat -> C i j = 0 \/ C i j = 1).
    { intros a b Ha Hb. unfold C. rewrite tab_spec by assumption. unfold bin. destruct (A a b =? 0); auto. }
    assert (HCA : forall i j, (i < n)%nat -> (j < n)%nat -> (C i j <> 0 <-> A i j <> 0)).
    { intros a b Ha Hb. unfold C. rewrite tab_spec by assumption. unfold bin.
      destruct (Z.eqb_spec (A a b) 0); split; intros; try lia; try congruence. }
    pose proof (HCnn n C HC01) as HCn.
    assert (Hn : (1 <= n)%nat) by lia.
    destruct (reachdist2_spec n C HC01 _ C (fun i j => znz (C i j)) C 1%nat _ _ R' D' p' (le_n 1) Hn
                (pow_ok_1 n C HCn) (rinv_init n C HC01) Erun) as [HI Hexit].
    cbv zeta.
    assert (HnoC : (forall e, ~ hasw n C e i j) -> (forall e, ~ hasw n A e i j) /\ R' i j = false).
    { intros Hno. split.
      - intros e W. apply (Hno e). apply (hasw_ext n C A HCA e i j Hi Hj). exact W.
      - destruct (HI i j Hi Hj) as [[ER _]|[f [_ [[W _] _]]]]; [exact ER|]. exfalso. exact (Hno f W). }
    destruct (sumn (fun i0 => C i0 j) n =? 0) eqn:Eid.
    { (* nothing enters j *)
      intros _. apply HnoC. intros e [mid [_ [B W]]].
      destruct (bw_last n C mid i j B Hi W) as [m [Hm Hne]].
      apply Z.eqb_eq in Eid.
      pose proof (sumn_zero_all (fun i0 => C i0 j) n (fun a Ha => HCn a j Ha Hj) Eid m Hm). contradiction. }
    destruct (sumn (fun j0 => C i j0) n =? 0) eqn:Eod.
    { intros _. apply HnoC. intros e [mid [_ [B W]]].
      destruct (bw_first n C mid i j B Hj W) as [m [Hm Hne]].
      apply Z.eqb_eq in Eod.
      pose proof (sumn_zero_all (fun j0 => C i j0) n (fun a Ha => HCn i a Hi Ha) Eod m Hm). contradiction. }
    rewrite !orb_false_r.
    destruct (Z.eqb_spec (Z.of_nat p' - D' i j + 1) (Z.of_nat n + 2)) as [En2|En2]; [|discriminate].
    intros _. apply HnoC.
    destruct (HI i j Hi Hj) as [[ER [ED Hno]]|[f [Hf [Hsd [_ ED]]]]];
      [|pose proof (sd_le_n n C i j f Hi Hsd); lia].
    assert (p' = S n) by lia. subst p'.
    intros e W. destruct (hasw_short n C e i j Hi W) as [e' [H1 [_ W']]]. apply (Hno e'); [lia|exact W']. }
  assert (Hbound : forall d, D i j = Some d -> exists k, d = Z.of_nat k /\ (1 <= k <= n)%nat).
  { intros d Hd. destruct (Hpart d Hi Hj Hd) as [k [-> [Hsd _]]]. exists k. split; [reflexivity|].
    split; [destruct Hsd as [[mid [Hl _]] _]; lia|apply (sd_le_n n A i j k Hi Hsd)]. }
  split; [exact Hbound|]. split; [|split].
  - intros k. split.
    + intros Hd. destruct (Hpart _ Hi Hj Hd) as [k' [E [Hsd _]]]. apply Nat2Z.inj in E. subst k'. exact Hsd.
    + intros Hsd. destruct (D i j) as [d|] eqn:Ed.
      * destruct (Hpart d Hi Hj eq_refl) as [k' [-> [Hsd' _]]]. rewrite (sd_unique n A i j k k' Hsd Hsd'). reflexivity.
      * exfalso. destruct (Hcomp eq_refl) as [Hno _]. destruct Hsd as [W _]. exact (Hno k W).
  - split; [intros H; apply Hcomp; exact H|].
    intros Hno. destruct (D i j) as [d|] eqn:Ed; [exfalso|reflexivity].
    destruct (Hpart d Hi Hj eq_refl) as [k [_ [[W _] _]]]. exact (Hno k W).
  - split.
    + intros HR Hnone. destruct (Hcomp Hnone) as [_ HF]. congruence.
    + intros Hfin. destruct (D i j) as [d|] eqn:Ed; [|congruence].
      destruct (Hpart d Hi Hj eq_refl) as [k [_ [_ HR]]]. exact HR.
Qed.
Close Scope Z_scope.

(* ---------- from edge counts to the generic length specification ---------- *)
Open Scope Q_scope.
Lemma sd_min_dist n A i j k : sd n A i j k -> is_min_dist n (Lbin A) i j (Some (nq k)).
Proof.
  intros [[mid [Hl [B W]]] Hmin]. cbn [is_min_dist]. split.
  - exists mid. split; [exact B|]. pose proof (wl_bin A mid i j) as W'.
    destruct (wl (Lbin A) i mid j) as [y|]; [|contradiction]. exists y. split; [reflexivity|].
    rewrite Hl in W'. tauto.
  - intros mid' y B' W'. pose proof (wl_bin A mid' i j) as W2. rewrite W' in W2. destruct W2 as [W2 Ey].
    rewrite Ey. apply nq_le.
    destruct (Nat.lt_ge_cases (S (length mid')) k) as [Hlt|Hge]; [|exact Hge].
    exfalso. apply (Hmin _ Hlt). exists mid'. auto.
Qed.
Lemma nowalk_min_dist n A i j : (forall e, ~ hasw n A e i j) -> is_min_dist n (Lbin A) i j None.
Proof.
  intros Hno. cbn [is_min_dist]. intros mid B. pose proof (wl_bin A mid i j) as W.
  destruct (wl (Lbin A) i mid j); [|reflexivity]. exfalso. apply (Hno (S (length mid))). exists mid. tauto.
Qed.
Lemma reachable_hasw n A i j : reachable n (Lbin A) i j <-> exists e, hasw n A e i j.
Proof.
  split.
  - intros [mid [B W]]. pose proof (wl_bin A mid i j) as W'. destruct (wl (Lbin A) i mid j); [|congruence].
    exists (S (length mid)), mid. tauto.
  - intros [e [mid [_ [B W]]]]. exists mid. split; [exact B|]. pose proof (wl_bin A mid i j) as W'.
    destruct (wl (Lbin A) i mid j); [discriminate|contradiction].
Qed.

Definition zlen (a : option Z) : len := match a with Some d => Some (inject_Z d) | None => None end.

Theorem reachdist_dist_correct n A R D : reachdist n A = Some (R, D) ->
  (forall i j, (i < n)%nat -> (j < n)%nat -> is_min_dist n (Lbin A) i j (zlen (D i j))) /\
  (forall i j, (i < n)%nat -> (j < n)%nat -> (R i j = true <-> reachable n (Lbin A) i j)).
Proof.
  intros Hrun. split; intros i j Hi Hj; destruct (reachdist_correct n A R D Hrun i j Hi Hj) as [Hb [Hsd [Hnone HR]]].
  - destruct (D i j) as [d|] eqn:Ed; cbn [zlen].
    + destruct (Hb d eq_refl) as [k [-> _]]. apply (sd_min_dist n A i j k). apply Hsd. reflexivity.
    + apply nowalk_min_dist. apply Hnone. reflexivity.
  - rewrite HR, reachable_hasw. split.
    + intros Hfin. destruct (D i j) as [d|] eqn:Ed; [|congruence].
      destruct (Hb d eq_refl) as [k [-> _]]. exists k. apply (Hsd k). reflexivity.
    + intros [e W] Hn. exact (proj1 Hnone Hn e W).
Qed.
