(* Proofs/Core.v — the peeling loop of kcore_bu / kcore_bd / score_wu computes the largest node set
   in which every node keeps degree >= k inside the set. Generic over the "contribution" function c:
   degree of j in M = sum_i c (M i j) (M j i)
     kcore_bu: c a b = nz a         kcore_bd: c a b = nz a + nz b        score_wu: c a b = a *)
From Coq Require Import QArith Qring Lia Lqa Arith List Bool ZArith.
From BCT Require Import Base.Mat Base.SumQ Base.ListX Model.Core.
Import ListNotations.
Open Scope Q_scope.

(* ---------- small facts ---------- *)
Lemma qltb_true a b : qltb a b = true <-> a < b.
Proof.
  unfold qltb. rewrite negb_true_iff. split.
  - intros H. apply Qnot_le_lt. intros Hle. apply Qle_bool_iff in Hle. congruence.
  - intros H. destruct (Qle_bool b a) eqn:E; [|reflexivity]. apply Qle_bool_iff in E. lra.
Qed.
Lemma qltb_false a b : qltb a b = false <-> b <= a.
Proof.
  split.
  - intros H. destruct (Qlt_le_dec a b) as [Hl|Hl]; [|exact Hl]. apply qltb_true in Hl. congruence.
  - intros H. destruct (qltb a b) eqn:E; [|reflexivity]. apply qltb_true in E. lra.
Qed.
Lemma qltb_proper a a' b b' : a == a' -> b == b' -> qltb a b = qltb a' b'.
Proof.
  intros Ha Hb. destruct (qltb a' b') eqn:E.
  - apply qltb_true in E. apply qltb_true. lra.
  - apply qltb_false in E. apply qltb_false. lra.
Qed.

Lemma nmem_app x l1 l2 : nmem x (l1 ++ l2) = nmem x l1 || nmem x l2.
Proof. unfold nmem. apply existsb_app. Qed.

Lemma sumQ_zero_inv f n : (forall i, (i < n)%nat -> 0 <= f i) -> sumQ f n == 0 ->
  forall i, (i < n)%nat -> f i == 0.
Proof.
  induction n; intros Hnn Hs i Hi; [lia|]. cbn [sumQ] in Hs.
  assert (H1 : 0 <= sumQ f n) by (apply sumQ_nonneg; intros; apply Hnn; lia).
  assert (H2 : 0 <= f n) by (apply Hnn; lia).
  destruct (Nat.eq_dec i n) as [->|Hne]; [lra|].
  apply IHn; [intros; apply Hnn; lia|lra|lia].
Qed.

Lemma nzq_cases w : (w == 0 /\ nzq w = 0) \/ (~ w == 0 /\ nzq w = 1).
Proof.
  unfold nzq. destruct (Qeq_bool w 0) eqn:E.
  - left. split; [apply Qeq_bool_iff; exact E|reflexivity].
  - right. split; [|reflexivity]. intros H. apply Qeq_bool_iff in H. congruence.
Qed.
Lemma nzq_proper a a' : a == a' -> nzq a = nzq a'.
Proof.
  intros H. destruct (nzq_cases a) as [[H1 ->]|[H1 ->]], (nzq_cases a') as [[H2 ->]|[H2 ->]]; try reflexivity;
    exfalso; [apply H2; rewrite <- H; exact H1|apply H1; rewrite H; exact H2].
Qed.
Lemma nzq_nonneg w : 0 <= nzq w.
Proof. destruct (nzq_cases w) as [[_ ->]|[_ ->]]; lra. Qed.

Lemma filter_nil_inv {A} (p : A -> bool) l : filter p l = [] -> forall x, In x l -> p x = false.
Proof.
  induction l as [|a l IH]; cbn [filter]; intros H x Hx; [contradiction|].
  destruct (p a) eqn:E; [discriminate|]. destruct Hx as [<-|Hx]; [exact E|apply IH; assumption].
Qed.

Lemma NoDup_lt_length (l : list nat) n : NoDup l -> (forall x, In x l -> (x < n)%nat) -> (length l <= n)%nat.
Proof.
  intros Hnd Hlt. rewrite <- (seq_length n 0). apply NoDup_incl_length; [exact Hnd|].
  intros x Hx. apply in_seq. specialize (Hlt x Hx). lia.
Qed.

(* peellevel as a function of peelorder *)
Fixpoint levels_from (s : nat) (po : list (list nat)) : list (list nat) :=
  match po with [] => [] | ff :: t => repeat (S s) (length ff) :: levels_from (S s) t end.
Lemma levels_from_app s po ff :
  levels_from s (po ++ [ff]) = levels_from s po ++ [repeat (S (s + length po)) (length ff)].
Proof.
  revert s. induction po as [|a po IH]; intros s; cbn [app levels_from length].
  - rewrite Nat.add_0_r. reflexivity.
  - rewrite IH. rewrite Nat.add_succ_r. reflexivity.
Qed.

(* restriction of W to a node set; node sets are boolean predicates *)
Definition restrictA (A : nat -> bool) (W : mat Q) : mat Q := fun i j => if A i && A j then W i j else 0.
Definition alive (po : list (list nat)) (j : nat) : bool := negb (nmem j (concat po)).
Definition card (n : nat) (A : nat -> bool) : nat := length (filter A (seq 0 n)).

Lemma alive_app po ff j : alive (po ++ [ff]) j = alive po j && negb (nmem j ff).
Proof.
  unfold alive. rewrite concat_app. cbn [concat]. rewrite app_nil_r, nmem_app, negb_orb. reflexivity.
Qed.

Lemma In_peel_ff n deg k j : In j (peel_ff n deg k) <-> (j < n)%nat /\ deg j < k /\ 0 < deg j.
Proof.
  unfold peel_ff. rewrite filter_In, in_seq, andb_true_iff, !qltb_true. intuition lia.
Qed.

Section Peel.
Variable c : Q -> Q -> Q.
Hypothesis c_proper : forall a a' b b', a == a' -> b == b' -> c a b == c a' b'.
Hypothesis c00 : c 0 0 == 0.
Variable dg : nat -> mat Q -> vec Q.
Definition dgc (n : nat) (M : mat Q) (j : nat) : Q := sumQ (fun i => c (M i j) (M j i)) n.
Hypothesis dg_spec : forall n M j, dg n M j == dgc n M j.

Variables (n : nat) (W : mat Q) (k : Q).

(* degree of j inside the node set A *)
Definition din (A : nat -> bool) (j : nat) : Q := dgc n (restrictA A W) j.

Lemma dgc_ext M M' j : (j < n)%nat ->
  (forall a b, (a < n)%nat -> (b < n)%nat -> M a b == M' a b) -> dgc n M j == dgc n M' j.
Proof. intros Hj H. apply sumQ_ext. intros i Hi. apply c_proper; apply H; assumption. Qed.

Lemma din_dead A j : A j = false -> din A j == 0.
Proof.
  intros H. unfold din, dgc. apply sumQ_zero'. intros i _. unfold restrictA. rewrite H, andb_false_r.
  cbn [andb]. exact c00.
Qed.

Lemma din_ext A B j : (j < n)%nat -> (forall i, (i < n)%nat -> A i = B i) -> din A j == din B j.
Proof.
  intros Hj H. apply dgc_ext; [exact Hj|]. intros a b Ha Hb. unfold restrictA.
  rewrite (H a Ha), (H b Hb). reflexivity.
Qed.

Definition nonneg_contrib : Prop := forall i j, (i < n)%nat -> (j < n)%nat -> 0 <= c (W i j) (W j i).
(* a vanishing contribution means no connection in either direction *)
Definition zero_contrib : Prop :=
  forall i j, (i < n)%nat -> (j < n)%nat -> c (W i j) (W j i) == 0 -> W i j == 0 /\ W j i == 0.

Lemma din_nonneg A j : nonneg_contrib -> (j < n)%nat -> 0 <= din A j.
Proof.
  intros Hnn Hj. apply sumQ_nonneg. intros i Hi. unfold restrictA.
  rewrite (andb_comm (A j)). destruct (A i && A j); [apply Hnn; assumption|rewrite c00; lra].
Qed.

Lemma din_mono A B j : nonneg_contrib -> (j < n)%nat ->
  (forall i, (i < n)%nat -> A i = true -> B i = true) -> A j = true -> din A j <= din B j.
Proof.
  intros Hnn Hj Hsub HAj. apply sumQ_le. intros i Hi. unfold restrictA.
  rewrite (andb_comm (A j)), (andb_comm (B j)). rewrite HAj, (Hsub j Hj HAj), !andb_true_r.
  destruct (A i) eqn:EA.
  - rewrite (Hsub i Hi EA). lra.
  - rewrite c00. destruct (B i); [apply Hnn; assumption|rewrite c00; lra].
Qed.

(* ---------- the loop invariant ---------- *)
Record Inv (M : mat Q) (it : nat) (po pl : list (list nat)) : Prop := {
  inv_M : forall i j, (i < n)%nat -> (j < n)%nat -> M i j = restrictA (alive po) W i j;
  inv_nodup : NoDup (concat po);
  inv_lt : forall x, In x (concat po) -> (x < n)%nat;
  inv_it : it = length po;
  inv_pl : pl = levels_from 0 po;
  inv_ne : Forall (fun ff => ff <> []) po
}.

Lemma Inv_init : Inv W 0 [] [].
Proof.
  constructor.
  - intros i j _ _. unfold restrictA, alive. cbn. reflexivity.
  - cbn. constructor.
  - cbn. contradiction.
  - reflexivity.
  - reflexivity.
  - constructor.
Qed.

Lemma deg_of_inv M it po pl j : Inv M it po pl -> (j < n)%nat ->
  tabv 0 n (dg n M) j == din (alive po) j.
Proof.
  intros HI Hj. rewrite tabv_spec by exact Hj. rewrite dg_spec. apply dgc_ext; [exact Hj|].
  intros a b Ha Hb. rewrite (inv_M _ _ _ _ HI a b Ha Hb). reflexivity.
Qed.

Definition step_M (ff : list nat) (M : mat Q) : mat Q := tab 0 n n (zero_cols ff (zero_rows ff M)).

Lemma Inv_step M it po pl ff : Inv M it po pl -> ff = peel_ff n (tabv 0 n (dg n M)) k ->
  ff <> [] -> Inv (step_M ff M) (S it) (po ++ [ff]) (pl ++ [repeat (S it) (length ff)]).
Proof.
  intros HI Hff Hne. constructor.
  - intros i j Hi Hj. unfold step_M. rewrite tab_spec by assumption.
    unfold zero_cols, zero_rows, restrictA. rewrite !alive_app.
    rewrite (inv_M _ _ _ _ HI i j Hi Hj). unfold restrictA.
    destruct (nmem j ff), (nmem i ff), (alive po i), (alive po j); reflexivity.
  - rewrite concat_app. cbn [concat]. rewrite app_nil_r. apply NoDup_app_intro.
    + exact (inv_nodup _ _ _ _ HI).
    + subst ff. unfold peel_ff. apply NoDup_filter, seq_NoDup.
    + intros z Hz Hz'. subst ff. apply In_peel_ff in Hz'. destruct Hz' as (Hzn & _ & Hpos).
      rewrite (deg_of_inv M it po pl z HI Hzn) in Hpos.
      rewrite din_dead in Hpos; [lra|]. unfold alive. apply negb_false_iff. apply nmem_In. exact Hz.
  - intros x. rewrite concat_app. cbn [concat]. rewrite app_nil_r, in_app_iff. intros [H|H].
    + exact (inv_lt _ _ _ _ HI x H).
    + subst ff. apply In_peel_ff in H. tauto.
  - rewrite app_length. cbn [length]. rewrite (inv_it _ _ _ _ HI). lia.
  - rewrite levels_from_app. rewrite (inv_pl _ _ _ _ HI), (inv_it _ _ _ _ HI). reflexivity.
  - apply Forall_app. split; [exact (inv_ne _ _ _ _ HI)|]. constructor; [exact Hne|constructor].
Qed.

(* Hoare-style rule for the loop: any property preserved by a round holds of the result *)
Lemma peel_loop_rule (P : mat Q -> nat -> list (list nat) -> list (list nat) -> Prop) :
  (forall M it po pl ff, P M it po pl -> Inv M it po pl -> ff = peel_ff n (tabv 0 n (dg n M)) k -> ff <> [] ->
     P (step_M ff M) (S it) (po ++ [ff]) (pl ++ [repeat (S it) (length ff)])) ->
  forall fuel M it po pl r, P M it po pl -> Inv M it po pl ->
    peel_loop dg fuel n k M it po pl = Some r ->
    P (pr_M r) (pr_iter r) (pr_order r) (pr_level r) /\ Inv (pr_M r) (pr_iter r) (pr_order r) (pr_level r) /\
    pr_deg r = tabv 0 n (dg n (pr_M r)) /\ peel_ff n (pr_deg r) k = [].
Proof.
  intros Hstep. induction fuel as [|f IH]; intros M it po pl r HP HI Hrun; cbn [peel_loop] in Hrun; [discriminate|].
  destruct (peel_ff n (tabv 0 n (dg n M)) k) as [|x ff'] eqn:Eff.
  - inversion Hrun; subst r. cbn [pr_M pr_iter pr_order pr_level pr_deg]. auto.
  - apply (IH _ _ _ _ r) in Hrun; [exact Hrun| |].
    + apply Hstep; [exact HP|exact HI|symmetry; exact Eff|discriminate].
    + apply Inv_step; [exact HI|symmetry; exact Eff|discriminate].
Qed.

(* termination: every round peels at least one node that was not peeled before *)
Lemma peel_loop_terminates fuel : forall M it po pl, Inv M it po pl ->
  (fuel + length (concat po) > n)%nat -> exists r, peel_loop dg fuel n k M it po pl = Some r.
Proof.
  induction fuel as [|f IH]; intros M it po pl HI Hm.
  - exfalso. pose proof (NoDup_lt_length _ n (inv_nodup _ _ _ _ HI) (inv_lt _ _ _ _ HI)). lia.
  - cbn [peel_loop]. destruct (peel_ff n (tabv 0 n (dg n M)) k) as [|x ff'] eqn:Eff.
    + eexists; reflexivity.
    + apply IH.
      * apply Inv_step; [exact HI|symmetry; exact Eff|discriminate].
      * rewrite concat_app, app_length. cbn [concat length]. rewrite app_nil_r. cbn [length]. lia.
Qed.

Theorem peel_terminates : exists r, peel dg n W k = Some r.
Proof. unfold peel. apply peel_loop_terminates; [exact Inv_init|cbn; lia]. Qed.

(* ---------- facts about the result ---------- *)
Variable r : peel_res.
Hypothesis Hrun : peel dg n W k = Some r.

Definition survivors : nat -> bool := alive (pr_order r).            (* never zeroed explicitly *)
Definition core (j : nat) : bool := qltb 0 (pr_deg r j).             (* the nodes counted by kn: deg > 0 *)

Lemma final_facts :
  Inv (pr_M r) (pr_iter r) (pr_order r) (pr_level r) /\
  (forall j, (j < n)%nat -> pr_deg r j == din survivors j) /\
  (forall j, (j < n)%nat -> 0 < din survivors j -> k <= din survivors j).
Proof.
  destruct (peel_loop_rule (fun _ _ _ _ => True) (fun _ _ _ _ _ _ _ _ _ => I) _ _ _ _ _ r I Inv_init Hrun)
    as (_ & HI & Hdeg & Hff).
  assert (Hd : forall j, (j < n)%nat -> pr_deg r j == din survivors j).
  { intros j Hj. rewrite Hdeg. apply (deg_of_inv _ _ _ _ j HI Hj). }
  split; [exact HI|]. split; [exact Hd|].
  intros j Hj Hpos. pose proof (filter_nil_inv _ _ Hff j) as Hf.
  assert (Hin : In j (seq 0 n)) by (apply in_seq; lia). specialize (Hf Hin). cbn beta in Hf.
  apply andb_false_iff in Hf. rewrite <- (Hd j Hj) in *. destruct Hf as [Hf|Hf].
  - apply qltb_false in Hf. exact Hf.
  - apply qltb_false in Hf. lra.
Qed.

Lemma core_sub_survivors j : (j < n)%nat -> core j = true -> survivors j = true.
Proof.
  intros Hj Hc. destruct final_facts as (_ & Hd & _). unfold core in Hc. apply qltb_true in Hc.
  destruct (survivors j) eqn:E; [reflexivity|]. rewrite (Hd j Hj), (din_dead _ _ E) in Hc. lra.
Qed.

(* every survivor with a positive degree has degree >= k among the survivors *)
Theorem feasible_survivors j : (j < n)%nat -> core j = true -> k <= din survivors j.
Proof.
  intros Hj Hc. destruct final_facts as (_ & Hd & Hf). apply Hf; [exact Hj|].
  unfold core in Hc. apply qltb_true in Hc. rewrite <- (Hd j Hj). exact Hc.
Qed.

(* the returned matrix is the input with the rows/columns of the peeled nodes zeroed *)
Theorem matrix_is_restriction_survivors i j : (i < n)%nat -> (j < n)%nat ->
  pr_M r i j = restrictA survivors W i j.
Proof. intros Hi Hj. destruct final_facts as (HI & _). exact (inv_M _ _ _ _ HI i j Hi Hj). Qed.

(* a survivor outside the core has no connection left (needs: contributions are >= 0 and vanish only without a link) *)
Lemma restrict_core_eq : nonneg_contrib -> zero_contrib ->
  forall i j, (i < n)%nat -> (j < n)%nat -> restrictA survivors W i j == restrictA core W i j.
Proof.
  intros Hnn Hz. destruct final_facts as (_ & Hd & _).
  assert (Hiso : forall a b, (a < n)%nat -> (b < n)%nat -> survivors a = true -> survivors b = true ->
                 core a = false -> W a b == 0 /\ W b a == 0).
  { intros a b Ha Hb Sa Sb Ca. unfold core in Ca. apply qltb_false in Ca. rewrite (Hd a Ha) in Ca.
    pose proof (din_nonneg survivors a Hnn Ha) as H0.
    assert (Hs : din survivors a == 0) by lra.
    assert (Hnn' : forall i, (i < n)%nat -> 0 <= c (restrictA survivors W i a) (restrictA survivors W a i)).
    { intros i Hi. unfold restrictA. rewrite (andb_comm (survivors a)).
      destruct (survivors i && survivors a); [apply Hnn; assumption|rewrite c00; lra]. }
    specialize (sumQ_zero_inv _ n Hnn' Hs b Hb) as Hb0. unfold restrictA in Hb0.
    rewrite Sa, Sb in Hb0. cbn [andb] in Hb0. destruct (Hz b a Hb Ha Hb0). split; assumption. }
  intros i j Hi Hj. unfold restrictA.
  destruct (core i) eqn:Ci; destruct (core j) eqn:Cj; cbn [andb];
    try rewrite (core_sub_survivors i Hi Ci); try rewrite (core_sub_survivors j Hj Cj); cbn [andb]; try reflexivity.
  - destruct (survivors j) eqn:Sj; [|reflexivity].
    destruct (Hiso j i Hj Hi Sj (core_sub_survivors i Hi Ci) Cj) as [_ H]. exact H.
  - destruct (survivors i) eqn:Si; cbn [andb]; [|reflexivity].
    destruct (Hiso i j Hi Hj Si (core_sub_survivors j Hj Cj) Ci) as [H _]. exact H.
  - destruct (survivors i) eqn:Si; destruct (survivors j) eqn:Sj; cbn [andb]; try reflexivity.
    destruct (Hiso i j Hi Hj Si Sj Ci) as [H _]. exact H.
Qed.

Lemma din_core_eq : nonneg_contrib -> zero_contrib -> forall j, (j < n)%nat -> din survivors j == din core j.
Proof. intros Hnn Hz j Hj. apply dgc_ext; [exact Hj|]. intros a b Ha Hb. apply restrict_core_eq; assumption. Qed.

Theorem core_matrix_is_restriction : nonneg_contrib -> zero_contrib ->
  forall i j, (i < n)%nat -> (j < n)%nat -> pr_M r i j == restrictA core W i j.
Proof.
  intros Hnn Hz i j Hi Hj. rewrite (matrix_is_restriction_survivors i j Hi Hj). apply restrict_core_eq; assumption.
Qed.

Lemma core_deg : nonneg_contrib -> zero_contrib -> forall j, (j < n)%nat -> pr_deg r j == din core j.
Proof.
  intros Hnn Hz j Hj. destruct final_facts as (_ & Hd & _). rewrite (Hd j Hj). apply din_core_eq; assumption.
Qed.

Theorem core_is_feasible : nonneg_contrib -> zero_contrib ->
  forall j, (j < n)%nat -> core j = true -> k <= din core j /\ 0 < din core j.
Proof.
  intros Hnn Hz j Hj Hc. rewrite <- (din_core_eq Hnn Hz j Hj). split.
  - apply feasible_survivors; assumption.
  - destruct final_facts as (_ & Hd & _). rewrite <- (Hd j Hj). apply qltb_true. exact Hc.
Qed.

(* ANY node set all of whose members have degree >= k (and > 0) inside the set is contained in the core *)
Theorem core_is_maximal : nonneg_contrib ->
  forall S : nat -> bool,
  (forall j, (j < n)%nat -> S j = true -> k <= din S j /\ 0 < din S j) ->
  forall j, (j < n)%nat -> S j = true -> core j = true.
Proof.
  intros Hnn S HS.
  destruct (peel_loop_rule (fun _ _ po _ => forall j, (j < n)%nat -> S j = true -> alive po j = true)) with
    (fuel := Datatypes.S n) (M := W) (it := 0%nat) (po := @nil (list nat)) (pl := @nil (list nat)) (r := r)
    as (Hsub & HI & Hdeg & _).
  - intros M it po pl ff HP HI Hff Hne j Hj Sj. rewrite alive_app, (HP j Hj Sj). cbn [andb].
    apply negb_true_iff. apply nmem_false. intros Hin. subst ff. apply In_peel_ff in Hin.
    destruct Hin as (_ & Hlt & _). rewrite (deg_of_inv _ _ _ _ j HI Hj) in Hlt.
    pose proof (din_mono S (alive po) j Hnn Hj HP Sj). destruct (HS j Hj Sj). lra.
  - intros j _ _. reflexivity.
  - exact Inv_init.
  - exact Hrun.
  - intros j Hj Sj. unfold core. apply qltb_true. destruct final_facts as (_ & Hd & _).
    rewrite (Hd j Hj). pose proof (din_mono S survivors j Hnn Hj Hsub Sj). destruct (HS j Hj Sj). lra.
Qed.

(* kn is the size of the core, and no feasible set is larger *)
Theorem kn_is_size : kn_of n (pr_deg r) = card n core.
Proof. reflexivity. Qed.

Lemma card_le A B : (forall j, (j < n)%nat -> A j = true -> B j = true) -> (card n A <= card n B)%nat.
Proof.
  intros H. unfold card. apply NoDup_incl_length; [apply NoDup_filter, seq_NoDup|].
  intros x Hx. apply filter_In in Hx. destruct Hx as [Hx HA]. apply filter_In. split; [exact Hx|].
  apply H; [apply in_seq in Hx; lia|exact HA].
Qed.

Theorem kn_is_largest : nonneg_contrib ->
  forall S : nat -> bool, (forall j, (j < n)%nat -> S j = true -> k <= din S j /\ 0 < din S j) ->
  (card n S <= kn_of n (pr_deg r))%nat.
Proof. intros Hnn S HS. rewrite kn_is_size. apply card_le. apply core_is_maximal; assumption. Qed.

(* k <= 0: nothing is peeled; the matrix is returned unchanged and kn counts the non-isolated nodes *)
Theorem k_nonpositive : k <= 0 ->
  pr_M r = W /\ pr_order r = [] /\ pr_level r = [] /\ forall j, (j < n)%nat -> pr_deg r j == dgc n W j.
Proof.
  intros Hk. unfold peel in Hrun. cbn [peel_loop] in Hrun.
  destruct (peel_ff n (tabv 0 n (dg n W)) k) as [|x l] eqn:E.
  - inversion Hrun; subst r; cbn. repeat split; try reflexivity.
    intros j Hj. rewrite tabv_spec by exact Hj. apply dg_spec.
  - exfalso. assert (Hx : In x (peel_ff n (tabv 0 n (dg n W)) k)) by (rewrite E; left; reflexivity).
    apply In_peel_ff in Hx. lra.
Qed.

(* peelorder / peellevel *)
Theorem peel_each_once :
  NoDup (concat (pr_order r)) /\
  (forall x, In x (concat (pr_order r)) -> (x < n)%nat /\ core x = false) /\
  pr_level r = levels_from 0 (pr_order r) /\ pr_iter r = length (pr_order r) /\
  Forall (fun ff => ff <> []) (pr_order r) /\
  (forall j, (j < n)%nat -> survivors j = negb (nmem j (concat (pr_order r)))).
Proof.
  destruct final_facts as (HI & Hd & _). split; [exact (inv_nodup _ _ _ _ HI)|]. split.
  - intros x Hx. pose proof (inv_lt _ _ _ _ HI x Hx) as Hxn. split; [exact Hxn|].
    unfold core. apply qltb_false. rewrite (Hd x Hxn). rewrite din_dead; [lra|].
    unfold survivors, alive. apply negb_false_iff. apply nmem_In. exact Hx.
  - split; [exact (inv_pl _ _ _ _ HI)|]. split; [exact (inv_it _ _ _ _ HI)|].
    split; [exact (inv_ne _ _ _ _ HI)|]. intros j _. reflexivity.
Qed.

(* a node that is neither listed in peelorder nor in the core is isolated among the survivors *)
Theorem unlisted_noncore_isolated : nonneg_contrib -> forall j, (j < n)%nat ->
  ~ In j (concat (pr_order r)) -> core j = false -> din survivors j == 0.
Proof.
  intros Hnn j Hj _ Hc. destruct final_facts as (_ & Hd & _). unfold core in Hc. apply qltb_false in Hc.
  rewrite (Hd j Hj) in Hc. pose proof (din_nonneg survivors j Hnn Hj). lra.
Qed.
End Peel.

(* ---------- more about the result: the last degree vector belongs to the returned matrix ---------- *)
Section Peel2.
Variable c : Q -> Q -> Q.
Hypothesis c_proper : forall a a' b b', a == a' -> b == b' -> c a b == c a' b'.
Hypothesis c00 : c 0 0 == 0.
Variable dg : nat -> mat Q -> vec Q.
Hypothesis dg_spec : forall n M j, dg n M j == dgc c n M j.
Variables (n : nat) (W : mat Q).
Hypothesis Hnn : nonneg_contrib c n W.
Hypothesis Hz : zero_contrib c n W.

Lemma final_deg k r : peel dg n W k = Some r -> forall j, (j < n)%nat -> pr_deg r j == dg n (pr_M r) j.
Proof.
  intros Hrun j Hj.
  destruct (peel_loop_rule c c_proper c00 dg dg_spec n W k (fun _ _ _ _ => True) (fun _ _ _ _ _ _ _ _ _ => I)
              _ _ _ _ _ r I (Inv_init n W) Hrun) as (_ & _ & Hdeg & _).
  rewrite Hdeg. rewrite tabv_spec by exact Hj. reflexivity.
Qed.

(* cores are nested: k <= k' => core k' is inside core k *)
Theorem cores_nested k k' r r' : k <= k' ->
  peel dg n W k = Some r -> peel dg n W k' = Some r' ->
  forall j, (j < n)%nat -> core r' j = true -> core r j = true.
Proof.
  intros Hkk Hr Hr'.
  apply (core_is_maximal c c_proper c00 dg dg_spec n W k r Hr Hnn (core r')).
  intros j Hj Hc.
  destruct (core_is_feasible c c_proper c00 dg dg_spec n W k' r' Hr' Hnn Hz j Hj Hc) as [H1 H2].
  split; [lra|exact H2].
Qed.

(* membership in the k-core as a boolean function of k *)
Definition coreb (k : Q) (j : nat) : bool :=
  match peel dg n W k with Some r => core r j | None => false end.

Lemma coreb_nested k k' j : k <= k' -> (j < n)%nat -> coreb k' j = true -> coreb k j = true.
Proof.
  intros Hkk Hj. unfold coreb.
  destruct (peel_terminates c c_proper c00 dg dg_spec n W k) as [r Hr].
  destruct (peel_terminates c c_proper c00 dg dg_spec n W k') as [r' Hr'].
  rewrite Hr, Hr'. apply (cores_nested k k' r r' Hkk Hr Hr' j Hj).
Qed.

(* no core above a bound on the degrees *)
Lemma core_empty_above (B : Q) k r : peel dg n W k = Some r ->
  (forall A j, (j < n)%nat -> din c n W A j <= B) -> B < k -> forall j, (j < n)%nat -> core r j = false.
Proof.
  intros Hr HB Hk j Hj. destruct (core r j) eqn:E; [|reflexivity]. exfalso.
  destruct (core_is_feasible c c_proper c00 dg dg_spec n W k r Hr Hnn Hz j Hj E) as [H1 _].
  specialize (HB (core r) j Hj). lra.
Qed.

(* ---------- kcoreness_centrality: the loop over k = 0..m-1 ---------- *)
Variable ss : mat Q -> nat -> bool.
Hypothesis Hss : forall k r, peel dg n W k = Some r -> forall j, (j < n)%nat -> ss (pr_M r) j = core r j.

Definition qn (m : nat) : Q := inject_Z (Z.of_nat m).
Lemma qn_le a b : (a <= b)%nat -> qn a <= qn b.
Proof. intros H. unfold qn. rewrite <- Zle_Qle. lia. Qed.

Lemma kcoreness_loop_spec m :
  exists cor kn, kcoreness_loop (peel dg n W) ss n m = Some (cor, kn) /\
    length kn = m /\
    (forall k', (k' < m)%nat -> nth k' kn 0%nat = card n (coreb (qn k'))) /\
    (forall j, (j < n)%nat -> (cor j <= pred m)%nat /\
       forall k', (1 <= k')%nat -> (k' < m)%nat -> (coreb (qn k') j = true <-> (k' <= cor j)%nat)).
Proof.
  induction m as [|m IH].
  - exists (fun _ => 0%nat), []. cbn. repeat split; try reflexivity; intros; lia.
  - destruct IH as (cor & kn & Hrun & Hlen & Hkn & Hcor).
    destruct (peel_terminates c c_proper c00 dg dg_spec n W (qn m)) as [r Hr].
    cbn [kcoreness_loop]. rewrite Hrun. fold (qn m). rewrite Hr.
    eexists; eexists. split; [reflexivity|].
    assert (Hcm : forall j, coreb (qn m) j = core r j) by (intros j; unfold coreb; rewrite Hr; reflexivity).
    split; [rewrite app_length, Hlen; cbn; lia|]. split.
    + intros k' Hk'. destruct (Nat.eq_dec k' m) as [->|Hne].
      * rewrite app_nth2 by lia. rewrite Hlen, Nat.sub_diag. cbn [nth].
        change (kn_of n (pr_deg r)) with (card n (core r)). unfold card. f_equal.
        apply filter_ext. intros j. symmetry. apply Hcm.
      * rewrite app_nth1 by lia. apply Hkn. lia.
    + intros j Hj. rewrite tabv_spec by exact Hj. rewrite (Hss (qn m) r Hr j Hj), <- Hcm.
      destruct (Hcor j Hj) as [Hb Hiff]. destruct (coreb (qn m) j) eqn:Ec.
      * split; [cbn; lia|]. intros k' H1 H2. split; [intros _; lia|]. intros _.
        apply (coreb_nested (qn k') (qn m) j); [apply qn_le; lia|exact Hj|exact Ec].
      * split; [cbn; lia|]. intros k' H1 H2. destruct (Nat.eq_dec k' m) as [->|Hne].
        -- rewrite Ec. split; [discriminate|]. intros H. exfalso. lia.
        -- apply Hiff; lia.
Qed.

Theorem coreness_is_max_k cor kn : kcoreness_loop (peel dg n W) ss n n = Some (cor, kn) ->
  length kn = n /\
  (forall k', (k' < n)%nat -> nth k' kn 0%nat = card n (coreb (qn k'))) /\
  (forall j, (j < n)%nat -> (cor j <= pred n)%nat /\
     forall k', (1 <= k')%nat -> (k' < n)%nat -> (coreb (qn k') j = true <-> (k' <= cor j)%nat)).
Proof.
  intros H. destruct (kcoreness_loop_spec n) as (cor' & kn' & Hrun & Hspec).
  rewrite Hrun in H. inversion H; subst. exact Hspec.
Qed.
End Peel2.

(* ---------- sums of non-negative terms ---------- *)
Lemma sumQ_pos_iff f n : (forall i, (i < n)%nat -> 0 <= f i) ->
  (0 < sumQ f n <-> exists i, (i < n)%nat /\ 0 < f i).
Proof.
  intros Hnn. split.
  - intros Hpos. induction n; cbn [sumQ] in Hpos; [lra|].
    destruct (Qlt_le_dec 0 (f n)) as [H|H]; [exists n; split; [lia|exact H]|].
    destruct IHn as [i [Hi Hfi]]; [intros; apply Hnn; lia| |exists i; split; [lia|exact Hfi]].
    assert (0 <= f n) by (apply Hnn; lia). lra.
  - intros [i [Hi Hfi]]. destruct (Qlt_le_dec 0 (sumQ f n)) as [H|H]; [exact H|].
    assert (H0 : sumQ f n == 0) by (pose proof (sumQ_nonneg f n Hnn); lra).
    rewrite (sumQ_zero_inv f n Hnn H0 i Hi) in Hfi. lra.
Qed.

Lemma sumQ_const1 n : sumQ (fun _ => 1) n == inject_Z (Z.of_nat n).
Proof.
  induction n; cbn [sumQ]; [reflexivity|]. rewrite IHn. rewrite Nat2Z.inj_succ. unfold Z.succ.
  rewrite inject_Z_plus. reflexivity.
Qed.

(* ---------- the three instances ---------- *)
Definition c_bu (a b : Q) : Q := nzq a.
Definition c_bd (a b : Q) : Q := nzq a + nzq b.
Definition c_wu (a b : Q) : Q := a.

Lemma c_bu_proper a a' b b' : a == a' -> b == b' -> c_bu a b == c_bu a' b'.
Proof. intros H _. unfold c_bu. rewrite (nzq_proper a a' H). reflexivity. Qed.
Lemma c_bd_proper a a' b b' : a == a' -> b == b' -> c_bd a b == c_bd a' b'.
Proof. intros H H'. unfold c_bd. rewrite (nzq_proper a a' H), (nzq_proper b b' H'). reflexivity. Qed.
Lemma c_wu_proper a a' b b' : a == a' -> b == b' -> c_wu a b == c_wu a' b'.
Proof. intros H _. exact H. Qed.
Lemma c_bu00 : c_bu 0 0 == 0. Proof. reflexivity. Qed.
Lemma c_bd00 : c_bd 0 0 == 0. Proof. reflexivity. Qed.
Lemma c_wu00 : c_wu 0 0 == 0. Proof. reflexivity. Qed.
Lemma deg_und_spec n M j : deg_und n M j == dgc c_bu n M j. Proof. reflexivity. Qed.
Lemma deg_dir_spec n M j : deg_dir n M j == dgc c_bd n M j.
Proof. unfold deg_dir, dgc, c_bd. rewrite <- sumQ_add. reflexivity. Qed.
Lemma str_und_spec n M j : str_und n M j == dgc c_wu n M j. Proof. reflexivity. Qed.

Definition symmetric (n : nat) (W : mat Q) : Prop := forall i j, (i < n)%nat -> (j < n)%nat -> W i j == W j i.
Definition nonneg (n : nat) (W : mat Q) : Prop := forall i j, (i < n)%nat -> (j < n)%nat -> 0 <= W i j.

Lemma bu_nonneg n W : nonneg_contrib c_bu n W.
Proof. intros i j _ _. apply nzq_nonneg. Qed.
Lemma bu_zero n W : symmetric n W -> zero_contrib c_bu n W.
Proof.
  intros Hs i j Hi Hj H. unfold c_bu in H. destruct (nzq_cases (W i j)) as [[H0 _]|[_ H1]].
  - split; [exact H0|]. rewrite <- (Hs i j Hi Hj). exact H0.
  - rewrite H1 in H. exfalso. lra.
Qed.
Lemma bd_nonneg n W : nonneg_contrib c_bd n W.
Proof. intros i j _ _. unfold c_bd. pose proof (nzq_nonneg (W i j)). pose proof (nzq_nonneg (W j i)). lra. Qed.
Lemma bd_zero n W : zero_contrib c_bd n W.
Proof.
  intros i j _ _ H. unfold c_bd in H.
  destruct (nzq_cases (W i j)) as [[H0 E0]|[_ E0]], (nzq_cases (W j i)) as [[H1 E1]|[_ E1]];
    rewrite E0, E1 in H; try (split; assumption); exfalso; lra.
Qed.
Lemma wu_nonneg n W : nonneg n W -> nonneg_contrib c_wu n W.
Proof. intros H i j Hi Hj. apply H; assumption. Qed.
Lemma wu_zero n W : symmetric n W -> zero_contrib c_wu n W.
Proof. intros Hs i j Hi Hj H. unfold c_wu in H. split; [exact H|]. rewrite <- (Hs i j Hi Hj). exact H. Qed.

(* the whole specification of one call, for a contribution function c *)
Definition feasible (c : Q -> Q -> Q) (n : nat) (W : mat Q) (k : Q) (S : nat -> bool) : Prop :=
  forall j, (j < n)%nat -> S j = true -> k <= din c n W S j /\ 0 < din c n W S j.

Definition core_spec (c : Q -> Q -> Q) (n : nat) (W : mat Q) (k : Q) (r : peel_res) : Prop :=
  feasible c n W k (core r) /\
  (forall S, feasible c n W k S -> forall j, (j < n)%nat -> S j = true -> core r j = true) /\
  (forall i j, (i < n)%nat -> (j < n)%nat -> pr_M r i j == restrictA (core r) W i j) /\
  kn_of n (pr_deg r) = card n (core r) /\
  (forall S, feasible c n W k S -> (card n S <= kn_of n (pr_deg r))%nat).

Lemma core_spec_of c dg (c_proper : forall a a' b b', a == a' -> b == b' -> c a b == c a' b') (c00 : c 0 0 == 0)
  (dg_spec : forall n M j, dg n M j == dgc c n M j) n W k r :
  nonneg_contrib c n W -> zero_contrib c n W -> peel dg n W k = Some r -> core_spec c n W k r.
Proof.
  intros Hnn Hz Hr. split; [|split; [|split; [|split]]].
  - intros j Hj Hc. exact (core_is_feasible c c_proper c00 dg dg_spec n W k r Hr Hnn Hz j Hj Hc).
  - intros S HS. exact (core_is_maximal c c_proper c00 dg dg_spec n W k r Hr Hnn S HS).
  - exact (core_matrix_is_restriction c c_proper c00 dg dg_spec n W k r Hr Hnn Hz).
  - reflexivity.
  - intros S HS. exact (kn_is_largest c c_proper c00 dg dg_spec n W k r Hr Hnn S HS).
Qed.

Theorem kcore_bu_correct n W k : symmetric n W ->
  exists r, kcore_bu n W k = Some r /\ core_spec c_bu n W k r.
Proof.
  intros Hs. destruct (peel_terminates c_bu c_bu_proper c_bu00 deg_und deg_und_spec n W k) as [r Hr].
  exists r. split; [exact Hr|].
  exact (core_spec_of c_bu deg_und c_bu_proper c_bu00 deg_und_spec n W k r (bu_nonneg n W) (bu_zero n W Hs) Hr).
Qed.

Theorem kcore_bd_correct n W k : exists r, kcore_bd n W k = Some r /\ core_spec c_bd n W k r.
Proof.
  destruct (peel_terminates c_bd c_bd_proper c_bd00 deg_dir deg_dir_spec n W k) as [r Hr].
  exists r. split; [exact Hr|].
  exact (core_spec_of c_bd deg_dir c_bd_proper c_bd00 deg_dir_spec n W k r (bd_nonneg n W) (bd_zero n W) Hr).
Qed.

Theorem score_wu_correct n W s : symmetric n W -> nonneg n W ->
  exists r, score_wu n W s = Some r /\ core_spec c_wu n W s r.
Proof.
  intros Hs Hn. destruct (peel_terminates c_wu c_wu_proper c_wu00 str_und str_und_spec n W s) as [r Hr].
  exists r. split; [exact Hr|].
  exact (core_spec_of c_wu str_und c_wu_proper c_wu00 str_und_spec n W s r (wu_nonneg n W Hn) (wu_zero n W Hs) Hr).
Qed.

(* ---------- kcoreness_centrality_bu / _bd ---------- *)
Lemma pos_nzq x : 0 <= x -> (0 < x <-> 0 < nzq x).
Proof.
  intros H. destruct (nzq_cases x) as [[H0 ->]|[H1 ->]]; split; intros; try lra.
Qed.

Lemma pos_sum_nz f n : (forall i, (i < n)%nat -> 0 <= f i) ->
  (0 < sumQ f n <-> 0 < sumQ (fun i => nzq (f i)) n).
Proof.
  intros Hnn. rewrite (sumQ_pos_iff f n Hnn).
  rewrite (sumQ_pos_iff (fun i => nzq (f i)) n (fun i _ => nzq_nonneg (f i))).
  split; intros [i [Hi H]]; exists i; (split; [exact Hi|]); apply (pos_nzq (f i) (Hnn i Hi)); exact H.
Qed.

Lemma restrictA_nonneg n W A : nonneg n W -> nonneg n (restrictA A W).
Proof. intros H i j Hi Hj. unfold restrictA. destruct (A i && A j); [apply H; assumption|lra]. Qed.

Lemma result_nonneg c dg (c_proper : forall a a' b b', a == a' -> b == b' -> c a b == c a' b') (c00 : c 0 0 == 0)
  (dg_spec : forall n M j, dg n M j == dgc c n M j) n W k r :
  nonneg n W -> peel dg n W k = Some r -> nonneg n (pr_M r).
Proof.
  intros Hn Hr i j Hi Hj.
  rewrite (matrix_is_restriction_survivors c c_proper c00 dg dg_spec n W k r Hr i j Hi Hj).
  exact (restrictA_nonneg n W _ Hn i j Hi Hj).
Qed.

Lemma ss_bu_core n W k r : nonneg n W -> kcore_bu n W k = Some r ->
  forall j, (j < n)%nat -> ss_bu n (pr_M r) j = core r j.
Proof.
  intros Hn Hr j Hj.
  pose proof (result_nonneg c_bu deg_und c_bu_proper c_bu00 deg_und_spec n W k r Hn Hr) as HM.
  unfold ss_bu, core.
  rewrite (qltb_proper 0 0 (pr_deg r j) (deg_und n (pr_M r) j) (Qeq_refl 0)
             (final_deg c_bu c_bu_proper c_bu00 deg_und deg_und_spec n W k r Hr j Hj)).
  unfold deg_und.
  assert (Hi : 0 < sumQ (fun i => pr_M r i j) n <-> 0 < sumQ (fun i => nzq (pr_M r i j)) n).
  { apply pos_sum_nz. intros i Hi. apply HM; assumption. }
  destruct (qltb 0 (sumQ (fun i => nzq (pr_M r i j)) n)) eqn:E.
  - apply qltb_true. apply Hi. apply qltb_true. exact E.
  - apply qltb_false. apply qltb_false in E.
    destruct (Qlt_le_dec 0 (sumQ (fun i => pr_M r i j) n)) as [Hl|Hl]; [|exact Hl]. apply Hi in Hl. lra.
Qed.

Lemma ss_bd_core n W k r : nonneg n W -> kcore_bd n W k = Some r ->
  forall j, (j < n)%nat -> ss_bd n (pr_M r) j = core r j.
Proof.
  intros Hn Hr j Hj.
  pose proof (result_nonneg c_bd deg_dir c_bd_proper c_bd00 deg_dir_spec n W k r Hn Hr) as HM.
  unfold ss_bd, core.
  rewrite (qltb_proper 0 0 (pr_deg r j) (deg_dir n (pr_M r) j) (Qeq_refl 0)
             (final_deg c_bd c_bd_proper c_bd00 deg_dir deg_dir_spec n W k r Hr j Hj)).
  unfold deg_dir.
  assert (H1 : 0 < sumQ (fun i => pr_M r i j) n <-> 0 < sumQ (fun i => nzq (pr_M r i j)) n).
  { apply pos_sum_nz. intros i Hi. apply HM; assumption. }
  assert (H2 : 0 < sumQ (fun i => pr_M r j i) n <-> 0 < sumQ (fun i => nzq (pr_M r j i)) n).
  { apply pos_sum_nz. intros i Hi. apply HM; assumption. }
  assert (P1 : 0 <= sumQ (fun i => pr_M r i j) n) by (apply sumQ_nonneg; intros; apply HM; assumption).
  assert (P2 : 0 <= sumQ (fun i => pr_M r j i) n) by (apply sumQ_nonneg; intros; apply HM; assumption).
  assert (P3 : 0 <= sumQ (fun i => nzq (pr_M r i j)) n) by (apply sumQ_nonneg; intros; apply nzq_nonneg).
  assert (P4 : 0 <= sumQ (fun i => nzq (pr_M r j i)) n) by (apply sumQ_nonneg; intros; apply nzq_nonneg).
  destruct (qltb 0 (sumQ (fun i => nzq (pr_M r i j)) n + sumQ (fun i => nzq (pr_M r j i)) n)) eqn:E.
  - apply qltb_true. apply qltb_true in E.
    destruct (Qlt_le_dec 0 (sumQ (fun i => nzq (pr_M r i j)) n)) as [Hl|Hl].
    + apply H1 in Hl. lra.
    + assert (Hl2 : 0 < sumQ (fun i => nzq (pr_M r j i)) n) by lra. apply H2 in Hl2. lra.
  - apply qltb_false. apply qltb_false in E.
    destruct (Qlt_le_dec 0 (sumQ (fun i => pr_M r i j) n)) as [Hl|Hl]; [apply H1 in Hl; lra|].
    destruct (Qlt_le_dec 0 (sumQ (fun i => pr_M r j i) n)) as [Hl2|Hl2]; [apply H2 in Hl2; lra|]. lra.
Qed.

(* the symmetrisation step of kcoreness_centrality_bu keeps the support of a symmetric non-negative matrix *)
Lemma bu_prep_support n W : symmetric n W -> nonneg n W ->
  forall i j, (i < n)%nat -> (j < n)%nat -> nzq (bu_prep n W i j) = nzq (W i j).
Proof.
  intros Hs Hn i j Hi Hj. unfold bu_prep.
  destruct (existsb _ (cells n)); [|reflexivity].
  rewrite tab_spec by assumption.
  pose proof (Hs i j Hi Hj) as Hij. pose proof (Hn i j Hi Hj) as H0.
  destruct (qltb 0 (W i j + W j i)) eqn:E.
  - apply qltb_true in E. destruct (nzq_cases (W i j)) as [[Hw _]|[_ ->]]; [exfalso; lra|reflexivity].
  - apply qltb_false in E. apply nzq_proper. lra.
Qed.

Lemma bu_prep_symmetric n W : symmetric n W -> symmetric n (bu_prep n W).
Proof.
  intros Hs i j Hi Hj. unfold bu_prep. destruct (existsb _ (cells n)); [|apply Hs; assumption].
  rewrite !tab_spec by assumption. rewrite (qltb_proper 0 0 (W i j + W j i) (W j i + W i j)); [reflexivity|reflexivity|ring].
Qed.

Lemma bu_prep_nonneg n W : nonneg n W -> nonneg n (bu_prep n W).
Proof.
  intros Hn i j Hi Hj. unfold bu_prep. destruct (existsb _ (cells n)); [|apply Hn; assumption].
  rewrite tab_spec by assumption. destruct (qltb 0 (W i j + W j i)); lra.
Qed.

Lemma bu_prep_din n W : symmetric n W -> nonneg n W ->
  forall A j, (j < n)%nat -> din c_bu n (bu_prep n W) A j == din c_bu n W A j.
Proof.
  intros Hs Hn A j Hj. unfold din, dgc, c_bu. apply sumQ_ext. intros i Hi. unfold restrictA.
  destruct (A i && A j); [|reflexivity]. rewrite (bu_prep_support n W Hs Hn i j Hi Hj). reflexivity.
Qed.

Definition coreness_spec (dg : nat -> mat Q -> vec Q) (n : nat) (W : mat Q) (cor : vec nat) (kn : list nat) : Prop :=
  length kn = n /\
  (forall k', (k' < n)%nat -> nth k' kn 0%nat = card n (coreb dg n W (qn k'))) /\
  (forall j, (j < n)%nat -> (cor j <= pred n)%nat /\
     forall k', (1 <= k')%nat -> (k' < n)%nat -> (coreb dg n W (qn k') j = true <-> (k' <= cor j)%nat)).

Theorem kcoreness_bu_correct n W : symmetric n W -> nonneg n W ->
  exists cor kn, kcoreness_centrality_bu n W = Some (cor, kn) /\
    coreness_spec deg_und n (bu_prep n W) cor kn /\
    (forall A j, (j < n)%nat -> din c_bu n (bu_prep n W) A j == din c_bu n W A j).
Proof.
  intros Hs Hn. unfold kcoreness_centrality_bu.
  set (W1 := bu_prep n W).
  assert (Hs1 : symmetric n W1) by (apply bu_prep_symmetric; exact Hs).
  assert (Hn1 : nonneg n W1) by (apply bu_prep_nonneg; exact Hn).
  destruct (kcoreness_loop_spec c_bu c_bu_proper c_bu00 deg_und deg_und_spec n W1 (bu_nonneg n W1) (bu_zero n W1 Hs1)
              (ss_bu n) (fun k r Hr => ss_bu_core n W1 k r Hn1 Hr) n) as (cor & kn & Hrun & Hspec).
  exists cor, kn. split; [exact Hrun|]. split; [exact Hspec|]. apply bu_prep_din; assumption.
Qed.

Theorem kcoreness_bd_correct n W : nonneg n W ->
  exists cor kn, kcoreness_centrality_bd n W = Some (cor, kn) /\ coreness_spec deg_dir n W cor kn.
Proof.
  intros Hn. unfold kcoreness_centrality_bd.
  destruct (kcoreness_loop_spec c_bd c_bd_proper c_bd00 deg_dir deg_dir_spec n W (bd_nonneg n W) (bd_zero n W)
              (ss_bd n) (fun k r Hr => ss_bd_core n W k r Hn Hr) n) as (cor & kn & Hrun & Hspec).
  exists cor, kn. split; [exact Hrun|exact Hspec].
Qed.

(* undirected, no self-loops: degrees are at most n-1, so no k >= n has a non-empty core:
   the scan k = 0..n-1 of kcoreness_centrality_bu misses nothing *)
Lemma din_bu_bound n W A j : (j < n)%nat -> W j j == 0 -> din c_bu n W A j <= inject_Z (Z.of_nat n) - 1.
Proof.
  intros Hj Hd. unfold din, dgc, c_bu.
  rewrite (sumQ_split _ n j Hj). unfold restrictA at 2.
  assert (E : nzq (if A j && A j then W j j else 0) == 0).
  { destruct (A j && A j); [rewrite (nzq_proper _ 0 Hd)|]; reflexivity. }
  rewrite E. rewrite <- (sumQ_const1 n). rewrite (sumQ_split (fun _ => 1) n j Hj).
  assert (sumQ (fun i => if Nat.eqb i j then 0 else nzq (restrictA A W i j)) n <=
          sumQ (fun i => if Nat.eqb i j then 0 else 1) n).
  { apply sumQ_le. intros i Hi. destruct (Nat.eqb i j); [lra|].
    destruct (nzq_cases (restrictA A W i j)) as [[_ ->]|[_ ->]]; lra. }
  lra.
Qed.

Theorem kcoreness_bu_complete n W k j : symmetric n W -> (forall i, (i < n)%nat -> W i i == 0) ->
  inject_Z (Z.of_nat n) <= k -> (j < n)%nat -> coreb deg_und n W k j = false.
Proof.
  intros Hs Hd Hk Hj. unfold coreb.
  destruct (peel_terminates c_bu c_bu_proper c_bu00 deg_und deg_und_spec n W k) as [r Hr]. rewrite Hr.
  apply (core_empty_above c_bu c_bu_proper c_bu00 deg_und deg_und_spec n W (bu_nonneg n W) (bu_zero n W Hs)
           (inject_Z (Z.of_nat n) - 1) k r Hr); [|lra|exact Hj].
  intros A i Hi. apply din_bu_bound; [exact Hi|apply Hd; exact Hi].
Qed.

(* kcoreness_centrality_bd scans the same range although in+out degree reaches 2(n-1):
   on the complete digraph on 3 nodes every node is in the 4-core but is given coreness 2 *)
Definition K3d : mat Q := of_rows 0 [[0; 1; 1]; [1; 0; 1]; [1; 1; 0]]%list.
Theorem kcoreness_bd_truncated_refuted :
  exists n W cor kn j k', nonneg n W /\ kcoreness_centrality_bd n W = Some (cor, kn) /\ (j < n)%nat /\
    coreb deg_dir n W (qn k') j = true /\ (cor j < k')%nat.
Proof.
  exists 3%nat, K3d.
  destruct (kcoreness_centrality_bd 3 K3d) as [[cor kn]|] eqn:E; [|vm_compute in E; discriminate].
  exists cor, kn, 0%nat, 4%nat. split.
  - intros i j Hi Hj. destruct i as [|[|[|i]]]; [| | |lia]; (destruct j as [|[|[|j]]]; [| | |lia]); vm_compute; discriminate.
  - split; [reflexivity|]. split; [lia|]. split; [vm_compute; reflexivity|].
    assert (Hc : cor 0%nat = 2%nat).
    { assert (H : option_map (fun p => fst p 0%nat) (kcoreness_centrality_bd 3 K3d) = Some 2%nat) by (vm_compute; reflexivity).
      rewrite E in H. cbn in H. inversion H. reflexivity. }
    rewrite Hc. lia.
Qed.
