(* Proofs/BetweenBfs.v — path-counting phase of edge_betweenness_bin, in FULL: the breadth-first search from u
   proceeds level by level (level k = the nodes at specification distance k); after it P[w,v] is set exactly
   for the tight connections (dist(u,w) = dist(u,v) + 1), NP[u] = 1 and NP[x] = sum_v [P x v] NP[v]:
   [counts_ok] (BetweenTight).  With BetweenFull.pairsums_to_spec: edge_betweenness_bin returns the specification. *)
From Coq Require Import QArith Lia List Arith Bool ZArith Permutation.
From BCT Require Import Base.Mat Base.SumQ Base.ListX Model.Between
  Proofs.BetweenAccum Proofs.BetweenReady Proofs.BetweenQueue Proofs.BetweenBin Proofs.BetweenSpec Proofs.BetweenPaths
  Proofs.BetweenTight Proofs.BetweenLast Proofs.BetweenCount Proofs.BetweenFull.
Import ListNotations.
Open Scope Z_scope.

Lemma relax_b_row v st w x : x <> w ->
  sD (relax_b v st w) x = sD st x /\ sNP (relax_b v st w) x = sNP st x /\
  forall y, sP (relax_b v st w) x y = sP st x y.
Proof.
  intros Hne. unfold relax_b. destruct (negb _); cbn [sD sNP sP]; rewrite ?vupd_other by exact Hne;
    (split; [reflexivity|]; split; [reflexivity|]; intros y; apply upd_other; left; exact Hne).
Qed.

(* ---------- one round ---------- *)
Section RoundB.
Variables (n : nat) (G2 : mat Z) (S1 : vec bool) (D0 : vec (option Z)) (NP0 : vec Z) (P0 : mat bool).
Hypothesis HG2 : forall i j, (i < n)%nat -> (j < n)%nat -> G2 i j <> 0 -> S1 j = true.

Definition RrowB (done : nat -> nat -> Prop) (st : sst) (w : nat) : Prop :=
  (sD st w <> None <-> exists v, (v < n)%nat /\ done v w) /\
  (forall v, (v < n)%nat -> (sP st w v = true <-> done v w)) /\
  sNP st w = sumn (fun v => b2z (sP st w v) * NP0 v) n.
Definition Cb (done : nat -> nat -> Prop) (st : sst) : Prop :=
  (forall x, (x < n)%nat -> S1 x = false -> Frow n D0 NP0 P0 st x) /\
  (forall w, (w < n)%nat -> S1 w = true -> RrowB done st w).

Lemma RrowB_ext (done done' : nat -> nat -> Prop) st st' w :
  sD st' w = sD st w -> sNP st' w = sNP st w -> (forall v, (v < n)%nat -> sP st' w v = sP st w v) ->
  (forall v, (v < n)%nat -> (done' v w <-> done v w)) -> RrowB done st w -> RrowB done' st' w.
Proof.
  intros ED EN EP Hd (A1 & A2 & A3). unfold RrowB. rewrite ED, EN. split; [|split].
  - rewrite A1. split; intros (v & Hv & H); exists v; (split; [exact Hv|apply (Hd v Hv); exact H]).
  - intros v Hv. rewrite (EP v Hv), (A2 v Hv). symmetry. apply Hd; exact Hv.
  - rewrite A3. apply sumn_ext. intros v Hv. rewrite (EP v Hv). reflexivity.
Qed.

Lemma Cb_ext (done done' : nat -> nat -> Prop) st :
  (forall v w, (v < n)%nat -> (w < n)%nat -> (done' v w <-> done v w)) -> Cb done st -> Cb done' st.
Proof.
  intros Hd [F R]. split; [exact F|]. intros w Hw HSw. apply (RrowB_ext done done' st st w); auto.
Qed.

Lemma relax_Cb (done : nat -> nat -> Prop) st v w : (v < n)%nat -> (w < n)%nat -> S1 v = false ->
  G2 v w <> 0 -> ~ done v w -> Cb done st ->
  Cb (fun a b => done a b \/ (a = v /\ b = w)) (relax_b v st w).
Proof.
  intros Hv Hw HSv Hg Hnd [F R].
  pose proof (HG2 v w Hv Hw Hg) as HSw.
  destruct (F v Hv HSv) as (_ & ENv & _).
  assert (Hvw : v <> w) by (intros ->; congruence).
  split.
  - intros x Hx HSx. assert (Hxw : x <> w) by (intros ->; congruence). destruct (relax_b_row v st w x Hxw) as (E1 & E2 & E3).
    apply (Frow_ext n D0 NP0 P0 st _ x E1 E2); [intros; apply E3|]. apply F; assumption.
  - intros x Hx HSx. destruct (Nat.eq_dec x w) as [->|Hxw].
    2:{ destruct (relax_b_row v st w x Hxw) as (E1 & E2 & E3).
        apply (RrowB_ext done _ st _ x E1 E2); [intros; apply E3| |apply R; assumption].
        intros a Ha. split; [intros [H|[_ H]]; [exact H|contradiction]|auto]. }
    destruct (R w Hw HSw) as (A1 & A2 & A3).
    assert (HPwv : sP st w v = false).
    { destruct (sP st w v) eqn:E; [|reflexivity]. apply (A2 v Hv) in E. contradiction. }
    assert (HP' : forall a, (a < n)%nat ->
              (upd (sP st) w v true w a = true <-> (done a w \/ (a = v /\ w = w)))).
    { intros a Ha. destruct (Nat.eq_dec a v) as [->|Hav].
      - rewrite upd_same. split; auto.
      - rewrite upd_other by (right; exact Hav). rewrite (A2 a Ha). split; [auto|]. intros [H|[H _]]; [exact H|contradiction]. }
    assert (Hsum : sumn (fun a => b2z (upd (sP st) w v true w a) * NP0 a) n
                   = NP0 v + sumn (fun a => b2z (sP st w a) * NP0 a) n).
    { rewrite (sumn_split _ n v Hv), (sumn_split (fun a => b2z (sP st w a) * NP0 a) n v Hv).
      rewrite upd_same, HPwv. cbn [b2z].
      rewrite (sumn_ext (fun i => if Nat.eqb i v then 0 else b2z (upd (sP st) w v true w i) * NP0 i)
                        (fun i => if Nat.eqb i v then 0 else b2z (sP st w i) * NP0 i)); [lia|].
      intros i _. destruct (Nat.eqb_spec i v) as [|Hiv]; [reflexivity|]. rewrite upd_other by (right; exact Hiv). reflexivity. }
    unfold relax_b. destruct (sD st w) as [d|] eqn:Ew; cbn [isinf negb]; unfold RrowB; cbn [sD sNP sP].
    + rewrite Ew, vupd_same. split; [|split; [exact HP'|]].
      * split; [intros _; exists v; split; [exact Hv|right; auto]|discriminate].
      * rewrite Hsum, A3, ENv. lia.
    + rewrite !vupd_same. split; [|split; [exact HP'|]].
      * split; [intros _; exists v; split; [exact Hv|right; auto]|discriminate].
      * rewrite Hsum, ENv. rewrite (sumn_ext _ (fun _ => 0)); [rewrite sumn_zero; lia|].
        intros a Ha. destruct (sP st w a) eqn:E; [|reflexivity]. exfalso.
        apply (A2 a Ha) in E. assert (HH : @None Z <> None) by (apply A1; exists a; auto). congruence.
Qed.

Lemma fold_relax_Cb v : (v < n)%nat -> S1 v = false ->
  forall l (done : nat -> nat -> Prop) st, NoDup l ->
  (forall w, In w l -> (w < n)%nat /\ G2 v w <> 0 /\ ~ done v w) -> Cb done st ->
  Cb (fun a b => done a b \/ (a = v /\ In b l)) (fold_left (relax_b v) l st).
Proof.
  intros Hv HSv. induction l as [|w l IH]; intros done st Hnd Hl HC; cbn [fold_left].
  - apply (Cb_ext done); [|exact HC]. intros a b _ _. split; [intros [H|[_ []]]; exact H|auto].
  - inversion Hnd as [|? ? Hw Hnd']; subst. destruct (Hl w (or_introl eq_refl)) as (Hwn & Hg & Hdn).
    pose proof (relax_Cb done st v w Hv Hwn HSv Hg Hdn HC) as HC1.
    assert (Hl' : forall b, In b l -> (b < n)%nat /\ G2 v b <> 0 /\ ~ (done v b \/ (v = v /\ b = w))).
    { intros b Hb. destruct (Hl b (or_intror Hb)) as (H1 & H2 & H3). split; [exact H1|]. split; [exact H2|].
      intros [H|[_ H]]; [contradiction|]. subst b. contradiction. }
    specialize (IH _ _ Hnd' Hl' HC1).
    eapply Cb_ext; [|apply IH].
    intros a b _ _. cbn [In]. split.
    + intros [H|[H1 [H2|H2]]]; [left; left; exact H|left; right; auto|right; auto].
    + intros [[H|[H1 H2]]|[H1 H2]]; [left; exact H|right; auto|right; auto].
Qed.

Lemma visit_Cb (done : nat -> nat -> Prop) st v : (v < n)%nat -> S1 v = false ->
  (forall b, ~ done v b) -> Cb done st ->
  Cb (fun a b => done a b \/ (a = v /\ G2 v b <> 0)) (visit_b n G2 st v).
Proof.
  intros Hv HSv Hdn HC. unfold visit_b.
  assert (HC' : Cb done (push st v)) by exact HC.
  pose proof (fold_relax_Cb v Hv HSv (wherev n (fun w => nzb (G2 v w))) done (push st v) (wherev_NoDup _ _)) as H.
  apply (Cb_ext (fun a b => done a b \/ (a = v /\ In b (wherev n (fun w => nzb (G2 v w)))))); [|apply H; [|exact HC']].
  - intros a b Ha Hb. rewrite wherev_In. unfold nzb. rewrite negb_true_iff, Z.eqb_neq. tauto.
  - intros w Hw. apply wherev_In in Hw. destruct Hw as [H1 H2]. unfold nzb in H2. apply negb_true_iff, Z.eqb_neq in H2.
    split; [exact H1|]. split; [exact H2|apply Hdn].
Qed.

Lemma fold_visit_Cb : forall V' (done : nat -> nat -> Prop) st, NoDup V' ->
  (forall v, In v V' -> (v < n)%nat /\ S1 v = false /\ forall b, ~ done v b) ->
  Cb done st -> Cb (fun a b => done a b \/ (In a V' /\ G2 a b <> 0)) (fold_left (visit_b n G2) V' st).
Proof.
  induction V' as [|v V' IH]; intros done st Hnd HV HC; cbn [fold_left].
  - apply (Cb_ext done); [|exact HC]. intros a b _ _. split; [intros [H|[[] _]]; exact H|auto].
  - inversion Hnd as [|? ? Hv Hnd']; subst. destruct (HV v (or_introl eq_refl)) as (H1 & H2 & H5).
    pose proof (visit_Cb done st v H1 H2 H5 HC) as HC1.
    assert (HV' : forall v0, In v0 V' -> (v0 < n)%nat /\ S1 v0 = false /\
              forall b, ~ (done v0 b \/ (v0 = v /\ G2 v b <> 0))).
    { intros v0 Hv0. destruct (HV v0 (or_intror Hv0)) as (A1 & A2 & A5). repeat split; auto.
      intros b [H|[-> _]]; [exact (A5 b H)|contradiction]. }
    specialize (IH _ _ Hnd' HV' HC1). eapply Cb_ext; [|exact IH].
    intros a b _ _. cbn [In]. split.
    + intros [H|[[->|H1'] H2']]; [left; left; exact H|left; right; auto|right; auto].
    + intros [[H|[-> H2']]|[H1' H2']]; [left; exact H|right; auto|right; auto].
Qed.
End RoundB.

(* ---------- levels ---------- *)
Definition dle (n : nat) (G : mat Z) (u x : nat) (k : Z) : bool :=
  match dist_spec n G u x with Some d => Z.leb d k | None => false end.

Lemma dle_true n G u x k : dle n G u x k = true <-> exists d, dist_spec n G u x = Some d /\ d <= k.
Proof.
  unfold dle. destruct (dist_spec n G u x) as [d|]; split.
  - intros H. apply Z.leb_le in H. exists d. auto.
  - intros (d' & E & H). inversion E; subst. apply Z.leb_le. exact H.
  - discriminate.
  - intros (d' & E & _). discriminate.
Qed.

(* every reachable node other than the source has a tight predecessor *)
Lemma tight_pred n G u x d : nonneg_len n G -> (u < n)%nat -> dist_spec n G u x = Some d -> x <> u ->
  exists v, (v < n)%nat /\ tightb n G u v x = true.
Proof.
  intros HG Hu E Hxu. unfold dist_spec in E. destruct (spaths n G u x) as [|p L] eqn:Es; [discriminate|].
  assert (Hp : In p (spaths n G u x)) by (rewrite Es; left; reflexivity).
  destruct (shortest_last n G u x p HG Hp) as [[_ ->]|(q & v & _ & Hv & _ & Ht)]; [contradiction|].
  exists v. auto.
Qed.

Lemma tightb_bin n G u v x : binary n G -> (v < n)%nat -> (x < n)%nat -> tightb n G u v x = true ->
  G v x = 1 /\ exists dv, dist_spec n G u v = Some dv /\ dist_spec n G u x = Some (dv + 1).
Proof.
  intros HB Hv Hx E. apply tightb_true in E. destruct E as [He (dv & E1 & E2)].
  unfold edge in He. apply negb_true_iff, Z.eqb_neq in He. destruct (HB v x Hv Hx) as [H0|H1]; [contradiction|].
  split; [exact H1|]. exists dv. rewrite H1 in E2. auto.
Qed.

Lemma dist_zero_source n G u x : nonneg_len n G -> dist_spec n G u x = Some 0 -> x = u.
Proof.
  intros HG E. unfold dist_spec in E. destruct (spaths n G u x) as [|p L] eqn:Es; [discriminate|].
  assert (Hp : In p (spaths n G u x)) by (rewrite Es; left; reflexivity). inversion E as [E0].
  destruct (spaths_wft n G u x p Hp) as [Hw _]. apply wft_iff in Hw. destruct Hw as (Hh & Hl & Hi & Ho).
  pose proof (wlen_ge n G p HG Hi Ho) as Hge. destruct p as [|a [|b r]]; [discriminate| |cbn [length] in Hge; lia].
  cbn [hd_error last] in *. congruence.
Qed.

(* ---------- the loop-head invariant with levels ---------- *)
Record BL (n : nat) (G : mat Z) (u : nat) (k : Z) (Gu : mat Z) (V : list nat) (st : sst) : Prop := {
  bl_k : 0 <= k;
  bl_nd : NoDup V;
  bl_Vlt : forall x, In x V -> (x < n)%nat;
  bl_V : forall x, (x < n)%nat -> (In x V <-> dist_spec n G u x = Some k);
  bl_Gu : forall i j, (i < n)%nat -> (j < n)%nat -> Gu i j = if dle n G u j (k - 1) then 0 else G i j;
  bl_D : forall x, (x < n)%nat -> (sD st x <> None <-> dle n G u x k = true);
  bl_rows : forall x, (x < n)%nat -> dle n G u x k = true ->
            (forall v, (v < n)%nat -> sP st x v = tightb n G u v x) /\
            (x <> u -> sNP st x = sumn (fun v => b2z (sP st x v) * sNP st v) n);
  bl_u : sNP st u = 1;
  bl_un : forall x, (x < n)%nat -> sD st x = None -> (forall v, (v < n)%nat -> sP st x v = false) /\ sNP st x = 0 }.

Lemma BL_step n G u : binary n G -> (u < n)%nat -> forall k Gu V st, BL n G u k Gu V st ->
  let G2 := zero_cols n V Gu in
  let st1 := tab_sst n (fold_left (visit_b n G2) V st) in
  BL n G u (k + 1) G2 (wherev n (fun j => existsb (fun v => nzb (G2 v j)) V)) st1.
Proof.
  intros HB Hu k Gu V st [Hk Hnd HVlt HV HGu HD Hrows HNu Hun] G2 st1.
  pose proof (binary_nonneg n G HB) as HG.
  set (S1 := fun x => negb (dle n G u x k)).
  assert (HS1f : forall x, S1 x = false <-> dle n G u x k = true) by (intros x; unfold S1; destruct (dle n G u x k); split; auto; discriminate).
  assert (HS1t : forall x, S1 x = true <-> dle n G u x k = false) by (intros x; unfold S1; destruct (dle n G u x k); split; auto; discriminate).
  assert (Hdle_split : forall x, (x < n)%nat -> dle n G u x k = (dle n G u x (k - 1) || nmem x V)).
  { intros x Hx. unfold dle. destruct (dist_spec n G u x) as [d|] eqn:Ed.
    - destruct (nmem x V) eqn:Em.
      + apply nmem_In, (HV x Hx) in Em. rewrite Ed in Em. inversion Em; subst. rewrite orb_true_r. apply Z.leb_le. lia.
      + rewrite orb_false_r. apply nmem_false in Em. rewrite (HV x Hx), Ed in Em.
        destruct (Z.leb_spec d k), (Z.leb_spec d (k - 1)); try reflexivity; try lia.
        exfalso. apply Em. f_equal. lia.
    - destruct (nmem x V) eqn:Em; [|reflexivity]. apply nmem_In, (HV x Hx) in Em. congruence. }
  assert (HG2x : forall i j, (i < n)%nat -> (j < n)%nat -> G2 i j = if dle n G u j k then 0 else G i j).
  { intros i j Hi Hj. unfold G2, zero_cols. rewrite tab_spec by assumption. rewrite (Hdle_split j Hj), (HGu i j Hi Hj).
    destruct (nmem j V), (dle n G u j (k - 1)); reflexivity. }
  assert (HG2 : forall i j, (i < n)%nat -> (j < n)%nat -> G2 i j <> 0 -> S1 j = true).
  { intros i j Hi Hj. rewrite (HG2x i j Hi Hj). intros H. apply HS1t. destruct (dle n G u j k); [congruence|reflexivity]. }
  assert (HVS : forall v, In v V -> (v < n)%nat /\ S1 v = false /\ forall b : nat, ~ False).
  { intros v Hv. pose proof (HVlt v Hv) as Hvn. split; [exact Hvn|]. split; [|auto]. apply HS1f, dle_true.
    exists k. split; [apply (HV v Hvn); exact Hv|lia]. }
  assert (HC0 : Cb n S1 (sD st) (sNP st) (sP st) (fun _ _ => False) st).
  { split.
    - intros x Hx _. unfold Frow. auto.
    - intros w Hw HSw. apply HS1t in HSw.
      assert (Ew : sD st w = None).
      { destruct (sD st w) eqn:E; [|reflexivity]. assert (sD st w <> None) by congruence. apply (HD w Hw) in H. congruence. }
      destruct (Hun w Hw Ew) as [Hrow HNw]. unfold RrowB. split; [|split].
      + rewrite Ew. split; [congruence|intros (v & _ & [])].
      + intros v Hv. rewrite (Hrow v Hv). split; [discriminate|intros []].
      + rewrite HNw. symmetry. rewrite (sumn_ext _ (fun _ => 0)); [apply sumn_zero|]. intros v Hv. rewrite (Hrow v Hv). reflexivity. }
  pose proof (fold_visit_Cb n G2 S1 (sD st) (sNP st) (sP st) HG2 V (fun _ _ => False) st Hnd HVS HC0) as [F R].
  set (st0 := fold_left (visit_b n G2) V st) in *.
  destruct (tab_sst_spec n st0) as (TD & TNP & TP & _ & _). fold st1 in TD, TNP, TP.
  set (V' := wherev n (fun j => existsb (fun v => nzb (G2 v j)) V)).
  assert (HV'in : forall j, In j V' <-> (j < n)%nat /\ exists v, In v V /\ G2 v j <> 0).
  { intros j. unfold V'. rewrite wherev_In, existsb_exists. split.
    - intros [Hj [v [Hv E]]]. split; [exact Hj|]. exists v. split; [exact Hv|].
      unfold nzb in E. apply negb_true_iff, Z.eqb_neq in E. exact E.
    - intros [Hj [v [Hv E]]]. split; [exact Hj|]. exists v. split; [exact Hv|].
      unfold nzb. apply negb_true_iff, Z.eqb_neq. exact E. }
  (* the next level *)
  assert (Hnext : forall j, (j < n)%nat -> ((exists v, In v V /\ G2 v j <> 0) <-> dist_spec n G u j = Some (k + 1))).
  { intros j Hj. split.
    - intros (v & Hv & Hg). pose proof (HVlt v Hv) as Hvn. rewrite (HG2x v j Hvn Hj) in Hg.
      destruct (dle n G u j k) eqn:Edj; [congruence|].
      apply (HV v Hvn) in Hv.
      (* a walk of length k+1 exists, and none of length <= k *)
      assert (Hpv : exists p, In p (spaths n G u v)).
      { unfold dist_spec in Hv. destruct (spaths n G u v) as [|p L]; [discriminate|]. exists p. left; reflexivity. }
      destruct Hpv as (p & Hp). destruct (spaths_wft n G u v p Hp) as [Hw _].
      destruct (walk_snoc n G u v j p Hw Hj Hg) as [H1 H2].
      rewrite (dist_spec_of_In n G u v p Hp) in Hv. inversion Hv as [Hlen].
      destruct (HB v j Hvn Hj) as [H0|H1']; [congruence|].
      pose proof (dist_spec_correct n G u j HG) as Hd. destruct (dist_spec n G u j) as [dj|] eqn:Edist.
      + destruct Hd as [_ Hmin]. specialize (Hmin _ H1). f_equal.
        unfold dle in Edj. rewrite Edist in Edj. apply Z.leb_gt in Edj. lia.
      + exfalso. apply Hd. exists (p ++ [j]). exact H1.
    - intros Ed. assert (Hju : j <> u).
      { intros ->. rewrite (dist_self n G u HG Hu) in Ed. inversion Ed. lia. }
      destruct (tight_pred n G u j _ HG Hu Ed Hju) as (v & Hvn & Ht).
      destruct (tightb_bin n G u v j HB Hvn Hj Ht) as (Hg1 & dv & E1 & E2).
      assert (dv = k) by (rewrite Ed in E2; inversion E2; lia). subst dv.
      exists v. split; [apply (HV v Hvn); exact E1|]. rewrite (HG2x v j Hvn Hj).
      assert (dle n G u j k = false) as -> by (unfold dle; rewrite Ed; apply Z.leb_gt; lia). lia. }
  assert (Hdle_next : forall x, (x < n)%nat -> dle n G u x (k + 1) = true <-> (dle n G u x k = true \/ dist_spec n G u x = Some (k + 1))).
  { intros x Hx. rewrite !dle_true. split.
    - intros (d & E & Hle). destruct (Z.eq_dec d (k + 1)) as [->|Hne]; [right; exact E|left; exists d; split; [exact E|lia]].
    - intros [(d & E & Hle)|E]; [exists d; split; [exact E|lia]|exists (k + 1); split; [exact E|lia]]. }
  (* frozen rows *)
  assert (HF : forall x, (x < n)%nat -> dle n G u x k = true ->
             sD st1 x = sD st x /\ sNP st1 x = sNP st x /\ forall y, (y < n)%nat -> sP st1 x y = sP st x y).
  { intros x Hx Hd. destruct (F x Hx (proj2 (HS1f x) Hd)) as (E1 & E2 & E3).
    rewrite (TD x Hx), (TNP x Hx). split; [exact E1|]. split; [exact E2|]. intros y Hy. rewrite (TP x y Hx Hy). apply E3; exact Hy. }
  (* new rows *)
  assert (HN : forall w, (w < n)%nat -> dle n G u w k = false ->
             (sD st1 w <> None <-> dist_spec n G u w = Some (k + 1)) /\
             (forall v, (v < n)%nat -> (sP st1 w v = true <-> In v V /\ G2 v w <> 0)) /\
             sNP st1 w = sumn (fun v => b2z (sP st1 w v) * sNP st v) n).
  { intros w Hw Hd. destruct (R w Hw (proj2 (HS1t w) Hd)) as (A1 & A2 & A3).
    rewrite (TD w Hw), (TNP w Hw). split; [|split].
    - rewrite A1, <- (Hnext w Hw). split.
      + intros (v & _ & [[]|H]). exists v. exact H.
      + intros (v & H1 & H2). exists v. split; [apply HVlt; exact H1|right; auto].
    - intros v Hv. rewrite (TP w v Hw Hv), (A2 v Hv). split; [intros [[]|H]; exact H|auto].
    - rewrite A3. apply sumn_ext. intros v Hv. rewrite (TP w v Hw Hv). reflexivity. }
  constructor.
  - lia.
  - apply wherev_NoDup.
  - intros x Hx. apply HV'in in Hx. tauto.
  - intros x Hx. rewrite HV'in, <- (Hnext x Hx). tauto.
  - intros i j Hi Hj. replace (k + 1 - 1) with k by lia. apply HG2x; assumption.
  - intros x Hx. rewrite (Hdle_next x Hx). destruct (dle n G u x k) eqn:Ed.
    + destruct (HF x Hx Ed) as (E1 & _). rewrite E1, (HD x Hx). tauto.
    + destruct (HN x Hx Ed) as (E1 & _). rewrite E1. split; [auto|]. intros [H|H]; [discriminate|exact H].
  - intros x Hx Hd1. apply (Hdle_next x Hx) in Hd1. destruct (dle n G u x k) eqn:Ed.
    + destruct (HF x Hx Ed) as (_ & E2 & E3). destruct (Hrows x Hx Ed) as [Hp Hnp]. split.
      * intros v Hv. rewrite (E3 v Hv). apply Hp; exact Hv.
      * intros Hxu. rewrite E2, (Hnp Hxu). apply sumn_ext. intros v Hv. rewrite (E3 v Hv).
        destruct (sP st x v) eqn:E; [|reflexivity]. f_equal. rewrite (Hp v Hv) in E.
        destruct (tightb_incr n G u v x HG Hv Hx E) as (dv & dx & E1 & E2' & Hlt).
        apply dle_true in Ed. destruct Ed as (d & Ed & Hle). assert (d = dx) by congruence. subst d.
        assert (Hdv : dle n G u v k = true) by (apply dle_true; exists dv; split; [exact E1|lia]).
        destruct (HF v Hv Hdv) as (_ & E4 & _). symmetry. exact E4.
    + destruct Hd1 as [Hd1|Hd1]; [discriminate|]. destruct (HN x Hx Ed) as (_ & B2 & B3).
      assert (Hp : forall v, (v < n)%nat -> sP st1 x v = tightb n G u v x).
      { intros v Hv. destruct (tightb n G u v x) eqn:Et.
        - apply (B2 v Hv). destruct (tightb_bin n G u v x HB Hv Hx Et) as (Hg1 & dv & E1 & E2).
          assert (dv = k) by (rewrite Hd1 in E2; inversion E2; lia). subst dv.
          split; [apply (HV v Hv); exact E1|]. rewrite (HG2x v x Hv Hx), Ed. lia.
        - destruct (sP st1 x v) eqn:Ep; [|reflexivity]. apply (B2 v Hv) in Ep. destruct Ep as [HvV Hg].
          rewrite (HG2x v x Hv Hx), Ed in Hg. apply (HV v Hv) in HvV.
          rewrite <- Et. symmetry. apply tightb_true. split; [unfold edge; apply negb_true_iff, Z.eqb_neq; exact Hg|].
          exists k. split; [exact HvV|]. destruct (HB v x Hv Hx) as [H0|H1]; [contradiction|]. rewrite H1. exact Hd1. }
      split; [exact Hp|]. intros _. rewrite B3. apply sumn_ext. intros v Hv.
      destruct (sP st1 x v) eqn:E; [|reflexivity]. f_equal. apply (B2 v Hv) in E. destruct E as [HvV _].
      destruct (HVS v HvV) as (_ & HSv & _). apply HS1f in HSv. destruct (HF v Hv HSv) as (_ & E4 & _). symmetry. exact E4.
  - assert (Hdu : dle n G u u k = true) by (apply dle_true; exists 0; split; [apply dist_self; assumption|lia]).
    destruct (HF u Hu Hdu) as (_ & E & _). congruence.
  - intros x Hx Ex. destruct (dle n G u x k) eqn:Ed.
    + exfalso. destruct (HF x Hx Ed) as (E1 & _). rewrite E1 in Ex. apply (HD x Hx) in Ed. contradiction.
    + destruct (HN x Hx Ed) as (B1 & B2 & B3).
      assert (Hrow : forall v, (v < n)%nat -> sP st1 x v = false).
      { intros v Hv. destruct (sP st1 x v) eqn:E; [|reflexivity]. exfalso. apply (B2 v Hv) in E.
        assert (sD st1 x <> None); [|contradiction]. apply B1. apply (Hnext x Hx). exists v. exact E. }
      split; [exact Hrow|]. rewrite B3. rewrite (sumn_ext _ (fun _ => 0)); [apply sumn_zero|].
      intros v Hv. rewrite (Hrow v Hv). reflexivity.
Qed.

(* at exit (V empty) no node lies at level k or beyond *)
Lemma no_level_beyond n G u k : binary n G -> (u < n)%nat -> 0 <= k ->
  (forall x, (x < n)%nat -> dist_spec n G u x <> Some k) ->
  forall m x, (x < n)%nat -> dist_spec n G u x <> Some (k + Z.of_nat m).
Proof.
  intros HB Hu Hk H0. pose proof (binary_nonneg n G HB) as HG.
  induction m as [|m IH]; intros x Hx E.
  - rewrite Z.add_0_r in E. exact (H0 x Hx E).
  - assert (Hxu : x <> u) by (intros ->; rewrite (dist_self n G u HG Hu) in E; inversion E; lia).
    destruct (tight_pred n G u x _ HG Hu E Hxu) as (v & Hv & Ht).
    destruct (tightb_bin n G u v x HB Hv Hx Ht) as (_ & dv & E1 & E2).
    apply (IH v Hv). rewrite E1. f_equal. rewrite E in E2. inversion E2. lia.
Qed.

Lemma BL_exit n G u k Gu st : binary n G -> (u < n)%nat -> BL n G u k Gu [] st ->
  counts_ok n G u st /\ (forall x, (x < n)%nat -> (sD st x <> None <-> dist_spec n G u x <> None)).
Proof.
  intros HB Hu [Hk Hnd HVlt HV HGu HD Hrows HNu Hun]. pose proof (binary_nonneg n G HB) as HG.
  assert (H0 : forall x, (x < n)%nat -> dist_spec n G u x <> Some k).
  { intros x Hx E. apply (HV x Hx) in E. destruct E. }
  assert (Hall : forall x d, (x < n)%nat -> dist_spec n G u x = Some d -> dle n G u x k = true).
  { intros x d Hx E. apply dle_true. exists d. split; [exact E|].
    destruct (Z_le_gt_dec d k) as [Hle|Hgt]; [exact Hle|exfalso].
    apply (no_level_beyond n G u k HB Hu Hk H0 (Z.to_nat (d - k)) x Hx). rewrite E. f_equal. lia. }
  assert (Hnone : forall x, (x < n)%nat -> dle n G u x k = false -> dist_spec n G u x = None /\ sD st x = None).
  { intros x Hx Ed. split.
    - destruct (dist_spec n G u x) as [d|] eqn:E; [|reflexivity]. rewrite (Hall x d Hx E) in Ed. discriminate.
    - destruct (sD st x) eqn:E; [|reflexivity]. assert (sD st x <> None) by congruence. apply (HD x Hx) in H. congruence. }
  split; [split; [|split]|].
  - intros w v Hw Hv. destruct (dle n G u w k) eqn:Ed.
    + apply (Hrows w Hw Ed); exact Hv.
    + destruct (Hnone w Hw Ed) as [E1 E2]. destruct (Hun w Hw E2) as [Hrow _]. rewrite (Hrow v Hv).
      unfold tightb. rewrite E1. destruct (dist_spec n G u v); rewrite andb_false_r; reflexivity.
  - exact HNu.
  - intros x Hx Hxu. destruct (dle n G u x k) eqn:Ed.
    + apply (Hrows x Hx Ed); exact Hxu.
    + destruct (Hnone x Hx Ed) as [_ E2]. destruct (Hun x Hx E2) as [Hrow HN]. rewrite HN. symmetry.
      rewrite (sumn_ext _ (fun _ => 0)); [apply sumn_zero|]. intros v Hv. rewrite (Hrow v Hv). reflexivity.
  - intros x Hx. rewrite (HD x Hx). split.
    + intros Ed. apply dle_true in Ed. destruct Ed as (d & E & _). congruence.
    + intros E. destruct (dist_spec n G u x) as [d|] eqn:Ed; [|congruence]. apply (Hall x d Hx Ed).
Qed.

Lemma search_b_counts n G u : binary n G -> (u < n)%nat -> forall fuel k Gu V st st',
  BL n G u k Gu V st -> search_b fuel n Gu V st = Some st' ->
  counts_ok n G u st' /\ (forall x, (x < n)%nat -> (sD st' x <> None <-> dist_spec n G u x <> None)).
Proof.
  intros HB Hu. induction fuel as [|f IH]; intros k Gu V st st' H E; destruct V as [|v0 V0] eqn:EV; cbn [search_b] in E.
  - inversion E; subst st'. apply (BL_exit n G u k Gu st HB Hu H).
  - discriminate.
  - inversion E; subst st'. apply (BL_exit n G u k Gu st HB Hu H).
  - rewrite <- EV in *. apply (IH (k + 1) _ _ _ st' (BL_step n G u HB Hu k Gu V st H) E).
Qed.

Lemma BL_init n G u : binary n G -> (u < n)%nat -> BL n G u 0 (tab 0 n n G) [u] (init_b n u).
Proof.
  intros HB Hu. pose proof (binary_nonneg n G HB) as HG. unfold init_b. constructor; cbn [sD sNP sP].
  - lia.
  - constructor; [intros []|constructor].
  - intros x [<-|[]]. exact Hu.
  - intros x Hx. split.
    + intros [<-|[]]. apply dist_self; assumption.
    + intros E. left. symmetry. apply (dist_zero_source n G u x HG E).
  - intros i j Hi Hj. rewrite tab_spec by assumption.
    assert (dle n G u j (0 - 1) = false) as ->; [|reflexivity].
    destruct (dle n G u j (0 - 1)) eqn:E; [|reflexivity]. apply dle_true in E. destruct E as (d & E & Hle).
    pose proof (dist_spec_nonneg n G u j d HG E). lia.
  - intros x Hx. unfold vupd. destruct (Nat.eqb_spec x u) as [->|Hne].
    + split; [intros _|discriminate]. apply dle_true. exists 0. split; [apply dist_self; assumption|lia].
    + split; [congruence|]. intros E. exfalso. apply dle_true in E. destruct E as (d & E & Hle).
      pose proof (dist_spec_nonneg n G u x d HG E). assert (d = 0) by lia. subst d.
      apply Hne. apply (dist_zero_source n G u x HG E).
  - intros x Hx Ed. assert (x = u).
    { apply dle_true in Ed. destruct Ed as (d & E & Hle). pose proof (dist_spec_nonneg n G u x d HG E).
      assert (d = 0) by lia. subst d. apply (dist_zero_source n G u x HG E). }
    subst x. split; [|congruence]. intros v Hv. symmetry. apply tightb_source; assumption.
  - apply vupd_same.
  - intros x Hx E. unfold vupd in *. destruct (Nat.eqb x u); [discriminate|]. auto.
Qed.

(* ---------- the breadth-first search in full ---------- *)
Theorem source_b_counts n G u : (u < n)%nat -> binary n G ->
  exists st, source_b n G u = Some st /\ bqueue_ok n u st /\ counts_ok n G u st /\
    (forall x, (x < n)%nat -> (sD st x <> None <-> dist_spec n G u x <> None)).
Proof.
  intros Hu HB. destruct (queue_slots_b n G u Hu) as (st & E & Hok). exists st. split; [exact E|]. split; [exact Hok|].
  unfold source_b in E. destruct (search_b (S n) n (tab 0 n n G) [u] (init_b n u)) as [st0|] eqn:Es; [|discriminate].
  pose proof (search_b_counts n G u HB Hu _ _ _ _ _ st0 (BL_init n G u HB Hu) Es) as Hc.
  destruct (wherev n (fun i => isinf (sD st0 i))) as [|a un'].
  - inversion E; subst st. exact Hc.
  - unfold fill_front in E. destruct (Nat.eqb _ _); [|discriminate]. inversion E; subst st.
    unfold counts_ok. cbn [sD sNP sP]. exact Hc.
Qed.

(* the search phase of edge_betweenness_bin in the form of the property file *)
Theorem search_b_correct n G u : (u < n)%nat -> binary n G ->
  exists st, source_b n G u = Some st /\
    (forall x, (x < n)%nat -> (sD st x <> None <-> reachable n G u x)) /\
    (forall x, (x < n)%nat -> sNP st x = sigma n G u x) /\
    (forall w v, (w < n)%nat -> (v < n)%nat ->
       (sP st w v = true <-> edge G v w = true /\
          exists dv, dist_spec n G u v = Some dv /\ dist_spec n G u w = Some (dv + 1))).
Proof.
  intros Hu HB. pose proof (binary_nonneg n G HB) as HG.
  destruct (source_b_counts n G u Hu HB) as (st & E & Hok & Hc & HD). exists st. split; [exact E|]. split; [|split].
  - intros x Hx. rewrite (HD x Hx). pose proof (dist_spec_correct n G u x HG) as Hd.
    destruct (dist_spec n G u x) as [d|].
    + split; [|congruence]. intros _. destruct Hd as [[p [Hp _]] _]. exists p. exact Hp.
    + split; [congruence|]. intros Hr. contradiction.
  - intros x Hx. apply (NP_sigma_st n G u st HG Hu (bqueue_ok_ready n u st Hok) Hc x Hx).
  - intros w v Hw Hv. destruct Hc as (Hp & _). rewrite (Hp w v Hw Hv). split.
    + intros Et. destruct (tightb_bin n G u v w HB Hv Hw Et) as (_ & dv & E1 & E2). apply tightb_true in Et. destruct Et as [He _].
      split; [exact He|]. exists dv. auto.
    + intros [He (dv & E1 & E2)]. apply tightb_true. split; [exact He|]. exists dv. split; [exact E1|].
      unfold edge in He. apply negb_true_iff, Z.eqb_neq in He. destruct (HB v w Hv Hw) as [H0|H1]; [contradiction|].
      rewrite H1. exact E2.
Qed.

(* ---------- edge_betweenness_bin returns the specification ---------- *)
Open Scope Q_scope.
Theorem ebc_bin_correct n G : binary n G ->
  exists EBC BC, edge_betweenness_bin n G = Some (EBC, BC) /\
    (forall v, (v < n)%nat -> BC v == BC_spec n G v) /\
    (forall x y, (x < n)%nat -> (y < n)%nat -> EBC x y == EBC_spec n G x y).
Proof.
  intros HB. pose proof (binary_nonneg n G HB) as HG.
  destruct (ebc_bin_pairsums n G) as (EBC & BC & E & H1 & H2).
  assert (Hsrc : forall u, (u < n)%nat -> exists st, source_b n G u = Some st /\ acc_ready n u st /\ counts_ok n G u st).
  { intros u Hu. destruct (source_b_counts n G u Hu HB) as (st & Es & Hok & Hc & _). exists st.
    split; [exact Es|]. split; [apply (bqueue_ok_ready n u st Hok)|exact Hc]. }
  destruct (pairsums_to_spec n G (source_b n G) HG Hsrc) as [S1 S2].
  exists EBC, BC. split; [exact E|]. split.
  - intros v Hv. rewrite (H1 v Hv). apply S1; exact Hv.
  - intros x y Hx Hy. rewrite (H2 x y Hx Hy). apply S2; assumption.
Qed.

Print Assumptions ebc_bin_correct.
