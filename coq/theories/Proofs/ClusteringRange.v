(* Proofs/ClusteringRange.v — C09, last clause: for weights in [0,1] every clustering coefficient
   and every (finite) transitivity lies in [0,1].  One counting lemma (triangles at a node are
   bounded by the pairs of distinct neighbours) serves all routines. *)
From Coq Require Import QArith Qabs List Arith Bool ZArith Lia Lqa Qring Qfield.
From BCT Require Import Base.Mat Base.SumQ Model.Threshold Proofs.Threshold Model.Clustering
  Proofs.ClusteringSpec Proofs.Clustering.
Open Scope Q_scope.

Lemma ratio_01 a b : 0 <= a <= b -> 0 <= a / b <= 1.
Proof.
  intros [H0 H1]. destruct (Qeq_dec b 0) as [E|E].
  - assert (Ea : a == 0) by lra. rewrite Ea. unfold Qdiv. split; ring_simplify; lra.
  - assert (Hb : 0 < b) by (destruct (Qlt_le_dec 0 b); [assumption|exfalso; apply E; lra]).
    split; [apply Qle_shift_div_l; [exact Hb|lra]|apply Qle_shift_div_r; [exact Hb|lra]].
Qed.

Lemma ratio_01_masked a b : 0 <= a <= b -> 0 <= (if Qeq_bool a 0 then 0 else a / b) <= 1.
Proof. intros H. destruct (Qeq_bool a 0); [lra|apply ratio_01; exact H]. Qed.

Lemma odiv_01 a b T : 0 <= a <= b -> odiv a b = Some T -> 0 <= T <= 1.
Proof.
  intros H. unfold odiv. destruct (Qeq_bool b 0); [discriminate|]. intros E. inversion E; subst. apply ratio_01; exact H.
Qed.

Lemma mul3_le (u u' m c v v' : Q) : 0 <= u <= u' -> 0 <= m <= c -> 0 <= v <= v' -> 0 <= u * m * v <= u' * c * v'.
Proof.
  intros [Hu0 Hu] [Hm0 Hm] [Hv0 Hv].
  assert (H1 : 0 <= u * m) by (apply Qmult_le_0_compat; assumption).
  assert (H2 : u * m <= u' * c).
  { apply Qle_trans with (u' * m); [apply Qmult_le_compat_r; assumption|].
    rewrite (Qmult_comm u' m), (Qmult_comm u' c). apply Qmult_le_compat_r; lra. }
  split; [apply Qmult_le_0_compat; assumption|].
  apply Qle_trans with (u' * c * v); [apply Qmult_le_compat_r; assumption|].
  rewrite (Qmult_comm (u' * c) v), (Qmult_comm (u' * c) v'). apply Qmult_le_compat_r; lra.
Qed.

(* the counting lemma: sum_{j,k} u_j M_jk v_k  <=  c (sum u' . sum v' - sum u'v')  when M vanishes on the diagonal *)
Lemma triple_bound (u u' v v' : nat -> Q) (M : mat Q) (c : Q) n :
  (forall j, (j < n)%nat -> 0 <= u j <= u' j) -> (forall k, (k < n)%nat -> 0 <= v k <= v' k) ->
  (forall j k, (j < n)%nat -> (k < n)%nat -> 0 <= M j k <= c) -> (forall j, (j < n)%nat -> M j j == 0) ->
  0 <= sum2Q (fun j k => u j * M j k * v k) n <= c * (sumQ u' n * sumQ v' n - sumQ (fun j => u' j * v' j) n).
Proof.
  intros Hu Hv HM Hd. split.
  - apply sum2Q_nonneg. intros j k Hj Hk. apply (mul3_le _ _ _ _ _ _ (Hu j Hj) (HM j k Hj Hk) (Hv k Hk)).
  - rewrite <- sum2Q_offdiag, <- sum2Q_scal. apply sum2Q_le. intros j k Hj Hk.
    destruct (Nat.eqb_spec j k) as [->|Hne].
    + rewrite (Hd k Hk). ring_simplify. lra.
    + assert (H := mul3_le _ _ _ _ _ _ (Hu j Hj) (HM j k Hj Hk) (Hv k Hk)).
      setoid_replace (c * (u' j * v' k)) with (u' j * c * v' k) by ring. tauto.
Qed.

(* ---------- directed: triangles at i <= possible triangles (Fagiolo's count) ---------- *)
Lemma binary_sq n A i j : binary n A -> (i < n)%nat -> (j < n)%nat -> A i j * A i j == A i j.
Proof. intros Hb Hi Hj. destruct (Hb i j Hi Hj) as [E|E]; rewrite E; ring. Qed.
Lemma binary_bounds n A i j : binary n A -> (i < n)%nat -> (j < n)%nat -> 0 <= A i j <= 1.
Proof. intros Hb Hi Hj. destruct (Hb i j Hi Hj) as [E|E]; rewrite E; lra. Qed.

Lemma tri_le_poss n C A i : binary n A -> nodiag n C -> (i < n)%nat ->
  (forall a b, (a < n)%nat -> (b < n)%nat -> 0 <= C a b <= A a b) ->
  0 <= tri_dir n C i <= poss_dir n A i.
Proof.
  intros Hb Hd Hi HC.
  assert (Hsy : forall a b, (a < n)%nat -> (b < n)%nat -> 0 <= sy C a b <= sy A a b).
  { intros a b Ha Hb'. unfold sy. destruct (HC a b Ha Hb'), (HC b a Hb' Ha). lra. }
  assert (Hsy2 : forall a b, (a < n)%nat -> (b < n)%nat -> 0 <= sy C a b <= 2).
  { intros a b Ha Hb'. destruct (Hsy a b Ha Hb'). unfold sy in *.
    destruct (binary_bounds n A a b Hb Ha Hb'), (binary_bounds n A b a Hb Hb' Ha). lra. }
  assert (B := triple_bound (fun j => sy C i j) (fun j => sy A i j) (fun k => sy C k i) (fun k => sy A k i) (sy C) 2 n
                (fun j Hj => Hsy i j Hi Hj) (fun k Hk => Hsy k i Hk Hi) Hsy2
                (fun j Hj => ltac:(unfold sy; rewrite (Hd j Hj); ring))).
  cbv beta in B. unfold tri_dir, poss_dir.
  assert (E1 : sumQ (fun j => sy A i j) n == dtot n A i) by reflexivity.
  assert (E2 : sumQ (fun k => sy A k i) n == dtot n A i).
  { unfold dtot, sy. apply sumQ_ext; intros k _. ring. }
  assert (E3 : sumQ (fun j => sy A i j * sy A j i) n == dtot n A i + 2 * dbi n A i).
  { unfold dtot, dbi, sy. rewrite <- sumQ_scal, <- sumQ_add. apply sumQ_ext; intros j Hj.
    assert (S1 := binary_sq n A i j Hb Hi Hj). assert (S2 := binary_sq n A j i Hb Hj Hi).
    setoid_replace ((A i j + A j i) * (A j i + A i j)) with (A i j * A i j + A j i * A j i + 2 * (A i j * A j i)) by ring.
    rewrite S1, S2. ring. }
  rewrite E1, E2, E3 in B. destruct B as [B0 B1]. split.
  - apply Qle_shift_div_l; lra.
  - apply Qle_shift_div_r; lra.
Qed.

Theorem range_01_bd n A i : binary n A -> nodiag n A -> (i < n)%nat -> 0 <= cc_bd n A i <= 1.
Proof.
  intros Hb Hd Hi. rewrite cc_bd_fagiolo. unfold def_cc_bd, def_cc_dir. apply ratio_01_masked.
  apply tri_le_poss; auto. intros a b Ha Hb'. destruct (binary_bounds n A a b Hb Ha Hb'). lra.
Qed.

Lemma range_trans_bd n A T : binary n A -> nodiag n A -> trans_bd n A = Some T -> 0 <= T <= 1.
Proof.
  intros Hb Hd. unfold trans_bd. cbv zeta. apply odiv_01.
  assert (H : forall i, (i < n)%nat -> 0 <= tri_dir n A i <= poss_dir n A i).
  { intros i Hi. apply tri_le_poss; auto. intros a b Ha Hb'. destruct (binary_bounds n A a b Hb Ha Hb'). lra. }
  split.
  - apply sumQ_nonneg. intros i Hi. rewrite cyc3_tri. apply H; exact Hi.
  - apply sumQ_le. intros i Hi. rewrite cyc3_tri. apply H; exact Hi.
Qed.

(* ---------- binary undirected (the np.where loop) ---------- *)
Lemma kk1_offdiag n W i :
  kdeg n W i * (kdeg n W i - 1) ==
  1 * (sumQ (fun j => nzQ (W i j)) n * sumQ (fun j => nzQ (W i j)) n - sumQ (fun j => nzQ (W i j) * nzQ (W i j)) n).
Proof.
  unfold kdeg. rewrite (sumQ_ext (fun j => nzQ (W i j) * nzQ (W i j)) (fun j => nzQ (W i j)) n) by (intros; apply nzQ_idem). ring.
Qed.

Theorem range_01_bu n A i : binary n A -> nodiag n A -> (i < n)%nat -> 0 <= cc_bu n A i <= 1.
Proof.
  intros Hb Hd Hi. rewrite cc_bu_sumform. destruct (Qle_bool 2 (kdeg n A i)); [|lra].
  apply ratio_01. rewrite kk1_offdiag.
  rewrite (sum2Q_ext (fun a b => nzQ (A i a) * nzQ (A i b) * A a b) (fun a b => nzQ (A i a) * A a b * nzQ (A i b)) n)
    by (intros; ring).
  apply (triple_bound (fun a => nzQ (A i a)) (fun a => nzQ (A i a)) (fun b => nzQ (A i b)) (fun b => nzQ (A i b)) A 1 n).
  - intros j _. split; [apply nzQ_nonneg|lra].
  - intros j _. split; [apply nzQ_nonneg|lra].
  - intros j k Hj Hk. apply (binary_bounds n A j k Hb Hj Hk).
  - exact Hd.
Qed.

Lemma range_trans_bu n A T : binary n A -> symmetric n A -> nodiag n A -> trans_bu n A = Some T -> 0 <= T <= 1.
Proof.
  intros Hb Hs Hd. unfold trans_bu. cbv zeta. apply odiv_01.
  rewrite (sum_sq_paths n A Hs), (trace_sq_deg n A Hb Hs), <- sumQ_sub.
  assert (H : forall i, (i < n)%nat -> 0 <= diag3 n A i <= deg n A i * deg n A i - deg n A i).
  { intros i Hi. rewrite diag_cube_is_triples.
    assert (B := triple_bound (fun j => A i j) (fun j => A i j) (fun k => A k i) (fun k => A i k) A 1 n
                  (fun j Hj => conj (proj1 (binary_bounds n A i j Hb Hi Hj)) (Qle_refl _))
                  (fun k Hk => ltac:(rewrite (Hs k i Hk Hi); exact (conj (proj1 (binary_bounds n A i k Hb Hi Hk)) (Qle_refl _))))
                  (fun j k Hj Hk => binary_bounds n A j k Hb Hj Hk) Hd).
    cbv beta in B.
    assert (E : sumQ (fun j => A i j * A i j) n == deg n A i).
    { unfold deg. apply sumQ_ext; intros j Hj. apply (binary_sq n A i j Hb Hi Hj). }
    rewrite E in B. unfold deg at 1 2. unfold sum2Q in B. lra. }
  split; [apply sumQ_nonneg|apply sumQ_le]; intros i Hi; apply H; exact Hi.
Qed.

(* ---------- weighted, weights in [0,1] ---------- *)
Section Cbrt.
Variable cbrt : Q -> Q.

Lemma cbrt_le_nz w : cube_root_at cbrt w -> 0 <= w <= 1 -> 0 <= cbrt w <= nzQ w.
Proof.
  intros Hw H. destruct (cra_unit cbrt w Hw H) as [H0 H1]. split; [exact H0|].
  destruct (Qeq_dec w 0) as [E|E].
  - rewrite (cra_zero cbrt w Hw E), (nzQ_zero w E). lra.
  - rewrite (nzQ_one w E). exact H1.
Qed.

Lemma nz_binary n W : binary n (mmap nzQ W).
Proof. intros i j _ _. unfold mmap. apply nzQ_01. Qed.

Lemma cbrt_nodiag n W : cbrt_ok cbrt n W -> nodiag n W -> nodiag n (mmap cbrt W).
Proof. intros Hc H i Hi. unfold mmap. apply (cra_zero cbrt); [apply Hc; exact Hi|]. apply H; exact Hi. Qed.

Lemma wd_tri_le_poss n W i : cbrt_ok cbrt n W -> unit_weights n W -> nodiag n W -> (i < n)%nat ->
  0 <= tri_dir n (mmap cbrt W) i <= poss_dir n (mmap nzQ W) i.
Proof.
  intros Hc Hu Hd Hi. apply tri_le_poss; [apply nz_binary|apply cbrt_nodiag; assumption|exact Hi|].
  intros a b Ha Hb. unfold mmap. apply cbrt_le_nz; [apply Hc|apply Hu]; assumption.
Qed.

Theorem range_01_wd n W i : cbrt_ok cbrt n W -> unit_weights n W -> nodiag n W -> (i < n)%nat ->
  0 <= cc_wd cbrt n W i <= 1.
Proof.
  intros Hc Hu Hd Hi. rewrite cc_wd_def. unfold def_cc_wd, def_cc_dir. apply ratio_01_masked. apply wd_tri_le_poss; assumption.
Qed.

Lemma range_trans_wd n W T : cbrt_ok cbrt n W -> unit_weights n W -> nodiag n W ->
  trans_wd cbrt n W = Some T -> 0 <= T <= 1.
Proof.
  intros Hc Hu Hd. unfold trans_wd. cbv zeta. change (mmap cbrt (mT W)) with (mT (mmap cbrt W)). apply odiv_01.
  split.
  - apply sumQ_nonneg. intros i Hi. rewrite cyc3_tri. apply wd_tri_le_poss; assumption.
  - apply sumQ_le. intros i Hi. rewrite cyc3_tri. apply wd_tri_le_poss; assumption.
Qed.

Lemma wu_cyc3_bound n W i : cbrt_ok cbrt n W -> unit_weights n W -> symmetric n W -> nodiag n W -> (i < n)%nat ->
  0 <= diag3 n (mmap cbrt W) i <= kdeg n W i * (kdeg n W i - 1).
Proof.
  intros Hc Hu Hs Hd Hi. rewrite diag_cube_is_triples, kk1_offdiag. unfold mmap.
  apply (triple_bound (fun j => cbrt (W i j)) (fun j => nzQ (W i j)) (fun k => cbrt (W k i)) (fun k => nzQ (W i k))
           (fun j k => cbrt (W j k)) 1 n).
  - intros j Hj. apply cbrt_le_nz; [apply Hc|apply Hu]; assumption.
  - intros k Hk. rewrite (cra_proper cbrt _ _ (Hc k i Hk Hi) (Hc i k Hi Hk) (Hs k i Hk Hi)).
    apply cbrt_le_nz; [apply Hc|apply Hu]; assumption.
  - intros j k Hj Hk. apply (cra_unit cbrt); [apply Hc|apply Hu]; assumption.
  - intros j Hj. apply (cra_zero cbrt); [apply Hc; exact Hj|]. apply Hd; exact Hj.
Qed.

Theorem range_01_wu n W i : cbrt_ok cbrt n W -> unit_weights n W -> symmetric n W -> nodiag n W -> (i < n)%nat ->
  0 <= cc_wu cbrt n W i <= 1.
Proof.
  intros Hc Hu Hs Hd Hi. unfold cc_wu. cbv zeta. rewrite mask_div0. apply ratio_01_masked. apply wu_cyc3_bound; assumption.
Qed.

Lemma range_trans_wu n W T : cbrt_ok cbrt n W -> unit_weights n W -> symmetric n W -> nodiag n W ->
  trans_wu cbrt n W = Some T -> 0 <= T <= 1.
Proof.
  intros Hc Hu Hs Hd. unfold trans_wu. cbv zeta. apply odiv_01.
  split; [apply sumQ_nonneg|apply sumQ_le]; intros i Hi; apply wu_cyc3_bound; assumption.
Qed.

(* signed: weights in [-1,1]; both returned vectors lie in [0,1] *)
Lemma pospart_unit n W : signed_unit_weights n W -> unit_weights n (pospart W).
Proof.
  intros H i j Hi Hj. unfold pospart. destruct (H i j Hi Hj).
  destruct (Qltb 0 (W i j)) eqn:E; [apply Qltb_true in E|]; split; ring_simplify; lra.
Qed.
Lemma negpart_unit n W : signed_unit_weights n W -> unit_weights n (negpart W).
Proof.
  intros H i j Hi Hj. unfold negpart. destruct (H i j Hi Hj).
  destruct (Qltb (W i j) 0) eqn:E; [apply Qltb_true in E|]; split; ring_simplify; lra.
Qed.
Lemma clear_diag_signed_unit n W : signed_unit_weights n W -> signed_unit_weights n (clear_diag W).
Proof. intros H i j Hi Hj. unfold clear_diag. destruct (Nat.eqb i j); [lra|apply H; assumption]. Qed.

Theorem range_01_wu_sign n W i : signed_unit_weights n W -> symmetric n W -> (i < n)%nat ->
  (cbrt_ok cbrt n (pospart (clear_diag W)) -> 0 <= fst (cc_wu_sign_default cbrt n W i) <= 1) /\
  (cbrt_ok cbrt n (negpart (clear_diag W)) -> 0 <= snd (cc_wu_sign_default cbrt n W i) <= 1).
Proof.
  intros Hu Hs Hi. unfold cc_wu_sign_default. cbv zeta. cbn [fst snd]. split; intros Hc; apply range_01_wu; auto.
  - apply pospart_unit, clear_diag_signed_unit, Hu.
  - apply pospart_sym, clear_diag_sym, Hs.
  - apply pospart_nodiag, clear_diag_nodiag.
  - apply negpart_unit, clear_diag_signed_unit, Hu.
  - apply negpart_sym, clear_diag_sym, Hs.
  - apply negpart_nodiag, clear_diag_nodiag.
Qed.
End Cbrt.

(* ---------- the quotients of the per-node routines never divide by zero on the property's domain:
   whenever the (masked) numerator is nonzero the denominator is strictly positive ---------- *)
Lemma no_div0_bd n A i : binary n A -> nodiag n A -> (i < n)%nat ->
  ~ tri_dir n A i == 0 -> 0 < poss_dir n A i.
Proof.
  intros Hb Hd Hi Hnz.
  assert (H : 0 <= tri_dir n A i <= poss_dir n A i).
  { apply tri_le_poss; auto. intros a b Ha Hb'. destruct (binary_bounds n A a b Hb Ha Hb'). lra. }
  destruct H as [H0 H1]. destruct (Qlt_le_dec 0 (poss_dir n A i)) as [L|L]; [exact L|]. exfalso. apply Hnz. lra.
Qed.

Lemma no_div0_wd cbrt n W i : cbrt_ok cbrt n W -> unit_weights n W -> nodiag n W -> (i < n)%nat ->
  ~ tri_dir n (mmap cbrt W) i == 0 -> 0 < poss_dir n (mmap nzQ W) i.
Proof.
  intros Hc Hu Hd Hi Hnz. destruct (wd_tri_le_poss cbrt n W i Hc Hu Hd Hi) as [H0 H1].
  destruct (Qlt_le_dec 0 (poss_dir n (mmap nzQ W) i)) as [L|L]; [exact L|]. exfalso. apply Hnz. lra.
Qed.

Lemma no_div0_wu cbrt n W i : cbrt_ok cbrt n W -> unit_weights n W -> symmetric n W -> nodiag n W -> (i < n)%nat ->
  ~ diag3 n (mmap cbrt W) i == 0 -> 0 < kdeg n W i * (kdeg n W i - 1).
Proof.
  intros Hc Hu Hs Hd Hi Hnz. destruct (wu_cyc3_bound cbrt n W i Hc Hu Hs Hd Hi) as [H0 H1].
  destruct (Qlt_le_dec 0 (kdeg n W i * (kdeg n W i - 1))) as [L|L]; [exact L|]. exfalso. apply Hnz. lra.
Qed.
