(* Proofs/PartitionJoint.v — the rational (counting) half of the upper bound VIn <= 1 of partition_distance:
   with a_i, b_i, c_i the sizes of the blocks of node i in the partitions X, Y and in their joint partition XY,
       sum_i a_i * b_i / c_i  <=  n^2
   (every non-empty joint block (u,v) contributes |u|*|v| exactly once; the empty ones contribute nothing).
   No logarithm here: everything is over Q. *)
From Coq Require Import QArith Qring Qfield Lia Lqa Arith List Bool ZArith.
From BCT Require Import Base.Mat Base.SumQ Base.ListX Model.Partition Proofs.Partition.
Import ListNotations.
Open Scope Q_scope.

Lemma bounded_search (P : nat -> bool) n :
  (exists i, (i < n)%nat /\ P i = true) \/ (forall i, (i < n)%nat -> P i = false).
Proof.
  induction n as [|n IH]; [right; intros i Hi; lia|].
  destruct IH as [[i [Hi Hp]]|Hall].
  - left. exists i. split; [lia|exact Hp].
  - destruct (P n) eqn:E.
    + left. exists n. split; [lia|exact E].
    + right. intros i Hi. destruct (Nat.eq_dec i n) as [->|Hne]; [exact E|apply Hall; lia].
Qed.

Lemma bsize_pos n c i : (i < n)%nat -> 0 < bsize n c i.
Proof. intros Hi. pose proof (bsize_ge1 n c i Hi). lra. Qed.

Lemma bsize_block_eq n (c : vec nat) i j : c i = c j -> bsize n c i = bsize n c j.
Proof. intros E. unfold bsize. rewrite E. reflexivity. Qed.

Section Joint.
Variables (n : nat) (x y xy : vec nat).
Hypothesis J : forall i j, (i < n)%nat -> (j < n)%nat -> (xy i = xy j <-> x i = x j /\ y i = y j).

(* one cell (block of j in X) x (block of l in Y): the nodes of the cell, each weighted by 1/|cell|, weigh 1 or 0 *)
Lemma joint_cell_le1 j l :
  sumQ (fun i => ind (Nat.eqb (x i) (x j)) * ind (Nat.eqb (y i) (y l)) / bsize n xy i) n <= 1.
Proof.
  destruct (bounded_search (fun i => (Nat.eqb (x i) (x j) && Nat.eqb (y i) (y l))%bool) n) as [[i0 [Hi0 Hp]]|Hnone].
  - apply andb_true_iff in Hp. destruct Hp as [Hx Hy]. apply Nat.eqb_eq in Hx, Hy.
    assert (E : sumQ (fun i => ind (Nat.eqb (x i) (x j)) * ind (Nat.eqb (y i) (y l)) / bsize n xy i) n ==
                sumQ (fun i => ind (Nat.eqb (xy i) (xy i0)) * / bsize n xy i0) n).
    { apply sumQ_ext. intros i Hi. pose proof (J i i0 Hi Hi0) as Hj.
      destruct (Nat.eqb_spec (xy i) (xy i0)) as [E|E].
      - destruct (proj1 Hj E) as [E1 E2].
        rewrite (bsize_block_eq n xy i i0 E).
        destruct (Nat.eqb_spec (x i) (x j)) as [_|N1]; [|exfalso; apply N1; congruence].
        destruct (Nat.eqb_spec (y i) (y l)) as [_|N2]; [|exfalso; apply N2; congruence].
        cbn [ind]. unfold Qdiv. ring.
      - destruct (Nat.eqb_spec (x i) (x j)) as [E1|N1]; [|cbn [ind]; unfold Qdiv; ring].
        destruct (Nat.eqb_spec (y i) (y l)) as [E2|N2]; [|cbn [ind]; unfold Qdiv; ring].
        exfalso. apply E. apply Hj. split; congruence. }
    rewrite E, sumQ_scal_r. fold (mdz_cnt n xy (xy i0)). fold (bsize n xy i0).
    pose proof (bsize_pos n xy i0 Hi0) as Hpos.
    assert (E1 : bsize n xy i0 * / bsize n xy i0 == 1) by (field; lra). rewrite E1. lra.
  - rewrite sumQ_zero'; [lra|]. intros i Hi. specialize (Hnone i Hi). cbn beta in Hnone.
    destruct (Nat.eqb (x i) (x j)); cbn [andb] in Hnone; [rewrite Hnone|]; cbn [ind]; unfold Qdiv; ring.
Qed.

Lemma sumQ_const_qof c : sumQ (fun _ => c) n == qof n * c.
Proof.
  rewrite (sumQ_ext _ (fun _ => 1 * c)) by (intros; ring). rewrite sumQ_scal_r, sumQ_const1'. reflexivity.
Qed.

Theorem joint_sum_le : sumQ (fun i => bsize n x i * bsize n y i / bsize n xy i) n <= qof n * qof n.
Proof.
  assert (E : sumQ (fun i => bsize n x i * bsize n y i / bsize n xy i) n ==
              sumQ (fun j => sumQ (fun l =>
                sumQ (fun i => ind (Nat.eqb (x i) (x j)) * ind (Nat.eqb (y i) (y l)) / bsize n xy i) n) n) n).
  { rewrite (sumQ_ext _ (fun i => sumQ (fun j => sumQ (fun l =>
               ind (Nat.eqb (x i) (x j)) * ind (Nat.eqb (y i) (y l)) / bsize n xy i) n) n)).
    - rewrite sumQ_fubini. apply sumQ_ext. intros j _. rewrite sumQ_fubini. reflexivity.
    - intros i _. unfold bsize at 1 2, mdz_cnt. rewrite sumQ_mul. unfold Qdiv. rewrite <- sumQ_scal_r.
      apply sumQ_ext. intros j _. rewrite <- sumQ_scal_r. apply sumQ_ext. intros l _.
      rewrite (Nat.eqb_sym (x j) (x i)), (Nat.eqb_sym (y l) (y i)). reflexivity. }
  rewrite E.
  assert (B : sumQ (fun j => sumQ (fun l =>
                sumQ (fun i => ind (Nat.eqb (x i) (x j)) * ind (Nat.eqb (y i) (y l)) / bsize n xy i) n) n) n <=
              sumQ (fun _ => sumQ (fun _ => 1) n) n).
  { apply sumQ_le. intros j _. apply sumQ_le. intros l _. apply joint_cell_le1. }
  rewrite sumQ_const_qof, sumQ_const1' in B. exact B.
Qed.
End Joint.
