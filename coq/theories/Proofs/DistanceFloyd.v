(* Proofs/DistanceFloyd.v — full correctness of the Floyd–Warshall model (distance_wei_floyd),
   including the hops / Pmat path invariant used by C12. *)
From Coq Require Import QArith List Arith Bool ZArith Lia Lqa.
From BCT Require Import Base.Mat Base.ListX Model.Distance Proofs.DistanceBase.
Import ListNotations.
Open Scope Q_scope.

Lemma fw_iter_S n L k : fw_iter n L (S k) = fw_round n k (fw_iter n L k).
Proof. unfold fw_iter. exact (fold_left_seq_S (fun st k => fw_round n k st) k (fw_init n L)). Qed.

Section Floyd.
Variable n : nat.
Variable L : mat len.
Hypothesis Hnn : nonneg n L.

Definition via (st : fw_state) (k i j : nat) : len := oadd (spl st i k) (spl st k j).
Definition pathb (st : fw_state) (k i j : nat) : bool := oltb (via st k i j) (spl st i j).

Lemma spl_round k st i j : (i < n)%nat -> (j < n)%nat ->
  spl (fw_round n k st) i j = omin (spl st i j) (via st k i j).
Proof. intros Hi Hj. unfold fw_round. cbn [spl]. rewrite tab_spec by assumption. reflexivity. Qed.
Lemma hops_round k st i j : (i < n)%nat -> (j < n)%nat ->
  hops (fw_round n k st) i j = if pathb st k i j then (hops st i k + hops st k j)%nat else hops st i j.
Proof. intros Hi Hj. unfold fw_round. cbn [hops]. rewrite tab_spec by assumption. reflexivity. Qed.
Lemma pmat_round k st i j : (i < n)%nat -> (j < n)%nat ->
  pmat (fw_round n k st) i j = if pathb st k i j then pmat st i k else pmat st i j.
Proof. intros Hi Hj. unfold fw_round. cbn [pmat]. rewrite tab_spec by assumption. reflexivity. Qed.

Lemma spl_round_cases k st i j : (i < n)%nat -> (j < n)%nat ->
  (pathb st k i j = true /\ spl (fw_round n k st) i j = via st k i j) \/
  (pathb st k i j = false /\ spl (fw_round n k st) i j = spl st i j).
Proof. intros Hi Hj. rewrite spl_round by assumption. apply omin_cases. Qed.

(* first hop p of the current best i->j path: either the direct edge, or an edge to p followed by
   the CURRENT best p->j path (same hops, same length) *)
Definition pathinv (k : nat) (st : fw_state) (i j : nat) (x : Q) : Prop :=
  let p := pmat st i j in
  (p < n)%nat /\
  ((p = j /\ hops st i j = 1%nat /\ oeq (L i j) (Some x)) \/
   ((p < k)%nat /\ p <> j /\ hops st i j = S (hops st p j) /\ oeq (oadd (L i p) (spl st p j)) (Some x))).

Record fwinv (k : nat) (st : fw_state) : Prop := {
  inv_nonneg : forall i j x, (i < n)%nat -> (j < n)%nat -> spl st i j = Some x -> 0 <= x;
  inv_leL : forall i j, (i < n)%nat -> (j < n)%nat -> ole (spl st i j) (L i j);
  inv_tri : forall i j p, (i < n)%nat -> (j < n)%nat -> (p < k)%nat ->
      ole (spl st i j) (oadd (L i p) (spl st p j));
  inv_sound : forall i j x, (i < n)%nat -> (j < n)%nat -> spl st i j = Some x ->
      exists mid, below k mid /\ exists y, wl L i mid j = Some y /\ y == x;
  inv_hops0 : forall i j, (i < n)%nat -> (j < n)%nat -> spl st i j = None -> hops st i j = 0%nat;
  inv_path : forall i j x, (i < n)%nat -> (j < n)%nat -> spl st i j = Some x -> pathinv k st i j x
}.

Lemma fwinv_init : fwinv 0 (fw_init n L).
Proof.
  constructor.
  - intros i j x Hi Hj. unfold fw_init. cbn [spl]. rewrite tab_spec by assumption. apply Hnn; assumption.
  - intros i j Hi Hj. unfold fw_init. cbn [spl]. rewrite tab_spec by assumption. apply ole_refl.
  - intros i j p _ _ Hp. lia.
  - intros i j x Hi Hj. unfold fw_init. cbn [spl]. rewrite tab_spec by assumption. intros H.
    exists []. split; [apply below_nil|]. exists x. split; [exact H|reflexivity].
  - intros i j Hi Hj. unfold fw_init. cbn [spl hops]. rewrite !tab_spec by assumption. intros ->. reflexivity.
  - intros i j x Hi Hj. unfold fw_init, pathinv. cbn [spl hops pmat]. rewrite !tab_spec by assumption.
    intros H. split; [exact Hj|]. left. split; [reflexivity|]. rewrite H. cbn [isfin]. split; [reflexivity|].
    cbn. reflexivity.
Qed.

(* row k and column k are not touched in round k *)
Lemma pathb_row k st j : fwinv k st -> (k < n)%nat -> (j < n)%nat -> pathb st k k j = false.
Proof.
  intros I Hk Hj. unfold pathb, via. apply oltb_false.
  pose proof (inv_nonneg k st I k k) as N.
  destruct (spl st k k) as [c|] eqn:Ec; [|cbn; destruct (spl st k j); exact Logic.I].
  specialize (N c Hk Hk eq_refl). destruct (spl st k j); cbn; [lra|exact Logic.I].
Qed.
Lemma pathb_col k st i : fwinv k st -> (k < n)%nat -> (i < n)%nat -> pathb st k i k = false.
Proof.
  intros I Hk Hi. unfold pathb, via. apply oltb_false.
  pose proof (inv_nonneg k st I k k) as N.
  destruct (spl st k k) as [c|] eqn:Ec; [|rewrite oadd_None_r; destruct (spl st i k); exact Logic.I].
  specialize (N c Hk Hk eq_refl). destruct (spl st i k); cbn; [lra|exact Logic.I].
Qed.

Lemma fwinv_step k st : (k < n)%nat -> fwinv k st -> fwinv (S k) (fw_round n k st).
Proof.
  intros Hk I.
  assert (Hrow : forall j, (j < n)%nat -> spl (fw_round n k st) k j = spl st k j).
  { intros j Hj. destruct (spl_round_cases k st k j Hk Hj) as [[Hp _]|[_ E]]; [|exact E].
    rewrite pathb_row in Hp by assumption. discriminate. }
  constructor.
  - (* nonneg *)
    intros i j x Hi Hj. destruct (spl_round_cases k st i j Hi Hj) as [[_ E]|[_ E]]; rewrite E.
    + unfold via. intros H.
      pose proof (inv_nonneg k st I i k) as N1. pose proof (inv_nonneg k st I k j) as N2.
      destruct (spl st i k) as [a|]; [|discriminate]. destruct (spl st k j) as [b|]; [|discriminate].
      cbn in H. injection H as <-. specialize (N1 a Hi Hk eq_refl). specialize (N2 b Hk Hj eq_refl). lra.
    + apply (inv_nonneg k st I); assumption.
  - (* below L *)
    intros i j Hi Hj. rewrite spl_round by assumption.
    eapply ole_trans; [apply omin_le_l|]. apply (inv_leL k st I); assumption.
  - (* triangle through low nodes *)
    intros i j p Hi Hj Hp.
    assert (Hle1 : ole (spl (fw_round n k st) i j) (spl st i j)) by (rewrite spl_round by assumption; apply omin_le_l).
    assert (Hle2 : ole (spl (fw_round n k st) i j) (via st k i j)) by (rewrite spl_round by assumption; apply omin_le_r).
    destruct (Nat.eq_dec p k) as [->|Hpk].
    + rewrite Hrow by assumption. eapply ole_trans; [exact Hle2|]. unfold via.
      apply oadd_mono; [apply (inv_leL k st I); assumption|apply ole_refl].
    + assert (Hp' : (p < k)%nat) by lia. assert (Hpn : (p < n)%nat) by lia.
      destruct (spl_round_cases k st p j Hpn Hj) as [[_ E]|[_ E]]; rewrite E.
      * eapply ole_trans; [exact Hle2|]. unfold via.
        pose proof (inv_tri k st I i k p Hi Hk Hp') as T.
        destruct (spl st i k), (spl st k j), (L i p), (spl st p k); cbn in *; try tauto; lra.
      * eapply ole_trans; [exact Hle1|]. apply (inv_tri k st I); assumption.
  - (* soundness: every finite entry is the length of a walk with interior < S k *)
    intros i j x Hi Hj. destruct (spl_round_cases k st i j Hi Hj) as [[_ E]|[_ E]]; rewrite E.
    + unfold via. intros H.
      destruct (spl st i k) as [a|] eqn:Ea; [|discriminate]. destruct (spl st k j) as [b|] eqn:Eb; [|discriminate].
      cbn in H. injection H as <-.
      destruct (inv_sound k st I i k a Hi Hk Ea) as [m1 [B1 [y1 [W1 E1]]]].
      destruct (inv_sound k st I k j b Hk Hj Eb) as [m2 [B2 [y2 [W2 E2]]]].
      exists (m1 ++ k :: m2). split.
      { apply below_app. split; [eapply below_mono; [|exact B1]; lia|].
        apply below_cons. split; [lia|]. eapply below_mono; [|exact B2]. lia. }
      pose proof (wl_app_oeq L i m1 k m2 j) as Hw. rewrite W1, W2 in Hw. cbn [oadd] in Hw.
      destruct (wl L i (m1 ++ k :: m2) j) as [y|]; [|contradiction]. exists y. split; [reflexivity|].
      cbn in Hw. lra.
    + intros H. destruct (inv_sound k st I i j x Hi Hj H) as [mid [B W]]. exists mid. split; [|exact W].
      eapply below_mono; [|exact B]. lia.
  - (* infinite entries have hops 0 *)
    intros i j Hi Hj H. rewrite hops_round by assumption.
    destruct (spl_round_cases k st i j Hi Hj) as [[Hp E]|[Hp E]]; rewrite E in H; rewrite Hp.
    + unfold pathb in Hp. apply oltb_true in Hp. fold (via st k i j) in H. rewrite H in Hp. contradiction.
    + apply (inv_hops0 k st I); assumption.
  - (* path invariant *)
    intros i j x Hi Hj HS. unfold pathinv.
    rewrite pmat_round, hops_round by assumption.
    destruct (spl_round_cases k st i j Hi Hj) as [[Hp E]|[Hp E]]; rewrite E in HS; rewrite Hp.
    + (* (i,j) strictly improved through k *)
      assert (Hjk : j <> k) by (intros ->; rewrite pathb_col in Hp by assumption; discriminate).
      unfold via in HS.
      destruct (spl st i k) as [a|] eqn:Ea; [|discriminate]. destruct (spl st k j) as [b|] eqn:Eb; [|discriminate].
      cbn in HS. injection HS as <-.
      pose proof (inv_nonneg k st I k j b Hk Hj Eb) as Nb.
      destruct (inv_path k st I i k a Hi Hk Ea) as [Hpn [[Pk [Hh Hl]]|[Plt [Pne [Hh Hl]]]]]; split; try exact Hpn; right.
      * rewrite Pk. split; [lia|]. split; [congruence|].
        rewrite hops_round by assumption. rewrite pathb_row by assumption. rewrite Hrow by assumption.
        split; [lia|]. rewrite Eb. destruct (L i k); cbn in *; [lra|contradiction].
      * set (p := pmat st i k) in *.
        destruct (L i p) as [l|] eqn:El; [|cbn in Hl; contradiction].
        destruct (spl st p k) as [c|] eqn:Ec; [|cbn in Hl; contradiction]. cbn in Hl.
        pose proof (inv_nonneg k st I p k c Hpn Hk Ec) as Nc.
        (* (i,j) improved strictly *)
        unfold pathb, via in Hp. rewrite Ea, Eb in Hp. cbn [oadd] in Hp. apply oltb_true in Hp.
        (* p <> j *)
        assert (Hpj : p <> j).
        { intros ->. pose proof (inv_leL k st I i j Hi Hj) as LL. rewrite El in LL.
          destruct (spl st i j); cbn in LL; [lra|contradiction]. }
        (* (p,j) improves strictly as well *)
        assert (Hpp : pathb st k p j = true).
        { destruct (pathb st k p j) eqn:Eq; [reflexivity|exfalso].
          unfold pathb, via in Eq. rewrite Ec, Eb in Eq. cbn [oadd] in Eq. apply oltb_false in Eq.
          pose proof (inv_tri k st I i j p Hi Hj Plt) as T. rewrite El in T.
          destruct (spl st p j) as [y|]; cbn in Eq; [|contradiction].
          destruct (spl st i j) as [z|]; cbn in T; [lra|contradiction]. }
        split; [lia|]. split; [exact Hpj|].
        rewrite (hops_round k st p j) by assumption. rewrite Hpp.
        split; [lia|].
        destruct (spl_round_cases k st p j Hpn Hj) as [[_ E2]|[Hq _]]; [|congruence].
        rewrite E2. unfold via. rewrite Ec, Eb. cbn. lra.
    + (* (i,j) unchanged *)
      destruct (inv_path k st I i j x Hi Hj HS) as [Hpn [[Pj [Hh Hl]]|[Plt [Pne [Hh Hl]]]]]; split; try exact Hpn.
      * left. auto.
      * right. set (p := pmat st i j) in *.
        destruct (L i p) as [l|] eqn:El; [|cbn in Hl; contradiction].
        destruct (spl st p j) as [y|] eqn:Ey; [|cbn in Hl; contradiction]. cbn in Hl.
        assert (Hpp : pathb st k p j = false).
        { destruct (pathb st k p j) eqn:Eq; [exfalso|reflexivity].
          unfold pathb, via in Eq. rewrite Ey in Eq. apply oltb_true in Eq.
          destruct (spl st p k) as [c|] eqn:Ec; [|cbn in Eq; contradiction].
          destruct (spl st k j) as [b|] eqn:Eb; [|cbn in Eq; contradiction]. cbn in Eq.
          pose proof (inv_tri k st I i k p Hi Hk Plt) as T. rewrite El, Ec in T.
          destruct (spl st i k) as [a|] eqn:Ea; cbn in T; [|contradiction].
          unfold pathb, via in Hp. rewrite Ea, Eb, HS in Hp. cbn in Hp. apply qltb_false in Hp. lra. }
        split; [lia|]. split; [exact Pne|].
        rewrite (hops_round k st p j) by assumption. rewrite Hpp. split; [exact Hh|].
        destruct (spl_round_cases k st p j Hpn Hj) as [[Hq _]|[_ E2]]; [congruence|].
        rewrite E2, Ey. cbn. exact Hl.
Qed.

Lemma fwinv_iter k : (k <= n)%nat -> fwinv k (fw_iter n L k).
Proof.
  induction k; intros Hk.
  - exact fwinv_init.
  - rewrite fw_iter_S. apply fwinv_step; [lia|]. apply IHk. lia.
Qed.

(* minimality from the triangle inequality, by induction on the walk *)
Lemma fw_min k st : fwinv k st -> (k <= n)%nat ->
  forall mid i j, (i < n)%nat -> (j < n)%nat -> below k mid -> ole (spl st i j) (wl L i mid j).
Proof.
  intros I Hk mid. induction mid as [|m r IH]; intros i j Hi Hj B; cbn [wl].
  - apply (inv_leL k st I); assumption.
  - apply below_cons in B. destruct B as [Hm B].
    eapply ole_trans; [apply (inv_tri k st I i j m Hi Hj Hm)|].
    apply oadd_mono; [apply ole_refl|]. apply IH; [lia|assumption|assumption].
Qed.

(* ---------- the final matrices ---------- *)
Definition FW := floyd n L.
Let stn := fw_iter n L n.

Lemma floyd_offdiag i j : i <> j ->
  spl FW i j = spl stn i j /\ hops FW i j = hops stn i j /\ pmat FW i j = pmat stn i j.
Proof.
  intros Hne. unfold FW, floyd, fw_final. cbn [spl hops pmat].
  destruct (Nat.eqb_spec i j); [contradiction|]. auto.
Qed.

Theorem floyd_correct : dist_correct n L (spl FW).
Proof.
  intros i j Hi Hj Hne. destruct (floyd_offdiag i j Hne) as [E _]. rewrite E.
  pose proof (fwinv_iter n (le_n n)) as I. fold stn in I.
  unfold is_min_dist. destruct (spl stn i j) as [x|] eqn:Ex.
  - split.
    + exact (inv_sound n stn I i j x Hi Hj Ex).
    + intros mid y B W. pose proof (fw_min n stn I (le_n n) mid i j Hi Hj B) as M.
      rewrite Ex, W in M. exact M.
  - intros mid B. pose proof (fw_min n stn I (le_n n) mid i j Hi Hj B) as M. rewrite Ex in M.
    destruct (wl L i mid j); [contradiction|reflexivity].
Qed.

Theorem floyd_diag_zero : forall i, spl FW i i = Some 0 /\ hops FW i i = 0%nat /\ pmat FW i i = 0%nat.
Proof. intros i. unfold FW, floyd, fw_final. cbn [spl hops pmat]. rewrite Nat.eqb_refl. auto. Qed.

(* infinity exactly when no walk exists; (hops <> 0) is a correct reachability flag as well *)
Theorem floyd_reach_iff_finite : forall i j, (i < n)%nat -> (j < n)%nat -> i <> j ->
  (spl FW i j <> None <-> reachable n L i j) /\ (hops FW i j <> 0%nat <-> reachable n L i j).
Proof.
  intros i j Hi Hj Hne.
  pose proof (floyd_correct i j Hi Hj Hne) as C. unfold is_min_dist in C.
  destruct (floyd_offdiag i j Hne) as [E [Eh _]].
  pose proof (fwinv_iter n (le_n n)) as I. fold stn in I.
  assert (R1 : spl FW i j <> None <-> reachable n L i j).
  { destruct (spl FW i j) as [x|] eqn:Ex.
    - split; [intros _|congruence]. destruct C as [[mid [B [y [W _]]]] _]. exists mid. split; [exact B|congruence].
    - split; [congruence|]. intros [mid [B W]]. specialize (C mid B). contradiction. }
  split; [exact R1|]. rewrite <- R1. rewrite Eh, E.
  destruct (spl stn i j) as [x|] eqn:Ex.
  - split; [congruence|intros _].
    destruct (inv_path n stn I i j x Hi Hj Ex) as [_ [[_ [H _]]|[_ [_ [H _]]]]]; lia.
  - split; [|congruence]. intros H. exfalso. apply H. apply (inv_hops0 n stn I); assumption.
Qed.

(* for i <> j with finite SPL: the first hop p = Pmat[i,j] is a node, (i,p) is an existing connection, and
   either p = j (one hop, SPL = L[i,j]) or p <> j and hops/SPL decompose exactly along (p,j) *)
Theorem floyd_path_step : forall i j x, (i < n)%nat -> (j < n)%nat -> i <> j -> spl FW i j = Some x ->
  let p := pmat FW i j in
  (p < n)%nat /\
  ((p = j /\ hops FW i j = 1%nat /\ oeq (L i j) (Some x)) \/
   (p <> j /\ hops FW i j = S (hops FW p j) /\ oeq (oadd (L i p) (spl FW p j)) (Some x))).
Proof.
  intros i j x Hi Hj Hne HS. cbn zeta.
  destruct (floyd_offdiag i j Hne) as [E [Eh Ep]]. rewrite Ep, Eh. rewrite E in HS.
  pose proof (fwinv_iter n (le_n n)) as I. fold stn in I.
  destruct (inv_path n stn I i j x Hi Hj HS) as [Hpn [[Pj [Hh Hl]]|[Plt [Pne [Hh Hl]]]]]; split; try exact Hpn.
  - left. auto.
  - right. split; [exact Pne|].
    destruct (floyd_offdiag (pmat stn i j) j Pne) as [E2 [Eh2 _]]. rewrite Eh2, E2. split; [exact Hh|exact Hl].
Qed.

(* hops[i,j] is the number of edges of a walk whose length is SPL[i,j] (the minimum, by floyd_correct) *)
Theorem floyd_hops_min_path : forall i j x, (i < n)%nat -> (j < n)%nat -> i <> j -> spl FW i j = Some x ->
  exists mid, below n mid /\ S (length mid) = hops FW i j /\ oeq (wl L i mid j) (Some x).
Proof.
  intros i j x Hi Hj Hne HS.
  remember (hops FW i j) as h eqn:Hh. revert i x Hi Hne HS Hh.
  induction h as [|h IH]; intros i x Hi Hne HS Hh.
  - destruct (floyd_path_step i j x Hi Hj Hne HS) as [_ [[_ [H _]]|[_ [H _]]]]; lia.
  - destruct (floyd_path_step i j x Hi Hj Hne HS) as [Hpn [[Pj [H1 Hl]]|[Pne [H1 Hl]]]].
    + exists []. split; [apply below_nil|]. split; [cbn; lia|]. cbn [wl]. exact Hl.
    + set (p := pmat FW i j) in *.
      destruct (L i p) as [l|] eqn:El; [|cbn in Hl; contradiction].
      destruct (spl FW p j) as [y|] eqn:Ey; [|cbn in Hl; contradiction]. cbn in Hl.
      destruct (IH p y Hpn Pne Ey ltac:(lia)) as [mid [B [Hlen W]]].
      exists (p :: mid). split; [apply below_cons; auto|]. split; [cbn [length]; lia|].
      cbn [wl]. rewrite El. destruct (wl L p mid j) as [w|]; cbn in *; [lra|contradiction].
Qed.
End Floyd.

(* ---------- the three transforms give non-negative lengths on the property's domain ---------- *)
Lemma lengths_nonneg nlog n tr A :
  (forall i j, (i < n)%nat -> (j < n)%nat -> 0 <= A i j) ->
  (tr = TLog -> forall i j, (i < n)%nat -> (j < n)%nat -> ~ A i j == 0 -> 0 <= nlog (A i j)) ->
  nonneg n (lengths nlog tr A).
Proof.
  intros HA Hlog i j x Hi Hj. unfold lengths. destruct (Qeq_bool (A i j) 0) eqn:E; [discriminate|].
  apply Qeq_bool_neq in E. intros H. injection H as <-. specialize (HA i j Hi Hj).
  destruct tr.
  - exact HA.
  - assert (0 < A i j) by (destruct (Qlt_le_dec 0 (A i j)); [assumption|exfalso; apply E; lra]).
    unfold Qdiv. rewrite Qmult_1_l. apply Qlt_le_weak. apply Qinv_lt_0_compat. assumption.
  - apply Hlog; auto.
Qed.

Lemma lengths_support nlog tr A i j : lengths nlog tr A i j = None <-> A i j == 0.
Proof.
  unfold lengths. destruct (Qeq_bool (A i j) 0) eqn:E.
  - apply Qeq_bool_iff in E. tauto.
  - apply Qeq_bool_neq in E. split; [discriminate|contradiction].
Qed.
