(* Proofs/BetweenTight.v — interface between the search phases and the specification:
   [tightb n G u v w]: the connection v -> w lies on a minimum-length walk from u (dist(u,w) = dist(u,v) + G v w);
   [counts_ok n G u st]: the finished search state holds exactly the tight connections as predecessor links and
   path counts that obey the last-connection recurrence. *)
From Coq Require Import QArith List Arith Bool ZArith Lia.
From BCT Require Import Base.Mat Base.SumQ Base.ListX Model.Between.
Import ListNotations.
Open Scope Z_scope.

Definition tightb (n : nat) (G : mat Z) (u v w : nat) : bool :=
  edge G v w &&
  match dist_spec n G u v, dist_spec n G u w with
  | Some dv, Some dw => Z.eqb dw (dv + G v w)
  | _, _ => false
  end.

Definition counts_ok (n : nat) (G : mat Z) (u : nat) (st : sst) : Prop :=
  (forall w v, (w < n)%nat -> (v < n)%nat -> sP st w v = tightb n G u v w) /\
  sNP st u = 1 /\
  (forall x, (x < n)%nat -> x <> u -> sNP st x = sumn (fun v => b2z (sP st x v) * sNP st v) n).

Lemma tightb_true n G u v w : tightb n G u v w = true <->
  edge G v w = true /\ exists dv, dist_spec n G u v = Some dv /\ dist_spec n G u w = Some (dv + G v w).
Proof.
  unfold tightb. rewrite andb_true_iff. split.
  - intros [He H]. split; [exact He|]. destruct (dist_spec n G u v) as [dv|]; [|discriminate].
    destruct (dist_spec n G u w) as [dw|]; [|discriminate]. apply Z.eqb_eq in H. subst dw. exists dv. auto.
  - intros [He (dv & E1 & E2)]. split; [exact He|]. rewrite E1, E2. apply Z.eqb_refl.
Qed.
