(* Proofs/EquivModelsCore.v — C04 for the statement-level models of kcore_bu / kcore_bd / score_wu (the peeling
   `while True` loop with `ff, = np.where(...)` in ascending index order, Model/Core.v) and of
   kcoreness_centrality_bu / _bd (the scan `for k in range(N)`), via C15: the loop returns the MAXIMAL feasible node
   set (core_spec), a renumbering maps feasible sets to feasible sets, and a maximal feasible set is unique. *)
From Coq Require Import QArith Lia Arith List Bool Permutation.
From BCT Require Import Base.Mat Base.SumQ Base.ListX Model.SymTerm Proofs.EquivModels Model.Core Proofs.Core Proofs.CoreFull.
From BCT Require Proofs.SymTerm.
Import ListNotations.
Open Scope Q_scope.

Lemma din_ext_set c n W (A A' : nat -> bool) j : (forall i, (i < n)%nat -> A i = A' i) -> (j < n)%nat ->
  din c n W A j == din c n W A' j.
Proof.
  intros HA Hj. unfold din, dgc. apply sumQ_ext. intros i Hi. unfold restrictA.
  rewrite (HA i Hi), (HA j Hj). reflexivity.
Qed.
Lemma din_ext_mat c n W W' (A : nat -> bool) j :
  (forall a b, (a < n)%nat -> (b < n)%nat -> W a b = W' a b) -> (j < n)%nat -> din c n W A j == din c n W' A j.
Proof.
  intros HW Hj. unfold din, dgc. apply sumQ_ext. intros i Hi. unfold restrictA.
  rewrite (HW i j Hi Hj), (HW j i Hj Hi). reflexivity.
Qed.

Section CoreEquiv.
Variable c : Q -> Q -> Q.
Variables (n : nat) (p : nat -> nat).
Hypothesis Hp : perm_on n p.

(* the degree of j inside the set S.p of the renumbered network = the degree of p j inside S *)
Lemma din_pm W (S : nat -> bool) j : din c n (pm p W) (fun x => S (p x)) j == din c n W S (p j).
Proof.
  unfold din, dgc.
  change (sumQ (fun i => (fun x => c (restrictA S W x (p j)) (restrictA S W (p j) x)) (p i)) n ==
          sumQ (fun x => c (restrictA S W x (p j)) (restrictA S W (p j) x)) n).
  apply (Proofs.SymTerm.sumQ_reindex n p _ Hp).
Qed.

Lemma feasible_pm W k S : feasible c n W k S -> feasible c n (pm p W) k (fun x => S (p x)).
Proof.
  intros H j Hj Sj. rewrite (din_pm W S j). apply (H (p j) (perm_lt n p j Hp Hj) Sj).
Qed.
End CoreEquiv.

Section CoreEquiv2.
Variable c : Q -> Q -> Q.
Variables (n : nat) (p : nat -> nat).
Hypothesis Hp : perm_on n p.

Lemma feasible_pm_inv W k S' : feasible c n (pm p W) k S' -> feasible c n W k (fun x => S' (inv_perm n p x)).
Proof.
  intros H. pose proof (feasible_pm c n (inv_perm n p) (inv_perm_perm_on n p Hp) (pm p W) k S' H) as H2.
  intros j Hj Sj. specialize (H2 j Hj Sj).
  assert (E : din c n (pm (inv_perm n p) (pm p W)) (fun x => S' (inv_perm n p x)) j == din c n W (fun x => S' (inv_perm n p x)) j).
  { apply din_ext_mat; [|exact Hj]. intros a b Ha Hb. unfold pm.
    rewrite (proj1 (inv_perm_r n p a Hp Ha)), (proj1 (inv_perm_r n p b Hp Hb)). reflexivity. }
  rewrite <- E. exact H2.
Qed.

(* two runs, on the network and on the renumbered network, both meeting C15's specification *)
Theorem core_spec_equivariant W k r r' : core_spec c n W k r -> core_spec c n (pm p W) k r' ->
  (forall j, (j < n)%nat -> core r' j = core r (p j)) /\
  (forall i j, (i < n)%nat -> (j < n)%nat -> pr_M r' i j == pr_M r (p i) (p j)) /\
  kn_of n (pr_deg r') = kn_of n (pr_deg r).
Proof.
  intros [F [Mx [HM [Hkn _]]]] [F' [Mx' [HM' [Hkn' _]]]].
  assert (Hc : forall j, (j < n)%nat -> core r' j = core r (p j)).
  { intros j Hj. destruct (core r' j) eqn:E1; destruct (core r (p j)) eqn:E2; try reflexivity.
    - pose proof (Mx _ (feasible_pm_inv W k (core r') F') (p j) (perm_lt n p j Hp Hj)) as X. cbv beta in X.
      rewrite (inv_perm_l n p j Hp Hj) in X. specialize (X E1). congruence.
    - pose proof (Mx' _ (feasible_pm c n p Hp W k (core r) F) j Hj E2) as X. congruence. }
  split; [exact Hc|]. split.
  - intros i j Hi Hj. rewrite (HM' i j Hi Hj), (HM (p i) (p j) (perm_lt n p i Hp Hi) (perm_lt n p j Hp Hj)).
    unfold restrictA, pm. rewrite (Hc i Hi), (Hc j Hj). reflexivity.
  - rewrite Hkn', Hkn. unfold card. rewrite <- (count_perm n p (core r) Hp). f_equal.
    apply filter_ext_in. intros j Hj. apply in_seq in Hj. apply Hc. lia.
Qed.
End CoreEquiv2.

Section Routines.
Variables (n : nat) (p : nat -> nat).
Hypothesis Hp : perm_on n p.

Lemma symmetric_pm W : symmetric n W -> symmetric n (pm p W).
Proof. intros H i j Hi Hj. apply H; [apply (perm_lt n p i Hp Hi)|apply (perm_lt n p j Hp Hj)]. Qed.
Lemma nonneg_pm W : nonneg n W -> nonneg n (pm p W).
Proof. intros H i j Hi Hj. apply H; [apply (perm_lt n p i Hp Hi)|apply (perm_lt n p j Hp Hj)]. Qed.

Definition core_outputs_equivariant (r' r : peel_res) : Prop :=
  (forall j, (j < n)%nat -> core r' j = core r (p j)) /\
  (forall i j, (i < n)%nat -> (j < n)%nat -> pr_M r' i j == pr_M r (p i) (p j)) /\
  kn_of n (pr_deg r') = kn_of n (pr_deg r).

Theorem kcore_bu_model_equivariant W k : symmetric n W ->
  exists r' r, kcore_bu n (pm p W) k = Some r' /\ kcore_bu n W k = Some r /\ core_outputs_equivariant r' r.
Proof.
  intros Hs. destruct (kcore_bu_correct n (pm p W) k (symmetric_pm W Hs)) as [r' [E' S']].
  destruct (kcore_bu_correct n W k Hs) as [r [E S]]. exists r', r. split; [exact E'|split; [exact E|]].
  apply (core_spec_equivariant c_bu n p Hp W k r r' S S').
Qed.
Theorem kcore_bd_model_equivariant W k :
  exists r' r, kcore_bd n (pm p W) k = Some r' /\ kcore_bd n W k = Some r /\ core_outputs_equivariant r' r.
Proof.
  destruct (kcore_bd_correct n (pm p W) k) as [r' [E' S']].
  destruct (kcore_bd_correct n W k) as [r [E S]]. exists r', r. split; [exact E'|split; [exact E|]].
  apply (core_spec_equivariant c_bd n p Hp W k r r' S S').
Qed.
Theorem score_wu_model_equivariant W s : symmetric n W -> nonneg n W ->
  exists r' r, score_wu n (pm p W) s = Some r' /\ score_wu n W s = Some r /\ core_outputs_equivariant r' r.
Proof.
  intros Hs Hnn. destruct (score_wu_correct n (pm p W) s (symmetric_pm W Hs) (nonneg_pm W Hnn)) as [r' [E' S']].
  destruct (score_wu_correct n W s Hs Hnn) as [r [E S]]. exists r', r. split; [exact E'|split; [exact E|]].
  apply (core_spec_equivariant c_wu n p Hp W s r r' S S').
Qed.

(* membership in the k-core, as used by the coreness specification *)
Lemma coreb_bu_pm W k j : symmetric n W -> (j < n)%nat -> coreb deg_und n (pm p W) k j = coreb deg_und n W k (p j).
Proof.
  intros Hs Hj. destruct (kcore_bu_model_equivariant W k Hs) as [r' [r [E' [E [Hc _]]]]].
  unfold coreb. unfold kcore_bu in E', E. rewrite E', E. apply Hc. exact Hj.
Qed.
Lemma coreb_bd_pm W k j : (j < n)%nat -> coreb deg_dir n (pm p W) k j = coreb deg_dir n W k (p j).
Proof.
  intros Hj. destruct (kcore_bd_model_equivariant W k) as [r' [r [E' [E [Hc _]]]]].
  unfold coreb. unfold kcore_bd in E', E. rewrite E', E. apply Hc. exact Hj.
Qed.
Lemma card_coreb_pm dg W k : (forall j, (j < n)%nat -> coreb dg n (pm p W) k j = coreb dg n W k (p j)) ->
  card n (coreb dg n (pm p W) k) = card n (coreb dg n W k).
Proof.
  intros H. unfold card. rewrite <- (count_perm n p (coreb dg n W k) Hp). f_equal.
  apply filter_ext_in. intros j Hj. apply in_seq in Hj. apply H. lia.
Qed.

Lemma list_eq_nth (l l' : list nat) : length l = length l' -> (forall i, (i < length l)%nat -> nth i l 0%nat = nth i l' 0%nat) -> l = l'.
Proof. intros HL H. apply (nth_ext l l' 0%nat 0%nat HL H). Qed.

(* kcoreness_centrality_bu on its documented domain (symmetric, non-negative, no self-loops): coreness permuted, the
   k-core sizes kn unchanged *)
Theorem kcoreness_bu_model_equivariant W : symmetric n W -> nonneg n W -> (forall i, (i < n)%nat -> W i i == 0) ->
  exists cor' kn' cor kn, kcoreness_centrality_bu n (pm p W) = Some (cor', kn') /\
    kcoreness_centrality_bu n W = Some (cor, kn) /\
    (forall j, (j < n)%nat -> cor' j = cor (p j)) /\ kn' = kn.
Proof.
  intros Hs Hnn Hd.
  destruct (kcoreness_bu_full n (pm p W) (symmetric_pm W Hs) (nonneg_pm W Hnn)) as [cor' [kn' [E' [L' [K' C']]]]].
  { intros i Hi. apply Hd. apply (perm_lt n p i Hp Hi). }
  destruct (kcoreness_bu_full n W Hs Hnn Hd) as [cor [kn [E [L [K C]]]]].
  exists cor', kn', cor, kn. split; [exact E'|split; [exact E|]]. split.
  - intros j Hj. pose proof (perm_lt n p j Hp Hj) as Hpj.
    assert (X : forall k', (1 <= k')%nat -> ((k' <= cor' j)%nat <-> (k' <= cor (p j))%nat)).
    { intros k' Hk. rewrite <- (C' j Hj k' Hk), <- (C (p j) Hpj k' Hk), (coreb_bu_pm W (qn k') j Hs Hj). tauto. }
    destruct (Nat.eq_dec (cor' j) (cor (p j))) as [e|ne]; [exact e|exfalso].
    destruct (Nat.lt_ge_cases (cor' j) (cor (p j))) as [Hlt|Hge].
    + specialize (X (cor (p j))). lia.
    + specialize (X (cor' j)). lia.
  - apply list_eq_nth; [congruence|]. intros i Hi. rewrite L' in Hi. rewrite (K' i Hi), (K i Hi).
    apply card_coreb_pm. intros j Hj. apply (coreb_bu_pm W (qn i) j Hs Hj).
Qed.

(* kcoreness_centrality_bd (non-negative entries): the scan stops at k = N-1 (C15's open finding about larger k is
   independent of the numbering: both runs are truncated alike) *)
Theorem kcoreness_bd_model_equivariant W : nonneg n W ->
  exists cor' kn' cor kn, kcoreness_centrality_bd n (pm p W) = Some (cor', kn') /\
    kcoreness_centrality_bd n W = Some (cor, kn) /\
    (forall j, (j < n)%nat -> cor' j = cor (p j)) /\ kn' = kn.
Proof.
  intros Hnn.
  destruct (kcoreness_bd_correct n (pm p W) (nonneg_pm W Hnn)) as [cor' [kn' [E' [L' [K' C']]]]].
  destruct (kcoreness_bd_correct n W Hnn) as [cor [kn [E [L [K C]]]]].
  exists cor', kn', cor, kn. split; [exact E'|split; [exact E|]]. split.
  - intros j Hj. pose proof (perm_lt n p j Hp Hj) as Hpj.
    destruct (C' j Hj) as [B' C1]. destruct (C (p j) Hpj) as [B C2].
    assert (X : forall k', (1 <= k')%nat -> (k' < n)%nat -> ((k' <= cor' j)%nat <-> (k' <= cor (p j))%nat)).
    { intros k' Hk Hkn. rewrite <- (C1 k' Hk Hkn), <- (C2 k' Hk Hkn), (coreb_bd_pm W (qn k') j Hj). tauto. }
    destruct (Nat.eq_dec (cor' j) (cor (p j))) as [e|ne]; [exact e|exfalso].
    destruct (Nat.lt_ge_cases (cor' j) (cor (p j))) as [Hlt|Hge].
    + specialize (X (cor (p j))). lia.
    + specialize (X (cor' j)). lia.
  - apply list_eq_nth; [congruence|]. intros i Hi. rewrite L' in Hi. rewrite (K' i Hi), (K i Hi).
    apply card_coreb_pm. intros j Hj. apply (coreb_bd_pm W (qn i) j Hj).
Qed.
End Routines.
