(* Proofs/ModularityQ.v — C02: every closing formula of modularity.py equals the definitional modularity of the
   returned labels (Q-identities for all W, gamma, labels), aggregation preserves Q, given partitions, label ranges. *)
From Coq Require Import QArith Qring Qfield Lia Lqa Arith List Bool ZArith Setoid Morphisms Sorted Permutation.
From BCT Require Import Base.Mat Base.SumQ Base.ListX Model.Modularity Proofs.ModularitySums.
Import ListNotations.
Open Scope Q_scope.

Definition lab_lt (n K : nat) (lb : vec nat) : Prop := forall i, (i < n)%nat -> (lb i < K)%nat.
Definition sym_on (n : nat) (W : mat Q) : Prop := forall i j, (i < n)%nat -> (j < n)%nat -> W i j == W j i.

(* ---------- the core identity ---------- *)
(* trace(w) - g*sum(dot(w,w))/s on the aggregated matrix = sum over same-label pairs of W_ij - g kout_i kin_j / s *)
Lemma closing_raw_agg n K W lb g s : lab_lt n K lb ->
  closing_raw K (agg n W lb) g s ==
  sum2Q (fun i j => (W i j - g * sumQ (fun t => W i t) n * sumQ (fun t => W t j) n / s) * delta lb i j) n.
Proof.
  intros Hl.
  transitivity (sum2Q (fun i j => delta lb i j * W i j) n +
     (- g * / s) * sum2Q (fun i j => delta lb i j * (sumQ (fun t => W i t) n * sumQ (fun t => W t j) n)) n).
  - unfold closing_raw. rewrite trace_spec, (trace_agg n K W lb Hl), sumdot_spec.
    rewrite (pair_outer n K lb (fun i => sumQ (fun t => W i t) n) (fun j => sumQ (fun t => W t j) n) Hl).
    rewrite (sumQ_ext (fun t => sumQ (fun u => agg n W lb u t) K * sumQ (fun v => agg n W lb t v) K)
                      (fun t => msum n lb t (fun i => sumQ (fun t0 => W i t0) n) * msum n lb t (fun j => sumQ (fun t0 => W t0 j) n))).
    + unfold Qdiv. ring.
    + intros t Ht. rewrite agg_colsum, agg_rowsum by exact Hl. ring.
  - rewrite <- sum2Q_scal, <- sum2Q_add. apply sum2Q_ext. intros i j _ _. unfold Qdiv. ring.
Qed.

Lemma sumdot_ext K a a' b b' :
  (forall u t, (u < K)%nat -> (t < K)%nat -> a u t == a' u t) ->
  (forall u t, (u < K)%nat -> (t < K)%nat -> b u t == b' u t) -> sumdot K a b == sumdot K a' b'.
Proof.
  intros Ha Hb. rewrite !sumdot_spec. apply sumQ_ext; intros t Ht.
  rewrite (sumQ_ext (fun u => a u t) (fun u => a' u t)) by (intros; apply Ha; auto).
  rewrite (sumQ_ext (fun v => b t v) (fun v => b' t v)) by (intros; apply Hb; auto). reflexivity.
Qed.

Lemma trace_ext K w w' : (forall u t, (u < K)%nat -> (t < K)%nat -> w u t == w' u t) -> trace K w == trace K w'.
Proof. intros H. rewrite !trace_spec. apply sumQ_ext; intros; apply H; auto. Qed.

Lemma closing_raw_ext K w w' g s : (forall u t, (u < K)%nat -> (t < K)%nat -> w u t == w' u t) ->
  closing_raw K w g s == closing_raw K w' g s.
Proof. intros H. unfold closing_raw. rewrite (trace_ext K w w' H), (sumdot_ext K w w' w w' H H). reflexivity. Qed.

(* trace(w)/s - g*sum(dot(w/s, w/s)) = (trace(w) - g*sum(dot(w,w))/s)/s *)
Lemma closing_closing_raw K w g s : closing K w g s == closing_raw K w g s / s.
Proof.
  unfold closing, closing_raw. rewrite !sumdot_spec.
  rewrite (sumQ_ext (fun t => sumQ (fun u => w u t / s) K * sumQ (fun v => w t v / s) K)
                    (fun t => (sumQ (fun u => w u t) K * sumQ (fun v => w t v) K) * (/ s * / s))).
  - rewrite sumQ_scal_r. unfold Qdiv. ring.
  - intros t Ht. unfold Qdiv. rewrite (sumQ_scal_r (/ s) (fun u => w u t) K), (sumQ_scal_r (/ s) (fun v => w t v) K). ring.
Qed.

Lemma closing_s_comp K w g s s' : s == s' -> closing K w g s == closing K w g s'.
Proof. intros H. rewrite !closing_closing_raw. unfold closing_raw. rewrite H. reflexivity. Qed.

Lemma closing_ext K w w' g s : (forall u t, (u < K)%nat -> (t < K)%nat -> w u t == w' u t) ->
  closing K w g s == closing K w' g s.
Proof. intros H. rewrite !closing_closing_raw, (closing_raw_ext K w w' g s H). reflexivity. Qed.

(* ---------- definitional Q in sumQ form ---------- *)
Lemma Qdir_spec n W g lb :
  Qdir n W g lb == (1 / stot n W) *
    sum2Q (fun i j => (W i j - g * sumQ (fun t => W i t) n * sumQ (fun t => W t j) n / stot n W) * delta lb i j) n.
Proof.
  unfold Qdir. cbv zeta. apply Qmult_comp; [reflexivity|].
  apply sum2R_ext_Q. intros i j _ _. rewrite rowsum_spec, colsum_spec. reflexivity.
Qed.

Lemma Qhalf_spec n W g s lb :
  Qhalf n W g s lb ==
    sum2Q (fun i j => (W i j - g * sumQ (fun t => W i t) n * sumQ (fun t => W t j) n / s) * delta lb i j) n.
Proof. unfold Qhalf. apply sum2R_ext_Q. intros i j _ _. rewrite rowsum_spec, colsum_spec. reflexivity. Qed.

Lemma Qdir_Qhalf n W g lb : Qdir n W g lb == (1 / stot n W) * Qhalf n W g (stot n W) lb.
Proof. rewrite Qdir_spec, Qhalf_spec. reflexivity. Qed.

Lemma Qund_spec n W g lb :
  Qund n W g lb == (1 / stot n W) *
    sum2Q (fun i j => (W i j - g * sumQ (fun t => W t i) n * sumQ (fun t => W t j) n / stot n W) * delta lb i j) n.
Proof.
  unfold Qund. cbv zeta. apply Qmult_comp; [reflexivity|].
  apply sum2R_ext_Q. intros i j _ _. rewrite !colsum_spec. reflexivity.
Qed.

Lemma sym_rowcol n W i : sym_on n W -> (i < n)%nat -> sumQ (fun t => W t i) n == sumQ (fun t => W i t) n.
Proof. intros Hs Hi. apply sumQ_ext; intros t Ht. apply Hs; auto. Qed.

Lemma Qund_Qdir n W g lb : sym_on n W -> Qund n W g lb == Qdir n W g lb.
Proof.
  intros Hs. rewrite Qund_spec, Qdir_spec. apply Qmult_comp; [reflexivity|].
  apply sum2Q_ext; intros i j Hi Hj. rewrite (sym_rowcol n W i Hs Hi). reflexivity.
Qed.

(* ---------- closing formula = definitional Q ---------- *)
(* modularity_finetune_dir, every level of modularity_louvain_dir's formula: for ALL W, gamma, labels *)
Theorem q_closing_dir_eq_def n K W g lb : lab_lt n K lb ->
  closing K (agg n W lb) g (stot n W) == Qdir n W g lb.
Proof.
  intros Hl. rewrite closing_closing_raw, (closing_raw_agg n K W lb g (stot n W) Hl), Qdir_spec.
  unfold Qdiv. ring.
Qed.

Lemma agg_upper_sym n W lb a b : sym_on n W -> agg_upper n W lb a b == agg n W lb a b.
Proof. intros Hs. unfold agg_upper. destruct (Nat.leb a b); [reflexivity|]. apply agg_sym; exact Hs. Qed.
Lemma agg_lower_sym n W lb a b : sym_on n W -> agg_lower n W lb a b == agg n W lb a b.
Proof. intros Hs. unfold agg_lower. destruct (Nat.leb b a); [reflexivity|]. apply agg_sym; exact Hs. Qed.

(* modularity_finetune_und (w filled from the lower blocks) and modularity_louvain_und (upper blocks), W symmetric *)
Theorem q_closing_und_eq_def n K W g lb : lab_lt n K lb -> sym_on n W ->
  closing K (agg_lower n W lb) g (stot n W) == Qund n W g lb /\
  closing K (agg_upper n W lb) g (stot n W) == Qund n W g lb.
Proof.
  intros Hl Hs. rewrite (Qund_Qdir n W g lb Hs), <- (q_closing_dir_eq_def n K W g lb Hl). split.
  - apply closing_ext. intros; apply agg_lower_sym; exact Hs.
  - apply closing_ext. intros; apply agg_upper_sym; exact Hs.
Qed.

(* signed, finetune / probtune / modularity_und_sign: (W0 - g*outer(Kn0,Kn0)/s0)*(m == m.T) summed *)
Lemma closing_outer_eq_Qhalf n W0 kn g s0 lb : sym_on n W0 ->
  (forall i, (i < n)%nat -> kn i == sumQ (fun t => W0 i t) n) ->
  closing_outer n W0 kn g s0 lb == Qhalf n W0 g s0 lb.
Proof.
  intros Hs Hk. rewrite Qhalf_spec. unfold closing_outer. apply sum2R_ext_Q. intros i j Hi Hj.
  rewrite (Hk i Hi), (Hk j Hj). rewrite (sym_rowcol n W0 j Hs Hj). unfold Qdiv. ring.
Qed.

(* signed, every level of modularity_louvain_und_sign: trace(W0) - g*sum(dot(W0,W0))/s0 on the aggregated matrices *)
Theorem q_closing_louvain_sign_eq_def n K W0 W1 g s0 s1 d0 d1 lb : lab_lt n K lb ->
  d0 * closing_raw K (agg n W0 lb) g s0 - d1 * closing_raw K (agg n W1 lb) g s1 ==
  d0 * Qhalf n W0 g s0 lb - d1 * Qhalf n W1 g s1 lb.
Proof.
  intros Hl. rewrite !closing_raw_agg by exact Hl. rewrite !Qhalf_spec. reflexivity.
Qed.

(* --- the signed parameters are invariant under tabulation --- *)
Lemma stot_ext n A A' : (forall i j, (i < n)%nat -> (j < n)%nat -> A i j == A' i j) -> stot n A == stot n A'.
Proof. intros H. rewrite !stot_spec. apply sum2Q_ext; exact H. Qed.

Lemma adj_comp s s' : s == s' -> adj s == adj s'.
Proof. intros H. unfold adj. rewrite H. destruct (Qeq_bool s' 0); [reflexivity|exact H]. Qed.

Lemma sign_d0_comp qt a a' b b' : a == a' -> b == b' -> sign_d0 qt a b == sign_d0 qt a' b'.
Proof. intros Ha Hb. unfold sign_d0. rewrite Ha. destruct (Qeq_bool a' 0); [reflexivity|]. destruct qt; rewrite ?Ha, ?Hb; reflexivity. Qed.
Lemma sign_d1_comp qt a a' b b' : a == a' -> b == b' -> sign_d1 qt a b == sign_d1 qt a' b'.
Proof. intros Ha Hb. unfold sign_d1. rewrite Hb. destruct (Qeq_bool b' 0); [reflexivity|]. destruct qt; rewrite ?Ha, ?Hb; reflexivity. Qed.

Lemma Qltb_comp a a' b b' : a == a' -> b == b' -> Qltb a b = Qltb a' b'.
Proof. intros Ha Hb. unfold Qltb. rewrite Ha, Hb. reflexivity. Qed.
Lemma pospart_sym n W : sym_on n W -> sym_on n (pospart W).
Proof. intros Hs i j Hi Hj. unfold pospart. rewrite (Qltb_comp 0 0 (W i j) (W j i)) by (try reflexivity; apply Hs; auto).
  destruct (Qltb 0 (W j i)); [apply Hs; auto|reflexivity]. Qed.
Lemma negpart_sym n W : sym_on n W -> sym_on n (negpart W).
Proof. intros Hs i j Hi Hj. unfold negpart. rewrite (Qltb_comp (W i j) (W j i) 0 0) by (try reflexivity; apply Hs; auto).
  destruct (Qltb (W j i) 0); [rewrite (Hs i j Hi Hj); reflexivity|reflexivity]. Qed.

Lemma Qhalf_ext n W W' g s s' lb : (forall i j, (i < n)%nat -> (j < n)%nat -> W i j == W' i j) -> s == s' ->
  Qhalf n W g s lb == Qhalf n W' g s' lb.
Proof.
  intros H Hs. rewrite !Qhalf_spec. apply sum2Q_ext; intros i j Hi Hj.
  rewrite (H i j Hi Hj), Hs.
  rewrite (sumQ_ext (fun t => W i t) (fun t => W' i t)) by (intros; apply H; auto).
  rewrite (sumQ_ext (fun t => W t j) (fun t => W' t j)) by (intros; apply H; auto). reflexivity.
Qed.

(* node degrees as the code computes them: Kn = np.sum(Knm, axis=1) with Knm[:,m] = sum(W0[:, ci == m+1], axis=1) *)
Lemma rowsum_knm_of n M lb i : lab_lt n n lb ->
  sumQ (fun t => knm_of n M lb i t) n == sumQ (fun j => M i j) n.
Proof.
  intros Hl. rewrite (sumQ_ext _ (fun t => msum n lb t (fun j => M i j))) by (intros; apply knm_of_spec).
  apply msum_total; exact Hl.
Qed.

Theorem q_closing_sign_eq_def n W g qt lb : lab_lt n n lb -> sym_on n W ->
  let p := sign_params n W qt in
  let kn := snd (sign_init n p lb) in
  sign_closing n p (fst kn) (snd kn) g lb == Qsign n W g qt lb.
Proof.
  intros Hl Hs p kn. unfold sign_closing, Qsign. cbv zeta.
  assert (H0 : forall i j, (i < n)%nat -> (j < n)%nat -> sW0 p i j == pospart W i j) by (intros; apply tabQ_spec; auto).
  assert (H1 : forall i j, (i < n)%nat -> (j < n)%nat -> sW1 p i j == negpart W i j) by (intros; apply tabQ_spec; auto).
  assert (Hs0 : sym_on n (sW0 p)).
  { intros i j Hi Hj. rewrite (H0 i j Hi Hj), (H0 j i Hj Hi). exact (pospart_sym n W Hs i j Hi Hj). }
  assert (Hs1 : sym_on n (sW1 p)).
  { intros i j Hi Hj. rewrite (H1 i j Hi Hj), (H1 j i Hj Hi). exact (negpart_sym n W Hs i j Hi Hj). }
  assert (E0 : stot n (sW0 p) == stot n (pospart W)) by (apply stot_ext; exact H0).
  assert (E1 : stot n (sW1 p) == stot n (negpart W)) by (apply stot_ext; exact H1).
  rewrite (closing_outer_eq_Qhalf n (sW0 p) (fst kn) g (ss0 p) lb Hs0).
  2:{ intros i Hi. subst kn. unfold sign_init. cbn [fst snd]. rewrite tabvQ_spec by exact Hi. rewrite rowsum_spec.
      rewrite (sumQ_ext _ (fun t => knm_of n (sW0 p) lb i t)) by (intros; apply tabQ_spec; auto).
      apply rowsum_knm_of; exact Hl. }
  rewrite (closing_outer_eq_Qhalf n (sW1 p) (snd kn) g (ss1 p) lb Hs1).
  2:{ intros i Hi. subst kn. unfold sign_init. cbn [fst snd]. rewrite tabvQ_spec by exact Hi. rewrite rowsum_spec.
      rewrite (sumQ_ext _ (fun t => knm_of n (sW1 p) lb i t)) by (intros; apply tabQ_spec; auto).
      apply rowsum_knm_of; exact Hl. }
  subst p. unfold sign_params. cbn [sW0 sW1 ss0 ss1 sd0 sd1].
  rewrite (Qhalf_ext n _ (pospart W) g _ (adj (stot n (pospart W))) lb H0 (adj_comp _ _ E0)).
  rewrite (Qhalf_ext n _ (negpart W) g _ (adj (stot n (negpart W))) lb H1 (adj_comp _ _ E1)).
  rewrite (sign_d0_comp qt _ _ _ _ E0 E1), (sign_d1_comp qt _ _ _ _ E0 E1). reflexivity.
Qed.

(* community_louvain: q = trace(B) of the aggregated objective = sum of B over same-label pairs *)
Lemma obj_spec n B lb : obj n B lb == sum2Q (fun i j => delta lb i j * B i j) n.
Proof. unfold obj. apply sum2R_sum2Q. Qed.

Theorem q_closing_louvainB_eq_def n K B lb : lab_lt n K lb ->
  trace K (agg n B lb) == obj n B lb /\
  (sym_on n B -> trace K (agg_upper n B lb) == obj n B lb).
Proof.
  intros Hl. split.
  - rewrite trace_spec, obj_spec. apply trace_agg; exact Hl.
  - intros Hs. rewrite (trace_ext K _ (agg n B lb)) by (intros; apply agg_upper_sym; exact Hs).
    rewrite trace_spec, obj_spec. apply trace_agg; exact Hl.
Qed.

(* B = (B + B.T)/2 does not change the objective *)
Lemma obj_symmetrise n B lb : obj n (fun i j => (B i j + B j i) / 2) lb == obj n B lb.
Proof.
  rewrite !obj_spec.
  rewrite (sum2Q_ext _ (fun i j => (1 # 2) * (delta lb i j * B i j) + (1 # 2) * (delta lb j i * B j i))).
  2:{ intros i j _ _. rewrite (delta_sym lb j i). unfold Qdiv. change (/ 2) with (1 # 2). ring. }
  rewrite sum2Q_add, !sum2Q_scal.
  rewrite (sum2Q_transpose (fun i j => delta lb i j * B i j) n). ring.
Qed.

(* with the built-in 'modularity' objective the returned q/s is the (directed) modularity *)
Theorem louvainB_modularity n W g lb :
  obj n (B_builtin 0 n W g) lb / stot n W == Qdir n W g lb.
Proof.
  unfold B_builtin. rewrite obj_symmetrise. rewrite obj_spec, Qdir_spec.
  unfold B_modularity. cbv zeta.
  rewrite (sum2Q_ext _ (fun i j => (W i j - g * sumQ (fun t => W i t) n * sumQ (fun t => W t j) n / stot n W) * delta lb i j)).
  - unfold Qdiv. ring.
  - intros i j _ _. rewrite rowsum_spec, colsum_spec. unfold Qdiv. ring.
Qed.

Theorem louvainB_potts n W g lb : obj n (B_builtin 1 n W g) lb / stot n W == Qpotts n W g lb.
Proof.
  unfold B_builtin. rewrite obj_symmetrise. rewrite obj_spec. unfold Qpotts.
  rewrite sum2R_sum2Q. unfold B_potts.
  rewrite (sum2Q_ext (fun i j => delta lb i j * (W i j - g * (if Qeq_bool (W i j) 0 then 1 else 0)))
                     (fun i j => (W i j - g * (if Qeq_bool (W i j) 0 then 1 else 0)) * delta lb i j)) by (intros; ring).
  unfold Qdiv. ring.
Qed.

(* ---------- aggregation preserves Q: every hierarchy level is a consistent pair ---------- *)
Lemma lab_lt_comp n K K2 lb1 lb2 : lab_lt n K lb1 -> lab_lt K K2 lb2 -> lab_lt n K2 (fun i => lb2 (lb1 i)).
Proof. intros H1 H2 i Hi. apply H2. apply H1. exact Hi. Qed.

Lemma stot_agg n K W lb : lab_lt n K lb -> stot K (agg n W lb) == stot n W.
Proof. intros Hl. rewrite !stot_spec. apply agg_total; exact Hl. Qed.

Theorem aggregate_preserves_Q n K K2 W g lb1 lb2 : lab_lt n K lb1 -> lab_lt K K2 lb2 ->
  Qdir K (agg n W lb1) g lb2 == Qdir n W g (fun i => lb2 (lb1 i)).
Proof.
  intros H1 H2.
  rewrite <- (q_closing_dir_eq_def K K2 (agg n W lb1) g lb2 H2).
  rewrite <- (q_closing_dir_eq_def n K2 W g _ (lab_lt_comp n K K2 lb1 lb2 H1 H2)).
  transitivity (closing K2 (agg K (agg n W lb1) lb2) g (stot n W)).
  - apply closing_s_comp. apply stot_agg; exact H1.
  - apply closing_ext. intros u t _ _. apply agg_compose; exact H1.
Qed.

Theorem aggregate_preserves_Qhalf n K K2 W g s lb1 lb2 : lab_lt n K lb1 -> lab_lt K K2 lb2 ->
  Qhalf K (agg n W lb1) g s lb2 == Qhalf n W g s (fun i => lb2 (lb1 i)).
Proof.
  intros H1 H2. rewrite !Qhalf_spec.
  rewrite <- (closing_raw_agg K K2 (agg n W lb1) lb2 g s H2).
  rewrite <- (closing_raw_agg n K2 W _ g s (lab_lt_comp n K K2 lb1 lb2 H1 H2)).
  apply closing_raw_ext. intros u t _ _. apply agg_compose; exact H1.
Qed.

Theorem aggregate_preserves_obj n K K2 B lb1 lb2 : lab_lt n K lb1 -> lab_lt K K2 lb2 ->
  obj K (agg n B lb1) lb2 == obj n B (fun i => lb2 (lb1 i)).
Proof.
  intros H1 H2. rewrite !obj_spec.
  rewrite <- (trace_agg K K2 (agg n B lb1) lb2 H2).
  rewrite <- (trace_agg n K2 B _ (lab_lt_comp n K K2 lb1 lb2 H1 H2)).
  apply sumQ_ext; intros t Ht. apply agg_compose; exact H1.
Qed.

(* the pair (labels of level h, q[h]) the Louvain loop emits: q[h] is computed on the matrix aggregated twice *)
Corollary level_pair_consistent n K K2 W g lb1 lb2 : lab_lt n K lb1 -> lab_lt K K2 lb2 ->
  closing K2 (agg K (agg n W lb1) lb2) g (stot n W) == Qdir n W g (fun i => lb2 (lb1 i)).
Proof.
  intros H1 H2. rewrite <- (aggregate_preserves_Q n K K2 W g lb1 lb2 H1 H2).
  rewrite <- (q_closing_dir_eq_def K K2 (agg n W lb1) g lb2 H2).
  apply closing_s_comp. symmetry. apply stot_agg; exact H1.
Qed.

(* Q depends on the partition only (so relabelling 1..k does not change it) *)
Lemma delta_same_partition n lb lb' : (forall i j, (i < n)%nat -> (j < n)%nat -> (lb i = lb j <-> lb' i = lb' j)) ->
  forall i j, (i < n)%nat -> (j < n)%nat -> delta lb i j = delta lb' i j.
Proof.
  intros H i j Hi Hj. unfold delta, is_. specialize (H i j Hi Hj).
  destruct (Nat.eqb_spec (lb i) (lb j)), (Nat.eqb_spec (lb' i) (lb' j)); try reflexivity; exfalso; tauto.
Qed.

Theorem obj_partition_invariant n B lb lb' :
  (forall i j, (i < n)%nat -> (j < n)%nat -> (lb i = lb j <-> lb' i = lb' j)) -> obj n B lb == obj n B lb'.
Proof.
  intros H. rewrite !obj_spec. apply sum2Q_ext; intros i j Hi Hj.
  rewrite (delta_same_partition n lb lb' H i j Hi Hj). reflexivity.
Qed.

Theorem Qdir_partition_invariant n W g lb lb' :
  (forall i j, (i < n)%nat -> (j < n)%nat -> (lb i = lb j <-> lb' i = lb' j)) -> Qdir n W g lb == Qdir n W g lb'.
Proof.
  intros H. rewrite !Qdir_spec. apply Qmult_comp; [reflexivity|]. apply sum2Q_ext; intros i j Hi Hj.
  rewrite (delta_same_partition n lb lb' H i j Hi Hj). reflexivity.
Qed.

(* ---------- given partition ---------- *)
Lemma total_colsum n A : sumR (colsum n A) n == stot n A.
Proof.
  rewrite sumR_sumQ, stot_spec. unfold sum2Q.
  rewrite (sumQ_ext _ (fun t => sumQ (fun i => A i t) n)) by (intros; apply colsum_spec).
  apply sumQ_fubini.
Qed.

Theorem given_partition_returns_Q_und n A g lb : given_und n A g lb == Qund n A g lb.
Proof.
  unfold given_und. cbv zeta. rewrite Qund_spec.
  rewrite (sum2R_ext_Q _ (fun i j => (1 / stot n A) *
     ((A i j - g * sumQ (fun t => A t i) n * sumQ (fun t => A t j) n / stot n A) * delta lb i j))).
  - apply sum2Q_scal.
  - intros i j _ _. rewrite total_colsum, !colsum_spec. unfold Qdiv. ring.
Qed.

Theorem given_partition_returns_Q_dir n A g lb : given_dir n A g lb == Qdir n A g lb.
Proof.
  unfold given_dir. cbv zeta. rewrite Qdir_spec.
  pose (b := fun i j => A i j - g * sumQ (fun t => A i t) n * sumQ (fun t => A t j) n / stot n A).
  change (sum2Q (fun i j => (A i j - g * sumQ (fun t => A i t) n * sumQ (fun t => A t j) n / stot n A) * delta lb i j) n)
    with (sum2Q (fun i j => b i j * delta lb i j) n).
  rewrite (sum2R_ext_Q _ (fun i j => ((1 # 2) * / stot n A) * (delta lb i j * b i j) +
                                    ((1 # 2) * / stot n A) * (delta lb j i * b j i))).
  - rewrite sum2Q_add, !sum2Q_scal. rewrite (sum2Q_transpose (fun i j => delta lb i j * b i j) n).
    rewrite (sum2Q_ext (fun i j => b i j * delta lb i j) (fun i j => delta lb i j * b i j)) by (intros; ring).
    unfold Qdiv. ring.
  - intros i j _ _. rewrite total_colsum, !colsum_spec, !rowsum_spec. rewrite (delta_sym lb j i). subst b. cbv beta.
    unfold Qdiv. rewrite Qinv_mult_distr. change (/ 2) with (1 # 2). ring.
Qed.

(* modularity_und_sign(W, ci, qtype): the closing formula of the signed routines with gamma = 1 *)
Theorem given_partition_returns_Q_sign n W qt lb : lab_lt n n lb -> sym_on n W ->
  let p := sign_params n W qt in
  let kn := snd (sign_init n p lb) in
  sign_closing n p (fst kn) (snd kn) 1 lb == Qsign n W 1 qt lb.
Proof. apply q_closing_sign_eq_def. Qed.

(* ---------- ls2ci on the output of the bisection: labels are exactly 1..k for EVERY oracle ---------- *)
Definition good_split (split : list nat -> option (list nat * list nat)) : Prop :=
  forall md m1 m2, split md = Some (m1, m2) -> m1 <> [] /\ m2 <> [] /\ Permutation (m1 ++ m2) md.

Lemma bisect_blocks fuel split md : good_split split -> md <> [] ->
  Forall (fun b => b <> []) (bisect fuel split md) /\ Permutation (concat (bisect fuel split md)) md.
Proof.
  intros Hg. revert md. induction fuel as [|f IH]; intros md Hne; cbn [bisect].
  - split; [constructor; [exact Hne|constructor]|cbn; rewrite app_nil_r; reflexivity].
  - destruct (split md) as [[m1 m2]|] eqn:E.
    + destruct (Hg md m1 m2 E) as (N1 & N2 & P).
      destruct (IH m1 N1) as [F1 P1], (IH m2 N2) as [F2 P2]. split.
      * apply Forall_app; split; assumption.
      * rewrite concat_app. rewrite P1, P2. exact P.
    + split; [constructor; [exact Hne|constructor]|cbn; rewrite app_nil_r; reflexivity].
Qed.

Lemma ls2ci_from_notin ls i ci x : (forall b, In b ls -> ~ In x b) -> ls2ci_from i ls ci x = ci x.
Proof.
  revert i ci. induction ls as [|b r IH]; intros i ci H; cbn [ls2ci_from]; [reflexivity|].
  rewrite IH by (intros b' Hb'; apply H; right; exact Hb').
  destruct (nmem x b) eqn:E; [|reflexivity]. apply nmem_In in E. exfalso. apply (H b); [left; reflexivity|exact E].
Qed.

Lemma ls2ci_from_in ls i ci x j : NoDup (concat ls) -> (j < length ls)%nat -> In x (nth j ls []) ->
  ls2ci_from i ls ci x = S (i + j).
Proof.
  revert i ci j. induction ls as [|b r IH]; intros i ci j Hnd Hj Hin; cbn [length] in Hj; [lia|].
  cbn [concat] in Hnd. apply NoDup_app_inv in Hnd. destruct Hnd as (Hb & Hr & Hdis).
  cbn [ls2ci_from]. destruct j as [|j]; cbn [nth] in Hin.
  - rewrite ls2ci_from_notin.
    + apply nmem_In in Hin. rewrite Hin. f_equal. lia.
    + intros b' Hb' Hx. apply (Hdis x Hin). apply in_concat. exists b'. split; assumption.
  - rewrite (IH (S i) _ j Hr) by (try lia; exact Hin). f_equal. lia.
Qed.

Theorem ls2ci_labels n ls : Forall (fun b => b <> []) ls -> Permutation (concat ls) (seq 0 n) ->
  (forall x, (x < n)%nat -> (1 <= ls2ci ls x <= length ls)%nat) /\
  (forall l, (1 <= l <= length ls)%nat -> exists x, (x < n)%nat /\ ls2ci ls x = l).
Proof.
  intros Hne Hp.
  assert (Hnd : NoDup (concat ls)) by (apply (Permutation_NoDup (Permutation_sym Hp)), seq_NoDup).
  split.
  - intros x Hx. assert (Hin : In x (concat ls)) by (apply (Permutation_in _ (Permutation_sym Hp)), in_seq; lia).
    apply in_concat in Hin. destruct Hin as [b [Hb Hxb]]. apply (In_nth _ _ []) in Hb. destruct Hb as [j [Hj E]].
    unfold ls2ci. rewrite (ls2ci_from_in ls 0 _ x j Hnd Hj) by (rewrite E; exact Hxb). lia.
  - intros l Hl. rewrite Forall_forall in Hne.
    assert (Hb : In (nth (l - 1) ls []) ls) by (apply nth_In; lia).
    specialize (Hne _ Hb). destruct (nth (l - 1) ls []) as [|x r] eqn:E; [congruence|].
    assert (Hx : In x (concat ls)). { apply in_concat. exists (x :: r). split; [exact Hb|left; reflexivity]. }
    apply (Permutation_in _ Hp) in Hx. apply in_seq in Hx. exists x. split; [lia|].
    unfold ls2ci. rewrite (ls2ci_from_in ls 0 _ x (l - 1) Hnd) by (try lia; rewrite E; left; reflexivity). lia.
Qed.

(* modularity_und / modularity_dir without kci: whatever the eigen-solver decides (any good oracle, any fuel), the result is
   labelled exactly 1..k and the closing statement returns the definitional Q of that labelling.
   PARTIAL: the oracle (LAPACK eig + fine-tuning sweep) is not modelled; nothing is claimed about WHICH partition. *)
Theorem spectral_labels_partial n fuel split : good_split split -> (0 < n)%nat ->
  let ls := bisect fuel split (seq 0 n) in
  (forall x, (x < n)%nat -> (1 <= ls2ci ls x <= length ls)%nat) /\
  (forall l, (1 <= l <= length ls)%nat -> exists x, (x < n)%nat /\ ls2ci ls x = l) /\
  (forall A g, given_und n A g (ls2ci ls) == Qund n A g (ls2ci ls)) /\
  (forall A g, given_dir n A g (ls2ci ls) == Qdir n A g (ls2ci ls)).
Proof.
  intros Hg Hn ls.
  assert (Hne : seq 0 n <> []) by (destruct n; [lia|discriminate]).
  destruct (bisect_blocks fuel split (seq 0 n) Hg Hne) as [F P]. fold ls in F, P.
  destruct (ls2ci_labels n ls F P) as [R1 R2].
  split; [exact R1|]. split; [exact R2|]. split; intros; [apply given_partition_returns_Q_und|apply given_partition_returns_Q_dir].
Qed.

(* ---------- modularity_louvain_dir AS IT IS: the returned q is not the modularity of the returned partition ---------- *)
Definition all_gains_pos (r : result_t) : bool :=
  forallb (fun lv : level_t => forallb (fun m => Qltb 0 (fst m)) (fst lv)) (fst r).
Definition ret_q (r : result_t) : Q := fst (snd (snd r)).
Definition ret_qdef (r : result_t) : Q := fst (snd (snd (snd r))).
Definition ret_qstart (r : result_t) : Q := snd (snd (snd (snd r))).
(* the statement that holds for the other routines and FAILS here *)
Definition louvain_dir_q_full_statement : Prop :=
  forall rows g lv, let r := run_louvain_dir rows g lv in all_gains_pos r = true -> ret_q r == ret_qdef r.

(* witness: W = [[0,1,2],[0,0,2],[0,1,0]], gamma = 1, the move sequence recorded from the implementation (seed 914):
   three levels, every replayed gain positive, returned q = 5/36, definitional Q of the returned labels (1,1,1) = 0 *)
Lemma louvain_dir_q_refuted : ~ louvain_dir_q_full_statement.
Proof.
  intros H.
  specialize (H [[0; 1; 2]; [0; 0; 2]; [0; 1; 0]] 1 [[(2, 1); (0, 2)]; [(0, 2); (1, 2)]; [(0, 2)]]%nat).
  vm_compute in H. specialize (H eq_refl). discriminate H.
Qed.

(* ---------- end to end: the executable run functions return a q that IS the definitional Q of the returned labels ---------- *)
Lemma final_lab_lt n lb : lab_lt n (nlab n (zlab lb)) (tabv O n (relabel0 n (zlab lb))).
Proof. intros i Hi. rewrite tabv_spec by exact Hi. apply relabel0_lt; exact Hi. Qed.

(* modularity_finetune_dir: for EVERY matrix, gamma, initial labels and recorded move list (no side condition) *)
Theorem run_finetune_dir_consistent rows g ci moves :
  let r := run_finetune_dir rows g ci moves in ret_q r = ret_qdef r.
Proof.
  unfold run_finetune_dir. cbv zeta.
  destruct (finetune_dir_init (length rows) (of_rows 0 rows) (init_lab (length rows) ci)) as [st0 [ko ki]].
  destruct (replay _ _ st0 moves) as [tr st].
  unfold ret_q, ret_qdef. cbn [fst snd]. apply Qred_complete.
  rewrite (closing_ext _ _ (agg (length rows) (of_rows 0 rows) (tabv O (length rows) (relabel0 (length rows) (zlab (lab st))))))
    by (intros; apply tabQ_spec; assumption).
  apply q_closing_dir_eq_def. apply final_lab_lt.
Qed.

(* modularity_finetune_und: for every SYMMETRIC matrix *)
Theorem run_finetune_und_consistent rows g ci moves :
  sym_on (length rows) (of_rows 0 rows) ->
  let r := run_finetune_und rows g ci moves in ret_q r = ret_qdef r.
Proof.
  intros Hsym. unfold run_finetune_und. cbv zeta.
  destruct (finetune_und_init (length rows) (of_rows 0 rows) (init_lab (length rows) ci)) as [st0 k].
  destruct (replay _ _ st0 moves) as [tr st].
  unfold ret_q, ret_qdef. cbn [fst snd]. apply Qred_complete.
  rewrite (closing_ext _ _ (agg_lower (length rows) (of_rows 0 rows) (tabv O (length rows) (relabel0 (length rows) (zlab (lab st))))))
    by (intros; apply tabQ_spec; assumption).
  apply (q_closing_und_eq_def _ _ _ g _ (final_lab_lt (length rows) (lab st)) Hsym).
Qed.
