(* Proofs/CoreFull.v — C15, second layer over Proofs/Core.v:
   (1) the `peel` argument and the two return shapes of kcore_bu / kcore_bd (and score_wu = flag-off loop),
       the default 2-tuple path used by kcoreness_centrality_*;
   (2) every peel round removes EXACTLY the nodes with 0 < deg < k of the current sub-network (the anchor mechanism);
   (3) nestedness / peel-once / rounds instantiated for the three routines (closed statements, no generic hypotheses);
   (4) kcoreness_centrality_bu composed into one statement about the routine on its real input, for every k,
       and what the symmetrisation branch does on asymmetric input. *)
From Coq Require Import QArith Qring Lia Lqa Arith List Bool ZArith.
From BCT Require Import Base.Mat Base.SumQ Base.ListX Model.Core Proofs.Core.
Import ListNotations.
Open Scope Q_scope.

(* ================= (1) the peel flag ================= *)
Lemma peel_loop_f_true dg fuel n k : forall M it po pl,
  peel_loop_f true dg fuel n k M it po pl = peel_loop dg fuel n k M it po pl.
Proof.
  induction fuel as [|f IH]; intros M it po pl; cbn [peel_loop_f peel_loop]; [reflexivity|].
  destruct (peel_ff n (tabv 0 n (dg n M)) k) as [|x ff]; [reflexivity|]. apply IH.
Qed.

(* without the flag the loop is the same loop; only the two lists are not there *)
Definition with_lists (po pl : list (list nat)) (r : peel_res) : peel_res :=
  mk_peel_res (pr_M r) (pr_deg r) (pr_iter r) po pl.

Lemma peel_loop_f_false dg fuel n k : forall M it po pl po' pl',
  peel_loop_f false dg fuel n k M it po' pl' = option_map (with_lists po' pl') (peel_loop dg fuel n k M it po pl).
Proof.
  induction fuel as [|f IH]; intros M it po pl po' pl'; cbn [peel_loop_f peel_loop]; [reflexivity|].
  destruct (peel_ff n (tabv 0 n (dg n M)) k) as [|x ff]; [reflexivity|]. apply IH.
Qed.

(* the routine as called, in one equation: same matrix and kn whatever the flag; order/level only under the flag *)
Theorem peel_py_spec dg n W k b :
  peel_py dg n W k b =
  match peel dg n W k with
  | None => None
  | Some r => Some (pr_M r, kn_of n (pr_deg r), if b then Some (pr_order r, pr_level r) else None)
  end.
Proof.
  unfold peel_py, peel. destruct b.
  - rewrite peel_loop_f_true. reflexivity.
  - rewrite (peel_loop_f_false dg (S n) n k W 0%nat [] [] [] []).
    destruct (peel_loop dg (S n) n k W 0%nat [] []); reflexivity.
Qed.

Lemma kcoreness_loop_py_eq (core : Q -> option peel_res) (corepy : Q -> option kcore_ret) ss n :
  (forall k, corepy k = match core k with None => None | Some r => Some (pr_M r, kn_of n (pr_deg r), None) end) ->
  forall m, kcoreness_loop_py corepy ss n m = kcoreness_loop core ss n m.
Proof.
  intros H. induction m as [|m IH]; cbn [kcoreness_loop_py kcoreness_loop]; [reflexivity|].
  rewrite IH, H. destruct (kcoreness_loop core ss n m) as [[cor kn]|]; [|reflexivity].
  destruct (core (inject_Z (Z.of_nat m))); reflexivity.
Qed.

(* kcoreness_centrality_* through the default (peel=False, 2-tuple) path = the model the theorems are about *)
Theorem kcoreness_bu_py_eq n W : kcoreness_centrality_bu_py n W = kcoreness_centrality_bu n W.
Proof.
  unfold kcoreness_centrality_bu_py, kcoreness_centrality_bu. apply kcoreness_loop_py_eq.
  intros k. unfold kcore_bu_py, kcore_bu. rewrite peel_py_spec. reflexivity.
Qed.
Theorem kcoreness_bd_py_eq n W : kcoreness_centrality_bd_py n W = kcoreness_centrality_bd n W.
Proof.
  unfold kcoreness_centrality_bd_py, kcoreness_centrality_bd. apply kcoreness_loop_py_eq.
  intros k. unfold kcore_bd_py, kcore_bd. rewrite peel_py_spec. reflexivity.
Qed.

(* ================= (2) rounds, (3) generic forms ================= *)
(* the nodes with 0 < degree < k inside the node set A, in ascending order (np.where) *)
Definition violators (c : Q -> Q -> Q) (n : nat) (W : mat Q) (k : Q) (A : nat -> bool) : list nat :=
  filter (fun j => qltb (din c n W A j) k && qltb 0 (din c n W A j)) (seq 0 n).

Lemma card_ext n A B : (forall j, (j < n)%nat -> A j = B j) -> card n A = card n B.
Proof.
  intros H. unfold card. f_equal. apply filter_ext_in. intros j Hj. apply in_seq in Hj. apply H. lia.
Qed.

Section Rounds.
Variable c : Q -> Q -> Q.
Hypothesis c_proper : forall a a' b b', a == a' -> b == b' -> c a b == c a' b'.
Hypothesis c00 : c 0 0 == 0.
Variable dg : nat -> mat Q -> vec Q.
Hypothesis dg_spec : forall n M j, dg n M j == dgc c n M j.
Variables (n : nat) (W : mat Q) (k : Q).

Lemma peel_ff_ext d d' : (forall j, (j < n)%nat -> d j == d' j) -> peel_ff n d k = peel_ff n d' k.
Proof.
  intros H. unfold peel_ff. apply filter_ext_in. intros j Hj. apply in_seq in Hj.
  assert (Hj' : (j < n)%nat) by lia.
  rewrite (qltb_proper (d j) (d' j) k k (H j Hj') (Qeq_refl k)).
  rewrite (qltb_proper 0 0 (d j) (d' j) (Qeq_refl 0) (H j Hj')). reflexivity.
Qed.

Definition rounds_spec (r : peel_res) : Prop :=
  (forall t, (t < length (pr_order r))%nat ->
     nth t (pr_order r) [] = violators c n W k (alive (firstn t (pr_order r)))) /\
  violators c n W k (alive (pr_order r)) = [].

(* round t+1 zeroes exactly { j : 0 < deg_t(j) < k } where deg_t = degree among the nodes not zeroed in rounds 1..t,
   and the loop stops exactly when that set is empty. No hypothesis on W. *)
Theorem peel_round_is_violators r : peel dg n W k = Some r -> rounds_spec r.
Proof.
  intros Hrun.
  destruct (peel_loop_rule c c_proper c00 dg dg_spec n W k
              (fun _ _ po _ => forall t, (t < length po)%nat -> nth t po [] = violators c n W k (alive (firstn t po))))
    with (fuel := S n) (M := W) (it := 0%nat) (po := @nil (list nat)) (pl := @nil (list nat)) (r := r)
    as (HP & HI & Hdeg & Hff).
  - intros M it po pl ff HP HI Hff Hne t Ht. rewrite app_length in Ht. cbn [length] in Ht.
    rewrite firstn_app.
    destruct (Nat.eq_dec t (length po)) as [->|Hne'].
    + rewrite app_nth2 by lia. rewrite Nat.sub_diag. cbn [nth firstn]. rewrite firstn_all, app_nil_r.
      subst ff. unfold violators. fold (peel_ff n (din c n W (alive po)) k).
      apply peel_ff_ext. intros j Hj. apply (deg_of_inv c c_proper dg dg_spec n W M it po pl j HI Hj).
    + rewrite app_nth1 by lia. replace (t - length po)%nat with 0%nat by lia. cbn [firstn]. rewrite app_nil_r.
      apply HP. lia.
  - intros t Ht. cbn in Ht. lia.
  - apply Inv_init.
  - exact Hrun.
  - split; [exact HP|]. rewrite <- Hff. unfold violators. fold (peel_ff n (din c n W (alive (pr_order r))) k).
    apply peel_ff_ext. intros j Hj. rewrite Hdeg. symmetry.
    apply (deg_of_inv c c_proper dg dg_spec n W _ _ _ _ j HI Hj).
Qed.

(* peelorder / peellevel: every node is exactly one of
     listed (in exactly one round: NoDup)  |  in the core  |  neither, and then without any link to an unlisted node *)
Definition peel_once_spec (r : peel_res) : Prop :=
  NoDup (concat (pr_order r)) /\
  (forall x, In x (concat (pr_order r)) -> (x < n)%nat /\ core r x = false) /\
  pr_level r = levels_from 0 (pr_order r) /\ pr_iter r = length (pr_order r) /\
  Forall (fun ff => ff <> []) (pr_order r) /\
  (forall j, (j < n)%nat ->
     (In j (concat (pr_order r)) /\ core r j = false) \/
     (~ In j (concat (pr_order r)) /\ core r j = true) \/
     (~ In j (concat (pr_order r)) /\ core r j = false /\ din c n W (alive (pr_order r)) j == 0)).

Theorem peel_once_full r : nonneg_contrib c n W -> peel dg n W k = Some r -> peel_once_spec r.
Proof.
  intros Hnn Hrun.
  destruct (peel_each_once c c_proper c00 dg dg_spec n W k r Hrun) as (H1 & H2 & H3 & H4 & H5 & _).
  split; [exact H1|]. split; [exact H2|]. split; [exact H3|]. split; [exact H4|]. split; [exact H5|].
  intros j Hj. destruct (nmem j (concat (pr_order r))) eqn:E.
  - apply nmem_In in E. left. split; [exact E|]. apply (H2 j E).
  - apply nmem_false in E. right. destruct (core r j) eqn:Ec.
    + left. split; [exact E|reflexivity].
    + right. split; [exact E|]. split; [reflexivity|].
      exact (unlisted_noncore_isolated c c_proper c00 dg dg_spec n W k r Hrun Hnn j Hj E Ec).
Qed.

(* nestedness, in the three observable forms: node sets, sizes, and the returned matrices *)
Definition nested_spec (r r' : peel_res) : Prop :=
  (forall j, (j < n)%nat -> core r' j = true -> core r j = true) /\
  (kn_of n (pr_deg r') <= kn_of n (pr_deg r))%nat /\
  (forall i j, (i < n)%nat -> (j < n)%nat -> pr_M r' i j == restrictA (core r') (pr_M r) i j).

Theorem nested_full k' r r' : nonneg_contrib c n W -> zero_contrib c n W -> k <= k' ->
  peel dg n W k = Some r -> peel dg n W k' = Some r' -> nested_spec r r'.
Proof.
  intros Hnn Hz Hk Hr Hr'.
  pose proof (cores_nested c c_proper c00 dg dg_spec n W Hnn Hz k k' r r' Hk Hr Hr') as Hsub.
  split; [exact Hsub|]. split.
  - change (card n (core r') <= card n (core r))%nat. apply card_le. exact Hsub.
  - intros i j Hi Hj.
    rewrite (core_matrix_is_restriction c c_proper c00 dg dg_spec n W k' r' Hr' Hnn Hz i j Hi Hj).
    unfold restrictA at 1 2. destruct (core r' i) eqn:Ei; destruct (core r' j) eqn:Ej; cbn [andb]; try reflexivity.
    rewrite (core_matrix_is_restriction c c_proper c00 dg dg_spec n W k r Hr Hnn Hz i j Hi Hj).
    unfold restrictA. rewrite (Hsub i Hi Ei), (Hsub j Hj Ej). reflexivity.
Qed.
End Rounds.

(* the core depends on W only through the inside-degrees *)
Lemma core_din_ext c dg (c_proper : forall a a' b b', a == a' -> b == b' -> c a b == c a' b') (c00 : c 0 0 == 0)
  (dg_spec : forall n M j, dg n M j == dgc c n M j) n W W' k r r' :
  nonneg_contrib c n W -> zero_contrib c n W -> nonneg_contrib c n W' -> zero_contrib c n W' ->
  (forall A j, (j < n)%nat -> din c n W A j == din c n W' A j) ->
  peel dg n W k = Some r -> peel dg n W' k = Some r' -> forall j, (j < n)%nat -> core r j = core r' j.
Proof.
  intros Hnn Hz Hnn' Hz' Hd Hr Hr' j Hj.
  assert (H1 : core r j = true -> core r' j = true).
  { apply (core_is_maximal c c_proper c00 dg dg_spec n W' k r' Hr' Hnn' (core r)); [|exact Hj].
    intros i Hi Hc. rewrite <- (Hd (core r) i Hi).
    exact (core_is_feasible c c_proper c00 dg dg_spec n W k r Hr Hnn Hz i Hi Hc). }
  assert (H2 : core r' j = true -> core r j = true).
  { apply (core_is_maximal c c_proper c00 dg dg_spec n W k r Hr Hnn (core r')); [|exact Hj].
    intros i Hi Hc. rewrite (Hd (core r') i Hi).
    exact (core_is_feasible c c_proper c00 dg dg_spec n W' k r' Hr' Hnn' Hz' i Hi Hc). }
  destruct (core r j), (core r' j); try reflexivity; [symmetry; apply H1; reflexivity|apply H2; reflexivity].
Qed.

(* ================= (3) the three routines ================= *)
Theorem kcore_bu_nested n W k k' r r' : symmetric n W -> k <= k' ->
  kcore_bu n W k = Some r -> kcore_bu n W k' = Some r' -> nested_spec n r r'.
Proof.
  intros Hs. apply (nested_full c_bu c_bu_proper c_bu00 deg_und deg_und_spec n W k k' r r' (bu_nonneg n W) (bu_zero n W Hs)).
Qed.
Theorem kcore_bd_nested n W k k' r r' : k <= k' ->
  kcore_bd n W k = Some r -> kcore_bd n W k' = Some r' -> nested_spec n r r'.
Proof.
  apply (nested_full c_bd c_bd_proper c_bd00 deg_dir deg_dir_spec n W k k' r r' (bd_nonneg n W) (bd_zero n W)).
Qed.
Theorem score_wu_nested n W s s' r r' : symmetric n W -> nonneg n W -> s <= s' ->
  score_wu n W s = Some r -> score_wu n W s' = Some r' -> nested_spec n r r'.
Proof.
  intros Hs Hn.
  apply (nested_full c_wu c_wu_proper c_wu00 str_und str_und_spec n W s s' r r' (wu_nonneg n W Hn) (wu_zero n W Hs)).
Qed.

Theorem kcore_bu_peel n W k r : kcore_bu n W k = Some r ->
  peel_once_spec c_bu n W r /\ rounds_spec c_bu n W k r.
Proof.
  intros Hr. split.
  - exact (peel_once_full c_bu c_bu_proper c_bu00 deg_und deg_und_spec n W k r (bu_nonneg n W) Hr).
  - exact (peel_round_is_violators c_bu c_bu_proper c_bu00 deg_und deg_und_spec n W k r Hr).
Qed.
Theorem kcore_bd_peel n W k r : kcore_bd n W k = Some r ->
  peel_once_spec c_bd n W r /\ rounds_spec c_bd n W k r.
Proof.
  intros Hr. split.
  - exact (peel_once_full c_bd c_bd_proper c_bd00 deg_dir deg_dir_spec n W k r (bd_nonneg n W) Hr).
  - exact (peel_round_is_violators c_bd c_bd_proper c_bd00 deg_dir deg_dir_spec n W k r Hr).
Qed.
(* score_wu returns no order; the statement is about the rounds of its loop *)
Theorem score_wu_peel n W s r : nonneg n W -> score_wu n W s = Some r ->
  peel_once_spec c_wu n W r /\ rounds_spec c_wu n W s r.
Proof.
  intros Hn Hr. split.
  - exact (peel_once_full c_wu c_wu_proper c_wu00 str_und str_und_spec n W s r (wu_nonneg n W Hn) Hr).
  - exact (peel_round_is_violators c_wu c_wu_proper c_wu00 str_und str_und_spec n W s r Hr).
Qed.

(* the routines AS CALLED (peel argument, both return shapes): one statement each *)
Definition ret_of (n : nat) (r : peel_res) (b : bool) : kcore_ret :=
  (pr_M r, kn_of n (pr_deg r), if b then Some (pr_order r, pr_level r) else None).

Theorem kcore_bu_py_correct n W k b : symmetric n W ->
  exists r, kcore_bu_py n W k b = Some (ret_of n r b) /\
    core_spec c_bu n W k r /\ peel_once_spec c_bu n W r /\ rounds_spec c_bu n W k r.
Proof.
  intros Hs. destruct (kcore_bu_correct n W k Hs) as (r & Hr & Hspec). exists r. split.
  - unfold kcore_bu_py. rewrite peel_py_spec. unfold kcore_bu in Hr. rewrite Hr. reflexivity.
  - split; [exact Hspec|]. exact (kcore_bu_peel n W k r Hr).
Qed.
Theorem kcore_bd_py_correct n W k b :
  exists r, kcore_bd_py n W k b = Some (ret_of n r b) /\
    core_spec c_bd n W k r /\ peel_once_spec c_bd n W r /\ rounds_spec c_bd n W k r.
Proof.
  destruct (kcore_bd_correct n W k) as (r & Hr & Hspec). exists r. split.
  - unfold kcore_bd_py. rewrite peel_py_spec. unfold kcore_bd in Hr. rewrite Hr. reflexivity.
  - split; [exact Hspec|]. exact (kcore_bd_peel n W k r Hr).
Qed.
Theorem score_wu_py_correct n W s : symmetric n W -> nonneg n W ->
  exists r, score_wu_py n W s = Some (ret_of n r false) /\
    core_spec c_wu n W s r /\ rounds_spec c_wu n W s r.
Proof.
  intros Hs Hn. destruct (score_wu_correct n W s Hs Hn) as (r & Hr & Hspec). exists r. split.
  - unfold score_wu_py. rewrite peel_py_spec. unfold score_wu in Hr. rewrite Hr. reflexivity.
  - split; [exact Hspec|]. exact (proj2 (score_wu_peel n W s r Hn Hr)).
Qed.

(* ================= (4) kcoreness_centrality_bu, composed ================= *)
(* coreness j = max { k >= 1 : j in the k-core of W }  (0 when j is in no core), for EVERY k; kn = core sizes *)
Definition coreness_full (dg : nat -> mat Q -> vec Q) (n : nat) (W : mat Q) (cor : vec nat) (kn : list nat) : Prop :=
  length kn = n /\
  (forall k', (k' < n)%nat -> nth k' kn 0%nat = card n (coreb dg n W (qn k'))) /\
  (forall j, (j < n)%nat -> forall k', (1 <= k')%nat -> (coreb dg n W (qn k') j = true <-> (k' <= cor j)%nat)).

Lemma coreb_bu_ext n W W' k j : symmetric n W -> symmetric n W' ->
  (forall a b, (a < n)%nat -> (b < n)%nat -> nzq (W a b) = nzq (W' a b)) -> (j < n)%nat ->
  coreb deg_und n W k j = coreb deg_und n W' k j.
Proof.
  intros Hs Hs' Hsup Hj. unfold coreb.
  destruct (peel_terminates c_bu c_bu_proper c_bu00 deg_und deg_und_spec n W k) as [r Hr].
  destruct (peel_terminates c_bu c_bu_proper c_bu00 deg_und deg_und_spec n W' k) as [r' Hr'].
  rewrite Hr, Hr'.
  apply (core_din_ext c_bu deg_und c_bu_proper c_bu00 deg_und_spec n W W' k r r'
           (bu_nonneg n W) (bu_zero n W Hs) (bu_nonneg n W') (bu_zero n W' Hs')); [|exact Hr|exact Hr'|exact Hj].
  intros A i Hi. unfold din, dgc, c_bu. apply sumQ_ext. intros a Ha. unfold restrictA.
  destruct (A a && A i); [|reflexivity]. rewrite (Hsup a i Ha Hi). reflexivity.
Qed.

(* the k-scan on a symmetric non-negative matrix W1 without self-loops, read on any matrix W' with the same support *)
Lemma kcoreness_scan_full n W1 W' : symmetric n W1 -> nonneg n W1 -> symmetric n W' ->
  (forall a b, (a < n)%nat -> (b < n)%nat -> nzq (W1 a b) = nzq (W' a b)) ->
  (forall i, (i < n)%nat -> W' i i == 0) ->
  exists cor kn, kcoreness_loop (kcore_bu n W1) (ss_bu n) n n = Some (cor, kn) /\ coreness_full deg_und n W' cor kn.
Proof.
  intros Hs1 Hn1 Hs' Hsup Hd.
  destruct (kcoreness_loop_spec c_bu c_bu_proper c_bu00 deg_und deg_und_spec n W1 (bu_nonneg n W1) (bu_zero n W1 Hs1)
              (ss_bu n) (fun k r Hr => ss_bu_core n W1 k r Hn1 Hr) n) as (cor & kn & Hrun & Hlen & Hkn & Hcor).
  exists cor, kn. split; [exact Hrun|].
  assert (Hext : forall k j, (j < n)%nat -> coreb deg_und n W1 k j = coreb deg_und n W' k j).
  { intros k j Hj. apply coreb_bu_ext; assumption. }
  split; [exact Hlen|]. split.
  - intros k' Hk'. rewrite (Hkn k' Hk'). apply card_ext. intros j Hj. apply Hext. exact Hj.
  - intros j Hj k' Hk'. destruct (Hcor j Hj) as [Hb Hiff].
    destruct (Nat.lt_ge_cases k' n) as [Hlt|Hge].
    + rewrite <- (Hext (qn k') j Hj). apply Hiff; assumption.
    + rewrite (kcoreness_bu_complete n W' (qn k') j Hs' Hd (qn_le n k' Hge) Hj).
      split; [discriminate|]. intros H. exfalso. lia.
Qed.

Lemma bu_prep_cases n W :
  (bu_prep n W = W /\ forall i j, (i < n)%nat -> (j < n)%nat -> W i j + W j i <= 1) \/
  (bu_prep n W = tab 0 n n (fun i j => if qltb 0 (W i j + W j i) then 1 else 0) /\
   exists i j, (i < n)%nat /\ (j < n)%nat /\ 1 < W i j + W j i).
Proof.
  unfold bu_prep. destruct (existsb (fun c => qltb 1 (W (fst c) (snd c) + W (snd c) (fst c))) (cells n)) eqn:E.
  - right. split; [reflexivity|]. apply existsb_exists in E. destruct E as ([i j] & Hin & Hq).
    apply cells_In in Hin. cbn [fst snd] in Hq. apply qltb_true in Hq. exists i, j. tauto.
  - left. split; [reflexivity|]. intros i j Hi Hj.
    destruct (Qlt_le_dec 1 (W i j + W j i)) as [Hl|Hl]; [|exact Hl]. exfalso.
    assert (Ht : existsb (fun c => qltb 1 (W (fst c) (snd c) + W (snd c) (fst c))) (cells n) = true).
    { apply existsb_exists. exists (i, j). split; [apply cells_In; tauto|]. cbn [fst snd]. apply qltb_true. exact Hl. }
    congruence.
Qed.

(* the routine on its real input: W symmetric, non-negative (any positive weights: they are binarised), no self-loops *)
Theorem kcoreness_bu_full n W : symmetric n W -> nonneg n W -> (forall i, (i < n)%nat -> W i i == 0) ->
  exists cor kn, kcoreness_centrality_bu n W = Some (cor, kn) /\ coreness_full deg_und n W cor kn.
Proof.
  intros Hs Hn Hd. unfold kcoreness_centrality_bu.
  apply kcoreness_scan_full.
  - apply bu_prep_symmetric; exact Hs.
  - apply bu_prep_nonneg; exact Hn.
  - exact Hs.
  - intros a b Ha Hb. apply bu_prep_support; assumption.
  - exact Hd.
Qed.

(* "the corresponding undirected network" of the source comment: a link wherever W[i,j] + W[j,i] > 0 *)
Definition und_of (W : mat Q) : mat Q := fun i j => if qltb 0 (W i j + W j i) then 1 else 0.

Lemma und_of_symmetric n W : symmetric n (und_of W).
Proof.
  intros i j _ _. unfold und_of. rewrite (qltb_proper 0 0 (W i j + W j i) (W j i + W i j)); [reflexivity|reflexivity|ring].
Qed.

(* asymmetric input: as soon as ONE pair has W[i,j] + W[j,i] > 1 (a reciprocal pair of a binary digraph) the routine
   computes the coreness of the corresponding undirected network — no symmetry or sign hypothesis on W *)
Theorem kcoreness_bu_symmetrises n W :
  (exists i j, (i < n)%nat /\ (j < n)%nat /\ 1 < W i j + W j i) -> (forall i, (i < n)%nat -> W i i == 0) ->
  exists cor kn, kcoreness_centrality_bu n W = Some (cor, kn) /\ coreness_full deg_und n (und_of W) cor kn.
Proof.
  intros Hex Hd. unfold kcoreness_centrality_bu.
  destruct (bu_prep_cases n W) as [[_ Hall]|[Heq _]].
  - exfalso. destruct Hex as (i & j & Hi & Hj & Hl). specialize (Hall i j Hi Hj). lra.
  - rewrite Heq. fold (und_of W). apply kcoreness_scan_full.
    + intros i j Hi Hj. rewrite !tab_spec by assumption. exact (und_of_symmetric n W i j Hi Hj).
    + intros i j Hi Hj. rewrite tab_spec by assumption. unfold und_of. destruct (qltb 0 (W i j + W j i)); lra.
    + apply und_of_symmetric.
    + intros a b Ha Hb. rewrite tab_spec by assumption. reflexivity.
    + intros i Hi. unfold und_of. destruct (qltb 0 (W i i + W i i)) eqn:E; [|reflexivity].
      apply qltb_true in E. pose proof (Hd i Hi). lra.
Qed.

(* ... but WITHOUT such a pair the test `np.any(CIJund > 1)` does not fire and kcore_bu runs on the directed matrix
   (column sums = in-degree): a single arc 0 -> 1. Node 0 is in the 1-core of the undirected network, coreness 0 reported.
   Directed input is outside the domain of kcoreness_centrality_bu (binary UNDIRECTED); the source comment promises more. *)
Definition arc01 : mat Q := of_rows 0 [[0; 1]; [0; 0]]%list.
Theorem kcoreness_bu_single_arc_refuted :
  exists n W cor kn j,
    (forall a b, (a < n)%nat -> (b < n)%nat -> W a b == 0 \/ W a b == 1) /\ (forall i, (i < n)%nat -> W i i == 0) /\
    kcoreness_centrality_bu n W = Some (cor, kn) /\ (j < n)%nat /\
    coreb deg_und n (und_of W) (qn 1) j = true /\ cor j = 0%nat.
Proof.
  exists 2%nat, arc01.
  destruct (kcoreness_centrality_bu 2 arc01) as [[cor kn]|] eqn:E; [|vm_compute in E; discriminate].
  exists cor, kn, 0%nat. split; [|split; [|split; [reflexivity|split; [lia|split]]]].
  - intros a b Ha Hb. destruct a as [|[|a]]; [| |lia]; (destruct b as [|[|b]]; [| |lia]); vm_compute; tauto.
  - intros i Hi. destruct i as [|[|i]]; [| |lia]; reflexivity.
  - vm_compute. reflexivity.
  - assert (H : option_map (fun p => fst p 0%nat) (kcoreness_centrality_bu 2 arc01) = Some 0%nat) by (vm_compute; reflexivity).
    rewrite E in H. cbn in H. injection H as H. exact H.
Qed.
