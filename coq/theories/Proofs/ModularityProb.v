(* Proofs/ModularityProb.v — C02: modularity_probtune_und_sign, for EVERY permutation, EVERY stream of random draws and
   every oracle outcome of the deterministic nodes: if the run completes, the returned q is the definitional Qsign of the
   returned labels (reduced fractions, Leibniz equality) and the labels are exactly 1..k. A well-shaped stream (one sample
   per node, one randint after every sample below p, one oracle entry per other node) always completes. *)
From Coq Require Import QArith Qring Qfield Lia Lqa Arith List Bool ZArith Setoid Morphisms.
From BCT Require Import Base.Mat Base.SumQ Base.ListX Model.Modularity Model.ModularityProb Proofs.ModularitySums
  Proofs.ModularityQ Proofs.ModularityGain Proofs.ModularityRun Proofs.ModularityRunSign.
Import ListNotations.
Open Scope Q_scope.

Definition pt_ci (r : list (nat * (bool * nat)) * (list nat * (Q * Q))) : list nat := fst (snd r).
Definition pt_q (r : list (nat * (bool * nat)) * (list nat * (Q * Q))) : Q := fst (snd (snd r)).
Definition pt_qdef (r : list (nat * (bool * nat)) * (list nat * (Q * Q))) : Q := snd (snd (snd r)).

Theorem probtune_run_q rows g qt ci p perm ds orc r :
  sym_on (length rows) (of_rows 0 rows) ->
  run_probtune rows g qt ci p perm ds orc = Some r ->
  pt_q r = pt_qdef r /\ exists k, labels_exact (length rows) (pt_ci r) k.
Proof.
  intros Hsym. unfold run_probtune. cbv zeta.
  set (n := length rows). set (W := of_rows 0 rows). set (sp := sign_params n W (qtype_of qt)).
  set (lab0 := init_lab n ci).
  pose proof (sign_init_kn n sp lab0) as HK.
  destruct (sign_init n sp lab0) as [st0 [kn0 kn1]] eqn:EI.
  destruct (probtune_loop _ p st0 perm ds orc) as [[tr' st]|]; [|discriminate].
  intros H. apply (f_equal (fun o => match o with Some x => x | None => r end)) in H. cbv beta iota in H. rewrite <- H.
  unfold pt_q, pt_qdef, pt_ci. cbn [fst snd]. split; [|apply out_lab_exact].
  apply Qred_complete.
  set (labf := tabv O n (relabel0 n (zlab (lab st)))).
  assert (Hlf : lab_lt n n labf) by apply final_lab_lt_n.
  rewrite <- (q_closing_sign_eq_def n W g (qtype_of qt) labf Hlf Hsym). fold sp.
  destruct (HK labf (init_lab_lt n ci) Hlf) as [K0 K1]. cbn [fst snd] in K0, K1.
  unfold sign_closing.
  rewrite (closing_outer_kn_ext n (sW0 sp) kn0 _ g (ss0 sp) labf K0), (closing_outer_kn_ext n (sW1 sp) kn1 _ g (ss1 sp) labf K1).
  reflexivity.
Qed.

(* shape of the stream the routine consumes: per visited node one sample; if it is below p one randint, otherwise one
   oracle entry *)
Fixpoint stream_ok (p : Q) (perm : list nat) (ds : list draw) (orc : list (option nat)) : Prop :=
  match perm with
  | [] => True
  | _ :: perm' =>
      match ds with
      | DSample x :: ds1 =>
          if Qltb x p then match ds1 with DInt _ :: ds2 => stream_ok p perm' ds2 orc | _ => False end
          else match orc with _ :: orc' => stream_ok p perm' ds1 orc' | [] => False end
      | _ => False
      end
  end.

Lemma probtune_loop_completes move p perm : forall st ds orc, stream_ok p perm ds orc ->
  exists r, probtune_loop move p st perm ds orc = Some r.
Proof.
  induction perm as [|u perm' IH]; intros st ds orc H; cbn [probtune_loop]; [eexists; reflexivity|].
  cbn [stream_ok] in H. destruct ds as [|[x|k] ds1]; try contradiction.
  destruct (Qltb x p).
  - destruct ds1 as [|[y|mb] ds2]; try contradiction.
    destruct (IH (move st u mb) ds2 orc H) as [[tr fin] E]. rewrite E. eexists; reflexivity.
  - destruct orc as [|[mb|] orc']; try contradiction.
    + destruct (IH (move st u mb) ds1 orc' H) as [[tr fin] E]. rewrite E. eexists; reflexivity.
    + apply IH; exact H.
Qed.

Theorem probtune_run_completes rows g qt ci p perm ds orc : stream_ok p perm ds orc ->
  exists r, run_probtune rows g qt ci p perm ds orc = Some r.
Proof.
  intros H. unfold run_probtune. cbv zeta.
  destruct (sign_init _ _ _) as [st0 [kn0 kn1]].
  destruct (probtune_loop_completes (move_sign (length rows) (sW0 (sign_params (length rows) (of_rows 0 rows) (qtype_of qt)))
             (sW1 (sign_params (length rows) (of_rows 0 rows) (qtype_of qt))) kn0 kn1) p perm st0 ds orc H) as [[tr st] E].
  rewrite E. eexists; reflexivity.
Qed.

(* non-vacuity: 4 nodes, one negative edge; node 2 is moved at random into slot 0, node 0 deterministically into slot 1 *)
Example probtune_run_nonvacuous :
  let rows := [[0; 2; 1; 0]; [2; 0; 0; -(1)]; [1; 0; 0; 3]; [0; -(1); 3; 0]] in
  sym_on 4 (of_rows 0 rows) /\
  stream_ok (9 # 20) [2; 0; 3; 1]%nat [DSample (1 # 10); DInt 0; DSample (1 # 2); DSample (3 # 4); DSample (9 # 10)]
            [Some 1%nat; None; None] /\
  run_probtune rows 1 0 [1; 2; 3; 4]%Z (9 # 20) [2; 0; 3; 1]%nat
               [DSample (1 # 10); DInt 0; DSample (1 # 2); DSample (3 # 4); DSample (9 # 10)] [Some 1%nat; None; None]
  = Some ([(2, (true, 0)); (0, (false, 1))]%nat, ([2; 2; 1; 3]%nat, (29 # 504, 29 # 504))).
Proof.
  cbv zeta. split; [|split].
  - intros i j Hi Hj. do 4 (destruct i as [|i]; [do 4 (destruct j as [|j]; [reflexivity|]); exfalso; lia|]). exfalso; lia.
  - vm_compute. exact I.
  - vm_compute. reflexivity.
Qed.
