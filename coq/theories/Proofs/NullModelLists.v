(* Proofs/NullModelLists.v — list / sum facts used by the dealing-phase proofs (Proofs/NullModel.v) *)
From Coq Require Import ZArith List Arith Lia Bool Permutation.
From BCT Require Import Base.Mat Base.ListX Model.Signed Model.NullModel.
Import ListNotations.
Open Scope Z_scope.

(* ---------- integer sums over lists ---------- *)
Fixpoint zsum (l : list Z) : Z := match l with [] => 0 | x :: r => x + zsum r end.

Lemma zsum_app l1 l2 : zsum (l1 ++ l2) = zsum l1 + zsum l2.
Proof. induction l1 as [|x l1 IH]; cbn [app zsum]; [lia|]. lia. Qed.

Lemma zsum_perm l1 l2 : Permutation l1 l2 -> zsum l1 = zsum l2.
Proof. induction 1; cbn [zsum]; lia. Qed.

Lemma zsum_map_perm {A} (g : A -> Z) l1 l2 : Permutation l1 l2 -> zsum (map g l1) = zsum (map g l2).
Proof. intros H. apply zsum_perm. apply Permutation_map. exact H. Qed.

Lemma zsum_map_ext {A} (g h : A -> Z) l : (forall x, In x l -> g x = h x) -> zsum (map g l) = zsum (map h l).
Proof. intros H. f_equal. apply map_ext_in. exact H. Qed.

Lemma zsum_const {A} (k : Z) (l : list A) : zsum (map (fun _ => k) l) = k * Z.of_nat (length l).
Proof. induction l as [|x l IH]; cbn [map zsum length]; [lia|]. lia. Qed.

Lemma zsum_seq f n : zsum (map f (seq 0 n)) = sumn f n.
Proof.
  induction n as [|n IH]; [reflexivity|].
  rewrite seq_S, map_app, zsum_app, IH. cbn [sumn map zsum plus]. lia.
Qed.

Lemma zsum_flat_map {A} (g : A -> list Z) l : zsum (flat_map g l) = zsum (map (fun x => zsum (g x)) l).
Proof. induction l as [|x l IH]; cbn [flat_map map]; [reflexivity|]. rewrite zsum_app, IH. reflexivity. Qed.

Lemma map_flat_map {A B C} (f : B -> C) (g : A -> list B) l :
  map f (flat_map g l) = flat_map (fun x => map f (g x)) l.
Proof. induction l as [|x l IH]; cbn [flat_map]; [reflexivity|]. rewrite map_app, IH. reflexivity. Qed.

(* sums over the row-major cell list = double sums *)
Lemma zsum_cells (g : nat * nat -> Z) n : zsum (map g (cells n)) = sum2 (fun i j => g (i, j)) n.
Proof.
  unfold cells, sum2. rewrite map_flat_map, zsum_flat_map, <- zsum_seq.
  apply zsum_map_ext. intros i _. rewrite map_map. apply zsum_seq.
Qed.

Lemma zsum_filter {A} (g : A -> Z) (p : A -> bool) l :
  zsum (map g (filter p l)) = zsum (map (fun x => if p x then g x else 0) l).
Proof.
  induction l as [|x l IH]; [reflexivity|]. cbn [filter map]. destruct (p x); cbn [map zsum].
  - rewrite IH. reflexivity.
  - rewrite IH. lia.
Qed.

Lemma length_filter_zsum {A} (p : A -> bool) l :
  Z.of_nat (length (filter p l)) = zsum (map (fun x => b2z (p x)) l).
Proof.
  induction l as [|x l IH]; [reflexivity|]. cbn [filter map zsum].
  destruct (p x); cbn [length b2z]; lia.
Qed.

(* three-way split of a sum by two exclusive predicates *)
Lemma zsum_split3 {A} (g : A -> Z) (p q : A -> bool) l :
  (forall x, In x l -> p x = true -> q x = false) ->
  zsum (map g l) = zsum (map g (filter p l)) + zsum (map g (filter q l)) +
                   zsum (map g (filter (fun x => negb (p x) && negb (q x)) l)).
Proof.
  induction l as [|x l IH]; intros H; [reflexivity|].
  cbn [filter map zsum].
  rewrite IH by (intros y Hy; apply H; right; exact Hy).
  destruct (p x) eqn:Ep.
  - rewrite (H x (or_introl eq_refl) Ep). cbn [negb andb map zsum].
    lia.
  - destruct (q x); cbn [negb andb map zsum].
    + lia.
    + lia.
Qed.

(* ---------- sumn: diagonal collapse and the triangle identity ---------- *)
Lemma sumn_collapse (f : nat -> Z) n i : (i < n)%nat ->
  sumn (fun j => if Nat.eqb i j then f j else 0) n = f i.
Proof.
  induction n as [|n IH]; intros Hi; [lia|]. cbn [sumn].
  destruct (Nat.eq_dec i n) as [->|Hne].
  - rewrite Nat.eqb_refl.
    rewrite (sumn_ext _ (fun _ => 0)); [rewrite sumn_zero; lia|].
    intros j Hj. destruct (Nat.eqb_spec n j); [lia|reflexivity].
  - rewrite IH by lia. destruct (Nat.eqb_spec i n); [contradiction|lia].
Qed.

Definition tri (F : nat -> nat -> Z) (n : nat) : Z := sum2 (fun i j => if Nat.leb i j then F i j else 0) n.

Lemma sum2_add f g n : sum2 (fun i j => f i j + g i j) n = sum2 f n + sum2 g n.
Proof. unfold sum2. rewrite <- sumn_add. apply sumn_ext. intros i _. apply sumn_add. Qed.

(* for a symmetric F: total + diagonal = twice the upper triangle (diagonal included) *)
Lemma tri_sym F n : (forall i j, (i < n)%nat -> (j < n)%nat -> F i j = F j i) ->
  sum2 F n + sumn (fun i => F i i) n = 2 * tri F n.
Proof.
  intros Hs. unfold tri.
  set (G := fun i j => if Nat.leb i j then F i j else 0).
  assert (E1 : sum2 (fun i j => F i j + (if Nat.eqb i j then F i j else 0)) n =
               sum2 (fun i j => G i j + G j i) n).
  { apply sum2_ext. intros i j Hi Hj. unfold G.
    destruct (Nat.eqb_spec i j) as [->|Hne].
    - rewrite Nat.leb_refl. reflexivity.
    - destruct (Nat.leb_spec i j); destruct (Nat.leb_spec j i); cbv iota; try lia.
      rewrite (Hs j i Hj Hi). lia. }
  rewrite !sum2_add in E1. rewrite (sum2_transpose G n) in E1.
  assert (E2 : sum2 (fun i j => if Nat.eqb i j then F i j else 0) n = sumn (fun i => F i i) n).
  { unfold sum2. apply sumn_ext. intros i Hi. apply (sumn_collapse (fun j => F i j)). exact Hi. }
  rewrite E2 in E1. fold G. lia.
Qed.

(* ---------- np.delete and selections by index ---------- *)
Lemma map_nth_seq {A} (d : A) l : map (fun k => nth k l d) (seq 0 (length l)) = l.
Proof.
  induction l as [|x l IH]; [reflexivity|]. cbn [length seq map nth]. f_equal.
  rewrite <- seq_shift, map_map. exact IH.
Qed.

Lemma delete_perm {A} (d : A) idx l : NoDup idx -> (forall i, In i idx -> (i < length l)%nat) ->
  Permutation (map (fun k => nth k l d) idx ++ delete_at d idx l) l.
Proof.
  intros Hnd Hlt. unfold delete_at. rewrite <- map_app.
  apply (Permutation_trans (l' := map (fun k => nth k l d) (seq 0 (length l))));
    [|rewrite map_nth_seq; reflexivity].
  apply Permutation_map. apply NoDup_Permutation.
  - apply NoDup_app_intro; [exact Hnd|apply NoDup_filter; apply seq_NoDup|].
    intros z Hz Hf. apply filter_In in Hf. destruct Hf as [_ Hf].
    apply negb_true_iff in Hf. apply nmem_false in Hf. contradiction.
  - apply seq_NoDup.
  - intros x. rewrite in_app_iff, filter_In, in_seq. split.
    + intros [H|[H _]]; [specialize (Hlt x H); lia|lia].
    + intros H. destruct (nmem x idx) eqn:E; [left; apply nmem_In; exact E|right; split; [lia|reflexivity]].
Qed.

Lemma delete_length {A} (d : A) idx l : NoDup idx -> (forall i, In i idx -> (i < length l)%nat) ->
  (length idx + length (delete_at d idx l) = length l)%nat.
Proof.
  intros Hnd Hlt. pose proof (Permutation_length (delete_perm d idx l Hnd Hlt)) as H.
  rewrite app_length, map_length in H. exact H.
Qed.

(* ---------- permutations of an index range ---------- *)
Lemma nodupb_spec l : nodupb l = true -> NoDup l.
Proof.
  induction l as [|x l IH]; cbn [nodupb]; [constructor|].
  rewrite andb_true_iff, negb_true_iff. intros [H1 H2]. constructor; [apply nmem_false; exact H1|auto].
Qed.

Lemma check_perm_spec m l : check_perm m l = true ->
  length l = m /\ (forall x, In x l -> (x < m)%nat) /\ NoDup l.
Proof.
  unfold check_perm. rewrite !andb_true_iff, Nat.eqb_eq, forallb_forall.
  intros [[H1 H2] H3]. split; [exact H1|]. split; [|apply nodupb_spec; exact H3].
  intros x Hx. apply Nat.ltb_lt. apply H2. exact Hx.
Qed.

Lemma NoDup_firstn {A} k (l : list A) : NoDup l -> NoDup (firstn k l).
Proof. intros H. rewrite <- (firstn_skipn k l) in H. apply NoDup_app_inv in H. tauto. Qed.
Lemma In_firstn {A} k (l : list A) x : In x (firstn k l) -> In x l.
Proof. intros H. rewrite <- (firstn_skipn k l). apply in_or_app. left; exact H. Qed.

Lemma NoDup_map_nth (O R : list nat) : NoDup O -> NoDup R -> (forall r, In r R -> (r < length O)%nat) ->
  NoDup (map (fun r => nth r O 0%nat) R).
Proof.
  intros HO HR Hlt. induction R as [|r R IH]; cbn [map]; [constructor|].
  inversion HR as [|? ? Hr HR']; subst. constructor.
  - intros Hin. apply in_map_iff in Hin. destruct Hin as [r' [E Hr']].
    assert (r' = r).
    { apply (proj1 (NoDup_nth O 0%nat) HO); [apply Hlt; right; exact Hr'|apply Hlt; left; reflexivity|exact E]. }
    subst. contradiction.
  - apply IH; [exact HR'|]. intros r' Hr'. apply Hlt. right; exact Hr'.
Qed.

(* ---------- sequential assignment ---------- *)
Lemma assign_all_notin ps : forall M c, ~ In c (map fst ps) -> at_ (assign_all ps M) c = at_ M c.
Proof.
  induction ps as [|p ps IH]; intros M c Hc; [reflexivity|].
  cbn [assign_all fold_left]. fold (assign_all ps (upd M (fst (fst p)) (snd (fst p)) (snd p))).
  rewrite IH by (intros H; apply Hc; right; exact H).
  unfold at_. apply upd_other.
  destruct (Nat.eq_dec (fst c) (fst (fst p))) as [E1|E1]; [|left; exact E1].
  destruct (Nat.eq_dec (snd c) (snd (fst p))) as [E2|E2]; [|right; exact E2].
  exfalso. apply Hc. left. cbn [map]. destruct c, p as [[? ?] ?]; cbn [fst snd] in *. congruence.
Qed.

Lemma assign_all_in ps : forall M c v, NoDup (map fst ps) -> In (c, v) ps -> at_ (assign_all ps M) c = v.
Proof.
  induction ps as [|p ps IH]; intros M c v Hnd Hin; [contradiction|].
  cbn [map] in Hnd. inversion Hnd as [|? ? Hp Hnd']; subst.
  cbn [assign_all fold_left]. fold (assign_all ps (upd M (fst (fst p)) (snd (fst p)) (snd p))).
  destruct Hin as [->|Hin].
  - cbn [fst snd] in *. rewrite assign_all_notin by exact Hp. unfold at_. apply upd_same.
  - apply IH; assumption.
Qed.

(* ---------- np.sort ---------- *)
Lemma insertZ_perm x l : Permutation (insertZ x l) (x :: l).
Proof.
  induction l as [|y r IH]; cbn [insertZ]; [reflexivity|].
  destruct (x <=? y); [reflexivity|]. rewrite IH. apply perm_swap.
Qed.
Lemma sortZ_perm l : Permutation (sortZ l) l.
Proof.
  induction l as [|x l IH]; cbn [sortZ fold_right]; [reflexivity|].
  fold (sortZ l). rewrite insertZ_perm. constructor. exact IH.
Qed.
