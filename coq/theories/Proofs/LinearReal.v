(* Proofs/LinearReal.v — subgraph centrality, the statement about the matrix exponential itself (over Coq's reals).
     centrality.py subgraph_centrality : vals, vecs = eigh(CIJ); return dot(vecs*vecs, exp(vals))
   Part A  finite-sum matrix algebra over R on the grid [0,n) x [0,n): powers of A, (A^m)_ij = sum_k V_ik lam_k^m V_jk
           from eigh's equations  A v_k = lam_k v_k,  V V^T = I  (induction on m).
   Part B  the matrix exponential: E is "an exponential of A" (is_expm) when every entry E_ij is the sum of the series
           sum_m (A^m)_ij / m!  (stdlib `infinite_sum`).  Under eigh's equations the series converges entrywise to
           sum_k V_ik exp(lam_k) V_jk (a finite linear combination of the scalar exponential series `exp_in`), the
           limit is unique, hence diag(expm A)_i = sum_k V_ik^2 exp(lam_k) — the code's expression.
   Part C  the series converges for EVERY real matrix (domination by sum_m c^m/m!, c = sum of |entries|), so
           expmR n A is a total function that does not mention any decomposition; the theorem is restated for it.
   Part D  the statement recorded (and left open until now) in Properties/C18.v over Q matrices,
           `C18_subgraph_full_statement`, verbatim, from the polynomial theorem of Proofs/LinearSpectral.v.
   Only the standard library's Reals (no Coquelicot). *)
From Coq Require Import QArith Qreals Reals Lra Lia Arith List.
From BCT Require Import Base.Mat Base.SumQ Model.Linear Proofs.Linear Proofs.LinearSpectral.
Import ListNotations.
Local Open Scope R_scope.

(* ------------------------------------------------------------------ Part A: finite sums and powers over R *)
Fixpoint sumR (f : nat -> R) (n : nat) : R :=
  match n with O => 0 | S k => sumR f k + f k end.

Lemma sumR_ext f g n : (forall i, (i < n)%nat -> f i = g i) -> sumR f n = sumR g n.
Proof. induction n; cbn [sumR]; intros H; [reflexivity|]. rewrite IHn, (H n) by auto. reflexivity. Qed.

Lemma sumR_add f g n : sumR (fun i => f i + g i) n = sumR f n + sumR g n.
Proof. induction n; cbn [sumR]; [ring|]. rewrite IHn. ring. Qed.

Lemma sumR_scal c f n : sumR (fun i => c * f i) n = c * sumR f n.
Proof. induction n; cbn [sumR]; [ring|]. rewrite IHn. ring. Qed.

Lemma sumR_scal_r c f n : sumR (fun i => f i * c) n = sumR f n * c.
Proof. induction n; cbn [sumR]; [ring|]. rewrite IHn. ring. Qed.

Lemma sumR_zero n : sumR (fun _ => 0) n = 0.
Proof. induction n; cbn [sumR]; [reflexivity|]. rewrite IHn. ring. Qed.

Lemma sumR_fubini (f : nat -> nat -> R) n m :
  sumR (fun i => sumR (fun k => f i k) m) n = sumR (fun k => sumR (fun i => f i k) n) m.
Proof.
  induction n; cbn [sumR].
  - symmetry. apply sumR_zero.
  - rewrite IHn. rewrite <- sumR_add. reflexivity.
Qed.

Lemma sumR_swap_scal (x : nat -> R) (F : nat -> nat -> R) n m :
  sumR (fun i => x i * sumR (fun k => F i k) m) n = sumR (fun k => sumR (fun i => x i * F i k) n) m.
Proof. rewrite <- sumR_fubini. apply sumR_ext. intros i _. rewrite <- sumR_scal. reflexivity. Qed.

Lemma sumR_le f g n : (forall i, (i < n)%nat -> f i <= g i) -> sumR f n <= sumR g n.
Proof.
  induction n; cbn [sumR]; intros H; [lra|].
  assert (H1 : sumR f n <= sumR g n) by (apply IHn; intros; apply H; lia).
  assert (H2 : f n <= g n) by (apply H; lia). lra.
Qed.

Lemma sumR_nonneg f n : (forall i, (i < n)%nat -> 0 <= f i) -> 0 <= sumR f n.
Proof. intros H. rewrite <- (sumR_zero n). apply sumR_le. exact H. Qed.

Lemma sumR_term_le f n i : (forall k, (k < n)%nat -> 0 <= f k) -> (i < n)%nat -> f i <= sumR f n.
Proof.
  induction n; intros H Hi; [lia|]. cbn [sumR].
  assert (H0 : 0 <= sumR f n) by (apply sumR_nonneg; intros; apply H; lia).
  assert (Hn : 0 <= f n) by (apply H; lia).
  destruct (Nat.eq_dec i n) as [->|Hne]; [lra|].
  assert (f i <= sumR f n) by (apply IHn; [intros; apply H; lia|lia]). lra.
Qed.

Lemma sumR_abs f n : Rabs (sumR f n) <= sumR (fun i => Rabs (f i)) n.
Proof.
  induction n; cbn [sumR]; [rewrite Rabs_R0; lra|].
  eapply Rle_trans; [apply Rabs_triang|]. lra.
Qed.

Lemma sumR_shift f n : sumR f (S n) = f O + sumR (fun t => f (S t)) n.
Proof. induction n; [cbn [sumR]; ring|]. change (sumR f (S (S n))) with (sumR f (S n) + f (S n)). rewrite IHn. cbn [sumR]. ring. Qed.

Definition deltaR (i j : nat) : R := if Nat.eqb i j then 1 else 0.
Definition mmulR (n : nat) (A B : nat -> nat -> R) : nat -> nat -> R := fun i j => sumR (fun k => A i k * B k j) n.
(* A^0 = I, A^(m+1) = A A^m *)
Fixpoint mpowR (n : nat) (A : nat -> nat -> R) (m : nat) : nat -> nat -> R :=
  match m with O => deltaR | S m' => mmulR n A (mpowR n A m') end.
(* the m-th term and the M-th partial sum of the exponential series of the matrix, entrywise *)
Definition expm_term (n : nat) (A : nat -> nat -> R) (i j m : nat) : R := / INR (fact m) * mpowR n A m i j.
Definition expm_partial (n : nat) (A : nat -> nat -> R) (M i j : nat) : R := sum_f_R0 (expm_term n A i j) M.
(* E is an exponential of A: every entry is the sum of the entrywise series  sum_m (A^m)_ij / m! *)
Definition is_expm (n : nat) (A E : nat -> nat -> R) : Prop :=
  forall i j, (i < n)%nat -> (j < n)%nat -> infinite_sum (expm_term n A i j) (E i j).

Lemma is_expm_unique n A E E' : is_expm n A E -> is_expm n A E' ->
  forall i j, (i < n)%nat -> (j < n)%nat -> E i j = E' i j.
Proof. intros H H' i j Hi Hj. exact (uniqueness_sum _ _ _ (H i j Hi Hj) (H' i j Hi Hj)). Qed.

(* ---------------- sequences: the few facts about Un_cv that are needed ---------------- *)
Lemma Un_cv_ext (U W : nat -> R) l : (forall M, U M = W M) -> Un_cv W l -> Un_cv U l.
Proof. intros E H eps He. destruct (H eps He) as [N HN]. exists N. intros M HM. rewrite E. exact (HN M HM). Qed.

Lemma Un_cv_const c : Un_cv (fun _ => c) c.
Proof. intros eps He. exists O. intros _ _. rewrite R_dist_eq. exact He. Qed.

Lemma Un_cv_scal a b (U : nat -> R) l : Un_cv U l -> Un_cv (fun M => a * U M * b) (a * l * b).
Proof.
  intros H. apply (CV_mult (fun M => a * U M) (fun _ => b)); [|apply Un_cv_const].
  apply (CV_mult (fun _ => a) U); [apply Un_cv_const|exact H].
Qed.

Lemma Un_cv_sumR (U : nat -> nat -> R) (l : nat -> R) n :
  (forall k, (k < n)%nat -> Un_cv (U k) (l k)) -> Un_cv (fun M => sumR (fun k => U k M) n) (sumR l n).
Proof.
  induction n; intros H; cbn [sumR]; [apply Un_cv_const|].
  apply (CV_plus (fun M => sumR (fun k => U k M) n) (U n)); [apply IHn; intros; apply H; lia|apply H; lia].
Qed.

Lemma exp_series x : Un_cv (sum_f_R0 (fun m => / INR (fact m) * x ^ m)) (exp x).
Proof. unfold exp. destruct (exist_exp x) as [l Hl]. exact Hl. Qed.

(* sum_{m<=M} c_m (sum_k F k m) = sum_k sum_{m<=M} c_m F k m *)
Lemma sum_f_R0_sumR (c : nat -> R) (F : nat -> nat -> R) n M :
  sum_f_R0 (fun m => c m * sumR (fun k => F k m) n) M = sumR (fun k => sum_f_R0 (fun m => c m * F k m) M) n.
Proof.
  induction M; cbn [sum_f_R0].
  - rewrite <- sumR_scal. reflexivity.
  - rewrite IHM. rewrite <- sumR_scal. rewrite <- sumR_add. reflexivity.
Qed.

Lemma sum_f_R0_sumR_S f M : sum_f_R0 f M = sumR f (S M).
Proof. induction M; cbn [sum_f_R0 sumR]; [ring|]. rewrite IHM. cbn [sumR]. ring. Qed.

(* ------------------------------------------------------------------ Part B: A = V Lambda V^T *)
Section SpectralR.
Variables (n : nat) (A V : nat -> nat -> R) (lam : nat -> R).
(* what eigh returns: A v_k = lam_k v_k for the columns v_k of V, and V V^T = I *)
Hypothesis Heig : forall i k, (i < n)%nat -> (k < n)%nat -> sumR (fun l => A i l * V l k) n = lam k * V i k.
Hypothesis Horth : forall i j, (i < n)%nat -> (j < n)%nat -> sumR (fun k => V i k * V j k) n = deltaR i j.

Theorem mpow_spectral : forall m i j, (i < n)%nat -> (j < n)%nat ->
  mpowR n A m i j = sumR (fun k => V i k * lam k ^ m * V j k) n.
Proof.
  induction m as [|m IH]; intros i j Hi Hj; cbn [mpowR].
  - rewrite <- (Horth i j Hi Hj). apply sumR_ext. intros k _. cbn [pow]. ring.
  - unfold mmulR.
    rewrite (sumR_ext _ (fun l => A i l * sumR (fun k => V l k * lam k ^ m * V j k) n))
      by (intros l Hl; rewrite (IH l j Hl Hj); reflexivity).
    rewrite sumR_swap_scal. apply sumR_ext. intros k Hk.
    rewrite (sumR_ext _ (fun l => (A i l * V l k) * (lam k ^ m * V j k))) by (intros; ring).
    rewrite sumR_scal_r. rewrite (Heig i k Hi Hk). cbn [pow]. ring.
Qed.

(* the partial sums of the matrix series are the same finite combination of the partial sums of the scalar series *)
Lemma expm_partial_spectral M i j : (i < n)%nat -> (j < n)%nat ->
  expm_partial n A M i j = sumR (fun k => V i k * sum_f_R0 (fun m => / INR (fact m) * lam k ^ m) M * V j k) n.
Proof.
  intros Hi Hj. unfold expm_partial, expm_term.
  rewrite (sum_eq _ (fun m => / INR (fact m) * sumR (fun k => V i k * lam k ^ m * V j k) n))
    by (intros m _; rewrite (mpow_spectral m i j Hi Hj); reflexivity).
  rewrite sum_f_R0_sumR. apply sumR_ext. intros k _.
  rewrite (sum_eq _ (fun m => (/ INR (fact m) * lam k ^ m) * (V i k * V j k))) by (intros; ring).
  rewrite <- scal_sum. ring.
Qed.

(* every entry of the series converges, to (V exp(Lambda) V^T)_ij *)
Theorem expm_entry_cv i j : (i < n)%nat -> (j < n)%nat ->
  infinite_sum (expm_term n A i j) (sumR (fun k => V i k * exp (lam k) * V j k) n).
Proof.
  intros Hi Hj.
  apply (Un_cv_ext _ (fun M => sumR (fun k => V i k * sum_f_R0 (fun m => / INR (fact m) * lam k ^ m) M * V j k) n)).
  - intros M. exact (expm_partial_spectral M i j Hi Hj).
  - apply (Un_cv_sumR (fun k M => V i k * sum_f_R0 (fun m => / INR (fact m) * lam k ^ m) M * V j k)
                      (fun k => V i k * exp (lam k) * V j k)).
    intros k _. apply Un_cv_scal. apply exp_series.
Qed.

(* the exponential of A exists, is unique on the grid, and its diagonal is the code's expression *)
Theorem subgraph_expm :
  is_expm n A (fun i j => sumR (fun k => V i k * exp (lam k) * V j k) n) /\
  forall E, is_expm n A E ->
    (forall i j, (i < n)%nat -> (j < n)%nat -> E i j = sumR (fun k => V i k * exp (lam k) * V j k) n) /\
    (forall i, (i < n)%nat -> E i i = sumR (fun k => V i k * V i k * exp (lam k)) n).
Proof.
  split; [intros i j Hi Hj; apply expm_entry_cv; assumption|].
  intros E HE.
  assert (Hall : forall i j, (i < n)%nat -> (j < n)%nat -> E i j = sumR (fun k => V i k * exp (lam k) * V j k) n).
  { intros i j Hi Hj. exact (uniqueness_sum _ _ _ (HE i j Hi Hj) (expm_entry_cv i j Hi Hj)). }
  split; [exact Hall|].
  intros i Hi. rewrite (Hall i i Hi Hi). apply sumR_ext. intros; ring.
Qed.
End SpectralR.

(* ------------------------------------------------------------------ Part C: the series converges for every matrix *)
Section Total.
Variables (n : nat) (A : nat -> nat -> R).
Let c : R := sumR (fun i => sumR (fun j => Rabs (A i j)) n) n.

Lemma c_nonneg : 0 <= c.
Proof. apply sumR_nonneg. intros i _. apply sumR_nonneg. intros j _. apply Rabs_pos. Qed.

Lemma row_le_c i : (i < n)%nat -> sumR (fun j => Rabs (A i j)) n <= c.
Proof.
  intros Hi. apply (sumR_term_le (fun i => sumR (fun j => Rabs (A i j)) n) n i); [|exact Hi].
  intros k _. apply sumR_nonneg. intros j _. apply Rabs_pos.
Qed.

Lemma deltaR_abs_le i j : Rabs (deltaR i j) <= 1.
Proof. unfold deltaR. destruct (Nat.eqb i j); [rewrite Rabs_R1|rewrite Rabs_R0]; lra. Qed.

(* |(A^m)_ij| <= c^m  (i on the grid; j is only passed along) *)
Lemma mpow_bound : forall m i j, (i < n)%nat -> Rabs (mpowR n A m i j) <= c ^ m.
Proof.
  induction m as [|m IH]; intros i j Hi; cbn [mpowR pow]; [apply deltaR_abs_le|].
  unfold mmulR. eapply Rle_trans; [apply sumR_abs|].
  apply (Rle_trans _ (sumR (fun l => Rabs (A i l) * c ^ m) n)).
  - apply sumR_le. intros l Hl. rewrite Rabs_mult. apply Rmult_le_compat_l; [apply Rabs_pos|apply IH; exact Hl].
  - rewrite sumR_scal_r. apply Rmult_le_compat_r; [apply pow_le; exact c_nonneg|apply row_le_c; exact Hi].
Qed.

Lemma expm_series_cv i j : (i < n)%nat -> { l : R | infinite_sum (expm_term n A i j) l }.
Proof.
  intros Hi. apply cv_cauchy_2. apply cauchy_abs. apply cv_cauchy_1.
  apply (Rseries_CV_comp _ (fun m => / INR (fact m) * c ^ m)).
  - intros m. unfold expm_term. rewrite Rabs_mult.
    assert (Hf : 0 < / INR (fact m)) by (apply Rinv_0_lt_compat; apply INR_fact_lt_0).
    rewrite (Rabs_pos_eq (/ INR (fact m))) by lra.
    split.
    + apply Rmult_le_pos; [lra|apply Rabs_pos].
    + apply Rmult_le_compat_l; [lra|apply mpow_bound; exact Hi].
  - exists (exp c). apply exp_series.
Qed.

(* the matrix exponential as a total function of (n, A): the entrywise sum of the series on the grid, 0 outside *)
Definition expmR (i j : nat) : R :=
  match lt_dec i n with
  | left Hi => proj1_sig (expm_series_cv i j Hi)
  | right _ => 0
  end.

Theorem expmR_is_expm : is_expm n A expmR.
Proof.
  intros i j Hi _. unfold expmR. destruct (lt_dec i n) as [Hi'|Hn]; [|contradiction].
  exact (proj2_sig (expm_series_cv i j Hi')).
Qed.
End Total.

(* subgraph centrality: the diagonal of expm(A) is what the code returns, for every real symmetric-decomposed A *)
Theorem subgraph_expmR : forall n (A V : nat -> nat -> R) (lam : nat -> R),
  (forall i k, (i < n)%nat -> (k < n)%nat -> sumR (fun l => A i l * V l k) n = lam k * V i k) ->
  (forall i j, (i < n)%nat -> (j < n)%nat -> sumR (fun k => V i k * V j k) n = deltaR i j) ->
  is_expm n A (expmR n A) /\
  (forall E, is_expm n A E -> forall i j, (i < n)%nat -> (j < n)%nat -> E i j = expmR n A i j) /\
  (forall i j, (i < n)%nat -> (j < n)%nat -> expmR n A i j = sumR (fun k => V i k * exp (lam k) * V j k) n) /\
  (forall i, (i < n)%nat -> expmR n A i i = sumR (fun k => V i k * V i k * exp (lam k)) n).
Proof.
  intros n A V lam Heig Horth.
  pose proof (expmR_is_expm n A) as HE.
  destruct (subgraph_expm n A V lam Heig Horth) as [_ Hu]. destruct (Hu _ HE) as [H1 H2].
  split; [exact HE|]. split; [|split; assumption].
  intros E HE' i j Hi Hj. exact (is_expm_unique n A E _ HE' HE i j Hi Hj).
Qed.

(* ------------------------------------------------------------------ Part D: the rational statement of Properties/C18.v *)
Lemma Q2R_sumQ f n : Q2R (sumQ f n) = sumR (fun k => Q2R (f k)) n.
Proof. induction n; cbn [sumQ sumR]; [unfold Q2R; cbn; lra|]. rewrite Q2R_plus, IHn. reflexivity. Qed.

Lemma Q2R_inject_Z' z : Q2R (inject_Z z) = IZR z.
Proof. unfold Q2R, inject_Z. cbn [Qnum Qden]. rewrite Rinv_1. ring. Qed.

Lemma Q2R_delta i j : Q2R (delta i j) = deltaR i j.
Proof. unfold delta, deltaR. destruct (Nat.eqb i j); unfold Q2R; cbn; lra. Qed.

Lemma factZ_pos m : (0 < factZ m)%Z.
Proof. induction m; cbn [factZ]; [lia|]. apply Z.mul_pos_pos; [lia|exact IHm]. Qed.

Lemma IZR_factZ m : IZR (factZ m) = INR (fact m).
Proof.
  induction m; [cbn; reflexivity|].
  change (factZ (S m)) with (Z.of_nat (S m) * factZ m)%Z. change (fact (S m)) with (S m * fact m)%nat.
  rewrite mult_IZR, mult_INR, IHm, <- INR_IZR_INZ. reflexivity.
Qed.

Lemma Q2R_expcoef t : Q2R (1 / inject_Z (factZ t)) = / INR (fact t).
Proof.
  unfold Qdiv. rewrite Q2R_mult, Q2R_inv.
  - rewrite Q2R_inject_Z', IZR_factZ. unfold Q2R. cbn. lra.
  - intros E. pose proof (factZ_pos t) as Hp. unfold Qeq, inject_Z in E. cbn [Qnum Qden] in E. lia.
Qed.

(* Horner evaluation of the coefficient list 1/a!, 1/(a+1)!, ... = the finite sum *)
Lemma Q2R_peval_exp : forall len a x,
  Q2R (peval (map (fun t => (1 / inject_Z (factZ t))%Q) (seq a len)) x)
  = sumR (fun t => / INR (fact (a + t)) * Q2R x ^ t) len.
Proof.
  induction len as [|len IH]; intros a x.
  - cbn [seq map peval sumR]. unfold Q2R. cbn. lra.
  - cbn [seq map peval]. rewrite (Qeq_eqR _ _ (Qred_correct _)). rewrite Q2R_plus, Q2R_mult, (IH (S a) x), Q2R_expcoef.
    rewrite sumR_shift. rewrite Nat.add_0_r. cbn [pow]. rewrite <- sumR_scal.
    f_equal; [ring|]. apply sumR_ext. intros t _. rewrite Nat.add_succ_r. cbn [pow plus]. ring.
Qed.

Lemma Q2R_peval_expcoef m x :
  Q2R (peval (expcoef m) x) = sum_f_R0 (fun t => / INR (fact t) * Q2R x ^ t) m.
Proof. unfold expcoef. rewrite (Q2R_peval_exp (S m) 0 x). rewrite sum_f_R0_sumR_S. apply sumR_ext. intros; reflexivity. Qed.

Lemma fold_right_Rplus_snoc l x : fold_right Rplus 0 (l ++ [x]) = fold_right Rplus 0 l + x.
Proof. induction l as [|y l IH]; cbn [app fold_right]; [ring|]. rewrite IH. ring. Qed.

Lemma fold_seq_sumR f n : fold_right Rplus 0 (map f (seq 0 n)) = sumR f n.
Proof.
  induction n; [reflexivity|]. rewrite seq_S, map_app. cbn [map plus]. rewrite fold_right_Rplus_snoc, IHn. reflexivity.
Qed.

(* the rational hypotheses transfer to the reals *)
Lemma hyps_Q2R n (A V : mat Q) (lam : vec Q) :
  (forall i k, (i < n)%nat -> (k < n)%nat -> (sumQ (fun l => A i l * V l k) n == lam k * V i k)%Q) ->
  (forall i j, (i < n)%nat -> (j < n)%nat -> (sumQ (fun k => V i k * V j k) n == delta i j)%Q) ->
  (forall i k, (i < n)%nat -> (k < n)%nat ->
     sumR (fun l => Q2R (A i l) * Q2R (V l k)) n = Q2R (lam k) * Q2R (V i k)) /\
  (forall i j, (i < n)%nat -> (j < n)%nat -> sumR (fun k => Q2R (V i k) * Q2R (V j k)) n = deltaR i j).
Proof.
  intros H1 H2. split.
  - intros i k Hi Hk. rewrite <- Q2R_mult, <- (Qeq_eqR _ _ (H1 i k Hi Hk)), Q2R_sumQ.
    apply sumR_ext. intros; rewrite Q2R_mult; reflexivity.
  - intros i j Hi Hj. rewrite <- Q2R_delta, <- (Qeq_eqR _ _ (H2 i j Hi Hj)), Q2R_sumQ.
    apply sumR_ext. intros; rewrite Q2R_mult; reflexivity.
Qed.

(* `C18_subgraph_full_statement` of Properties/C18.v, word for word *)
Theorem subgraph_expm_rational :
  forall n (A V : mat Q) (lam : vec Q),
  (forall i k, (i < n)%nat -> (k < n)%nat -> (sumQ (fun l => A i l * V l k) n == lam k * V i k)%Q) ->
  (forall i j, (i < n)%nat -> (j < n)%nat -> (sumQ (fun k => V i k * V j k) n == delta i j)%Q) ->
  forall i, (i < n)%nat ->
  forall eps : R, 0 < eps ->
  exists m0, forall m, (m0 <= m)%nat ->
    Rabs (Q2R (pevalM n (expcoef m) A i i)
          - fold_right Rplus 0 (map (fun k => Q2R (V i k * V i k) * exp (Q2R (lam k))) (seq 0 n))) < eps.
Proof.
  intros n A V lam H1 H2 i Hi eps He.
  assert (Hcv : Un_cv (fun m => Q2R (pevalM n (expcoef m) A i i))
                      (sumR (fun k => Q2R (V i k * V i k) * exp (Q2R (lam k))) n)).
  { apply (Un_cv_ext _ (fun m => sumR (fun k => Q2R (V i k * V i k)
                                   * sum_f_R0 (fun t => / INR (fact t) * Q2R (lam k) ^ t) m * 1) n)).
    - intros m. rewrite (Qeq_eqR _ _ (subgraph_poly n A V lam H1 H2 (expcoef m) i Hi)).
      unfold spectral_diag. rewrite Q2R_sumQ. apply sumR_ext. intros k _.
      rewrite Q2R_mult, Q2R_peval_expcoef. ring.
    - apply (Un_cv_ext _ (fun m => sumR (fun k => Q2R (V i k * V i k)
                                   * sum_f_R0 (fun t => / INR (fact t) * Q2R (lam k) ^ t) m * 1) n));
        [reflexivity|].
      assert (E : sumR (fun k => Q2R (V i k * V i k) * exp (Q2R (lam k))) n
                  = sumR (fun k => Q2R (V i k * V i k) * exp (Q2R (lam k)) * 1) n)
        by (apply sumR_ext; intros; ring).
      rewrite E.
      apply (Un_cv_sumR (fun k m => Q2R (V i k * V i k) * sum_f_R0 (fun t => / INR (fact t) * Q2R (lam k) ^ t) m * 1)
                        (fun k => Q2R (V i k * V i k) * exp (Q2R (lam k)) * 1)).
      intros k _. apply Un_cv_scal. apply exp_series. }
  destruct (Hcv eps He) as [m0 Hm0]. exists m0. intros m Hm.
  rewrite fold_seq_sumR. exact (Hm0 m Hm).
Qed.

(* and the limit in that statement IS the diagonal of the matrix exponential of the (real image of the) matrix *)
Theorem subgraph_expm_rational_value :
  forall n (A V : mat Q) (lam : vec Q),
  (forall i k, (i < n)%nat -> (k < n)%nat -> (sumQ (fun l => A i l * V l k) n == lam k * V i k)%Q) ->
  (forall i j, (i < n)%nat -> (j < n)%nat -> (sumQ (fun k => V i k * V j k) n == delta i j)%Q) ->
  forall i, (i < n)%nat ->
  expmR n (fun a b => Q2R (A a b)) i i = sumR (fun k => Q2R (V i k * V i k) * exp (Q2R (lam k))) n.
Proof.
  intros n A V lam H1 H2 i Hi.
  destruct (hyps_Q2R n A V lam H1 H2) as [R1 R2].
  destruct (subgraph_expmR n (fun a b => Q2R (A a b)) (fun a b => Q2R (V a b)) (fun k => Q2R (lam k)) R1 R2)
    as [_ [_ [_ Hd]]].
  rewrite (Hd i Hi). apply sumR_ext. intros k _. rewrite Q2R_mult. reflexivity.
Qed.

(* the rational truncations of Model/Linear.v (Horner form, Qred, tab) ARE the partial sums of the real series of the
   real image of the matrix: the sequence in the statement above is expm_partial, term for term *)
Lemma Q2R_pevalM_exp n (A : mat Q) : forall len a i j, (i < n)%nat -> (j < n)%nat ->
  Q2R (pevalM n (map (fun t => (1 / inject_Z (factZ t))%Q) (seq a len)) A i j)
  = sumR (fun t => / INR (fact (a + t)) * mpowR n (fun x y => Q2R (A x y)) t i j) len.
Proof.
  induction len as [|len IH]; intros a i j Hi Hj.
  - cbn [seq map pevalM sumR]. unfold zeroQ, Q2R. cbn. lra.
  - cbn [seq map pevalM]. rewrite Q2R_plus, Q2R_mult, Q2R_expcoef, Q2R_delta. unfold mmulQ. rewrite Q2R_sumQ.
    rewrite (sumR_ext _ (fun k => Q2R (A i k)
               * sumR (fun t => / INR (fact (S a + t)) * mpowR n (fun x y => Q2R (A x y)) t k j) len)).
    2:{ intros k Hk. rewrite Q2R_mult. rewrite tab_spec by assumption.
        rewrite (Qeq_eqR _ _ (Qred_correct _)). rewrite (IH (S a) k j Hk Hj). reflexivity. }
    rewrite sumR_swap_scal. rewrite sumR_shift. rewrite Nat.add_0_r. cbn [mpowR].
    f_equal. apply sumR_ext. intros t _. rewrite Nat.add_succ_r. cbn [plus]. unfold mmulR.
    rewrite <- sumR_scal. apply sumR_ext. intros k _. ring.
Qed.

Theorem pevalM_expcoef_partial n (A : mat Q) m i j : (i < n)%nat -> (j < n)%nat ->
  Q2R (pevalM n (expcoef m) A i j) = expm_partial n (fun x y => Q2R (A x y)) m i j.
Proof.
  intros Hi Hj. unfold expcoef, expm_partial. rewrite (Q2R_pevalM_exp n A (S m) 0 i j Hi Hj).
  rewrite sum_f_R0_sumR_S. apply sumR_ext. intros; reflexivity.
Qed.

(* ------------------------------------------------------------------ non-vacuity *)
(* K_2 = [[0,1],[1,0]]: eigenvalues 1, -1; eigenvectors (1,1)/sqrt 2, (1,-1)/sqrt 2 — an IRRATIONAL eigenbasis, which the
   rational theorems cannot take but the real one can.  Subgraph centrality of both nodes = (e + 1/e)/2 = cosh 1. *)
Definition K2 : nat -> nat -> R := fun i j => if Nat.eqb i j then 0 else 1.
Definition K2V : nat -> nat -> R :=
  fun i k => match i, k with 1%nat, 1%nat => - / sqrt 2 | _, _ => / sqrt 2 end.
Definition K2lam : nat -> R := fun k => match k with O => 1 | _ => -1 end.

Lemma inv_sqrt2_sq : / sqrt 2 * / sqrt 2 = / 2.
Proof. rewrite <- Rinv_mult. rewrite sqrt_sqrt by lra. reflexivity. Qed.

Example subgraph_expm_nonvacuous :
  (forall i k, (i < 2)%nat -> (k < 2)%nat -> sumR (fun l => K2 i l * K2V l k) 2 = K2lam k * K2V i k) /\
  (forall i j, (i < 2)%nat -> (j < 2)%nat -> sumR (fun k => K2V i k * K2V j k) 2 = deltaR i j) /\
  (forall i, (i < 2)%nat -> expmR 2 K2 i i = (exp 1 + exp (-1)) / 2).
Proof.
  assert (Heig : forall i k, (i < 2)%nat -> (k < 2)%nat -> sumR (fun l => K2 i l * K2V l k) 2 = K2lam k * K2V i k).
  { intros i k Hi Hk. destruct i as [|[|i]]; [| |lia]; (destruct k as [|[|k]]; [| |lia]);
      cbn [sumR K2 K2V K2lam Nat.eqb]; ring. }
  assert (Horth : forall i j, (i < 2)%nat -> (j < 2)%nat -> sumR (fun k => K2V i k * K2V j k) 2 = deltaR i j).
  { pose proof inv_sqrt2_sq as Hs.
    intros i j Hi Hj. destruct i as [|[|i]]; [| |lia]; (destruct j as [|[|j]]; [| |lia]);
      cbn [sumR K2V deltaR Nat.eqb]; nra. }
  split; [exact Heig|]. split; [exact Horth|].
  intros i Hi. destruct (subgraph_expmR 2 K2 K2V K2lam Heig Horth) as [_ [_ [_ Hd]]]. rewrite (Hd i Hi).
  assert (Ha : / sqrt 2 * / sqrt 2 * exp 1 = / 2 * exp 1) by (rewrite inv_sqrt2_sq; reflexivity).
  assert (Hb : / sqrt 2 * / sqrt 2 * exp (-1) = / 2 * exp (-1)) by (rewrite inv_sqrt2_sq; reflexivity).
  destruct i as [|[|i]]; [| |lia]; cbn [sumR K2V K2lam]; nra.
Qed.
