(* Proofs/ModularitySums.v — sum toolkit for the modularity model: sumR == sumQ, tabulation, indicator collapse,
   Fubini-style identities for module sums and aggregated matrices; np.unique relabelling. *)
From Coq Require Import QArith Qring Qfield Lia Lqa Arith List Bool ZArith Setoid Morphisms Sorted.
From BCT Require Import Base.Mat Base.SumQ Base.ListX Model.Modularity.
Import ListNotations.
Open Scope Q_scope.

(* ---------- sumR is sumQ ---------- *)
Lemma sumR_sumQ f n : sumR f n == sumQ f n.
Proof. induction n; cbn [sumR sumQ]; [reflexivity|]. rewrite Qred_correct, IHn. reflexivity. Qed.

Lemma sumR_ext_Q f g n : (forall i, (i < n)%nat -> f i == g i) -> sumR f n == sumQ g n.
Proof. intros H. rewrite sumR_sumQ. apply sumQ_ext; exact H. Qed.

Lemma sum2R_sum2Q f n : sum2R f n == sum2Q f n.
Proof. unfold sum2R, sum2Q. apply sumR_ext_Q; intros. apply sumR_sumQ. Qed.

Lemma sum2R_ext_Q f g n : (forall i j, (i < n)%nat -> (j < n)%nat -> f i j == g i j) -> sum2R f n == sum2Q g n.
Proof. intros H. rewrite sum2R_sum2Q. apply sum2Q_ext; exact H. Qed.

Lemma tabQ_spec n m f i j : (i < n)%nat -> (j < m)%nat -> tabQ n m f i j == f i j.
Proof. intros Hi Hj. unfold tabQ. rewrite tab_spec by assumption. apply Qred_correct. Qed.
Lemma tabvQ_spec n f i : (i < n)%nat -> tabvQ n f i == f i.
Proof. intros Hi. unfold tabvQ. rewrite tabv_spec by assumption. apply Qred_correct. Qed.

(* ---------- generic sumQ facts ---------- *)
Lemma sumQ_const_mul_l c f n : sumQ (fun i => c * f i) n == c * sumQ f n.
Proof. apply sumQ_scal. Qed.

Lemma sumQ_prod a b n m :
  sumQ (fun i => sumQ (fun j => a i * b j) m) n == sumQ a n * sumQ b m.
Proof.
  rewrite (sumQ_ext _ (fun i => a i * sumQ b m)).
  - apply sumQ_scal_r.
  - intros i _. apply sumQ_scal.
Qed.

Lemma sumQ_opp f n : sumQ (fun i => - f i) n == - sumQ f n.
Proof. induction n; simpl; [ring|]. rewrite IHn. ring. Qed.

Lemma is_sym a b : is_ a b = is_ b a.
Proof. unfold is_. rewrite Nat.eqb_sym. reflexivity. Qed.
Lemma is_refl a : is_ a a = 1.
Proof. unfold is_. rewrite Nat.eqb_refl. reflexivity. Qed.
Lemma is_neq a b : a <> b -> is_ a b = 0.
Proof. unfold is_. intros H. destruct (Nat.eqb_spec a b); [contradiction|reflexivity]. Qed.
Lemma is_sq a b : is_ a b * is_ a b == is_ a b.
Proof. unfold is_. destruct (Nat.eqb a b); simpl; ring. Qed.

Lemma collapse (f : nat -> Q) m c : (c < m)%nat -> sumQ (fun u => is_ c u * f u) m == f c.
Proof. apply sumQ_ind_collapse. Qed.
Lemma collapse' (f : nat -> Q) m c : (c < m)%nat -> sumQ (fun u => is_ u c * f u) m == f c.
Proof. intros H. rewrite <- (collapse f m c H). apply sumQ_ext; intros. rewrite is_sym. reflexivity. Qed.
Lemma collapse_r (f : nat -> Q) m c : (c < m)%nat -> sumQ (fun u => f u * is_ c u) m == f c.
Proof. intros H. rewrite <- (collapse f m c H). apply sumQ_ext; intros. ring. Qed.

Lemma is_sum1 c K : (c < K)%nat -> sumQ (fun t => is_ c t) K == 1.
Proof.
  intros H. rewrite <- (collapse (fun _ => 1) K c H) at 1. apply sumQ_ext; intros. ring.
Qed.

Lemma delta_expand lb i j K : (lb i < K)%nat -> delta lb i j == sumQ (fun t => is_ (lb i) t * is_ (lb j) t) K.
Proof.
  intros H. rewrite (collapse (fun t => is_ (lb j) t) K (lb i) H). unfold delta. rewrite is_sym. reflexivity.
Qed.
Lemma delta_sym lb i j : delta lb i j = delta lb j i.
Proof. unfold delta. apply is_sym. Qed.

(* ---------- module sums ---------- *)
Definition msum (n : nat) (lb : vec nat) (t : nat) (f : vec Q) : Q := sumQ (fun j => is_ (lb j) t * f j) n.

Lemma msum_ext n lb t f g : (forall j, (j < n)%nat -> f j == g j) -> msum n lb t f == msum n lb t g.
Proof. intros H. apply sumQ_ext; intros j Hj. rewrite (H j Hj). reflexivity. Qed.

Lemma km_of_spec n deg lb t : km_of n deg lb t == msum n lb t deg.
Proof. unfold km_of, msum. apply sumR_sumQ. Qed.
Lemma knm_of_spec n M lb i t : knm_of n M lb i t == msum n lb t (fun j => M i j).
Proof. unfold knm_of, msum. apply sumR_sumQ. Qed.
Lemma rowsum_spec n A i : rowsum n A i == sumQ (fun t => A i t) n.
Proof. apply sumR_sumQ. Qed.
Lemma colsum_spec n A t : colsum n A t == sumQ (fun i => A i t) n.
Proof. apply sumR_sumQ. Qed.
Lemma stot_spec n A : stot n A == sum2Q A n.
Proof. apply sum2R_sum2Q. Qed.

(* sum over modules of a module sum = plain sum *)
Lemma msum_total n K lb f : (forall j, (j < n)%nat -> (lb j < K)%nat) ->
  sumQ (fun t => msum n lb t f) K == sumQ f n.
Proof.
  intros Hl. unfold msum. rewrite sumQ_fubini. apply sumQ_ext; intros j Hj.
  rewrite sumQ_scal_r. rewrite is_sum1 by auto. ring.
Qed.

(* pair sums over same-label pairs factor through module sums *)
Lemma pair_outer n K lb x y : (forall j, (j < n)%nat -> (lb j < K)%nat) ->
  sum2Q (fun i j => delta lb i j * (x i * y j)) n == sumQ (fun t => msum n lb t x * msum n lb t y) K.
Proof.
  intros Hl. unfold sum2Q.
  rewrite (sumQ_ext _ (fun i => sumQ (fun t => sumQ (fun j => (is_ (lb i) t * x i) * (is_ (lb j) t * y j)) n) K)).
  - rewrite sumQ_fubini. apply sumQ_ext; intros t Ht. unfold msum. apply sumQ_prod.
  - intros i Hi. rewrite sumQ_fubini. apply sumQ_ext; intros j Hj.
    rewrite (delta_expand lb i j K) by auto.
    rewrite <- sumQ_scal_r. apply sumQ_ext; intros t Ht. ring.
Qed.

(* ---------- aggregated matrix ---------- *)
Lemma agg_spec n W lb a b :
  agg n W lb a b == sumQ (fun i => sumQ (fun j => is_ (lb i) a * is_ (lb j) b * W i j) n) n.
Proof. unfold agg. apply sumR_ext_Q; intros. apply sumR_sumQ. Qed.

Lemma agg_ext n W W' lb a b : (forall i j, (i < n)%nat -> (j < n)%nat -> W i j == W' i j) ->
  agg n W lb a b == agg n W' lb a b.
Proof.
  intros H. rewrite !agg_spec. apply sumQ_ext; intros i Hi. apply sumQ_ext; intros j Hj. rewrite H by auto. reflexivity.
Qed.

Lemma agg_transp n W lb a b : agg n (transp W) lb a b == agg n W lb b a.
Proof.
  rewrite !agg_spec. rewrite sumQ_fubini. apply sumQ_ext; intros i Hi. apply sumQ_ext; intros j Hj.
  unfold transp. ring.
Qed.

Lemma agg_sym n W lb a b : (forall i j, (i < n)%nat -> (j < n)%nat -> W i j == W j i) ->
  agg n W lb a b == agg n W lb b a.
Proof. intros H. rewrite <- agg_transp. apply agg_ext. intros i j Hi Hj. unfold transp. apply H; auto. Qed.

(* trace of the aggregate = sum over same-label pairs *)
Lemma trace_agg n K W lb : (forall i, (i < n)%nat -> (lb i < K)%nat) ->
  sumQ (fun t => agg n W lb t t) K == sum2Q (fun i j => delta lb i j * W i j) n.
Proof.
  intros Hl.
  rewrite (sumQ_ext _ (fun t => sumQ (fun i => sumQ (fun j => is_ (lb i) t * is_ (lb j) t * W i j) n) n))
    by (intros; apply agg_spec).
  rewrite sumQ_fubini. apply sumQ_ext; intros i Hi.
  rewrite sumQ_fubini. apply sumQ_ext; intros j Hj.
  rewrite (delta_expand lb i j K) by auto. rewrite <- sumQ_scal_r. apply sumQ_ext; intros; ring.
Qed.

(* column / row sums of the aggregate are module sums of the column / row sums *)
Lemma agg_colsum n K W lb t : (forall i, (i < n)%nat -> (lb i < K)%nat) ->
  sumQ (fun u => agg n W lb u t) K == msum n lb t (fun j => sumQ (fun i => W i j) n).
Proof.
  intros Hl.
  rewrite (sumQ_ext _ (fun u => sumQ (fun i => sumQ (fun j => is_ (lb i) u * is_ (lb j) t * W i j) n) n))
    by (intros; apply agg_spec).
  rewrite sumQ_fubini.
  rewrite (sumQ_ext _ (fun i => sumQ (fun j => is_ (lb j) t * W i j) n)).
  - rewrite sumQ_fubini. unfold msum. apply sumQ_ext; intros j Hj. rewrite sumQ_scal. reflexivity.
  - intros i Hi. rewrite sumQ_fubini. apply sumQ_ext; intros j Hj.
    rewrite (sumQ_ext _ (fun u => is_ (lb i) u * (is_ (lb j) t * W i j))) by (intros; ring).
    rewrite sumQ_scal_r. rewrite is_sum1 by auto. ring.
Qed.

Lemma agg_rowsum n K W lb t : (forall i, (i < n)%nat -> (lb i < K)%nat) ->
  sumQ (fun v => agg n W lb t v) K == msum n lb t (fun i => sumQ (fun j => W i j) n).
Proof.
  intros Hl.
  rewrite (sumQ_ext _ (fun v => agg n (transp W) lb v t)) by (intros; symmetry; apply agg_transp).
  rewrite agg_colsum by auto. apply msum_ext. intros; reflexivity.
Qed.

Lemma agg_total n K W lb : (forall i, (i < n)%nat -> (lb i < K)%nat) ->
  sum2Q (agg n W lb) K == sum2Q W n.
Proof.
  intros Hl. unfold sum2Q.
  rewrite (sumQ_ext _ (fun t => msum n lb t (fun i => sumQ (fun j => W i j) n))) by (intros; apply agg_rowsum; auto).
  apply msum_total; auto.
Qed.

(* aggregating an aggregate = aggregating by the composed labels *)
Lemma agg_compose n K W lb1 lb2 a b : (forall i, (i < n)%nat -> (lb1 i < K)%nat) ->
  agg K (agg n W lb1) lb2 a b == agg n W (fun i => lb2 (lb1 i)) a b.
Proof.
  intros Hl. rewrite (agg_spec K), (agg_spec n).
  rewrite (sumQ_ext _ (fun u => sumQ (fun i => sumQ (fun j =>
            is_ (lb1 i) u * (is_ (lb2 u) a * sumQ (fun v => is_ (lb1 j) v * (is_ (lb2 v) b * W i j)) K)) n) n)).
  - rewrite sumQ_fubini. apply sumQ_ext; intros i Hi.
    rewrite sumQ_fubini. apply sumQ_ext; intros j Hj.
    rewrite (collapse (fun u => is_ (lb2 u) a * sumQ (fun v => is_ (lb1 j) v * (is_ (lb2 v) b * W i j)) K) K (lb1 i)) by auto.
    rewrite (collapse (fun v => is_ (lb2 v) b * W i j) K (lb1 j)) by auto. ring.
  - intros u Hu.
    rewrite (sumQ_ext _ (fun v => sumQ (fun i => sumQ (fun j =>
              is_ (lb1 i) u * (is_ (lb2 u) a * (is_ (lb1 j) v * (is_ (lb2 v) b * W i j)))) n) n)).
    + rewrite sumQ_fubini. apply sumQ_ext; intros i Hi. rewrite sumQ_fubini. apply sumQ_ext; intros j Hj.
      rewrite <- !sumQ_scal. reflexivity.
    + intros v Hv. rewrite agg_spec. rewrite <- sumQ_scal. apply sumQ_ext; intros i Hi.
      rewrite <- sumQ_scal. apply sumQ_ext; intros j Hj. ring.
Qed.

(* np.sum(np.dot(a, b)) = sum_t colsum_a(t) * rowsum_b(t) *)
Lemma sumdot_spec K a b :
  sumdot K a b == sumQ (fun t => sumQ (fun u => a u t) K * sumQ (fun v => b t v) K) K.
Proof.
  unfold sumdot.
  rewrite (sumR_ext_Q _ (fun u => sumQ (fun v => sumQ (fun t => a u t * b t v) K) K)).
  2:{ intros. apply sumR_ext_Q; intros. apply sumR_sumQ. }
  rewrite (sumQ_ext _ (fun u => sumQ (fun t => sumQ (fun v => a u t * b t v) K) K))
    by (intros; apply sumQ_fubini).
  rewrite sumQ_fubini. apply sumQ_ext; intros t Ht. apply sumQ_prod.
Qed.

Lemma trace_spec K w : trace K w == sumQ (fun t => w t t) K.
Proof. apply sumR_sumQ. Qed.

(* ---------- np.unique(return_inverse) ---------- *)
Lemma In_insert_uniq x y l : In x (insert_uniq y l) <-> x = y \/ In x l.
Proof.
  induction l as [|a l IH]; cbn [insert_uniq].
  - cbn. intuition.
  - destruct (y <? a)%Z; [cbn; intuition|].
    destruct (Z.eqb_spec y a) as [->|Hne]; [cbn; intuition|].
    cbn [In]. rewrite IH. intuition.
Qed.

Lemma In_uniq_sorted x l : In x (uniq_sorted l) <-> In x l.
Proof.
  induction l as [|a l IH]; cbn [uniq_sorted fold_right]; [reflexivity|].
  fold (uniq_sorted l). rewrite In_insert_uniq, IH. cbn. intuition.
Qed.

Lemma sorted_insert_uniq y l : StronglySorted Z.lt l -> StronglySorted Z.lt (insert_uniq y l).
Proof.
  induction l as [|a l IH]; intros Hs; cbn [insert_uniq].
  - constructor; constructor.
  - inversion Hs as [|? ? Hs' Hf]; subst.
    destruct (Z.ltb_spec y a) as [Hlt|Hge].
    + constructor; [exact Hs|]. constructor; [exact Hlt|].
      rewrite Forall_forall in *. intros z Hz. specialize (Hf z Hz). lia.
    + destruct (Z.eqb_spec y a) as [->|Hne]; [exact Hs|].
      constructor; [apply IH; exact Hs'|].
      rewrite Forall_forall in *. intros z Hz. apply In_insert_uniq in Hz. destruct Hz as [->|Hz]; [lia|auto].
Qed.

Lemma sorted_uniq_sorted l : StronglySorted Z.lt (uniq_sorted l).
Proof.
  induction l as [|a l IH]; cbn [uniq_sorted fold_right]; [constructor|]. apply sorted_insert_uniq. exact IH.
Qed.

Lemma sorted_NoDup l : StronglySorted Z.lt l -> NoDup l.
Proof.
  induction 1 as [|a l Hs IH Hf]; constructor; [|exact IH].
  intros Hin. rewrite Forall_forall in Hf. specialize (Hf a Hin). lia.
Qed.

Lemma index_of_lt x l : In x l -> (index_of x l < length l)%nat.
Proof.
  induction l as [|a l IH]; cbn [index_of length In]; [tauto|]. intros H.
  destruct (Z.eqb_spec x a); [lia|]. destruct H as [H|H]; [congruence|]. specialize (IH H). lia.
Qed.

Lemma nth_index_of x l d : In x l -> nth (index_of x l) l d = x.
Proof.
  induction l as [|a l IH]; cbn [index_of In]; [tauto|]. intros H.
  destruct (Z.eqb_spec x a); [subst; reflexivity|]. destruct H as [H|H]; [congruence|]. cbn [nth]. auto.
Qed.

Lemma index_of_nth l d i : NoDup l -> (i < length l)%nat -> index_of (nth i l d) l = i.
Proof.
  revert i. induction l as [|a l IH]; intros i Hnd Hi; cbn [length] in Hi; [lia|].
  inversion Hnd as [|? ? Ha Hl]; subst. destruct i as [|i]; cbn [nth index_of].
  - rewrite Z.eqb_refl. reflexivity.
  - destruct (Z.eqb_spec (nth i l d) a) as [E|_].
    + exfalso. apply Ha. rewrite <- E. apply nth_In. lia.
    + f_equal. apply IH; [exact Hl|lia].
Qed.

Lemma In_to_list {T} n (f : vec T) u : (u < n)%nat -> In (f u) (to_list n f).
Proof. intros H. unfold to_list. apply in_map. apply in_seq. lia. Qed.
Lemma In_to_list_inv {T} n (f : vec T) x : In x (to_list n f) -> exists u, (u < n)%nat /\ f u = x.
Proof. unfold to_list. intros H. apply in_map_iff in H. destruct H as [u [E Hu]]. apply in_seq in Hu. exists u. split; [lia|exact E]. Qed.

Lemma relabel0_lt n ci u : (u < n)%nat -> (relabel0 n ci u < nlab n ci)%nat.
Proof. intros H. unfold relabel0, nlab. apply index_of_lt. apply In_uniq_sorted. apply In_to_list; exact H. Qed.

Theorem relabel0_same_partition n ci u v : (u < n)%nat -> (v < n)%nat ->
  (relabel0 n ci u = relabel0 n ci v <-> ci u = ci v).
Proof.
  intros Hu Hv. unfold relabel0. split; [|intros ->; reflexivity].
  intros E.
  rewrite <- (nth_index_of (ci u) (uniq_sorted (to_list n ci)) 0%Z) by (apply In_uniq_sorted, In_to_list; exact Hu).
  rewrite <- (nth_index_of (ci v) (uniq_sorted (to_list n ci)) 0%Z) by (apply In_uniq_sorted, In_to_list; exact Hv).
  rewrite E. reflexivity.
Qed.

(* labels are exactly the set 1..k, and equal labels <=> equal input labels *)
Theorem relabel_same_partition n ci u v : (u < n)%nat -> (v < n)%nat ->
  (relabel n ci u = relabel n ci v <-> ci u = ci v).
Proof.
  intros Hu Hv. unfold relabel. rewrite <- (relabel0_same_partition n ci u v Hu Hv). split; [intros H; injection H; auto|intros ->; reflexivity].
Qed.

Theorem relabel_range n ci :
  (forall u, (u < n)%nat -> (1 <= relabel n ci u <= nlab n ci)%nat) /\
  (forall l, (1 <= l <= nlab n ci)%nat -> exists u, (u < n)%nat /\ relabel n ci u = l).
Proof.
  split.
  - intros u Hu. unfold relabel. pose proof (relabel0_lt n ci u Hu). lia.
  - intros l Hl. unfold nlab in Hl.
    assert (Hin : In (nth (l - 1) (uniq_sorted (to_list n ci)) 0%Z) (uniq_sorted (to_list n ci))) by (apply nth_In; lia).
    pose proof (proj1 (In_uniq_sorted _ (to_list n ci)) Hin) as Hin2.
    apply In_to_list_inv in Hin2. destruct Hin2 as [u [Hu E]].
    exists u. split; [exact Hu|]. unfold relabel, relabel0. rewrite E.
    rewrite index_of_nth; [lia| |lia]. apply sorted_NoDup. apply sorted_uniq_sorted.
Qed.

(* np.unique sorts: the relabelling is monotone in the input labels *)
Lemma index_of_mono l x y : StronglySorted Z.lt l -> In x l -> In y l -> (x < y)%Z -> (index_of x l < index_of y l)%nat.
Proof.
  induction 1 as [|a l Hs IH Hf]; intros Hx Hy Hlt; [destruct Hx|].
  cbn [index_of]. rewrite Forall_forall in Hf.
  destruct (Z.eqb_spec x a) as [->|Hxa]; destruct (Z.eqb_spec y a) as [->|Hya]; try lia.
  - destruct Hx as [Hx|Hx]; [congruence|]. specialize (Hf x Hx). lia.
  - destruct Hx as [Hx|Hx]; [congruence|]. destruct Hy as [Hy|Hy]; [congruence|].
    specialize (IH Hx Hy Hlt). lia.
Qed.

Theorem relabel_monotone n ci u v : (u < n)%nat -> (v < n)%nat -> (ci u < ci v)%Z -> (relabel n ci u < relabel n ci v)%nat.
Proof.
  intros Hu Hv Hlt. unfold relabel, relabel0. apply -> Nat.succ_lt_mono.
  apply index_of_mono; [apply sorted_uniq_sorted| | |exact Hlt]; apply In_uniq_sorted, In_to_list; assumption.
Qed.
