(* Proofs/ComponentsDistanceFull.v — C16 meets C03, unconditionally: the labels of get_components agree with the
   finite off-diagonal entries of the distance_bin, breadthdist and reachdist MODELS (Model/Distance.v, property C03),
   and those models always return (no `= Some D` premise left).  Uses from C03 (only Required, never edited):
   Proofs/DistanceFull.v  (distance_bin_total, reachdist_total, reachdist_dist_correct, reachdist_correct),
   Proofs/DistanceBFS.v   (breadthdist_total, breadthdist_correct), Proofs/DistanceAgree.v (breadthdist_dist_correct). *)
From Coq Require Import QArith List Arith Bool ZArith Lia.
From BCT Require Import Base.Mat Base.ListX Model.Components Proofs.Components Model.Distance Proofs.DistanceBin
  Proofs.DistanceFull Proofs.DistanceBFS Proofs.DistanceAgree Proofs.ComponentsDistance.
Import ListNotations.
Local Open Scope nat_scope.

(* distance_bin: the run always returns, and the labels agree with its finite entries *)
Theorem agrees_with_distance_bin_total n A comps sizes :
  get_components n A = Some (comps, sizes) ->
  exists D, distance_bin n A = Some D /\
    forall u v, u < n -> v < n -> u <> v -> (nth u comps 0 = nth v comps 0 <-> D u v <> None).
Proof.
  intros Hg. destruct (distance_bin_total n A) as [D HD]. exists D. split; [exact HD|].
  exact (agrees_with_distance_bin n A comps sizes D Hg HD).
Qed.

Lemma label_iff_reachable n A comps sizes : get_components n A = Some (comps, sizes) ->
  forall u v, u < n -> v < n -> u <> v -> (nth u comps 0 = nth v comps 0 <-> reachable n (Lbin A) u v).
Proof.
  intros Hg u v Hu Hv Hne. rewrite (reachable_path n A u v Hu Hv Hne).
  exact (proj2 (components_iff_path n A comps sizes Hg) u v Hu Hv).
Qed.

(* reachdist: always returns (R, D); same label <=> D finite <=> R true (off the diagonal) *)
Theorem agrees_with_reachdist n A comps sizes :
  get_components n A = Some (comps, sizes) ->
  exists R D, reachdist n A = Some (R, D) /\
    forall u v, u < n -> v < n -> u <> v ->
      (nth u comps 0 = nth v comps 0 <-> D u v <> None) /\
      (nth u comps 0 = nth v comps 0 <-> R u v = true).
Proof.
  intros Hg. destruct (reachdist_total n A) as [[R D] Hr]. exists R, D. split; [exact Hr|].
  intros u v Hu Hv Hne.
  pose proof (label_iff_reachable n A comps sizes Hg u v Hu Hv Hne) as HL.
  pose proof (proj2 (reachdist_dist_correct n A R D Hr) u v Hu Hv) as HR.
  destruct (reachdist_correct n A R D Hr u v Hu Hv) as [_ [_ [_ HF]]].
  split.
  - rewrite HL, <- HR. exact HF.
  - rewrite HL, <- HR. reflexivity.
Qed.

(* breadthdist: always returns (R, D); same label <=> D finite <=> R true (off the diagonal) *)
Theorem agrees_with_breadthdist n A comps sizes :
  get_components n A = Some (comps, sizes) ->
  exists R D, breadthdist n A = Some (R, D) /\
    forall u v, u < n -> v < n -> u <> v ->
      (nth u comps 0 = nth v comps 0 <-> D u v <> None) /\
      (nth u comps 0 = nth v comps 0 <-> R u v = true).
Proof.
  intros Hg. destruct (breadthdist_total n A) as [[R D] Hr]. exists R, D. split; [exact Hr|].
  intros u v Hu Hv Hne.
  pose proof (label_iff_reachable n A comps sizes Hg u v Hu Hv Hne) as HL.
  pose proof (proj2 (breadthdist_dist_correct n A R D Hr) u v Hu Hv) as HR.
  destruct (breadthdist_correct n A R D Hr u v Hu Hv) as [_ [_ [_ HF]]].
  split.
  - rewrite HL, <- HR. exact HF.
  - rewrite HL, <- HR. reflexivity.
Qed.

(* the diagonal, for completeness: reachdist/breadthdist put the length of the shortest cycle there, so on a
   symmetric matrix the entry is finite exactly when the node has a connection at all (possibly a self-loop) *)
Lemma hasw_cycle_iff n A u : sym_on n A -> u < n ->
  ((exists e, hasw n A e u u) <-> exists w, w < n /\ A u w <> 0%Z).
Proof.
  intros Hs Hu. split.
  - intros [e [mid [_ [B W]]]]. destruct mid as [|m r]; cbn [bw] in W.
    + exists u. split; [exact Hu|exact W].
    + inversion B; subst. exists m. split; [assumption|]. exact (proj1 W).
  - intros [w [Hw Hnz]]. destruct (Nat.eq_dec w u) as [->|Hne].
    + exists 1, []. split; [reflexivity|]. split; [constructor|]. exact Hnz.
    + exists 2, [w]. split; [reflexivity|]. split; [constructor; [exact Hw|constructor]|].
      cbn [bw]. split; [exact Hnz|]. rewrite <- (Hs u w Hu Hw). exact Hnz.
Qed.

(* diagonal entries of reachdist / breadthdist on an accepted (symmetric) matrix: finite exactly for the nodes
   that have a connection (so an isolated node without self-loop is the only kind of node "not reaching itself") *)
Theorem reach_breadth_diag n A comps sizes Rr Dr Rb Db :
  get_components n A = Some (comps, sizes) ->
  reachdist n A = Some (Rr, Dr) -> breadthdist n A = Some (Rb, Db) ->
  forall u, u < n ->
    (Dr u u <> None <-> exists w, w < n /\ A u w <> 0%Z) /\
    (Db u u <> None <-> exists w, w < n /\ A u w <> 0%Z).
Proof.
  intros Hg Hr Hb u Hu. destruct (gc_some n A comps sizes Hg) as [Hs _].
  destruct (reachdist_correct n A Rr Dr Hr u u Hu Hu) as [_ [_ [HN _]]].
  destruct (breadthdist_correct n A Rb Db Hb u u Hu Hu) as [_ [_ [HN' _]]].
  rewrite <- (hasw_cycle_iff n A u Hs Hu). split.
  - split.
    + intros Hfin. destruct (Dr u u) as [d|] eqn:E; [|congruence].
      destruct (proj1 (reachdist_correct n A Rr Dr Hr u u Hu Hu) d E) as [k [-> _]].
      destruct (proj1 (proj2 (reachdist_correct n A Rr Dr Hr u u Hu Hu)) k) as [S1 _].
      exists k. exact (proj1 (S1 E)).
    + intros [e W] Hn. exact (proj1 HN Hn e W).
  - split.
    + intros Hfin. destruct (Db u u) as [d|] eqn:E; [|congruence].
      destruct (proj1 (proj2 (breadthdist_correct n A Rb Db Hb u u Hu Hu)) d) as [S1 _].
      exists d. exact (proj1 (S1 E)).
    + intros [e W] Hn. exact (proj1 HN' Hn e W).
Qed.
