(* Proofs/PartitionVI.v — the normalised variation of information of partition_distance lies in [0,1].
   The model is Model/PartitionReal.v (rational histograms, real entropies).  The proof is for ANY lg : Q -> R with
       lg a = lg b when a == b,   lg (a*b) = lg a + lg b (a, b > 0),   lg a <= a - 1 (a > 0)
   (three true facts about the natural logarithm; they imply lg 1 = 0, monotonicity and lg n > 0 for n > 1),
   and is then instantiated with Coq's ln (lnQ), which shows that the hypotheses are satisfiable.
       VI = 2 H(X,Y) - H(X) - H(Y) = H(X,Y) - I(X;Y),
       H(X,Y) = (1/n) sum_i lg (n / c_i) <= lg n               since every joint block has c_i >= 1 nodes,
       -I(X;Y) = (1/n) sum_i lg (a_i b_i / (n c_i)) <= (1/n) (sum_i a_i b_i / (n c_i) - n) <= 0    (Gibbs + joint_sum_le).
   This file uses Coq's axiomatised reals; Print Assumptions lists the standard-library axioms it inherits. *)
From Coq Require Import QArith Qreals Reals Lra Lqa Psatz Lia Arith List Bool ZArith.
From BCT Require Import Base.Mat Base.SumQ Base.ListX Model.Partition Model.PartitionReal Proofs.Partition Proofs.PartitionJoint.
Import ListNotations.
Local Open Scope R_scope.

(* ---------- finite real sums ---------- *)
Fixpoint sumR (f : nat -> R) (n : nat) : R := match n with O => 0 | S k => sumR f k + f k end.

Lemma sumR_ext f g n : (forall i, (i < n)%nat -> f i = g i) -> sumR f n = sumR g n.
Proof. induction n; cbn [sumR]; intros H; [reflexivity|]. rewrite IHn, (H n) by auto. reflexivity. Qed.
Lemma sumR_add f g n : sumR (fun i => f i + g i) n = sumR f n + sumR g n.
Proof. induction n; cbn [sumR]; [lra|]. rewrite IHn. lra. Qed.
Lemma sumR_scal c f n : sumR (fun i => c * f i) n = c * sumR f n.
Proof. induction n; cbn [sumR]; [lra|]. rewrite IHn. lra. Qed.
Lemma sumR_zero n : sumR (fun _ => 0) n = 0.
Proof. induction n; cbn [sumR]; [reflexivity|]. rewrite IHn. lra. Qed.
Lemma sumR_le f g n : (forall i, (i < n)%nat -> f i <= g i) -> sumR f n <= sumR g n.
Proof.
  induction n; cbn [sumR]; intros H; [lra|].
  assert (sumR f n <= sumR g n) by (apply IHn; intros; apply H; lia).
  specialize (H n (Nat.lt_succ_diag_r n)). lra.
Qed.
Lemma sumR_comb3 f g h n : sumR f n + sumR g n - 2 * sumR h n = sumR (fun i => f i + g i - 2 * h i) n.
Proof. induction n; cbn [sumR]; [lra|]. rewrite <- IHn. lra. Qed.

Lemma Q2R_0 : Q2R 0 = 0.
Proof. unfold Q2R. cbn. lra. Qed.
Lemma Q2R_1 : Q2R 1 = 1.
Proof. unfold Q2R. cbn. lra. Qed.
Lemma Q2R_pos q : (0 < q)%Q -> 0 < Q2R q.
Proof. intros H. rewrite <- Q2R_0. apply Qlt_Rlt. exact H. Qed.
Lemma Q2R_sumQ f n : Q2R (sumQ f n) = sumR (fun i => Q2R (f i)) n.
Proof. induction n; cbn [sumQ sumR]; [apply Q2R_0|]. rewrite Q2R_plus, IHn. reflexivity. Qed.
Lemma Q2R_qof n : Q2R (qof n) = INR n.
Proof. unfold qof, Q2R, inject_Z. cbn [Qnum Qden]. rewrite INR_IZR_INZ. change (IZR (Z.pos 1)) with 1. rewrite Rinv_1. lra. Qed.
Lemma sumR_const c n : sumR (fun _ => c) n = INR n * c.
Proof. induction n; [cbn; lra|]. cbn [sumR]. rewrite IHn, S_INR. lra. Qed.
Lemma Q2R_ind b : Q2R (ind b) = if b then 1 else 0.
Proof. destruct b; cbn [ind]; [apply Q2R_1|apply Q2R_0]. Qed.

(* ---------- a sum over the modules 1..K weighted by the label counts is a sum over the nodes ---------- *)
Lemma collapseR K a (F : nat -> R) : (1 <= a <= K)%nat ->
  sumR (fun u => Q2R (ind (Nat.eqb a (S u))) * F (S u)) K = F a.
Proof.
  induction K as [|K IH]; intros Ha; [lia|]. cbn [sumR]. destruct (Nat.eq_dec a (S K)) as [->|Hne].
  - rewrite Nat.eqb_refl, Q2R_ind.
    rewrite (sumR_ext _ (fun _ => 0)); [rewrite sumR_zero; lra|].
    intros u Hu. destruct (Nat.eqb_spec (S K) (S u)) as [E|_]; [lia|]. rewrite Q2R_ind. lra.
  - rewrite IH by lia. destruct (Nat.eqb_spec a (S K)) as [E|_]; [contradiction|]. rewrite Q2R_ind. lra.
Qed.

Lemma hist_node_R n (c : vec nat) K (F : nat -> R) : (forall i, (i < n)%nat -> (1 <= c i <= K)%nat) ->
  sumR (fun u => Q2R (mdz_cnt n c (S u)) * F (S u)) K = sumR (fun i => F (c i)) n.
Proof.
  induction n as [|n IH]; intros Hc.
  - cbn [sumR]. unfold mdz_cnt. cbn [sumQ]. rewrite (sumR_ext _ (fun _ => 0)); [apply sumR_zero|].
    intros u _. rewrite Q2R_0. lra.
  - cbn [sumR]. rewrite <- IH by (intros i Hi; apply Hc; lia).
    rewrite <- (collapseR K (c n) F (Hc n (Nat.lt_succ_diag_r n))). rewrite <- sumR_add.
    apply sumR_ext. intros u _. unfold mdz_cnt. cbn [sumQ]. rewrite Q2R_plus. lra.
Qed.

Lemma fold_map_seqR (g : nat -> R) K : forall s, fold_right Rplus 0 (map g (seq s K)) = sumR (fun u => g (s + u)%nat) K.
Proof.
  induction K as [|K IH]; intros s; [reflexivity|].
  rewrite seq_S, map_app, fold_right_app. cbn [map fold_right sumR].
  assert (G : forall (l : list R) a, fold_right Rplus a l = fold_right Rplus 0 l + a).
  { induction l as [|b l IHl]; intros a; cbn [fold_right]; [lra|]. rewrite IHl. lra. }
  rewrite G, IH. lra.
Qed.

Lemma qof_nz n : (0 < n)%nat -> ~ (qof n == 0)%Q.
Proof. intros Hn E. pose proof (qof_pos n Hn) as H. rewrite E in H. apply (Qlt_irrefl 0). exact H. Qed.

Lemma INR_pos n : (0 < n)%nat -> 0 < INR n.
Proof. intros Hn. apply lt_0_INR. exact Hn. Qed.

Lemma sumR_sub f g n : sumR (fun i => f i - g i) n = sumR f n - sumR g n.
Proof. induction n; cbn [sumR]; [lra|]. rewrite IHn. lra. Qed.
Lemma sumR_nonneg f n : (forall i, (i < n)%nat -> 0 <= f i) -> 0 <= sumR f n.
Proof. intros H. rewrite <- (sumR_zero n). apply sumR_le. exact H. Qed.
Lemma sumR_zero_inv f n : (forall i, (i < n)%nat -> 0 <= f i) -> sumR f n = 0 -> forall i, (i < n)%nat -> f i = 0.
Proof.
  induction n; intros Hnn Hs i Hi; [lia|]. cbn [sumR] in Hs.
  assert (H1 : 0 <= sumR f n) by (apply sumR_nonneg; intros; apply Hnn; lia).
  assert (H2 : 0 <= f n) by (apply Hnn; lia).
  destruct (Nat.eq_dec i n) as [->|Hne]; [lra|]. apply IHn; [intros; apply Hnn; lia|lra|lia].
Qed.

Section RealLog.
Variable lg : Q -> R.
Hypothesis lg_proper : forall a b, (a == b)%Q -> lg a = lg b.

(* node form of the real entropy: H = - sum_i (1/n) lg(|block of i| / n) *)
Definition entropyR_nf (n : nat) (c : vec nat) : R := - sumR (fun i => / INR n * lg (bsize n c i / qof n)%Q) n.

Lemma entropyR_node_form n c : (0 < n)%nat -> canon n c -> entropyR lg n (hist n c) = entropyR_nf n c.
Proof.
  intros Hn Hc. unfold entropyR, hist, entropyR_nf. rewrite map_map, fold_map_seqR. cbn [Nat.add]. f_equal.
  fold (qof n).
  transitivity (sumR (fun u => Q2R (mdz_cnt n c (S u)) * (/ INR n * lg (mdz_cnt n c (S u) / qof n)%Q)) (vmax n c)).
  - apply sumR_ext. intros u _. cbv zeta beta. unfold Qdiv at 1. rewrite Q2R_mult, Q2R_inv by (apply qof_nz; exact Hn).
    rewrite Q2R_qof. lra.
  - exact (hist_node_R n c (vmax n c) (fun m => / INR n * lg (mdz_cnt n c m / qof n)%Q) Hc).
Qed.

Hypothesis lg_mul : forall a b, (0 < a)%Q -> (0 < b)%Q -> lg (a * b) = lg a + lg b.
Hypothesis lg_gibbs : forall a, (0 < a)%Q -> lg a <= Q2R a - 1.

Lemma lg_1 : lg 1 = 0.
Proof.
  assert (E : lg (1 * 1) = lg 1 + lg 1) by (apply lg_mul; reflexivity).
  rewrite (lg_proper (1 * 1) 1) in E by reflexivity. lra.
Qed.

Lemma lg_inv a : (0 < a)%Q -> lg (/ a) = - lg a.
Proof.
  intros Ha. assert (Hi : (0 < / a)%Q) by (apply Qinv_lt_0_compat; exact Ha).
  pose proof (lg_mul a (/ a) Ha Hi) as E.
  rewrite (lg_proper (a * / a) 1) in E by (field; lra). rewrite lg_1 in E. lra.
Qed.

Lemma lg_mono a b : (0 < a)%Q -> (a <= b)%Q -> lg a <= lg b.
Proof.
  intros Ha Hab. assert (Hb : (0 < b)%Q) by lra.
  assert (Hq : (0 < a / b)%Q) by (apply Qlt_shift_div_l; [exact Hb|lra]).
  assert (E : lg a = lg b + lg (a / b)).
  { rewrite <- (lg_mul b (a / b) Hb Hq). apply lg_proper. field. lra. }
  pose proof (lg_gibbs (a / b) Hq) as G.
  assert (Hle : (a / b <= 1)%Q) by (apply Qle_shift_div_r; [exact Hb|lra]).
  apply Qle_Rle in Hle. rewrite Q2R_1 in Hle. lra.
Qed.

Lemma lg_n_pos n : (1 < n)%nat -> 0 < lg (qof n).
Proof.
  intros Hn. assert (Hq : (0 < qof n)%Q) by (apply qof_pos; lia).
  assert (H1 : (1 < qof n)%Q). { unfold qof. change 1%Q with (inject_Z 1). rewrite <- Zlt_Qlt. lia. }
  assert (Hi : (0 < / qof n)%Q) by (apply Qinv_lt_0_compat; exact Hq).
  pose proof (lg_gibbs (/ qof n) Hi) as G. rewrite (lg_inv (qof n) Hq) in G.
  assert (Hlt : (/ qof n < 1)%Q).
  { assert (E : (/ qof n == 1 / qof n)%Q) by (field; lra). rewrite E. apply Qlt_shift_div_r; [exact Hq|lra]. }
  apply Qlt_Rlt in Hlt. rewrite Q2R_1 in Hlt. lra.
Qed.

Definition HxR n cx := entropyR lg n (hist n (relabel n cx)).
Definition HxyR n cx cy := entropyR lg n (hist n (relabel n (joint_key n (relabel n cx) (relabel n cy)))).

Lemma pd_generalR_unfold n cx cy :
  pd_generalR lg n cx cy =
  ((2 * HxyR n cx cy - HxR n cx - HxR n cy) / lg (qof n),
   2 * (HxR n cx + HxR n cy - HxyR n cx cy) / (HxR n cx + HxR n cy)).
Proof. reflexivity. Qed.

(* 0 <= 2 H(X,Y) - H(X) - H(Y) <= lg n *)
Theorem VI_bounds n cx cy : (0 < n)%nat ->
  0 <= 2 * HxyR n cx cy - HxR n cx - HxR n cy <= lg (qof n).
Proof.
  intros Hn. unfold HxR, HxyR. rewrite !entropyR_node_form by (exact Hn || apply relabel_canon).
  set (x := relabel n cx). set (y := relabel n cy). set (xy := relabel n (joint_key n x y)).
  assert (J : forall i j, (i < n)%nat -> (j < n)%nat -> (xy i = xy j <-> x i = x j /\ y i = y j)).
  { intros i j Hi Hj. unfold xy, x, y. rewrite (joint_same n cx cy i j Hi Hj).
    rewrite (relabel_same n cx i j Hi Hj), (relabel_same n cy i j Hi Hj). reflexivity. }
  pose proof (qof_pos n Hn) as Hq. pose proof (INR_pos n Hn) as HN.
  assert (HiN : 0 < / INR n) by (apply Rinv_0_lt_compat; exact HN).
  unfold entropyR_nf.
  set (fa := fun i => / INR n * lg (bsize n x i / qof n)%Q).
  set (fb := fun i => / INR n * lg (bsize n y i / qof n)%Q).
  set (fc := fun i => / INR n * lg (bsize n xy i / qof n)%Q).
  assert (E : 2 * - sumR fc n - - sumR fa n - - sumR fb n = sumR (fun i => fa i + fb i - 2 * fc i) n).
  { rewrite <- sumR_comb3. lra. }
  rewrite E. clear E.
  assert (Hpos : forall c i, (i < n)%nat -> (0 < bsize n c i / qof n)%Q).
  { intros c i Hi. apply Qlt_shift_div_l; [exact Hq|]. pose proof (bsize_ge1 n c i Hi). lra. }
  assert (Hcx : forall i, (i < n)%nat -> (bsize n xy i <= bsize n x i)%Q).
  { intros i Hi. apply bsize_le. intros l Hl H. apply (J l i Hl Hi). exact H. }
  assert (Hcy : forall i, (i < n)%nat -> (bsize n xy i <= bsize n y i)%Q).
  { intros i Hi. apply bsize_le. intros l Hl H. apply (J l i Hl Hi). exact H. }
  assert (Hdiv : forall a b, (a <= b)%Q -> (a / qof n <= b / qof n)%Q).
  { intros a b Hab. unfold Qdiv. apply Qmult_le_compat_r; [exact Hab|]. apply Qlt_le_weak, Qinv_lt_0_compat. exact Hq. }
  split.
  - (* lower bound: refining a partition cannot lower the entropy *)
    rewrite <- (sumR_zero n). apply sumR_le. intros i Hi. unfold fa, fb, fc.
    pose proof (lg_mono _ _ (Hpos xy i Hi) (Hdiv _ _ (Hcx i Hi))) as H1.
    pose proof (lg_mono _ _ (Hpos xy i Hi) (Hdiv _ _ (Hcy i Hi))) as H2.
    nra.
  - (* upper bound *)
    set (r := fun i => (bsize n x i * bsize n y i / bsize n xy i / qof n)%Q).
    assert (Hterm : forall i, (i < n)%nat -> fa i + fb i - 2 * fc i <= / INR n * (Q2R (r i) - 1 + lg (qof n))).
    { intros i Hi. unfold fa, fb, fc.
      pose proof (bsize_ge1 n x i Hi) as Ga. pose proof (bsize_ge1 n y i Hi) as Gb. pose proof (bsize_ge1 n xy i Hi) as Gc.
      set (A := (bsize n x i / qof n)%Q). set (B := (bsize n y i / qof n)%Q). set (C := (bsize n xy i / qof n)%Q).
      assert (HA : (0 < A)%Q) by (apply Hpos; exact Hi).
      assert (HB : (0 < B)%Q) by (apply Hpos; exact Hi).
      assert (HC : (0 < C)%Q) by (apply Hpos; exact Hi).
      assert (HiC : (0 < / C)%Q) by (apply Qinv_lt_0_compat; exact HC).
      assert (HAB : (0 < A * B)%Q) by (apply Qmult_lt_0_compat; assumption).
      assert (Er : lg (r i) = lg A + lg B - lg C).
      { rewrite (lg_proper (r i) (A * B * / C)).
        - rewrite (lg_mul (A * B) (/ C) HAB HiC), (lg_mul A B HA HB), (lg_inv C HC). lra.
        - unfold r, A, B, C. field. split; lra. }
      assert (Hr : (0 < r i)%Q).
      { unfold r. apply Qlt_shift_div_l; [exact Hq|]. rewrite Qmult_0_l.
        apply Qlt_shift_div_l; [lra|]. rewrite Qmult_0_l. apply Qmult_lt_0_compat; lra. }
      pose proof (lg_gibbs (r i) Hr) as G.
      assert (Hn_c : lg (/ C) <= lg (qof n)).
      { apply lg_mono; [exact HiC|]. unfold C.
        assert (E : (/ (bsize n xy i / qof n) == qof n / bsize n xy i)%Q) by (field; split; lra).
        rewrite E. apply Qle_shift_div_r; [lra|]. nra. }
      rewrite (lg_inv C HC) in Hn_c.
      assert (Hsum : lg A + lg B - 2 * lg C <= Q2R (r i) - 1 + lg (qof n)) by lra.
      apply (Rmult_le_compat_l (/ INR n)) in Hsum; [|lra]. lra. }
    apply (Rle_trans _ _ _ (sumR_le _ _ n Hterm)).
    rewrite sumR_scal.
    assert (E : sumR (fun i => Q2R (r i) - 1 + lg (qof n)) n = Q2R (sumQ r n) - INR n + INR n * lg (qof n)).
    { rewrite Q2R_sumQ.
      rewrite (sumR_ext _ (fun i => Q2R (r i) + (-1 + lg (qof n)))) by (intros; lra).
      rewrite sumR_add, sumR_const. lra. }
    rewrite E.
    assert (Hs : (sumQ r n <= qof n)%Q).
    { unfold r.
      rewrite (sumQ_ext _ (fun i => (bsize n x i * bsize n y i / bsize n xy i) * / qof n)%Q) by (intros; reflexivity).
      rewrite sumQ_scal_r. pose proof (joint_sum_le n x y xy J) as Hj.
      apply Qle_shift_div_r; [exact Hq|]. exact Hj. }
    apply Qle_Rle in Hs. rewrite Q2R_qof in Hs.
    assert (E2 : / INR n * (Q2R (sumQ r n) - INR n + INR n * lg (qof n)) =
                 / INR n * (Q2R (sumQ r n) - INR n) + lg (qof n)) by (field; lra).
    rewrite E2.
    assert (Hneg : / INR n * (Q2R (sumQ r n) - INR n) <= 0) by nra.
    lra.
Qed.

(* the clause of the property: the normalised variation of information lies in [0,1] *)
Theorem VInR_range n cx cy : (1 < n)%nat ->
  0 <= fst (partition_distanceR lg n cx cy) <= 1.
Proof.
  intros Hn. unfold partition_distanceR. destruct (pd_trivial n cx cy); [cbn [fst]; lra|].
  rewrite pd_generalR_unfold. cbn [fst].
  pose proof (lg_n_pos n Hn) as HL. destruct (VI_bounds n cx cy) as [H0 H1]; [lia|].
  assert (Hi : 0 < / lg (qof n)) by (apply Rinv_0_lt_compat; exact HL).
  unfold Rdiv. split.
  - apply Rmult_le_pos; lra.
  - rewrite <- (Rinv_r (lg (qof n))) by lra. apply Rmult_le_compat_r; lra.
Qed.
(* ---------- the other clauses of partition_distance for the real-valued model ---------- *)
Lemma lg_strict a b : (0 < a)%Q -> (a < b)%Q -> lg a < lg b.
Proof.
  intros Ha Hab. assert (Hb : (0 < b)%Q) by lra.
  assert (Hq : (0 < a / b)%Q) by (apply Qlt_shift_div_l; [exact Hb|lra]).
  assert (E : lg a = lg b + lg (a / b)).
  { rewrite <- (lg_mul b (a / b) Hb Hq). apply lg_proper. field. lra. }
  pose proof (lg_gibbs (a / b) Hq) as G.
  assert (Hlt : (a / b < 1)%Q) by (apply Qlt_shift_div_r; [exact Hb|lra]).
  apply Qlt_Rlt in Hlt. rewrite Q2R_1 in Hlt. lra.
Qed.

Lemma lg_inj_le a b : (0 < a)%Q -> (a <= b)%Q -> lg a = lg b -> (a == b)%Q.
Proof.
  intros Ha Hab E. destruct (Qlt_le_dec a b) as [H|H]; [|lra].
  pose proof (lg_strict a b Ha H) as S. rewrite E in S. exfalso. exact (Rlt_irrefl _ S).
Qed.

Lemma entropyR_same n c c' : (0 < n)%nat -> canon n c -> canon n c' -> same_part n c c' ->
  entropyR lg n (hist n c) = entropyR lg n (hist n c').
Proof.
  intros Hn Hc Hc' H. rewrite (entropyR_node_form n c Hn Hc), (entropyR_node_form n c' Hn Hc'). unfold entropyR_nf.
  f_equal. apply sumR_ext. intros i Hi. f_equal. apply lg_proper. unfold bsize, Qdiv.
  apply Qmult_comp; [apply mdz_cnt_same; assumption|reflexivity].
Qed.

Lemma HxyR_sym n cx cy : (0 < n)%nat -> HxyR n cx cy = HxyR n cy cx.
Proof.
  intros Hn. unfold HxyR. apply entropyR_same; try exact Hn; try apply relabel_canon.
  intros i j Hi Hj. rewrite (joint_same n cx cy i j Hi Hj), (joint_same n cy cx i j Hi Hj). tauto.
Qed.

Theorem pd_generalR_symmetric n cx cy : (0 < n)%nat ->
  fst (pd_generalR lg n cx cy) = fst (pd_generalR lg n cy cx) /\
  snd (pd_generalR lg n cx cy) = snd (pd_generalR lg n cy cx).
Proof.
  intros Hn. rewrite !pd_generalR_unfold. cbn [fst snd]. rewrite (HxyR_sym n cx cy Hn).
  split.
  - replace (2 * HxyR n cy cx - HxR n cy - HxR n cx) with (2 * HxyR n cy cx - HxR n cx - HxR n cy) by lra. reflexivity.
  - replace (HxR n cy + HxR n cx) with (HxR n cx + HxR n cy) by lra. reflexivity.
Qed.

Theorem pd_generalR_partition_only n cx cy cx' cy' : (0 < n)%nat -> same_part n cx cx' -> same_part n cy cy' ->
  pd_generalR lg n cx cy = pd_generalR lg n cx' cy'.
Proof.
  intros Hn Hx Hy. rewrite !pd_generalR_unfold.
  assert (E1 : HxR n cx = HxR n cx').
  { apply entropyR_same; try exact Hn; try apply relabel_canon. apply same_part_relabel; exact Hx. }
  assert (E2 : HxR n cy = HxR n cy').
  { apply entropyR_same; try exact Hn; try apply relabel_canon. apply same_part_relabel; exact Hy. }
  assert (E3 : HxyR n cx cy = HxyR n cx' cy').
  { unfold HxyR. apply entropyR_same; try exact Hn; try apply relabel_canon.
    intros i j Hi Hj. rewrite (joint_same n cx cy i j Hi Hj), (joint_same n cx' cy' i j Hi Hj).
    rewrite (Hx i j Hi Hj), (Hy i j Hi Hj). reflexivity. }
  rewrite E1, E2, E3. reflexivity.
Qed.

Theorem partition_distanceR_symmetric n cx cy : (0 < n)%nat ->
  fst (partition_distanceR lg n cx cy) = fst (partition_distanceR lg n cy cx) /\
  snd (partition_distanceR lg n cx cy) = snd (partition_distanceR lg n cy cx).
Proof.
  intros Hn. unfold partition_distanceR. rewrite (pd_trivial_sym n cy cx).
  destruct (pd_trivial n cx cy); [split; reflexivity|apply pd_generalR_symmetric; exact Hn].
Qed.

Theorem partition_distanceR_partition_only n cx cy cx' cy' : (0 < n)%nat -> same_part n cx cx' -> same_part n cy cy' ->
  partition_distanceR lg n cx cy = partition_distanceR lg n cx' cy'.
Proof.
  intros Hn Hx Hy. unfold partition_distanceR. rewrite (pd_trivial_same n cx cy cx' cy' Hx Hy).
  destruct (pd_trivial n cx' cy'); [reflexivity|apply pd_generalR_partition_only; assumption].
Qed.

(* refining a partition cannot lower the entropy; equality forces equal block sizes *)
Lemma entropyR_nf_refine n c c' : (0 < n)%nat ->
  (forall i l, (i < n)%nat -> (l < n)%nat -> c l = c i -> c' l = c' i) ->
  entropyR_nf n c' <= entropyR_nf n c /\
  (entropyR_nf n c' = entropyR_nf n c -> forall i, (i < n)%nat -> (bsize n c i == bsize n c' i)%Q).
Proof.
  intros Hn Href. pose proof (qof_pos n Hn) as Hq. pose proof (INR_pos n Hn) as HN.
  assert (HiN : 0 < / INR n) by (apply Rinv_0_lt_compat; exact HN).
  assert (Hle : forall i, (i < n)%nat -> (bsize n c i / qof n <= bsize n c' i / qof n)%Q).
  { intros i Hi. unfold Qdiv. apply Qmult_le_compat_r; [apply bsize_le; intros l Hl; apply Href; assumption|].
    apply Qlt_le_weak, Qinv_lt_0_compat. exact Hq. }
  assert (Hpos : forall i, (i < n)%nat -> (0 < bsize n c i / qof n)%Q).
  { intros i Hi. apply Qlt_shift_div_l; [exact Hq|]. pose proof (bsize_ge1 n c i Hi). lra. }
  set (d := fun i => / INR n * lg (bsize n c' i / qof n)%Q - / INR n * lg (bsize n c i / qof n)%Q).
  assert (Hterm : forall i, (i < n)%nat -> 0 <= d i).
  { intros i Hi. unfold d. pose proof (lg_mono _ _ (Hpos i Hi) (Hle i Hi)) as Hl. nra. }
  assert (Hdiff : entropyR_nf n c - entropyR_nf n c' = sumR d n).
  { unfold entropyR_nf, d. rewrite sumR_sub. lra. }
  pose proof (sumR_nonneg _ n Hterm) as Hnn. split; [lra|].
  intros Heq i Hi.
  assert (Hz : sumR d n = 0) by lra.
  pose proof (sumR_zero_inv _ n Hterm Hz i Hi) as Hi0. unfold d in Hi0.
  assert (Hlog : lg (bsize n c i / qof n)%Q = lg (bsize n c' i / qof n)%Q).
  { apply (Rmult_eq_reg_l (/ INR n)); lra. }
  pose proof (lg_inj_le _ _ (Hpos i Hi) (Hle i Hi) Hlog) as E.
  assert (E1 : (bsize n c i == bsize n c i / qof n * qof n)%Q) by (field; lra).
  rewrite E1, E. field. lra.
Qed.

Theorem HxyR_ge n cx cy : (0 < n)%nat -> HxR n cx <= HxyR n cx cy /\ HxR n cy <= HxyR n cx cy.
Proof.
  intros Hn. unfold HxR, HxyR. rewrite !entropyR_node_form by (exact Hn || apply relabel_canon).
  split; apply entropyR_nf_refine; try exact Hn; intros i l Hi Hl H;
    apply (joint_same n cx cy l i Hl Hi) in H; apply relabel_same; tauto.
Qed.

(* VIn = 0 only for the same partition up to renaming *)
Theorem pd_generalR_VIn_zero_same n cx cy : (1 < n)%nat -> fst (pd_generalR lg n cx cy) = 0 -> same_part n cx cy.
Proof.
  intros Hn H0. rewrite pd_generalR_unfold in H0. cbn [fst] in H0.
  pose proof (lg_n_pos n Hn) as HL.
  assert (Hnum : 2 * HxyR n cx cy - HxR n cx - HxR n cy = 0).
  { apply (Rmult_eq_reg_r (/ lg (qof n))); [|apply Rinv_neq_0_compat; lra]. unfold Rdiv in H0. lra. }
  destruct (HxyR_ge n cx cy) as [H1 H2]; [lia|].
  assert (E1 : HxyR n cx cy = HxR n cx) by lra.
  assert (E2 : HxyR n cx cy = HxR n cy) by lra.
  unfold HxR, HxyR in E1, E2. rewrite !entropyR_node_form in E1, E2 by (lia || apply relabel_canon).
  set (x := relabel n cx) in *. set (y := relabel n cy) in *. set (xy := relabel n (joint_key n x y)) in *.
  assert (Rx : forall i l, (i < n)%nat -> (l < n)%nat -> xy l = xy i -> x l = x i).
  { intros i l Hi Hl H. apply (joint_same n cx cy l i Hl Hi) in H. apply relabel_same; tauto. }
  assert (Ry : forall i l, (i < n)%nat -> (l < n)%nat -> xy l = xy i -> y l = y i).
  { intros i l Hi Hl H. apply (joint_same n cx cy l i Hl Hi) in H. apply relabel_same; tauto. }
  destruct (entropyR_nf_refine n xy x) as [_ Sx]; [lia|exact Rx|].
  destruct (entropyR_nf_refine n xy y) as [_ Sy]; [lia|exact Ry|].
  specialize (Sx (eq_sym E1)). specialize (Sy (eq_sym E2)).
  intros i j Hi Hj. split; intros H.
  - assert (Hx : x j = x i) by (apply relabel_same; [exact Hj|exact Hi|symmetry; exact H]).
    pose proof (bsize_eq_blocks n xy x i Hi (fun l Hl => Rx i l Hi Hl) (Sx i Hi) j Hj Hx) as Hxy.
    apply (joint_same n cx cy j i Hj Hi) in Hxy. symmetry. tauto.
  - assert (Hy : y j = y i) by (apply relabel_same; [exact Hj|exact Hi|symmetry; exact H]).
    pose proof (bsize_eq_blocks n xy y i Hi (fun l Hl => Ry i l Hi Hl) (Sy i Hi) j Hj Hy) as Hxy.
    apply (joint_same n cx cy j i Hj Hi) in Hxy. symmetry. tauto.
Qed.

(* H >= 0, and H = 0 only for the one-block partition *)
Lemma entropyR_nf_terms n c i : (0 < n)%nat -> (i < n)%nat -> 0 <= - (/ INR n * lg (bsize n c i / qof n)%Q).
Proof.
  intros Hn Hi. pose proof (qof_pos n Hn) as Hq. pose proof (INR_pos n Hn) as HN.
  assert (HiN : 0 < / INR n) by (apply Rinv_0_lt_compat; exact HN).
  assert (Hpos : (0 < bsize n c i / qof n)%Q).
  { apply Qlt_shift_div_l; [exact Hq|]. pose proof (bsize_ge1 n c i Hi). lra. }
  assert (Hle : (bsize n c i / qof n <= 1)%Q).
  { apply Qle_shift_div_r; [exact Hq|]. pose proof (bsize_le_n n c i). lra. }
  pose proof (lg_mono _ _ Hpos Hle) as Hl. rewrite lg_1 in Hl. nra.
Qed.

Lemma entropyR_nf_opp n c :
  entropyR_nf n c = sumR (fun i => - (/ INR n * lg (bsize n c i / qof n)%Q)) n.
Proof.
  unfold entropyR_nf.
  transitivity (-1 * sumR (fun i => / INR n * lg (bsize n c i / qof n)%Q) n); [lra|].
  rewrite <- sumR_scal. apply sumR_ext. intros i _. lra.
Qed.

Lemma entropyR_nf_nonneg n c : (0 < n)%nat -> 0 <= entropyR_nf n c.
Proof. intros Hn. rewrite entropyR_nf_opp. apply sumR_nonneg. intros i Hi. apply entropyR_nf_terms; assumption. Qed.

Lemma entropyR_nf_zero_one_block n c : (0 < n)%nat -> entropyR_nf n c = 0 ->
  forall i l, (i < n)%nat -> (l < n)%nat -> c l = c i.
Proof.
  intros Hn H0 i l Hi Hl. pose proof (qof_pos n Hn) as Hq. pose proof (INR_pos n Hn) as HN.
  assert (HiN : 0 < / INR n) by (apply Rinv_0_lt_compat; exact HN).
  rewrite entropyR_nf_opp in H0.
  pose proof (sumR_zero_inv _ n (fun i Hi => entropyR_nf_terms n c i Hn Hi) H0 i Hi) as Hi0. cbn beta in Hi0.
  assert (Hlog : lg (bsize n c i / qof n)%Q = lg 1).
  { rewrite lg_1. apply (Rmult_eq_reg_l (/ INR n)); lra. }
  assert (Hpos : (0 < bsize n c i / qof n)%Q).
  { apply Qlt_shift_div_l; [exact Hq|]. pose proof (bsize_ge1 n c i Hi). lra. }
  assert (Hle : (bsize n c i / qof n <= 1)%Q).
  { apply Qle_shift_div_r; [exact Hq|]. pose proof (bsize_le_n n c i). lra. }
  pose proof (lg_inj_le _ _ Hpos Hle Hlog) as E1.
  apply (bsize_full_block n c i); [|exact Hl].
  assert (E2 : (bsize n c i == bsize n c i / qof n * qof n)%Q) by (field; lra). rewrite E2, E1. ring.
Qed.

Lemma HxR_zero_one_block n cx : (0 < n)%nat -> HxR n cx = 0 -> Nat.eqb (vmax n (relabel n cx)) 1 = true.
Proof.
  intros Hn H0. unfold HxR in H0. rewrite entropyR_node_form in H0 by (exact Hn || apply relabel_canon).
  apply one_block_iff. split; [exact Hn|]. intros i j Hi Hj. apply (relabel_same n cx i j Hi Hj).
  symmetry. apply (entropyR_nf_zero_one_block n _ Hn H0 i j Hi Hj).
Qed.

Lemma HxR_nonneg n cx : (0 < n)%nat -> 0 <= HxR n cx.
Proof.
  intros Hn. unfold HxR. rewrite entropyR_node_form by (exact Hn || apply relabel_canon).
  apply entropyR_nf_nonneg; exact Hn.
Qed.

(* same partition up to renaming => VIn = 0 and MIn = 1 *)
Theorem partition_distanceR_same n cx cy : (0 < n)%nat -> same_part n cx cy ->
  fst (partition_distanceR lg n cx cy) = 0 /\ snd (partition_distanceR lg n cx cy) = 1.
Proof.
  intros Hn H. unfold partition_distanceR. destruct (pd_trivial n cx cy) eqn:Et; [split; reflexivity|].
  rewrite pd_generalR_unfold. cbn [fst snd].
  assert (E2 : HxR n cy = HxR n cx).
  { apply entropyR_same; try exact Hn; try apply relabel_canon. apply same_part_relabel.
    intros i j Hi Hj. symmetry. apply H; assumption. }
  assert (E3 : HxyR n cx cy = HxR n cx).
  { unfold HxyR, HxR. apply entropyR_same; try exact Hn; try apply relabel_canon.
    intros i j Hi Hj. rewrite (joint_same n cx cy i j Hi Hj), (relabel_same n cx i j Hi Hj).
    pose proof (H i j Hi Hj). tauto. }
  rewrite E2, E3. split; [unfold Rdiv; ring|].
  assert (Hne : HxR n cx <> 0).
  { intros H0. pose proof (HxR_zero_one_block n cx Hn H0) as Ex.
    pose proof (one_block_same n cx cy H) as Exy. unfold pd_trivial in Et. rewrite <- Exy, Ex in Et.
    rewrite orb_true_r in Et. discriminate. }
  field. lra.
Qed.

Theorem VInR_zero_same n cx cy : (1 < n)%nat -> fst (partition_distanceR lg n cx cy) = 0 -> same_part n cx cy.
Proof.
  intros Hn. unfold partition_distanceR. destruct (pd_trivial n cx cy) eqn:Et.
  - intros _. apply pd_trivial_same_part. exact Et.
  - apply pd_generalR_VIn_zero_same; assumption.
Qed.

Theorem MInR_one_same n cx cy : (1 < n)%nat -> snd (partition_distanceR lg n cx cy) = 1 -> same_part n cx cy.
Proof.
  intros Hn. unfold partition_distanceR. destruct (pd_trivial n cx cy) eqn:Et.
  - intros _. apply pd_trivial_same_part. exact Et.
  - intros H1. apply pd_generalR_VIn_zero_same; [exact Hn|].
    rewrite pd_generalR_unfold in *. cbn [fst snd] in *.
    assert (Hn0 : (0 < n)%nat) by lia.
    pose proof (HxR_nonneg n cx Hn0) as Px. pose proof (HxR_nonneg n cy Hn0) as Py.
    assert (Hne : HxR n cx + HxR n cy <> 0).
    { intros H0. assert (Ex : HxR n cx = 0) by lra. assert (Ey : HxR n cy = 0) by lra.
      unfold pd_trivial in Et. rewrite (HxR_zero_one_block n cx Hn0 Ex), (HxR_zero_one_block n cy Hn0 Ey) in Et.
      rewrite orb_true_r in Et. discriminate. }
    assert (Hnum : 2 * (HxR n cx + HxR n cy - HxyR n cx cy) = HxR n cx + HxR n cy).
    { apply (Rmult_eq_reg_r (/ (HxR n cx + HxR n cy))); [|apply Rinv_neq_0_compat; exact Hne].
      unfold Rdiv in H1. rewrite H1. field. exact Hne. }
    assert (Hz : 2 * HxyR n cx cy - HxR n cx - HxR n cy = 0) by lra.
    rewrite Hz. unfold Rdiv. ring.
Qed.

(* together: for n > 1,  VIn = 0 <=> same partition <=> MIn = 1 *)
Theorem partition_distanceR_exactly_when n cx cy : (1 < n)%nat ->
  (fst (partition_distanceR lg n cx cy) = 0 <-> same_part n cx cy) /\
  (snd (partition_distanceR lg n cx cy) = 1 <-> same_part n cx cy).
Proof.
  intros Hn. assert (Hn0 : (0 < n)%nat) by lia. split; split.
  - apply VInR_zero_same; exact Hn.
  - intros H. apply (partition_distanceR_same n cx cy Hn0 H).
  - apply MInR_one_same; exact Hn.
  - intros H. apply (partition_distanceR_same n cx cy Hn0 H).
Qed.
End RealLog.

(* ---------- Coq's natural logarithm satisfies the three hypotheses ---------- *)
Lemma lnQ_proper a b : (a == b)%Q -> lnQ a = lnQ b.
Proof. intros E. unfold lnQ. rewrite (Qeq_eqR a b E). reflexivity. Qed.

Lemma lnQ_mul a b : (0 < a)%Q -> (0 < b)%Q -> lnQ (a * b) = lnQ a + lnQ b.
Proof. intros Ha Hb. unfold lnQ. rewrite Q2R_mult. apply ln_mult; apply Q2R_pos; assumption. Qed.

Lemma ln_le_sub1 x : 0 < x -> ln x <= x - 1.
Proof. intros Hx. pose proof (exp_ineq1_le (ln x)) as H. rewrite (exp_ln x Hx) in H. lra. Qed.

Lemma lnQ_gibbs a : (0 < a)%Q -> lnQ a <= Q2R a - 1.
Proof. intros Ha. unfold lnQ. apply ln_le_sub1. apply Q2R_pos. exact Ha. Qed.

Theorem partition_distance_ln_symmetric n cx cy : (0 < n)%nat ->
  fst (partition_distanceR lnQ n cx cy) = fst (partition_distanceR lnQ n cy cx) /\
  snd (partition_distanceR lnQ n cx cy) = snd (partition_distanceR lnQ n cy cx).
Proof. exact (partition_distanceR_symmetric lnQ lnQ_proper n cx cy). Qed.

Theorem partition_distance_ln_partition_only n cx cy cx' cy' : (0 < n)%nat -> same_part n cx cx' -> same_part n cy cy' ->
  partition_distanceR lnQ n cx cy = partition_distanceR lnQ n cx' cy'.
Proof. exact (partition_distanceR_partition_only lnQ lnQ_proper n cx cy cx' cy'). Qed.

Theorem partition_distance_ln_exactly_when n cx cy : (1 < n)%nat ->
  (fst (partition_distanceR lnQ n cx cy) = 0 <-> same_part n cx cy) /\
  (snd (partition_distanceR lnQ n cx cy) = 1 <-> same_part n cx cy).
Proof. exact (partition_distanceR_exactly_when lnQ lnQ_proper lnQ_mul lnQ_gibbs n cx cy). Qed.

Theorem partition_distance_ln_same n cx cy : (0 < n)%nat -> same_part n cx cy ->
  fst (partition_distanceR lnQ n cx cy) = 0 /\ snd (partition_distanceR lnQ n cx cy) = 1.
Proof. exact (partition_distanceR_same lnQ lnQ_proper lnQ_mul lnQ_gibbs n cx cy). Qed.

Theorem VIn_range_ln n cx cy : (1 < n)%nat -> 0 <= fst (partition_distanceR lnQ n cx cy) <= 1.
Proof. exact (VInR_range lnQ lnQ_proper lnQ_mul lnQ_gibbs n cx cy). Qed.

(* non-vacuity; the bound 1 is attained (one block against two singletons: VI = ln 2 = ln n) *)
Example VIn_range_tight :
  let cx := of_list 0%Z [7; 7]%Z in let cy := of_list 0%Z [-3; 5]%Z in
  pd_trivial 2 cx cy = false /\ fst (partition_distanceR lnQ 2 cx cy) = 1.
Proof.
  cbv zeta. split; [vm_compute; reflexivity|].
  unfold partition_distanceR.
  replace (pd_trivial 2 (of_list 0%Z [7; 7]%Z) (of_list 0%Z [-3; 5]%Z)) with false by (vm_compute; reflexivity).
  unfold pd_generalR.
  replace (pd_hists 2 (of_list 0%Z [7; 7]%Z) (of_list 0%Z [-3; 5]%Z)) with ([2#1], [1#1; 1#1], [1#1; 1#1])%Q by (vm_compute; reflexivity).
  cbn [fst]. unfold entropyR. cbn [map fold_right]. cbv zeta.
  assert (Eh : Q2R (1 / inject_Z (Z.of_nat 2)) = / 2) by (unfold Q2R; cbn; lra).
  assert (E1 : Q2R (2 / inject_Z (Z.of_nat 2)) = 1) by (unfold Q2R; cbn; lra).
  assert (E2 : Q2R (inject_Z (Z.of_nat 2)) = 2) by (unfold Q2R; cbn; lra).
  unfold lnQ. rewrite Eh, E1, E2, ln_1, ln_Rinv by lra.
  pose proof ln_lt_2. field. lra.
Qed.
