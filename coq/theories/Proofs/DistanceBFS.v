(* Proofs/DistanceBFS.v — FULL correctness and totality of breadth / breadthdist (model of the code after repo
   commit 4574619).  Queue-order argument: the queue is sorted by level, every discovered node has a recorded
   distance at most (level of the head) + 1, and every finished (black) node u has all its successors v discovered
   with recorded distance <= level(u) + 1.  At exit every discovered node is black, so by induction along any walk
   from the source the recorded distance of its end is at most the number of edges of the walk; together with
   soundness (Proofs/DistanceOther.v: every recorded distance is the edge count of a real walk) the recorded
   distance is THE minimum.  The source's own entry: 0 until the first finished node with an edge back to the
   source is processed, then the length of the shortest cycle through the source (breadthdist turns a remaining
   0 into infinity). *)
From Coq Require Import QArith List Arith Bool ZArith Lia.
From BCT Require Import Base.Mat Base.ListX Model.Distance Proofs.DistanceBase Proofs.DistanceBin Proofs.DistanceOther
  Proofs.DistanceReach Proofs.DistanceFull.
Import ListNotations.
Open Scope nat_scope.

(* ---------- small list facts ---------- *)
Fixpoint qsorted (L : nat -> nat) (q : list nat) : Prop :=
  match q with [] => True | a :: r => (forall b, In b r -> L a <= L b) /\ qsorted L r end.

Lemma qsorted_ext L L' q : (forall a, In a q -> L a = L' a) -> qsorted L q -> qsorted L' q.
Proof.
  induction q as [|a r IH]; intros E H; [exact I|]. cbn [qsorted] in *. destruct H as [H1 H2]. split.
  - intros b Hb. rewrite <- (E a (or_introl eq_refl)), <- (E b (or_intror Hb)). apply H1. exact Hb.
  - apply IH; [|exact H2]. intros x Hx. apply E. right. exact Hx.
Qed.
Lemma qsorted_snoc L q v : qsorted L q -> (forall a, In a q -> L a <= L v) -> qsorted L (q ++ [v]).
Proof.
  induction q as [|a r IH]; intros H Hv; cbn [app qsorted].
  - split; [intros b []|exact I].
  - cbn [qsorted] in H. destruct H as [H1 H2]. split.
    + intros b Hb. apply in_app_iff in Hb. destruct Hb as [Hb|[<-|[]]]; [apply H1; exact Hb|apply Hv; left; reflexivity].
    + apply IH; [exact H2|]. intros x Hx. apply Hv. right. exact Hx.
Qed.

Lemma filter_length_le {A} (f : A -> bool) l : length (filter f l) <= length l.
Proof. induction l as [|a r IH]; cbn [filter length]; [lia|]. destruct (f a); cbn [length]; lia. Qed.
Lemma filter_length_lt {A} (f g : A -> bool) l u :
  (forall x, g x = true -> f x = true) -> In u l -> f u = true -> g u = false ->
  length (filter g l) < length (filter f l).
Proof.
  intros Hgf. induction l as [|a r IH]; intros Hin Hf Hg; [destruct Hin|].
  assert (Hle : length (filter g r) <= length (filter f r)).
  { clear IH Hin. induction r as [|b r IHr]; cbn [filter length]; [lia|].
    destruct (g b) eqn:Eg; [rewrite (Hgf b Eg); cbn [length]; lia|]. destruct (f b); cbn [length]; lia. }
  cbn [filter]. destruct Hin as [->|Hin].
  - rewrite Hf, Hg. cbn [length]. lia.
  - specialize (IH Hin Hf Hg). destruct (g a) eqn:Eg; [rewrite (Hgf a Eg); cbn [length]; lia|].
    destruct (f a); cbn [length]; lia.
Qed.

Lemma all_some_total {A T} (f : A -> option T) l :
  (forall i, In i l -> exists x, f i = Some x) -> exists r, all_some (map f l) = Some r.
Proof.
  induction l as [|a r IH]; intros H; cbn [map all_some]; [eexists; reflexivity|].
  destruct (H a (or_introl eq_refl)) as [x ->].
  destruct (IH (fun i Hi => H i (or_intror Hi))) as [r' ->]. eexists; reflexivity.
Qed.

(* ====================== one source ====================== *)
Section BFSFull.
Variable n : nat.
Variable C : mat Z.
Variable s : nat.
Hypothesis Hs : s < n.

(* the recorded value, and the level of a node as a SOURCE of edges (the source itself is at level 0 whatever its
   recorded value has become) *)
Definition Tv (st : bstate) (v : nat) : nat := match bdist st v with Some k => k | None => 0 end.
Definition Lv (st : bstate) (v : nat) : nat := if Nat.eqb v s then 0 else Tv st v.

Lemma Lv_le_Tv st v : Lv st v <= Tv st v.
Proof. unfold Lv. destruct (Nat.eqb v s); lia. Qed.

Definition settled (st : bstate) (bound v : nat) : Prop :=
  color st v <> 0 /\ exists k, bdist st v = Some k /\ 1 <= k <= bound.

Record binv (st : bstate) : Prop := {
  bi_sound : bsinv n C s st;
  bi_s : color st s <> 0;
  bi_sd : exists c, bdist st s = Some c;
  bi_gray : Forall (fun v => color st v = 1) (que st);
  bi_nodup : NoDup (que st);
  bi_inq : forall v, v < n -> color st v = 1 -> In v (que st);
  bi_col : forall v, v < n -> color st v = 0 \/ color st v = 1 \/ color st v = 2;
  bi_dist : forall v, v < n -> v <> s ->
      (color st v = 0 -> bdist st v = None) /\ (color st v <> 0 -> exists k, bdist st v = Some k /\ 1 <= k);
  bi_sorted : qsorted (Lv st) (que st);
  bi_bound : forall u rest, que st = u :: rest -> forall v, v < n -> color st v <> 0 -> Tv st v <= Lv st u + 1;
  bi_black : forall b, b < n -> color st b = 2 -> forall v, v < n -> C b v <> 0%Z -> settled st (Lv st b + 1) v
}.

Lemma binv_que_lt st : binv st -> forall x, In x (que st) -> x < n.
Proof. intros I x Hx. destruct (bi_sound st I) as [_ HQ]. rewrite Forall_forall in HQ. apply HQ. exact Hx. Qed.
Lemma binv_que_gray st : binv st -> forall x, In x (que st) -> color st x = 1.
Proof. intros I x Hx. pose proof (bi_gray st I) as HG. rewrite Forall_forall in HG. apply HG. exact Hx. Qed.

(* ---------- what one visit does ---------- *)
Lemma bvisit_cases du1 st v : binv st -> v < n ->
  (color st v = 0 /\ v <> s /\
   bvisit du1 st v = mkb (vupd (color st) v 1) (vupd (bdist st) v du1) (que st ++ [v])) \/
  (color st v <> 0 /\ is0 (bdist st v) = false /\ bvisit du1 st v = st) \/
  (color st v <> 0 /\ v = s /\ bdist st s = Some 0 /\
   bvisit du1 st v = mkb (color st) (vupd (bdist st) s du1) (que st)).
Proof.
  intros I Hv. unfold bvisit. destruct (Nat.eqb_spec (color st v) 0) as [E0|En0].
  - left. split; [exact E0|]. assert (Hvs : v <> s) by (intros ->; exact (bi_s st I E0)).
    split; [exact Hvs|]. destruct (bi_dist st I v Hv Hvs) as [HN _]. rewrite (HN E0). cbn [is0]. reflexivity.
  - right. destruct (is0 (bdist st v)) eqn:Eis.
    + right. assert (Hvs : v = s).
      { destruct (Nat.eq_dec v s) as [E|Hne]; [exact E|exfalso].
        destruct (bi_dist st I v Hv Hne) as [_ HS]. destruct (HS En0) as [k [Ek Hk]]. rewrite Ek in Eis.
        destruct k; [lia|discriminate]. }
      subst v. split; [exact En0|]. split; [reflexivity|]. split; [|reflexivity].
      destruct (bdist st s) as [[|k]|]; try discriminate. reflexivity.
    + left. split; [exact En0|]. split; [reflexivity|]. destruct st; reflexivity.
Qed.

Lemma bvisit_color_nz du1 st v w : color st w <> 0 -> color (bvisit du1 st v) w = color st w.
Proof.
  intros Hw. unfold bvisit. destruct (Nat.eqb_spec (color st v) 0) as [E0|En0]; cbn [color]; [|reflexivity].
  apply vupd_other. intros ->. contradiction.
Qed.

Lemma settled_bvisit du1 st v b w : settled st b w -> settled (bvisit du1 st v) b w.
Proof.
  intros [Hc [k [Ek Hk]]]. split; [rewrite bvisit_color_nz by exact Hc; exact Hc|].
  exists k. split; [|exact Hk]. unfold bvisit.
  assert (E1 : (if is0 (bdist st v) then vupd (bdist st) v du1 else bdist st) w = Some k).
  { destruct (is0 (bdist st v)) eqn:Eis; [|exact Ek]. unfold vupd. destruct (Nat.eqb_spec w v) as [->|Hne]; [|exact Ek].
    rewrite Ek in Eis. destruct k; [lia|discriminate]. }
  destruct (Nat.eqb_spec (color st v) 0) as [E0|En0]; cbn [bdist]; [|exact E1].
  rewrite vupd_other; [exact E1|]. intros ->. contradiction.
Qed.

Lemma settled_fold du1 b w ns : forall st, settled st b w -> settled (fold_left (bvisit du1) ns st) b w.
Proof. induction ns as [|v r IH]; intros st H; cbn [fold_left]; [exact H|]. apply IH. apply settled_bvisit. exact H. Qed.

Lemma color_fold du1 w ns : forall st, color st w <> 0 -> color (fold_left (bvisit du1) ns st) w = color st w.
Proof.
  induction ns as [|v r IH]; intros st H; cbn [fold_left]; [reflexivity|].
  rewrite IH; rewrite bvisit_color_nz by exact H; [reflexivity|exact H].
Qed.

(* ---------- the inner loop (for v in ns) while u is at the head of the queue, d = level of u ---------- *)
Definition inner (u d : nat) (st : bstate) : Prop := binv st /\ (exists rest, que st = u :: rest) /\ Lv st u = d.

Lemma bvisit_inner u d st v : inner u d st -> v < n -> hasw n C (S d) s v ->
  inner u d (bvisit (Some (S d)) st v) /\ settled (bvisit (Some (S d)) st v) (d + 1) v.
Proof.
  intros [I [[rest Eq] Ed]] Hv Hw.
  assert (Hsound : bsinv n C s (bvisit (Some (S d)) st v)).
  { apply bvisit_inv; [exact (bi_sound st I)|exact Hv|]. intros k Hk. injection Hk as <-. exact Hw. }
  assert (Hun : u < n) by (apply (binv_que_lt st I); rewrite Eq; left; reflexivity).
  assert (Hug : color st u = 1) by (apply (binv_que_gray st I); rewrite Eq; left; reflexivity).
  destruct (bvisit_cases (Some (S d)) st v I Hv) as [[E0 [Hvs Est]]|[[En0 [Eis Est]]|[En0 [Evs [Es0 Est]]]]];
    rewrite Est in *; clear Est.
  - (* v white: discovered now *)
    assert (Huv : u <> v) by (intros ->; lia).
    set (st' := mkb (vupd (color st) v 1) (vupd (bdist st) v (Some (S d))) (que st ++ [v])).
    assert (HT : forall w, w <> v -> Tv st' w = Tv st w) by (intros w Hw'; unfold Tv, st'; cbn [bdist]; rewrite vupd_other by exact Hw'; reflexivity).
    assert (HTv : Tv st' v = S d) by (unfold Tv, st'; cbn [bdist]; rewrite vupd_same; reflexivity).
    assert (HL : forall w, w <> v -> Lv st' w = Lv st w) by (intros w Hw'; unfold Lv; rewrite HT by exact Hw'; reflexivity).
    assert (HLv : Lv st' v = S d) by (unfold Lv; destruct (Nat.eqb_spec v s); [contradiction|exact HTv]).
    assert (Hqv : forall x, In x (que st) -> x <> v).
    { intros x Hx ->. pose proof (binv_que_gray st I v Hx). lia. }
    split; [split; [|split]|].
    + constructor; fold st'.
      * exact Hsound.
      * cbn [color st']. rewrite vupd_other by (intros E; apply Hvs; symmetry; exact E). exact (bi_s st I).
      * cbn [bdist st']. rewrite vupd_other by (intros E; apply Hvs; symmetry; exact E). exact (bi_sd st I).
      * cbn [que color st']. apply Forall_app. split.
        -- apply Forall_forall. intros x Hx. rewrite vupd_other by (apply Hqv; exact Hx). apply (binv_que_gray st I x Hx).
        -- constructor; [apply vupd_same|constructor].
      * cbn [que st']. apply NoDup_app_intro; [exact (bi_nodup st I)|constructor; [intros []|constructor]|].
        intros z Hz [E|[]]. exact (Hqv z Hz (eq_sym E)).
      * intros w Hwn. cbn [que color st']. unfold vupd. destruct (Nat.eqb_spec w v) as [->|Hne]; intros Hc; apply in_app_iff.
        -- right. left. reflexivity.
        -- left. apply (bi_inq st I w Hwn Hc).
      * intros w Hwn. cbn [color st']. unfold vupd. destruct (Nat.eqb_spec w v); [auto|apply (bi_col st I w Hwn)].
      * intros w Hwn Hws. cbn [color bdist st']. unfold vupd. destruct (Nat.eqb_spec w v) as [->|Hne].
        -- split; [discriminate|]. intros _. exists (S d). split; [reflexivity|lia].
        -- apply (bi_dist st I w Hwn Hws).
      * cbn [que st']. apply qsorted_snoc.
        -- apply (qsorted_ext (Lv st)); [|exact (bi_sorted st I)]. intros a Ha. symmetry. apply HL. apply Hqv. exact Ha.
        -- intros a Ha. rewrite HLv, (HL a (Hqv a Ha)).
           pose proof (Lv_le_Tv st a).
           pose proof (bi_bound st I u rest Eq a (binv_que_lt st I a Ha) ltac:(rewrite (binv_que_gray st I a Ha); discriminate)).
           lia.
      * intros u' rest'. cbn [que st']. rewrite Eq. cbn [app]. intros E. injection E as <- _.
        intros w Hwn. cbn [color st']. unfold vupd. destruct (Nat.eqb_spec w v) as [->|Hne]; intros Hc.
        -- rewrite HTv, (HL u Huv). lia.
        -- rewrite (HT w Hne), (HL u Huv). apply (bi_bound st I u rest Eq w Hwn Hc).
      * intros b Hbn. cbn [color st']. unfold vupd at 1. destruct (Nat.eqb_spec b v) as [->|Hbv]; [discriminate|].
        intros Hb w Hwn Hcw. destruct (bi_black st I b Hbn Hb w Hwn Hcw) as [Hc [k [Ek Hk]]].
        assert (Hwv : w <> v) by (intros ->; contradiction).
        split; [cbn [color st']; rewrite vupd_other by exact Hwv; exact Hc|].
        exists k. split; [cbn [bdist st']; rewrite vupd_other by exact Hwv; exact Ek|]. rewrite (HL b Hbv). exact Hk.
    + exists (rest ++ [v]). unfold st'. cbn [que]. rewrite Eq. reflexivity.
    + fold st'. rewrite (HL u Huv). exact Ed.
    + unfold st'. split; [cbn [color]; rewrite vupd_same; discriminate|]. exists (S d). split; [cbn [bdist]; apply vupd_same|lia].
  - (* v already discovered, nothing recorded *)
    split; [split; [exact I|split; [exists rest; exact Eq|exact Ed]]|].
    split; [exact En0|].
    assert (Hk : exists k, bdist st v = Some k).
    { destruct (Nat.eq_dec v s) as [->|Hne]; [exact (bi_sd st I)|].
      destruct (bi_dist st I v Hv Hne) as [_ HS]. destruct (HS En0) as [k [Ek _]]. exists k. exact Ek. }
    destruct Hk as [k Ek]. exists k. split; [exact Ek|]. rewrite Ek in Eis.
    pose proof (bi_bound st I u rest Eq v Hv En0) as Hb. unfold Tv in Hb. rewrite Ek in Hb.
    destruct k; [discriminate|lia].
  - (* v is the source and its own entry is still 0: record the cycle length *)
    subst v.
    set (st' := mkb (color st) (vupd (bdist st) s (Some (S d))) (que st)).
    assert (HT : forall w, w <> s -> Tv st' w = Tv st w) by (intros w Hw'; unfold Tv, st'; cbn [bdist]; rewrite vupd_other by exact Hw'; reflexivity).
    assert (HTs : Tv st' s = S d) by (unfold Tv, st'; cbn [bdist]; rewrite vupd_same; reflexivity).
    assert (HL : forall w, Lv st' w = Lv st w).
    { intros w. unfold Lv. destruct (Nat.eqb_spec w s); [reflexivity|apply HT; assumption]. }
    split; [split; [|split]|].
    + constructor; fold st'.
      * exact Hsound.
      * exact (bi_s st I).
      * exists (S d). cbn [bdist st']. apply vupd_same.
      * exact (bi_gray st I).
      * exact (bi_nodup st I).
      * exact (bi_inq st I).
      * exact (bi_col st I).
      * intros w Hwn Hws. cbn [color bdist st']. rewrite vupd_other by exact Hws. apply (bi_dist st I w Hwn Hws).
      * cbn [que st']. apply (qsorted_ext (Lv st)); [|exact (bi_sorted st I)]. intros a _. symmetry. apply HL.
      * intros u' rest' E w Hwn Hc. cbn [que st'] in E. cbn [color st'] in Hc. rewrite HL.
        rewrite Eq in E. injection E as <- _.
        destruct (Nat.eq_dec w s) as [->|Hne]; [rewrite HTs; lia|]. rewrite (HT w Hne).
        apply (bi_bound st I u rest Eq w Hwn Hc).
      * intros b Hbn Hb w Hwn Hcw. cbn [color st'] in Hb.
        destruct (bi_black st I b Hbn Hb w Hwn Hcw) as [Hc [k [Ek Hk]]].
        destruct (Nat.eq_dec w s) as [->|Hne]; [rewrite Es0 in Ek; injection Ek as <-; lia|].
        split; [exact Hc|]. exists k. split; [cbn [bdist st']; rewrite vupd_other by exact Hne; exact Ek|].
        rewrite HL. exact Hk.
    + exists rest. exact Eq.
    + fold st'. rewrite HL. exact Ed.
    + split; [exact En0|]. exists (S d). split; [cbn [bdist]; apply vupd_same|lia].
Qed.

Lemma inner_fold u d ns : forall st, inner u d st -> Forall (fun v => v < n /\ hasw n C (S d) s v) ns ->
  inner u d (fold_left (bvisit (Some (S d))) ns st) /\
  Forall (settled (fold_left (bvisit (Some (S d))) ns st) (d + 1)) ns.
Proof.
  induction ns as [|v r IH]; intros st HI Hns; cbn [fold_left]; [split; [exact HI|constructor]|].
  inversion Hns as [|? ? [Hv Hw] Hr]; subst.
  destruct (bvisit_inner u d st v HI Hv Hw) as [HI' Hset].
  destruct (IH _ HI' Hr) as [HI2 Hall]. split; [exact HI2|]. constructor; [|exact Hall].
  apply settled_fold. exact Hset.
Qed.

(* ---------- the outer loop ---------- *)
(* the source is at the head exactly in the first iteration, where its recorded distance is still 0 *)
Definition src_ok (st : bstate) : Prop := (que st = [s] /\ bdist st s = Some 0) \/ color st s = 2.

Lemma outer_step st u rest : binv st -> src_ok st -> que st = u :: rest ->
  let st1 := fold_left (bvisit (option_map S (bdist st u))) (nbrs n C u) st in
  let st2 := mkb (vupd (color st1) u 2) (bdist st1) (tl (que st1)) in
  binv st2 /\ src_ok st2 /\ u < n /\ color st u = 1 /\ (forall w, color st w = 2 -> color st2 w = 2) /\ color st2 u = 2.
Proof.
  intros I HS Eq.
  assert (Hun : u < n) by (apply (binv_que_lt st I); rewrite Eq; left; reflexivity).
  assert (Hug : color st u = 1) by (apply (binv_que_gray st I); rewrite Eq; left; reflexivity).
  (* the distance read at the head is its level *)
  assert (Hdu : bdist st u = Some (Lv st u) /\ forall v, v < n -> C u v <> 0%Z -> hasw n C (S (Lv st u)) s v).
  { destruct (bi_sound st I) as [HD _].
    assert (E1 : forall v, v < n -> C u v <> 0%Z -> hasw n C 1 u v)
      by (intros v Hv He; exists []; split; [reflexivity|]; split; [apply below_nil|exact He]).
    destruct (Nat.eq_dec u s) as [->|Hne].
    - assert (Es0 : bdist st s = Some 0).
      { destruct HS as [[_ E]|E]; [exact E|lia]. }
      unfold Lv. rewrite Nat.eqb_refl. split; [exact Es0|]. exact E1.
    - destruct (bi_dist st I u Hun Hne) as [_ HK]. destruct (HK ltac:(lia)) as [k [Ek Hk]].
      assert (ELv : Lv st u = k) by (unfold Lv, Tv; destruct (Nat.eqb_spec u s); [contradiction|rewrite Ek; reflexivity]).
      rewrite ELv. split; [exact Ek|]. intros v Hv He.
      destruct (HD u k Hun Ek) as [[-> _]|W]; [lia|].
      replace (S k) with (k + 1) by lia. apply (hasw_cat n C k 1 s u v Hun W (E1 v Hv He)). }
  destruct Hdu as [Edu Hwalk]. rewrite Edu. cbn [option_map]. set (d := Lv st u) in *.
  set (st1 := fold_left (bvisit (Some (S d))) (nbrs n C u) st).
  set (st2 := mkb (vupd (color st1) u 2) (bdist st1) (tl (que st1))).
  assert (Hns : Forall (fun v => v < n /\ hasw n C (S d) s v) (nbrs n C u)).
  { eapply Forall_impl; [|apply (nbrs_spec n C s Hs u)]. cbn beta. intros v [Hv He]. split; [exact Hv|apply Hwalk; assumption]. }
  destruct (inner_fold u d (nbrs n C u) st (conj I (conj (ex_intro _ rest Eq) eq_refl)) Hns) as [[I1 [[rest1 Eq1] Ed1]] Hset].
  fold st1 in I1, Eq1, Ed1, Hset.
  assert (Hc1 : forall w, color st w <> 0 -> color st1 w = color st w) by (intros w Hw; apply color_fold; exact Hw).
  assert (Hnd1 : ~ In u rest1 /\ NoDup rest1).
  { pose proof (bi_nodup st1 I1) as ND. rewrite Eq1 in ND. inversion ND; auto. }
  destruct Hnd1 as [Hur1 ND1].
  assert (Hrest_ne : forall x, In x rest1 -> x <> u) by (intros x Hx ->; contradiction).
  assert (HT2 : forall w, Tv st2 w = Tv st1 w) by reflexivity.
  assert (HL2 : forall w, Lv st2 w = Lv st1 w) by reflexivity.
  assert (Hc2nz : forall w, color st1 w <> 0 -> color st2 w <> 0).
  { intros w Hw. unfold st2. cbn [color]. unfold vupd. destruct (Nat.eqb_spec w u); [discriminate|exact Hw]. }
  assert (Hq2 : que st2 = rest1) by (unfold st2; cbn [que]; rewrite Eq1; reflexivity).
  assert (Hset2 : forall b w, settled st1 b w -> settled st2 b w).
  { intros b w [Hc Hk]. split; [apply Hc2nz; exact Hc|exact Hk]. }
  split; [|split; [|split; [exact Hun|split; [exact Hug|split]]]].
  - constructor.
    + destruct (bi_sound st1 I1) as [HD HQ]. split; [exact HD|]. rewrite Hq2. rewrite Eq1 in HQ. inversion HQ; assumption.
    + apply Hc2nz. exact (bi_s st1 I1).
    + exact (bi_sd st1 I1).
    + rewrite Hq2. apply Forall_forall. intros x Hx. unfold st2. cbn [color]. rewrite vupd_other by (apply Hrest_ne; exact Hx).
      apply (binv_que_gray st1 I1). rewrite Eq1. right. exact Hx.
    + rewrite Hq2. exact ND1.
    + intros w Hwn. unfold st2 at 1. cbn [color]. unfold vupd. destruct (Nat.eqb_spec w u) as [->|Hne]; [discriminate|].
      intros Hc. rewrite Hq2. pose proof (bi_inq st1 I1 w Hwn Hc) as Hin. rewrite Eq1 in Hin.
      destruct Hin as [E|Hin]; [congruence|exact Hin].
    + intros w Hwn. unfold st2. cbn [color]. unfold vupd. destruct (Nat.eqb_spec w u); [auto|apply (bi_col st1 I1 w Hwn)].
    + intros w Hwn Hws. unfold st2. cbn [color bdist]. unfold vupd. destruct (Nat.eqb_spec w u) as [->|Hne].
      * split; [discriminate|]. intros _. apply (bi_dist st1 I1 u Hwn Hws).
        rewrite (Hc1 u) by lia. lia.
      * apply (bi_dist st1 I1 w Hwn Hws).
    + rewrite Hq2. pose proof (bi_sorted st1 I1) as Hsrt. rewrite Eq1 in Hsrt. cbn [qsorted] in Hsrt. exact (proj2 Hsrt).
    + intros u' rest' E w Hwn Hc. rewrite Hq2 in E. rewrite HT2, HL2.
      pose proof (bi_sorted st1 I1) as Hsrt. rewrite Eq1 in Hsrt. cbn [qsorted] in Hsrt. destruct Hsrt as [Hle _].
      assert (Hu' : Lv st1 u <= Lv st1 u') by (apply Hle; rewrite E; left; reflexivity).
      assert (Hc' : color st1 w <> 0).
      { revert Hc. unfold st2. cbn [color]. unfold vupd. destruct (Nat.eqb_spec w u) as [->|Hne]; [|auto].
        intros _. rewrite (Hc1 u) by lia. lia. }
      pose proof (bi_bound st1 I1 u rest1 Eq1 w Hwn Hc'). lia.
    + intros b Hbn Hb w Hwn Hcw. rewrite HL2. apply Hset2.
      destruct (Nat.eq_dec b u) as [->|Hne].
      * rewrite Ed1. rewrite Forall_forall in Hset. apply Hset. unfold nbrs. apply filter_In.
        split; [apply in_seq; lia|]. unfold znz. apply negb_true_iff. apply Z.eqb_neq. exact Hcw.
      * apply (bi_black st1 I1 b Hbn); [|exact Hwn|exact Hcw].
        revert Hb. unfold st2. cbn [color]. rewrite vupd_other by exact Hne. auto.
  - right. destruct HS as [[Eqs _]|Es2].
    + rewrite Eq in Eqs. injection Eqs as -> _. unfold st2. cbn [color]. apply vupd_same.
    + unfold st2. cbn [color]. unfold vupd. destruct (Nat.eqb_spec s u); [reflexivity|].
      rewrite (Hc1 s) by lia. exact Es2.
  - intros w Hw. unfold st2. cbn [color]. unfold vupd. destruct (Nat.eqb_spec w u); [reflexivity|].
    rewrite (Hc1 w) by lia. exact Hw.
  - unfold st2. cbn [color]. apply vupd_same.
Qed.

Lemma breadth_loop_full fuel : forall st R, binv st -> src_ok st -> breadth_loop fuel n C st = Some R ->
  binv R /\ que R = [].
Proof.
  induction fuel as [|f IH]; intros st R I HS Hrun; [discriminate|].
  cbn [breadth_loop] in Hrun. destruct (que st) as [|u rest] eqn:Eq; [injection Hrun as <-; auto|].
  destruct (outer_step st u rest I HS Eq) as [I2 [HS2 _]]. cbv zeta in I2, HS2, Hrun.
  exact (IH _ R I2 HS2 Hrun).
Qed.

Definition nonblack (st : bstate) : nat := length (filter (fun v => negb (Nat.eqb (color st v) 2)) (seq 0 n)).

(* every iteration turns one node black and no node ever leaves black: the fuel n+2 is sufficient *)
Lemma breadth_loop_total fuel : forall st, binv st -> src_ok st -> nonblack st + 1 <= fuel ->
  exists R, breadth_loop fuel n C st = Some R.
Proof.
  induction fuel as [|f IH]; intros st I HS Hf; [lia|].
  cbn [breadth_loop]. destruct (que st) as [|u rest] eqn:Eq; [eexists; reflexivity|].
  destruct (outer_step st u rest I HS Eq) as [I2 [HS2 [Hun [Hug [Hmono Hu2]]]]]. cbv zeta in I2, HS2, Hmono, Hu2 |- *.
  apply (IH _ I2 HS2).
  match goal with |- nonblack ?X + 1 <= f => set (st2 := X) in * end.
  assert (nonblack st2 < nonblack st); [|lia].
  unfold nonblack. apply (filter_length_lt _ _ (seq 0 n) u).
  - intros x Hx. apply negb_true_iff in Hx. apply negb_true_iff. apply Nat.eqb_neq. apply Nat.eqb_neq in Hx.
    intros E. apply Hx. apply Hmono. exact E.
  - apply in_seq. lia.
  - rewrite Hug. reflexivity.
  - rewrite Hu2. reflexivity.
Qed.

Definition bst0 : bstate := mkb (vupd (fun _ => 0) s 1) (vupd (fun _ => None) s (Some 0)) [s].

Lemma binv_init : binv bst0 /\ src_ok bst0.
Proof.
  split; [|left; split; [reflexivity|apply vupd_same]].
  constructor; unfold bst0; cbn [color bdist que].
  - split; cbn [bdist que].
    + intros v k Hv. unfold vupd. destruct (Nat.eqb_spec v s); [|discriminate]. intros H. injection H as <-. left. auto.
    + constructor; [exact Hs|constructor].
  - rewrite vupd_same. discriminate.
  - exists 0. apply vupd_same.
  - constructor; [apply vupd_same|constructor].
  - constructor; [intros []|constructor].
  - intros v _. unfold vupd. destruct (Nat.eqb_spec v s) as [->|]; [left; reflexivity|discriminate].
  - intros v _. unfold vupd. destruct (Nat.eqb v s); auto.
  - intros v _ Hvs. rewrite !vupd_other by exact Hvs. split; [reflexivity|intros H; contradiction].
  - cbn [qsorted]. split; [intros b []|exact I].
  - intros u rest E v _ _. injection E as <- _. unfold Tv, Lv. cbn [bdist]. rewrite Nat.eqb_refl.
    unfold vupd. destruct (Nat.eqb v s); lia.
  - intros b _. unfold vupd. destruct (Nat.eqb b s); discriminate.
Qed.

(* ---------- at exit: along any walk from the source the recorded distance is at most the edge count ---------- *)
Section Final.
Variable st : bstate.
Hypothesis I : binv st.
Hypothesis Hq : que st = [].

Lemma final_black x : x < n -> color st x <> 0 -> color st x = 2.
Proof.
  intros Hx Hc. destruct (bi_col st I x Hx) as [E|[E|E]]; [contradiction| |exact E].
  pose proof (bi_inq st I x Hx E) as Hin. rewrite Hq in Hin. destruct Hin.
Qed.

Lemma final_step x k w : x < n -> ((x = s /\ k = 0) \/ settled st k x) -> w < n -> C x w <> 0%Z -> settled st (k + 1) w.
Proof.
  intros Hx Hxk Hw He.
  assert (Hc : color st x <> 0) by (destruct Hxk as [[-> _]|[Hc _]]; [exact (bi_s st I)|exact Hc]).
  assert (HL : Lv st x <= k).
  { unfold Lv. destruct (Nat.eqb_spec x s); [lia|]. destruct Hxk as [[E _]|[_ [k' [Ek Hk]]]]; [contradiction|].
    unfold Tv. rewrite Ek. lia. }
  destruct (bi_black st I x Hx (final_black x Hx Hc) w Hw He) as [Hcw [kw [Ekw Hkw]]].
  split; [exact Hcw|]. exists kw. split; [exact Ekw|lia].
Qed.

Lemma final_walk mid : forall x k v, x < n -> ((x = s /\ k = 0) \/ settled st k x) -> below n mid -> v < n ->
  bw C x mid v -> settled st (k + S (length mid)) v.
Proof.
  induction mid as [|m r IH]; intros x k v Hx Hxk B Hv W; cbn [bw length] in *.
  - replace (k + 1) with (k + 1) by lia. apply (final_step x k v Hx Hxk Hv W).
  - apply below_cons in B. destruct B as [Hm B]. destruct W as [E W].
    pose proof (final_step x k m Hx Hxk Hm E) as Hset.
    replace (k + S (S (length r))) with ((k + 1) + S (length r)) by lia.
    apply (IH m (k + 1) v Hm (or_intror Hset) B Hv W).
Qed.

Lemma final_reach e v : v < n -> hasw n C e s v -> settled st e v.
Proof.
  intros Hv [mid [Hl [B W]]]. subst e.
  apply (final_walk mid s 0 v Hs (or_introl (conj eq_refl eq_refl)) B Hv W).
Qed.

(* the recorded vector: exact minimum number of edges; 0 / nothing exactly when there is no walk *)
Lemma final_spec v : v < n ->
  (forall k, 1 <= k -> (bdist st v = Some k <-> sd n C s v k)) /\
  ((bdist st v = None \/ bdist st v = Some 0) <-> forall e, ~ hasw n C e s v).
Proof.
  intros Hv. destruct (bi_sound st I) as [HD _].
  assert (Hsound : forall k, 1 <= k -> bdist st v = Some k -> hasw n C k s v).
  { intros k Hk Ek. destruct (HD v k Hv Ek) as [[-> _]|W]; [lia|exact W]. }
  split.
  - intros k Hk. split.
    + intros Ek. split; [apply Hsound; assumption|]. intros e' He' W.
      destruct (final_reach e' v Hv W) as [_ [k' [Ek' Hk']]]. rewrite Ek in Ek'. injection Ek' as <-. lia.
    + intros [W Hmin]. destruct (final_reach k v Hv W) as [_ [k' [Ek' Hk']]].
      destruct (Nat.eq_dec k' k) as [->|Hne]; [exact Ek'|exfalso].
      apply (Hmin k'); [lia|]. apply Hsound; [lia|exact Ek'].
  - split.
    + intros H e W. destruct (final_reach e v Hv W) as [_ [k' [Ek' Hk']]].
      destruct H as [H|H]; rewrite H in Ek'; [discriminate|]. injection Ek' as <-. lia.
    + intros Hno. destruct (bdist st v) as [[|k]|] eqn:Ek; [right; reflexivity| |left; reflexivity].
      exfalso. apply (Hno (S k)). apply Hsound; [lia|reflexivity].
Qed.
End Final.

Theorem breadth_total : exists d, breadth n C s = Some d.
Proof.
  unfold breadth. destruct binv_init as [I0 S0]. fold bst0.
  destruct (breadth_loop_total (n + 2) bst0 I0 S0) as [R ->]; [|eexists; reflexivity].
  unfold nonblack. pose proof (filter_length_le (fun v => negb (Nat.eqb (color bst0 v) 2)) (seq 0 n)) as H.
  rewrite seq_length in H. lia.
Qed.

Theorem breadth_correct d : breadth n C s = Some d -> forall v, v < n ->
  (forall k, 1 <= k -> (d v = Some k <-> sd n C s v k)) /\
  ((d v = None \/ d v = Some 0) <-> forall e, ~ hasw n C e s v).
Proof.
  unfold breadth. fold bst0. destruct (breadth_loop (n + 2) n C bst0) as [st|] eqn:Erun; [|discriminate].
  intros H. injection H as <-. intros v Hv. rewrite tabv_spec by exact Hv.
  destruct binv_init as [I0 S0]. destruct (breadth_loop_full (n + 2) bst0 st I0 S0 Erun) as [I Hq].
  apply (final_spec st I Hq v Hv).
Qed.
End BFSFull.

(* ====================== breadthdist ====================== *)
Theorem breadthdist_total n C : exists RD, breadthdist n C = Some RD.
Proof.
  unfold breadthdist.
  destruct (all_some_total (breadth n C) (seq 0 n)) as [rows ->]; [|eexists; reflexivity].
  intros i Hi. apply in_seq in Hi. apply breadth_total. lia.
Qed.

(* full statement, every ordered pair INCLUDING the diagonal (shortest cycle through the node, infinite if none) *)
Theorem breadthdist_correct n C R D : breadthdist n C = Some (R, D) ->
  forall i j, i < n -> j < n ->
    (forall d, D i j = Some d -> 1 <= d <= n) /\
    (forall k, D i j = Some k <-> sd n C i j k) /\
    (D i j = None <-> forall e, ~ hasw n C e i j) /\
    (R i j = true <-> D i j <> None).
Proof.
  intros Hrun i j Hi Hj. pose proof (breadthdist_reach_flag n C R D Hrun i j) as HR.
  revert Hrun. unfold breadthdist.
  destruct (all_some (map (breadth n C) (seq 0 n))) as [rows|] eqn:Er; [|discriminate].
  intros H. injection H as _ <-. cbv beta zeta in HR |- *.
  pose proof (all_some_nth (breadth n C) n rows (fun _ => None) Er i Hi) as Hrow.
  destruct (breadth_correct n C i Hi _ Hrow j Hj) as [Hpos Hzero].
  remember (nth i rows (fun _ => None) j) as x eqn:Ex. clear Ex.
  assert (Hiff : forall k, (if is0 x then None else x) = Some k <-> sd n C i j k).
  { intros k. destruct x as [[|k']|]; cbn [is0].
    - split; [discriminate|]. intros [W _]. exfalso. apply (proj1 Hzero (or_intror eq_refl) k W).
    - destruct (Nat.eq_dec k 0) as [->|Hk].
      + split; [discriminate|]. intros [[mid [Hl _]] _]. discriminate.
      + apply (Hpos k). lia.
    - split; [discriminate|]. intros [W _]. exfalso. apply (proj1 Hzero (or_introl eq_refl) k W). }
  split; [|split; [exact Hiff|split; [|exact HR]]].
  - intros d Hd. apply Hiff in Hd. split; [destruct Hd as [[mid [Hl _]] _]; lia|apply (sd_le_n n C i j d Hi Hd)].
  - destruct x as [[|k']|]; cbn [is0].
    + split; [intros _; apply Hzero; right; reflexivity|reflexivity].
    + split; [discriminate|]. intros Hno. exfalso. destruct (proj1 (Hpos (S k') ltac:(lia)) eq_refl) as [W _]. exact (Hno _ W).
    + split; [intros _; apply Hzero; left; reflexivity|reflexivity].
Qed.
