(* Proofs/ClusteringSelfloop.v — C09, "nodes with fewer than two neighbours get exactly zero" WITHOUT the hypothesis
   of an empty diagonal (true since the repair 366dab6: clustering_coef_wu / _bd / _wd mask a vanishing denominator
   like clustering_coef_bu's `if k >= 2`).  [few_neighbours n W i] (Proofs/Clustering.v) counts the node itself when
   it carries a self-connection: at most one index j, possibly j = i, with W i j <> 0 or W j i <> 0.  Then
   clustering_coef_bu, _wu, _wd return 0 for ANY weights and clustering_coef_bd on any 0/1 matrix: the neighbour
   count is at most 1 (bu, wu), resp. K(K-1) - 2 diag(A^2) = 0 (bd, wd: K = 2 needs a reciprocal pair or a
   self-connection, which is exactly one "false pair").  The values are those of Model/Clustering.v, which the
   statement-level model of Model/ClusteringInf.v returns as finite floats (Proofs/ReduceSelfloop.v, cc_o_total). *)
From Coq Require Import QArith Qabs List Arith Bool ZArith Lia Lqa.
From BCT Require Import Base.Mat Base.SumQ Model.Threshold Model.Clustering
  Proofs.ClusteringSpec Proofs.Clustering.
Import ListNotations.
Open Scope Q_scope.

Lemma div_zero' c x : x == 0 -> c / x == 0.
Proof. intros H. rewrite H. unfold Qdiv. change (/ 0) with 0. ring. Qed.

(* a family with at most one nonzero member below n: all zero, or all zero but one *)
Lemma single_support (f : nat -> Q) n :
  (forall j k, (j < n)%nat -> (k < n)%nat -> ~ f j == 0 -> ~ f k == 0 -> j = k) ->
  (forall x, (x < n)%nat -> f x == 0) \/ (exists j0, (j0 < n)%nat /\ forall x, (x < n)%nat -> x <> j0 -> f x == 0).
Proof.
  induction n as [|n IH]; intros H; [left; intros x Hx; lia|].
  assert (H' : forall j k, (j < n)%nat -> (k < n)%nat -> ~ f j == 0 -> ~ f k == 0 -> j = k)
    by (intros j k Hj Hk; apply H; lia).
  destruct (Qeq_dec (f n) 0) as [En|En].
  - destruct (IH H') as [Z|(j0 & Hj0 & Z)].
    + left. intros x Hx. destruct (Nat.eq_dec x n) as [->|Ne]; [exact En|apply Z; lia].
    + right. exists j0. split; [lia|]. intros x Hx Ne. destruct (Nat.eq_dec x n) as [->|Ne']; [exact En|apply Z; [lia|exact Ne]].
  - right. exists n. split; [lia|]. intros x Hx Ne. destruct (Qeq_dec (f x) 0) as [E|E]; [exact E|].
    exfalso. apply Ne. apply H; [lia|lia|exact E|exact En].
Qed.

Lemma sum_single (h : nat -> Q) n j0 : (j0 < n)%nat -> (forall x, (x < n)%nat -> x <> j0 -> h x == 0) -> sumQ h n == h j0.
Proof.
  intros Hj Z. rewrite (sumQ_split h n j0 Hj). rewrite sumQ_zero'; [ring|].
  intros x Hx. destruct (Nat.eqb_spec x j0) as [E|E]; [reflexivity|apply Z; assumption].
Qed.

Lemma nz_sum_zero a b : nzQ a + nzQ b == 0 -> a == 0 /\ b == 0.
Proof.
  unfold nzQ. destruct (Qeq_bool a 0) eqn:Ea, (Qeq_bool b 0) eqn:Eb; intros H; try (exfalso; lra).
  split; apply Qeq_bool_iff; assumption.
Qed.

Section Few.
Variable n : nat.
Variable W : mat Q.
Variable i : nat.
Hypothesis Hf : few_neighbours n W i.

Let g (j : nat) : Q := nzQ (W i j) + nzQ (W j i).

Lemma g_support : forall j k, (j < n)%nat -> (k < n)%nat -> ~ g j == 0 -> ~ g k == 0 -> j = k.
Proof.
  intros j k Hj Hk Nj Nk. apply Hf; [exact Hj|exact Hk| |].
  - destruct (Qeq_dec (W i j) 0) as [E1|E1]; [|left; exact E1]. right. intros E2. apply Nj. unfold g.
    rewrite (nzQ_zero _ E1), (nzQ_zero _ E2). ring.
  - destruct (Qeq_dec (W i k) 0) as [E1|E1]; [|left; exact E1]. right. intros E2. apply Nk. unfold g.
    rewrite (nzQ_zero _ E1), (nzQ_zero _ E2). ring.
Qed.

(* the out-neighbour count is at most 1 *)
Lemma few_kdeg_lt2 : kdeg n W i < 2.
Proof.
  unfold kdeg. destruct (single_support g n g_support) as [Z|(j0 & Hj0 & Z)].
  - rewrite sumQ_zero'; [lra|]. intros x Hx. exact (nzQ_zero _ (proj1 (nz_sum_zero _ _ (Z x Hx)))).
  - rewrite (sum_single (fun j => nzQ (W i j)) n j0 Hj0).
    + destruct (nzQ_01 (W i j0)) as [E|E]; rewrite E; lra.
    + intros x Hx Ne. exact (nzQ_zero _ (proj1 (nz_sum_zero _ _ (Z x Hx Ne)))).
Qed.

(* K(K-1) - 2 diag(A^2) vanishes for the adjacency matrix *)
Lemma few_poss_zero : poss_dir n (mmap nzQ W) i == 0.
Proof.
  unfold poss_dir, dtot, dbi, mmap. destruct (single_support g n g_support) as [Z|(j0 & Hj0 & Z)].
  - rewrite (sumQ_zero' (fun j => nzQ (W i j) + nzQ (W j i))) by exact Z.
    rewrite (sumQ_zero' (fun j => nzQ (W i j) * nzQ (W j i))); [ring|].
    intros x Hx. destruct (nz_sum_zero _ _ (Z x Hx)) as [E _]. rewrite (nzQ_zero _ E). ring.
  - rewrite (sum_single (fun j => nzQ (W i j) + nzQ (W j i)) n j0 Hj0) by exact Z.
    rewrite (sum_single (fun j => nzQ (W i j) * nzQ (W j i)) n j0 Hj0).
    + destruct (nzQ_01 (W i j0)) as [E|E], (nzQ_01 (W j0 i)) as [E'|E']; rewrite E, E'; ring.
    + intros x Hx Ne. destruct (nz_sum_zero _ _ (Z x Hx Ne)) as [E _]. rewrite (nzQ_zero _ E). ring.
Qed.

Theorem few_zero_any_diagonal cbrt :
  cc_bu n W i == 0 /\ cc_wu cbrt n W i == 0 /\ cc_wd cbrt n W i == 0 /\ (binary n W -> (i < n)%nat -> cc_bd n W i == 0).
Proof.
  pose proof few_kdeg_lt2 as Hk.
  assert (E2 : Qle_bool 2 (kdeg n W i) = false).
  { destruct (Qle_bool 2 (kdeg n W i)) eqn:E; [|reflexivity]. apply Qle_bool_iff in E. lra. }
  split; [|split; [|split]].
  - rewrite cc_bu_sumform, E2. reflexivity.
  - rewrite cc_wu_unfold. destruct (Qeq_bool _ 0); [reflexivity|]. apply div_zero'.
    assert (H01 : kdeg n W i == 0 \/ kdeg n W i == 1).
    { unfold kdeg in *. clear E2.
      assert (C : forall m, sumQ (fun j => nzQ (W i j)) m == 0 \/ sumQ (fun j => nzQ (W i j)) m == 1 \/ 2 <= sumQ (fun j => nzQ (W i j)) m).
      { induction m as [|m IH]; cbn [sumQ]; [left; reflexivity|].
        destruct IH as [E|[E|E]]; destruct (nzQ_01 (W i m)) as [F|F]; rewrite F; lra. }
      destruct (C n) as [E|[E|E]]; [left; exact E|right; exact E|lra]. }
    destruct H01 as [E|E]; rewrite E; ring.
  - rewrite cc_wd_def. unfold def_cc_wd, def_cc_dir. destruct (Qeq_bool _ 0); [reflexivity|].
    apply div_zero'. exact few_poss_zero.
  - intros Hb Hi. rewrite cc_bd_fagiolo. unfold def_cc_bd, def_cc_dir. destruct (Qeq_bool _ 0); [reflexivity|].
    apply div_zero'. rewrite <- few_poss_zero. unfold poss_dir, dtot, dbi, mmap.
    assert (E1 : sumQ (fun j => W i j + W j i) n == sumQ (fun j => nzQ (W i j) + nzQ (W j i)) n).
    { apply sumQ_ext; intros j Hj. rewrite (nzQ_binary _ (Hb i j Hi Hj)), (nzQ_binary _ (Hb j i Hj Hi)). reflexivity. }
    assert (E3 : sumQ (fun j => W i j * W j i) n == sumQ (fun j => nzQ (W i j) * nzQ (W j i)) n).
    { apply sumQ_ext; intros j Hj. rewrite (nzQ_binary _ (Hb i j Hi Hj)), (nzQ_binary _ (Hb j i Hj Hi)). reflexivity. }
    rewrite E1, E3. reflexivity.
Qed.
End Few.

(* non-vacuity: node 1 of [[1,1],[1,0]] has one neighbour (which carries a self-connection); an isolated node with a
   self-connection is its own only neighbour *)
Example few_selfloop_nonvacuous :
  few_neighbours 2 (of_rows 0 [[1; 1]; [1; 0]]%list) 1 /\ few_neighbours 1 (of_rows 0 [[1]]%list) 0 /\
  ~ nodiag 2 (of_rows 0 [[1; 1]; [1; 0]]%list).
Proof.
  split; [|split].
  - intros j k Hj Hk H1 H2.
    destruct j as [|[|j]]; [| |lia]; destruct k as [|[|k]]; try lia; try reflexivity; exfalso.
    + destruct H2 as [H|H]; apply H; vm_compute; reflexivity.
    + destruct H1 as [H|H]; apply H; vm_compute; reflexivity.
  - intros j k Hj Hk _ _. lia.
  - intros H. specialize (H 0%nat ltac:(lia)). vm_compute in H. discriminate.
Qed.
