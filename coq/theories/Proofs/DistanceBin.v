(* Proofs/DistanceBin.v — full correctness of the distance_bin model (algebraic shortest paths). *)
From Coq Require Import QArith List Arith Bool ZArith Lia Lqa.
From BCT Require Import Base.Mat Base.ListX Model.Distance Proofs.DistanceBase.
Import ListNotations.

(* binary walks: every consecutive pair is a nonzero entry *)
Fixpoint bw (G : mat Z) (i : nat) (mid : list nat) (j : nat) : Prop :=
  match mid with [] => G i j <> 0%Z | m :: r => G i m <> 0%Z /\ bw G m r j end.

Lemma bw_app G i m1 m m2 j : bw G i (m1 ++ m :: m2) j <-> bw G i m1 m /\ bw G m m2 j.
Proof.
  revert i. induction m1 as [|a r IH]; intros i; cbn [app bw].
  - tauto.
  - rewrite IH. tauto.
Qed.
Lemma bw_snoc G i mid m j : bw G i (mid ++ [m]) j <-> bw G i mid m /\ G m j <> 0%Z.
Proof. apply (bw_app G i mid m [] j). Qed.

Lemma bw_ext n G G' : (forall i j, (i < n)%nat -> (j < n)%nat -> (G i j <> 0%Z <-> G' i j <> 0%Z)) ->
  forall mid i j, (i < n)%nat -> (j < n)%nat -> below n mid -> (bw G i mid j <-> bw G' i mid j).
Proof.
  intros H mid. induction mid as [|m r IH]; intros i j Hi Hj B; cbn [bw].
  - apply H; assumption.
  - apply below_cons in B. destruct B as [Hm B]. rewrite (H i m Hi Hm). rewrite (IH m j Hm Hj B). tauto.
Qed.

(* hasw e i j: there is a walk with exactly e edges *)
Definition hasw (n : nat) (G : mat Z) (e i j : nat) : Prop :=
  exists mid, S (length mid) = e /\ below n mid /\ bw G i mid j.
(* the shortest walk has exactly e edges *)
Definition sd (n : nat) (G : mat Z) (i j e : nat) : Prop :=
  hasw n G e i j /\ forall e', (e' < e)%nat -> ~ hasw n G e' i j.

Lemma hasw_cat n G a b i m j : (m < n)%nat -> hasw n G a i m -> hasw n G b m j -> hasw n G (a + b) i j.
Proof.
  intros Hm [m1 [L1 [B1 W1]]] [m2 [L2 [B2 W2]]]. exists (m1 ++ m :: m2). split; [|split].
  - rewrite app_length. cbn [length]. lia.
  - apply below_app. split; [exact B1|]. apply below_cons. auto.
  - apply bw_app. auto.
Qed.

Lemma hasw_split n G d e i j : (1 <= d)%nat -> (d < e)%nat -> hasw n G e i j ->
  exists m, (m < n)%nat /\ hasw n G d i m /\ hasw n G (e - d) m j.
Proof.
  intros Hd Hde [mid [Hl [B W]]].
  assert (Hlen : (d - 1 < length mid)%nat) by lia.
  rewrite <- (firstn_skipn (d - 1) mid) in W, B.
  destruct (skipn (d - 1) mid) as [|m m2] eqn:Es.
  - exfalso. assert (length (skipn (d - 1) mid) = 0%nat) by (rewrite Es; reflexivity).
    rewrite skipn_length in H. lia.
  - apply bw_app in W. destruct W as [W1 W2]. apply below_app in B. destruct B as [B1 B2].
    apply below_cons in B2. destruct B2 as [Hm B2].
    assert (L1 : length (firstn (d - 1) mid) = (d - 1)%nat) by (rewrite firstn_length; lia).
    assert (L2 : length (m :: m2) = (length mid - (d - 1))%nat) by (rewrite <- Es; apply skipn_length).
    cbn [length] in L2.
    exists m. split; [exact Hm|]. split.
    + exists (firstn (d - 1) mid). split; [lia|]. auto.
    + exists m2. split; [lia|]. auto.
Qed.

Section Bin.
Variable n : nat.
Variable G : mat Z.
Hypothesis HG : forall i j, (i < n)%nat -> (j < n)%nat -> (0 <= G i j)%Z.

(* nP is the d-th power: entries count walks with d edges *)
Definition pow_ok (d : nat) (nP : mat Z) : Prop :=
  forall i j, (i < n)%nat -> (j < n)%nat -> (0 <= nP i j)%Z /\ (nP i j <> 0%Z <-> hasw n G d i j).

Lemma pow_ok_1 : pow_ok 1 G.
Proof.
  intros i j Hi Hj. split; [apply HG; assumption|]. split.
  - intros H. exists []. split; [reflexivity|]. split; [apply below_nil|exact H].
  - intros [mid [Hl [_ W]]]. destruct mid; [exact W|cbn in Hl; lia].
Qed.

Lemma pow_ok_S d nP : (1 <= d)%nat -> pow_ok d nP -> pow_ok (S d) (tab 0%Z n n (matmul n nP G)).
Proof.
  intros Hd HP i j Hi Hj. rewrite tab_spec by assumption. unfold matmul.
  assert (Hnn : forall m, (m < n)%nat -> (0 <= nP i m * G m j)%Z).
  { intros m Hm. apply Z.mul_nonneg_nonneg; [apply (HP i m Hi Hm)|apply HG; assumption]. }
  split; [apply sumn_nonneg; exact Hnn|].
  rewrite (sumn_pos_iff _ n Hnn). split.
  - intros [m [Hm Hne]].
    assert (H1 : nP i m <> 0%Z) by (intros E; apply Hne; rewrite E; reflexivity).
    assert (H2 : G m j <> 0%Z) by (intros E; apply Hne; rewrite E; apply Z.mul_0_r).
    apply (HP i m Hi Hm) in H1. destruct H1 as [mid [Hl [B W]]].
    exists (mid ++ [m]). split; [rewrite app_length; cbn; lia|]. split.
    + apply below_app. split; [exact B|]. apply below_cons. split; [exact Hm|apply below_nil].
    + apply bw_snoc. auto.
  - intros [mid [Hl [B W]]].
    destruct (exists_last (l := mid)) as [mid' [m E]]; [intros ->; cbn in Hl; lia|]. subst mid.
    apply bw_snoc in W. destruct W as [W1 W2]. apply below_app in B. destruct B as [B1 B2].
    apply below_cons in B2. destruct B2 as [Hm _].
    rewrite app_length in Hl. cbn in Hl.
    exists m. split; [exact Hm|].
    assert (H1 : nP i m <> 0%Z) by (apply (HP i m Hi Hm); exists mid'; split; [lia|auto]).
    intros E. apply Z.mul_eq_0 in E. tauto.
Qed.

(* clipping a power to its 0/1 support keeps what the loops use of it (reachdist after repo commit 2cf9619) *)
Lemma pow_ok_clip d nP : pow_ok d nP -> pow_ok d (tab 0%Z n n (fun i j => b2z (znz (nP i j)))).
Proof.
  intros H i j Hi Hj. rewrite tab_spec by assumption. destruct (H i j Hi Hj) as [H0 H1].
  unfold znz. destruct (Z.eqb_spec (nP i j) 0) as [E|E]; cbn [negb b2z].
  - split; [lia|]. rewrite <- H1. split; intros; [lia|congruence].
  - split; [lia|]. rewrite <- H1. split; intros; [exact E|lia].
Qed.

(* loop invariant at the head of the while, with n_python = d *)
Record dinv (d : nat) (D : mat nat) (nP : mat Z) (Lm : mat bool) : Prop := {
  di_d : (1 <= d)%nat;
  di_pow : pow_ok d nP;
  di_diag : forall i, (i < n)%nat -> D i i <> 0%nat;
  di_zero : forall i j, (i < n)%nat -> (j < n)%nat -> i <> j -> D i j = 0%nat ->
      forall e, (e < d)%nat -> ~ hasw n G e i j;
  di_set : forall i j, (i < n)%nat -> (j < n)%nat -> i <> j -> D i j <> 0%nat ->
      (D i j < d)%nat /\ sd n G i j (D i j);
  di_L : forall i j, (i < n)%nat -> (j < n)%nat -> i <> j ->
      (Lm i j = true <-> hasw n G d i j /\ D i j = 0%nat)
}.

Lemma anyb_false (B : mat bool) : anyb n B = false -> forall i j, (i < n)%nat -> (j < n)%nat -> B i j = false.
Proof.
  unfold anyb. intros H i j Hi Hj.
  destruct (B i j) eqn:E; [|reflexivity]. exfalso.
  assert (existsb (fun i => existsb (fun j => B i j) (seq 0 n)) (seq 0 n) = true).
  { apply existsb_exists. exists i. split; [apply in_seq; lia|]. apply existsb_exists. exists j.
    split; [apply in_seq; lia|exact E]. }
  congruence.
Qed.

(* on exit nothing new was found at length d: then nothing exists at any larger length either *)
Lemma exit_complete d D nP Lm : dinv d D nP Lm ->
  (forall i j, (i < n)%nat -> (j < n)%nat -> Lm i j = false) ->
  forall e i j, (i < n)%nat -> (j < n)%nat -> i <> j -> D i j = 0%nat -> ~ hasw n G e i j.
Proof.
  intros I HL e. induction e as [e IH] using lt_wf_ind. intros i j Hi Hj Hne HD Hw.
  pose proof (di_d _ _ _ _ I) as Hd.
  destruct (Nat.lt_ge_cases e d) as [Hlt|Hge].
  - exact (di_zero _ _ _ _ I i j Hi Hj Hne HD e Hlt Hw).
  - destruct (Nat.eq_dec e d) as [->|Hned].
    + assert (Lm i j = true) by (apply (di_L _ _ _ _ I i j Hi Hj Hne); auto).
      rewrite HL in H by assumption. discriminate.
    + destruct (hasw_split n G d e i j Hd ltac:(lia) Hw) as [m [Hm [W1 W2]]].
      destruct (Nat.eq_dec m i) as [->|Hmi].
      * (* the first d edges return to i: drop them *)
        apply (IH (e - d)%nat ltac:(lia) i j Hi Hj Hne HD W2).
      * destruct (Nat.eq_dec (D i m) 0) as [E0|En0].
        { assert (Lm i m = true) by (apply (di_L _ _ _ _ I i m Hi Hm ltac:(congruence)); auto).
          rewrite HL in H by assumption. discriminate. }
        destruct (di_set _ _ _ _ I i m Hi Hm ltac:(congruence) En0) as [Hlt [W3 _]].
        pose proof (hasw_cat n G _ _ i m j Hm W3 W2) as W4.
        apply (IH (D i m + (e - d))%nat ltac:(lia) i j Hi Hj Hne HD W4).
Qed.

(* result of the loop, for every fuel: if it returns, the matrix is correct *)
Lemma dbin_loop_correct fuel : forall d D nP Lm R, dinv d D nP Lm ->
  dbin_loop fuel n G D d nP Lm = Some R ->
  forall i j, (i < n)%nat -> (j < n)%nat -> i <> j ->
    (R i j = 0%nat -> forall e, ~ hasw n G e i j) /\ (R i j <> 0%nat -> sd n G i j (R i j)).
Proof.
  induction fuel as [|f IH]; intros d D nP Lm R I Hrun; [discriminate|].
  cbn [dbin_loop] in Hrun. destruct (anyb n Lm) eqn:Eany.
  - (* one more iteration *)
    refine (IH (S d) _ _ _ R _ Hrun). clear IH Hrun.
    pose proof (di_d _ _ _ _ I) as Hd.
    set (D' := tab 0%nat n n (fun i j => (D i j + (if Lm i j then d else 0))%nat)).
    assert (HD' : forall i j, (i < n)%nat -> (j < n)%nat -> D' i j = (D i j + (if Lm i j then d else 0))%nat)
      by (intros; unfold D'; rewrite tab_spec by assumption; reflexivity).
    assert (Hcase : forall i j, (i < n)%nat -> (j < n)%nat -> i <> j ->
              (Lm i j = true /\ D i j = 0%nat /\ D' i j = d /\ hasw n G d i j) \/
              (Lm i j = false /\ D' i j = D i j)).
    { intros i j Hi Hj Hne. rewrite HD' by assumption. destruct (Lm i j) eqn:E.
      - left. apply (di_L _ _ _ _ I i j Hi Hj Hne) in E. destruct E as [W E0]. rewrite E0. auto.
      - right. split; [reflexivity|lia]. }
    constructor.
    + lia.
    + apply pow_ok_clip, pow_ok_S; [exact Hd|exact (di_pow _ _ _ _ I)].
    + intros i Hi. rewrite HD' by assumption. pose proof (di_diag _ _ _ _ I i Hi). lia.
    + intros i j Hi Hj Hne H0 e He.
      destruct (Hcase i j Hi Hj Hne) as [[_ [_ [E _]]]|[EL E]]; [lia|].
      rewrite E in H0. destruct (Nat.eq_dec e d) as [->|Hned].
      * intros W. assert (Lm i j = true) by (apply (di_L _ _ _ _ I i j Hi Hj Hne); auto). congruence.
      * apply (di_zero _ _ _ _ I i j Hi Hj Hne H0). lia.
    + intros i j Hi Hj Hne Hnz.
      destruct (Hcase i j Hi Hj Hne) as [[_ [E0 [E W]]]|[EL E]]; rewrite E in *.
      * split; [lia|]. split; [exact W|]. apply (di_zero _ _ _ _ I i j Hi Hj Hne E0).
      * destruct (di_set _ _ _ _ I i j Hi Hj Hne Hnz) as [Hlt Hsd]. split; [lia|exact Hsd].
    + intros i j Hi Hj Hne. rewrite tab_spec by assumption.
      pose proof (pow_ok_clip _ _ (pow_ok_S d nP Hd (di_pow _ _ _ _ I)) i j Hi Hj) as [_ HP].
      unfold znz. rewrite andb_true_iff, negb_true_iff, Z.eqb_neq, Nat.eqb_eq. rewrite HP. tauto.
  - (* exit *)
    injection Hrun as <-. intros i j Hi Hj Hne. split.
    + intros H0 e. apply (exit_complete d D nP Lm I (anyb_false Lm Eany) e i j Hi Hj Hne H0).
    + intros Hnz. apply (di_set _ _ _ _ I i j Hi Hj Hne Hnz).
Qed.

Lemma dinv_init : dinv 1 (fun i j => if Nat.eqb i j then 1%nat else 0%nat) G (fun i j => znz (G i j)).
Proof.
  constructor.
  - lia.
  - exact pow_ok_1.
  - intros i _. rewrite Nat.eqb_refl. lia.
  - intros i j _ _ _ _ e He [mid [Hl _]]. lia.
  - intros i j _ _ Hne. destruct (Nat.eqb_spec i j); [contradiction|]. lia.
  - intros i j Hi Hj Hne. destruct (Nat.eqb_spec i j); [contradiction|].
    unfold znz. rewrite negb_true_iff, Z.eqb_neq. rewrite (proj2 (pow_ok_1 i j Hi Hj)). tauto.
Qed.
End Bin.

(* ---------- connection with the generic length specification ---------- *)
Open Scope Q_scope.
Definition Lbin (A : mat Z) : mat len := fun i j => if Z.eqb (A i j) 0 then None else Some 1.

Lemma nq_S k : nq (S k) == 1 + nq k.
Proof. unfold nq. rewrite Nat2Z.inj_succ. unfold Z.succ. rewrite inject_Z_plus. ring. Qed.
Lemma nq_le a b : (a <= b)%nat -> nq a <= nq b.
Proof. intros H. unfold nq. rewrite <- Zle_Qle. lia. Qed.

Lemma wl_bin A mid : forall i j,
  match wl (Lbin A) i mid j with
  | Some y => bw A i mid j /\ y == nq (S (length mid))
  | None => ~ bw A i mid j
  end.
Proof.
  induction mid as [|m r IH]; intros i j; cbn [wl bw length].
  - unfold Lbin. destruct (Z.eqb_spec (A i j) 0); [tauto|]. split; [assumption|]. reflexivity.
  - specialize (IH m j). unfold Lbin at 1. destruct (Z.eqb_spec (A i m) 0); cbn [oadd]; [tauto|].
    destruct (wl (Lbin A) m r j) as [y|]; [|tauto].
    destruct IH as [W E]. split; [auto|]. rewrite E. rewrite (nq_S (S (length r))). reflexivity.
Qed.

Theorem distance_bin_correct n A D : distance_bin n A = Some D ->
  dist_correct n (Lbin A) (fun i j => olen_of_nat (D i j)).
Proof.
  unfold distance_bin, dbin_raw. set (G := tab 0%Z n n (bin A)).
  destruct (dbin_loop (n + 2) n G _ 1 G _) as [R|] eqn:Erun; [|discriminate].
  intros H. injection H as <-.
  assert (HG : forall i j, (i < n)%nat -> (j < n)%nat -> (0 <= G i j)%Z).
  { intros i j Hi Hj. unfold G. rewrite tab_spec by assumption. unfold bin. destruct (A i j =? 0)%Z; lia. }
  assert (HGA : forall i j, (i < n)%nat -> (j < n)%nat -> (G i j <> 0%Z <-> A i j <> 0%Z)).
  { intros i j Hi Hj. unfold G. rewrite tab_spec by assumption. unfold bin.
    destruct (Z.eqb_spec (A i j) 0); split; intros; try lia; try congruence. }
  pose proof (dbin_loop_correct n G HG (n + 2) 1 _ G _ R (dinv_init n G HG) Erun) as C.
  intros i j Hi Hj Hne. destruct (C i j Hi Hj Hne) as [C0 C1]. clear C.
  destruct (Nat.eqb_spec i j); [contradiction|].
  destruct (Nat.eqb_spec (R i j) 0) as [E0|En0]; cbn [olen_of_nat is_min_dist].
  - intros mid B. pose proof (wl_bin A mid i j) as W. destruct (wl (Lbin A) i mid j); [|reflexivity].
    exfalso. apply (C0 E0 (S (length mid))). exists mid. split; [reflexivity|]. split; [exact B|].
    apply (bw_ext n G A HGA mid i j Hi Hj B). tauto.
  - destruct (C1 En0) as [[mid [Hl [B W]]] Hmin]. split.
    + exists mid. split; [exact B|]. apply (bw_ext n G A HGA mid i j Hi Hj B) in W.
      pose proof (wl_bin A mid i j) as W'. destruct (wl (Lbin A) i mid j) as [y|]; [|contradiction].
      exists y. split; [reflexivity|]. rewrite Hl in W'. tauto.
    + intros mid' y B' W'. pose proof (wl_bin A mid' i j) as W2. rewrite W' in W2. destruct W2 as [W2 Ey].
      rewrite Ey. apply nq_le.
      destruct (Nat.lt_ge_cases (S (length mid')) (R i j)) as [Hlt|Hge]; [|exact Hge].
      exfalso. apply (Hmin _ Hlt). exists mid'. split; [reflexivity|]. split; [exact B'|].
      apply (bw_ext n G A HGA mid' i j Hi Hj B'). exact W2.
Qed.

Theorem distance_bin_diag_zero n A D : distance_bin n A = Some D -> forall i, D i i = Some 0%nat.
Proof.
  unfold distance_bin. destruct (dbin_raw n A); [|discriminate]. intros H. injection H as <-.
  intros i. rewrite Nat.eqb_refl. reflexivity.
Qed.

(* reachability flag of distance_bin: finite iff some walk exists *)
Theorem distance_bin_inf_iff n A D : distance_bin n A = Some D ->
  forall i j, (i < n)%nat -> (j < n)%nat -> i <> j -> (D i j <> None <-> reachable n (Lbin A) i j).
Proof.
  intros H i j Hi Hj Hne. pose proof (distance_bin_correct n A D H i j Hi Hj Hne) as C.
  cbv beta in C. destruct (D i j) as [d|]; cbn [olen_of_nat is_min_dist] in C.
  - split; [intros _|congruence]. destruct C as [[mid [B [y [W _]]]] _]. exists mid. split; [exact B|congruence].
  - split; [congruence|]. intros [mid [B W]]. specialize (C mid B). contradiction.
Qed.

(* ---------- uniqueness of the minimum: any two correct routines agree ---------- *)
Lemma is_min_dist_unique n L i j d1 d2 : is_min_dist n L i j d1 -> is_min_dist n L i j d2 -> oeq d1 d2.
Proof.
  destruct d1 as [x1|], d2 as [x2|]; cbn [is_min_dist oeq].
  - intros [[m1 [B1 [y1 [W1 E1]]]] M1] [[m2 [B2 [y2 [W2 E2]]]] M2].
    pose proof (M1 m2 y2 B2 W2). pose proof (M2 m1 y1 B1 W1). lra.
  - intros [[m1 [B1 [y1 [W1 E1]]]] _] H. rewrite (H m1 B1) in W1. discriminate.
  - intros H [[m2 [B2 [y2 [W2 E2]]]] _]. rewrite (H m2 B2) in W2. discriminate.
  - auto.
Qed.
