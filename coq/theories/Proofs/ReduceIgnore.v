(* Proofs/ReduceIgnore.v — C10, last clause: every routine whose docstring says the weights are ignored /
   discarded returns the same for a weighted matrix and for its binarisation.
   Q-input models (Model/IgnoreWeights.v): density_dir, density_und, jdegree, edge_nei_overlap_bd/_bu.
   Z-input models owned by other properties: findwalks (Model/Walks.v), reachdist, distance_bin,
   efficiency_bin global (Model/Distance.v), efficiency_bin local (Model/EfficiencyLocal.v): these binarise
   their argument in the first statement, so f A = f (bin A) for every integer-weighted A.
   (degrees_und/degrees_dir: Proofs/ClusteringReduce.v; assortativity_bin: Proofs/ReduceAssortativity.v.) *)
From Coq Require Import QArith Qround List Arith Bool ZArith Lia Lqa.
From BCT Require Import Base.Mat Base.SumQ Base.ListX Model.Threshold Model.Clustering Model.IgnoreWeights
  Model.Distance Model.Walks Model.EfficiencyLocal Proofs.ClusteringSpec Proofs.Clustering Proofs.ClusteringReduce.
Import ListNotations.
Open Scope Q_scope.

(* ---------- the support of binarize(W) is the support of W ---------- *)
Lemma nz_binarize W i j : qnzb' (binarize W i j) = qnzb' (W i j).
Proof.
  unfold binarize, qnz, qnzb'. destruct (Qeq_bool (W i j) 0) eqn:E; cbn [negb]; [rewrite E; reflexivity|reflexivity].
Qed.

(* ---------- density ---------- *)
Theorem density_dir_ignores_weights n W : density_dir n (binarize W) = density_dir n W.
Proof.
  unfold density_dir. cbv zeta.
  rewrite (filter_ext (fun c => qnzb' (binarize W (fst c) (snd c))) (fun c => qnzb' (W (fst c) (snd c))));
    [reflexivity|]. intros c. apply nz_binarize.
Qed.
Theorem density_und_ignores_weights n W : density_und n (binarize W) = density_und n W.
Proof.
  unfold density_und. cbv zeta.
  rewrite (filter_ext (fun c => Nat.leb (fst c) (snd c) && qnzb' (binarize W (fst c) (snd c)))%bool
                      (fun c => Nat.leb (fst c) (snd c) && qnzb' (W (fst c) (snd c)))%bool);
    [reflexivity|]. intros c. rewrite nz_binarize. reflexivity.
Qed.

(* ---------- jdegree ---------- *)
Lemma qnat_comp a b : a == b -> qnat a = qnat b.
Proof. intros H. unfold qnat. rewrite (Qfloor_comp _ _ H). reflexivity. Qed.

Definition jdeg_core (n : nat) (id od : nat -> nat) : jdeg :=
  let szJ := S (fold_left Nat.max (map (fun v => Nat.max (id v) (od v)) (seq 0 n)) 0%nat) in
  let J : mat Z := fun a b => countn (fun i => Nat.eqb (id i) a && Nat.eqb (od i) b)%bool n in
  mkjd szJ J
       (sumn (fun a => sumn (fun b => if Nat.ltb a b then J a b else 0%Z) szJ) szJ)
       (sumn (fun a => sumn (fun b => if Nat.ltb b a then J a b else 0%Z) szJ) szJ)
       (sumn (fun a => J a a) szJ).
Lemma jdegree_core n W :
  jdegree n W = jdeg_core n (fun v => qnat (colsum n (binarize W) v)) (fun v => qnat (rowsum n (binarize W) v)).
Proof. reflexivity. Qed.

Lemma jdeg_core_ext n id od id' od' : (forall v, id v = id' v) -> (forall v, od v = od' v) ->
  let r := jdeg_core n id od in let r' := jdeg_core n id' od' in
  j_sz r = j_sz r' /\ (forall a b, j_J r a b = j_J r' a b) /\ j_od r = j_od r' /\ j_id r = j_id r' /\ j_bl r = j_bl r'.
Proof.
  intros Hid Hod. cbv zeta. unfold jdeg_core. cbv zeta. cbn [j_sz j_J j_od j_id j_bl].
  assert (Esz : S (fold_left Nat.max (map (fun v => Nat.max (id v) (od v)) (seq 0 n)) 0%nat) =
                S (fold_left Nat.max (map (fun v => Nat.max (id' v) (od' v)) (seq 0 n)) 0%nat)).
  { f_equal. f_equal. apply map_ext. intros v. rewrite (Hid v), (Hod v). reflexivity. }
  assert (EJ : forall a b, countn (fun i => Nat.eqb (id i) a && Nat.eqb (od i) b)%bool n =
                           countn (fun i => Nat.eqb (id' i) a && Nat.eqb (od' i) b)%bool n).
  { intros a b. apply countn_ext. intros i _. rewrite (Hid i), (Hod i). reflexivity. }
  split; [exact Esz|]. split; [exact EJ|]. rewrite <- Esz.
  split; [|split].
  - apply sumn_ext. intros a _. apply sumn_ext. intros b _. rewrite EJ. reflexivity.
  - apply sumn_ext. intros a _. apply sumn_ext. intros b _. rewrite EJ. reflexivity.
  - apply sumn_ext. intros a _. apply EJ.
Qed.

Theorem jdegree_ignores_weights n W :
  let r := jdegree n W in let r' := jdegree n (binarize W) in
  j_sz r = j_sz r' /\ (forall a b, j_J r a b = j_J r' a b) /\ j_od r = j_od r' /\ j_id r = j_id r' /\ j_bl r = j_bl r'.
Proof.
  rewrite !jdegree_core. apply jdeg_core_ext.
  - intros v. apply qnat_comp. unfold colsum. apply sumQ_ext. intros i _. symmetry. apply binarize_idem.
  - intros v. apply qnat_comp. unfold rowsum. apply sumQ_ext. intros i _. symmetry. apply binarize_idem.
Qed.

(* ---------- edge_nei_overlap_bd / _bu ---------- *)
Definition row_eq (r r' : nat * nat * Q * (Q * Q)) : Prop :=
  fst r = fst r' /\ fst (snd r) == fst (snd r') /\ snd (snd r) == snd (snd r').
Definition orow_eq (a b : option (nat * nat * Q * (Q * Q))) : Prop :=
  match a, b with None, None => True | Some r, Some r' => row_eq r r' | _, _ => False end.
(* both raise (None) or both return the same edges in the same order with the same overlaps and equal degrees *)
Definition enov_eq (a b : option (list (nat * nat * Q * (Q * Q)))) : Prop :=
  match a, b with None, None => True | Some l, Some l' => Forall2 row_eq l l' | _, _ => False end.

Lemma all_some'_rel l l' : Forall2 orow_eq l l' -> enov_eq (all_some' l) (all_some' l').
Proof.
  induction 1 as [|a b l l' Hab Hl IH]; cbn [all_some' enov_eq]; [constructor|].
  destruct a as [r|], b as [r'|]; cbn [orow_eq] in Hab; try contradiction; [|exact I].
  destruct (all_some' l), (all_some' l'); cbn [enov_eq] in *; try contradiction; [|exact I].
  constructor; assumption.
Qed.

Lemma Forall2_map_same {T U} (R : U -> U -> Prop) (f g : T -> U) l :
  (forall c, In c l -> R (f c) (g c)) -> Forall2 R (map f l) (map g l).
Proof.
  induction l as [|c l IH]; intros H; cbn [map]; constructor.
  - apply H. left. reflexivity.
  - apply IH. intros d Hd. apply H. right. exact Hd.
Qed.

Lemma nei_binarize n W x i j : nei n (binarize W) x i j = nei n W x i j.
Proof. unfold nei. apply filter_ext. intros v. rewrite !nz_binarize. reflexivity. Qed.

Lemma enov_ignores n W deg deg' : (forall v, deg v == deg' v) -> enov_eq (enov n W deg) (enov n (binarize W) deg').
Proof.
  intros Hd. unfold enov. cbv zeta.
  rewrite (filter_ext (fun c => qnzb' (binarize W (fst c) (snd c))) (fun c => qnzb' (W (fst c) (snd c))))
    by (intros c; apply nz_binarize).
  apply all_some'_rel. apply Forall2_map_same. intros c _. unfold enov_edge. cbv zeta. rewrite !nei_binarize.
  destruct (Nat.eqb _ 0); cbn [orow_eq]; [exact I|].
  unfold row_eq. cbn [fst snd]. split; [reflexivity|]. split; apply Hd.
Qed.

Theorem edge_nei_overlap_bd_ignores_weights n W :
  enov_eq (edge_nei_overlap_bd n W) (edge_nei_overlap_bd n (binarize W)).
Proof. unfold edge_nei_overlap_bd. apply (enov_ignores n W). intros v. exact (proj2 (proj2 (proj2 (degrees_ignore_weights n W v)))). Qed.
Theorem edge_nei_overlap_bu_ignores_weights n W :
  enov_eq (edge_nei_overlap_bu n W) (edge_nei_overlap_bu n (binarize W)).
Proof. unfold edge_nei_overlap_bu. apply (enov_ignores n W). intros v. exact (proj1 (degrees_ignore_weights n W v)). Qed.

(* ---------- the Z-input models binarise in their first statement ---------- *)
Lemma tab_ext {T} (d : T) n m (f g : mat T) :
  (forall i j, (i < n)%nat -> (j < m)%nat -> f i j = g i j) -> tab d n m f = tab d n m g.
Proof.
  intros H. unfold tab, to_rows. f_equal. apply map_ext_in. intros i Hi. apply in_seq in Hi.
  apply map_ext_in. intros j Hj. apply in_seq in Hj. apply H; lia.
Qed.

Lemma bin_idem A i j : bin (bin A) i j = bin A i j.
Proof. unfold bin. destruct (Z.eqb (A i j) 0); reflexivity. Qed.
Lemma binz_idem A i j : binz (binz A) i j = binz A i j.
Proof. unfold binz. destruct (Z.eqb (A i j) 0); reflexivity. Qed.

Theorem findwalks_ignores_weights n A : findwalks n (binz A) = findwalks n A.
Proof. unfold findwalks. rewrite (tab_ext 0%Z n n (binz (binz A)) (binz A)) by (intros; apply binz_idem). reflexivity. Qed.
Theorem reachdist_ignores_weights n A : reachdist n (bin A) = reachdist n A.
Proof. unfold reachdist. rewrite (tab_ext 0%Z n n (bin (bin A)) (bin A)) by (intros; apply bin_idem). reflexivity. Qed.
Theorem distance_bin_ignores_weights n A : distance_bin n (bin A) = distance_bin n A.
Proof. unfold distance_bin, dbin_raw. rewrite (tab_ext 0%Z n n (bin (bin A)) (bin A)) by (intros; apply bin_idem). reflexivity. Qed.
Theorem efficiency_bin_ignores_weights n A :
  efficiency_bin n (bin A) = efficiency_bin n A /\ efficiency_bin_local n (bin A) = efficiency_bin_local n A.
Proof.
  split.
  - unfold efficiency_bin. rewrite distance_bin_ignores_weights. reflexivity.
  - unfold efficiency_bin_local. rewrite (tab_ext 0%Z n n (bin (bin A)) (bin A)) by (intros; apply bin_idem). reflexivity.
Qed.
