(* Proofs/ClusteringSign.v — C09, second round:
   * bct.utils.cuberoot as written, sign(x) * |x|**(1/3): it is a cube root of x as soon as the float power is
     a cube root of |x|, and it is odd by construction (no hypothesis);
   * clustering_coef_wu_sign: the statement-by-statement transcription of coef_type='default' equals the
     Onnela-on-each-part form used by the earlier theorems; zero clauses for all three coef types; range of
     'zhang' ([0,1] on each sign) and of 'costantini' ([-1,1]); no division by zero for both. *)
From Coq Require Import QArith Qabs List Arith Bool ZArith Lia Lqa.
From BCT Require Import Base.Mat Base.SumQ Model.Threshold Model.Clustering
  Proofs.Threshold Proofs.ClusteringSpec Proofs.Clustering.
Import ListNotations.
Open Scope Q_scope.

(* ================= cuberoot ================= *)
Lemma Qsign_cases x :
  (0 < x /\ Qsign x = 1 /\ Qabs x == x) \/ (x < 0 /\ Qsign x = - (1) /\ Qabs x == - x) \/ (x == 0 /\ Qsign x = 0 /\ Qabs x == 0).
Proof.
  unfold Qsign. destruct (Qltb 0 x) eqn:E1.
  - apply Qltb_true in E1. left. split; [exact E1|]. split; [reflexivity|]. apply Qabs_pos. lra.
  - apply Qltb_false in E1. destruct (Qltb x 0) eqn:E2.
    + apply Qltb_true in E2. right; left. split; [exact E2|]. split; [reflexivity|]. apply Qabs_neg. lra.
    + apply Qltb_false in E2. right; right. assert (E : x == 0) by lra. split; [exact E|]. split; [reflexivity|].
      rewrite E. reflexivity.
Qed.

(* the code's cuberoot is a cube root of x whenever the power is a cube root of |x| *)
Theorem cuberoot_is_cube_root pcbrt x : cube_root_at pcbrt (Qabs x) -> cube_root_at (cuberoot pcbrt) x.
Proof.
  unfold cube_root_at, cuberoot. set (p := pcbrt (Qabs x)). intros H.
  destruct (Qsign_cases x) as [[_ [-> E]]|[[_ [-> E]]|[E0 [-> E]]]].
  - transitivity (p * p * p); [ring|rewrite H; exact E].
  - transitivity (- (p * p * p)); [ring|rewrite H, E; ring].
  - transitivity 0; [ring|symmetry; exact E0].
Qed.

Definition pcbrt_ok (pcbrt : Q -> Q) (n : nat) (W : mat Q) : Prop :=
  forall a b, (a < n)%nat -> (b < n)%nat -> cube_root_at pcbrt (Qabs (W a b)).
Theorem cuberoot_ok pcbrt n W : pcbrt_ok pcbrt n W -> cbrt_ok (cuberoot pcbrt) n W.
Proof. intros H a b Ha Hb. apply cuberoot_is_cube_root. apply H; assumption. Qed.

(* odd by construction: no assumption on the power at all *)
Lemma Qabs_opp_eq x : Qabs (- x) = Qabs x.
Proof. destruct x as [a b]. unfold Qabs, Qopp. cbn [Qnum Qden]. rewrite Z.abs_opp. reflexivity. Qed.
Theorem cuberoot_odd pcbrt x : cuberoot pcbrt (- x) == - cuberoot pcbrt x.
Proof.
  unfold cuberoot. rewrite Qabs_opp_eq. set (p := pcbrt (Qabs x)).
  assert (S : Qsign (- x) == - Qsign x).
  { destruct (Qsign_cases x) as [[H [-> _]]|[[H [-> _]]|[H [-> _]]]];
      destruct (Qsign_cases (- x)) as [[H' [-> _]]|[[H' [-> _]]|[H' [-> _]]]]; try lra; reflexivity. }
  rewrite S. ring.
Qed.
Theorem cuberoot_sign pcbrt x : 0 <= pcbrt (Qabs x) ->
  (0 < x -> 0 <= cuberoot pcbrt x) /\ (x < 0 -> cuberoot pcbrt x <= 0) /\ (x == 0 -> cuberoot pcbrt x == 0).
Proof.
  unfold cuberoot. set (p := pcbrt (Qabs x)). intros Hp.
  destruct (Qsign_cases x) as [[H [-> _]]|[[H [-> _]]|[H [-> _]]]]; repeat split; intros; try lra.
Qed.

(* ================= clustering_coef_wu_sign ================= *)
(* the 12 statements of the 'default' branch are clustering_coef_wu applied to the two parts *)
Theorem cc_wu_sign_default_code_eq cbrt n W i : cc_wu_sign_default_code cbrt n W i = cc_wu_sign_default cbrt n W i.
Proof. reflexivity. Qed.

(* the capitalised spellings select the same branches; any other coef_type returns None *)
Theorem coef_type_dispatch cbrt n W :
  clustering_coef_wu_sign cbrt n W CT_Zhang = clustering_coef_wu_sign cbrt n W CT_zhang /\
  clustering_coef_wu_sign cbrt n W CT_Costantini = clustering_coef_wu_sign cbrt n W CT_costantini /\
  clustering_coef_wu_sign cbrt n W CT_other = SR_none.
Proof. repeat split. Qed.

(* ---------- parts ---------- *)
Lemma pospart_zero W a b : W a b == 0 -> pospart W a b == 0.
Proof. intros H. unfold pospart. destruct (Qltb 0 (W a b)); rewrite H; ring. Qed.
Lemma negpart_zero W a b : W a b == 0 -> negpart W a b == 0.
Proof. intros H. unfold negpart. destruct (Qltb (W a b) 0); rewrite H; ring. Qed.
Lemma no_triangle_part n W P i : (forall a b, W a b == 0 -> P a b == 0) -> no_triangle n W i -> no_triangle n P i.
Proof.
  intros HP H j k Hj Hk. destruct (H j k Hj Hk) as [[E1 E2]|[[E1 E2]|[E1 E2]]]; [left|right; left|right; right]; split; apply HP; assumption.
Qed.
Lemma pospart_range n W : signed_unit_weights n W -> forall a b, (a < n)%nat -> (b < n)%nat -> 0 <= pospart W a b <= 1.
Proof.
  intros H a b Ha Hb. specialize (H a b Ha Hb). unfold pospart. destruct (Qltb 0 (W a b)) eqn:E.
  - apply Qltb_true in E. split; [|rewrite Qmult_1_r]; nra.
  - split; [|rewrite Qmult_0_r]; nra.
Qed.
Lemma negpart_range n W : signed_unit_weights n W -> forall a b, (a < n)%nat -> (b < n)%nat -> 0 <= negpart W a b <= 1.
Proof.
  intros H a b Ha Hb. specialize (H a b Ha Hb). unfold negpart. destruct (Qltb (W a b) 0) eqn:E.
  - apply Qltb_true in E. split; [|rewrite Qmult_1_r]; nra.
  - split; [|rewrite Qmult_0_r]; nra.
Qed.
Lemma clear_diag_range n W : signed_unit_weights n W -> signed_unit_weights n (clear_diag W).
Proof. intros H a b Ha Hb. unfold clear_diag. destruct (Nat.eqb a b); [lra|apply H; assumption]. Qed.

(* ---------- the quotient c3 / masked c2 shared by 'zhang' and 'costantini' ---------- *)
Lemma mask_quot c3 c2 : xdiv c3 (xmask c3 c2) == if Qeq_bool c3 0 then 0 else c3 / c2.
Proof. unfold xmask. destruct (Qeq_bool c3 0); reflexivity. Qed.

Lemma quot_range c3 c2 : - c2 <= c3 <= c2 -> - (1) <= xdiv c3 (xmask c3 c2) <= 1.
Proof.
  intros [H1 H2]. rewrite mask_quot. destruct (Qeq_bool c3 0) eqn:E; [lra|]. apply Qeq_bool_neq in E.
  assert (Hp : 0 < c2) by (destruct (Qlt_le_dec 0 c2); [assumption|exfalso; apply E; lra]).
  split.
  - apply Qle_shift_div_l; [exact Hp|]. lra.
  - apply Qle_shift_div_r; [exact Hp|]. lra.
Qed.
Lemma quot_range_pos c3 c2 : 0 <= c3 <= c2 -> 0 <= xdiv c3 (xmask c3 c2) <= 1.
Proof.
  intros [H1 H2]. rewrite mask_quot. destruct (Qeq_bool c3 0) eqn:E; [lra|]. apply Qeq_bool_neq in E.
  assert (Hp : 0 < c2) by (destruct (Qlt_le_dec 0 c2); [assumption|exfalso; apply E; lra]).
  split.
  - apply Qle_shift_div_l; [exact Hp|]. lra.
  - apply Qle_shift_div_r; [exact Hp|]. lra.
Qed.

(* a sum of non-negative terms that is zero has only zero terms *)
Lemma sumQ_nonneg_zero f n : (forall i, (i < n)%nat -> 0 <= f i) -> sumQ f n == 0 -> forall i, (i < n)%nat -> f i == 0.
Proof.
  induction n as [|n IH]; intros Hf Hs i Hi; [lia|]. cbn [sumQ] in Hs.
  assert (H0 : 0 <= sumQ f n) by (apply sumQ_nonneg; intros; apply Hf; lia).
  assert (Hn : 0 <= f n) by (apply Hf; lia).
  destruct (Nat.eq_dec i n) as [->|Hne]; [lra|]. apply IH; [intros; apply Hf; lia|lra|lia].
Qed.

(* ---------- 'zhang' on one non-negative part P ---------- *)
Section Zhang.
Variable n : nat.
Variable P : mat Q.
Variable i : nat.
Hypothesis Hd : nodiag n P.
Hypothesis Hnn : forall a b, (a < n)%nat -> (b < n)%nat -> 0 <= P a b.

Lemma zh_term_zero_diag j : (j < n)%nat -> P j i * P i j * P j j == 0.
Proof. intros Hj. rewrite (Hd j Hj). ring. Qed.

Lemma zh_c2_nonneg_term j q : (j < n)%nat -> (q < n)%nat -> (i < n)%nat ->
  0 <= (if Nat.eqb j q then 0 else P j i * P i q).
Proof.
  intros Hj Hq Hi. destruct (Nat.eqb j q); [lra|]. pose proof (Hnn j i Hj Hi). pose proof (Hnn i q Hi Hq). nra.
Qed.

(* c3 <> 0 forces c2 > 0: the masked division never divides by zero (any non-negative weights) *)
Lemma zhang_no_div0 : (i < n)%nat -> ~ zh_cyc3 n P i == 0 -> 0 < zh_cyc2 n P i.
Proof.
  intros Hi H3.
  assert (H2 : 0 <= zh_cyc2 n P i).
  { unfold zh_cyc2. apply sumQ_nonneg. intros j Hj. apply sumQ_nonneg. intros q Hq. apply zh_c2_nonneg_term; assumption. }
  destruct (Qlt_le_dec 0 (zh_cyc2 n P i)) as [L|L]; [exact L|]. exfalso. apply H3.
  assert (E2 : zh_cyc2 n P i == 0) by lra.
  unfold zh_cyc3. apply sumQ_zero'. intros j Hj. apply sumQ_zero'. intros q Hq.
  destruct (Nat.eqb_spec j q) as [<-|Hne]; [apply zh_term_zero_diag; exact Hj|].
  assert (Ej : sumQ (fun q => if Nat.eqb j q then 0 else P j i * P i q) n == 0).
  { apply (sumQ_nonneg_zero (fun j => sumQ (fun q => if Nat.eqb j q then 0 else P j i * P i q) n) n); [|exact E2|exact Hj].
    intros a Ha. apply sumQ_nonneg. intros b Hb. apply zh_c2_nonneg_term; assumption. }
  pose proof (sumQ_nonneg_zero _ n (fun b Hb => zh_c2_nonneg_term j b Hj Hb Hi) Ej q Hq) as Eq.
  cbv beta in Eq. destruct (Nat.eqb_spec j q); [contradiction|]. rewrite Eq. ring.
Qed.

Hypothesis Hle : forall a b, (a < n)%nat -> (b < n)%nat -> P a b <= 1.

Lemma zhang_bounds : (i < n)%nat -> 0 <= zh_cyc3 n P i <= zh_cyc2 n P i.
Proof.
  intros Hi. split.
  - unfold zh_cyc3. apply sumQ_nonneg. intros j Hj. apply sumQ_nonneg. intros q Hq.
    pose proof (Hnn j i Hj Hi). pose proof (Hnn i q Hi Hq). pose proof (Hnn j q Hj Hq).
    assert (0 <= P j i * P i q) by nra. nra.
  - unfold zh_cyc3, zh_cyc2. apply sumQ_le. intros j Hj. apply sumQ_le. intros q Hq.
    destruct (Nat.eqb_spec j q) as [<-|Hne]; [rewrite (zh_term_zero_diag j Hj); lra|].
    pose proof (Hnn j i Hj Hi). pose proof (Hnn i q Hi Hq). pose proof (Hnn j q Hj Hq). pose proof (Hle j q Hj Hq).
    assert (0 <= P j i * P i q) by nra. nra.
Qed.

Theorem zhang1_range : (i < n)%nat -> 0 <= cc_zhang1 n P i <= 1.
Proof. intros Hi. unfold cc_zhang1. cbv zeta. apply quot_range_pos. apply zhang_bounds. exact Hi. Qed.
End Zhang.

Lemma zhang1_no_triangle n P i : no_triangle n P i -> cc_zhang1 n P i == 0.
Proof.
  intros H. unfold cc_zhang1. cbv zeta. rewrite mask_quot.
  assert (E : zh_cyc3 n P i == 0).
  { unfold zh_cyc3. apply sumQ_zero'. intros j Hj. apply sumQ_zero'. intros q Hq.
    destruct (H j q Hj Hq) as [[_ E]|[[E _]|[_ E]]]; rewrite E; ring. }
  apply Qeq_bool_iff in E. rewrite E. reflexivity.
Qed.

Lemma Qabs_cases x : (0 <= x /\ Qabs x == x) \/ (x <= 0 /\ Qabs x == - x).
Proof.
  destruct (Qlt_le_dec x 0) as [L|L]; [right|left]; (split; [lra|]); [apply Qabs_neg|apply Qabs_pos]; lra.
Qed.

(* ---------- 'costantini' on the signed matrix with cleared diagonal ---------- *)
Section Costantini.
Variable n : nat.
Variable W : mat Q.
Variable i : nat.
Hypothesis Hd : nodiag n W.

Lemma co_c2_nonneg_term j q : 0 <= (if Nat.eqb j q then 0 else Qabs (W j i * W i q)).
Proof. destruct (Nat.eqb j q); [lra|apply Qabs_nonneg]. Qed.

Lemma costantini_no_div0 : (i < n)%nat -> ~ zh_cyc3 n W i == 0 -> 0 < co_cyc2 n W i.
Proof.
  intros Hi H3.
  assert (H2 : 0 <= co_cyc2 n W i).
  { unfold co_cyc2. apply sumQ_nonneg. intros j Hj. apply sumQ_nonneg. intros q Hq. apply co_c2_nonneg_term. }
  destruct (Qlt_le_dec 0 (co_cyc2 n W i)) as [L|L]; [exact L|]. exfalso. apply H3.
  assert (E2 : co_cyc2 n W i == 0) by lra.
  unfold zh_cyc3. apply sumQ_zero'. intros j Hj. apply sumQ_zero'. intros q Hq.
  destruct (Nat.eqb_spec j q) as [<-|Hne]; [rewrite (Hd j Hj); ring|].
  assert (Ej : sumQ (fun q => if Nat.eqb j q then 0 else Qabs (W j i * W i q)) n == 0).
  { apply (sumQ_nonneg_zero (fun j => sumQ (fun q => if Nat.eqb j q then 0 else Qabs (W j i * W i q)) n) n); [|exact E2|exact Hj].
    intros a Ha. apply sumQ_nonneg. intros b Hb. apply co_c2_nonneg_term. }
  pose proof (sumQ_nonneg_zero _ n (fun b _ => co_c2_nonneg_term j b) Ej q Hq) as Eq.
  cbv beta in Eq. destruct (Nat.eqb_spec j q); [contradiction|].
  assert (E0 : W j i * W i q == 0).
  { destruct (Qabs_cases (W j i * W i q)) as [[? Ea]|[? Ea]]; rewrite Ea in Eq; lra. }
  rewrite E0. ring.
Qed.

Hypothesis Hb : forall a b, (a < n)%nat -> (b < n)%nat -> - (1) <= W a b <= 1.

Lemma costantini_bounds : (i < n)%nat -> - co_cyc2 n W i <= zh_cyc3 n W i <= co_cyc2 n W i.
Proof.
  intros Hi.
  assert (T : forall j q, (j < n)%nat -> (q < n)%nat ->
    - (if Nat.eqb j q then 0 else Qabs (W j i * W i q)) <= W j i * W i q * W j q <= (if Nat.eqb j q then 0 else Qabs (W j i * W i q))).
  { intros j q Hj Hq. destruct (Nat.eqb_spec j q) as [<-|Hne]; [rewrite (Hd j Hj); lra|].
    pose proof (Hb j q Hj Hq) as [B1 B2]. set (a := W j i * W i q).
    destruct (Qabs_cases a) as [[Ha Ea]|[Ha Ea]]; rewrite Ea; split; nra. }
  split.
  - unfold co_cyc2, zh_cyc3. rewrite <- (Qmult_1_l (sumQ _ n)) at 1.
    apply (Qle_trans _ (sumQ (fun j => sumQ (fun q => - (if Nat.eqb j q then 0 else Qabs (W j i * W i q))) n) n)).
    + assert (E : sumQ (fun j => sumQ (fun q => - (if Nat.eqb j q then 0 else Qabs (W j i * W i q))) n) n ==
                  - sumQ (fun j => sumQ (fun q => if Nat.eqb j q then 0 else Qabs (W j i * W i q)) n) n).
      { transitivity (sumQ (fun j => (- (1)) * sumQ (fun q => if Nat.eqb j q then 0 else Qabs (W j i * W i q)) n) n).
        - apply sumQ_ext. intros j _. rewrite <- sumQ_scal. apply sumQ_ext. intros q _. ring.
        - rewrite sumQ_scal. ring. }
      rewrite E. lra.
    + apply sumQ_le. intros j Hj. apply sumQ_le. intros q Hq. apply T; assumption.
  - unfold co_cyc2, zh_cyc3. apply sumQ_le. intros j Hj. apply sumQ_le. intros q Hq. apply T; assumption.
Qed.
End Costantini.

(* ================= the statements about clustering_coef_wu_sign ================= *)
(* zero clauses, all three coef types: a node on no triangle of the support (diagonal cleared) gets exactly 0 *)
Theorem wu_sign_no_triangle_zero cbrt n W i : (i < n)%nat -> no_triangle n (clear_diag W) i ->
  (cbrt_ok cbrt n (pospart (clear_diag W)) -> fst (cc_wu_sign_default cbrt n W i) == 0) /\
  (cbrt_ok cbrt n (negpart (clear_diag W)) -> snd (cc_wu_sign_default cbrt n W i) == 0) /\
  fst (cc_wu_sign_zhang n W i) == 0 /\ snd (cc_wu_sign_zhang n W i) == 0 /\
  cc_wu_sign_costantini n W i == 0.
Proof.
  intros Hi H.
  assert (Hp : no_triangle n (pospart (clear_diag W)) i) by (apply (no_triangle_part n (clear_diag W)); [apply pospart_zero|exact H]).
  assert (Hn : no_triangle n (negpart (clear_diag W)) i) by (apply (no_triangle_part n (clear_diag W)); [apply negpart_zero|exact H]).
  split; [|split; [|split; [|split]]].
  - intros Hc. unfold cc_wu_sign_default. cbv zeta. cbn [fst]. exact (proj1 (proj2 (proj2 (no_triangle_zero cbrt n _ i Hc Hi Hp)))).
  - intros Hc. unfold cc_wu_sign_default. cbv zeta. cbn [snd]. exact (proj1 (proj2 (proj2 (no_triangle_zero cbrt n _ i Hc Hi Hn)))).
  - unfold cc_wu_sign_zhang. cbv zeta. cbn [fst]. apply zhang1_no_triangle. exact Hp.
  - unfold cc_wu_sign_zhang. cbv zeta. cbn [snd]. apply zhang1_no_triangle. exact Hn.
  - unfold cc_wu_sign_costantini. cbv zeta. rewrite mask_quot.
    assert (E : zh_cyc3 n (clear_diag W) i == 0).
    { unfold zh_cyc3. apply sumQ_zero'. intros j Hj. apply sumQ_zero'. intros q Hq.
      destruct (H j q Hj Hq) as [[_ E]|[[E _]|[_ E]]]; rewrite E; ring. }
    apply Qeq_bool_iff in E. rewrite E. reflexivity.
Qed.

(* a node with fewer than two neighbours (diagonal cleared) lies on no triangle *)
Theorem wu_sign_deg_lt2_zero cbrt n W i : (i < n)%nat -> few_neighbours n (clear_diag W) i ->
  (cbrt_ok cbrt n (pospart (clear_diag W)) -> fst (cc_wu_sign_default cbrt n W i) == 0) /\
  (cbrt_ok cbrt n (negpart (clear_diag W)) -> snd (cc_wu_sign_default cbrt n W i) == 0) /\
  fst (cc_wu_sign_zhang n W i) == 0 /\ snd (cc_wu_sign_zhang n W i) == 0 /\
  cc_wu_sign_costantini n W i == 0.
Proof.
  intros Hi H. apply wu_sign_no_triangle_zero; [exact Hi|]. apply few_no_triangle; [apply clear_diag_nodiag|exact H].
Qed.

(* ranges: weights in [-1,1] *)
Theorem range_zhang n W i : signed_unit_weights n W -> (i < n)%nat ->
  0 <= fst (cc_wu_sign_zhang n W i) <= 1 /\ 0 <= snd (cc_wu_sign_zhang n W i) <= 1.
Proof.
  intros Hu Hi. pose proof (clear_diag_range n W Hu) as Hu0. unfold cc_wu_sign_zhang. cbv zeta. cbn [fst snd]. split.
  - apply zhang1_range; [apply pospart_nodiag, clear_diag_nodiag| | |exact Hi];
      intros a b Ha Hb; apply (pospart_range n _ Hu0 a b Ha Hb).
  - apply zhang1_range; [apply negpart_nodiag, clear_diag_nodiag| | |exact Hi];
      intros a b Ha Hb; apply (negpart_range n _ Hu0 a b Ha Hb).
Qed.

Theorem range_costantini n W i : signed_unit_weights n W -> (i < n)%nat -> - (1) <= cc_wu_sign_costantini n W i <= 1.
Proof.
  intros Hu Hi. unfold cc_wu_sign_costantini. cbv zeta. apply quot_range.
  apply costantini_bounds; [apply clear_diag_nodiag|apply clear_diag_range; exact Hu|exact Hi].
Qed.

(* no division by zero, any weights: a nonzero (unmasked) numerator forces a positive denominator *)
Theorem no_div0_sign n W i : (i < n)%nat ->
  (~ zh_cyc3 n (pospart (clear_diag W)) i == 0 -> 0 < zh_cyc2 n (pospart (clear_diag W)) i) /\
  (~ zh_cyc3 n (negpart (clear_diag W)) i == 0 -> 0 < zh_cyc2 n (negpart (clear_diag W)) i) /\
  (~ zh_cyc3 n (clear_diag W) i == 0 -> 0 < co_cyc2 n (clear_diag W) i).
Proof.
  intros Hi. split; [|split].
  - apply zhang_no_div0; [apply pospart_nodiag, clear_diag_nodiag| |exact Hi].
    intros a b _ _. unfold pospart. destruct (Qltb 0 (clear_diag W a b)) eqn:E; [apply Qltb_true in E; nra|nra].
  - apply zhang_no_div0; [apply negpart_nodiag, clear_diag_nodiag| |exact Hi].
    intros a b _ _. unfold negpart. destruct (Qltb (clear_diag W a b) 0) eqn:E; [apply Qltb_true in E; nra|nra].
  - apply costantini_no_div0; [apply clear_diag_nodiag|exact Hi].
Qed.
