(* Proofs/LinearDim.v — the one fact of finite-dimensional linear algebra the existence statements need, over Q, without
   determinants or an elimination algorithm:
     * fewer homogeneous equations than unknowns => a non-trivial solution (induction on the number of unknowns);
     * hence an injective n x n system is solvable for every right-hand side;
     * hence a matrix with a non-trivial right kernel vector has a non-trivial left kernel vector. *)
From Coq Require Import QArith Qfield Lia Lqa Arith List Bool.
From BCT Require Import Base.Mat Base.SumQ Model.Linear.
Import ListNotations.
Open Scope Q_scope.

Definition nontrivial (n : nat) (x : vec Q) : Prop := exists j, (j < n)%nat /\ ~ x j == 0.
Definition dotQ (n : nat) (r x : vec Q) : Q := sumQ (fun j => r j * x j) n.

Lemma rows_last_dec (n : nat) (rows : list (vec Q)) :
  (forall r, In r rows -> r n == 0) \/ (exists l1 p l2, rows = l1 ++ p :: l2 /\ ~ p n == 0).
Proof.
  induction rows as [|r rows [IH|[l1 [p [l2 [E Hp]]]]]].
  - left. intros r [].
  - destruct (Qeq_dec (r n) 0) as [Hz|Hnz].
    + left. intros r' [<-|Hin]; [exact Hz|apply IH; exact Hin].
    + right. exists [], r, rows. split; [reflexivity|exact Hnz].
  - right. exists (r :: l1), p, l2. split; [rewrite E; reflexivity|exact Hp].
Qed.

(* fewer equations than unknowns *)
Theorem underdetermined : forall n (rows : list (vec Q)), (length rows < n)%nat ->
  exists x, nontrivial n x /\ forall r, In r rows -> dotQ n r x == 0.
Proof.
  induction n as [|n IH]; intros rows Hlen; [lia|].
  destruct (rows_last_dec n rows) as [Hall|[l1 [p [l2 [E Hp]]]]].
  - (* the last unknown occurs nowhere: x = e_n *)
    exists (fun j => if Nat.eqb j n then 1 else 0). split.
    + exists n. split; [lia|]. rewrite Nat.eqb_refl. lra.
    + intros r Hr. unfold dotQ. cbn [sumQ]. rewrite Nat.eqb_refl.
      rewrite (sumQ_zero' _ n); [rewrite (Hall r Hr); ring|].
      intros j Hj. destruct (Nat.eqb_spec j n); [lia|ring].
  - (* eliminate the last unknown with the row p *)
    set (el := fun (r : vec Q) => (fun j => r j - (r n / p n) * p j) : vec Q).
    destruct (IH (map el (l1 ++ l2))) as [y [[j0 [Hj0 Hy0]] Hy]].
    { rewrite map_length. rewrite E in Hlen. rewrite app_length in *. cbn [length] in Hlen. lia. }
    set (xn := - dotQ n p y / p n).
    exists (fun j => if Nat.eqb j n then xn else y j). split.
    + exists j0. split; [lia|]. destruct (Nat.eqb_spec j0 n); [lia|exact Hy0].
    + assert (Hdot : forall r : vec Q, dotQ (S n) r (fun j => if Nat.eqb j n then xn else y j) == dotQ n r y + r n * xn).
      { intros r. unfold dotQ. cbn [sumQ]. rewrite Nat.eqb_refl.
        rewrite (sumQ_ext (fun j => r j * (if Nat.eqb j n then xn else y j)) (fun j => r j * y j) n); [reflexivity|].
        intros j Hj. destruct (Nat.eqb_spec j n); [lia|reflexivity]. }
      intros r Hr. rewrite Hdot. rewrite E in Hr. apply in_app_or in Hr.
      assert (Hel : forall r, In r (l1 ++ l2) -> dotQ n r y + r n * xn == 0).
      { intros r0 Hr0. pose proof (Hy (el r0) (in_map el _ _ Hr0)) as H0. unfold dotQ, el in H0.
        rewrite (sumQ_ext _ (fun j => r0 j * y j - (r0 n / p n) * (p j * y j))) in H0 by (intros; ring).
        rewrite sumQ_sub, sumQ_scal in H0. unfold xn, dotQ. rewrite <- H0. field. exact Hp. }
      destruct Hr as [Hr|[<-|Hr]].
      * apply Hel. apply in_or_app. left; exact Hr.
      * unfold xn. field. exact Hp.
      * apply Hel. apply in_or_app. right; exact Hr.
Qed.

(* n+1 vectors of Q^n are linearly dependent *)
Lemma dependent n (v : nat -> vec Q) :
  exists c, nontrivial (S n) c /\ forall i, (i < n)%nat -> sumQ (fun j => c j * v j i) (S n) == 0.
Proof.
  destruct (underdetermined (S n) (map (fun i => (fun j => v j i) : vec Q) (seq 0 n))) as [c [Hc H]].
  { rewrite map_length, seq_length. lia. }
  exists c. split; [exact Hc|]. intros i Hi.
  specialize (H (fun j => v j i)). unfold dotQ in H.
  rewrite (sumQ_ext _ (fun j => v j i * c j)) by (intros; ring). apply H.
  apply in_map_iff. exists i. split; [reflexivity|apply in_seq; lia].
Qed.

Definition injective (n : nat) (B : mat Q) : Prop :=
  forall x, (forall i, (i < n)%nat -> mvecQ n B x i == 0) -> forall i, (i < n)%nat -> x i == 0.

(* an injective square system has a solution for every right-hand side *)
Theorem injective_solvable n (B : mat Q) : injective n B -> forall b : vec Q, exists x, forall i, (i < n)%nat -> mvecQ n B x i == b i.
Proof.
  intros Hinj b.
  destruct (dependent n (fun j => if Nat.eqb j n then b else (fun i => B i j))) as [c [[j0 [Hj0 Hc0]] Hc]].
  assert (Hrow : forall i, (i < n)%nat -> mvecQ n B c i + c n * b i == 0).
  { intros i Hi. specialize (Hc i Hi). cbn [sumQ] in Hc. rewrite Nat.eqb_refl in Hc. rewrite <- Hc.
    unfold mvecQ. apply Qplus_comp; [|reflexivity]. apply sumQ_ext. intros j Hj. destruct (Nat.eqb_spec j n); [lia|ring]. }
  destruct (Qeq_dec (c n) 0) as [Hz|Hnz].
  - exfalso. assert (K : forall i, (i < n)%nat -> c i == 0).
    { apply Hinj. intros i Hi. specialize (Hrow i Hi). rewrite Hz in Hrow. lra. }
    destruct (Nat.eq_dec j0 n) as [->|Hne]; [exact (Hc0 Hz)|]. apply Hc0. apply K. lia.
  - exists (fun j => - c j / c n). intros i Hi. specialize (Hrow i Hi).
    unfold mvecQ in *. rewrite (sumQ_ext _ (fun j => (B i j * c j) * (- (1) / c n))) by (intros; field; exact Hnz).
    rewrite sumQ_scal_r.
    assert (E : sumQ (fun j => B i j * c j) n == - (c n * b i)) by lra. rewrite E. field. exact Hnz.
Qed.

(* finitely many existence statements can be collected into one function *)
Lemma finite_choice n (R : nat -> vec Q -> Prop) : (forall j, (j < n)%nat -> exists x, R j x) ->
  exists X : nat -> vec Q, forall j, (j < n)%nat -> R j (X j).
Proof.
  induction n as [|n IH]; intros H.
  - exists (fun _ _ => 0). intros j Hj. lia.
  - destruct (IH (fun j Hj => H j (Nat.lt_lt_succ_r _ _ Hj))) as [X HX]. destruct (H n (Nat.lt_succ_diag_r n)) as [x Hx].
    exists (fun j => if Nat.eqb j n then x else X j). intros j Hj. destruct (Nat.eqb_spec j n) as [->|Hne]; [exact Hx|apply HX; lia].
Qed.

(* an injective matrix has a right inverse *)
Theorem injective_right_inverse n (B : mat Q) : injective n B ->
  exists Z : mat Q, forall i j, (i < n)%nat -> (j < n)%nat -> mmulQ n B Z i j == delta i j.
Proof.
  intros Hinj.
  destruct (finite_choice n (fun j x => forall i, (i < n)%nat -> mvecQ n B x i == delta i j)) as [X HX].
  { intros j Hj. apply (injective_solvable n B Hinj (fun i => delta i j)). }
  exists (fun k j => X j k). intros i j Hi Hj. apply (HX j Hj i Hi).
Qed.

(* every row of B sums to zero (B 1 = 0)  =>  some non-trivial w with w B = 0 *)
Theorem left_kernel_of_zero_rowsums n (B : mat Q) : (0 < n)%nat ->
  (forall i, (i < n)%nat -> sumQ (B i) n == 0) ->
  exists w, nontrivial n w /\ forall j, (j < n)%nat -> sumQ (fun i => w i * B i j) n == 0.
Proof.
  intros Hn Hrow.
  (* the equations of the columns 1 .. n-1; the one of column 0 is minus their sum *)
  destruct (underdetermined n (map (fun j => (fun i => B i (S j)) : vec Q) (seq 0 (n - 1)))) as [w [Hw H]].
  { rewrite map_length, seq_length. lia. }
  exists w. split; [exact Hw|].
  assert (Hcol : forall j, (1 <= j < n)%nat -> sumQ (fun i => w i * B i j) n == 0).
  { intros j Hj. specialize (H (fun i => B i j)). unfold dotQ in H.
    rewrite (sumQ_ext _ (fun i => B i j * w i)) by (intros; ring). apply H.
    apply in_map_iff. exists (j - 1)%nat. split; [replace (S (j - 1)) with j by lia; reflexivity|apply in_seq; lia]. }
  assert (Htot : sumQ (fun j => sumQ (fun i => w i * B i j) n) n == 0).
  { rewrite sumQ_fubini. apply sumQ_zero'. intros i Hi. rewrite sumQ_scal, (Hrow i Hi). ring. }
  intros j Hj. destruct (Nat.eq_dec j O) as [->|Hne]; [|apply Hcol; lia].
  rewrite (sumQ_split _ n O Hn) in Htot.
  rewrite (sumQ_zero' (fun i => if Nat.eqb i 0 then 0 else sumQ (fun i0 => w i0 * B i0 i) n) n) in Htot; [lra|].
  intros k Hk. destruct (Nat.eqb_spec k 0); [reflexivity|apply Hcol; lia].
Qed.
