(* Proofs/NullModelTop.v — assembly: the whole null_model_{dir,und}_sign run keeps the invariant *)
From Coq Require Import ZArith QArith List Arith Lia Bool Permutation.
From BCT Require Import Base.Mat Base.ListX Model.Signed Model.NullModel Proofs.Signed
  Proofs.NullModelLists Proofs.NullModel.
Import ListNotations.
Open Scope Z_scope.

Lemma sgn0_eq0 z : Z.sgn z = Z.sgn 0 -> z = 0.
Proof. intros H. apply Z.sgn_null_iff. exact H. Qed.

(* ---------- directed: the output is the dealt matrix ---------- *)
Lemma dealt_dir n per Wc Wr W1 W2 ords perms o1 p1 o2 p2 :
  (forall i, (i < n)%nat -> Wc i i = 0) -> sinv false n Wc Wr ->
  deal_sign false n per 1 Wc Wr zero_mat ords perms = Some (W1, o1, p1) ->
  deal_sign false n per (-1) Wc Wr W1 o1 p1 = Some (W2, o2, p2) ->
  sinv false n Wc W2 /\
  (forall i j, (i < n)%nat -> (j < n)%nat -> Z.sgn (W2 i j) = Z.sgn (Wr i j)).
Proof.
  intros Hdiag Hinv Hd1 Hd2.
  assert (Hpre : pre false n Wc) by (intros H; discriminate).
  destruct (two_passes_facts false n per Wc Wr W1 W2 ords perms o1 p1 o2 p2 Hpre Hinv Hd1 Hd2)
    as (Fsgn & _ & Fphi).
  assert (Hsg : forall i j, (i < n)%nat -> (j < n)%nat -> Z.sgn (W2 i j) = Z.sgn (Wr i j)).
  { intros i j Hi Hj. apply (Fsgn (i, j)); [split; assumption|reflexivity]. }
  destruct Hinv as (A1 & A2 & A3 & A4 & A5).
  split; [|exact Hsg]. split; [|split; [|split; [|split]]].
  - intros phi Hphi i Hi. rewrite <- (A1 phi Hphi i Hi). apply sumn_ext. intros j Hj. apply Hphi. apply Hsg; assumption.
  - intros phi Hphi j Hj. rewrite <- (A2 phi Hphi j Hj). apply sumn_ext. intros i Hi. apply Hphi. apply Hsg; assumption.
  - intros phi.
    transitivity (zsum (map (fun c => phi (at_ W2 c)) (cells n))); [rewrite zsum_cells; reflexivity|].
    transitivity (zsum (map (fun c => phi (at_ Wc c)) (cells n))); [|rewrite zsum_cells; reflexivity].
    specialize (Fphi phi). unfold univ, in_tri in Fphi. cbv beta iota in Fphi.
    rewrite filter_true in Fphi. exact Fphi.
  - intros i Hi. rewrite (Hdiag i Hi). apply sgn0_eq0. rewrite (Hsg i i Hi Hi), (A4 i Hi), (Hdiag i Hi). reflexivity.
  - discriminate.
Qed.

(* ---------- undirected: the output is W0 + W0^T of the dealt upper triangle ---------- *)
Lemma dealt_und n per Wc Wr W1 W2 ords perms o1 p1 o2 p2 :
  symn n Wc -> (forall i, (i < n)%nat -> Wc i i = 0) -> sinv true n Wc Wr ->
  deal_sign true n per 1 Wc Wr zero_mat ords perms = Some (W1, o1, p1) ->
  deal_sign true n per (-1) Wc Wr W1 o1 p1 = Some (W2, o2, p2) ->
  sinv true n Wc (fun i j => W2 i j + W2 j i) /\
  (forall i j, (i < n)%nat -> (j < n)%nat -> Z.sgn (W2 i j + W2 j i) = Z.sgn (Wr i j)).
Proof.
  intros Hsym Hdiag Hinv Hd1 Hd2.
  assert (Hpre : pre true n Wc) by (intros _; exact Hsym).
  destruct (two_passes_facts true n per Wc Wr W1 W2 ords perms o1 p1 o2 p2 Hpre Hinv Hd1 Hd2)
    as (Fsgn & Flow & Fphi).
  destruct Hinv as (A1 & A2 & A3 & A4 & A5).
  assert (HsymR : symn n Wr) by (apply A5; reflexivity).
  assert (HWrd : forall i, (i < n)%nat -> Wr i i = 0) by (intros i Hi; rewrite (A4 i Hi); auto).
  assert (Hup : forall i j, (i < n)%nat -> (j < n)%nat -> (i <= j)%nat -> Z.sgn (W2 i j) = Z.sgn (Wr i j)).
  { intros i j Hi Hj Hij. apply (Fsgn (i, j)); [split; assumption|]. cbn. apply Nat.leb_le. exact Hij. }
  assert (Hlow : forall i j, (i < n)%nat -> (j < n)%nat -> (j < i)%nat -> W2 i j = 0).
  { intros i j Hi Hj Hij. apply (Flow (i, j)); [split; assumption|]. cbn. apply Nat.leb_gt. exact Hij. }
  assert (Hd2' : forall i, (i < n)%nat -> W2 i i = 0).
  { intros i Hi. apply sgn0_eq0. rewrite (Hup i i Hi Hi (le_n i)), (HWrd i Hi). reflexivity. }
  assert (Hsg : forall i j, (i < n)%nat -> (j < n)%nat -> Z.sgn (W2 i j + W2 j i) = Z.sgn (Wr i j)).
  { intros i j Hi Hj. destruct (Nat.lt_trichotomy i j) as [H|[H|H]].
    - rewrite (Hlow j i Hj Hi H), Z.add_0_r. apply Hup; auto. lia.
    - subst j. rewrite (Hd2' i Hi), (HWrd i Hi). reflexivity.
    - rewrite (Hlow i j Hi Hj H), Z.add_0_l. rewrite (HsymR i j Hi Hj). apply Hup; auto. lia. }
  assert (Hupv : forall i j, (i < n)%nat -> (j < n)%nat -> (i <= j)%nat -> W2 i j + W2 j i = W2 i j).
  { intros i j Hi Hj Hij. destruct (Nat.eq_dec i j) as [->|Hne].
    - rewrite (Hd2' j Hj). reflexivity.
    - rewrite (Hlow j i Hj Hi) by lia. lia. }
  split; [|exact Hsg]. split; [|split; [|split; [|split]]].
  - intros phi Hphi i Hi. rewrite <- (A1 phi Hphi i Hi). apply sumn_ext. intros j Hj. apply Hphi. apply Hsg; assumption.
  - intros phi Hphi j Hj. rewrite <- (A2 phi Hphi j Hj). apply sumn_ext. intros i Hi. apply Hphi. apply Hsg; assumption.
  - intros phi.
    set (Ws := fun i j => W2 i j + W2 j i).
    assert (HsymS : symn n Ws) by (intros i j _ _; unfold Ws; lia).
    pose proof (tri_total phi n Ws HsymS) as E1.
    pose proof (tri_total phi n Wc Hsym) as E2.
    assert (Ed : sumn (fun i => phi (Ws i i)) n = sumn (fun i => phi (Wc i i)) n).
    { apply sumn_ext. intros i Hi. unfold Ws. rewrite (Hd2' i Hi), (Hdiag i Hi). reflexivity. }
    assert (Et : tri (fun i j => phi (Ws i j)) n = tri (fun i j => phi (Wc i j)) n).
    { transitivity (zsum (map (fun c => phi (at_ W2 c)) (univ true n))).
      - rewrite univ_sum. unfold tri. apply sum2_ext. intros i j Hi Hj. cbn [in_tri fst snd].
        destruct (Nat.leb_spec i j) as [Hij|Hij]; [|reflexivity].
        unfold Ws, at_. cbn [fst snd]. rewrite (Hupv i j Hi Hj Hij). reflexivity.
      - rewrite Fphi, univ_sum. reflexivity. }
    lia.
  - intros i Hi. rewrite (Hd2' i Hi), (Hdiag i Hi). reflexivity.
  - intros _ i j _ _. lia.
Qed.

(* ---------- unpacking a successful run ---------- *)
Lemma symb_spec n W : symb n W = true -> symn n W.
Proof.
  unfold symb. rewrite forallb_forall. intros H i j Hi Hj.
  specialize (H (i, j)). cbn [fst snd] in H. apply Z.eqb_eq. apply H. apply cells_In. split; assumption.
Qed.

Lemma sinv_eqn_l und n R0 R0' R : eqn n R0 R0' -> sinv und n R0' R -> sinv und n R0 R.
Proof.
  intros He (A1 & A2 & A3 & A4 & A5).
  split; [|split; [|split; [|split]]].
  - intros phi Hp i Hi. rewrite (A1 phi Hp i Hi). apply sumn_ext. intros j Hj. rewrite He; auto.
  - intros phi Hp j Hj. rewrite (A2 phi Hp j Hj). apply sumn_ext. intros i Hi. rewrite He; auto.
  - intros phi. rewrite A3. apply sum2_ext. intros i j Hi Hj. rewrite He; auto.
  - intros i Hi. rewrite (A4 i Hi). apply He; assumption.
  - exact A5.
Qed.

Lemma corr4_eqn_l n W W' W0 : eqn n W W' -> corr4 n W' W0 = corr4 n W W0.
Proof.
  intros He. unfold corr4.
  assert (Ei : forall phi j, (j < n)%nat -> str_in phi W' n j = str_in phi W n j).
  { intros phi j Hj. apply sumn_ext. intros i Hi. rewrite He; auto. }
  assert (Eo : forall phi i, (i < n)%nat -> str_out phi W' n i = str_out phi W n i).
  { intros phi i Hi. apply sumn_ext. intros j Hj. rewrite He; auto. }
  assert (Ec : forall x x' y, (forall i, (i < n)%nat -> x' i = x i) -> corr3 x' y n = corr3 x y n).
  { intros x x' y Hx. unfold corr3.
    rewrite (sumn_ext x' x n Hx).
    rewrite (sumn_ext (fun i => x' i * y i) (fun i => x i * y i)) by (intros i Hi; rewrite Hx; auto).
    rewrite (sumn_ext (fun i => x' i * x' i) (fun i => x i * x i)) by (intros i Hi; rewrite Hx; auto).
    reflexivity. }
  rewrite (Ec _ _ _ (Ei ppart)), (Ec _ _ _ (Eo ppart)), (Ec _ _ _ (Ei npart)), (Ec _ _ _ (Eo npart)).
  reflexivity.
Qed.

Theorem null_model_inv und n W close bs wf pf ints ords perms r : (0 < n)%nat -> pre und n W ->
  null_model und n W close bs wf pf ints ords perms = Returned r ->
  (* degrees (every sign class, rows and columns), multiset of entries, symmetry *)
  sinv und n (clear_diag W) (nm_W0 r) /\
  (* empty diagonal *)
  (forall i, (i < n)%nat -> nm_W0 r i i = 0) /\
  (* the output carries exactly the rewired sign pattern *)
  (forall i j, (i < n)%nat -> (j < n)%nat -> Z.sgn (nm_W0 r i j) = Z.sgn (nm_Wr r i j)) /\
  (* the rewired matrix and every intermediate state of the rewiring keep the invariant *)
  sinv und n (clear_diag W) (nm_Wr r) /\
  Forall (fun e => sinv und n (clear_diag W) (snd e)) (nm_trace r) /\
  (* the returned correlations are those of the strength sequences of input and output *)
  nm_corr r = corr4 n (clear_diag W) (nm_W0 r).
Proof.
  intros Hn HpreW H. unfold null_model in H.
  destruct (und && negb (symb n W || close))%bool eqn:Es; [discriminate|].
  cbv zeta in H. set (Wc := tab 0 n n (clear_diag W)) in *.
  assert (HeW : eqn n (clear_diag W) Wc) by apply eqn_tab.
  assert (Hdiag : forall i, (i < n)%nat -> Wc i i = 0).
  { intros i Hi. unfold Wc. rewrite tab_spec by assumption. unfold clear_diag. rewrite Nat.eqb_refl. reflexivity. }
  assert (Hpre : pre und n Wc).
  { intros Hu. specialize (HpreW Hu).
    intros i j Hi Hj. unfold Wc. rewrite !tab_spec by assumption. unfold clear_diag.
    rewrite (Nat.eqb_sym j i). destruct (Nat.eqb i j); [reflexivity|apply HpreW; assumption]. }
  destruct ((length (supp false n 1 Wc) <? n * (n - 1))%nat && randmio_runs_out und n Wc bs ints)%bool;
    [discriminate|].
  set (X := if (length (supp false n 1 Wc) <? n * (n - 1))%nat
            then randmio_signed und n Wc bs ints else (Wc, ints, [])) in H.
  assert (HX : sinv und n Wc (fst (fst X)) /\ Forall (fun e => sinv und n Wc (snd e)) (snd X)).
  { unfold X. destruct (length (supp false n 1 Wc) <? n * (n - 1))%nat.
    - destruct (randmio_signed und n Wc bs ints) as [[Rf sf] tr] eqn:Er. cbn [fst snd].
      exact (randmio_signed_inv und n Wc bs ints Rf sf tr Hn Hpre Er).
    - cbn [fst snd]. split; [apply sinv_refl; exact Hpre|constructor]. }
  destruct X as [[Wr rest] tr]. cbn [fst snd] in HX. destruct HX as [HinvR HinvT].
  destruct (period_or wf pf) as [per|]; [|discriminate].
  destruct (deal_sign und n per 1 Wc Wr zero_mat ords perms) as [[[W1 o1] p1]|] eqn:E1; [|discriminate].
  destruct (deal_sign und n per (-1) Wc Wr W1 o1 p1) as [[[W2 o2] p2]|] eqn:E2; [|discriminate].
  injection H as <-. cbn [nm_W0 nm_corr nm_Wr nm_trace].
  assert (Hfin : sinv und n Wc (if und then tab 0 n n (fun i j => W2 i j + W2 j i) else W2) /\
                 (forall i j, (i < n)%nat -> (j < n)%nat ->
                    Z.sgn ((if und then tab 0 n n (fun i j => W2 i j + W2 j i) else W2) i j) = Z.sgn (Wr i j))).
  { destruct und.
    - destruct (dealt_und n per Wc Wr W1 W2 ords perms o1 p1 o2 p2 (Hpre eq_refl) Hdiag HinvR E1 E2) as [A B].
      split.
      + apply (sinv_eqn true n Wc (fun i j => W2 i j + W2 j i)); [apply eqn_tab|exact A].
      + intros i j Hi Hj. rewrite tab_spec by assumption. apply B; assumption.
    - exact (dealt_dir n per Wc Wr W1 W2 ords perms o1 p1 o2 p2 Hdiag HinvR E1 E2). }
  destruct Hfin as [Hf1 Hf2].
  split; [apply (sinv_eqn_l und n _ Wc); assumption|].
  split.
  { intros i Hi. destruct Hf1 as (_ & _ & _ & A4 & _). rewrite (A4 i Hi). apply Hdiag. exact Hi. }
  split; [exact Hf2|].
  split; [apply (sinv_eqn_l und n _ Wc); assumption|].
  split.
  { eapply Forall_impl; [|exact HinvT]. intros e He. apply (sinv_eqn_l und n _ Wc); assumption. }
  apply corr4_eqn_l. exact HeW.
Qed.

(* ---------- the statement in the words of the property ---------- *)
Definition null_model_property (und : bool) (n : nat) (W : mat Z) (r : nm_result) : Prop :=
  let Wc := clear_diag W in
  (* every node keeps its numbers of positive / negative outgoing / incoming connections *)
  same_signed_degrees n Wc (nm_W0 r) /\
  (* every value occurs in the output exactly as often as in the (diagonal-cleared) input:
     the multisets of positive and of negative weights are the input's *)
  same_entries n Wc (nm_W0 r) /\
  (* empty diagonal *)
  (forall i, (i < n)%nat -> nm_W0 r i i = 0) /\
  (* undirected routine: symmetric output *)
  (und = true -> symn n (nm_W0 r)) /\
  (* positive / negative support of the output = that of the rewired matrix *)
  (forall i j, (i < n)%nat -> (j < n)%nat -> Z.sgn (nm_W0 r i j) = Z.sgn (nm_Wr r i j)) /\
  (* the four returned correlations are corrcoef (as the exact triple cxy, cxx, cyy) of the
     positive/negative in/out strength sequences of input and output *)
  nm_corr r =
    [ corr3 (str_in ppart Wc n) (str_in ppart (nm_W0 r) n) n;
      corr3 (str_out ppart Wc n) (str_out ppart (nm_W0 r) n) n;
      corr3 (str_in npart Wc n) (str_in npart (nm_W0 r) n) n;
      corr3 (str_out npart Wc n) (str_out npart (nm_W0 r) n) n ].

Theorem null_model_meets_property und n W close bs wf pf ints ords perms r : (0 < n)%nat -> pre und n W ->
  null_model und n W close bs wf pf ints ords perms = Returned r -> null_model_property und n W r.
Proof.
  intros Hn Hp H. destruct (null_model_inv und n W close bs wf pf ints ords perms r Hn Hp H) as (A & B & C & _ & _ & F).
  destruct (sinv_explicit und n _ _ A) as (A1 & A2 & _ & A4).
  unfold null_model_property. cbv zeta.
  split; [exact A1|]. split; [exact A2|]. split; [exact B|]. split; [exact A4|]. split; [exact C|].
  rewrite F. reflexivity.
Qed.

(* the rewiring inside the null model: final and every intermediate state *)
Theorem null_model_rewiring_inv und n W close bs wf pf ints ords perms r : (0 < n)%nat -> pre und n W ->
  null_model und n W close bs wf pf ints ords perms = Returned r ->
  let ok := fun M => same_signed_degrees n (clear_diag W) M /\ same_entries n (clear_diag W) M /\
                     same_diag n (clear_diag W) M /\ (und = true -> symn n M) in
  ok (nm_Wr r) /\ Forall (fun e => ok (snd e)) (nm_trace r).
Proof.
  intros Hn Hp H ok. destruct (null_model_inv und n W close bs wf pf ints ords perms r Hn Hp H) as (_ & _ & _ & D & E & _).
  split; [exact (sinv_explicit und n _ _ D)|].
  eapply Forall_impl; [|exact E]. intros e He. exact (sinv_explicit und n _ _ He).
Qed.

(* asymmetric input to the undirected routine is rejected *)
(* asymmetric input to the undirected routine is rejected: exactly when np.allclose says "not close" *)
Lemma null_model_und_rejects n W bs wf pf ints ords perms :
  symb n W = false -> null_model true n W false bs wf pf ints ords perms = ParamError.
Proof. intros H. unfold null_model. rewrite H. reflexivity. Qed.

Lemma null_model_param_error_iff und n W close bs wf pf ints ords perms :
  null_model und n W close bs wf pf ints ords perms = ParamError <->
  (und = true /\ symb n W = false /\ close = false).
Proof.
  unfold null_model. set (Wc := tab 0 n n (clear_diag W)).
  destruct und, (symb n W), close; cbn [andb orb negb];
    try (split; [intros _; auto|reflexivity]).
  all: split; [|intros (A & B & C); discriminate].
  all: cbv zeta.
  all: destruct ((length (supp false n 1 Wc) <? n * (n - 1))%nat && randmio_runs_out _ n Wc bs ints)%bool; [discriminate|].
  all: destruct (if (length (supp false n 1 Wc) <? n * (n - 1))%nat
                 then randmio_signed _ n Wc bs ints else (Wc, ints, [])) as [[Wr rest] tr].
  all: destruct (period_or wf pf) as [per|]; [|discriminate].
  all: destruct (deal_sign _ n per 1 _ Wr zero_mat ords perms) as [[[W1 o1] p1]|]; [|discriminate].
  all: destruct (deal_sign _ n per (-1) _ Wr W1 o1 p1) as [[[W2 o2] p2]|]; discriminate.
Qed.

(* exactly symmetric input is never rejected, whatever the oracle says *)
Lemma symb_complete n W : symn n W -> symb n W = true.
Proof.
  intros H. unfold symb. apply forallb_forall. intros [i j] Hc. apply cells_In in Hc. cbn [fst snd].
  apply Z.eqb_eq. apply H; tauto.
Qed.

(* whole runs of randmio_*_signed, in the words of the property *)
Theorem randmio_signed_meets_property und n R itr s Rf sf tr : (0 < n)%nat -> pre und n R ->
  randmio_signed und n R itr s = (Rf, sf, tr) ->
  let ok := fun M => same_signed_degrees n R M /\ same_entries n R M /\ same_diag n R M /\
                     (und = true -> symn n M) in
  ok Rf /\ Forall (fun e => ok (snd e)) tr.
Proof.
  intros Hn Hp H ok.
  destruct (randmio_signed_inv und n R itr s Rf sf tr Hn Hp H) as [A B].
  split; [exact (sinv_explicit und n R Rf A)|].
  eapply Forall_impl; [|exact B]. intros e He. exact (sinv_explicit und n R (snd e) He).
Qed.

Theorem signed_step_explicit und n R q :
  pre und n R -> goodq n q -> cond4 R q = true ->
  same_signed_degrees n R (swap4 und R q) /\ same_entries n R (swap4 und R q) /\
  same_diag n R (swap4 und R q) /\ (und = true -> symn n (swap4 und R q)).
Proof. intros Hp Hg Hc. apply (sinv_explicit und). exact (signed_step_inv und n R q Hp Hg Hc). Qed.
