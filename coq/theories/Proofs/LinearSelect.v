(* Proofs/LinearSelect.v — the eigenpair selection lines of mean_first_passage_time, as far as they are logic:
     aux = |D - 1| (from LAPACK, an input here); index = where(aux == aux.min())[0]; if aux[index] > tol: raise
   The routine goes on exactly when ONE position attains the minimum and that minimum is within the tolerance; two or
   more positions attaining it (eigenvalue 1 repeated with bit-equal distance: disconnected / reducible chains) make the
   `if` raise "truth value of an array ... is ambiguous" instead of the intended message. *)
From Coq Require Import QArith Lia Lqa Arith List Bool.
From BCT Require Import Base.Mat Base.SumQ Model.Linear.
Import ListNotations.
Open Scope Q_scope.

Lemma fold_min_spec (a : Q) (l : list Q) :
  let m := fold_right (fun x m => if Qle_bool x m then x else m) a l in
  m <= a /\ (forall x, In x l -> m <= x) /\ (m = a \/ In m l).
Proof.
  induction l as [|y l IH]; cbn [fold_right].
  - split; [apply Qle_refl|]. split; [intros x []|left; reflexivity].
  - destruct IH as (H1 & H2 & H3). set (m := fold_right _ a l) in *.
    destruct (Qle_bool y m) eqn:E.
    + apply Qle_bool_iff in E. split; [lra|]. split; [|right; left; reflexivity].
      intros x [<-|Hx]; [apply Qle_refl|]. specialize (H2 x Hx). lra.
    + assert (Hlt : m < y). { destruct (Qlt_le_dec m y) as [|Hle]; [assumption|]. apply Qle_bool_iff in Hle. congruence. }
      split; [exact H1|]. split; [|destruct H3 as [H3|H3]; [left; exact H3|right; right; exact H3]].
      intros x [<-|Hx]; [lra|apply H2; exact Hx].
Qed.

Lemma qmin_le l i : (i < length l)%nat -> qmin l <= nth i l 0.
Proof. intros Hi. unfold qmin. apply (proj1 (proj2 (fold_min_spec (hd 0 l) l))). apply nth_In. exact Hi. Qed.

Lemma qmin_attained l : l <> [] -> exists i, (i < length l)%nat /\ nth i l 0 = qmin l.
Proof.
  intros Hne. unfold qmin. destruct (proj2 (proj2 (fold_min_spec (hd 0 l) l))) as [H|H].
  - destruct l as [|a l]; [congruence|]. exists O. split; [cbn; lia|]. cbn [hd] in H |- *. rewrite H. reflexivity.
  - destruct (In_nth l _ 0 H) as [i [Hi E]]. exists i. split; [exact Hi|exact E].
Qed.

Lemma where_eq_In l m i : In i (where_eq l m) <-> (i < length l)%nat /\ nth i l 0 == m.
Proof.
  unfold where_eq. rewrite filter_In, in_seq. rewrite Qeq_bool_iff. split; intros [H1 H2]; split; try assumption; lia.
Qed.

Lemma where_eq_NoDup l m : NoDup (where_eq l m).
Proof. unfold where_eq. apply NoDup_filter, seq_NoDup. Qed.

Definition is_min (aux : list Q) (i : nat) : Prop :=
  (i < length aux)%nat /\ forall k, (k < length aux)%nat -> nth i aux 0 <= nth k aux 0.

Theorem mfpt_select_spec (tol : Q) (aux : list Q) :
  match mfpt_select tol aux with
  | SelOk i => is_min aux i /\ (forall k, is_min aux k -> k = i) /\ nth i aux 0 <= tol
  | SelTolerance => exists i, is_min aux i /\ (forall k, is_min aux k -> k = i) /\ tol < nth i aux 0
  | SelAmbiguous => exists i k, i <> k /\ is_min aux i /\ is_min aux k
  | SelEmpty => aux = []
  end.
Proof.
  unfold mfpt_select.
  assert (Hmem : forall i, In i (where_eq aux (qmin aux)) <-> is_min aux i).
  { intros i. rewrite where_eq_In. unfold is_min. split; intros [Hi H]; split; try exact Hi.
    - intros k Hk. rewrite H. apply qmin_le. exact Hk.
    - apply Qle_antisym; [|apply qmin_le; exact Hi].
      destruct (qmin_attained aux) as [k [Hk E]]; [intros ->; cbn in Hi; lia|]. rewrite <- E. apply H. exact Hk. }
  pose proof (where_eq_NoDup aux (qmin aux)) as ND.
  destruct (where_eq aux (qmin aux)) as [|i [|k rest]] eqn:EW.
  - destruct aux as [|a aux']; [reflexivity|]. exfalso.
    destruct (qmin_attained (a :: aux')) as [i [Hi E]]; [discriminate|].
    assert (In i (where_eq (a :: aux') (qmin (a :: aux')))) by (apply where_eq_In; split; [exact Hi|rewrite E; reflexivity]).
    rewrite EW in H. destruct H.
  - assert (Hi : is_min aux i) by (apply Hmem; left; reflexivity).
    assert (Hu : forall k, is_min aux k -> k = i) by (intros k Hk; apply Hmem in Hk; destruct Hk as [<-|[]]; reflexivity).
    destruct (Qle_bool (nth i aux 0) tol) eqn:E.
    + apply Qle_bool_iff in E. split; [exact Hi|]. split; [exact Hu|exact E].
    + exists i. split; [exact Hi|]. split; [exact Hu|].
      destruct (Qlt_le_dec tol (nth i aux 0)) as [|Hle]; [assumption|]. apply Qle_bool_iff in Hle. congruence.
  - exists i, k. split; [|split; apply Hmem; [left; reflexivity|right; left; reflexivity]].
    inversion ND as [|? ? Hnin _]; subst. intros ->. apply Hnin. left; reflexivity.
Qed.
