(* Proofs/ModularityRunB.v — C02/C07: community_louvain.
   (1) the objective matrices the code builds for 'negative_sym' / 'negative_asym' (incl. the symmetrisation (B+B.T)/2):
       sum of B over same-label pairs == the signed quality straight from the definition (Qsign with qtype gja / sta);
   (2) WHOLE multi-level runs (run_community_louvain) for all four built-in objectives, directed or undirected W:
       every computed level is a consistent pair on the ORIGINAL network, the returned q is the definitional quality of the
       returned labels, labels exactly 1..k; with every accepted move of exact gain > 0 the quality never falls. *)
From Coq Require Import QArith Qring Qfield Lia Lqa Arith List Bool ZArith Setoid Morphisms.
From BCT Require Import Base.Mat Base.SumQ Base.ListX Model.Modularity Proofs.ModularitySums Proofs.ModularityQ
  Proofs.ModularityGain Proofs.ModularityRun Proofs.ModularityRunSign.
Import ListNotations.
Open Scope Q_scope.

(* ================= (1) objective matrices ================= *)
Lemma obj_ext n B B' lb : (forall i j, (i < n)%nat -> (j < n)%nat -> B i j == B' i j) -> obj n B lb == obj n B' lb.
Proof. intros H. rewrite !obj_spec. apply sum2Q_ext; intros i j Hi Hj. rewrite (H i j Hi Hj). reflexivity. Qed.

Lemma obj_lin n a b X Y lb : obj n (fun i j => a * X i j - b * Y i j) lb == a * obj n X lb - b * obj n Y lb.
Proof.
  rewrite !obj_spec. rewrite <- !sum2Q_scal.
  rewrite (sum2Q_ext _ (fun i j => a * (delta lb i j * X i j) + (- b) * (delta lb i j * Y i j))) by (intros; ring).
  rewrite sum2Q_add, !sum2Q_scal. ring.
Qed.

Lemma obj_zero n lb : obj n (fun _ _ => 0) lb == 0.
Proof.
  rewrite obj_spec. unfold sum2Q. apply sumQ_zero'. intros i _. apply sumQ_zero'. intros j _. ring.
Qed.

(* W0 - gamma*outer(sum(W0,axis=1), sum(W0,axis=0))/s0 summed over same-label pairs *)
Lemma obj_modmat n M g s lb :
  obj n (fun i j => M i j - g * (rowsum n M i * colsum n M j) / s) lb == Qhalf n M g s lb.
Proof.
  rewrite Qhalf_obj. apply obj_ext. intros i j _ _. rewrite rowsum_spec, colsum_spec. unfold Qdiv. ring.
Qed.

Lemma Qeq_bool_comp0 (a b : Q) : a == b -> Qeq_bool a 0 = Qeq_bool b 0.
Proof. intros H. rewrite H. reflexivity. Qed.

(* 'negative_sym': B = (B0 - B1)/(s0+s1); 'negative_asym': B = B0/s0 - B1/(s0+s1); then B = (B + B.T)/2 *)
Theorem louvainB_negative (sym : bool) n W g lb :
  obj n (B_builtin (if sym then 2%nat else 3%nat) n W g) lb == Qneg_obj sym n W g lb.
Proof.
  assert (E : obj n (B_builtin (if sym then 2%nat else 3%nat) n W g) lb == obj n (B_negative sym n W g) lb).
  { destruct sym; unfold B_builtin; apply obj_symmetrise. }
  rewrite E. clear E. unfold B_negative, Qneg_obj. cbv zeta.
  set (W0 := tabQ n n (pospart W)). set (W1 := tabQ n n (negpart W)).
  assert (H0 : forall i j, (i < n)%nat -> (j < n)%nat -> W0 i j == pospart W i j) by (intros; apply tabQ_spec; auto).
  assert (H1 : forall i j, (i < n)%nat -> (j < n)%nat -> W1 i j == negpart W i j) by (intros; apply tabQ_spec; auto).
  assert (E0 : stot n W0 == stot n (pospart W)) by (apply stot_ext; exact H0).
  assert (E1 : stot n W1 == stot n (negpart W)) by (apply stot_ext; exact H1).
  rewrite <- (Qhalf_ext n W0 (pospart W) g (stot n W0) (stot n (pospart W)) lb H0 E0).
  rewrite <- (Qhalf_ext n W1 (negpart W) g (stot n W1) (stot n (negpart W)) lb H1 E1).
  rewrite <- (Qeq_bool_comp0 _ _ E1).
  set (s0 := stot n W0) in *. set (s1 := stot n W1) in *.
  set (B0 := fun i j => W0 i j - g * (rowsum n W0 i * colsum n W0 j) / s0).
  set (B1 := fun i j => W1 i j - g * (rowsum n W1 i * colsum n W1 j) / s1).
  pose proof (obj_modmat n W0 g s0 lb) as M0. fold B0 in M0. pose proof (obj_modmat n W1 g s1 lb) as M1. fold B1 in M1.
  destruct (Qeq_bool s1 0) eqn:Z1; destruct sym; try rewrite <- E0; try rewrite <- E1.
  - rewrite (obj_ext n _ (fun i j => (1 / (s0 + s1)) * B0 i j - 0 * B0 i j)) by (intros; unfold B0, Qdiv; ring).
    rewrite obj_lin, M0. ring.
  - rewrite (obj_ext n _ (fun i j => (1 / s0) * B0 i j - 0 * B0 i j)) by (intros; unfold B0, Qdiv; ring).
    rewrite obj_lin, M0. ring.
  - rewrite (obj_ext n _ (fun i j => (1 / (s0 + s1)) * B0 i j - (1 / (s0 + s1)) * B1 i j)) by (intros; unfold B0, Qdiv; ring).
    rewrite obj_lin, M0, M1. reflexivity.
  - rewrite (obj_ext n _ (fun i j => (1 / s0) * B0 i j - (1 / (s0 + s1)) * B1 i j)) by (intros; unfold B0, Qdiv; ring).
    rewrite obj_lin, M0, M1. reflexivity.
Qed.

(* the quantity is the signed modularity of the definition: gja for negative_sym, sta for negative_asym
   (domain of the objective: there are positive weights, as the code divides by s0) *)
Theorem Qneg_obj_is_Qsign (sym : bool) n W g lb : ~ stot n (pospart W) == 0 ->
  Qneg_obj sym n W g lb == Qsign n W g (if sym then Qgja else Qsta) lb.
Proof.
  intros Hs0. unfold Qneg_obj, Qsign. cbv zeta. set (s0 := stot n (pospart W)) in *. set (s1 := stot n (negpart W)).
  assert (Z0 : Qeq_bool s0 0 = false).
  { destruct (Qeq_bool s0 0) eqn:Z; [|reflexivity]. exfalso. apply Hs0. apply Qeq_bool_eq. exact Z. }
  unfold sign_d0, sign_d1, adj. rewrite Z0.
  destruct (Qeq_bool s1 0) eqn:Z1; destruct sym; ring.
Qed.

Corollary louvainB_negative_sym n W g lb : ~ stot n (pospart W) == 0 ->
  obj n (B_builtin 2 n W g) lb == Qsign n W g Qgja lb.
Proof. intros H. rewrite (louvainB_negative true n W g lb). apply (Qneg_obj_is_Qsign true n W g lb H). Qed.
Corollary louvainB_negative_asym n W g lb : ~ stot n (pospart W) == 0 ->
  obj n (B_builtin 3 n W g) lb == Qsign n W g Qsta lb.
Proof. intros H. rewrite (louvainB_negative false n W g lb). apply (Qneg_obj_is_Qsign false n W g lb H). Qed.

(* return ci, q/s (modularity, potts);  return ci, q (the two negative objectives) *)
Definition qnorm (kind : nat) (s q : Q) : Q := match kind with O | 1%nat => q / s | _ => q end.

Theorem obj_builtin kind n W g lb :
  qnorm kind (stot n W) (obj n (B_builtin kind n W g) lb) == Qbuiltin kind n W g lb.
Proof.
  destruct kind as [|[|[|k]]]; unfold qnorm, Qbuiltin.
  - apply louvainB_modularity.
  - apply louvainB_potts.
  - apply (louvainB_negative true).
  - assert (E : forall lb0, obj n (B_builtin (S (S (S k))) n W g) lb0 == obj n (B_builtin 3 n W g) lb0).
    { intros lb0. unfold B_builtin. rewrite !obj_symmetrise. reflexivity. }
    rewrite E. apply (louvainB_negative false).
Qed.

Lemma qnorm_comp kind s a b : a == b -> qnorm kind s a == qnorm kind s b.
Proof. intros H. destruct kind as [|[|k]]; unfold qnorm; rewrite H; reflexivity. Qed.
Lemma qnorm_le kind s a b : ((kind <= 1)%nat -> 0 < s) -> a <= b -> qnorm kind s a <= qnorm kind s b.
Proof.
  intros Hs H. destruct kind as [|[|k]]; unfold qnorm; [| |exact H];
    (assert (P : 0 < s) by (apply Hs; lia)); unfold Qdiv; apply Qmult_le_compat_r; [exact H| |exact H|];
    apply Qlt_le_weak, Qinv_lt_0_compat; exact P.
Qed.
Lemma qnorm_lt kind s a b : ((kind <= 1)%nat -> 0 < s) -> a < b -> qnorm kind s a < qnorm kind s b.
Proof.
  intros Hs H. destruct kind as [|[|k]]; unfold qnorm; [| |exact H];
    (assert (P : 0 < s) by (apply Hs; lia)); unfold Qdiv; apply Qmult_lt_compat_r; [|exact H| |exact H];
    apply Qinv_lt_0_compat; exact P.
Qed.

Lemma B_builtin_sym kind n W g : sym_on n (B_builtin kind n W g).
Proof. intros i j _ _. unfold B_builtin. cbv zeta. unfold Qdiv. ring. Qed.

(* ================= (2) whole runs ================= *)
Definition cl_hnm (first : bool) (n : nat) (B : mat Q) (lab0 : vec nat) : mat Q :=
  if first then tabQ n n (knm_of n B lab0) else tabQ n n B.
Definition cl_H (first : bool) (n : nat) (B : mat Q) (lab0 : vec nat) : vec Q :=
  if first then tabvQ n (rowsum n (cl_hnm first n B lab0)) else tabvQ n (colsum n B).
Definition cl_Hm (first : bool) (n : nat) (B : mat Q) (lab0 : vec nat) : vec Q :=
  if first then tabvQ n (colsum n (cl_hnm first n B lab0)) else cl_H first n B lab0.
Definition cl_st0 (first : bool) (n : nat) (B : mat Q) (lab0 : vec nat) : state :=
  mkst lab0 (mkchan (cl_hnm first n B lab0) (cl_Hm first n B lab0)) chan0.
Definition cl_fin (first : bool) (n : nat) (B : mat Q) (lab0 : vec nat) (moves : list (nat * nat)) : state :=
  run_moves (move_B n B (cl_H first n B lab0)) (cl_st0 first n B lab0) moves.

Lemma cl_level_eq first n B lab0 moves :
  cl_level first n B lab0 moves =
  (fst (replay (gain_B B) (move_B n B (cl_H first n B lab0)) (cl_st0 first n B lab0) moves),
   (lev_m0 n (lab (cl_fin first n B lab0 moves)),
    (lev_n n (lab (cl_fin first n B lab0 moves)),
     tabQ (lev_n n (lab (cl_fin first n B lab0 moves))) (lev_n n (lab (cl_fin first n B lab0 moves)))
          (agg_upper n B (lev_m0 n (lab (cl_fin first n B lab0 moves))))))).
Proof.
  unfold cl_level, cl_fin. cbv zeta. fold (cl_hnm first n B lab0). fold (cl_H first n B lab0).
  fold (cl_Hm first n B lab0). fold (cl_st0 first n B lab0).
  rewrite <- (replay_snd (gain_B B)).
  destruct (replay (gain_B B) (move_B n B (cl_H first n B lab0)) (cl_st0 first n B lab0) moves) as [tr st]. reflexivity.
Qed.

(* the start state of a pass of the outer loop satisfies the bookkeeping invariant *)
Lemma cl_init_inv first n B lab0 : sym_on n B -> lab_lt n n lab0 -> (first = false -> lab0 = tabv O n ident) ->
  Bk_inv_B n B (cl_H first n B lab0) (cl_st0 first n B lab0).
Proof.
  intros Hs Hl Hf. destruct first.
  - destruct (init_chan_finetune n B lab0 Hl) as (E1 & E2 & E3).
    unfold cl_st0, cl_H, cl_Hm, cl_hnm. split; [exact Hl|split]; cbn [lab ca knm km].
    + exact E1.
    + intros t Ht. rewrite (E3 t Ht), km_of_spec. apply msum_ext. intros j Hj. rewrite (E2 j Hj). apply sym_rowcol; assumption.
  - rewrite (Hf eq_refl). unfold cl_st0, cl_H, cl_Hm, cl_hnm. apply init_bk_inv_louvain_und.
Qed.

Lemma lab1_ok_ext n0 n c c' : (forall x, (x < n0)%nat -> c x = c' x) -> lab1_ok n0 n c -> lab1_ok n0 n c'.
Proof.
  intros E [H1 H2]. split.
  - intros x Hx. rewrite <- (E x Hx). apply H1; exact Hx.
  - intros t Ht. destruct (H2 t Ht) as [x [Hx Ex]]. exists x. split; [exact Hx|]. rewrite <- (E x Hx). exact Ex.
Qed.

Lemma on_grid_ext n0 Wo n W c c' : (forall x, (x < n0)%nat -> c x = c' x) -> on_grid n0 Wo n W c -> on_grid n0 Wo n W c'.
Proof.
  intros E H a b Ha Hb. rewrite (H a b Ha Hb). rewrite !agg_spec. apply sumQ_ext; intros i Hi. apply sumQ_ext; intros j Hj.
  unfold p1. rewrite (E i Hi), (E j Hj). reflexivity.
Qed.

(* labels ci after a pass (first pass: ci = Mb; later: ci[M0 == u] = Mb[u-1]) *)
Definition cl_cih (first : bool) (n0 n : nat) (prev m0 : vec nat) : vec nat :=
  if first then tabv O n0 (fun x => S (m0 x)) else tabv O n0 (compose_lab n prev (fun i => S (m0 i))).

(* in the first pass the nodes are the original ones: take prev = arange+1 *)
Definition cl_prev (first : bool) (prev : vec nat) : vec nat := if first then (fun x => S x) else prev.

Lemma cl_cih_generic first n0 n prev m0 : (first = true -> n = n0) ->
  forall x, (x < n0)%nat ->
  tabv O n0 (compose_lab n (cl_prev first prev) (fun i => S (m0 i))) x = cl_cih first n0 n prev m0 x.
Proof.
  intros Hn x Hx. destruct first; [|reflexivity]. unfold cl_cih, cl_prev. rewrite !tabv_spec by exact Hx.
  unfold compose_lab. rewrite (Hn eq_refl). destruct (Nat.ltb_spec x n0); [reflexivity|lia].
Qed.

Lemma cl_step first n0 Bo n B prev lbf : sym_on n0 Bo -> (first = true -> n = n0) ->
  lab1_ok n0 n (cl_prev first prev) -> on_grid n0 Bo n B (cl_prev first prev) ->
  let m0 := lev_m0 n lbf in let n' := lev_n n lbf in
  let B1 := tabQ n' n' (agg_upper n B m0) in
  let cih := cl_cih first n0 n prev m0 in
  lab1_ok n0 n' cih /\ on_grid n0 Bo n' B1 cih /\ (forall x, (x < n0)%nat -> cih x = S (m0 (p1 (cl_prev first prev) x))).
Proof.
  intros Hs Hn Hp Hg m0 n' B1 cih.
  destruct (grid_step n0 Bo n B (cl_prev first prev) lbf Hs Hp Hg) as (Hc & Hg' & E). fold m0 n' B1 in Hc, Hg', E.
  pose proof (cl_cih_generic first n0 n prev m0 Hn) as X. fold cih in X.
  split; [exact (lab1_ok_ext _ _ _ _ X Hc)|]. split; [exact (on_grid_ext _ _ _ _ _ _ X Hg')|].
  intros x Hx. rewrite <- (X x Hx). apply E; exact Hx.
Qed.

(* q = trace(B) of the aggregated objective == sum of the ORIGINAL objective matrix over the same-label pairs of ci *)
Lemma cl_level_q n0 Bo n' B1 cih : lab1_ok n0 n' cih -> on_grid n0 Bo n' B1 cih -> trace n' B1 == obj n0 Bo cih.
Proof.
  intros Hc Hg. rewrite (trace_ext n' B1 (agg n0 Bo (p1 cih)) Hg).
  rewrite (proj1 (q_closing_louvainB_eq_def n0 n' Bo (p1 cih) (lab1_lt n0 n' cih Hc))).
  apply obj_partition_invariant. apply (p1_same n0 n' cih Hc).
Qed.

Lemma Qbuiltin_partition_invariant kind n W g lb lb' :
  (forall i j, (i < n)%nat -> (j < n)%nat -> (lb i = lb j <-> lb' i = lb' j)) -> Qbuiltin kind n W g lb == Qbuiltin kind n W g lb'.
Proof.
  intros H. rewrite <- !obj_builtin. apply qnorm_comp. apply obj_partition_invariant; exact H.
Qed.
Lemma Qbuiltin_nth_to_list kind n W g cih : Qbuiltin kind n W g (fun x => nth x (to_list n cih) O) == Qbuiltin kind n W g cih.
Proof. apply Qbuiltin_partition_invariant. intros i j Hi Hj. rewrite !nth_to_list by assumption. reflexivity. Qed.

Definition Bo_of (kind n : nat) (W : mat Q) (g : Q) : mat Q := tabQ n n (B_builtin kind n W g).
Lemma Bo_sym kind n W g : sym_on n (Bo_of kind n W g).
Proof. intros i j Hi Hj. unfold Bo_of. rewrite !tabQ_spec by assumption. apply B_builtin_sym; assumption. Qed.
Lemma obj_Bo kind n W g lb : qnorm kind (stot n W) (obj n (Bo_of kind n W g) lb) == Qbuiltin kind n W g lb.
Proof.
  rewrite <- obj_builtin. apply qnorm_comp. apply obj_ext. intros i j Hi Hj. apply tabQ_spec; assumption.
Qed.

Definition cl_level_ok (kind n0 : nat) (Wo : mat Q) (g : Q) (e : level_t * Q) : Prop :=
  (exists k, labels_exact n0 (lvl_labels e) k) /\
  qnorm kind (stot n0 Wo) (snd e) == Qbuiltin kind n0 Wo g (fun x => nth x (lvl_labels e) O) /\
  lvl_q e = snd e /\ lvl_qd e = Qred (Qbuiltin kind n0 Wo g (fun x => nth x (lvl_labels e) O)).

Lemma cl_levels_ok kind n0 Wo g : forall lv first n B lab0 prev,
  (first = true -> n = n0) ->
  lab1_ok n0 n (cl_prev first prev) -> on_grid n0 (Bo_of kind n0 Wo g) n B (cl_prev first prev) ->
  Forall (cl_level_ok kind n0 Wo g) (cl_levels kind n0 Wo g first n B lab0 prev lv).
Proof.
  induction lv as [|moves rest IH]; intros first n B lab0 prev Hn Hp Hg; cbn [cl_levels]; [constructor|].
  rewrite cl_level_eq. set (fin := cl_fin first n B lab0 moves).
  destruct (cl_step first n0 (Bo_of kind n0 Wo g) n B prev (lab fin) (Bo_sym kind n0 Wo g) Hn Hp Hg) as (Hc & Hg' & E).
  set (m0 := lev_m0 n (lab fin)) in *. set (n' := lev_n n (lab fin)) in *.
  set (B1 := tabQ n' n' (agg_upper n B m0)) in *.
  fold (cl_cih first n0 n prev m0). set (cih := cl_cih first n0 n prev m0) in *.
  constructor; [|apply (IH false n' B1 (tabv O n' ident) cih); [discriminate|exact Hc|exact Hg']].
  unfold cl_level_ok, lvl_labels, lvl_q, lvl_qd. cbn [fst snd]. split; [exists n'; apply labels_exact_to_list; exact Hc|].
  split; [|split; [reflexivity|]].
  - rewrite (qnorm_comp kind _ _ _ (Qred_correct _)). rewrite (qnorm_comp kind _ _ _ (cl_level_q n0 _ n' B1 cih Hc Hg')).
    rewrite obj_Bo. symmetry. apply Qbuiltin_nth_to_list.
  - apply Qred_complete. symmetry. apply Qbuiltin_nth_to_list.
Qed.

Lemma cl_levels_length kind n0 Wo g lv : forall first n B lab0 prev,
  length (cl_levels kind n0 Wo g first n B lab0 prev lv) = length lv.
Proof.
  induction lv as [|moves rest IH]; intros first n B lab0 prev; cbn [cl_levels]; [reflexivity|].
  destruct (cl_level first n B lab0 moves) as [tr [m0 [n' B1]]]. cbn [length]. rewrite IH. reflexivity.
Qed.

(* ---------- the run function ---------- *)
Definition cl_res (rows : list (list Q)) (g : Q) (kind : nat) (ci : list Z) (lv : list (list (nat * nat))) : list (level_t * Q) :=
  let n := length rows in let lab0 := init_lab n ci in
  cl_levels kind n (rowsW rows) g true n (Bo_of kind n (rowsW rows) g) lab0 (fun x => S (lab0 x)) lv.
Definition cl_last (rows : list (list Q)) (g : Q) (kind : nat) (ci : list Z) (res : list (level_t * Q)) : list nat * Q :=
  let n := length rows in
  match rev res with
  | (l, q) :: _ => (fst (snd l), q)
  | [] => (out_lab n (init_lab n ci), Qred (obj n (Bo_of kind n (rowsW rows) g) (init_lab n ci) / stot n (rowsW rows)))
  end.

Lemma run_community_louvain_eq rows g kind ci lv :
  run_community_louvain rows g kind ci lv =
  let n := length rows in let W := rowsW rows in
  let res := cl_res rows g kind ci lv in
  let cq := cl_last rows g kind ci res in
  (map fst res,
   (fst cq, (match kind with O | 1%nat => Qred (snd cq / stot n W) | _ => snd cq end,
     (Qred (Qbuiltin kind n W g (fun x => nth x (fst cq) O)), Qred (Qbuiltin kind n W g (init_lab n ci)))))).
Proof.
  unfold run_community_louvain. cbv zeta. fold (rowsW rows). fold (Bo_of kind (length rows) (rowsW rows) g).
  fold (cl_res rows g kind ci lv). fold (cl_last rows g kind ci (cl_res rows g kind ci lv)).
  destruct (cl_last rows g kind ci (cl_res rows g kind ci lv)) as [cil q]. reflexivity.
Qed.

Lemma cl_res_ok rows g kind ci lv :
  Forall (cl_level_ok kind (length rows) (rowsW rows) g) (cl_res rows g kind ci lv).
Proof.
  apply cl_levels_ok; [reflexivity|apply lab1_S|apply on_grid_start].
Qed.

Lemma cl_last_in rows g kind ci res : res <> [] -> exists e, In e res /\ cl_last rows g kind ci res = (lvl_labels e, snd e).
Proof.
  intros Hne. unfold cl_last. cbv zeta. destruct (rev res) as [|[l q] r] eqn:E.
  - exfalso. apply Hne. rewrite <- (rev_involutive res), E. reflexivity.
  - exists (l, q). split; [|reflexivity]. apply in_rev. rewrite E. left; reflexivity.
Qed.

Lemma cl_res_nonempty rows g kind ci lv : lv <> [] -> cl_res rows g kind ci lv <> [].
Proof.
  intros Hne E. apply (f_equal (@length _)) in E. unfold cl_res in E. cbv zeta in E.
  rewrite cl_levels_length in E. destruct lv; [congruence|discriminate].
Qed.

(* the q a level stores is a reduced fraction *)
Lemma cl_levels_q_red kind n0 Wo g lv : forall first n B lab0 prev e,
  In e (cl_levels kind n0 Wo g first n B lab0 prev lv) -> exists x, snd e = Qred x.
Proof.
  induction lv as [|moves rest IH]; intros first n B lab0 prev e Hin; cbn [cl_levels] in Hin; [destruct Hin|].
  destruct (cl_level first n B lab0 moves) as [tr [m0 [n' B1]]]. destruct Hin as [<-|Hin]; [eexists; reflexivity|].
  eapply IH; exact Hin.
Qed.

(* C02, whole run (the outer while loop always runs at least once; the LAST pass is returned): for every W (directed or
   not), gamma, built-in objective, initial partition and recorded move lists, returned q = definitional quality of the
   returned labels *)
Theorem community_louvain_run_q rows g kind ci lv : lv <> [] ->
  let r := run_community_louvain rows g kind ci lv in ret_q r = ret_qdef r.
Proof.
  intros Hne r. unfold r. rewrite run_community_louvain_eq. cbv zeta. unfold ret_q, ret_qdef. cbn [fst snd].
  destruct (cl_last_in rows g kind ci _ (cl_res_nonempty rows g kind ci lv Hne)) as [e [He Ep]]. rewrite Ep. cbn [fst snd].
  pose proof (cl_res_ok rows g kind ci lv) as HF. rewrite Forall_forall in HF. destruct (HF e He) as (_ & Eq & _).
  destruct kind as [|[|k]]; unfold qnorm in Eq.
  - apply Qred_complete. exact Eq.
  - apply Qred_complete. exact Eq.
  - destruct (cl_levels_q_red _ _ _ _ _ _ _ _ _ _ _ He) as [x Ex]. rewrite Ex in *.
    apply Qred_complete. rewrite <- Eq. symmetry. apply Qred_correct.
Qed.

Theorem community_louvain_run_labels rows g kind ci lv : lv <> [] ->
  let r := run_community_louvain rows g kind ci lv in exists k, labels_exact (length rows) (ret_ci r) k.
Proof.
  intros Hne r. unfold r. rewrite run_community_louvain_eq. cbv zeta. unfold ret_ci. cbn [fst snd].
  destruct (cl_last_in rows g kind ci _ (cl_res_nonempty rows g kind ci lv Hne)) as [e [He Ep]]. rewrite Ep. cbn [fst snd].
  pose proof (cl_res_ok rows g kind ci lv) as HF. rewrite Forall_forall in HF. destruct (HF e He) as (Hk & _). exact Hk.
Qed.

(* every pass: labels exactly 1..k and (trace(B) normalised as the routine returns it) == quality of those labels on the
   ORIGINAL network; the model's own definitional value qd is that quality as a reduced fraction *)
Definition cl_pair_ok (kind n0 : nat) (Wo : mat Q) (g : Q) (l : level_t) : Prop :=
  let labels := fst (snd l) in
  (exists k, labels_exact n0 labels k) /\
  qnorm kind (stot n0 Wo) (fst (snd (snd l))) == Qbuiltin kind n0 Wo g (fun x => nth x labels O) /\
  snd (snd (snd l)) = Qred (Qbuiltin kind n0 Wo g (fun x => nth x labels O)).

Theorem community_louvain_run_levels rows g kind ci lv :
  Forall (cl_pair_ok kind (length rows) (rowsW rows) g) (fst (run_community_louvain rows g kind ci lv)).
Proof.
  rewrite run_community_louvain_eq. cbv zeta. cbn [fst]. pose proof (cl_res_ok rows g kind ci lv) as HF.
  induction HF as [|e l He _ IH]; cbn [map]; constructor; [|exact IH].
  destruct He as (Hk & Eq & E1 & E2). unfold cl_pair_ok. cbv zeta. unfold lvl_labels, lvl_q, lvl_qd in *.
  split; [exact Hk|]. split; [rewrite E1; exact Eq|exact E2].
Qed.

(* ================= C07: monotone whole runs ================= *)
Fixpoint cl_good (first : bool) (n : nat) (B : mat Q) (lab0 : vec nat) (lv : list (list (nat * nat))) : Prop :=
  match lv with
  | [] => True
  | moves :: rest =>
      good_run n (gain_B B) (move_B n B (cl_H first n B lab0)) (cl_st0 first n B lab0) moves /\
      let fin := cl_fin first n B lab0 moves in
      let n' := lev_n n (lab fin) in
      cl_good false n' (tabQ n' n' (agg_upper n B (lev_m0 n (lab fin)))) (tabv O n' ident) rest
  end.

(* the partition of the ORIGINAL nodes a pass starts from *)
Definition cl_start (first : bool) (prev lab0 : vec nat) : vec nat := fun x => lab0 (p1 (cl_prev first prev) x).

Lemma obj_on_grid n0 Bo n B prev lb2 : lab1_ok n0 n prev -> on_grid n0 Bo n B prev -> lab_lt n n lb2 ->
  obj n B lb2 == obj n0 Bo (fun x => lb2 (p1 prev x)).
Proof.
  intros Hp Hg Hl. rewrite (obj_ext n B (agg n0 Bo (p1 prev)) lb2 Hg).
  apply (aggregate_preserves_obj n0 n n Bo (p1 prev) lb2 (lab1_lt n0 n prev Hp) Hl).
Qed.

Lemma cl_level_mono first n0 Bo n B lab0 prev moves :
  sym_on n0 Bo -> (first = true -> n = n0) ->
  lab1_ok n0 n (cl_prev first prev) -> on_grid n0 Bo n B (cl_prev first prev) ->
  lab_lt n n lab0 -> (first = false -> lab0 = tabv O n ident) ->
  good_run n (gain_B B) (move_B n B (cl_H first n B lab0)) (cl_st0 first n B lab0) moves ->
  let m0 := lev_m0 n (lab (cl_fin first n B lab0 moves)) in
  let cih := cl_cih first n0 n prev m0 in
  obj n0 Bo (cl_start first prev lab0) <= obj n0 Bo cih /\ (moves <> [] -> obj n0 Bo (cl_start first prev lab0) < obj n0 Bo cih).
Proof.
  intros Hs Hn Hp Hg Hl Hf Hr m0 cih.
  pose proof (on_grid_sym n0 Bo n B _ Hs Hg) as HsB.
  destruct (moves_monotone_louvainB n B (cl_H first n B lab0) moves (cl_st0 first n B lab0) HsB
             (cl_init_inv first n B lab0 HsB Hl Hf) Hr) as ((Hlf & _) & Hle & Hlt).
  fold (cl_fin first n B lab0 moves) in Hlf, Hle, Hlt. set (fin := cl_fin first n B lab0 moves) in *.
  destruct (cl_step first n0 Bo n B prev (lab fin) Hs Hn Hp Hg) as (Hc & _ & E). fold m0 in E, Hc. fold cih in E, Hc.
  assert (Q0 : obj n B (lab (cl_st0 first n B lab0)) == obj n0 Bo (cl_start first prev lab0)).
  { cbn [cl_st0 lab]. apply (obj_on_grid n0 Bo n B _ lab0 Hp Hg Hl). }
  assert (Q1 : obj n B (lab fin) == obj n0 Bo cih).
  { rewrite (obj_on_grid n0 Bo n B _ (lab fin) Hp Hg Hlf).
    apply obj_partition_invariant. intros i j Hi Hj. rewrite (E i Hi), (E j Hj).
    pose proof (lab1_lt n0 n _ Hp i Hi) as Li. pose proof (lab1_lt n0 n _ Hp j Hj) as Lj. split.
    - intros H. f_equal. exact (proj2 (lev_m0_same n (lab fin) _ _ Li Lj) H).
    - intros H. injection H as H. exact (proj1 (lev_m0_same n (lab fin) _ _ Li Lj) H). }
  rewrite <- Q0, <- Q1. split; assumption.
Qed.

Lemma cl_levels_mono kind n0 Wo g : ((kind <= 1)%nat -> 0 < stot n0 Wo) -> forall lv first n B lab0 prev,
  (first = true -> n = n0) ->
  lab1_ok n0 n (cl_prev first prev) -> on_grid n0 (Bo_of kind n0 Wo g) n B (cl_prev first prev) ->
  lab_lt n n lab0 -> (first = false -> lab0 = tabv O n ident) ->
  cl_good first n B lab0 lv ->
  chain_mono (Qbuiltin kind n0 Wo g (cl_start first prev lab0)) (map fst (cl_levels kind n0 Wo g first n B lab0 prev lv)).
Proof.
  intros Hpos. induction lv as [|moves rest IH]; intros first n B lab0 prev Hn Hp Hg Hl Hf Hgood; cbn [cl_levels]; [exact I|].
  cbn [cl_good] in Hgood. destruct Hgood as [Hr Hrest].
  rewrite cl_level_eq.
  destruct (cl_level_mono first n0 (Bo_of kind n0 Wo g) n B lab0 prev moves (Bo_sym kind n0 Wo g) Hn Hp Hg Hl Hf Hr) as [Hle Hlt].
  set (fin := cl_fin first n B lab0 moves) in *.
  destruct (cl_step first n0 (Bo_of kind n0 Wo g) n B prev (lab fin) (Bo_sym kind n0 Wo g) Hn Hp Hg) as (Hc & Hg' & E).
  set (m0 := lev_m0 n (lab fin)) in *. set (n' := lev_n n (lab fin)) in *.
  set (B1 := tabQ n' n' (agg_upper n B m0)) in *.
  fold (cl_cih first n0 n prev m0). set (cih := cl_cih first n0 n prev m0) in *.
  cbn [map fst chain_mono snd].
  split; [|split].
  - rewrite Qred_correct, <- !obj_Bo. apply (qnorm_le kind _ _ _ Hpos Hle).
  - intros Hne. rewrite Qred_correct, <- !obj_Bo. apply (qnorm_lt kind _ _ _ Hpos). apply Hlt. intros ->. apply Hne. reflexivity.
  - apply (chain_mono_comp (Qbuiltin kind n0 Wo g (cl_start false cih (tabv O n' ident)))).
    + rewrite Qred_correct. apply Qbuiltin_partition_invariant. intros i j Hi Hj. unfold cl_start, cl_prev.
      rewrite !tabv_spec by (apply (lab1_lt n0 n' cih Hc); assumption). unfold ident. apply (p1_same n0 n' cih Hc); assumption.
    + apply (IH false n' B1 (tabv O n' ident) cih); try assumption; [discriminate|apply lab_lt_ident|reflexivity].
Qed.

(* C07, whole run: from the given partition ci (default singletons), with every accepted move of exact gain > 0, the
   quality (modularity / Potts / signed) of the successive passes on the ORIGINAL network never falls and the returned
   partition is never worse than the start *)
Theorem community_louvain_run_monotone rows g kind ci lv : lv <> [] ->
  ((kind <= 1)%nat -> 0 < stot (length rows) (rowsW rows)) ->
  cl_good true (length rows) (Bo_of kind (length rows) (rowsW rows) g) (init_lab (length rows) ci) lv ->
  let r := run_community_louvain rows g kind ci lv in
  chain_mono (ret_qstart r) (fst r) /\ ret_qstart r <= ret_qdef r.
Proof.
  intros Hne Hpos Hgood r. unfold r. rewrite run_community_louvain_eq. cbv zeta. unfold ret_qstart, ret_qdef. cbn [fst snd].
  pose proof (cl_levels_mono kind _ _ g Hpos lv true _ _ (init_lab (length rows) ci) (fun x => S (init_lab (length rows) ci x))
                (fun _ => eq_refl) (lab1_S (length rows)) (on_grid_start _ _) (init_lab_lt _ ci)
                (fun H => False_ind _ (Bool.diff_true_false H)) Hgood) as HC.
  fold (cl_res rows g kind ci lv) in HC.
  assert (HC' : chain_mono (Qred (Qbuiltin kind (length rows) (rowsW rows) g (init_lab (length rows) ci)))
                           (map fst (cl_res rows g kind ci lv))).
  { apply (chain_mono_comp _ _ _ (Qeq_sym _ _ (Qred_correct _)) HC). }
  split; [exact HC'|].
  destruct (cl_last_in rows g kind ci _ (cl_res_nonempty rows g kind ci lv Hne)) as [e [He Ep]]. rewrite Ep. cbn [fst].
  pose proof (cl_res_ok rows g kind ci lv) as HF. rewrite Forall_forall in HF. destruct (HF e He) as (_ & _ & _ & E2).
  rewrite <- E2. apply (chain_mono_ge _ _ HC' (fst e)). apply in_map. exact He.
Qed.

(* non-vacuity: (a) 'negative_sym' on the signed 4-node network of the signed example, from singletons;
   (b) 'modularity' on a DIRECTED 4-node network from the partition {0,1,2},{3} *)
Definition ex_dir_rows : list (list Q) := [[0; 2; 0; 0]; [0; 0; 1; 0]; [1; 0; 0; 2]; [0; 0; 3; 0]].

Example community_louvain_run_nonvacuous :
  (let lv := [[(0, 1); (2, 3)]; []]%nat in let ci := [1; 2; 3; 4]%Z in
   lv <> [] /\ ~ stot 4 (pospart (rowsW ex_sign_rows)) == 0 /\
   cl_good true 4 (Bo_of 2 4 (rowsW ex_sign_rows) 1) (init_lab 4 ci) lv /\
   ret_ci (run_community_louvain ex_sign_rows 1 2 ci lv) = [1; 1; 2; 2]%nat /\
   ret_q (run_community_louvain ex_sign_rows 1 2 ci lv) = ret_qdef (run_community_louvain ex_sign_rows 1 2 ci lv) /\
   ret_qstart (run_community_louvain ex_sign_rows 1 2 ci lv) < ret_q (run_community_louvain ex_sign_rows 1 2 ci lv)) /\
  (let lv := [[(2, 1)]; []]%nat in let ci := [5; 5; 5; 9]%Z in
   lv <> [] /\ 0 < stot 4 (rowsW ex_dir_rows) /\
   cl_good true 4 (Bo_of 0 4 (rowsW ex_dir_rows) 1) (init_lab 4 ci) lv /\
   ret_ci (run_community_louvain ex_dir_rows 1 0 ci lv) = [1; 1; 2; 2]%nat /\
   ret_q (run_community_louvain ex_dir_rows 1 0 ci lv) = ret_qdef (run_community_louvain ex_dir_rows 1 0 ci lv) /\
   ret_qstart (run_community_louvain ex_dir_rows 1 0 ci lv) < ret_q (run_community_louvain ex_dir_rows 1 0 ci lv)).
Proof.
  cbv zeta. split.
  - split; [discriminate|]. split; [vm_compute; discriminate|]. split; [|split; [vm_compute; reflexivity|split; vm_compute; reflexivity]].
    cbn [cl_good]. split; [good_run_tac|]. split; [good_run_tac|exact I].
  - split; [discriminate|]. split; [vm_compute; reflexivity|]. split; [|split; [vm_compute; reflexivity|split; vm_compute; reflexivity]].
    cbn [cl_good]. split; [good_run_tac|]. split; [good_run_tac|exact I].
Qed.
