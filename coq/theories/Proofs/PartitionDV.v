(* Proofs/PartitionDV.v — the statement-level model of dummyvar / agreement(ci, buffsz) (Model/PartitionDV.v:
   argsort oracle, mask, indptr, CSC matrix, np.dot, buffsz chunks) equals the semantic model `agreement`
   (Model/Partition.v: number of partitions that put i and j in the same module), for EVERY sorting
   permutation the (unstable) argsort may return.
     dummyvar_spec            entry (i, r) of the dummy matrix = number of flat positions of node i whose column is r
     dv_col_same              two flat positions share a column iff same partition and same label
     dummyvar_shape           len(indptr) = r + 1 (scipy's consistency check passes)
     agree_block_spec         np.dot(ind, ind.T)[i, j] of ci[:, a:b] = number of partitions a <= p < b joining i and j
     agree_chunks_tile        the buffsz chunks are consecutive, non-empty and cover [0, m)
     agreement_stmt_semantic  agreement_stmt == agreement *)
From Coq Require Import QArith Qring Qfield Lia Lqa Arith List Bool ZArith.
From BCT Require Import Base.Mat Base.SumQ Base.ListX Model.Partition Model.PartitionDV Proofs.Partition.
Import ListNotations.
Open Scope Q_scope.

(* ---------- sums ---------- *)
Lemma sumQ_app f a b : sumQ f (a + b) == sumQ f a + sumQ (fun t => f (a + t)%nat) b.
Proof.
  induction b as [|b IH]; [rewrite Nat.add_0_r; cbn [sumQ]; ring|].
  rewrite Nat.add_succ_r. cbn [sumQ]. rewrite IH. ring.
Qed.

Lemma sumQ_blocks f n m : sumQ f (n * m) == sumQ (fun p => sumQ (fun k => f (p * n + k)%nat) n) m.
Proof.
  induction m as [|m IH]; [rewrite Nat.mul_0_r; reflexivity|].
  rewrite Nat.mul_succ_r, sumQ_app, IH. cbn [sumQ].
  apply Qplus_comp; [reflexivity|]. apply sumQ_ext; intros k _. rewrite (Nat.mul_comm n m). reflexivity.
Qed.

(* a sum over the segment [a, b) as a masked sum over [0, N) *)
Lemma sumQ_segment g a b N : (a <= b)%nat -> (b <= N)%nat ->
  sumQ (fun t => g (a + t)%nat) (b - a) == sumQ (fun q => ind (Nat.leb a q && Nat.ltb q b) * g q) N.
Proof.
  intros Hab HbN. replace N with (a + ((b - a) + (N - b)))%nat at 1 by lia.
  rewrite sumQ_app, sumQ_app.
  rewrite (sumQ_zero' _ a), (sumQ_zero' _ (N - b)%nat).
  - rewrite Qplus_0_l, Qplus_0_r. apply sumQ_ext; intros t Ht.
    destruct (Nat.leb_spec a (a + t)); [|lia]. destruct (Nat.ltb_spec (a + t) b); [|lia].
    cbn [ind andb]. ring.
  - intros t Ht. destruct (Nat.ltb_spec (a + (b - a + t)) b); [lia|]. rewrite andb_false_r. cbn [ind]. ring.
  - intros t Ht. destruct (Nat.leb_spec a t); [lia|]. cbn [ind andb]. ring.
Qed.

Lemma ind_eqb_sym a b : ind (Nat.eqb a b) = ind (Nat.eqb b a).
Proof. rewrite Nat.eqb_sym. reflexivity. Qed.

(* ---------- counting the true positions of a boolean sequence ---------- *)
Definition cnt (f : nat -> bool) (k : nat) : nat := length (filter f (seq 0 k)).

Lemma filter_seq_S f k : filter f (seq 0 (S k)) = filter f (seq 0 k) ++ (if f k then [k] else []).
Proof. rewrite seq_S, filter_app, Nat.add_0_l. cbn [filter]. reflexivity. Qed.

Lemma cnt_S f k : cnt f (S k) = (cnt f k + if f k then 1 else 0)%nat.
Proof. unfold cnt. rewrite filter_seq_S, app_length. destruct (f k); reflexivity. Qed.

Lemma cnt_mono f a b : (a <= b)%nat -> (cnt f a <= cnt f b)%nat.
Proof. induction 1 as [|b _ IH]; [lia|]. rewrite cnt_S. lia. Qed.

Lemma cnt_app f a b : cnt f (a + b) = (cnt f a + cnt (fun k => f (a + k)%nat) b)%nat.
Proof.
  induction b as [|b IH]; [rewrite Nat.add_0_r; unfold cnt at 3; cbn [seq filter length]; lia|].
  rewrite Nat.add_succ_r, !cnt_S, IH. lia.
Qed.

Lemma cnt_ext f g k : (forall t, (t < k)%nat -> f t = g t) -> cnt f k = cnt g k.
Proof.
  induction k as [|k IH]; intros H; [reflexivity|]. rewrite !cnt_S, IH, (H k) by auto. reflexivity.
Qed.

(* no true position in [a, b) *)
Lemma cnt_eq_iff f a b : (a <= b)%nat ->
  (cnt f a = cnt f b <-> forall t, (a <= t < b)%nat -> f t = false).
Proof.
  induction 1 as [|b Hab IH].
  - split; [intros _ t Ht; lia|reflexivity].
  - rewrite cnt_S. pose proof (cnt_mono f a b Hab) as Hm. destruct (f b) eqn:Eb; split.
    + intros E. lia.
    + intros H. rewrite (H b) in Eb by lia. discriminate.
    + intros E t Ht. destruct (Nat.eq_dec t b) as [->|Hne]; [exact Eb|]. apply IH; lia.
    + intros H. rewrite Nat.add_0_r. apply IH. intros t Ht. apply H. lia.
Qed.

(* the r-th element of the list of true positions is a true position with exactly r true positions before it *)
Lemma nth_filter_cnt f N : forall r, (r < cnt f N)%nat ->
  (nth r (filter f (seq 0 N)) 0 < N)%nat /\ f (nth r (filter f (seq 0 N)) 0%nat) = true /\
  cnt f (nth r (filter f (seq 0 N)) 0%nat) = r.
Proof.
  induction N as [|N IH]; intros r Hr.
  - unfold cnt in Hr. cbn [seq filter length] in Hr. lia.
  - rewrite filter_seq_S. rewrite cnt_S in Hr.
    destruct (Nat.lt_ge_cases r (cnt f N)) as [Hlt|Hge].
    + rewrite app_nth1 by exact Hlt. destruct (IH r Hlt) as (H1 & H2 & H3). repeat split; auto.
    + destruct (f N) eqn:EN; [|lia]. assert (Er : r = cnt f N) by lia.
      assert (En : nth r (filter f (seq 0 N) ++ [N]) 0%nat = N).
      { rewrite app_nth2 by exact Hge.
        replace (r - length (filter f (seq 0 N)))%nat with 0%nat by (unfold cnt in Er; lia). reflexivity. }
      rewrite En. repeat split; auto; lia.
Qed.

(* indptr = (true positions) ++ [N] *)
Lemma indptr_nth f N r : (r <= cnt f N)%nat ->
  (nth r (filter f (seq 0 N) ++ [N]) 0 <= N)%nat /\
  cnt f (nth r (filter f (seq 0 N) ++ [N]) 0%nat) = r /\
  ((r < cnt f N)%nat -> (nth r (filter f (seq 0 N) ++ [N]) 0 < N)%nat /\ f (nth r (filter f (seq 0 N) ++ [N]) 0%nat) = true) /\
  (r = cnt f N -> nth r (filter f (seq 0 N) ++ [N]) 0%nat = N).
Proof.
  intros Hr. destruct (Nat.lt_ge_cases r (cnt f N)) as [Hlt|Hge].
  - rewrite app_nth1 by exact Hlt. destruct (nth_filter_cnt f N r Hlt) as (H1 & H2 & H3).
    repeat split; auto; lia.
  - assert (Er : r = cnt f N) by lia.
    assert (En : nth r (filter f (seq 0 N) ++ [N]) 0%nat = N).
    { rewrite app_nth2 by exact Hge.
      replace (r - length (filter f (seq 0 N)))%nat with 0%nat by (unfold cnt in Er; lia). reflexivity. }
    rewrite En. repeat split; auto; lia.
Qed.

(* column of a position = (number of true positions up to and including it) - 1 *)
Definition colf (f : nat -> bool) (q : nat) : nat := pred (cnt f (S q)).

Lemma cnt_pos f q : f 0%nat = true -> (1 <= cnt f (S q))%nat.
Proof.
  intros H0. pose proof (cnt_mono f 1 (S q) ltac:(lia)) as H. rewrite (cnt_S f 0), H0 in H.
  unfold cnt at 1 in H. cbn [seq filter length] in H. lia.
Qed.

Lemma colf_lt f N q : f 0%nat = true -> (q < N)%nat -> (colf f q < cnt f N)%nat.
Proof.
  intros H0 Hq. unfold colf. pose proof (cnt_pos f q H0). pose proof (cnt_mono f (S q) N ltac:(lia)). lia.
Qed.

Lemma colf_range f N r q : f 0%nat = true -> (q < N)%nat -> (r < cnt f N)%nat ->
  ((nth r (filter f (seq 0 N) ++ [N]) 0 <= q < nth (S r) (filter f (seq 0 N) ++ [N]) 0)%nat <-> colf f q = r).
Proof.
  intros H0 Hq Hr.
  destruct (indptr_nth f N r ltac:(lia)) as (_ & Ha2 & Ha3 & _). destruct (Ha3 Hr) as [Ha1 Ha4].
  destruct (indptr_nth f N (S r) ltac:(lia)) as (Hb1 & Hb2 & Hb3 & Hb4).
  set (a := nth r (filter f (seq 0 N) ++ [N]) 0%nat) in *.
  set (b := nth (S r) (filter f (seq 0 N) ++ [N]) 0%nat) in *.
  pose proof (cnt_S f a) as HSa. rewrite Ha4, Ha2 in HSa.
  pose proof (cnt_pos f q H0) as Hp. unfold colf. split.
  - intros [H1 H2]. pose proof (cnt_mono f (S a) (S q) ltac:(lia)). pose proof (cnt_mono f (S q) b ltac:(lia)). lia.
  - intros E. assert (Eq : cnt f (S q) = S r) by lia. split.
    + destruct (Nat.le_gt_cases a q) as [H|H]; [exact H|]. pose proof (cnt_mono f (S q) a ltac:(lia)). lia.
    + destruct (Nat.lt_ge_cases q b) as [H|H]; [exact H|]. exfalso.
      destruct (Nat.eq_dec (S r) (cnt f N)) as [E'|E']; [rewrite (Hb4 E') in H; lia|].
      destruct (Hb3 ltac:(lia)) as [_ Hfb]. pose proof (cnt_S f b) as HSb. rewrite Hfb, Hb2 in HSb.
      pose proof (cnt_mono f (S b) (S q) ltac:(lia)). lia.
Qed.

(* ---------- permutations of [0, n) given as into + injective are onto ---------- *)
Lemma NoDup_map_inj_on {A B} (s : A -> B) l :
  NoDup l -> (forall x y, In x l -> In y l -> s x = s y -> x = y) -> NoDup (map s l).
Proof.
  induction l as [|a l IH]; intros Hnd Hinj; cbn [map]; [constructor|].
  inversion Hnd as [|? ? Ha Hl]; subst. constructor.
  - intros Hin. apply in_map_iff in Hin. destruct Hin as [y [E Hy]]. apply Ha.
    rewrite <- (Hinj y a); [exact Hy|right; exact Hy|left; reflexivity|exact E].
  - apply IH; [exact Hl|]. intros x y Hx Hy. apply Hinj; right; assumption.
Qed.

Lemma perm_onto n (s : vec nat) :
  (forall k, (k < n)%nat -> (s k < n)%nat) ->
  (forall k k', (k < n)%nat -> (k' < n)%nat -> s k = s k' -> k = k') ->
  forall i, (i < n)%nat -> exists k, (k < n)%nat /\ s k = i.
Proof.
  intros Hin Hinj i Hi.
  assert (Hincl : incl (seq 0 n) (map s (seq 0 n))).
  { apply NoDup_length_incl.
    - apply NoDup_map_inj_on; [apply seq_NoDup|]. intros x y Hx Hy. apply in_seq in Hx, Hy. apply Hinj; lia.
    - rewrite map_length. lia.
    - intros x Hx. apply in_map_iff in Hx. destruct Hx as [k [E Hk]]. apply in_seq in Hk. apply in_seq.
      specialize (Hin k). lia. }
  assert (Hi' : In i (seq 0 n)) by (apply in_seq; lia).
  apply Hincl in Hi'. apply in_map_iff in Hi'. destruct Hi' as [k [E Hk]]. apply in_seq in Hk.
  exists k. split; [lia|exact E].
Qed.

(* the inverse permutation, computed by search *)
Definition dv_inv (s : vec nat) (n i : nat) : nat :=
  match find (fun k => Nat.eqb (s k) i) (seq 0 n) with Some k => k | None => 0%nat end.

Lemma dv_inv_spec n (s : vec nat) i :
  (forall k, (k < n)%nat -> (s k < n)%nat) ->
  (forall k k', (k < n)%nat -> (k' < n)%nat -> s k = s k' -> k = k') ->
  (i < n)%nat -> (dv_inv s n i < n)%nat /\ s (dv_inv s n i) = i.
Proof.
  intros Hin Hinj Hi. destruct (perm_onto n s Hin Hinj i Hi) as [k [Hk E]].
  unfold dv_inv. destruct (find (fun k => Nat.eqb (s k) i) (seq 0 n)) as [k'|] eqn:Ef.
  - apply find_some in Ef. destruct Ef as [Hk' E']. apply in_seq in Hk'. apply Nat.eqb_eq in E'. split; [lia|exact E'].
  - exfalso. pose proof (find_none _ _ Ef k ltac:(apply in_seq; lia)) as Hf. cbv beta in Hf.
    rewrite E, Nat.eqb_refl in Hf. discriminate.
Qed.

Lemma dv_inv_collapse n (s : vec nat) i (h : nat -> Q) :
  (forall k, (k < n)%nat -> (s k < n)%nat) ->
  (forall k k', (k < n)%nat -> (k' < n)%nat -> s k = s k' -> k = k') ->
  (i < n)%nat -> sumQ (fun k => ind (Nat.eqb (s k) i) * h k) n == h (dv_inv s n i).
Proof.
  intros Hin Hinj Hi. destruct (dv_inv_spec n s i Hin Hinj Hi) as [H1 H2].
  rewrite <- (sumQ_ind_collapse h n (dv_inv s n i) H1). apply sumQ_ext. intros k Hk.
  destruct (Nat.eqb_spec (s k) i) as [E|E], (Nat.eqb_spec (dv_inv s n i) k) as [E'|E']; try reflexivity; exfalso.
  - apply E'. apply Hinj; auto. congruence.
  - apply E. rewrite <- E'. exact H2.
Qed.

(* ---------- dummyvar ---------- *)
(* column of the flat position q in the dummy matrix *)
Definition dv_col (n : nat) (cis : nat -> vec Z) (ix : nat -> vec nat) (q : nat) : nat :=
  pred (length (filter (dv_mask n cis ix) (seq 0 (S q)))).

Lemma fold_plus_app l1 l2 : fold_right plus 0%nat (l1 ++ l2) = (fold_right plus 0 l1 + fold_right plus 0 l2)%nat.
Proof. induction l1 as [|a l1 IH]; cbn [app fold_right]; [reflexivity|]. rewrite IH. lia. Qed.

Section DVProofs.
Variables (n m : nat) (cis : nat -> vec Z) (ix : nat -> vec nat).
Hypothesis Hn : (0 < n)%nat.
Hypothesis Hsort : forall p, (p < m)%nat -> sorting_perm n (cis p) (ix p).
Local Notation mask := (dv_mask n cis ix).
Local Notation col := (dv_col n cis ix).

Lemma divmod_pk p k : (k < n)%nat -> ((p * n + k) / n = p /\ (p * n + k) mod n = k)%nat.
Proof.
  intros Hk. split; symmetry.
  - apply (Nat.div_unique _ _ _ k); [exact Hk|lia].
  - apply (Nat.mod_unique _ _ p); [exact Hk|lia].
Qed.

Lemma mask_pk p k : (k < n)%nat ->
  mask (p * n + k)%nat = if Nat.eqb k 0 then true else negb (Z.eqb (cis p (ix p (pred k))) (cis p (ix p k))).
Proof. intros Hk. unfold dv_mask, dv_scis. cbv zeta. destruct (divmod_pk p k Hk) as [E1 E2]. rewrite E1, E2. reflexivity. Qed.

Lemma mask_0 : mask 0%nat = true.
Proof. exact (mask_pk 0 0 Hn). Qed.

Lemma mask_block_start p : mask (p * n)%nat = true.
Proof. rewrite <- (Nat.add_0_r (p * n)). exact (mask_pk p 0 Hn). Qed.

Lemma indices_pk p k : (k < n)%nat -> dv_indices n ix (p * n + k) = ix p k.
Proof. intros Hk. unfold dv_indices. destruct (divmod_pk p k Hk) as [E1 E2]. rewrite E1, E2. reflexivity. Qed.

Lemma sorted_mono p : (p < m)%nat -> forall k k', (k <= k')%nat -> (k' < n)%nat ->
  (cis p (ix p k) <= cis p (ix p k'))%Z.
Proof.
  intros Hp k k' Hle. destruct (Hsort p Hp) as (_ & _ & Hs).
  induction Hle as [|k' Hle IH]; intros Hk'; [lia|].
  specialize (Hs k' Hk'). specialize (IH ltac:(lia)). lia.
Qed.

Lemma col_cnt q : col q = colf mask q.
Proof. reflexivity. Qed.

Lemma col_eq_cnt q q' : col q = col q' <-> cnt mask (S q) = cnt mask (S q').
Proof.
  rewrite !col_cnt. unfold colf. pose proof (cnt_pos mask q mask_0). pose proof (cnt_pos mask q' mask_0). lia.
Qed.

Lemma col_same_block p k k' : (p < m)%nat -> (k <= k')%nat -> (k' < n)%nat ->
  (col (p * n + k) = col (p * n + k') <-> cis p (ix p k) = cis p (ix p k')).
Proof.
  intros Hp Hkk Hk'. rewrite col_eq_cnt.
  rewrite (cnt_eq_iff mask (S (p * n + k)) (S (p * n + k'))) by lia. split.
  - intros H.
    assert (Hd : forall d, (k + d <= k')%nat -> cis p (ix p (k + d)%nat) = cis p (ix p k)).
    { induction d as [|d IH]; intros Hd; [rewrite Nat.add_0_r; reflexivity|].
      pose proof (H (p * n + (k + S d))%nat ltac:(lia)) as E. rewrite mask_pk in E by lia.
      destruct (Nat.eqb_spec (k + S d) 0) as [E0|_]; [lia|].
      apply negb_false_iff in E. apply Z.eqb_eq in E.
      replace (pred (k + S d)) with (k + d)%nat in E by lia. rewrite <- E. apply IH. lia. }
    specialize (Hd (k' - k)%nat). replace (k + (k' - k))%nat with k' in Hd by lia. symmetry. apply Hd. lia.
  - intros E t Ht. replace t with (p * n + (t - p * n))%nat by lia.
    assert (Hk2 : (k < t - p * n <= k')%nat) by lia. revert Hk2. generalize (t - p * n)%nat. intros k2 Hk2.
    rewrite mask_pk by lia. destruct (Nat.eqb_spec k2 0) as [E0|_]; [lia|].
    apply negb_false_iff. apply Z.eqb_eq.
    pose proof (sorted_mono p Hp k (pred k2) ltac:(lia) ltac:(lia)).
    pose proof (sorted_mono p Hp (pred k2) k2 ltac:(lia) ltac:(lia)).
    pose proof (sorted_mono p Hp k2 k' ltac:(lia) ltac:(lia)). lia.
Qed.

Lemma col_diff_block p p' k k' : (p < p')%nat -> (k < n)%nat -> (k' < n)%nat -> col (p * n + k) <> col (p' * n + k').
Proof.
  intros Hpp Hk Hk'. rewrite col_eq_cnt.
  assert (Hle : (S (p * n + k) <= p' * n)%nat) by nia.
  pose proof (cnt_mono mask _ _ Hle) as H1.
  pose proof (cnt_S mask (p' * n)) as H2. rewrite mask_block_start in H2.
  pose proof (cnt_mono mask (S (p' * n)) (S (p' * n + k')) ltac:(lia)) as H3. lia.
Qed.

Lemma col_eq_iff p p' k k' : (p < m)%nat -> (p' < m)%nat -> (k < n)%nat -> (k' < n)%nat ->
  (col (p * n + k) = col (p' * n + k') <-> p = p' /\ cis p (ix p k) = cis p (ix p k')).
Proof.
  intros Hp Hp' Hk Hk'. destruct (Nat.lt_trichotomy p p') as [H|[H|H]].
  - split; [intros E; exfalso; exact (col_diff_block p p' k k' H Hk Hk' E)|intros [E _]; lia].
  - subst p'. destruct (Nat.le_ge_cases k k') as [Hkk|Hkk].
    + rewrite (col_same_block p k k' Hp Hkk Hk'). tauto.
    + split.
      * intros E. symmetry in E. apply (col_same_block p k' k Hp Hkk Hk) in E. split; [reflexivity|congruence].
      * intros [_ E]. symmetry. apply (col_same_block p k' k Hp Hkk Hk). congruence.
  - split; [intros E; exfalso; symmetry in E; exact (col_diff_block p' p k' k H Hk' Hk E)|intros [E _]; lia].
Qed.

(* two flat positions are in the same column iff same partition and same label:
   every row of the dummy matrix has exactly one 1 per partition, in the column of its label's run *)
Lemma dv_col_same q q' : (q < n * m)%nat -> (q' < n * m)%nat ->
  (col q = col q' <->
   (q / n = q' / n)%nat /\ cis (q / n) (dv_indices n ix q) = cis (q / n) (dv_indices n ix q')).
Proof.
  intros Hq Hq'.
  assert (Hnz : n <> 0%nat) by lia.
  pose proof (Nat.div_mod q n Hnz) as Eq. pose proof (Nat.div_mod q' n Hnz) as Eq'.
  pose proof (Nat.mod_upper_bound q n Hnz) as Hk. pose proof (Nat.mod_upper_bound q' n Hnz) as Hk'.
  assert (Hp : (q / n < m)%nat) by (apply Nat.div_lt_upper_bound; lia).
  assert (Hp' : (q' / n < m)%nat) by (apply Nat.div_lt_upper_bound; lia).
  replace q with (q / n * n + q mod n)%nat at 1 by lia.
  replace q' with (q' / n * n + q' mod n)%nat at 1 by lia.
  rewrite (col_eq_iff _ _ _ _ Hp Hp' Hk Hk'). unfold dv_indices. split.
  - intros [E1 E2]. split; [exact E1|]. rewrite <- E1. exact E2.
  - intros [E1 E2]. split; [exact E1|]. rewrite <- E1 in E2. exact E2.
Qed.

(* entry (i, r) of the dummy matrix: the positions q of column r whose row index is i *)
Lemma dv_entry_full i r : (r < cnt mask (n * m))%nat ->
  dv_entry n ix (dv_indptr n m cis ix) i r ==
  sumQ (fun q => ind (Nat.eqb (col q) r) * ind (Nat.eqb (dv_indices n ix q) i)) (n * m).
Proof.
  intros Hr. unfold dv_entry, dv_indptr, dv_nnz. cbv zeta.
  destruct (indptr_nth mask (n * m) r ltac:(lia)) as (_ & Ha2 & _ & _).
  destruct (indptr_nth mask (n * m) (S r) ltac:(lia)) as (Hb1 & Hb2 & _ & _).
  pose proof (colf_range mask (n * m) r) as Hrange.
  set (a := nth r (filter mask (seq 0 (n * m)) ++ [(n * m)%nat]) 0%nat) in *.
  set (b := nth (S r) (filter mask (seq 0 (n * m)) ++ [(n * m)%nat]) 0%nat) in *.
  assert (Hab : (a <= b)%nat).
  { destruct (Nat.le_gt_cases a b) as [H|H]; [exact H|]. pose proof (cnt_mono mask b a ltac:(lia)). lia. }
  rewrite (sumQ_segment (fun q => ind (Nat.eqb (dv_indices n ix q) i)) a b (n * m) Hab Hb1).
  apply sumQ_ext. intros q Hq. specialize (Hrange q mask_0 Hq Hr). rewrite <- col_cnt in Hrange.
  destruct (Nat.eqb_spec (col q) r) as [E|E], (Nat.leb_spec a q), (Nat.ltb_spec q b); cbn [andb]; try reflexivity;
    exfalso; try (apply E; apply Hrange; lia); apply Hrange in E; lia.
Qed.

Lemma dv_entry_zero i r : (cnt mask (n * m) <= r)%nat -> dv_entry n ix (dv_indptr n m cis ix) i r == 0.
Proof.
  intros Hr. unfold dv_entry, dv_indptr, dv_nnz. cbv zeta.
  rewrite (nth_overflow _ _ (n := S r)) by (rewrite app_length; cbn [length]; unfold cnt in Hr; lia).
  cbn [Nat.sub sumQ]. reflexivity.
Qed.

Theorem dummyvar_spec_sec i r :
  dummyvar n m cis ix i r ==
  sumQ (fun q => ind (Nat.eqb (col q) r) * ind (Nat.eqb (dv_indices n ix q) i)) (n * m).
Proof.
  unfold dummyvar. destruct (Nat.lt_ge_cases r (cnt mask (n * m))) as [Hr|Hr].
  - apply dv_entry_full. exact Hr.
  - rewrite (dv_entry_zero i r Hr). symmetry. apply sumQ_zero'. intros q Hq.
    pose proof (colf_lt mask (n * m) q mask_0 Hq) as Hc. rewrite <- col_cnt in Hc.
    destruct (Nat.eqb_spec (col q) r) as [E|E]; [lia|]. cbn [ind]. ring.
Qed.

(* ----- the shape: number of runs of a sorted column = number of distinct labels ----- *)
Lemma run_start_lt p x y : (p < m)%nat -> (x < y)%nat -> (y < n)%nat -> mask (p * n + y)%nat = true ->
  (cis p (ix p x) < cis p (ix p y))%Z.
Proof.
  intros Hp Hxy Hy Hm. rewrite mask_pk in Hm by exact Hy.
  destruct (Nat.eqb_spec y 0) as [E0|_]; [lia|].
  apply negb_true_iff in Hm. apply Z.eqb_neq in Hm.
  pose proof (sorted_mono p Hp x (pred y) ltac:(lia) ltac:(lia)).
  pose proof (sorted_mono p Hp (pred y) y ltac:(lia) ltac:(lia)). lia.
Qed.

Lemma block_count p : (p < m)%nat ->
  cnt (fun k => mask (p * n + k)%nat) n = length (nodup Z.eq_dec (to_list n (cis p))).
Proof.
  intros Hp. destruct (Hsort p Hp) as (Hin & Hinj & _).
  set (g := fun k => mask (p * n + k)%nat).
  set (M := map (fun k => cis p (ix p k)) (filter g (seq 0 n))).
  assert (HlenM : length M = cnt g n) by (unfold M, cnt; apply map_length).
  assert (HndM : NoDup M).
  { unfold M. apply NoDup_map_inj_on; [apply NoDup_filter, seq_NoDup|].
    intros x y Hx Hy E. apply filter_In in Hx, Hy. destruct Hx as [Hx Gx], Hy as [Hy Gy].
    apply in_seq in Hx, Hy. unfold g in Gx, Gy.
    destruct (Nat.lt_trichotomy x y) as [H|[H|H]]; [|exact H|]; exfalso.
    - pose proof (run_start_lt p x y Hp H ltac:(lia) Gy). lia.
    - pose proof (run_start_lt p y x Hp H ltac:(lia) Gx). lia. }
  assert (Hin1 : incl M (nodup Z.eq_dec (to_list n (cis p)))).
  { intros z Hz. apply nodup_In. unfold M in Hz. apply in_map_iff in Hz. destruct Hz as [k [E Hk]].
    apply filter_In in Hk. destruct Hk as [Hk _]. apply in_seq in Hk. rewrite <- E.
    apply In_to_list. apply Hin. lia. }
  assert (Hall : forall k, (k < n)%nat -> In (cis p (ix p k)) M).
  { induction k as [|k IH]; intros Hk.
    - unfold M. apply in_map_iff. exists 0%nat. split; [reflexivity|]. apply filter_In. split; [apply in_seq; lia|].
      unfold g. rewrite mask_pk by exact Hk. reflexivity.
    - destruct (g (S k)) eqn:Eg.
      + unfold M. apply in_map_iff. exists (S k). split; [reflexivity|]. apply filter_In. split; [apply in_seq; lia|exact Eg].
      + unfold g in Eg. rewrite mask_pk in Eg by exact Hk. cbn [Nat.eqb pred] in Eg.
        apply negb_false_iff in Eg. apply Z.eqb_eq in Eg. rewrite <- Eg. apply IH. lia. }
  assert (Hin2 : incl (nodup Z.eq_dec (to_list n (cis p))) M).
  { intros z Hz. apply nodup_In in Hz. unfold to_list in Hz. apply in_map_iff in Hz. destruct Hz as [i [E Hi]].
    apply in_seq in Hi. destruct (perm_onto n (ix p) Hin Hinj i ltac:(lia)) as [k [Hk Ek]].
    rewrite <- E, <- Ek. apply Hall. exact Hk. }
  pose proof (NoDup_incl_length HndM Hin1) as H1.
  pose proof (NoDup_incl_length (NoDup_nodup Z.eq_dec (to_list n (cis p))) Hin2) as H2.
  fold g. lia.
Qed.

Lemma cnt_total m' : (m' <= m)%nat ->
  cnt mask (n * m') = fold_right plus 0%nat (map (fun p => length (nodup Z.eq_dec (to_list n (cis p)))) (seq 0 m')).
Proof.
  induction m' as [|m' IH]; intros Hm.
  - rewrite Nat.mul_0_r. reflexivity.
  - rewrite Nat.mul_succ_r, cnt_app, IH by lia. rewrite seq_S, map_app, fold_plus_app. cbn [map fold_right].
    rewrite Nat.add_0_l, Nat.add_0_r. f_equal. rewrite <- (block_count m') by lia.
    apply cnt_ext. intros t _. rewrite (Nat.mul_comm n m'). reflexivity.
Qed.

Lemma cnt_dv_r : cnt mask (n * m) = dv_r n m cis.
Proof. unfold dv_r. apply cnt_total. lia. Qed.

Theorem dummyvar_shape_sec : length (dv_indptr n m cis ix) = S (dv_r n m cis).
Proof. unfold dv_indptr, dv_nnz. rewrite app_length. cbn [length]. rewrite <- cnt_dv_r. unfold cnt. lia. Qed.

(* ----- np.dot(ind, ind.T) ----- *)
Local Notation inv p i := (dv_inv (ix p) n i).

(* row i of the dummy matrix: one 1 per partition, in the column of node i's position *)
Lemma dv_entry_rows i r : (i < n)%nat -> (r < dv_r n m cis)%nat ->
  dv_entry n ix (dv_indptr n m cis ix) i r == sumQ (fun p => ind (Nat.eqb (col (p * n + inv p i)) r)) m.
Proof.
  intros Hi Hr. rewrite dv_entry_full by (rewrite cnt_dv_r; exact Hr).
  rewrite sumQ_blocks. apply sumQ_ext. intros p Hp. destruct (Hsort p Hp) as (Hin & Hinj & _).
  rewrite <- (dv_inv_collapse n (ix p) i (fun k => ind (Nat.eqb (col (p * n + k)) r)) Hin Hinj Hi).
  apply sumQ_ext. intros k Hk. rewrite indices_pk by exact Hk. ring.
Qed.

Lemma block_core i j : (i < n)%nat -> (j < n)%nat ->
  sumQ (fun r => dv_entry n ix (dv_indptr n m cis ix) i r * dv_entry n ix (dv_indptr n m cis ix) j r) (dv_r n m cis)
  == sumQ (fun p => ind (Z.eqb (cis p i) (cis p j))) m.
Proof.
  intros Hi Hj.
  transitivity (sumQ (fun r => sumQ (fun p => sumQ (fun p' =>
      ind (Nat.eqb (col (p * n + inv p i)) r) * ind (Nat.eqb (col (p' * n + inv p' j)) r)) m) m) (dv_r n m cis)).
  { apply sumQ_ext. intros r Hr. rewrite (dv_entry_rows i r Hi Hr), (dv_entry_rows j r Hj Hr).
    rewrite <- sumQ_scal_r. apply sumQ_ext. intros p _. rewrite <- sumQ_scal. reflexivity. }
  rewrite sumQ_fubini. apply sumQ_ext. intros p Hp.
  rewrite sumQ_fubini.
  destruct (Hsort p Hp) as (Hin & Hinj & _). destruct (dv_inv_spec n (ix p) i Hin Hinj Hi) as [Hki Eki].
  destruct (dv_inv_spec n (ix p) j Hin Hinj Hj) as [Hkj Ekj].
  transitivity (sumQ (fun p' => ind (Nat.eqb p p') * ind (Z.eqb (cis p i) (cis p j))) m).
  2: { exact (sumQ_ind_collapse (fun _ => ind (Z.eqb (cis p i) (cis p j))) m p Hp). }
  apply sumQ_ext. intros p' Hp'.
  destruct (Hsort p' Hp') as (Hin' & Hinj' & _). destruct (dv_inv_spec n (ix p') j Hin' Hinj' Hj) as [Hkj' Ekj'].
  assert (Hc : (col (p * n + inv p i) < dv_r n m cis)%nat).
  { rewrite <- cnt_dv_r, col_cnt. apply colf_lt; [exact mask_0|]. nia. }
  rewrite (sumQ_ind_collapse (fun r => ind (Nat.eqb (col (p' * n + inv p' j)) r)) _ _ Hc).
  pose proof (col_eq_iff p' p (inv p' j) (inv p i) Hp' Hp Hkj' Hki) as Hiff.
  destruct (Nat.eqb_spec (col (p' * n + inv p' j)) (col (p * n + inv p i))) as [E|E].
  - apply Hiff in E. destruct E as [E1 E2]. subst p'. rewrite Nat.eqb_refl. rewrite Ekj', Eki in E2.
    destruct (Z.eqb_spec (cis p i) (cis p j)) as [E'|E']; [reflexivity|congruence].
  - destruct (Nat.eqb_spec p p') as [E1|E1]; [|cbn [ind]; ring]. subst p'.
    destruct (Z.eqb_spec (cis p i) (cis p j)) as [E'|E']; [|cbn [ind]; ring].
    exfalso. apply E. apply Hiff. split; [reflexivity|]. rewrite Ekj', Eki. congruence.
Qed.
End DVProofs.

(* ---------- the theorems, closed ---------- *)
(* (the sorting hypothesis is not used by dummyvar_spec: the CSC reading holds for any index matrix; it is what
   makes the columns meaningful, dv_col_same) *)
Theorem dummyvar_spec n m cis ix i r :
  (forall p, (p < m)%nat -> sorting_perm n (cis p) (ix p)) -> (i < n)%nat ->
  dummyvar n m cis ix i r ==
  sumQ (fun q => ind (Nat.eqb (dv_col n cis ix q) r) * ind (Nat.eqb (dv_indices n ix q) i)) (n * m).
Proof. intros _ Hi. apply dummyvar_spec_sec. lia. Qed.

Theorem dummyvar_shape n m cis ix : (0 < n)%nat ->
  (forall p, (p < m)%nat -> sorting_perm n (cis p) (ix p)) ->
  length (dv_indptr n m cis ix) = S (dv_r n m cis).
Proof. intros Hn Hs. apply dummyvar_shape_sec; assumption. Qed.

(* row i of dummyvar: exactly one 1 per partition (and nothing else) *)
Theorem dummyvar_row_sum n m cis ix i :
  (forall p, (p < m)%nat -> sorting_perm n (cis p) (ix p)) -> (i < n)%nat ->
  sumQ (fun r => dummyvar n m cis ix i r) (dv_r n m cis) == inject_Z (Z.of_nat m).
Proof.
  intros Hs Hi. assert (Hn : (0 < n)%nat) by lia.
  transitivity (sumQ (fun r => sumQ (fun p => ind (Nat.eqb (dv_col n cis ix (p * n + dv_inv (ix p) n i)) r)) m) (dv_r n m cis)).
  { apply sumQ_ext. intros r Hr. unfold dummyvar. apply dv_entry_rows; assumption. }
  rewrite sumQ_fubini.
  transitivity (sumQ (fun _ => 1) m).
  - apply sumQ_ext. intros p Hp. destruct (Hs p Hp) as (Hin & Hinj & _).
    destruct (dv_inv_spec n (ix p) i Hin Hinj Hi) as [Hk _].
    assert (Hc : (dv_col n cis ix (p * n + dv_inv (ix p) n i) < dv_r n m cis)%nat).
    { rewrite <- (cnt_dv_r n m cis ix Hn Hs). apply colf_lt; [exact (mask_0 n cis ix Hn)|]. nia. }
    rewrite <- (sumQ_ind_collapse (fun _ => 1) _ _ Hc). apply sumQ_ext. intros r _. ring.
  - clear. induction m as [|m IH]; [reflexivity|]. cbn [sumQ]. rewrite IH, Nat2Z.inj_succ. unfold Z.succ.
    rewrite inject_Z_plus. reflexivity.
Qed.

(* ---------- one block: np.dot(ind, ind.T) of ci[:, a:b] ---------- *)
Theorem agree_block_spec n cis ix a b i j :
  (forall p, (a <= p < b)%nat -> sorting_perm n (cis p) (ix p)) -> (i < n)%nat -> (j < n)%nat ->
  agree_block n cis ix a b i j == sumQ (fun p => ind (Z.eqb (cis (a + p)%nat i) (cis (a + p)%nat j))) (b - a).
Proof.
  intros Hs Hi Hj. assert (Hn : (0 < n)%nat) by lia. unfold agree_block. cbv zeta.
  rewrite <- (block_core n (b - a) (fun p => cis (a + p)%nat) (fun p => ix (a + p)%nat) Hn
                ltac:(intros p Hp; apply Hs; lia) i j Hi Hj).
  apply sumQ_ext. intros r Hr. rewrite !tab_spec by assumption. reflexivity.
Qed.

(* ---------- the buffsz chunks ---------- *)
Lemma combine_map2 {A B C} (f : A -> B) (g : A -> C) l : combine (map f l) (map g l) = map (fun x => (f x, g x)) l.
Proof. induction l as [|x l IH]; cbn [map combine]; [reflexivity|]. rewrite IH. reflexivity. Qed.

Lemma combine_app2 {A B} (l1 l2 : list A) (l1' l2' : list B) : length l1 = length l1' ->
  combine (l1 ++ l2) (l1' ++ l2') = combine l1 l1' ++ combine l2 l2'.
Proof.
  revert l1'. induction l1 as [|x l1 IH]; intros [|y l1'] H; cbn [length] in H; try discriminate; [reflexivity|].
  cbn [app combine]. rewrite IH by lia. reflexivity.
Qed.

(* for 1 <= B < m: len(a) != len(b) always holds, m is appended, and the chunks are
   (0,B), (B,2B), ..., ((K-1)B, KB), (KB, m) with K = (m-1)/B and KB < m <= (K+1)B *)
Lemma agree_chunks_tile m B : (1 <= B)%nat -> (B < m)%nat ->
  agree_chunks m B = map (fun t => (t * B, S t * B)%nat) (seq 0 ((m - 1) / B)) ++ [(((m - 1) / B) * B, m)%nat]
  /\ ((m - 1) / B * B < m <= S ((m - 1) / B) * B)%nat.
Proof.
  intros HB Hm. assert (HBz : B <> 0%nat) by lia.
  assert (Eka : ((m - 0 + B - 1) / B = S ((m - 1) / B))%nat).
  { replace (m - 0 + B - 1)%nat with ((m - 1) + 1 * B)%nat by lia. rewrite Nat.div_add by exact HBz. lia. }
  assert (Ekb : ((m - B + B - 1) / B = (m - 1) / B)%nat) by (f_equal; lia).
  split.
  - unfold agree_chunks, arange. cbv zeta. rewrite Eka, Ekb. rewrite !map_length, !seq_length.
    destruct (Nat.eqb_spec (S ((m - 1) / B)) ((m - 1) / B)) as [E|_]; [lia|].
    rewrite seq_S, map_app. rewrite combine_app2 by (rewrite !map_length; reflexivity).
    rewrite combine_map2. cbn [map combine]. reflexivity.
  - pose proof (Nat.div_mod (m - 1) B HBz) as E. pose proof (Nat.mod_upper_bound (m - 1) B HBz) as Hu. nia.
Qed.

Section Chunks.
Variables (n m : nat) (cis : nat -> vec Z) (ix : nat -> vec nat) (i j : nat).
Hypothesis Hsort : forall p, (p < m)%nat -> sorting_perm n (cis p) (ix p).
Hypothesis Hi : (i < n)%nat.
Hypothesis Hj : (j < n)%nat.
Local Notation F := (fun (D : mat Q) (ab : nat * nat) =>
                       let blk := agree_block n cis ix (fst ab) (snd ab) in
                       tab 0 n n (fun i j => D i j + blk i j)).
Local Notation g := (fun p => ind (Z.eqb (cis p i) (cis p j))).

Lemma chunk_step (D : mat Q) a b : (a <= b)%nat -> (b <= m)%nat ->
  F D (a, b) i j == D i j + sumQ (fun p => g (a + p)%nat) (b - a).
Proof.
  intros Hab Hb. cbv zeta. cbn [fst snd]. rewrite tab_spec by assumption.
  rewrite (agree_block_spec n cis ix a b i j ltac:(intros p Hp; apply Hsort; lia) Hi Hj). reflexivity.
Qed.

Lemma fold_uniform_chunks B k : (k * B <= m)%nat ->
  fold_left F (map (fun t => (t * B, S t * B)%nat) (seq 0 k)) (fun _ _ => 0) i j == sumQ g (k * B).
Proof.
  induction k as [|k IH]; intros Hk; [reflexivity|].
  rewrite seq_S, map_app, fold_left_app. cbn [map fold_left]. rewrite Nat.add_0_l.
  rewrite chunk_step by (cbn [Nat.mul] in *; lia). rewrite IH by (cbn [Nat.mul] in Hk; lia).
  replace (S k * B - k * B)%nat with B by (cbn [Nat.mul]; lia).
  replace (S k * B)%nat with (k * B + B)%nat by (cbn [Nat.mul]; lia).
  rewrite sumQ_app. reflexivity.
Qed.

Lemma fold_agree_chunks B : (1 <= B)%nat -> (B < m)%nat ->
  fold_left F (agree_chunks m B) (fun _ _ => 0) i j == sumQ g m.
Proof.
  intros HB Hm. destruct (agree_chunks_tile m B HB Hm) as [E [H1 H2]]. rewrite E.
  rewrite fold_left_app. cbn [fold_left]. rewrite chunk_step by lia. rewrite fold_uniform_chunks by lia.
  replace m with ((m - 1) / B * B + (m - (m - 1) / B * B))%nat at 4 by lia.
  rewrite sumQ_app. reflexivity.
Qed.
End Chunks.

(* ---------- agreement(ci, buffsz) == the semantic agreement ---------- *)
Theorem agreement_stmt_semantic n m cis ix B i j : (1 <= B)%nat ->
  (forall p, (p < m)%nat -> sorting_perm n (cis p) (ix p)) -> (i < n)%nat -> (j < n)%nat ->
  agreement_stmt n m cis ix B i j == agreement n m cis i j.
Proof.
  intros HB Hs Hi Hj. unfold agreement_stmt. cbv zeta.
  destruct (Nat.eqb_spec i j) as [E|Hne].
  - unfold agreement. rewrite (proj2 (Nat.eqb_eq i j) E). reflexivity.
  - rewrite (agreement_counts n m cis i j Hi Hj Hne). destruct (Nat.leb_spec m B) as [Hle|Hgt].
    + rewrite (agree_block_spec n cis ix 0 m i j ltac:(intros p Hp; apply Hs; lia) Hi Hj).
      rewrite Nat.sub_0_r. apply sumQ_ext. intros p _. reflexivity.
    + exact (fold_agree_chunks n m cis ix i j Hs Hi Hj B HB Hgt).
Qed.

(* ---------- non-vacuity: an unstable argsort, three partitions, buffsz 2 (two chunks) ---------- *)
Example agreement_stmt_nonvacuous :
  let cols := [[3; 1; 3; 2]; [7; 7; 7; 7]; [0; 1; 2; 3]]%Z in
  let ixs := [[1; 3; 2; 0]; [3; 1; 2; 0]; [0; 1; 2; 3]]%nat in
  (forall p, (p < 3)%nat -> sorting_perm 4 (of_list 0%Z (nth p cols [])) (of_list 0%nat (nth p ixs []))) /\
  run_agreement_stmt 4 cols ixs 2 = [[0; 1; 2; 1]; [1; 0; 1; 1]; [2; 1; 0; 1]; [1; 1; 1; 0]] /\
  run_agreement 4 cols = [[0; 1; 2; 1]; [1; 0; 1; 1]; [2; 1; 0; 1]; [1; 1; 1; 0]] /\
  snd (run_dummyvar 4 cols ixs) = (8, 9)%nat.
Proof.
  cbv zeta. split; [|split; [|split]]; [|vm_compute; reflexivity..].
  intros p Hp. destruct p as [|[|[|p]]]; [| | |lia]; cbn [nth]; unfold sorting_perm, of_list; (split; [|split]).
  all: try (intros k Hk; destruct k as [|[|[|[|k]]]]; try lia; cbn [nth]; lia).
  all: intros k k' Hk Hk'; destruct k as [|[|[|[|k]]]]; try lia; destruct k' as [|[|[|[|k']]]]; try lia; cbn [nth]; lia.
Qed.
