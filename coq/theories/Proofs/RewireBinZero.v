(* Proofs/RewireBinZero.v — randomizer_bin_und "equals the input when nothing is rewired":
   a run of the whole routine (Model/RewireBin.v) that records no swap returns the binarised input, cell by cell —
   complementing a dense graph and complementing back, masking the fully connected nodes and restoring them, saving
   and restoring the diagonal are the identity together. *)
From Coq Require Import ZArith List Arith Bool Lia QArith.
From BCT Require Import Base.Mat Base.ListX Model.Components Model.Rewire Model.RewireBin
     Proofs.RewireSwap Proofs.RewireBin Proofs.RewireRun Proofs.RewireBinFull.
From BCT Require Proofs.Components.
Import ListNotations.
Open Scope Z_scope.

(* the trace only grows, and the matrix changes only together with it *)
Lemma rbu_loop_trace n k alpha : forall its R i j s tr R4 tr4 s4,
  rbu_loop n k alpha its R i j s tr = Some (R4, tr4, s4) ->
  (length tr <= length tr4)%nat /\ (length tr4 = length tr -> R4 = R).
Proof.
  induction its as [|it rest IH]; intros R i j s tr R4 tr4 s4 H.
  - cbn [rbu_loop] in H. inversion H; subst. split; [lia|reflexivity].
  - apply rbu_loop_cons in H. destruct H as [[s1 H]|(s2 & c & d & i' & j' & _ & _ & H)].
    + exact (IH _ _ _ _ _ _ _ _ H).
    + apply IH in H. destruct H as [L _]. rewrite app_length in L. cbn [length] in L. split; [lia|intros E; lia].
Qed.

Lemma lnot_lnot_01 z : z = 0 \/ z = 1 ->
  (if Z.eqb (if Z.eqb z 0 then 1 else 0) 0 then 1 else 0) = z.
Proof. intros [->| ->]; reflexivity. Qed.

(* masking the full nodes and restoring them gives back the matrix, off the diagonal *)
Lemma unmask_mask n R2 : WM n R2 -> forall x y, (x < n)%nat -> (y < n)%nat -> x <> y ->
  unmask (fullnodes n R2) (mask_full n (fullnodes n R2) R2) x y = R2 x y.
Proof.
  intros HW x y Hx Hy Hne. rewrite unmask_spec, (R3_off n R2 HW x y Hx Hy Hne).
  destruct (nmem x (fullnodes n R2)) eqn:Ex; cbn [orb].
  - apply nmem_In in Ex. destruct (full_adj n R2 HW x y Ex Hy (not_eq_sym Hne)) as [E _]. symmetry; exact E.
  - destruct (nmem y (fullnodes n R2)) eqn:Ey; [|reflexivity].
    apply nmem_In in Ey. destruct (full_adj n R2 HW y x Ey Hx Hne) as [_ E]. symmetry; exact E.
Qed.

Theorem rbu_zero_identity n R0 alpha s out lft :
  randomizer_bin_und n R0 alpha s = RbuOk out [] lft ->
  forall x y, (x < n)%nat -> (y < n)%nat -> out x y = bin01 R0 x y.
Proof.
  intros H x y Hx Hy. rewrite rbu_unfold in H.
  destruct (symmetricb n (bin01 R0)) eqn:Hs; cbn [negb] in H; [|discriminate].
  destruct (Nat.eqb (rbu_k n R0) 0 || Nat.leb (n * n - n - 2) (2 * rbu_k n R0))%bool; [discriminate|].
  destruct (rbu_loop _ _ _ _ _ _ _ _ _) as [[[R4 tr4] s4]|] eqn:HL; [|discriminate].
  inversion H as [[Eo Et El]]; clear H. subst tr4.
  apply rbu_loop_trace in HL. destruct HL as [_ HR]. specialize (HR eq_refl). subst R4.
  destruct (Nat.eqb_spec x y) as [->|Hne]; [reflexivity|].
  pose proof (rbu_R2_WM n R0 Hs) as HW2.
  unfold rbu_R3, rbu_fl.
  assert (E1: rbu_R1 n R0 x y = bin01 R0 x y) by (unfold rbu_R1; apply tab_fill_off; assumption).
  unfold rbu_R2 in *. destruct (rbu_swapped n R0).
  - unfold lnot at 1. rewrite (unmask_mask n _ HW2 x y Hx Hy Hne).
    rewrite tab_fill_off by assumption. unfold lnot. rewrite E1. apply lnot_lnot_01. apply bin01_01.
  - rewrite (unmask_mask n _ HW2 x y Hx Hy Hne). exact E1.
Qed.

(* and such runs exist: alpha = 0 never selects an edge (every float drawn is compared with `> alpha`) — here on the
   6-ring with draws 1/2: six draws are consumed, nothing is recorded, the ring is returned *)
Example rbu_zero_identity_nonvacuous :
  let R0 := of_rows 0 [[0;1;0;0;0;1];[1;0;1;0;0;0];[0;1;0;1;0;0];[0;0;1;0;1;0];[0;0;0;1;0;1];[1;0;0;0;1;0]] in
  exists out, randomizer_bin_und 6 R0 0 (repeat (DFlt (1 # 2)) 6) = RbuOk out [] 0.
Proof. vm_compute. eexists. reflexivity. Qed.
