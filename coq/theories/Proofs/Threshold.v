(* Proofs/Threshold.v — lemmas about Model/Threshold.v *)
From Coq Require Import QArith Qabs Qround List Arith Bool ZArith Lia Lqa Permutation Sorted.
From BCT Require Import Base.Mat Base.ListX Model.Threshold.
Import ListNotations.
Open Scope Q_scope.

(* ---------- booleans on Q ---------- *)
Lemma Qltb_true a b : Qltb a b = true <-> a < b.
Proof. unfold Qltb. rewrite negb_true_iff. split.
  - intros H. apply Qnot_le_lt. intros Hle. apply Qle_bool_iff in Hle. congruence.
  - intros H. destruct (Qle_bool b a) eqn:E; [|reflexivity]. apply Qle_bool_iff in E. lra. Qed.
Lemma Qltb_false a b : Qltb a b = false <-> b <= a.
Proof. unfold Qltb. rewrite negb_false_iff. apply Qle_bool_iff. Qed.
Lemma qnz_true w : qnz w = true <-> ~ w == 0.
Proof. unfold qnz. rewrite negb_true_iff. split.
  - intros H E. apply Qeq_bool_iff in E. congruence.
  - intros H. destruct (Qeq_bool w 0) eqn:E; [|reflexivity]. apply Qeq_bool_iff in E. contradiction. Qed.
Lemma qnz_false w : qnz w = false <-> w == 0.
Proof. unfold qnz. rewrite negb_false_iff. apply Qeq_bool_iff. Qed.
Lemma qnz_ext a b : a == b -> qnz a = qnz b.
Proof. intros H. destruct (qnz b) eqn:E.
  - apply qnz_true. apply qnz_true in E. rewrite H. exact E.
  - apply qnz_false. apply qnz_false in E. rewrite H. exact E. Qed.

(* ---------- cells ---------- *)
Lemma where_nz_In n W i j : In (i, j) (where_nz n W) <-> (i < n /\ j < n)%nat /\ ~ W i j == 0.
Proof. unfold where_nz. rewrite filter_In, cells_In. unfold at_; cbn [fst snd]. rewrite qnz_true. reflexivity. Qed.
Lemma where_nz_NoDup n W : NoDup (where_nz n W).
Proof. apply NoDup_filter. apply cells_NoDup. Qed.

(* ---------- sorting ---------- *)
Definition geW (W : mat Q) (c d : cell) : Prop := at_ W d <= at_ W c.

Lemma insert_desc_perm W c l : Permutation (insert_desc W c l) (c :: l).
Proof. induction l as [|d r IH]; cbn [insert_desc]; [reflexivity|].
  destruct (Qle_bool (at_ W d) (at_ W c)); [reflexivity|].
  rewrite IH. apply perm_swap. Qed.
Lemma sort_desc_perm W l : Permutation (sort_desc W l) l.
Proof. induction l as [|c l IH]; cbn [sort_desc fold_right]; [reflexivity|].
  rewrite insert_desc_perm. constructor. exact IH. Qed.

Lemma insert_desc_sorted W c l : StronglySorted (geW W) l -> StronglySorted (geW W) (insert_desc W c l).
Proof.
  induction l as [|d r IH]; intros Hs; cbn [insert_desc].
  - constructor; constructor.
  - inversion Hs as [|? ? Hr Hd]; subst.
    destruct (Qle_bool (at_ W d) (at_ W c)) eqn:E.
    + apply Qle_bool_iff in E. constructor; [exact Hs|]. constructor; [exact E|].
      rewrite Forall_forall in *. intros x Hx. unfold geW in *. specialize (Hd x Hx). lra.
    + constructor; [apply IH; exact Hr|].
      assert (Hlt: at_ W c <= at_ W d).
      { destruct (Qlt_le_dec (at_ W c) (at_ W d)) as [H|H]; [lra|]. apply Qle_bool_iff in H. congruence. }
      rewrite Forall_forall in *. intros x Hx.
      apply (Permutation_in _ (insert_desc_perm W c r)) in Hx. destruct Hx as [<-|Hx]; [exact Hlt|apply Hd; exact Hx].
Qed.
Lemma sort_desc_sorted W l : StronglySorted (geW W) (sort_desc W l).
Proof. induction l as [|c l IH]; cbn [sort_desc fold_right]; [constructor|]. apply insert_desc_sorted. exact IH. Qed.

(* an admissible result of argsort(...)[::-1]: a permutation of the links in non-increasing order *)
Definition admissible (order : mat Q -> list cell -> list cell) : Prop :=
  forall W l, Permutation (order W l) l /\ StronglySorted (geW W) (order W l).
Lemma sort_desc_admissible : admissible sort_desc.
Proof. intros W l. split; [apply sort_desc_perm|apply sort_desc_sorted]. Qed.

(* ---------- threshold_proportional ---------- *)
Section TP.
Variable order : mat Q -> list cell -> list cell.
Hypothesis Hadm : admissible order.
Variables (n : nat) (W : mat Q) (p : Q) (R : mat Q).
Hypothesis Hrun : tp_with order n W p = Some R.

Let symm := fst (tp_prep n W).
Let W2 := snd (tp_prep n W).
Let ind := where_nz n W2.
Let I := order W2 ind.
Let en := Z.to_nat (tp_en n p symm).
Let kept := firstn en I.
Let dropped := skipn en I.
Let W3 : mat Q := fun i j => if cmem (i, j) dropped then 0 else W2 i j.

Lemma tp_p_range : 0 <= p <= 1.
Proof. unfold tp_with in Hrun. destruct (Qltb 1 p) eqn:E1; cbn [orb] in Hrun; [discriminate|].
  destruct (Qltb p 0) eqn:E2; [discriminate|]. apply Qltb_false in E1. apply Qltb_false in E2. lra. Qed.

Lemma tp_R_eq : R = if symm then (fun i j => W3 i j + W3 j i) else W3.
Proof. unfold tp_with in Hrun. destruct (Qltb 1 p || Qltb p 0)%bool; [discriminate|].
  unfold symm, W3, dropped, I, ind, en, W2, symm. destruct (tp_prep n W) as [s w2]. cbn [fst snd].
  inversion Hrun. reflexivity. Qed.

Lemma I_perm : Permutation I ind. Proof. apply Hadm. Qed.
Lemma I_NoDup : NoDup I.
Proof. apply (Permutation_NoDup (Permutation_sym I_perm)). apply where_nz_NoDup. Qed.
Lemma I_split : I = kept ++ dropped. Proof. unfold kept, dropped. symmetry. apply firstn_skipn. Qed.
Lemma kept_NoDup : NoDup kept.
Proof. pose proof I_NoDup as H. rewrite I_split in H. apply NoDup_app_inv in H. tauto. Qed.
Lemma kept_not_dropped c : In c kept -> ~ In c dropped.
Proof. pose proof I_NoDup as H. rewrite I_split in H. apply NoDup_app_inv in H. destruct H as (_ & _ & H). apply H. Qed.
Lemma ind_cases c : In c ind <-> In c kept \/ In c dropped.
Proof. rewrite <- in_app_iff, <- I_split. split; apply Permutation_in; [apply Permutation_sym|]; apply I_perm. Qed.

Lemma W2_offdiag i : W2 i i == 0.
Proof. unfold W2, tp_prep. destruct (allclose_T n (clear_diag W)); cbn [snd].
  - rewrite Nat.leb_refl. reflexivity.
  - unfold clear_diag. rewrite Nat.eqb_refl. reflexivity. Qed.
Lemma W2_values i j : W2 i j == 0 \/ (i <> j /\ W2 i j = W i j).
Proof. unfold W2, tp_prep. destruct (allclose_T n (clear_diag W)); cbn [snd].
  - destruct (Nat.leb j i) eqn:E; [left; reflexivity|]. apply Nat.leb_gt in E.
    unfold clear_diag. destruct (Nat.eqb_spec i j); [lia|]. right; split; [lia|reflexivity].
  - unfold clear_diag. destruct (Nat.eqb_spec i j); [left; reflexivity|right; split; [assumption|reflexivity]]. Qed.
Lemma W2_upper : symm = true -> forall i j, (j <= i)%nat -> W2 i j == 0.
Proof. unfold symm, W2, tp_prep. destruct (allclose_T n (clear_diag W)); cbn [fst snd]; [|discriminate].
  intros _ i j Hij. apply Nat.leb_le in Hij. rewrite Hij. reflexivity. Qed.

(* support of W3 (inside the grid) = kept *)
Lemma W3_support i j : (i < n)%nat -> (j < n)%nat -> (~ W3 i j == 0 <-> In (i, j) kept).
Proof.
  intros Hi Hj. unfold W3. split.
  - destruct (cmem (i, j) dropped) eqn:E; [intros H; exfalso; apply H; reflexivity|].
    intros Hnz. apply cmem_false in E.
    assert (In (i, j) ind) by (apply where_nz_In; auto).
    apply ind_cases in H. destruct H; [assumption|contradiction].
  - intros Hk. pose proof (kept_not_dropped _ Hk) as Hnd. apply cmem_false in Hnd. rewrite Hnd.
    assert (In (i, j) ind) by (apply ind_cases; left; exact Hk).
    apply where_nz_In in H. tauto.
Qed.
Lemma W3_values i j : W3 i j == 0 \/ (i <> j /\ W3 i j = W i j).
Proof. unfold W3. destruct (cmem (i, j) dropped); [left; reflexivity|apply W2_values]. Qed.
Lemma W3_upper : symm = true -> forall i j, (j <= i)%nat -> W3 i j == 0.
Proof. intros Hs i j Hij. unfold W3. destruct (cmem (i, j) dropped); [reflexivity|apply W2_upper; assumption]. Qed.
Lemma kept_in_grid c : In c kept -> (fst c < n /\ snd c < n)%nat /\ ~ at_ W2 c == 0.
Proof. intros H. assert (In c ind) by (apply ind_cases; left; exact H).
  destruct c as [i j]. apply where_nz_In in H0. exact H0. Qed.
Lemma kept_length : length kept = Nat.min en (length ind).
Proof. unfold kept. rewrite firstn_length. rewrite (Permutation_length I_perm). reflexivity. Qed.

(* --- asymmetric branch --- *)
Lemma tp_support_asym : symm = false -> Permutation (where_nz n R) kept.
Proof.
  intros Hs. apply NoDup_Permutation; [apply where_nz_NoDup|apply kept_NoDup|].
  intros [i j]. rewrite where_nz_In. rewrite tp_R_eq, Hs. split.
  - intros [[Hi Hj] H]. apply W3_support; assumption.
  - intros H. pose proof (kept_in_grid _ H) as [[Hi Hj] _]. cbn [fst snd] in *.
    split; [split; assumption|]. apply W3_support; assumption.
Qed.

(* --- symmetric branch --- *)
Definition swapc (c : cell) : cell := (snd c, fst c).
Lemma R_sym_upper : symm = true -> forall i j, (i < j)%nat -> R i j == W3 i j /\ R j i == W3 i j.
Proof. intros Hs i j Hij. rewrite tp_R_eq, Hs.
  pose proof (W3_upper Hs j i ltac:(lia)) as H. rewrite H. split; ring. Qed.
Lemma R_sym_diag : symm = true -> forall i, R i i == 0.
Proof. intros Hs i. rewrite tp_R_eq, Hs. rewrite (W3_upper Hs i i) by lia. ring. Qed.
Lemma kept_upper : symm = true -> forall i j, In (i, j) kept -> (i < j)%nat.
Proof. intros Hs i j H. destruct (kept_in_grid _ H) as [_ Hnz]. unfold at_ in Hnz; cbn [fst snd] in Hnz.
  destruct (le_lt_dec j i) as [Hle|Hlt]; [|exact Hlt]. exfalso. apply Hnz. apply W2_upper; assumption. Qed.

Lemma tp_support_sym : symm = true -> Permutation (where_nz n R) (kept ++ map swapc kept).
Proof.
  intros Hs. apply NoDup_Permutation; [apply where_nz_NoDup| |].
  - (* NoDup (kept ++ map swapc kept) *)
    assert (Hinj: NoDup (map swapc kept)).
    { apply FinFun.Injective_map_NoDup; [|apply kept_NoDup]. intros [a b] [c d] E. unfold swapc in E; cbn [fst snd] in E. inversion E; reflexivity. }
    apply NoDup_app_intro; [apply kept_NoDup|exact Hinj|].
    intros [i j] Hc Hm. apply in_map_iff in Hm. destruct Hm as [[a b] [E Hab]]. unfold swapc in E; cbn [fst snd] in E. inversion E; subst.
    pose proof (kept_upper Hs _ _ Hc). pose proof (kept_upper Hs _ _ Hab). lia.
  - intros [i j]. rewrite where_nz_In, in_app_iff, in_map_iff. split.
    + intros [[Hi Hj] Hnz].
      destruct (lt_eq_lt_dec i j) as [[Hlt|Heq]|Hgt].
      * left. apply W3_support; auto. destruct (R_sym_upper Hs i j Hlt) as [E _]. rewrite <- E. exact Hnz.
      * subst. exfalso. apply Hnz. apply R_sym_diag; exact Hs.
      * right. exists (j, i). split; [reflexivity|]. apply W3_support; auto.
        destruct (R_sym_upper Hs j i Hgt) as [_ E]. rewrite <- E. exact Hnz.
    + intros [H|[[a b] [E H]]].
      * pose proof (kept_in_grid _ H) as [[Hi Hj] _]. cbn [fst snd] in *. split; [split; assumption|].
        pose proof (kept_upper Hs _ _ H) as Hlt. destruct (R_sym_upper Hs i j Hlt) as [E _]. rewrite E. apply W3_support; assumption.
      * unfold swapc in E; cbn [fst snd] in E. inversion E; subst.
        pose proof (kept_in_grid _ H) as [[Hi Hj] _]. cbn [fst snd] in *. split; [split; assumption|].
        pose proof (kept_upper Hs _ _ H) as Hlt. destruct (R_sym_upper Hs j i Hlt) as [_ E']. rewrite E'. apply W3_support; assumption.
Qed.

Theorem tp_count :
  length (where_nz n R) = ((if symm then 2 else 1) * Nat.min en (length ind))%nat.
Proof.
  destruct (Bool.bool_dec symm true) as [Hs|Hs]; [|apply not_true_is_false in Hs]; rewrite Hs.
  - rewrite (Permutation_length (tp_support_sym Hs)). rewrite app_length, map_length, kept_length. lia.
  - rewrite (Permutation_length (tp_support_asym Hs)). rewrite kept_length. lia.
Qed.

(* every kept link is at least as strong as every dropped link *)
Theorem tp_strongest c d : In c kept -> In d dropped -> at_ W2 d <= at_ W2 c.
Proof. intros Hc Hd. destruct (Hadm W2 ind) as [_ Hs]. fold I in Hs. rewrite I_split in Hs.
  exact (sorted_app_ge _ _ _ Hs c d Hc Hd). Qed.

Theorem tp_values i j : R i j == 0 \/ (i <> j /\ (R i j == W i j \/ (symm = true /\ R i j == W j i))).
Proof.
  rewrite tp_R_eq. destruct (Bool.bool_dec symm true) as [Hs|Hs]; [|apply not_true_is_false in Hs]; rewrite Hs.
  - destruct (lt_eq_lt_dec i j) as [[Hlt|Heq]|Hgt].
    + rewrite (W3_upper Hs j i) by lia. destruct (W3_values i j) as [H|[Hne H]].
      * left. rewrite H. ring.
      * right. split; [exact Hne|]. left. rewrite H. ring.
    + subst. left. rewrite (W3_upper Hs j j) by lia. ring.
    + rewrite (W3_upper Hs i j) by lia. destruct (W3_values j i) as [H|[Hne H]].
      * left. rewrite H. ring.
      * right. split; [lia|]. right. split; [reflexivity|]. rewrite H. ring.
  - destruct (W3_values i j) as [H|[Hne H]]; [left; exact H|right; split; [exact Hne|left; rewrite H; reflexivity]].
Qed.

Theorem tp_diag i : R i i == 0.
Proof. destruct (tp_values i i) as [H|[H _]]; [exact H|congruence]. Qed.

Theorem tp_sym : symm = true -> forall i j, R i j == R j i.
Proof. intros Hs i j. rewrite tp_R_eq, Hs. ring. Qed.
End TP.

(* exactly symmetric input takes the symmetric branch *)
Lemma close_refl a b : a == b -> close a b = true.
Proof. intros H. unfold close. apply Qle_bool_iff.
  assert (E: a - b == 0) by (rewrite H; ring). rewrite E. cbn [Qabs Z.abs Qnum Qden].
  pose proof (Qabs_nonneg b). change (Qabs 0) with 0. nra. Qed.
Lemma exact_sym_branch n W : (forall i j, W i j == W j i) -> fst (tp_prep n W) = true.
Proof. intros H. unfold tp_prep; cbn [fst]. unfold allclose_T. apply forallb_forall. intros [i j] _.
  unfold at_; cbn [fst snd]. apply close_refl. unfold clear_diag. rewrite (Nat.eqb_sym j i).
  destruct (Nat.eqb i j); [reflexivity|apply H]. Qed.

(* ---------- threshold_absolute ---------- *)
Lemma ta_exact W thr i j :
  (threshold_absolute W thr i i == 0) /\
  (i <> j -> thr <= W i j -> threshold_absolute W thr i j == W i j) /\
  (i <> j -> W i j < thr -> threshold_absolute W thr i j == 0).
Proof.
  unfold threshold_absolute, clear_diag. split; [|split].
  - rewrite Nat.eqb_refl. destruct (Qltb 0 thr); reflexivity.
  - intros Hne Hle. destruct (Nat.eqb_spec i j); [contradiction|].
    destruct (Qltb (W i j) thr) eqn:E; [apply Qltb_true in E; lra|reflexivity].
  - intros Hne Hlt. destruct (Nat.eqb_spec i j); [contradiction|].
    destruct (Qltb (W i j) thr) eqn:E; [reflexivity|apply Qltb_false in E; lra].
Qed.

(* ---------- binarize ---------- *)
Lemma binarize_spec W i j :
  (W i j == 0 -> binarize W i j == 0) /\ (~ W i j == 0 -> binarize W i j == 1).
Proof. unfold binarize. split; intros H.
  - apply qnz_false in H. rewrite H. apply qnz_false. exact H.
  - apply qnz_true in H. rewrite H. reflexivity. Qed.

(* ---------- normalize ---------- *)
Lemma Qmaxq_ge_l a b : a <= Qmaxq a b.
Proof. unfold Qmaxq. destruct (Qle_bool a b) eqn:E; [apply Qle_bool_iff in E; exact E|lra]. Qed.
Lemma Qmaxq_ge_r a b : b <= Qmaxq a b.
Proof. unfold Qmaxq. destruct (Qle_bool a b) eqn:E; [lra|].
  destruct (Qlt_le_dec a b) as [H|H]; [|exact H]. assert (a <= b) by lra. apply Qle_bool_iff in H0. congruence. Qed.
Lemma Qmaxq_cases a b : Qmaxq a b = a \/ Qmaxq a b = b.
Proof. unfold Qmaxq. destruct (Qle_bool a b); auto. Qed.

Lemma fold_max_ge (f : cell -> Q) l m0 :
  m0 <= fold_left (fun m c => Qmaxq m (f c)) l m0 /\
  forall c, In c l -> f c <= fold_left (fun m c => Qmaxq m (f c)) l m0.
Proof.
  revert m0. induction l as [|d l IH]; intros m0; cbn [fold_left].
  - split; [lra|intros c []].
  - destruct (IH (Qmaxq m0 (f d))) as [H1 H2]. split.
    + pose proof (Qmaxq_ge_l m0 (f d)). lra.
    + intros c [E|Hc]; [subst c|apply H2; exact Hc]. pose proof (Qmaxq_ge_r m0 (f d)). lra.
Qed.
Lemma fold_max_attained (f : cell -> Q) l m0 :
  fold_left (fun m c => Qmaxq m (f c)) l m0 = m0 \/
  exists c, In c l /\ fold_left (fun m c => Qmaxq m (f c)) l m0 = f c.
Proof.
  revert m0. induction l as [|d l IH]; intros m0; cbn [fold_left]; [left; reflexivity|].
  destruct (IH (Qmaxq m0 (f d))) as [H|[c [Hc H]]].
  - rewrite H. destruct (Qmaxq_cases m0 (f d)) as [E|E]; rewrite E; [left; reflexivity|].
    right. exists d. split; [left; reflexivity|reflexivity].
  - right. exists c. split; [right; exact Hc|exact H].
Qed.

Lemma maxabs_ge n W i j : (i < n)%nat -> (j < n)%nat -> Qabs (W i j) <= maxabs n W.
Proof. intros Hi Hj. unfold maxabs.
  destruct (fold_max_ge (fun c => Qabs (at_ W c)) (cells n) 0) as [_ H].
  apply (H (i, j)). apply cells_In. split; assumption. Qed.
Lemma maxabs_attained n W : maxabs n W = 0 \/ exists i j, (i < n)%nat /\ (j < n)%nat /\ maxabs n W = Qabs (W i j).
Proof. unfold maxabs.
  destruct (fold_max_attained (fun c => Qabs (at_ W c)) (cells n) 0) as [H|[[i j] [Hc H]]]; [left; exact H|].
  right. exists i, j. apply cells_In in Hc. destruct Hc. split; [assumption|]. split; [assumption|exact H]. Qed.

Lemma normalize_spec n W :
  (exists i j, (i < n)%nat /\ (j < n)%nat /\ ~ W i j == 0) ->
  (forall i j, (i < n)%nat -> (j < n)%nat ->
     Qabs (normalize n W i j) <= 1 /\ normalize n W i j * maxabs n W == W i j) /\
  (exists i j, (i < n)%nat /\ (j < n)%nat /\ Qabs (normalize n W i j) == 1).
Proof.
  intros [i0 [j0 [Hi0 [Hj0 Hnz]]]].
  assert (Hpos: 0 < maxabs n W).
  { pose proof (maxabs_ge n W i0 j0 Hi0 Hj0) as H. pose proof (Qabs_nonneg (W i0 j0)) as H0.
    destruct (Qeq_dec (Qabs (W i0 j0)) 0) as [E|E]; [|lra].
    exfalso. apply Hnz. assert (Qabs (W i0 j0) <= 0) by lra. apply Qabs_Qle_condition in H1. lra. }
  split.
  - intros i j Hi Hj. unfold normalize. split.
    + unfold Qdiv. rewrite Qabs_Qmult. rewrite (Qabs_pos (/ maxabs n W)) by (apply Qlt_le_weak, Qinv_lt_0_compat; exact Hpos).
      pose proof (maxabs_ge n W i j Hi Hj) as H. apply Qle_shift_div_r; [exact Hpos|lra].
    + field. lra.
  - destruct (maxabs_attained n W) as [E|[i [j [Hi [Hj E]]]]]; [rewrite E in Hpos; lra|].
    exists i, j. split; [exact Hi|]. split; [exact Hj|]. unfold normalize, Qdiv. rewrite Qabs_Qmult.
    rewrite (Qabs_pos (/ maxabs n W)) by (apply Qlt_le_weak, Qinv_lt_0_compat; exact Hpos).
    rewrite <- E. field. lra.
Qed.

(* ---------- invert ---------- *)
Lemma invert_spec W i j :
  (W i j == 0 -> invert W i j == 0) /\ (~ W i j == 0 -> invert W i j == 1 / W i j).
Proof. unfold invert. split; intros H.
  - apply qnz_false in H. rewrite H. apply qnz_false. exact H.
  - apply qnz_true in H. rewrite H. reflexivity. Qed.
Lemma invert_involutive W i j : invert (invert W) i j == W i j.
Proof.
  unfold invert at 1. destruct (Qeq_dec (W i j) 0) as [E|E].
  - destruct (invert_spec W i j) as [H _]. specialize (H E). rewrite (qnz_ext _ _ H).
    change (qnz 0) with false. cbv iota. rewrite H, E. reflexivity.
  - destruct (invert_spec W i j) as [_ H]. specialize (H E).
    assert (Hn: ~ invert W i j == 0).
    { rewrite H. intros E0. apply E. assert (W i j * (1 / W i j) == 1) by (field; exact E). rewrite E0 in H0. lra. }
    apply qnz_true in Hn. rewrite Hn. rewrite H. field. exact E.
Qed.

(* ---------- the copy flag ---------- *)
Lemma copy_flag f W :
  (let '(arg_after, res, same) := with_copy true f W in arg_after = W /\ res = f W /\ same = false) /\
  (let '(arg_after, res, same) := with_copy false f W in arg_after = f W /\ res = f W /\ same = true).
Proof. cbn. repeat split. Qed.

(* ---------- teachers_round ---------- *)
Lemma Qfloor_unique z x : inject_Z z <= x -> x < inject_Z (z + 1) -> Qfloor x = z.
Proof.
  intros H1 H2.
  assert (A: (z <= Qfloor x)%Z). { rewrite <- (Qfloor_Z z). apply Qfloor_resp_le. exact H1. }
  assert (B: (Qfloor x < z + 1)%Z).
  { rewrite Zlt_Qlt. pose proof (Qfloor_le x). lra. }
  lia.
Qed.

Lemma teachers_round_half_up x : 0 < x -> teachers_round x = Qfloor (x + (1 # 2)).
Proof.
  intros Hx. unfold teachers_round.
  assert (Hneg: Qltb x 0 = false) by (apply Qltb_false; lra).
  assert (Hpos: Qltb 0 x = true) by (apply Qltb_true; exact Hx).
  rewrite Hneg, Hpos. cbn [andb orb]. rewrite orb_false_r.
  pose proof (Qfloor_le x) as Hf1. pose proof (Qlt_floor x) as Hf2.
  assert (Hinj: inject_Z (Qfloor x + 1) == inject_Z (Qfloor x) + 1) by (rewrite inject_Z_plus; reflexivity).
  unfold frac. destruct (Qle_bool (1 # 2) (x - inject_Z (Qfloor x))) eqn:E.
  - apply Qle_bool_iff in E. symmetry.
    assert (Hc: Qceiling x = (Qfloor x + 1)%Z).
    { unfold Qceiling. assert (Qfloor (- x) = (- Qfloor x - 1)%Z); [|lia].
      apply Qfloor_unique.
      - replace (- Qfloor x - 1)%Z with (- (Qfloor x + 1))%Z by lia. rewrite inject_Z_opp. lra.
      - replace (- Qfloor x - 1 + 1)%Z with (- Qfloor x)%Z by lia. rewrite inject_Z_opp. lra. }
    rewrite Hc. apply Qfloor_unique.
    + lra.
    + replace (Qfloor x + 1 + 1)%Z with ((Qfloor x + 1) + 1)%Z by lia. rewrite inject_Z_plus. change (inject_Z 1) with 1. lra.
  - symmetry. apply Qfloor_unique.
    + lra.
    + assert (x - inject_Z (Qfloor x) < 1 # 2).
      { destruct (Qlt_le_dec (x - inject_Z (Qfloor x)) (1 # 2)) as [H|H]; [exact H|]. apply Qle_bool_iff in H. congruence. }
      lra.
Qed.
