(* Proofs/BetweenAccum.v — the dependency accumulation of the Brandes-style routines.
   (a) the node routine's accumulation is the edge routine's with EBC dropped (shared structure);
   (b) brandes_accumulation: over ANY predecessor relation P with path counts NP and DAG path counts c
       satisfying the first-edge decomposition, processing the queue in an order in which every successor
       precedes its predecessors adds to BC[w] exactly the pair-sum  delta(w) = sum_t sigma_w c(w,t)/sigma_t
       and to EBC[v,w] exactly  sum_t sigma_v [P w v] c(w,t) / sigma_t. *)
From Coq Require Import QArith Qring Qfield Lia Lqa List Arith Bool ZArith.
From BCT Require Import Base.Mat Base.SumQ Base.ListX Model.Between.
Import ListNotations.
Open Scope Q_scope.

(* ---------------------------------------------------------------------------------------- *)
(* (a) simulation                                                                            *)
(* ---------------------------------------------------------------------------------------- *)
Lemma dpvw_ext NP (DP DP' : vec Q) v w : DP w = DP' w -> dpvw NP DP v w = dpvw NP DP' v w.
Proof. unfold dpvw. intros ->. reflexivity. Qed.

Lemma acc_inner_sim NP w l : forall (st : vec Q * mat Q) (DP' : vec Q), (forall i, fst st i = DP' i) ->
  forall i, fst (fold_left (acc_e_inner NP w) l st) i = fold_left (acc_n_inner NP w) l DP' i.
Proof.
  induction l as [|a l IH]; intros st DP' H i; cbn [fold_left].
  - apply H.
  - apply IH. intros j. unfold acc_e_inner, acc_n_inner, vupd. cbn [fst].
    rewrite (dpvw_ext NP (fst st) DP' a w (H w)), (H a), (H j). reflexivity.
Qed.

Lemma acc_step_sim n P NP w (st : vec Q * mat Q * vec Q) (st' : vec Q * vec Q) :
  (forall i, fst (fst st) i = fst st' i) -> (forall i, snd st i = snd st' i) ->
  (forall i, fst (fst (acc_e_step n P NP st w)) i = fst (acc_n_step n P NP st' w) i) /\ (forall i, snd (acc_e_step n P NP st w) i = snd (acc_n_step n P NP st' w) i).
Proof.
  intros HB HD. unfold acc_e_step, acc_n_step. cbn [fst snd]. split.
  - intros i. unfold vupd. rewrite (HB w), (HD w), (HB i). reflexivity.
  - intros i. apply acc_inner_sim. cbn [fst]. exact HD.
Qed.

Lemma acc_fold_sim n P NP l : forall (st : vec Q * mat Q * vec Q) (st' : vec Q * vec Q),
  (forall i, fst (fst st) i = fst st' i) -> (forall i, snd st i = snd st' i) ->
  forall i, fst (fst (fold_left (acc_e_step n P NP) l st)) i = fst (fold_left (acc_n_step n P NP) l st') i.
Proof.
  induction l as [|w l IH]; intros st st' HB HD i; cbn [fold_left].
  - apply HB.
  - destruct (acc_step_sim n P NP w st st' HB HD) as [H1 H2]. apply IH; assumption.
Qed.

Lemma accum_sim n st (BC : vec Q) (EBC : mat Q) (BC' : vec Q) : (forall i, BC i = BC' i) ->
  forall i, fst (accum_e n st BC EBC) i = accum_n n st BC' i.
Proof.
  intros HB i. unfold accum_e, accum_n. cbn [fst]. unfold tabv, of_list, to_list.
  f_equal. apply map_ext. intros a. apply acc_fold_sim.
  - cbn [fst]. exact HB.
  - cbn [snd]. reflexivity.
Qed.

(* the node vector of sources_e is the vector of sources_n, for ANY per-source search *)
Lemma sources_sim_gen n (src : nat -> option sst) l : forall (a : option (vec Q * mat Q)) (b : option (vec Q)),
  match a, b with
  | Some (BC, _), Some BC' => forall i, BC i = BC' i
  | None, None => True
  | _, _ => False
  end ->
  match fold_left (fun acc u =>
          match acc with
          | None => None
          | Some (BC, EBC) => match src u with None => None | Some st => Some (accum_e n st BC EBC) end
          end) l a,
        fold_left (fun acc u =>
          match acc with
          | None => None
          | Some BC => match src u with None => None | Some st => Some (accum_n n st BC) end
          end) l b with
  | Some (BC, _), Some BC' => forall i, BC i = BC' i
  | None, None => True
  | _, _ => False
  end.
Proof.
  induction l as [|u l IH]; intros a b H; cbn [fold_left]; [exact H|].
  apply IH. destruct a as [[BC EBC]|], b as [BC'|]; try contradiction; try exact I.
  destruct (src u) as [st|]; [|exact I].
  pose proof (accum_sim n st BC EBC BC' H) as Hs.
  destruct (accum_e n st BC EBC) as [B1 E1]. cbn [fst] in Hs. exact Hs.
Qed.

Theorem sources_sim n (src : nat -> option sst) :
  match sources_e n src, sources_n n src with
  | Some (BC, _), Some BC' => forall i, BC i = BC' i
  | None, None => True
  | _, _ => False
  end.
Proof. unfold sources_e, sources_n. apply sources_sim_gen. intros i. reflexivity. Qed.

(* edge_betweenness_wei's node vector IS betweenness_wei's result (and both fail together) *)
Theorem ebc_node_vector_eq_bc_wei n G :
  match edge_betweenness_wei n G, betweenness_wei n G with
  | Some (_, BC), Some BC' => forall i, BC i = BC' i
  | None, None => True
  | _, _ => False
  end.
Proof.
  unfold edge_betweenness_wei, betweenness_wei.
  pose proof (sources_sim n (source_w n G)) as H.
  destruct (sources_e n (source_w n G)) as [[BC EBC]|]; destruct (sources_n n (source_w n G)); exact H.
Qed.

(* ---------------------------------------------------------------------------------------- *)
(* (b) the accumulation computes the pair sums                                               *)
(* ---------------------------------------------------------------------------------------- *)
Section Brandes.
Variable n : nat.
Variable P : mat bool.            (* P w v: v is a predecessor of w on a shortest path from the source *)
Variable NP : vec Z.              (* sigma_s(.) *)
Variable c : nat -> nat -> Q.     (* c v t: number of shortest-path-DAG paths from v to t *)

Let sg (v : nat) : Q := zq (NP v).
(* pair-sum definitions: sum over targets t of sigma_st(v)/sigma_st with sigma_st(v) = sigma_sv * c v t,
   and of sigma_st(v->w)/sigma_st with sigma_st(v->w) = sigma_sv * c w t for a DAG connection v->w *)
Definition delta (v : nat) : Q := sumQ (fun t => if Nat.eqb t v then 0 else sg v * c v t / sg t) n.
Definition delta_edge (v w : nat) : Q := sumQ (fun t => ind (P w v) * (sg v * c w t / sg t)) n.

Hypothesis Hc_refl : forall v, (v < n)%nat -> c v v == 1.
Hypothesis Hc_step : forall v t, (v < n)%nat -> (t < n)%nat -> v <> t ->
  c v t == sumQ (fun w => ind (P w v) * c w t) n.
Hypothesis Hacyc : forall w v, (w < n)%nat -> (v < n)%nat -> P w v = true -> c w v == 0.
Hypothesis Hpos : forall w v, (w < n)%nat -> (v < n)%nat -> P w v = true -> (0 < NP w)%Z.

Lemma sg_nz w v : (w < n)%nat -> (v < n)%nat -> P w v = true -> ~ sg w == 0.
Proof.
  intros Hw Hv Hp. pose proof (Hpos w v Hw Hv Hp) as H. unfold sg, zq.
  intros E. assert (inject_Z 0 < inject_Z (NP w)) by (rewrite <- Zlt_Qlt; exact H).
  change (inject_Z 0) with 0 in H0. lra.
Qed.

Lemma P_irrefl w : (w < n)%nat -> P w w = false.
Proof.
  intros Hw. destruct (P w w) eqn:E; [|reflexivity].
  pose proof (Hacyc w w Hw Hw E) as H0. pose proof (Hc_refl w Hw) as H1. rewrite H0 in H1. lra.
Qed.

(* sum over all targets of c w t / sigma_t, for a node w that has a predecessor *)
Lemma all_targets w v : (w < n)%nat -> (v < n)%nat -> P w v = true ->
  sumQ (fun t => c w t / sg t) n == (1 + delta w) / sg w.
Proof.
  intros Hw Hv Hp. pose proof (sg_nz w v Hw Hv Hp) as Hnz.
  rewrite (sumQ_split _ n w Hw). rewrite (Hc_refl w Hw).
  unfold delta.
  assert (E : sumQ (fun t => if Nat.eqb t w then 0 else sg w * c w t / sg t) n
              == sg w * sumQ (fun i => if Nat.eqb i w then 0 else c w i / sg i) n).
  { rewrite <- sumQ_scal. apply sumQ_ext. intros t Ht. destruct (Nat.eqb t w); [ring|].
    unfold Qdiv. ring. }
  rewrite E. field. exact Hnz.
Qed.

(* the dependency recursion of Brandes *)
Lemma delta_rec v : (v < n)%nat ->
  delta v == sumQ (fun w => ind (P w v) * (sg v / sg w * (1 + delta w))) n.
Proof.
  intros Hv. unfold delta at 1.
  (* expand c v t by its first connection *)
  rewrite (sumQ_ext _ (fun t => sumQ (fun w => ind (P w v) * (sg v * (if Nat.eqb t v then 0 else c w t / sg t))) n)).
  2:{ intros t Ht. destruct (Nat.eqb_spec t v) as [->|Hne].
      - rewrite sumQ_zero'; [reflexivity|]. intros; ring.
      - rewrite (Hc_step v t Hv Ht (not_eq_sym Hne)).
        unfold Qdiv. rewrite Qmult_comm, Qmult_assoc. rewrite <- sumQ_scal.
        apply sumQ_ext. intros w Hw. ring. }
  rewrite sumQ_fubini. apply sumQ_ext. intros w Hw.
  destruct (P w v) eqn:Hp; cbn [ind].
  - rewrite (sumQ_ext _ (fun t => sg v * (c w t / sg t))).
    2:{ intros t Ht. destruct (Nat.eqb_spec t v) as [->|Hne]; [|ring].
        rewrite (Hacyc w v Hw Hv Hp). unfold Qdiv. ring. }
    rewrite sumQ_scal. rewrite (all_targets w v Hw Hv Hp).
    pose proof (sg_nz w v Hw Hv Hp). field. assumption.
  - rewrite sumQ_zero'; [ring|]. intros; ring.
Qed.

Lemma delta_edge_eq v w : (v < n)%nat -> (w < n)%nat ->
  delta_edge v w == ind (P w v) * (sg v / sg w * (1 + delta w)).
Proof.
  intros Hv Hw. unfold delta_edge. destruct (P w v) eqn:Hp; cbn [ind].
  - rewrite (sumQ_ext _ (fun t => sg v * (c w t / sg t))).
    2:{ intros t Ht. unfold Qdiv. ring. }
    rewrite sumQ_scal, (all_targets w v Hw Hv Hp). pose proof (sg_nz w v Hw Hv Hp). field. assumption.
  - rewrite sumQ_zero'; [ring|]. intros; ring.
Qed.

(* ---------- the inner loop: for v in where(P[w,:]) ---------- *)
Lemma inner_spec w l : forall (DP : vec Q) (EBC : mat Q), NoDup l -> ~ In w l ->
  (forall v, fst (fold_left (acc_e_inner NP w) l (DP, EBC)) v
             == DP v + (if nmem v l then dpvw NP DP v w else 0)) /\
  (forall v x, snd (fold_left (acc_e_inner NP w) l (DP, EBC)) v x
               == EBC v x + (if (nmem v l && Nat.eqb x w)%bool then dpvw NP DP v w else 0)).
Proof.
  induction l as [|a l IH]; intros DP EBC Hnd Hw; cbn [fold_left].
  - cbn [fst snd nmem existsb andb]. split; intros; ring.
  - inversion Hnd as [|? ? Ha Hl]; subst.
    assert (Haw : a <> w) by (intros ->; apply Hw; left; reflexivity).
    assert (Hw' : ~ In w l) by (intros H; apply Hw; right; exact H).
    unfold acc_e_inner at 2 4. cbn [fst snd].
    set (DP1 := vupd DP a (Qred (DP a + dpvw NP DP a w))).
    set (EBC1 := upd EBC a w (Qred (EBC a w + dpvw NP DP a w))).
    destruct (IH DP1 EBC1 Hl Hw') as [H1 H2].
    assert (Ew : DP1 w = DP w) by (unfold DP1; apply vupd_other; auto).
    assert (Ed : forall v, dpvw NP DP1 v w = dpvw NP DP v w) by (intros v; apply dpvw_ext; exact Ew).
    split.
    + intros v. rewrite H1, Ed. cbn [nmem existsb].
      destruct (Nat.eqb_spec v a) as [->|Hva]; cbn [orb].
      * replace (existsb (Nat.eqb a) l) with (nmem a l) by reflexivity.
        assert (nmem a l = false) as -> by (apply nmem_false; exact Ha).
        unfold DP1. rewrite vupd_same, Qred_correct. ring.
      * unfold DP1. rewrite vupd_other by exact Hva. reflexivity.
    + intros v x. rewrite H2, Ed. cbn [nmem existsb].
      destruct (Nat.eqb_spec v a) as [->|Hva]; cbn [orb andb].
      * replace (existsb (Nat.eqb a) l) with (nmem a l) by reflexivity.
        assert (nmem a l = false) as -> by (apply nmem_false; exact Ha). cbn [andb].
        destruct (Nat.eqb_spec x w) as [->|Hxw].
        -- unfold EBC1. rewrite upd_same, Qred_correct. ring.
        -- unfold EBC1. rewrite upd_other by (right; exact Hxw). ring.
      * unfold EBC1. rewrite upd_other by (left; exact Hva). reflexivity.
Qed.

Lemma wherev_In m f x : In x (wherev m f) <-> (x < m)%nat /\ f x = true.
Proof. unfold wherev. rewrite filter_In, in_seq. split; intros [H1 H2]; split; auto; lia. Qed.
Lemma wherev_NoDup m f : NoDup (wherev m f).
Proof. unfold wherev. apply NoDup_filter, seq_NoDup. Qed.
Lemma nmem_wherev m f x : nmem x (wherev m f) = ((x <? m)%nat && f x)%bool.
Proof.
  destruct (nmem x (wherev m f)) eqn:E.
  - apply nmem_In, wherev_In in E. destruct E as [H1 H2]. apply Nat.ltb_lt in H1. rewrite H1, H2. reflexivity.
  - apply nmem_false in E. rewrite wherev_In in E.
    destruct (Nat.ltb_spec x m); cbn [andb]; [|reflexivity].
    destruct (f x); [|reflexivity]. exfalso. apply E. auto.
Qed.

(* ---------- the outer loop ---------- *)
(* contribution of the processed nodes [l] *)
Definition contrib (l : list nat) (v w : nat) : Q :=
  if nmem w l then ind (P w v) * (sg v / sg w * (1 + delta w)) else 0.

Definition acc_inv (BC0 : vec Q) (EBC0 : mat Q) (l : list nat) (st : vec Q * mat Q * vec Q) : Prop :=
  (forall v, (v < n)%nat -> snd st v == sumQ (fun w => contrib l v w) n) /\
  (forall w, (w < n)%nat -> fst (fst st) w == BC0 w + (if nmem w l then delta w else 0)) /\
  (forall v w, (v < n)%nat -> (w < n)%nat -> snd (fst st) v w == EBC0 v w + contrib l v w).

Lemma acc_inv_init BC0 EBC0 : acc_inv BC0 EBC0 [] (BC0, EBC0, zeroQ).
Proof.
  unfold acc_inv, contrib, zeroQ. cbn [nmem existsb fst snd]. split; [|split].
  - intros v _. rewrite sumQ_zero. reflexivity.
  - intros; ring.
  - intros; ring.
Qed.

Lemma nmem_app x l1 l2 : nmem x (l1 ++ l2) = (nmem x l1 || nmem x l2)%bool.
Proof. unfold nmem. apply existsb_app. Qed.

Lemma acc_inv_step BC0 EBC0 l w st : (w < n)%nat -> ~ In w l ->
  (forall x, (x < n)%nat -> P x w = true -> In x l) ->
  acc_inv BC0 EBC0 l st -> acc_inv BC0 EBC0 (l ++ [w]) (acc_e_step n P NP st w).
Proof.
  intros Hw Hnew Hsucc. destruct st as [[BC EBC] DP]. intros (HDP & HBC & HEBC). cbn [fst snd] in HDP, HBC, HEBC.
  (* DP[w] is final *)
  assert (HDw : DP w == delta w).
  { rewrite (HDP w Hw), (delta_rec w Hw). apply sumQ_ext. intros x Hx. unfold contrib.
    destruct (P x w) eqn:Hp; cbn [ind].
    - assert (nmem x l = true) as -> by (apply nmem_In; apply Hsucc; assumption). reflexivity.
    - destruct (nmem x l); ring. }
  assert (Hww : ~ In w (wherev n (P w))).
  { rewrite wherev_In. intros [_ H]. rewrite (P_irrefl w Hw) in H. discriminate. }
  pose proof (inner_spec w (wherev n (P w)) DP EBC (wherev_NoDup n (P w)) Hww) as [H1 H2].
  assert (Hx : forall v, (v < n)%nat -> P w v = true -> dpvw NP DP v w == sg v / sg w * (1 + delta w)).
  { intros v Hv Hp. unfold dpvw. rewrite HDw. fold (sg v) (sg w).
    pose proof (sg_nz w v Hw Hv Hp). field. assumption. }
  assert (Hc : forall v, (v < n)%nat -> contrib (l ++ [w]) v w == ind (P w v) * (sg v / sg w * (1 + delta w))).
  { intros v Hv. unfold contrib. rewrite nmem_app. cbn [nmem existsb]. rewrite Nat.eqb_refl. cbn [orb]. rewrite orb_true_r.
    reflexivity. }
  assert (Hc' : forall v x, x <> w -> contrib (l ++ [w]) v x = contrib l v x).
  { intros v x Hxw. unfold contrib. rewrite nmem_app. cbn [nmem existsb].
    destruct (Nat.eqb_spec x w); [contradiction|]. rewrite !orb_false_r. reflexivity. }
  assert (Hcl : forall v, contrib l v w = 0).
  { intros v. unfold contrib. assert (nmem w l = false) as -> by (apply nmem_false; exact Hnew). reflexivity. }
  unfold acc_inv, acc_e_step. cbn [fst snd]. split; [|split].
  - intros v Hv. rewrite H1, (HDP v Hv), nmem_wherev.
    assert ((v <? n)%nat = true) as -> by (apply Nat.ltb_lt; exact Hv). cbn [andb].
    rewrite (sumQ_split (fun x => contrib (l ++ [w]) v x) n w Hw).
    rewrite (sumQ_split (fun x => contrib l v x) n w Hw).
    rewrite (Hc v Hv), Hcl.
    rewrite (sumQ_ext (fun i => if Nat.eqb i w then 0 else contrib (l ++ [w]) v i)
                      (fun i => if Nat.eqb i w then 0 else contrib l v i)).
    2:{ intros i _. destruct (Nat.eqb_spec i w); [reflexivity|]. rewrite Hc' by assumption. reflexivity. }
    destruct (P w v) eqn:Hp; cbn [ind]; [rewrite (Hx v Hv Hp)|]; ring.
  - intros x Hxn. rewrite nmem_app. cbn [nmem existsb]. rewrite orb_false_r.
    destruct (Nat.eqb_spec x w) as [->|Hxw].
    + rewrite vupd_same, Qred_correct, (HBC w Hw), HDw.
      assert (nmem w l = false) as -> by (apply nmem_false; exact Hnew). cbn [orb]. ring.
    + rewrite vupd_other by exact Hxw. rewrite (HBC x Hxn), orb_false_r. reflexivity.
  - intros v x Hv Hxn. rewrite H2, (HEBC v x Hv Hxn), nmem_wherev.
    assert ((v <? n)%nat = true) as -> by (apply Nat.ltb_lt; exact Hv). cbn [andb].
    destruct (Nat.eqb_spec x w) as [->|Hxw].
    + rewrite (Hc v Hv), Hcl. destruct (P w v) eqn:Hp; cbn [ind andb]; [rewrite (Hx v Hv Hp)|]; ring.
    + rewrite andb_false_r, (Hc' v x Hxw). ring.
Qed.

(* [order]: every successor of a node is processed before the node itself *)
Definition succ_first (order : list nat) : Prop :=
  forall l1 w l2, order = l1 ++ w :: l2 -> forall x, (x < n)%nat -> P x w = true -> In x l1.

Lemma acc_inv_fold BC0 EBC0 l2 : forall l1 st,
  NoDup (l1 ++ l2) -> (forall x, In x l2 -> (x < n)%nat) -> succ_first (l1 ++ l2) ->
  acc_inv BC0 EBC0 l1 st -> acc_inv BC0 EBC0 (l1 ++ l2) (fold_left (acc_e_step n P NP) l2 st).
Proof.
  induction l2 as [|w l2 IH]; intros l1 st Hnd Hlt Hsf Hinv; cbn [fold_left].
  - rewrite app_nil_r. exact Hinv.
  - replace (l1 ++ w :: l2) with ((l1 ++ [w]) ++ l2) by (rewrite <- app_assoc; reflexivity).
    apply IH.
    + rewrite <- app_assoc. exact Hnd.
    + intros x Hx. apply Hlt. right; exact Hx.
    + rewrite <- app_assoc. exact Hsf.
    + apply acc_inv_step.
      * apply Hlt. left; reflexivity.
      * apply NoDup_remove_2 in Hnd. intros H. apply Hnd. apply in_app_iff. left; exact H.
      * intros x Hx Hp. exact (Hsf l1 w l2 eq_refl x Hx Hp).
      * exact Hinv.
Qed.

(* brandes_accumulation: one source's pass over the queue adds the pair sums *)
Theorem brandes_accumulation (order : list nat) (BC0 : vec Q) (EBC0 : mat Q) :
  NoDup order -> (forall x, In x order -> (x < n)%nat) -> succ_first order ->
  let r := fold_left (acc_e_step n P NP) order (BC0, EBC0, zeroQ) in
  (forall w, (w < n)%nat -> fst (fst r) w == BC0 w + (if nmem w order then delta w else 0)) /\
  (forall v w, (v < n)%nat -> (w < n)%nat ->
     snd (fst r) v w == EBC0 v w + (if nmem w order then delta_edge v w else 0)).
Proof.
  intros Hnd Hlt Hsf. cbn zeta.
  pose proof (acc_inv_fold BC0 EBC0 order [] (BC0, EBC0, zeroQ) Hnd Hlt Hsf (acc_inv_init BC0 EBC0)) as H.
  cbn [app] in H. destruct H as (_ & HB & HE). split; [exact HB|].
  intros v w Hv Hw. rewrite (HE v w Hv Hw). unfold contrib.
  destruct (nmem w order); [|reflexivity]. rewrite (delta_edge_eq v w Hv Hw). reflexivity.
Qed.

(* the same for the node routine (by the simulation) *)
Theorem brandes_accumulation_node (order : list nat) (BC0 : vec Q) :
  NoDup order -> (forall x, In x order -> (x < n)%nat) -> succ_first order ->
  forall w, (w < n)%nat ->
  fst (fold_left (acc_n_step n P NP) order (BC0, zeroQ)) w
    == BC0 w + (if nmem w order then delta w else 0).
Proof.
  intros Hnd Hlt Hsf w Hw.
  pose proof (brandes_accumulation order BC0 (fun _ _ => 0) Hnd Hlt Hsf) as [H _].
  rewrite <- (acc_fold_sim n P NP order (BC0, (fun _ _ => 0), zeroQ) (BC0, zeroQ)
                (fun _ => eq_refl) (fun _ => eq_refl) w).
  apply H. exact Hw.
Qed.
End Brandes.

(* ---------------------------------------------------------------------------------------- *)
(* (c) the DAG path counts exist: for any predecessor relation that strictly increases a potential *)
(* ---------------------------------------------------------------------------------------- *)
Section DagCount.
Variable n : nat.
Variable P : mat bool.
Variable pot : nat -> Z.
Hypothesis Hpot : forall w v, (w < n)%nat -> (v < n)%nat -> P w v = true -> (pot v < pot w)%Z.

(* number of P-paths v -> ... -> t with at most k connections *)
Fixpoint cnt (k : nat) (v t : nat) : Q :=
  if Nat.eqb v t then 1 else
  match k with O => 0 | S k' => sumQ (fun w => ind (P w v) * cnt k' w t) n end.

Lemma cnt_zero k : forall v t, (v < n)%nat -> v <> t -> (pot t <= pot v)%Z -> cnt k v t == 0.
Proof.
  induction k as [|k IH]; intros v t Hv Hne Hle; cbn [cnt]; destruct (Nat.eqb_spec v t); try contradiction; [reflexivity|].
  apply sumQ_zero'. intros w Hw. destruct (P w v) eqn:Hp; cbn [ind]; [|ring].
  pose proof (Hpot w v Hw Hv Hp). rewrite IH; [ring|exact Hw| |lia]. intros ->. lia.
Qed.

Lemma cnt_stable k : forall v t, (v < n)%nat -> (pot t - pot v <= Z.of_nat k)%Z -> cnt k v t == cnt (S k) v t.
Proof.
  induction k as [|k IH]; intros v t Hv Hb.
  - cbn [cnt]. destruct (Nat.eqb_spec v t) as [->|Hne]; [reflexivity|].
    symmetry. apply sumQ_zero'. intros w Hw. destruct (P w v) eqn:Hp; cbn [ind]; [|ring].
    pose proof (Hpot w v Hw Hv Hp). destruct (Nat.eqb_spec w t) as [->|Hne']; [lia|ring].
  - change (cnt (S k) v t) with (if Nat.eqb v t then 1 else sumQ (fun w => ind (P w v) * cnt k w t) n).
    change (cnt (S (S k)) v t) with (if Nat.eqb v t then 1 else sumQ (fun w => ind (P w v) * cnt (S k) w t) n).
    destruct (Nat.eqb v t); [reflexivity|]. apply sumQ_ext. intros w Hw.
    destruct (P w v) eqn:Hp; cbn [ind]; [|ring]. pose proof (Hpot w v Hw Hv Hp).
    rewrite (IH w t Hw) by lia. reflexivity.
Qed.

Lemma cnt_stable_ge k k' v t : (v < n)%nat -> (pot t - pot v <= Z.of_nat k)%Z -> (k <= k')%nat ->
  cnt k v t == cnt k' v t.
Proof.
  intros Hv Hb Hle. induction Hle as [|m Hle IH]; [reflexivity|].
  rewrite IH. apply cnt_stable; [exact Hv|lia].
Qed.

Definition dag_count (v t : nat) : Q := cnt (Z.to_nat (pot t - pot v)) v t.

Lemma dag_count_refl v : dag_count v v == 1.
Proof. unfold dag_count. destruct (Z.to_nat (pot v - pot v)); cbn [cnt]; rewrite Nat.eqb_refl; reflexivity. Qed.

Lemma dag_count_step v t : (v < n)%nat -> (t < n)%nat -> v <> t ->
  dag_count v t == sumQ (fun w => ind (P w v) * dag_count w t) n.
Proof.
  intros Hv Ht Hne. unfold dag_count. set (k := Z.to_nat (pot t - pot v)).
  rewrite (cnt_stable k v t Hv) by (unfold k; lia).
  cbn [cnt]. destruct (Nat.eqb_spec v t); [contradiction|].
  apply sumQ_ext. intros w Hw. destruct (P w v) eqn:Hp; cbn [ind]; [|ring].
  pose proof (Hpot w v Hw Hv Hp).
  rewrite (cnt_stable_ge (Z.to_nat (pot t - pot w)) k w t Hw); [reflexivity|lia|unfold k; lia].
Qed.

Lemma dag_count_acyc w v : (w < n)%nat -> (v < n)%nat -> P w v = true -> dag_count w v == 0.
Proof.
  intros Hw Hv Hp. pose proof (Hpot w v Hw Hv Hp). unfold dag_count. apply cnt_zero; [exact Hw| |lia].
  intros ->. lia.
Qed.
End DagCount.
