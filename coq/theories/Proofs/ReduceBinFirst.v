(* Proofs/ReduceBinFirst.v — C10, "routines documented to ignore weights": why `the first statement that reads
   the argument rebinds it to binarize(argument)` is ALL that has to be known about the source.
   harness/c10.py checks that fact on the AST of /repo at every run (fail-closed, obligations
   `<routine>:binarizes_first`): findwalks, reachdist, distance_bin, efficiency_bin, jdegree, degrees_und,
   degrees_dir (and findpaths) have the shape  f(P) = g(binarize(P))  — after the rebinding no statement can
   see the raw weights.  For EVERY g that reads its matrix only inside the n x n grid, f(binarize A) = f(A):
   binarize is idempotent.  (Integer carrier [bin] for the models of Model/Distance.v / Model/Walks.v, rational
   carrier [binarize] of Model/Threshold.v for those of Model/Clustering.v / Model/IgnoreWeights.v.) *)
From Coq Require Import QArith List Arith Bool ZArith Lia.
From BCT Require Import Base.Mat Base.SumQ Model.Threshold Model.Distance Model.Clustering
  Proofs.ClusteringSpec Proofs.Clustering Proofs.ClusteringReduce Proofs.ReduceIgnore.
Open Scope Q_scope.

Theorem binarize_first_suffices_Z (T : Type) (n : nat) (g : mat Z -> T) :
  (forall B B' : mat Z, (forall i j, (i < n)%nat -> (j < n)%nat -> B i j = B' i j) -> g B = g B') ->
  forall A, (fun P => g (bin P)) (bin A) = (fun P => g (bin P)) A.
Proof. intros Hg A. cbv beta. apply Hg. intros i j _ _. apply bin_idem. Qed.

Theorem binarize_first_suffices_Q (T : Type) (R : T -> T -> Prop) (n : nat) (g : mat Q -> T) :
  (forall B B' : mat Q, (forall i j, (i < n)%nat -> (j < n)%nat -> B i j == B' i j) -> R (g B) (g B')) ->
  forall W, R ((fun P => g (binarize P)) (binarize W)) ((fun P => g (binarize P)) W).
Proof. intros Hg W. cbv beta. apply Hg. intros i j _ _. apply binarize_idem. Qed.

(* non-vacuity: degrees_und of Model/Clustering.v is of that shape (g = column sum) *)
Example binarize_first_nonvacuous : forall n W v, (v < n)%nat ->
  degrees_und n (binarize W) v == degrees_und n W v.
Proof.
  intros n W v Hv.
  apply (binarize_first_suffices_Q Q Qeq n (fun B => colsum n B v)).
  intros B B' H. unfold colsum. apply sumQ_ext. intros i Hi. apply H; assumption.
Qed.
