(* Proofs/GeneratorsRing.v — makeringlatticeCIJ: bands are filled in increasing ring distance with wrap-around,
   every nearer band is full before a farther one is used, excess is removed from the outermost band only,
   exactly K cells remain; for every feasible K the loop never runs off the end of `seq`. *)
From Coq Require Import ZArith List Arith Bool Lia Permutation.
From BCT Require Import Base.Mat Base.ListX Model.Generators Proofs.GeneratorsBase Proofs.Generators.
Import ListNotations.
Open Scope Z_scope.

(* cells at ring distance 1..c *)
Definition ringfull (n c : nat) : mat Z :=
  fun i j => if (Nat.ltb 0 (ringdist n i j) && Nat.leb (ringdist n i j) c)%bool then 1 else 0.

Lemma ringdist_half n i j : (i < n)%nat -> (j < n)%nat -> (2 * ringdist n i j <= n)%nat.
Proof. intros. unfold ringdist, absdiff. lia. Qed.

Lemma ringdist_zero n i j : (i < n)%nat -> (j < n)%nat -> (ringdist n i j = 0%nat <-> i = j).
Proof. intros. unfold ringdist, absdiff. lia. Qed.

Lemma ringdist_sym n i j : ringdist n i j = ringdist n j i.
Proof. unfold ringdist, absdiff. lia. Qed.

(* the pass for [count] adds exactly the cells at ring distance count+1 (clamped to 1 on the antipodal band) *)
Lemma dband_spec n c i j : (i < n)%nat -> (j < n)%nat -> (2 * S c <= n)%nat ->
  dband n c i j = if Nat.eqb (ringdist n i j) (S c) then 1 else 0.
Proof.
  intros Hi Hj Hc. unfold dband, band.
  destruct (Nat.eqb_spec j (i + S c)); destruct (Nat.eqb_spec i (j + S c));
  destruct (Nat.eqb_spec j (i + (n - 1 - c))); destruct (Nat.eqb_spec i (j + (n - 1 - c)));
  cbn -[ringdist Nat.eqb];
  destruct (Nat.eqb_spec (ringdist n i j) (S c)) as [E|E]; try reflexivity;
  unfold ringdist, absdiff in E; exfalso; lia.
Qed.

Lemma dband_01 n c i j : (i < n)%nat -> (j < n)%nat -> (2 * S c <= n)%nat -> dband n c i j = 0 \/ dband n c i j = 1.
Proof. intros. rewrite dband_spec by assumption. destruct (Nat.eqb _ _); auto. Qed.

Lemma ringfull_step n c i j :
  ringfull n c i j + (if Nat.eqb (ringdist n i j) (S c) then 1 else 0) = ringfull n (S c) i j.
Proof.
  unfold ringfull.
  destruct (Nat.ltb_spec 0 (ringdist n i j)); destruct (Nat.leb_spec (ringdist n i j) c);
  destruct (Nat.leb_spec (ringdist n i j) (S c)); destruct (Nat.eqb_spec (ringdist n i j) (S c));
  cbn [andb]; lia.
Qed.

Lemma ringfull_zero n i j : ringfull n 0 i j = 0.
Proof. unfold ringfull. destruct (Nat.ltb_spec 0 (ringdist n i j)); destruct (Nat.leb_spec (ringdist n i j) 0); cbn [andb]; lia. Qed.

Lemma ringfull_all n c i j : (i < n)%nat -> (j < n)%nat -> (n < 2 * S c)%nat -> ringfull n c i j = 1 - eye i j.
Proof.
  intros Hi Hj Hc. unfold ringfull, eye. pose proof (ringdist_half n i j Hi Hj). pose proof (ringdist_zero n i j Hi Hj).
  destruct (Nat.ltb_spec 0 (ringdist n i j)); destruct (Nat.leb_spec (ringdist n i j) c);
  destruct (Nat.eqb_spec i j); cbn [andb]; lia.
Qed.

Lemma sum2_offdiag n : sum2 (fun i j => 1 - eye i j) n = Z.of_nat n * Z.of_nat n - Z.of_nat n.
Proof. rewrite sum2_sub, sum2_const, sum2_eye. lia. Qed.

Lemma madd_spec n A B i j : (i < n)%nat -> (j < n)%nat -> madd n A B i j = A i j + B i j.
Proof. intros Hi Hj. unfold madd. exact (tab_spec 0 n n (fun i j => A i j + B i j) i j Hi Hj). Qed.

Section Loop.
Variables (n : nat) (k : Z).
Hypothesis Hk : k <= Z.of_nat n * Z.of_nat n - Z.of_nat n.

Definition on_grid (A B : mat Z) : Prop := forall i j, (i < n)%nat -> (j < n)%nat -> A i j = B i j.

Lemma ring_fill_spec : forall fuel c CIJ dC kk,
  (n <= fuel + c)%nat -> (2 * c <= n)%nat -> on_grid CIJ (ringfull n c) -> kk = sum2 CIJ n ->
  exists c' CIJ' dC' kk',
    ring_fill fuel n k CIJ dC kk c = Some (CIJ', dC', kk') /\
    (c <= c')%nat /\ (2 * c' <= n)%nat /\ on_grid CIJ' (ringfull n c') /\ kk' = sum2 CIJ' n /\ k <= kk' /\
    ((c' = c /\ dC' = dC /\ CIJ' = CIJ) \/
     ((c < c')%nat /\ dC' = dband n (c' - 1) /\ sum2 (ringfull n (c' - 1)) n < k)).
Proof.
  induction fuel as [|f IH]; intros c CIJ dC kk Hfuel Hc Hinv Hkk.
  - (* no fuel left: then c >= n, so the grid is complete and kk = n^2-n >= k *)
    assert (Hn : n = O \/ (n < 2 * S c)%nat) by lia.
    assert (Hfull : kk = Z.of_nat n * Z.of_nat n - Z.of_nat n).
    { rewrite Hkk. rewrite (sum2_ext CIJ (fun i j => 1 - eye i j) n); [apply sum2_offdiag|].
      intros i j Hi Hj. rewrite (Hinv i j Hi Hj). apply ringfull_all; lia. }
    cbn [ring_fill]. destruct (Z.ltb_spec kk k); [lia|].
    exists c, CIJ, dC, kk. repeat split; auto; try lia.
  - cbn [ring_fill]. destruct (Z.ltb_spec kk k) as [Hlt|Hge].
    + (* another pass: only possible while 2(c+1) <= n *)
      assert (Hstep : (2 * S c <= n)%nat).
      { destruct (Nat.le_gt_cases (2 * S c) n) as [H|H]; [exact H|]. exfalso.
        assert (Hfull : kk = Z.of_nat n * Z.of_nat n - Z.of_nat n).
        { rewrite Hkk. rewrite (sum2_ext CIJ (fun i j => 1 - eye i j) n); [apply sum2_offdiag|].
          intros i j Hi Hj. rewrite (Hinv i j Hi Hj). apply ringfull_all; lia. }
        lia. }
      destruct (Nat.ltb_spec c (n - 1)) as [_|Hbad]; [|lia].
      assert (Hinv' : on_grid (madd n CIJ (dband n c)) (ringfull n (S c))).
      { intros i j Hi Hj. rewrite madd_spec by assumption. rewrite (Hinv i j Hi Hj).
        rewrite dband_spec by assumption. apply ringfull_step. }
      destruct (IH (S c) (madd n CIJ (dband n c)) (dband n c) (sum2 (madd n CIJ (dband n c)) n)
                  ltac:(lia) Hstep Hinv' eq_refl)
        as (c' & CIJ' & dC' & kk' & Hrun & Hcc & Hc' & Hg' & Hkk' & Hkge & Hlast).
      exists c', CIJ', dC', kk'. split; [exact Hrun|]. repeat split; auto; try lia.
      right. split; [lia|].
      destruct Hlast as [(E1 & E2 & _)|(Hlt' & E2 & E3)].
      * subst c'. replace (S c - 1)%nat with c by lia. split; [exact E2|].
        rewrite <- (sum2_ext CIJ (ringfull n c) n Hinv). lia.
      * split; assumption.
    + exists c, CIJ, dC, kk. repeat split; auto; try lia.
Qed.
End Loop.

(* cells of np.where(dC) for a 0/1 matrix: as many as its sum *)
Lemma where_nz_length n (D : mat Z) : (forall i j, (i < n)%nat -> (j < n)%nat -> D i j = 0 \/ D i j = 1) ->
  Z.of_nat (length (where_nz n D)) = sum2 D n.
Proof.
  intros H01. unfold where_nz. rewrite <- sum2_filter. apply sum2_ext. intros i j Hi Hj. cbn [fst snd].
  unfold truthy. destruct (H01 i j Hi Hj) as [E|E]; rewrite E; reflexivity.
Qed.

Lemma where_nz_In n (D : mat Z) i j : In (i, j) (where_nz n D) <-> (i < n)%nat /\ (j < n)%nat /\ D i j <> 0.
Proof.
  unfold where_nz. rewrite filter_cells_In. cbn [fst snd]. unfold truthy.
  destruct (Z.eqb_spec (D i j) 0); cbn [negb]; intuition congruence.
Qed.

Definition last_band (n c : nat) : list cell := where_nz n (dband n (c - 1)).

Theorem ringlattice_bands n k rp : (k <= n * n - n)%nat ->
  exists c R,
    ringlattice n k rp = Some R /\
    (2 * c <= n)%nat /\
    (* band structure, whatever rp is *)
    (forall i j, (i < n)%nat -> (j < n)%nat ->
       (R i j = 0 \/ R i j = 1) /\
       ((0 < ringdist n i j < c)%nat -> R i j = 1) /\
       ((c < ringdist n i j)%nat -> R i j = 0) /\
       (i = j -> R i j = 0)) /\
    (* c is the least number of bands that reaches K *)
    ((0 < k)%nat -> (1 <= c)%nat /\ sum2 (ringfull n (c - 1)) n < Z.of_nat k <= sum2 (ringfull n c) n) /\
    ((k = 0)%nat -> c = 0%nat) /\
    (* exactly K cells when the recorded draw is a permutation of the outermost band's cells
       (no draw is made when the bands fit K exactly) *)
    ((Z.of_nat k = sum2 (ringfull n c) n \/ Permutation rp (seq 0 (length (last_band n c)))) ->
     sum2 R n = Z.of_nat k).
Proof.
  intros Hk.
  assert (HkZ : Z.of_nat k <= Z.of_nat n * Z.of_nat n - Z.of_nat n) by nia.
  destruct (ring_fill_spec n (Z.of_nat k) HkZ n 0 zeros zeros 0 ltac:(lia) ltac:(lia))
    as (c & CIJ & dC & kk & Hrun & _ & Hc & Hg & Hkk & Hkge & Hlast).
  { intros i j _ _. rewrite ringfull_zero. reflexivity. }
  { symmetry. apply sum2_zero. }
  unfold ringlattice. rewrite Hrun.
  exists c. eexists. split; [reflexivity|]. split; [exact Hc|].
  assert (HkkF : kk = sum2 (ringfull n c) n) by (rewrite Hkk; apply sum2_ext; exact Hg).
  set (L := pick (where_nz n dC) rp (Z.to_nat (kk - Z.of_nat k))).
  unfold ring_remove. fold L.
  destruct Hlast as [(E1 & E2 & E3)|(Hlt & E2 & E3)].
  - (* the loop body never ran: K = 0 *)
    subst c dC CIJ. assert (kk = 0) by (rewrite Hkk; apply sum2_zero). assert (k = 0)%nat by lia. subst k.
    assert (HL : L = []) by (unfold L; replace (kk - Z.of_nat 0) with 0 by lia; reflexivity).
    rewrite HL. split; [|split; [|split]].
    + intros i j Hi Hj. unfold set_cells, zeros. cbn [cmem existsb]. repeat split; auto; lia.
    + lia.
    + reflexivity.
    + intros _. exact (sum2_zero n).
  - assert (Hc1 : (2 * S (c - 1) <= n)%nat) by lia.
    assert (HdC : forall i j, (i < n)%nat -> (j < n)%nat -> dC i j = if Nat.eqb (ringdist n i j) c then 1 else 0).
    { intros i j Hi Hj. rewrite E2. rewrite dband_spec by assumption. replace (S (c - 1)) with c by lia. reflexivity. }
    assert (HLin : forall i j, In (i, j) L -> (i, j) = (O, O) \/ ((i < n)%nat /\ (j < n)%nat /\ ringdist n i j = c)).
    { intros i j Hin. unfold L, pick in Hin. apply in_map_iff in Hin. destruct Hin as [t [Ht _]].
      destruct (Nat.lt_ge_cases t (length (where_nz n dC))) as [Hl|Hl].
      - right. assert (Hin : In (i, j) (where_nz n dC)) by (rewrite <- Ht; apply nth_In; exact Hl).
        apply where_nz_In in Hin. destruct Hin as (Hi & Hj & Hnz). rewrite HdC in Hnz by assumption.
        destruct (Nat.eqb_spec (ringdist n i j) c); [auto|congruence].
      - left. rewrite nth_overflow in Ht by exact Hl. congruence. }
    assert (Hsplit : sum2 (ringfull n c) n = sum2 (ringfull n (c - 1)) n + sum2 dC n).
    { rewrite <- sum2_add. apply sum2_ext. intros i j Hi Hj. rewrite HdC by assumption.
      pose proof (ringfull_step n (c - 1) i j) as Hs. replace (S (c - 1)) with c in Hs by lia. lia. }
    split; [|split; [|split]].
    + intros i j Hi Hj. pose proof (ringdist_zero n i j Hi Hj) as Hz.
      destruct (cmem (i, j) L) eqn:Em.
      * apply cmem_In in Em. rewrite (set_cells_in _ _ _ _ _ Em).
        destruct (HLin i j Em) as [E0|(_ & _ & Er)].
        -- inversion E0; subst. assert (ringdist n 0 0 = 0)%nat by (apply Hz; reflexivity).
           repeat split; auto; lia.
        -- repeat split; auto; try lia;
             try (intros ->; assert (ringdist n j j = 0)%nat by (apply Hz; reflexivity); lia).
      * apply cmem_false in Em. rewrite (set_cells_out _ _ _ _ _ Em). rewrite (Hg i j Hi Hj). unfold ringfull.
        destruct (Nat.ltb_spec 0 (ringdist n i j)); destruct (Nat.leb_spec (ringdist n i j) c); cbn [andb];
          repeat split; auto; try lia;
          try (intros ->; assert (ringdist n j j = 0)%nat by (apply Hz; reflexivity); lia).
    + intros _. split; [lia|]. rewrite <- HkkF. lia.
    + intros ->. exfalso. assert (0 <= sum2 (ringfull n (c - 1)) n); [|lia].
      apply sum2_nonneg. intros i j _ _. unfold ringfull. destruct (_ && _)%bool; lia.
    + intros Hrp.
      assert (H01 : forall i j, (i < n)%nat -> (j < n)%nat -> dC i j = 0 \/ dC i j = 1).
      { intros i j Hi Hj. rewrite HdC by assumption. destruct (Nat.eqb _ _); auto. }
      destruct Hrp as [Hexact|Hrp].
      * assert (HL : L = []) by (unfold L; replace (kk - Z.of_nat k) with 0 by lia; reflexivity).
        rewrite HL. change (sum2 CIJ n = Z.of_nat k). lia.
      * unfold last_band in Hrp. rewrite <- E2 in Hrp.
        assert (Hnd : NoDup (where_nz n dC)) by apply filter_cells_NoDup.
        rewrite (sum2_set_cells CIJ L 1 0 n).
        -- unfold L. rewrite (pick_length _ _ _ Hrp). pose proof (where_nz_length n dC H01). lia.
        -- apply pick_NoDup; assumption.
        -- intros [i j] Hin. apply (pick_incl _ _ _ Hrp) in Hin. apply where_nz_In in Hin. cbn [fst snd]. tauto.
        -- intros [i j] Hin. apply (pick_incl _ _ _ Hrp) in Hin. apply where_nz_In in Hin. cbn [fst snd].
           destruct Hin as (Hi & Hj & Hnz). rewrite (Hg i j Hi Hj). rewrite HdC in Hnz by assumption.
           destruct (Nat.eqb_spec (ringdist n i j) c) as [Er|]; [|congruence]. unfold ringfull. rewrite Er.
           destruct (Nat.ltb_spec 0 c); destruct (Nat.leb_spec c c); cbn [andb]; lia.
Qed.

Corollary ringlattice_feasible_returns n k rp : (k <= n * n - n)%nat -> ringlattice n k rp <> None.
Proof. intros Hk. destruct (ringlattice_bands n k rp Hk) as (c & R & H & _). congruence. Qed.
