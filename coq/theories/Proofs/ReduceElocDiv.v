(* Proofs/ReduceElocDiv.v — C10: the local efficiencies never divide by zero.
   The loop body of efficiency_bin(local=True) / efficiency_wei(local in (True,'local')) ends with
       numer = np.sum(np.outer(s.T, s) * se) / 2
       if numer != 0:  denom = np.sum(sa)**2 - np.sum(sa * sa);  E[u] = numer / denom
   Model/EfficiencyLocal.v ([eloc_tail]) writes the quotient with Q's total division (x / 0 = 0), which would
   hide an inf of the code.  Here: for the arguments the two routines actually pass (the neighbour list V of u,
   sa = A[u,V] + A[V,u] with A the 0/1 adjacency, e with zero diagonal) a nonzero numer forces denom >= 2 > 0.
   Any weights, any diagonal, any distance matrix D inside [einv]. *)
From Coq Require Import QArith List Arith Bool ZArith Lia Lqa.
From BCT Require Import Base.Mat Base.SumQ Base.ListX Model.Threshold Model.Distance Model.Clustering Model.EfficiencyLocal
  Proofs.ReduceEfficiencyLocal.
Import ListNotations.
Open Scope Q_scope.

Definition eloc_numer (k : nat) (s : vec Q) (e : mat Q) : Q := sum2Q (fun a b => s a * s b * (e a b + e b a)) k / 2.
Definition eloc_denom (k : nat) (sa : vec Q) : Q := sumQ sa k * sumQ sa k - sumQ (fun a => sa a * sa a) k.

(* [eloc_tail] is literally "0 if numer = 0, else numer / denom" *)
Lemma eloc_tail_unfold k s sa e :
  eloc_tail k s sa e = if Qeq_bool (eloc_numer k s e) 0 then 0 else eloc_numer k s e / eloc_denom k sa.
Proof. reflexivity. Qed.

(* ---------- denom = sum over ordered pairs a <> b of sa_a sa_b ---------- *)
Lemma denom_step (sa : vec Q) k : eloc_denom (S k) sa == eloc_denom k sa + 2 * sa k * sumQ sa k.
Proof. unfold eloc_denom. cbn [sumQ]. ring. Qed.

Lemma sum_ge0 (sa : vec Q) k : (forall a, (a < k)%nat -> 1 <= sa a) -> 0 <= sumQ sa k.
Proof. intros H. apply sumQ_nonneg. intros a Ha. specialize (H a Ha). lra. Qed.

Lemma sum_ge1 (sa : vec Q) k : (forall a, (a < S k)%nat -> 1 <= sa a) -> 1 <= sumQ sa (S k).
Proof.
  intros H. cbn [sumQ]. assert (0 <= sumQ sa k) by (apply sum_ge0; intros a Ha; apply H; lia).
  assert (1 <= sa k) by (apply H; lia). lra.
Qed.

Lemma denom_ge0 (sa : vec Q) k : (forall a, (a < k)%nat -> 1 <= sa a) -> 0 <= eloc_denom k sa.
Proof.
  induction k as [|k IH]; intros H.
  - unfold eloc_denom. cbn [sumQ]. lra.
  - rewrite denom_step. assert (0 <= eloc_denom k sa) by (apply IH; intros a Ha; apply H; lia).
    assert (0 <= sumQ sa k) by (apply sum_ge0; intros a Ha; apply H; lia).
    assert (1 <= sa k) by (apply H; lia).
    assert (0 <= sa k * sumQ sa k) by (apply Qmult_le_0_compat; lra). lra.
Qed.

Lemma denom_pos (sa : vec Q) k : (2 <= k)%nat -> (forall a, (a < k)%nat -> 1 <= sa a) -> 2 <= eloc_denom k sa.
Proof.
  intros Hk H. destruct k as [|[|m]]; [lia|lia|]. rewrite denom_step.
  assert (0 <= eloc_denom (S m) sa) by (apply denom_ge0; intros a Ha; apply H; lia).
  assert (H1 : 1 <= sumQ sa (S m)) by (apply sum_ge1; intros a Ha; apply H; lia).
  assert (H2 : 1 <= sa (S m)) by (apply H; lia).
  assert (1 * 1 <= sa (S m) * sumQ sa (S m)) by (apply Qmult_le_compat_nonneg; split; lra). lra.
Qed.

(* fewer than two neighbours: numer = 0 (the diagonal of e is zero) *)
Lemma numer_small k s e : (k < 2)%nat -> (forall a, (a < k)%nat -> e a a == 0) -> eloc_numer k s e == 0.
Proof.
  intros Hk He. destruct k as [|[|k]]; [| |lia]; unfold eloc_numer, sum2Q; cbn [sumQ].
  - unfold Qdiv. ring.
  - rewrite (He 0%nat ltac:(lia)). unfold Qdiv. ring.
Qed.

Theorem eloc_no_div0 k s sa e :
  (forall a, (a < k)%nat -> 1 <= sa a) -> (forall a, (a < k)%nat -> e a a == 0) ->
  ~ eloc_numer k s e == 0 -> 2 <= eloc_denom k sa.
Proof.
  intros Hsa He Hn. apply denom_pos; [|exact Hsa].
  destruct (le_lt_dec 2 k) as [L|L]; [exact L|]. exfalso. apply Hn. apply numer_small; assumption.
Qed.

Lemma einv_diag k D a : (a < k)%nat -> einv k D a a == 0.
Proof. intros Ha. unfold einv. rewrite tab_spec by assumption. rewrite Nat.eqb_refl. reflexivity. Qed.

(* ---------- efficiency_bin(local=True): G = binarize(G), any input matrix A ---------- *)
Theorem eloc_bin_no_div0 n (A : mat Z) u (D : mat len) :
  let G := tab 0%Z n n (bin A) in
  let V := filter (fun v => znz (G u v) || znz (G v u))%bool (seq 0 n) in
  let k := length V in
  let sa := tabv 0 k (fun a => inject_Z (G u (nth a V 0%nat)) + inject_Z (G (nth a V 0%nat) u)) in
  (u < n)%nat -> ~ eloc_numer k sa (einv k D) == 0 -> 2 <= eloc_denom k sa.
Proof.
  intros G V k sa Hu. apply eloc_no_div0; [|intros a Ha; apply einv_diag; exact Ha].
  intros a Ha. unfold sa. rewrite tabv_spec by exact Ha.
  pose proof (nth_In V 0%nat Ha) as Hin. set (v := nth a V 0%nat) in *. unfold V in Hin.
  apply filter_In in Hin. destruct Hin as [Hin Hp]. apply in_seq in Hin. assert (Hv : (v < n)%nat) by lia.
  assert (E1 : G u v = bin A u v) by (unfold G; apply tab_spec; assumption).
  assert (E2 : G v u = bin A v u) by (unfold G; apply tab_spec; assumption).
  rewrite E1, E2 in Hp |- *. unfold bin, znz in *.
  destruct (Z.eqb (A u v) 0), (Z.eqb (A v u) 0); cbn in Hp |- *; try discriminate; unfold Qle; cbn; lia.
Qed.

(* ---------- efficiency_wei(local=True): ANY weights (sa counts connections, A = (Gw != 0)) ---------- *)
Theorem eloc_wei_no_div0 (cbrt : Q -> Q) n (Gw : mat Q) u (D : mat len) :
  let V := filter (fun v => qnzb (Gw u v) || qnzb (Gw v u))%bool (seq 0 n) in
  let k := length V in
  let sw := tabv 0 k (fun a => cbrt (Gw u (nth a V 0%nat)) + cbrt (Gw (nth a V 0%nat) u)) in
  let sa := tabv 0 k (fun a => nzQ (Gw u (nth a V 0%nat)) + nzQ (Gw (nth a V 0%nat) u)) in
  ~ eloc_numer k sw (einv k D) == 0 -> 2 <= eloc_denom k sa.
Proof.
  intros V k sw sa. apply eloc_no_div0; [|intros a Ha; apply einv_diag; exact Ha].
  intros a Ha. unfold sa. rewrite tabv_spec by exact Ha.
  pose proof (nth_In V 0%nat Ha) as Hin. set (v := nth a V 0%nat) in *. unfold V in Hin.
  apply filter_In in Hin. destruct Hin as [_ Hp]. unfold qnzb, nzQ in *.
  destruct (Qeq_bool (Gw u v) 0), (Qeq_bool (Gw v u) 0); cbn in Hp |- *; try discriminate; unfold Qle; cbn; lia.
Qed.

(* the node routines of the model are these expressions *)
Lemma eloc_bin_node_unfold n (G : mat Z) u :
  let V := filter (fun v => znz (G u v) || znz (G v u))%bool (seq 0 n) in
  let k := length V in
  let sa := tabv 0 k (fun a => inject_Z (G u (nth a V 0%nat)) + inject_Z (G (nth a V 0%nat) u)) in
  eloc_bin_node n G u = match distance_bin k (subm V G) with
                        | None => None
                        | Some D => Some (eloc_tail k sa sa (einv k (fun a b => olen_of_nat (D a b))))
                        end.
Proof. reflexivity. Qed.

Lemma eloc_wei_node_unfold cbrt n (Gw : mat Q) u :
  let V := filter (fun v => qnzb (Gw u v) || qnzb (Gw v u))%bool (seq 0 n) in
  let k := length V in
  let sw := tabv 0 k (fun a => cbrt (Gw u (nth a V 0%nat)) + cbrt (Gw (nth a V 0%nat) u)) in
  let sa := tabv 0 k (fun a => nzQ (Gw u (nth a V 0%nat)) + nzQ (Gw (nth a V 0%nat) u)) in
  eloc_wei_node cbrt n Gw u = match distance_wei k (subm V (tab 0 n n (mmap cbrt (invertQ Gw)))) with
                              | None => None
                              | Some (D, _) => Some (eloc_tail k sw sa (einv k D))
                              end.
Proof. reflexivity. Qed.

(* non-vacuity: node 2 of the triangle-with-a-tail graph has numer = 1, denom = 6 *)
Example eloc_div_nonvacuous :
  let A := of_rows 0%Z [[0; 1; 1; 0]; [1; 0; 1; 0]; [1; 1; 0; 1]; [0; 0; 1; 0]]%Z%list in
  let G := tab 0%Z 4 4 (bin A) in
  let V := filter (fun v => znz (G 2%nat v) || znz (G v 2%nat))%bool (seq 0 4) in
  let sa := tabv 0 3 (fun a => inject_Z (G 2%nat (nth a V 0%nat)) + inject_Z (G (nth a V 0%nat) 2%nat)) in
  exists D, distance_bin 3 (subm V G) = Some D /\
    Qred (eloc_numer 3 sa (einv 3 (fun a b => olen_of_nat (D a b)))) = 8 # 1 /\ Qred (eloc_denom 3 sa) = 24 # 1.
Proof.
  cbv zeta. eexists. split; [vm_compute; reflexivity|]. split; vm_compute; reflexivity.
Qed.
