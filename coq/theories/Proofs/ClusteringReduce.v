(* Proofs/ClusteringReduce.v — C10 between the models of Model/Clustering.v:
   weighted routines reduce to binary ones on 0/1 input, directed ones to undirected ones on symmetric input;
   strengths = degrees on 0/1 input, in-degree = out-degree = degree on symmetric input. *)
From Coq Require Import QArith Qabs List Arith Bool ZArith Lia Lqa Qring Qfield.
From BCT Require Import Base.Mat Base.SumQ Model.Threshold Proofs.Threshold Model.Clustering
  Proofs.ClusteringSpec Proofs.Clustering.
Open Scope Q_scope.

Lemma div_scale4 a b : (4 * a) / (4 * b) == a / b.
Proof.
  destruct (Qeq_dec b 0) as [E|E].
  - rewrite E. setoid_replace (4 * 0) with 0 by ring. unfold Qdiv. change (/ 0) with 0. ring.
  - field. exact E.
Qed.

Lemma Qeq_bool_scale4 c : Qeq_bool (4 * c) 0 = Qeq_bool c 0.
Proof.
  destruct (Qeq_bool (4 * c) 0) eqn:E; destruct (Qeq_bool c 0) eqn:E'; auto.
  - apply Qeq_bool_iff in E. apply Qeq_bool_neq in E'. exfalso. apply E'. lra.
  - apply Qeq_bool_iff in E'. apply Qeq_bool_neq in E. exfalso. apply E. lra.
Qed.

Lemma nzQ_ext a b : a == b -> nzQ a == nzQ b.
Proof. intros H. unfold nzQ. rewrite (Qeq_bool_ext a b H). reflexivity. Qed.

Lemma tri_dir_ext n C C' i : (forall a b, (a < n)%nat -> (b < n)%nat -> C a b == C' a b) -> (i < n)%nat ->
  tri_dir n C i == tri_dir n C' i.
Proof.
  intros H Hi. unfold tri_dir, sy. apply Qdiv_comp; [|reflexivity]. apply sum2Q_ext; intros j k Hj Hk.
  rewrite (H i j), (H j i), (H j k), (H k j), (H k i), (H i k) by assumption. reflexivity.
Qed.

Lemma poss_dir_ext n A A' i : (forall a b, (a < n)%nat -> (b < n)%nat -> A a b == A' a b) -> (i < n)%nat ->
  poss_dir n A i == poss_dir n A' i.
Proof.
  intros H Hi. unfold poss_dir, dtot, dbi.
  assert (E1 : sumQ (fun j => A i j + A j i) n == sumQ (fun j => A' i j + A' j i) n).
  { apply sumQ_ext; intros j Hj. rewrite (H i j), (H j i) by assumption. reflexivity. }
  assert (E2 : sumQ (fun j => A i j * A j i) n == sumQ (fun j => A' i j * A' j i) n).
  { apply sumQ_ext; intros j Hj. rewrite (H i j), (H j i) by assumption. reflexivity. }
  rewrite E1, E2. reflexivity.
Qed.

(* symmetric input: the symmetrised triangle count is 4 x the plain one, the possible count 4 k(k-1) *)
Lemma tri_dir_sym n C i : symmetric n C -> (i < n)%nat -> tri_dir n C i == 4 * diag3 n C i.
Proof.
  intros Hs Hi. unfold tri_dir, sy. rewrite diag_cube_is_triples.
  change (sumQ (fun j => sumQ (fun k => C i j * C j k * C k i) n) n) with (sum2Q (fun j k => C i j * C j k * C k i) n).
  rewrite (sum2Q_ext _ (fun j k => 8 * (C i j * C j k * C k i)) n).
  - rewrite sum2Q_scal. field.
  - intros j k Hj Hk. rewrite (Hs j i Hj Hi), (Hs k j Hk Hj), (Hs i k Hi Hk). ring.
Qed.

Lemma poss_dir_sym n W i : symmetric n W -> (i < n)%nat ->
  poss_dir n (mmap nzQ W) i == 4 * (kdeg n W i * (kdeg n W i - 1)).
Proof.
  intros Hs Hi. unfold poss_dir, dtot, dbi, kdeg, mmap.
  assert (E1 : sumQ (fun j => nzQ (W i j) + nzQ (W j i)) n == 2 * sumQ (fun j => nzQ (W i j)) n).
  { rewrite <- sumQ_scal. apply sumQ_ext; intros j Hj. rewrite (nzQ_ext _ _ (Hs j i Hj Hi)). ring. }
  assert (E2 : sumQ (fun j => nzQ (W i j) * nzQ (W j i)) n == sumQ (fun j => nzQ (W i j)) n).
  { apply sumQ_ext; intros j Hj. rewrite (nzQ_ext _ _ (Hs j i Hj Hi)). apply nzQ_idem. }
  rewrite E1, E2. ring.
Qed.

Lemma mmap_nz_binary n A : binary n A -> forall a b, (a < n)%nat -> (b < n)%nat -> mmap nzQ A a b == A a b.
Proof. intros Hb a b Ha Hb'. unfold mmap. apply nzQ_binary. apply Hb; assumption. Qed.

(* ---------- binary, no cube root involved ---------- *)
Lemma cc_bu_triples n A i : binary n A -> symmetric n A -> (i < n)%nat ->
  cc_bu n A i == if Qle_bool 2 (kdeg n A i) then diag3 n A i / (kdeg n A i * (kdeg n A i - 1)) else 0.
Proof.
  intros Hb Hs Hi. rewrite cc_bu_sumform. destruct (Qle_bool 2 (kdeg n A i)); [|reflexivity].
  apply Qdiv_comp; [|reflexivity]. rewrite diag_cube_is_triples. apply sum2Q_ext; intros a b Ha Hb'.
  rewrite !nzQ_binary by (apply Hb; assumption). rewrite (Hs b i Hb' Hi). ring.
Qed.

Lemma kdeg_lt2_no_triangle n W i : symmetric n W -> nodiag n W -> (i < n)%nat ->
  Qle_bool 2 (kdeg n W i) = false -> no_triangle n W i.
Proof.
  intros Hs Hd Hi E. apply few_no_triangle; [exact Hd|]. apply kdeg_lt2_few; [exact Hs|exact Hi|].
  destruct (Qlt_le_dec (kdeg n W i) 2) as [L|L]; [exact L|]. apply Qle_bool_iff in L. congruence.
Qed.

Theorem cc_bd_sym_eq_bu n A i : binary n A -> symmetric n A -> nodiag n A -> (i < n)%nat ->
  cc_bd n A i == cc_bu n A i.
Proof.
  intros Hb Hs Hd Hi. destruct (Qle_bool 2 (kdeg n A i)) eqn:E.
  - rewrite (cc_bu_triples n A i Hb Hs Hi), E. rewrite cc_bd_fagiolo. unfold def_cc_bd, def_cc_dir.
    rewrite (Qeq_bool_ext _ _ (tri_dir_sym n A i Hs Hi)), Qeq_bool_scale4.
    destruct (Qeq_bool (diag3 n A i) 0) eqn:E0.
    + apply Qeq_bool_iff in E0. rewrite E0. unfold Qdiv. ring.
    + rewrite (tri_dir_sym n A i Hs Hi).
      rewrite <- (poss_dir_ext n (mmap nzQ A) A i (mmap_nz_binary n A Hb) Hi), (poss_dir_sym n A i Hs Hi).
      apply div_scale4.
  - assert (H := kdeg_lt2_no_triangle n A i Hs Hd Hi E).
    destruct (no_triangle_zero_bin n A i Hi H) as [B1 B2]. rewrite B1, B2. reflexivity.
Qed.

Lemma sum_kk1_bu n A : binary n A -> symmetric n A ->
  sum2Q (mmul n A A) n - sumQ (diag2 n A) n == sumQ (fun i => kdeg n A i * (kdeg n A i - 1)) n.
Proof.
  intros Hb Hs. rewrite (sum_sq_paths n A Hs), (trace_sq_deg n A Hb Hs), <- sumQ_sub.
  apply sumQ_ext; intros i Hi. rewrite (kdeg_binary n A i Hb Hi). ring.
Qed.

Theorem trans_bd_sym_eq_bu n A : binary n A -> symmetric n A -> oeq (trans_bd n A) (trans_bu n A).
Proof.
  intros Hb Hs. unfold trans_bd, trans_bu. cbv zeta.
  apply (oeq_trans _ (odiv (4 * sumQ (diag3 n A) n) (4 * sumQ (fun i => kdeg n A i * (kdeg n A i - 1)) n))).
  - apply odiv_ext.
    + rewrite <- sumQ_scal. apply sumQ_ext; intros i Hi. rewrite cyc3_tri. apply tri_dir_sym; assumption.
    + rewrite <- sumQ_scal. apply sumQ_ext; intros i Hi.
      change (rowsum n (madd A (mT A)) i * (rowsum n (madd A (mT A)) i - 1) - 2 * diag2 n A i) with (poss_dir n A i).
      rewrite <- (poss_dir_ext n (mmap nzQ A) A i (mmap_nz_binary n A Hb) Hi). apply poss_dir_sym; assumption.
  - apply (oeq_trans _ (odiv (sumQ (diag3 n A) n) (sumQ (fun i => kdeg n A i * (kdeg n A i - 1)) n))).
    + apply odiv_scale. discriminate.
    + apply odiv_ext; [reflexivity|]. symmetry. apply sum_kk1_bu; assumption.
Qed.

(* ---------- with the cube root ---------- *)
Section Cbrt.
Variable cbrt : Q -> Q.

Lemma cbrt_binary_ext n A : cbrt_ok cbrt n A -> binary n A ->
  forall a b, (a < n)%nat -> (b < n)%nat -> mmap cbrt A a b == A a b.
Proof. intros Hc Hb a b Ha Hb'. unfold mmap. apply cra_binary; [apply Hc|apply Hb]; assumption. Qed.

Lemma cbrt_sym n W : cbrt_ok cbrt n W -> symmetric n W -> symmetric n (mmap cbrt W).
Proof. intros Hc Hs a b Ha Hb. unfold mmap. apply cra_proper; [apply Hc|apply Hc|apply Hs]; assumption. Qed.

Theorem cc_wd_bin_eq_bd n A i : cbrt_ok cbrt n A -> binary n A -> (i < n)%nat -> cc_wd cbrt n A i == cc_bd n A i.
Proof.
  intros Hc Hb Hi. rewrite cc_wd_def, cc_bd_fagiolo. unfold def_cc_wd, def_cc_bd, def_cc_dir.
  assert (E1 := tri_dir_ext n (mmap cbrt A) A i (cbrt_binary_ext n A Hc Hb) Hi).
  assert (E2 := poss_dir_ext n (mmap nzQ A) A i (mmap_nz_binary n A Hb) Hi).
  apply ite0_ext; [exact E1|]. rewrite E1, E2. reflexivity.
Qed.

Theorem trans_wd_bin_eq_bd n A : cbrt_ok cbrt n A -> binary n A -> oeq (trans_wd cbrt n A) (trans_bd n A).
Proof.
  intros Hc Hb. apply (oeq_trans _ _ _ (trans_wd_def cbrt n A)). apply oeq_sym. apply (oeq_trans _ _ _ (trans_bd_def n A)).
  unfold def_trans_bd, def_trans_wd, def_trans_dir. apply odiv_ext.
  - apply sumQ_ext; intros i Hi. symmetry. apply tri_dir_ext; [apply cbrt_binary_ext; assumption|exact Hi].
  - apply sumQ_ext; intros i Hi. symmetry. apply poss_dir_ext; [apply mmap_nz_binary; assumption|exact Hi].
Qed.

Theorem cc_wu_bin_eq_bu n A i : cbrt_ok cbrt n A -> binary n A -> symmetric n A -> nodiag n A -> (i < n)%nat ->
  cc_wu cbrt n A i == cc_bu n A i.
Proof.
  intros Hc Hb Hs Hd Hi. destruct (Qle_bool 2 (kdeg n A i)) eqn:E.
  - rewrite (cc_bu_triples n A i Hb Hs Hi), E, cc_wu_unfold.
    assert (E3 := diag3_ext n (mmap cbrt A) A i (cbrt_binary_ext n A Hc Hb) Hi).
    rewrite (Qeq_bool_ext _ _ E3). destruct (Qeq_bool (diag3 n A i) 0) eqn:E0.
    + apply Qeq_bool_iff in E0. rewrite E0. unfold Qdiv. ring.
    + rewrite E3. reflexivity.
  - assert (H := kdeg_lt2_no_triangle n A i Hs Hd Hi E).
    destruct (no_triangle_zero cbrt n A i Hc Hi H) as (B1 & _ & B3 & _). rewrite B1, B3. reflexivity.
Qed.

Theorem trans_wu_bin_eq_bu n A : cbrt_ok cbrt n A -> binary n A -> symmetric n A ->
  oeq (trans_wu cbrt n A) (trans_bu n A).
Proof.
  intros Hc Hb Hs. unfold trans_wu, trans_bu. cbv zeta. apply odiv_ext.
  - apply sumQ_ext; intros i Hi. apply diag3_ext; [apply cbrt_binary_ext; assumption|exact Hi].
  - symmetry. apply sum_kk1_bu; assumption.
Qed.

Theorem cc_wd_sym_eq_wu n W i : cbrt_ok cbrt n W -> symmetric n W -> (i < n)%nat ->
  cc_wd cbrt n W i == cc_wu cbrt n W i.
Proof.
  intros Hc Hs Hi. rewrite cc_wd_def, cc_wu_unfold. unfold def_cc_wd, def_cc_dir.
  assert (E1 := tri_dir_sym n (mmap cbrt W) i (cbrt_sym n W Hc Hs) Hi).
  rewrite (Qeq_bool_ext _ _ E1), Qeq_bool_scale4.
  destruct (Qeq_bool (diag3 n (mmap cbrt W) i) 0); [reflexivity|].
  rewrite E1, (poss_dir_sym n W i Hs Hi). apply div_scale4.
Qed.

Theorem trans_wd_sym_eq_wu n W : cbrt_ok cbrt n W -> symmetric n W -> oeq (trans_wd cbrt n W) (trans_wu cbrt n W).
Proof.
  intros Hc Hs. apply (oeq_trans _ _ _ (trans_wd_def cbrt n W)). unfold def_trans_wd, def_trans_dir, trans_wu. cbv zeta.
  apply (oeq_trans _ (odiv (4 * sumQ (diag3 n (mmap cbrt W)) n) (4 * sumQ (fun i => kdeg n W i * (kdeg n W i - 1)) n))).
  - apply odiv_ext.
    + rewrite <- sumQ_scal. apply sumQ_ext; intros i Hi. apply tri_dir_sym; [apply cbrt_sym; assumption|exact Hi].
    + rewrite <- sumQ_scal. apply sumQ_ext; intros i Hi. apply poss_dir_sym; assumption.
  - apply odiv_scale. discriminate.
Qed.
End Cbrt.

(* ---------- degree.py ---------- *)
Lemma binarize_binary n A i j : binary n A -> (i < n)%nat -> (j < n)%nat -> binarize A i j == A i j.
Proof.
  intros Hb Hi Hj. unfold binarize. destruct (qnz (A i j)) eqn:E; [|reflexivity].
  apply qnz_true in E. destruct (Hb i j Hi Hj) as [H|H]; [contradiction|symmetry; exact H].
Qed.

Lemma binarize_ext (W : mat Q) i j k l : W i j == W k l -> binarize W i j == binarize W k l.
Proof. intros H. unfold binarize. rewrite (qnz_ext _ _ H). destruct (qnz (W k l)); [reflexivity|exact H]. Qed.

Lemma binarize_idem W i j : binarize (binarize W) i j == binarize W i j.
Proof.
  unfold binarize. destruct (qnz (W i j)) eqn:E.
  - destruct (qnz 1); reflexivity.
  - rewrite E. reflexivity.
Qed.

Theorem strengths_bin_eq_degrees n A v : binary n A -> (v < n)%nat ->
  strengths_und n A v == degrees_und n A v /\ strengths_dir n A v == snd (degrees_dir n A v).
Proof.
  intros Hb Hv. unfold strengths_und, degrees_und, strengths_dir, degrees_dir, colsum, rowsum. cbv zeta. cbn [snd]. split.
  - apply sumQ_ext; intros i Hi. symmetry. apply (binarize_binary n); assumption.
  - rewrite (sumQ_ext (fun i => binarize A i v) (fun i => A i v) n) by (intros i Hi; apply (binarize_binary n); assumption).
    rewrite (sumQ_ext (fun j => binarize A v j) (fun j => A v j) n) by (intros i Hi; apply (binarize_binary n); assumption).
    reflexivity.
Qed.

Theorem in_out_deg_sym n A v : symmetric n A -> (v < n)%nat ->
  let '(id, od, deg) := degrees_dir n A v in
  id == degrees_und n A v /\ od == degrees_und n A v /\ deg == 2 * degrees_und n A v.
Proof.
  intros Hs Hv. unfold degrees_dir, degrees_und, colsum, rowsum. cbv zeta.
  assert (E : sumQ (fun j => binarize A v j) n == sumQ (fun i => binarize A i v) n).
  { apply sumQ_ext; intros j Hj. apply binarize_ext. apply Hs; assumption. }
  split; [reflexivity|]. split; [exact E|]. rewrite E. ring.
Qed.

(* degrees_* are documented to discard weights: same result on W and on its binarisation *)
Theorem degrees_ignore_weights n W v :
  degrees_und n W v == degrees_und n (binarize W) v /\
  fst (fst (degrees_dir n W v)) == fst (fst (degrees_dir n (binarize W) v)) /\
  snd (fst (degrees_dir n W v)) == snd (fst (degrees_dir n (binarize W) v)) /\
  snd (degrees_dir n W v) == snd (degrees_dir n (binarize W) v).
Proof.
  unfold degrees_und, degrees_dir, colsum, rowsum. cbv zeta. cbn [fst snd].
  assert (E1 : sumQ (fun i => binarize W i v) n == sumQ (fun i => binarize (binarize W) i v) n).
  { apply sumQ_ext; intros i _. symmetry. apply binarize_idem. }
  assert (E2 : sumQ (fun j => binarize W v j) n == sumQ (fun j => binarize (binarize W) v j) n).
  { apply sumQ_ext; intros i _. symmetry. apply binarize_idem. }
  split; [exact E1|]. split; [exact E1|]. split; [exact E2|]. rewrite E1, E2. reflexivity.
Qed.

(* the executable cube root is a cube root of 0 and of 1 in every representation: on 0/1 matrices the
   hypothesis cbrt_ok holds for the extracted model's own cbrt *)
Lemma cbrt_exact_binary x : (x == 0 \/ x == 1) -> cube_root_at cbrt_exact x.
Proof.
  intros [H|H]; unfold cube_root_at, cbrt_exact.
  - rewrite (Qred_complete x 0 H). rewrite H. vm_compute. reflexivity.
  - rewrite (Qred_complete x 1 H). rewrite H. vm_compute. reflexivity.
Qed.

Lemma cbrt_exact_ok_binary n A : binary n A -> cbrt_ok cbrt_exact n A.
Proof. intros Hb a b Ha Hb'. apply cbrt_exact_binary. apply Hb; assumption. Qed.
