(* Proofs/SymTerm.v — C04: every term / program of Model/SymTerm.v is equivariant under renumbering. *)
From Coq Require Import QArith Qring Lia Lqa Arith List Bool Permutation Morphisms.
From BCT Require Import Base.Mat Base.SumQ Model.SymTerm.
Import ListNotations.
Open Scope Q_scope.

Lemma perm_lt n p i : perm_on n p -> (i < n)%nat -> (p i < n)%nat.
Proof. intros [H _] Hi. apply (proj1 (H i)). exact Hi. Qed.
Lemma perm_ge n p i : perm_on n p -> (n <= i)%nat -> (n <= p i)%nat.
Proof.
  intros [H _] Hi. destruct (Nat.lt_ge_cases (p i) n) as [Hc|Hc]; [|exact Hc].
  apply (proj2 (H i)) in Hc. lia.
Qed.

(* ---------- re-indexing a sum over [0,n) by a bijection ---------- *)
Lemma perm_map_seq n p : perm_on n p -> Permutation (map p (seq 0 n)) (seq 0 n).
Proof.
  intros [Hr Hinj]. apply NoDup_Permutation_bis.
  - assert (G : forall l, NoDup l -> NoDup (map p l)).
    { induction l as [|a l IH]; intros Hl; [constructor|]. inversion Hl; subst. cbn [map]. constructor.
      - intros Hin. apply in_map_iff in Hin. destruct Hin as [b [Hb Hin]]. apply Hinj in Hb. subst. contradiction.
      - apply IH; assumption. }
    apply G, seq_NoDup.
  - rewrite map_length. apply Nat.le_refl.
  - intros x Hx. apply in_map_iff in Hx. destruct Hx as [y [Hy Hin]]. subst x.
    apply in_seq in Hin. apply in_seq. split; [lia|]. cbn. apply (proj1 (Hr y)). lia.
Qed.

Definition suml (l : list Q) : Q := fold_right Qplus 0 l.
Lemma suml_app l x : suml (l ++ [x]) == suml l + x.
Proof. induction l as [|a l IH]; cbn [app suml fold_right]; [ring|]. unfold suml in IH. rewrite IH. ring. Qed.
Lemma sumQ_suml f n : sumQ f n == suml (map f (seq 0 n)).
Proof.
  induction n; [reflexivity|]. rewrite seq_S, map_app. cbn [plus map sumQ]. rewrite suml_app, IHn. reflexivity.
Qed.
Lemma suml_perm (f : nat -> Q) l l' : Permutation l l' -> suml (map f l) == suml (map f l').
Proof.
  induction 1; cbn [map suml fold_right] in *.
  - reflexivity.
  - unfold suml in IHPermutation. rewrite IHPermutation. reflexivity.
  - ring.
  - rewrite IHPermutation1. exact IHPermutation2.
Qed.
Lemma sumQ_reindex n p (f : nat -> Q) : perm_on n p -> sumQ (fun k => f (p k)) n == sumQ f n.
Proof.
  intros Hp. rewrite !sumQ_suml. rewrite <- (map_map p f). apply suml_perm. apply perm_map_seq. exact Hp.
Qed.

(* ---------- the same for guarded min / max ---------- *)
Definition oeq (a b : option Q) : Prop :=
  match a, b with None, None => True | Some x, Some y => x == y | _, _ => False end.
Lemma oeq_refl a : oeq a a. Proof. destruct a; cbn; reflexivity || exact I. Qed.
Lemma oeq_trans a b c : oeq a b -> oeq b c -> oeq a c.
Proof. destruct a, b, c; cbn; try tauto. intros H1 H2. rewrite H1. exact H2. Qed.

Record acop (f : Q -> Q -> Q) : Prop := {
  ac_proper : forall a a' b b', a == a' -> b == b' -> f a b == f a' b';
  ac_comm : forall a b, f a b == f b a;
  ac_assoc : forall a b c, f a (f b c) == f (f a b) c }.

Lemma Qle_bool_false a b : Qle_bool a b = false -> b < a.
Proof.
  intros H. destruct (Qlt_le_dec b a) as [Hl|Hl]; [exact Hl|]. apply Qle_bool_iff in Hl. congruence.
Qed.
Ltac qcase1 :=
  match goal with
  | |- context[Qle_bool ?a ?b] =>
      lazymatch a with context[Qle_bool] => fail | _ => idtac end;
      lazymatch b with context[Qle_bool] => fail | _ => idtac end;
      let E := fresh "E" in
      destruct (Qle_bool a b) eqn:E; [apply Qle_bool_iff in E|apply Qle_bool_false in E]; cbv iota
  end.
Ltac qcases := repeat qcase1.
Lemma qmin_ac : acop qmin.
Proof. split; intros; unfold qmin; qcases; lra. Qed.
Lemma qmax_ac : acop qmax.
Proof. split; intros; unfold qmax; qcases; lra. Qed.
Lemma bigop_ac o : acop (bigop_fun o).
Proof. destruct o; [exact qmin_ac|exact qmax_ac]. Qed.

Lemma olift_proper f : acop f -> forall a a' b b', oeq a a' -> oeq b b' -> oeq (olift f a b) (olift f a' b').
Proof.
  intros Hf a a' b b'. destruct a, a', b, b'; cbn; try tauto. intros; apply (ac_proper f Hf); assumption.
Qed.
Lemma olift_swap f : acop f -> forall x y r, oeq (olift f x (olift f y r)) (olift f y (olift f x r)).
Proof.
  intros Hf x y r. destruct x as [x|], y as [y|], r as [r|]; cbn; try reflexivity; try exact I.
  - rewrite (ac_assoc f Hf x y r), (ac_assoc f Hf y x r). apply (ac_proper f Hf); [apply (ac_comm f Hf)|reflexivity].
  - apply (ac_comm f Hf).
Qed.
Lemma ofold_perm f : acop f -> forall l l', Permutation l l' -> oeq (ofold f l) (ofold f l').
Proof.
  intros Hf. induction 1; cbn [ofold fold_right] in *.
  - exact I.
  - apply olift_proper; [exact Hf|apply oeq_refl|exact IHPermutation].
  - apply olift_swap; exact Hf.
  - eapply oeq_trans; eassumption.
Qed.
Lemma ofold_ext f : acop f -> forall (g g' : nat -> option Q) l,
  (forall k, oeq (g k) (g' k)) -> oeq (ofold f (map g l)) (ofold f (map g' l)).
Proof.
  intros Hf g g' l H. induction l as [|a l IH]; cbn [map ofold fold_right]; [exact I|].
  apply olift_proper; [exact Hf|apply H|exact IH].
Qed.
Lemma ofold_reindex f n p (g g' : nat -> option Q) : acop f -> perm_on n p ->
  (forall k, oeq (g k) (g' (p k))) ->
  oeq (ofold f (map g (seq 0 n))) (ofold f (map g' (seq 0 n))).
Proof.
  intros Hf Hp H.
  eapply oeq_trans; [apply (ofold_ext f Hf g (fun k => g' (p k))); exact H|].
  rewrite <- (map_map p g'). apply ofold_perm; [exact Hf|].
  apply Permutation_map. apply perm_map_seq. exact Hp.
Qed.

(* ---------- environments ---------- *)
Lemma alook_amap {T U} (f : T -> U) (l : list (nat * T)) x : alook (amap f l) x = option_map f (alook l x).
Proof.
  induction l as [|c l IH]; [reflexivity|]. cbn [amap map alook fst snd].
  destruct (Nat.eqb x (fst c)); [reflexivity|exact IH].
Qed.

Lemma binop_proper o a a' b b' : a == a' -> b == b' -> binop_sem o a b == binop_sem o a' b'.
Proof.
  intros Ha Hb. destruct o; cbn [binop_sem]; try (rewrite Ha, Hb; reflexivity).
  - unfold qmin; qcases; lra.
  - unfold qmax; qcases; lra.
Qed.

Lemma tab_out {T} (d : T) n m f i j : (n <= i \/ m <= j)%nat -> tab d n m f i j = d.
Proof.
  intros H. unfold tab, of_rows, to_rows.
  destruct (Nat.lt_ge_cases i n) as [Hi|Hi].
  - rewrite (nth_map_seq (fun i => map (f i) (seq 0 m)) [] n i Hi).
    apply nth_overflow. rewrite map_length, seq_length. lia.
  - rewrite (nth_overflow _ []); [destruct j; reflexivity|]. rewrite map_length, seq_length. exact Hi.
Qed.
Lemma tabv_out {T} (d : T) n f i : (n <= i)%nat -> tabv d n f i = d.
Proof. intros H. unfold tabv, of_list. apply nth_overflow. rewrite to_list_length. exact H. Qed.

(* ================================================================== *)
Section Equivariance.
Variable prims : nat -> Q -> Q.
Hypothesis prims_proper : forall k a b, a == b -> prims k a == prims k b.
Variable n : nat.
Variable p : nat -> nat.
Hypothesis Hp : perm_on n p.

(* me' is (pointwise, up to ==) the renumbering of me, etc. *)
Definition mrel (me' me : menv) : Prop := forall m i j, mget me' m i j == mget me m (p i) (p j).
Definition vrel (ve' ve : venv) : Prop := forall v i, vget ve' v i == vget ve v (p i).
Definition srel (se' se : senv) : Prop := forall s, sget se' s == sget se s.

Lemma p_inj_eqb i j : Nat.eqb (p i) (p j) = Nat.eqb i j.
Proof.
  destruct (Nat.eqb_spec i j) as [->|Hne]; [apply Nat.eqb_refl|].
  apply Nat.eqb_neq. intros H. apply (proj2 Hp) in H. contradiction.
Qed.

Lemma Qeq_bool_proper a b : a == b -> Qeq_bool a 0 = Qeq_bool b 0.
Proof.
  intros H. destruct (Qeq_bool b 0) eqn:E.
  - apply Qeq_bool_iff. apply Qeq_bool_iff in E. rewrite H. exact E.
  - destruct (Qeq_bool a 0) eqn:E'; [|reflexivity]. apply Qeq_bool_iff in E'. rewrite H in E'.
    apply Qeq_bool_iff in E'. congruence.
Qed.

(* THE THEOREM (terms): evaluating on the renumbered inputs at nodes env = evaluating on the original
   inputs at nodes p(env) *)
Lemma sem_equivariant : forall t me' me ve' ve se' se env,
  mrel me' me -> vrel ve' ve -> srel se' se ->
  sem prims n me' ve' se' env t == sem prims n me ve se (amap p env) t.
Proof.
  induction t; intros me' me ve' ve se' se env Hm Hv Hs; cbn [sem].
  - reflexivity.
  - reflexivity.
  - apply Hs.
  - rewrite !alook_amap. destruct (alook env x), (alook env y); cbn [option_map]; try reflexivity. apply Hm.
  - rewrite !alook_amap. destruct (alook env x); cbn [option_map]; [apply Hv|reflexivity].
  - rewrite !alook_amap. destruct (alook env x), (alook env y); cbn [option_map]; try reflexivity.
    rewrite p_inj_eqb. reflexivity.
  - apply binop_proper; [apply IHt1|apply IHt2]; assumption.
  - rewrite (Qeq_bool_proper _ _ (IHt1 me' me ve' ve se' se env Hm Hv Hs)).
    destruct (Qeq_bool (sem prims n me ve se (amap p env) t1) 0); [apply IHt3|apply IHt2]; assumption.
  - apply prims_proper. apply IHt; assumption.
  - rewrite !Qred_correct.
    rewrite (sumQ_ext _ (fun k => sem prims n me ve se ((x, p k) :: amap p env) t)).
    + apply (sumQ_reindex n p (fun k => sem prims n me ve se ((x, k) :: amap p env) t) Hp).
    + intros k _. apply (IHt me' me ve' ve se' se ((x, k) :: env)); assumption.
  - set (g' := fun k => if Qeq_bool (sem prims n me' ve' se' ((x, k) :: env) t1) 0 then None
                        else Some (sem prims n me' ve' se' ((x, k) :: env) t2)).
    set (g := fun k => if Qeq_bool (sem prims n me ve se ((x, k) :: amap p env) t1) 0 then None
                       else Some (sem prims n me ve se ((x, k) :: amap p env) t2)).
    assert (H : oeq (ofold (bigop_fun o) (map g' (seq 0 n))) (ofold (bigop_fun o) (map g (seq 0 n)))).
    { apply (ofold_reindex (bigop_fun o) n p g' g (bigop_ac o) Hp). intros k. unfold g', g.
      pose proof (IHt1 me' me ve' ve se' se ((x, k) :: env) Hm Hv Hs) as H1.
      pose proof (IHt2 me' me ve' ve se' se ((x, k) :: env) Hm Hv Hs) as H2.
      change (amap p ((x, k) :: env)) with ((x, p k) :: amap p env) in H1, H2.
      rewrite (Qeq_bool_proper _ _ H1).
      destruct (Qeq_bool (sem prims n me ve se ((x, p k) :: amap p env) t1) 0); [exact I|exact H2]. }
    destruct (ofold (bigop_fun o) (map g' (seq 0 n))), (ofold (bigop_fun o) (map g (seq 0 n))); cbn [oeq] in H;
      try contradiction; [exact H|apply IHt3; assumption].
Qed.

(* results *)
Definition rrel (r' r : res) : Prop :=
  match r', r with
  | RS a, RS b => a == b
  | RV u, RV v => forall i, u i == v (p i)
  | RM M', RM M => forall i j, M' i j == M (p i) (p j)
  | _, _ => False
  end.

Lemma mrel_cons me' me m M' M : mrel me' me -> (forall i j, M' i j == M (p i) (p j)) ->
  mrel ((m, M') :: me') ((m, M) :: me).
Proof.
  intros H HM m0 i j. unfold mget. cbn [alook fst snd]. destruct (Nat.eqb m0 m); [apply HM|apply H].
Qed.
Lemma vrel_cons ve' ve v V' V : vrel ve' ve -> (forall i, V' i == V (p i)) ->
  vrel ((v, V') :: ve') ((v, V) :: ve).
Proof.
  intros H HV v0 i. unfold vget. cbn [alook fst snd]. destruct (Nat.eqb v0 v); [apply HV|apply H].
Qed.
Lemma srel_cons se' se s a b : srel se' se -> a == b -> srel ((s, a) :: se') ((s, b) :: se).
Proof.
  intros H Hab s0. unfold sget. cbn [alook fst snd]. destruct (Nat.eqb s0 s); [exact Hab|apply H].
Qed.

Lemma vbody_rel t me' me ve' ve se' se : mrel me' me -> vrel ve' ve -> srel se' se ->
  forall i, vbody prims n me' ve' se' t i == vbody prims n me ve se t (p i).
Proof.
  intros Hm Hv Hs i. unfold vbody. rewrite !Qred_correct.
  apply (sem_equivariant t me' me ve' ve se' se [(0%nat, i)] Hm Hv Hs).
Qed.
Lemma mbody_rel t me' me ve' ve se' se : mrel me' me -> vrel ve' ve -> srel se' se ->
  forall i j, mbody prims n me' ve' se' t i j == mbody prims n me ve se t (p i) (p j).
Proof.
  intros Hm Hv Hs i j. unfold mbody. rewrite !Qred_correct.
  apply (sem_equivariant t me' me ve' ve se' se [(0%nat, i); (1%nat, j)] Hm Hv Hs).
Qed.

Lemma tabv_rel (f' f : vec Q) : (forall i, f' i == f (p i)) -> forall i, tabv 0 n f' i == tabv 0 n f (p i).
Proof.
  intros H i. destruct (Nat.lt_ge_cases i n) as [Hi|Hi].
  - rewrite !tabv_spec; [apply H| apply (perm_lt n p i Hp Hi) | exact Hi].
  - rewrite !tabv_out; [reflexivity|apply (perm_ge n p i Hp Hi)|exact Hi].
Qed.
Lemma tab_rel (f' f : mat Q) : (forall i j, f' i j == f (p i) (p j)) ->
  forall i j, tab 0 n n f' i j == tab 0 n n f (p i) (p j).
Proof.
  intros H i j.
  destruct (Nat.lt_ge_cases i n) as [Hi|Hi]; [destruct (Nat.lt_ge_cases j n) as [Hj|Hj]|].
  - rewrite !tab_spec; [apply H| apply (perm_lt n p i Hp Hi) | apply (perm_lt n p j Hp Hj) | exact Hi | exact Hj].
  - rewrite !tab_out; [reflexivity|right; apply (perm_ge n p j Hp Hj)|right; exact Hj].
  - rewrite !tab_out; [reflexivity|left; apply (perm_ge n p i Hp Hi)|left; exact Hi].
Qed.

Lemma iterf_rel {X} (R : X -> X -> Prop) (f' f : X -> X) k :
  (forall x' x, R x' x -> R (f' x') (f x)) -> forall x' x, R x' x -> R (iterf k f' x') (iterf k f x).
Proof. intros Hf. induction k; intros x' x Hx; cbn [iterf]; [exact Hx|]. apply IHk. apply Hf. exact Hx. Qed.

(* THE THEOREM (programs) *)
Lemma semp_equivariant : forall pr me' me ve' ve se' se,
  mrel me' me -> vrel ve' ve -> srel se' se ->
  rrel (semp prims n me' ve' se' pr) (semp prims n me ve se pr).
Proof.
  induction pr; intros me' me ve' ve se' se Hm Hv Hs; cbn [semp].
  - apply IHpr; try assumption. apply srel_cons; [exact Hs|]. rewrite !Qred_correct.
    apply (sem_equivariant t me' me ve' ve se' se [] Hm Hv Hs).
  - apply IHpr; try assumption. apply vrel_cons; [exact Hv|]. apply tabv_rel. apply vbody_rel; assumption.
  - apply IHpr; try assumption. apply mrel_cons; [exact Hm|]. apply tab_rel. apply mbody_rel; assumption.
  - apply IHpr; try assumption. apply vrel_cons; [exact Hv|].
    apply (iterf_rel (fun V' V : vec Q => forall i, V' i == V (p i))).
    + intros V' V HV. apply tabv_rel. apply vbody_rel; try assumption. apply vrel_cons; assumption.
    + apply tabv_rel. apply vbody_rel; assumption.
  - apply IHpr; try assumption. apply mrel_cons; [exact Hm|].
    apply (iterf_rel (fun M' M : mat Q => forall i j, M' i j == M (p i) (p j))).
    + intros M' M HM. apply tab_rel. apply mbody_rel; try assumption. apply mrel_cons; assumption.
    + apply tab_rel. apply mbody_rel; assumption.
  - cbn [rrel]. rewrite !Qred_correct. apply (sem_equivariant t me' me ve' ve se' se [] Hm Hv Hs).
  - cbn [rrel]. apply vbody_rel; assumption.
  - cbn [rrel]. apply mbody_rel; assumption.
Qed.

Lemma mrel_amap me : mrel (amap (pm p) me) me.
Proof. intros m i j. unfold mget. rewrite alook_amap. destruct (alook me m); cbn [option_map]; reflexivity. Qed.
Lemma vrel_amap ve : vrel (amap (pv p) ve) ve.
Proof. intros v i. unfold vget. rewrite alook_amap. destruct (alook ve v); cbn [option_map]; reflexivity. Qed.
Lemma srel_refl se : srel se se.
Proof. intros s. reflexivity. Qed.

(* statement in the form of the property text: term on p.A at env == term on A at p(env) *)
Theorem symterm_equivariant : forall t me ve se env,
  sem prims n (amap (pm p) me) (amap (pv p) ve) se env t == sem prims n me ve se (amap p env) t.
Proof. intros. apply sem_equivariant; [apply mrel_amap|apply vrel_amap|apply srel_refl]. Qed.

Theorem prog_equivariant : forall pr me ve se,
  rrel (semp prims n (amap (pm p) me) (amap (pv p) ve) se pr) (semp prims n me ve se pr).
Proof. intros. apply semp_equivariant; [apply mrel_amap|apply vrel_amap|apply srel_refl]. Qed.

(* measures: matrix input A, label vector ci, parameters ks *)
Lemma eval_rel pr A ci ks : rrel (eval prims n pr (pm p A) (pv p ci) ks) (eval prims n pr A ci ks).
Proof. unfold eval. apply (prog_equivariant pr [(0%nat, A)] [(0%nat, ci)] (inputs_s ks)). Qed.

Theorem measure_equivariant_scalar pr A ci ks :
  eval_s prims n pr (pm p A) (pv p ci) ks == eval_s prims n pr A ci ks.
Proof.
  unfold eval_s. pose proof (eval_rel pr A ci ks) as H.
  destruct (eval prims n pr (pm p A) (pv p ci) ks), (eval prims n pr A ci ks); cbn [rrel] in H;
    try contradiction; try reflexivity. exact H.
Qed.
Theorem measure_equivariant_vector pr A ci ks i :
  eval_v prims n pr (pm p A) (pv p ci) ks i == eval_v prims n pr A ci ks (p i).
Proof.
  unfold eval_v. pose proof (eval_rel pr A ci ks) as H.
  destruct (eval prims n pr (pm p A) (pv p ci) ks), (eval prims n pr A ci ks); cbn [rrel] in H;
    try contradiction; try reflexivity. apply H.
Qed.
Theorem measure_equivariant_matrix pr A ci ks i j :
  eval_m prims n pr (pm p A) (pv p ci) ks i j == eval_m prims n pr A ci ks (p i) (p j).
Proof.
  unfold eval_m. pose proof (eval_rel pr A ci ks) as H.
  destruct (eval prims n pr (pm p A) (pv p ci) ks), (eval prims n pr A ci ks); cbn [rrel] in H;
    try contradiction; try reflexivity. apply H.
Qed.
End Equivariance.

(* ---------- a renumbering given as a list (what the harness passes: A[ix_(l,l)]) ---------- *)
Lemma ext_perm_perm_on l n : Permutation l (seq 0 n) -> perm_on n (ext_perm l).
Proof.
  intros HP. pose proof (Permutation_length HP) as Hlen. rewrite seq_length in Hlen.
  assert (Hin : forall i, (i < n)%nat -> (nth i l i < n)%nat).
  { intros i Hi. assert (In (nth i l i) l) by (apply nth_In; lia).
    apply (Permutation_in _ HP) in H. apply in_seq in H. lia. }
  assert (Hnd : NoDup l) by (apply (Permutation_NoDup (Permutation_sym HP)), seq_NoDup).
  split.
  - intros i. unfold ext_perm. split; intros Hi; [apply Hin; exact Hi|].
    destruct (Nat.lt_ge_cases i n) as [H|H]; [exact H|]. rewrite nth_overflow in Hi by lia. exact Hi.
  - intros i j. unfold ext_perm. intros H.
    destruct (Nat.lt_ge_cases i n) as [Hi|Hi]; destruct (Nat.lt_ge_cases j n) as [Hj|Hj].
    + rewrite (nth_indep l i j) in H by lia.
      apply (proj1 (NoDup_nth l j) Hnd i j); lia || exact H.
    + rewrite (nth_overflow l j) in H by lia. specialize (Hin i Hi). lia.
    + rewrite (nth_overflow l i) in H by lia. specialize (Hin j Hj). lia.
    + rewrite !nth_overflow in H by lia. exact H.
Qed.
