(* Proofs/RewireInv.v — the edge-list/matrix invariant of the rewiring engine and its preservation
   by every attempt (accepted or not), for every draw. *)
From Coq Require Import ZArith List Arith Bool Lia QArith.
From BCT Require Import Base.Mat Base.ListX Model.Rewire Proofs.RewireSwap.
Import ListNotations.
Open Scope Z_scope.

(* the edge index arrays name exactly distinct present connections *)
Record Inv (und : bool) (n k : nat) (st : state) : Prop := mkInv {
  inv_range : forall e, (e < k)%nat -> (si st e < n)%nat /\ (sj st e < n)%nat;
  inv_present : forall e, (e < k)%nat -> sR st (si st e) (sj st e) <> 0;
  inv_distinct : forall e e', (e < k)%nat -> (e' < k)%nat -> e <> e' ->
      ~ (si st e = si st e' /\ sj st e = sj st e') /\
      (und = true -> ~ (si st e = sj st e' /\ sj st e = si st e'));
  inv_nodiag : und = true -> forall e, (e < k)%nat -> si st e <> sj st e;
  inv_sym : und = true -> forall x y, sR st x y = sR st y x
}.

(* what the property says must not change *)
Record Same (und : bool) (n : nat) (R R' : mat Z) : Prop := mkSame {
  same_out : forall x, outdeg n R' x = outdeg n R x;
  same_in : forall y, indeg n R' y = indeg n R y;
  same_w : forall w, wcount n R' w = wcount n R w;
  same_diag : forall x, R x x = 0 -> R' x x = 0;
  same_str : und = false -> forall x, outstr n R' x = outstr n R x
}.

Lemma Same_refl und n R : Same und n R R.
Proof. constructor; auto. Qed.
Lemma Same_trans und n R1 R2 R3 : Same und n R1 R2 -> Same und n R2 R3 -> Same und n R1 R3.
Proof.
  intros [A1 A2 A3 A4 A5] [B1 B2 B3 B4 B5]. constructor.
  - intros x. rewrite B1, A1. reflexivity.
  - intros x. rewrite B2, A2. reflexivity.
  - intros x. rewrite B3, A3. reflexivity.
  - intros x H. apply B4, A4, H.
  - intros H x. rewrite (B5 H), (A5 H). reflexivity.
Qed.

(* ---------- selection ---------- *)
Lemma randint_lt k z : (0 < k)%nat -> (randint k z < k)%nat.
Proof. intros Hk. unfold randint.
  assert (0 <= z mod Z.of_nat k < Z.of_nat k) by (apply Z.mod_pos_bound; lia). lia. Qed.

Lemma pop_e2_spec fuel k e1 s e2 s' : (0 < k)%nat ->
  pop_e2 fuel k e1 s = Some (e2, s') -> (e2 < k)%nat /\ e2 <> e1.
Proof.
  intros Hk. revert s. induction fuel as [|f IH]; intros s H; cbn [pop_e2] in H; [discriminate|].
  destruct s as [|[z|q|l] s1]; try discriminate.
  destruct (Nat.eqb_spec (randint k z) e1) as [E|E].
  - apply (IH s1 H).
  - inversion H; subst. split; [apply randint_lt; exact Hk|exact E].
Qed.

Lemma select_spec fuel k ei ej s e1 e2 s' : (0 < k)%nat ->
  select fuel k ei ej s = Some (e1, e2, s') ->
  (e1 < k)%nat /\ (e2 < k)%nat /\ e1 <> e2 /\ four_ok (ei e1) (ej e1) (ei e2) (ej e2) = true.
Proof.
  intros Hk. revert s. induction fuel as [|f IH]; intros s H; cbn [select] in H; [discriminate|].
  destruct s as [|[z|q|l] s1]; try discriminate.
  destruct (pop_e2 f k (randint k z) s1) as [[x s2]|] eqn:P; [|discriminate].
  destruct (four_ok (ei (randint k z)) (ej (randint k z)) (ei x) (ej x)) eqn:F.
  - inversion H; subst. destruct (pop_e2_spec _ _ _ _ _ _ Hk P) as [H1 H2].
    repeat split; auto. apply randint_lt; exact Hk.
  - apply (IH s2 H).
Qed.

Lemma four_ok_spec a b c d : four_ok a b c d = true <-> (a <> c /\ a <> d /\ b <> c /\ b <> d).
Proof. unfold four_ok. rewrite !andb_true_iff, !negb_true_iff, !Nat.eqb_neq. tauto. Qed.

(* ---------- flipping the orientation of a listed edge (undirected) ---------- *)
Lemma flip_inv n k st e2 : (e2 < k)%nat -> Inv true n k st ->
  Inv true n k (mkst (sR st) (vupd (si st) e2 (sj st e2)) (vupd (sj st) e2 (si st e2))).
Proof.
  intros He2 [I1 I2 I3 I4 I5].
  assert (C: forall e, (vupd (si st) e2 (sj st e2) e = if Nat.eqb e e2 then sj st e2 else si st e) /\
                       (vupd (sj st) e2 (si st e2) e = if Nat.eqb e e2 then si st e2 else sj st e)).
  { intros e. unfold vupd. split; reflexivity. }
  constructor; cbn [sR si sj].
  - intros e He. destruct (C e) as [-> ->]. destruct (Nat.eqb_spec e e2); [subst; destruct (I1 e2 He2); split; assumption|apply I1; exact He].
  - intros e He. destruct (C e) as [-> ->]. destruct (Nat.eqb_spec e e2).
    + subst. rewrite (I5 eq_refl). apply I2; exact He2.
    + apply I2; exact He.
  - intros e e' He He' Hne. destruct (C e) as [-> ->]. destruct (C e') as [-> ->].
    destruct (Nat.eqb_spec e e2) as [E|E]; destruct (Nat.eqb_spec e' e2) as [E'|E']; subst; try congruence.
    + destruct (I3 e2 e' He2 He' Hne) as [A B]. specialize (B eq_refl). split; [tauto|intros _; tauto].
    + destruct (I3 e e2 He He2 Hne) as [A B]. specialize (B eq_refl). split; [tauto|intros _; tauto].
    + apply I3; auto.
  - intros _ e He. destruct (C e) as [-> ->]. destruct (Nat.eqb_spec e e2); [subst; specialize (I4 eq_refl e2 He2); congruence|apply I4; auto].
  - exact I5.
Qed.

(* ---------- an accepted swap ---------- *)
Section Accept.
Variables (und : bool) (n k : nat) (st : state) (e1 e2 : nat).
Hypothesis HI : Inv und n k st.
Hypotheses (He1 : (e1 < k)%nat) (He2 : (e2 < k)%nat) (Hne : e1 <> e2).
Let a := si st e1. Let b := sj st e1. Let c := si st e2. Let d := sj st e2.
Hypothesis Hfour : four_ok a b c d = true.
Hypothesis Had0 : sR st a d = 0.
Hypothesis Hcb0 : sR st c b = 0.
Let R := sR st.
Let R' := if und then swap_und R a b c d else swap_dir R a b c d.
Let st' := mkst R' (si st) (vupd (vupd (sj st) e1 d) e2 b).

Lemma acc_facts : a <> c /\ a <> d /\ b <> c /\ b <> d /\ (a < n /\ b < n /\ c < n /\ d < n)%nat /\ R a b <> 0 /\ R c d <> 0 /\
  (und = true -> a <> b /\ c <> d /\ (forall x y, R x y = R y x)).
Proof.
  destruct HI as [I1 I2 I3 I4 I5].
  pose proof (proj1 (four_ok_spec _ _ _ _) Hfour) as (F1 & F2 & F3 & F4).
  destruct (I1 e1 He1) as [Ha Hb]. destruct (I1 e2 He2) as [Hc Hd].
  split; [exact F1|]. split; [exact F2|]. split; [exact F3|]. split; [exact F4|].
  split; [repeat split; assumption|].
  split; [apply I2; exact He1|]. split; [apply I2; exact He2|].
  intros Hu. split; [apply (I4 Hu e1 He1)|]. split; [apply (I4 Hu e2 He2)|apply (I5 Hu)].
Qed.

Lemma acc_same : Same und n R R'.
Proof.
  destruct acc_facts as (F1 & F2 & F3 & F4 & (Ha & Hb & Hc & Hd) & Hab1 & Hcd1 & Hu).
  unfold R'. destruct und eqn:U.
  - destruct (Hu eq_refl) as (Hab & Hcd & Hsym). constructor.
    + intros x. apply swap_und_outdeg; auto.
    + intros x. apply swap_und_indeg; auto.
    + intros w. apply swap_und_wcount; auto.
    + intros x H. rewrite swap_und_diag; auto.
    + discriminate.
  - constructor.
    + intros x. apply swap_dir_outdeg; auto.
    + intros x. apply swap_dir_indeg; auto.
    + intros w. apply swap_dir_wcount; auto.
    + intros x H. apply swap_dir_diag; auto.
    + intros _ x. apply swap_dir_outstr; auto.
Qed.

Lemma sj'_spec e : sj st' e = if Nat.eqb e e2 then b else if Nat.eqb e e1 then d else sj st e.
Proof. reflexivity. Qed.

(* cells of the matrix that keep their value *)
Lemma R'_keep x y : R x y <> 0 -> ~ (x = a /\ y = b) -> ~ (x = c /\ y = d) ->
  (und = true -> ~ (x = b /\ y = a) /\ ~ (x = d /\ y = c)) -> R' x y = R x y.
Proof.
  destruct acc_facts as (F1 & F2 & F3 & F4 & _ & Hab1 & Hcd1 & Hu).
  intros Hnz N1 N2 N3. unfold R'. destruct und eqn:U.
  - destruct (Hu eq_refl) as (Hab & Hcd & Hsym). destruct (N3 eq_refl) as [N4 N5].
    apply swap_und_other; auto. unfold touched. intros H.
    repeat destruct H as [H|H]; destruct H as [E1 E2]; subst x y;
      first [tauto | apply Hnz; exact Had0 | apply Hnz; rewrite Hsym; exact Had0
            | apply Hnz; exact Hcb0 | apply Hnz; rewrite Hsym; exact Hcb0].
  - apply swap_dir_other; auto; intros [E1 E2]; subst x y;
      first [tauto | apply Hnz; exact Had0 | apply Hnz; exact Hcb0].
Qed.

Lemma acc_inv : Inv und n k st'.
Proof.
  pose proof acc_facts as (F1 & F2 & F3 & F4 & (Ha & Hb & Hc & Hd) & Hab1 & Hcd1 & Hu).
  destruct HI as [I1 I2 I3 I4 I5].
  assert (Rad: R' a d = R a b).
  { unfold R'. destruct und; [destruct (Hu eq_refl) as (Hab & Hcd & _); apply swap_und_ad; auto|apply swap_dir_ad; auto]. }
  assert (Rcb: R' c b = R c d).
  { unfold R'. destruct und; [destruct (Hu eq_refl) as (Hab & Hcd & _); apply swap_und_cb; auto|apply swap_dir_cb; auto]. }
  (* an old edge other than e1, e2 keeps its cell and its value *)
  assert (Old: forall e, (e < k)%nat -> e <> e1 -> e <> e2 -> R' (si st e) (sj st e) = R (si st e) (sj st e)).
  { intros e He N1 N2. apply R'_keep.
    - apply I2; exact He.
    - intros [E1 E2]. destruct (I3 e e1 He He1 N1) as [A _]. apply A. split; assumption.
    - intros [E1 E2]. destruct (I3 e e2 He He2 N2) as [A _]. apply A. split; assumption.
    - intros U. split; intros [E1 E2].
      + destruct (I3 e e1 He He1 N1) as [_ B]. apply (B U). split; assumption.
      + destruct (I3 e e2 He He2 N2) as [_ B]. apply (B U). split; assumption. }
  constructor; cbn [sR si sj]; fold st'.
  - intros e He. rewrite sj'_spec. cbn [si st']. destruct (Nat.eqb_spec e e2); [subst; split; auto|].
    destruct (Nat.eqb_spec e e1); [subst; split; auto|apply I1; exact He].
  - intros e He. rewrite sj'_spec. cbn [si st' sR].
    destruct (Nat.eqb_spec e e2) as [->|N2]; [fold c; rewrite Rcb; exact Hcd1|].
    destruct (Nat.eqb_spec e e1) as [->|N1]; [fold a; rewrite Rad; exact Hab1|].
    rewrite Old by auto. apply I2; exact He.
  - intros e e' He He' Hee. rewrite !sj'_spec. cbn [si st'].
    (* new cells hold 0 in R, old listed cells do not *)
    assert (Z1: forall x, (x < k)%nat -> ~ (si st x = a /\ sj st x = d)).
    { intros x Hx [E1 E2]. apply (I2 x Hx). rewrite E1, E2. exact Had0. }
    assert (Z2: forall x, (x < k)%nat -> ~ (si st x = c /\ sj st x = b)).
    { intros x Hx [E1 E2]. apply (I2 x Hx). rewrite E1, E2. exact Hcb0. }
    assert (Z3: und = true -> forall x, (x < k)%nat -> ~ (si st x = d /\ sj st x = a)).
    { intros U x Hx [E1 E2]. apply (I2 x Hx). rewrite E1, E2. destruct (Hu U) as (_ & _ & Hsym). rewrite Hsym. exact Had0. }
    assert (Z4: und = true -> forall x, (x < k)%nat -> ~ (si st x = b /\ sj st x = c)).
    { intros U x Hx [E1 E2]. apply (I2 x Hx). rewrite E1, E2. destruct (Hu U) as (_ & _ & Hsym). rewrite Hsym. exact Hcb0. }
    destruct (Nat.eqb_spec e e2) as [->|N2]; destruct (Nat.eqb_spec e' e2) as [->|N2']; try congruence.
    + (* e = e2: cell (c,b) *)
      fold c. destruct (Nat.eqb_spec e' e1) as [->|N1'].
      * fold a. split; [intros [E _]; congruence|intros U [E1 E2]; destruct (Hu U) as (Hab & _ & _); congruence].
      * split; [intros [E1 E2]; apply (Z2 e' He'); split; congruence|
                intros U [E1 E2]; apply (Z4 U e' He'); split; congruence].
    + fold c. destruct (Nat.eqb_spec e e1) as [->|N1].
      * fold a. split; [intros [E _]; congruence|intros U [E1 E2]; destruct (Hu U) as (Hab & _ & _); congruence].
      * split; [intros [E1 E2]; apply (Z2 e He); split; congruence|
                intros U [E1 E2]; apply (Z4 U e He); split; congruence].
    + destruct (Nat.eqb_spec e e1) as [->|N1]; destruct (Nat.eqb_spec e' e1) as [->|N1']; try congruence.
      * fold a. split; [intros [E1 E2]; apply (Z1 e' He'); split; congruence|
                        intros U [E1 E2]; apply (Z3 U e' He'); split; congruence].
      * fold a. split; [intros [E1 E2]; apply (Z1 e He); split; congruence|
                        intros U [E1 E2]; apply (Z3 U e He); split; congruence].
      * apply I3; auto.
  - intros U e He. rewrite sj'_spec. cbn [si st']. destruct (Hu U) as (Hab & Hcd & _).
    destruct (Nat.eqb_spec e e2) as [->|N2]; [fold c; congruence|].
    destruct (Nat.eqb_spec e e1) as [->|N1]; [fold a; congruence|apply I4; auto].
  - intros U x y. cbn [st' sR]. unfold R'. rewrite U. destruct (Hu U) as (Hab & Hcd & Hsym).
    apply swap_und_sym; auto.
Qed.
End Accept.

(* ---------- one attempt ---------- *)
Lemma four_ok_flip a b c d : four_ok a b c d = true -> four_ok a b d c = true.
Proof. rewrite !four_ok_spec. tauto. Qed.

Lemma accept_ok und n k st1 e1 e2 a b c d :
  Inv und n k st1 -> (e1 < k)%nat -> (e2 < k)%nat -> e1 <> e2 ->
  a = si st1 e1 -> b = sj st1 e1 -> c = si st1 e2 -> d = sj st1 e2 ->
  four_ok a b c d = true -> sR st1 a d = 0 -> sR st1 c b = 0 ->
  let R' := if und then swap_und (sR st1) a b c d else swap_dir (sR st1) a b c d in
  Inv und n k (mkst R' (si st1) (vupd (vupd (sj st1) e1 d) e2 b)) /\ Same und n (sR st1) R'.
Proof.
  intros HI He1 He2 Hne -> -> -> -> Hf H1 H2. split.
  - apply acc_inv; assumption.
  - apply (acc_same und n k st1 e1 e2); assumption.
Qed.

Lemma attempt_spec v n k st s st' s' o : (0 < k)%nat ->
  Inv (v_und v) n k st -> attempt v k st s = Some (st', s', o) ->
  Inv (v_und v) n k st' /\ Same (v_und v) n (sR st) (sR st') /\ (o = None -> sR st' = sR st).
Proof.
  intros Hk HI H. unfold attempt in H.
  destruct (select (length s) k (si st) (sj st) s) as [[[e1 e2] s1]|] eqn:Sel; [|discriminate].
  destruct (select_spec _ _ _ _ _ _ _ _ Hk Sel) as (He1 & He2 & Hne & Hf).
  destruct (v_und v) eqn:U.
  - (* undirected: a flip draw *)
    destruct s1 as [|[z|q|l] s2]; try discriminate.
    destruct (Qgtb q (1 # 2)) eqn:Fl.
    + (* flipped *)
      set (st1 := mkst (sR st) (vupd (si st) e2 (sj st e2)) (vupd (sj st) e2 (si st e2))) in *.
      assert (HI1: Inv true n k st1) by (apply flip_inv; assumption).
      cbn [sR si sj st1] in H.
      destruct (Z.eqb (sR st (si st e1) (si st e2)) 0 && Z.eqb (sR st (sj st e2) (sj st e1)) 0 &&
                v_guard v (sR st) (si st e1) (sj st e1) (sj st e2) (si st e2))%bool eqn:G.
      * inversion H; subst; clear H.
        apply andb_true_iff in G. destruct G as [G _]. apply andb_true_iff in G. destruct G as [G1 G2].
        apply Z.eqb_eq in G1. apply Z.eqb_eq in G2.
        destruct (accept_ok true n k st1 e1 e2 (si st e1) (sj st e1) (sj st e2) (si st e2)) as [A B]; auto.
        -- cbn [st1 si]. rewrite vupd_other; auto.
        -- cbn [st1 sj]. rewrite vupd_other; auto.
        -- cbn [st1 si]. rewrite vupd_same. reflexivity.
        -- cbn [st1 sj]. rewrite vupd_same. reflexivity.
        -- apply four_ok_flip. exact Hf.
        -- split; [exact A|]. split; [exact B|discriminate].
      * inversion H; subst; clear H. split; [exact HI1|]. split; [apply Same_refl|reflexivity].
    + (* not flipped *)
      destruct (Z.eqb (sR st (si st e1) (sj st e2)) 0 && Z.eqb (sR st (si st e2) (sj st e1)) 0 &&
                v_guard v (sR st) (si st e1) (sj st e1) (si st e2) (sj st e2))%bool eqn:G.
      * inversion H; subst; clear H.
        apply andb_true_iff in G. destruct G as [G _]. apply andb_true_iff in G. destruct G as [G1 G2].
        apply Z.eqb_eq in G1. apply Z.eqb_eq in G2.
        destruct (accept_ok true n k st e1 e2 (si st e1) (sj st e1) (si st e2) (sj st e2)) as [A B]; auto.
        split; [exact A|]. split; [exact B|discriminate].
      * inversion H; subst; clear H. split; [exact HI|]. split; [apply Same_refl|reflexivity].
  - (* directed *)
    destruct (Z.eqb (sR st (si st e1) (sj st e2)) 0 && Z.eqb (sR st (si st e2) (sj st e1)) 0 &&
              v_guard v (sR st) (si st e1) (sj st e1) (si st e2) (sj st e2))%bool eqn:G.
    + inversion H; subst; clear H.
      apply andb_true_iff in G. destruct G as [G _]. apply andb_true_iff in G. destruct G as [G1 G2].
      apply Z.eqb_eq in G1. apply Z.eqb_eq in G2.
      destruct (accept_ok false n k st e1 e2 (si st e1) (sj st e1) (si st e2) (sj st e2)) as [A B]; auto.
      split; [exact A|]. split; [exact B|discriminate].
    + inversion H; subst; clear H. split; [exact HI|]. split; [apply Same_refl|reflexivity].
Qed.

(* ---------- the loops: every reachable state, every recorded event ---------- *)
Definition Good (und : bool) (n k : nat) (R0 : mat Z) (st : state) : Prop :=
  Inv und n k st /\ Same und n R0 (sR st).

Lemma attempts_spec v n k R0 left st s st' s' o : (0 < k)%nat ->
  Good (v_und v) n k R0 st -> attempts v k left st s = Some (st', s', o) ->
  Good (v_und v) n k R0 st' /\ (o = None -> sR st' = sR st).
Proof.
  intros Hk. revert st s. induction left as [|l IH]; intros st s [HI HS] H; cbn [attempts] in H.
  - inversion H; subst. split; [split; assumption|reflexivity].
  - destruct (attempt v k st s) as [[[st1 s1] [q|]]|] eqn:A; try discriminate.
    + inversion H; subst. destruct (attempt_spec _ _ _ _ _ _ _ _ Hk HI A) as (A1 & A2 & _).
      split; [split; [exact A1|eapply Same_trans; eassumption]|discriminate].
    + destruct (attempt_spec _ _ _ _ _ _ _ _ Hk HI A) as (A1 & A2 & A3).
      destruct (IH st1 s1 (conj A1 (Same_trans _ _ _ _ _ HS A2)) H) as [B1 B2].
      split; [exact B1|]. intros E. rewrite (B2 E). apply A3. reflexivity.
Qed.

Definition GoodTrace und n k R0 (tr : list event) : Prop := Forall (fun ev => Good und n k R0 (snd ev)) tr.

Lemma iterate_len v k ma iters st s tr st' s' tr' :
  iterate v k ma iters st s tr = Some (st', s', tr') -> (length tr <= length tr')%nat.
Proof.
  revert st s tr. induction iters as [|it IH]; intros st s tr H; cbn [iterate] in H.
  - inversion H; subst. lia.
  - destruct (attempts v k ma st s) as [[[st1 s1] [q|]]|]; try discriminate.
    + apply IH in H. rewrite app_length in H. cbn [length] in H. lia.
    + apply IH in H. exact H.
Qed.

Lemma iterate_spec v n k R0 ma iters st s tr st' s' tr' : (0 < k)%nat ->
  Good (v_und v) n k R0 st -> GoodTrace (v_und v) n k R0 tr ->
  iterate v k ma iters st s tr = Some (st', s', tr') ->
  Good (v_und v) n k R0 st' /\ GoodTrace (v_und v) n k R0 tr' /\
  (length tr' = length tr -> sR st' = sR st).
Proof.
  intros Hk. revert st s tr. induction iters as [|it IH]; intros st s tr HG HT H; cbn [iterate] in H.
  - inversion H; subst. auto.
  - destruct (attempts v k ma st s) as [[[st1 s1] [q|]]|] eqn:A; try discriminate.
    + destruct (attempts_spec _ _ _ _ _ _ _ _ _ _ Hk HG A) as [A1 _].
      assert (HT1: GoodTrace (v_und v) n k R0 (tr ++ [(q, st1)])).
      { apply Forall_app. split; [exact HT|]. constructor; [exact A1|constructor]. }
      destruct (IH st1 s1 _ A1 HT1 H) as (B1 & B2 & B3). split; [exact B1|]. split; [exact B2|].
      intros E. exfalso.
      pose proof (iterate_len _ _ _ _ _ _ _ _ _ _ H) as H0.
      rewrite app_length in H0. cbn [length] in H0. lia.
    + destruct (attempts_spec _ _ _ _ _ _ _ _ _ _ Hk HG A) as [A1 A2].
      destruct (IH st1 s1 _ A1 HT H) as (B1 & B2 & B3). split; [exact B1|]. split; [exact B2|].
      intros E. rewrite (B3 E). apply A2. reflexivity.
Qed.

Lemma until_swaps_spec v n k R0 fuel want st s tr st' s' tr' : (0 < k)%nat ->
  Good (v_und v) n k R0 st -> GoodTrace (v_und v) n k R0 tr ->
  until_swaps v k fuel want st s tr = Some (st', s', tr') ->
  Good (v_und v) n k R0 st' /\ GoodTrace (v_und v) n k R0 tr' /\ (want = O -> sR st' = sR st).
Proof.
  intros Hk. revert want st s tr. induction fuel as [|f IH]; intros want st s tr HG HT H.
  - destruct want; cbn [until_swaps] in H; [inversion H; subst; auto|discriminate].
  - destruct want as [|w]; cbn [until_swaps] in H; [inversion H; subst; auto|].
    destruct (attempt v k st s) as [[[st1 s1] [q|]]|] eqn:A; try discriminate.
    + destruct HG as [HI HS]. destruct (attempt_spec _ _ _ _ _ _ _ _ Hk HI A) as (A1 & A2 & _).
      assert (G1: Good (v_und v) n k R0 st1) by (split; [exact A1|eapply Same_trans; eassumption]).
      assert (HT1: GoodTrace (v_und v) n k R0 (tr ++ [(q, st1)])).
      { apply Forall_app. split; [exact HT|]. constructor; [exact G1|constructor]. }
      destruct (IH w st1 s1 _ G1 HT1 H) as (B1 & B2 & _). split; [exact B1|]. split; [exact B2|discriminate].
    + destruct HG as [HI HS]. destruct (attempt_spec _ _ _ _ _ _ _ _ Hk HI A) as (A1 & A2 & _).
      assert (G1: Good (v_und v) n k R0 st1) by (split; [exact A1|eapply Same_trans; eassumption]).
      destruct (IH (S w) st1 s1 _ G1 HT H) as (B1 & B2 & _). split; [exact B1|]. split; [exact B2|discriminate].
Qed.
