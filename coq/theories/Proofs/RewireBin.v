(* Proofs/RewireBin.v — randomizer_bin_und's swap is the undirected swap of the engine. *)
From Coq Require Import ZArith List Arith Bool Lia.
From BCT Require Import Base.Mat Base.ListX Model.Rewire Proofs.RewireSwap.
Open Scope Z_scope.

Section RBU.
Variables (R : mat Z) (a b c d : nat).
Hypotheses (Hab : a <> b) (Hac : a <> c) (Had : a <> d) (Hbc : b <> c) (Hbd : b <> d) (Hcd : c <> d).
Hypothesis Hsym : forall x y, R x y = R y x.
Hypothesis Hadm : rbu_admissible R a b c d = true.

Lemma rbu_facts : R a b = 1 /\ R c d = 1 /\ R c a = 0 /\ R c b = 0 /\ R d a = 0 /\ R d b = 0.
Proof. unfold rbu_admissible in Hadm. rewrite !andb_true_iff, !Z.eqb_eq in Hadm. tauto. Qed.

(* same matrix as the engine's undirected swap with the second edge taken as (d, c) *)
Lemma rbu_is_swap_und x y : rbu_swap R a b c d x y = swap_und R a b d c x y.
Proof.
  destruct rbu_facts as (F1 & F2 & F3 & F4 & F5 & F6).
  assert (G1: R b a = 1) by (rewrite Hsym; exact F1).
  assert (G2: R d c = 1) by (rewrite Hsym; exact F2).
  assert (Hdc : d <> c) by auto.
  destruct (touched_dec a b d c Hab Had Hac Hbd Hbc Hdc x y) as [T|T].
  - unfold touched in T.
    repeat destruct T as [T|T]; destruct T; subst x y;
    rewrite ?swap_und_ad, ?swap_und_ab, ?swap_und_da, ?swap_und_ba, ?swap_und_cb, ?swap_und_cd,
            ?swap_und_bc, ?swap_und_dc by auto;
    unfold rbu_swap, upd; eqb_cases.
  - rewrite swap_und_other by auto. unfold touched in T.
    unfold rbu_swap, upd. eqb_cases; exfalso; apply T; tauto.
Qed.

Variable n : nat.
Hypotheses (Ha : (a < n)%nat) (Hb : (b < n)%nat) (Hc : (c < n)%nat) (Hd : (d < n)%nat).

Theorem rbu_step :
  (forall x, outdeg n (rbu_swap R a b c d) x = outdeg n R x) /\
  (forall w, wcount n (rbu_swap R a b c d) w = wcount n R w) /\
  (forall x y, rbu_swap R a b c d x y = rbu_swap R a b c d y x) /\
  (forall x, rbu_swap R a b c d x x = R x x).
Proof.
  destruct rbu_facts as (F1 & F2 & F3 & F4 & F5 & F6).
  assert (E: forall x y, rbu_swap R a b c d x y = swap_und R a b d c x y) by apply rbu_is_swap_und.
  assert (Hac0: R a c = 0) by (rewrite Hsym; exact F3).
  assert (Hdc1: R d c <> 0) by (rewrite Hsym, F2; lia).
  assert (Hab1: R a b <> 0) by (rewrite F1; lia).
  split; [|split; [|split]].
  - intros x. unfold outdeg. rewrite (sumn_ext _ (fun y => nz (swap_und R a b d c x y))) by (intros; rewrite E; reflexivity).
    apply swap_und_outdeg; auto.
  - intros w. unfold wcount, sum2.
    rewrite (sumn_ext _ (fun x => sumn (fun y => b2z (Z.eqb (swap_und R a b d c x y) w)) n))
      by (intros; apply sumn_ext; intros; rewrite E; reflexivity).
    apply swap_und_wcount; auto.
  - intros x y. rewrite !E. apply swap_und_sym; auto.
  - intros x. rewrite E. apply swap_und_diag; auto.
Qed.
End RBU.
