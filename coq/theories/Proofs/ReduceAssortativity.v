(* Proofs/ReduceAssortativity.v — C10 (models: Model/Assortativity.v):
   * on a 0/1 matrix assortativity_wei returns what assortativity_bin returns (every flag 0-4; the
     property text asks for the undirected flag 0);
   * assortativity_bin ignores the weights: same value on W (ANY entries) and on binarize(W).
   The code has no square root: the returned value is compared as a rational expression
   (option Q, None = non-finite float on both sides). *)
From Coq Require Import QArith List Arith Bool ZArith Lia Lqa.
From BCT Require Import Base.Mat Base.SumQ Base.ListX Model.Threshold Model.Clustering Model.Assortativity
  Proofs.ClusteringSpec Proofs.Clustering Proofs.ClusteringReduce.
Import ListNotations.
Open Scope Q_scope.

Lemma sumP_ext f g l : (forall c, In c l -> f c == g c) -> sumP f l == sumP g l.
Proof.
  induction l as [|c l IH]; intros H; cbn [sumP fold_right]; [reflexivity|].
  fold (sumP f l). fold (sumP g l). rewrite (H c (or_introl eq_refl)), IH; [reflexivity|].
  intros d Hd. apply H. right. exact Hd.
Qed.

Definition inside (n : nat) (E : list (nat * nat)) : Prop := forall c, In c E -> (fst c < n)%nat /\ (snd c < n)%nat.

Lemma assort_core_ext n E di dj di' dj' : inside n E ->
  (forall v, (v < n)%nat -> di v == di' v) -> (forall v, (v < n)%nat -> dj v == dj' v) ->
  oeq (assort_core E di dj) (assort_core E di' dj').
Proof.
  intros HE Hi Hj. unfold assort_core. cbv zeta.
  destruct (Qeq_bool (inject_Z (Z.of_nat (length E))) 0); [exact I|].
  assert (E1 : sumP (fun c => di (fst c) * dj (snd c)) E == sumP (fun c => di' (fst c) * dj' (snd c)) E).
  { apply sumP_ext. intros c Hc. destruct (HE c Hc) as [H1 H2]. rewrite (Hi _ H1), (Hj _ H2). reflexivity. }
  assert (E2 : sumP (fun c => (1 # 2) * (di (fst c) + dj (snd c))) E == sumP (fun c => (1 # 2) * (di' (fst c) + dj' (snd c))) E).
  { apply sumP_ext. intros c Hc. destruct (HE c Hc) as [H1 H2]. rewrite (Hi _ H1), (Hj _ H2). reflexivity. }
  assert (E3 : sumP (fun c => (1 # 2) * (di (fst c) * di (fst c) + dj (snd c) * dj (snd c))) E ==
               sumP (fun c => (1 # 2) * (di' (fst c) * di' (fst c) + dj' (snd c) * dj' (snd c))) E).
  { apply sumP_ext. intros c Hc. destruct (HE c Hc) as [H1 H2]. rewrite (Hi _ H1), (Hj _ H2). reflexivity. }
  apply odiv_ext; [rewrite E1, E2|rewrite E3, E2]; reflexivity.
Qed.

Lemma edges_triu_inside n M : inside n (edges_triu n M).
Proof. intros [i j] H. unfold edges_triu in H. apply filter_In in H. destruct H as [H _]. apply cells_In in H. exact H. Qed.
Lemma edges_all_inside n M : inside n (edges_all n M).
Proof. intros [i j] H. unfold edges_all in H. apply filter_In in H. destruct H as [H _]. apply cells_In in H. exact H. Qed.

Lemma edges_triu_nz_inside n M : inside n (edges_triu_nz n M).
Proof. intros [i j] H. unfold edges_triu_nz in H. apply filter_In in H. destruct H as [H _]. apply cells_In in H. exact H. Qed.
Lemma edges_all_nz_inside n M : inside n (edges_all_nz n M).
Proof. intros [i j] H. unfold edges_all_nz in H. apply filter_In in H. destruct H as [H _]. apply cells_In in H. exact H. Qed.

(* ---------- 0/1 input: strengths are degrees ---------- *)
Lemma colsum_binary n A v : binary n A -> (v < n)%nat -> colsum n A v == colsum n (binarize A) v.
Proof. intros Hb Hv. unfold colsum. apply sumQ_ext. intros i Hi. symmetry. apply (binarize_binary n); assumption. Qed.
Lemma rowsum_binary n A v : binary n A -> (v < n)%nat -> rowsum n A v == rowsum n (binarize A) v.
Proof. intros Hb Hv. unfold rowsum. apply sumQ_ext. intros i Hi. symmetry. apply (binarize_binary n); assumption. Qed.

Lemma Qltb_true a b : Qltb a b = true <-> a < b.
Proof.
  unfold Qltb. rewrite negb_true_iff. split.
  - intros H. apply Qnot_le_lt. intros Hle. apply Qle_bool_iff in Hle. congruence.
  - intros H. destruct (Qle_bool b a) eqn:E; [|reflexivity]. apply Qle_bool_iff in E. lra.
Qed.

(* on a 0/1 matrix `> 0` (assortativity_wei) and `!= 0` (assortativity_bin) select the same cells *)
Lemma pos_nz_binary n A i j : binary n A -> (i < n)%nat -> (j < n)%nat ->
  Qltb 0 (A i j) = negb (Qeq_bool (A i j) 0).
Proof.
  intros Hb Hi Hj. destruct (Hb i j Hi Hj) as [E|E].
  - assert (Qeq_bool (A i j) 0 = true) as -> by (apply Qeq_bool_iff; exact E). cbn [negb].
    destruct (Qltb 0 (A i j)) eqn:L; [apply Qltb_true in L; lra|reflexivity].
  - destruct (Qeq_bool (A i j) 0) eqn:Z; [apply Qeq_bool_iff in Z; lra|]. cbn [negb]. apply Qltb_true. lra.
Qed.
Lemma edges_triu_binary n A : binary n A -> edges_triu n A = edges_triu_nz n A.
Proof.
  intros Hb. unfold edges_triu, edges_triu_nz. apply filter_ext_in. intros [i j] Hc. apply cells_In in Hc. cbn [fst snd].
  rewrite (pos_nz_binary n A i j Hb); tauto.
Qed.
Lemma edges_all_binary n A : binary n A -> edges_all n A = edges_all_nz n A.
Proof.
  intros Hb. unfold edges_all, edges_all_nz. apply filter_ext_in. intros [i j] Hc. apply cells_In in Hc. cbn [fst snd].
  apply (pos_nz_binary n A i j Hb); tauto.
Qed.

Theorem assortativity_wei_bin_eq_bin n A flag : binary n A ->
  oeq (assortativity_wei n A flag) (assortativity_bin n A flag).
Proof.
  intros Hb. unfold assortativity_wei, assortativity_bin. cbv zeta.
  rewrite (edges_triu_binary n A Hb), (edges_all_binary n A Hb).
  do 5 (destruct flag as [|flag];
        [apply (assort_core_ext n); try apply edges_triu_nz_inside; try apply edges_all_nz_inside;
         intros v Hv; unfold strengths_und, degrees_und, degrees_dir; cbn [fst snd];
         first [apply colsum_binary|apply rowsum_binary]; assumption|]).
  exact I.
Qed.

(* ---------- assortativity_bin ignores the weights: ALL weights (after the repair `!= 0`) ---------- *)
Lemma nz_binarize W i j : negb (Qeq_bool (binarize W i j) 0) = negb (Qeq_bool (W i j) 0).
Proof.
  unfold binarize, qnz. destruct (Qeq_bool (W i j) 0) eqn:E; cbn [negb]; [rewrite E; reflexivity|reflexivity].
Qed.
Lemma edges_triu_nz_binarize n W : edges_triu_nz n (binarize W) = edges_triu_nz n W.
Proof. unfold edges_triu_nz. apply filter_ext. intros c. rewrite nz_binarize. reflexivity. Qed.
Lemma edges_all_nz_binarize n W : edges_all_nz n (binarize W) = edges_all_nz n W.
Proof. unfold edges_all_nz. apply filter_ext. intros c. apply nz_binarize. Qed.

Theorem assortativity_bin_ignores_weights n W flag :
  oeq (assortativity_bin n W flag) (assortativity_bin n (binarize W) flag).
Proof.
  unfold assortativity_bin. cbv zeta.
  rewrite (edges_triu_nz_binarize n W), (edges_all_nz_binarize n W).
  do 5 (destruct flag as [|flag];
        [apply (assort_core_ext n); try apply edges_triu_nz_inside; try apply edges_all_nz_inside;
         intros v Hv; pose proof (degrees_ignore_weights n W v) as [D0 [D1 [D2 _]]];
         first [exact D0|exact D1|exact D2]|]).
  exact I.
Qed.

(* the input on which the unrepaired code (`> 0`) gave -4/5 on W and -5/7 on binarize(W): now -5/7 on both *)
Definition neg_witness : mat Q := of_rows 0 [[0; - (2); 1; 0]; [- (2); 0; 1; 0]; [1; 1; 0; 1]; [0; 0; 1; 0]]%list.
Lemma neg_witness_values :
  oeq (assortativity_bin 4 neg_witness 0) (Some (- (5 # 7))) /\ oeq (assortativity_bin 4 (binarize neg_witness) 0) (Some (- (5 # 7))).
Proof. split; vm_compute; reflexivity. Qed.
