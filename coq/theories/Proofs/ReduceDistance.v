(* Proofs/ReduceDistance.v — C10: on a 0/1 matrix distance_wei returns what distance_bin returns, and
   efficiency_wei (global) returns what efficiency_bin (global) returns.  Both models are those of
   Model/Distance.v (the ones C03 ties to the code); the proof goes through the shared specification:
   both outputs are THE minimum walk length (dist_correct, C03), and the minimum is unique. *)
From Coq Require Import QArith List Arith Bool ZArith Lia Lqa.
From BCT Require Import Base.Mat Base.ListX Model.Distance
  Proofs.DistanceBase Proofs.DistanceBin Proofs.DistanceOther Proofs.DistanceWei.
Import ListNotations.
Open Scope Q_scope.

(* the same 0/1 matrix given once with integer entries (input of the binary routines' models) and once with
   rational entries (input of the weighted routines' models) *)
Definition rel01 (n : nat) (A : mat Z) (W : mat Q) : Prop :=
  forall i j, (i < n)%nat -> (j < n)%nat -> (A i j = 0%Z /\ W i j == 0) \/ (A i j = 1%Z /\ W i j == 1).

(* equality of the returned scalars (nan = nan, inf = inf, finite values equal as rationals) *)
Definition ext_eq (a b : ext) : Prop :=
  match a, b with ENaN, ENaN => True | EInf, EInf => True | EFin x, EFin y => x == y | _, _ => False end.

(* ---------- the specification does not see the representation of the lengths ---------- *)
Lemma wl_oeq n L L' : (forall i j, (i < n)%nat -> (j < n)%nat -> oeq (L i j) (L' i j)) ->
  forall mid i j, (i < n)%nat -> (j < n)%nat -> below n mid -> oeq (wl L i mid j) (wl L' i mid j).
Proof.
  intros H. induction mid as [|m r IH]; intros i j Hi Hj Hb; cbn [wl].
  - apply H; assumption.
  - apply below_cons in Hb. destruct Hb as [Hm Hr].
    specialize (IH m j Hm Hj Hr). specialize (H i m Hi Hm).
    destruct (L i m), (L' i m), (wl L m r j), (wl L' m r j); cbn [oadd oeq] in *; try tauto. lra.
Qed.

Lemma is_min_dist_oeq n L L' : (forall i j, (i < n)%nat -> (j < n)%nat -> oeq (L i j) (L' i j)) ->
  forall i j d, (i < n)%nat -> (j < n)%nat -> is_min_dist n L i j d -> is_min_dist n L' i j d.
Proof.
  intros H i j d Hi Hj. destruct d as [x|]; cbn [is_min_dist].
  - intros [[mid [Hb [y [Hw Hy]]]] Hmin]. split.
    + exists mid. split; [exact Hb|]. pose proof (wl_oeq n L L' H mid i j Hi Hj Hb) as E. rewrite Hw in E.
      destruct (wl L' i mid j) as [y'|]; cbn [oeq] in E; [|contradiction]. exists y'. split; [reflexivity|]. lra.
    + intros mid2 y2 Hb2 Hw2. pose proof (wl_oeq n L L' H mid2 i j Hi Hj Hb2) as E. rewrite Hw2 in E.
      destruct (wl L i mid2 j) as [y'|] eqn:Ew; cbn [oeq] in E; [|contradiction].
      specialize (Hmin mid2 y' Hb2 Ew). lra.
  - intros Hnone mid Hb. pose proof (wl_oeq n L L' H mid i j Hi Hj Hb) as E. rewrite (Hnone mid Hb) in E.
    destruct (wl L' i mid j); cbn [oeq] in E; [contradiction|reflexivity].
Qed.

Lemma rel01_lengths n A W : rel01 n A W ->
  forall i j, (i < n)%nat -> (j < n)%nat -> oeq (Lg W i j) (Lbin A i j).
Proof.
  intros H i j Hi Hj. unfold Lg, Lbin. destruct (H i j Hi Hj) as [[EA EW]|[EA EW]]; rewrite EA; cbn [Z.eqb].
  - destruct (Qeq_bool (W i j) 0) eqn:E; [exact I|]. apply Qeq_bool_neq in E. contradiction.
  - destruct (Qeq_bool (W i j) 0) eqn:E; cbn [oeq]; [|exact EW]. apply Qeq_bool_iff in E. lra.
Qed.

Lemma rel01_nonneg n A W : rel01 n A W -> forall i j, (i < n)%nat -> (j < n)%nat -> 0 <= W i j.
Proof. intros H i j Hi Hj. destruct (H i j Hi Hj) as [[_ E]|[_ E]]; lra. Qed.

Lemma nq_inj a b : nq a == nq b -> a = b.
Proof. unfold nq. intros H. apply (proj1 (inject_Z_injective _ _)) in H. lia. Qed.

(* ---------- distance_wei = distance_bin on 0/1 input ---------- *)
(* D (weighted distances): inf where distance_bin has inf, the same number elsewhere, diagonal included;
   B (number of edges in the shortest weighted path): the same number wherever the distance is finite *)
Theorem distance_wei_bin_eq_bin n A W D B D' :
  rel01 n A W -> distance_wei n W = Some (D, B) -> distance_bin n A = Some D' ->
  forall i j, (i < n)%nat -> (j < n)%nat ->
    oeq (D i j) (olen_of_nat (D' i j)) /\ (forall k, D' i j = Some k -> B i j = k).
Proof.
  intros Hrel Hw Hb i j Hi Hj.
  destruct (Nat.eq_dec i j) as [<-|Hne].
  - destruct (distance_wei_diag_zero n W D B Hw i Hi) as [E1 E2].
    rewrite E1, E2, (distance_bin_diag_zero n A D' Hb i). cbn [olen_of_nat oeq]. split; [reflexivity|].
    intros k Hk. injection Hk as <-. reflexivity.
  - destruct (distance_wei_correct n W D B (rel01_nonneg n A W Hrel) Hw) as [Hd [Hhop _]].
    pose proof (distance_bin_correct n A D' Hb i j Hi Hj Hne) as Hd'. cbv beta in Hd'.
    pose proof (is_min_dist_oeq n (Lg W) (Lbin A) (rel01_lengths n A W Hrel) i j _ Hi Hj (Hd i j Hi Hj Hne)) as Hd2.
    pose proof (is_min_dist_unique n (Lbin A) i j _ _ Hd2 Hd') as E.
    split; [exact E|].
    intros k Hk. rewrite Hk in E. cbn [olen_of_nat] in E.
    destruct (D i j) as [x|] eqn:Ex; cbn [oeq] in E; [|contradiction].
    destruct (Hhop i j x Hi Hj Hne Ex) as [mid [Hbm [Hlen Hwl]]].
    pose proof (wl_oeq n (Lg W) (Lbin A) (rel01_lengths n A W Hrel) mid i j Hi Hj Hbm) as E2.
    pose proof (wl_bin A mid i j) as E3.
    destruct (wl (Lg W) i mid j) as [y|]; cbn [oeq] in Hwl; [|contradiction].
    destruct (wl (Lbin A) i mid j) as [y'|]; cbn [oeq] in E2; [|contradiction].
    destruct E3 as [_ E3]. rewrite Hlen in E3. apply nq_inj. lra.
Qed.

(* ---------- efficiency_wei = efficiency_bin (global) on 0/1 input ---------- *)
Lemma rel01_invert n A W : rel01 n A W -> rel01 n A (invertQ W).
Proof.
  intros H i j Hi Hj. unfold invertQ. destruct (H i j Hi Hj) as [[EA EW]|[EA EW]]; [left|right]; (split; [exact EA|]).
  - destruct (Qeq_bool (W i j) 0); [exact EW|]. rewrite EW. reflexivity.
  - destruct (Qeq_bool (W i j) 0) eqn:E; [exact EW|]. rewrite EW. reflexivity.
Qed.

Lemma fold_Qplus_ext {T} (f g : T -> Q) l : (forall c, In c l -> f c == g c) ->
  forall a b, a == b -> fold_left Qplus (map f l) a == fold_left Qplus (map g l) b.
Proof.
  induction l as [|c l IH]; intros H a b E; cbn [map fold_left]; [exact E|].
  apply IH; [intros; apply H; right; assumption|]. rewrite E, (H c (or_introl eq_refl)). reflexivity.
Qed.
Lemma qsum_map_ext {T} (f g : T -> Q) l : (forall c, In c l -> f c == g c) -> qsum (map f l) == qsum (map g l).
Proof. intros H. unfold qsum. apply fold_Qplus_ext; [exact H|reflexivity]. Qed.

Lemma oinv_oeq a b : oeq a b -> oinv a == oinv b.
Proof. destruct a, b; cbn [oeq oinv]; intros H; try contradiction; [rewrite H|]; reflexivity. Qed.

Lemma mean_inv_oeq n D D' : (forall i j, (i < n)%nat -> (j < n)%nat -> oeq (D i j) (D' i j)) ->
  ext_eq (mean_inv n D) (mean_inv n D').
Proof.
  intros H. unfold mean_inv. destruct (Nat.eqb (n * n - n) 0); cbn [ext_eq]; [exact I|].
  apply Qmult_comp; [|reflexivity]. apply qsum_map_ext. intros [i j] Hin. apply offdiag_spec in Hin.
  cbn [fst snd]. apply oinv_oeq. apply H; tauto.
Qed.

Theorem efficiency_wei_bin_eq_bin n A W ew eb :
  rel01 n A W -> efficiency_wei n W = Some ew -> efficiency_bin n A = Some eb -> ext_eq ew eb.
Proof.
  intros Hrel. unfold efficiency_wei, efficiency_bin.
  destruct (distance_wei n (invertQ W)) as [[D B]|] eqn:Ew; [|discriminate].
  destruct (distance_bin n A) as [D'|] eqn:Eb; [|discriminate].
  intros H1 H2. injection H1 as <-. injection H2 as <-.
  apply mean_inv_oeq. intros i j Hi Hj.
  exact (proj1 (distance_wei_bin_eq_bin n A (invertQ W) D B D' (rel01_invert n A W Hrel) Ew Eb i j Hi Hj)).
Qed.
