(* Proofs/Partition.v — relabelling keeps the partition; every consumer is a function of the relation
   "i and j carry the same label" only (sums over the modules 1..K are turned into sums over nodes). *)
From Coq Require Import QArith Qring Qfield Lia Lqa Arith List Bool ZArith.
From BCT Require Import Base.Mat Base.SumQ Base.ListX Model.Partition.
Import ListNotations.
Open Scope Q_scope.

(* ---------- rank / relabel ---------- *)
Lemma In_to_list {T} n (f : vec T) i : (i < n)%nat -> In (f i) (to_list n f).
Proof. intros Hi. unfold to_list. apply in_map. apply in_seq. lia. Qed.

Lemma rank_lt l x y : (x < y)%Z -> In x l -> (rank l x < rank l y)%nat.
Proof.
  intros Hxy Hx. unfold rank.
  set (A := nodup Z.eq_dec (filter (fun z => Z.ltb z x) l)).
  set (B := nodup Z.eq_dec (filter (fun z => Z.ltb z y) l)).
  assert (HA : NoDup (x :: A)).
  { constructor; [|apply NoDup_nodup]. unfold A. rewrite nodup_In, filter_In. intros [_ H]. apply Z.ltb_lt in H. lia. }
  assert (Hincl : incl (x :: A) B).
  { intros z [<-|Hz]; unfold B; rewrite nodup_In, filter_In.
    - split; [exact Hx|apply Z.ltb_lt; exact Hxy].
    - unfold A in Hz. rewrite nodup_In, filter_In in Hz. destruct Hz as [Hz Hlt]. split; [exact Hz|].
      apply Z.ltb_lt in Hlt. apply Z.ltb_lt. lia. }
  pose proof (NoDup_incl_length HA Hincl) as H. cbn [length] in H. lia.
Qed.

Lemma rank_inj l x y : In x l -> In y l -> rank l x = rank l y -> x = y.
Proof.
  intros Hx Hy H. destruct (Z.lt_trichotomy x y) as [Hlt|[Heq|Hgt]]; [|exact Heq|].
  - pose proof (rank_lt l x y Hlt Hx). lia.
  - pose proof (rank_lt l y x Hgt Hy). lia.
Qed.

Lemma rank_le_length l x : (rank l x <= length l)%nat.
Proof.
  unfold rank. etransitivity; [apply NoDup_incl_length; [apply NoDup_nodup|]|].
  - intros z Hz. apply nodup_In in Hz. exact Hz.
  - clear. induction l as [|a l IH]; cbn [filter length]; [lia|]. destruct (Z.ltb a x); cbn [length]; lia.
Qed.

Lemma relabel_spec n ci i : (i < n)%nat -> relabel n ci i = S (rank (to_list n ci) (ci i)).
Proof. intros Hi. unfold relabel. rewrite tabv_spec by exact Hi. reflexivity. Qed.

(* the relabelled vector induces the same partition *)
Theorem relabel_same n ci i j : (i < n)%nat -> (j < n)%nat -> (relabel n ci i = relabel n ci j <-> ci i = ci j).
Proof.
  intros Hi Hj. rewrite (relabel_spec n ci i Hi), (relabel_spec n ci j Hj). split.
  - intros H. injection H as H. apply (rank_inj (to_list n ci)); [apply In_to_list; exact Hi|apply In_to_list; exact Hj|exact H].
  - intros H. rewrite H. reflexivity.
Qed.

(* ... keeps the ORDER of the labels (so block order may permute under a non-monotone renaming) *)
Theorem relabel_monotone n ci i j : (i < n)%nat -> (j < n)%nat -> (ci i < ci j)%Z -> (relabel n ci i < relabel n ci j)%nat.
Proof.
  intros Hi Hj H. rewrite (relabel_spec n ci i Hi), (relabel_spec n ci j Hj).
  pose proof (rank_lt (to_list n ci) (ci i) (ci j) H (In_to_list n ci i Hi)). lia.
Qed.

Lemma vmax_ge n (c : vec nat) i : (i < n)%nat -> (c i <= vmax n c)%nat.
Proof.
  intros Hi. unfold vmax. pose proof (In_to_list n c i Hi) as Hin. revert Hin. generalize (to_list n c) as l.
  induction l as [|a l IH]; cbn [In fold_right]; [contradiction|]. intros [->|H]; [lia|]. specialize (IH H). lia.
Qed.

(* labels in 1..K with K = the maximum *)
Definition canon (n : nat) (c : vec nat) : Prop := forall i, (i < n)%nat -> (1 <= c i <= vmax n c)%nat.
Lemma relabel_canon n ci : canon n (relabel n ci).
Proof. intros i Hi. split; [rewrite relabel_spec by exact Hi; lia|apply vmax_ge; exact Hi]. Qed.
Lemma relabel_le n ci i : (i < n)%nat -> (relabel n ci i <= n)%nat.
Proof.
  intros Hi. rewrite relabel_spec by exact Hi.
  (* ci i itself is a label that is not smaller than ci i *)
  unfold rank. set (l := to_list n ci).
  assert (HA : NoDup (ci i :: nodup Z.eq_dec (filter (fun z => Z.ltb z (ci i)) l))).
  { constructor; [|apply NoDup_nodup]. rewrite nodup_In, filter_In. intros [_ H]. apply Z.ltb_lt in H. lia. }
  assert (Hincl : incl (ci i :: nodup Z.eq_dec (filter (fun z => Z.ltb z (ci i)) l)) (nodup Z.eq_dec l)).
  { intros z [<-|Hz]; rewrite nodup_In; [apply In_to_list; exact Hi|].
    rewrite nodup_In, filter_In in Hz. tauto. }
  pose proof (NoDup_incl_length HA Hincl) as H. cbn [length] in H.
  assert (length (nodup Z.eq_dec l) <= length l)%nat.
  { apply NoDup_incl_length; [apply NoDup_nodup|]. intros z Hz. apply nodup_In in Hz. exact Hz. }
  unfold l in *. rewrite to_list_length in *. lia.
Qed.

(* two label vectors describe the same partition of 0..n-1 *)
Definition same_part {A B} (n : nat) (c : vec A) (c' : vec B) : Prop :=
  forall i j, (i < n)%nat -> (j < n)%nat -> (c i = c j <-> c' i = c' j).

Theorem relabel_injective_invariant n ci (g : Z -> Z) : (forall x y, g x = g y -> x = y) ->
  same_part n (relabel n (fun i => g (ci i))) (relabel n ci) /\ same_part n (relabel n ci) ci.
Proof.
  intros Hg. split; intros i j Hi Hj.
  - rewrite (relabel_same n _ i j Hi Hj), (relabel_same n ci i j Hi Hj). split; [apply Hg|intros ->; reflexivity].
  - apply relabel_same; assumption.
Qed.

Lemma same_part_relabel n ci ci' : same_part n ci ci' -> same_part n (relabel n ci) (relabel n ci').
Proof.
  intros H i j Hi Hj. rewrite (relabel_same n ci i j Hi Hj), (relabel_same n ci' i j Hi Hj). apply H; assumption.
Qed.

Lemma same_part_eqb n (c c' : vec nat) : same_part n c c' ->
  forall i j, (i < n)%nat -> (j < n)%nat -> Nat.eqb (c i) (c j) = Nat.eqb (c' i) (c' j).
Proof.
  intros H i j Hi Hj. destruct (Nat.eqb_spec (c i) (c j)) as [E|E], (Nat.eqb_spec (c' i) (c' j)) as [E'|E']; try reflexivity.
  - exfalso. apply E'. apply (H i j Hi Hj). exact E.
  - exfalso. apply E. apply (H i j Hi Hj). exact E'.
Qed.

(* ---------- sums over the modules 1..K collapse on the module of a node ---------- *)
Lemma block_collapse K a (f : nat -> Q) : (1 <= a <= K)%nat -> sumM K (fun m => ind (Nat.eqb a m) * f m) == f a.
Proof.
  intros Ha. unfold sumM. destruct a as [|p]; [lia|].
  rewrite (sumQ_ext _ (fun u => ind (Nat.eqb p u) * f (S u))).
  - rewrite (sumQ_ind_collapse (fun u => f (S u)) K p) by lia. reflexivity.
  - intros u _. cbn [Nat.eqb]. reflexivity.
Qed.

Lemma sumQ_mul f g n : sumQ f n * sumQ g n == sumQ (fun j => sumQ (fun l => f j * g l) n) n.
Proof.
  rewrite <- sumQ_scal_r. apply sumQ_ext. intros j _. rewrite <- sumQ_scal. reflexivity.
Qed.

Lemma sumM_fubini K n (f : nat -> nat -> Q) : sumM K (fun m => sumQ (fun j => f m j) n) == sumQ (fun j => sumM K (fun m => f m j)) n.
Proof. unfold sumM. apply sumQ_fubini. Qed.

Lemma sumM_ext K f g : (forall m, (1 <= m <= K)%nat -> f m == g m) -> sumM K f == sumM K g.
Proof. intros H. unfold sumM. apply sumQ_ext. intros u Hu. apply H. lia. Qed.

Lemma ind_eqb_sym a b : ind (Nat.eqb a b) = ind (Nat.eqb b a).
Proof. rewrite Nat.eqb_sym. reflexivity. Qed.

(* ---------- participation_coef ---------- *)
(* partition-only normal form of the module sum: sum_m (sum_j W[i,j][c_j = m])^2 = sum_j sum_l W[i,j] W[i,l] [c_j = c_l] *)
Definition kc2_nf (n : nat) (W : mat Q) (c : vec nat) (i : nat) : Q :=
  sumQ (fun j => sumQ (fun l => W i j * W i l * ind (Nat.eqb (c j) (c l))) n) n.

Lemma qnzb_false w : qnzb w = false -> w == 0.
Proof. unfold qnzb. intros H. apply negb_false_iff in H. apply Qeq_bool_iff. exact H. Qed.

Lemma kc2_normal_form n W c i : canon n c ->
  sumM (vmax n c) (fun m => sumQ (fun j => W i j * ind (Nat.eqb (if qnzb (W i j) then c j else 0%nat) m)) n *
                            sumQ (fun j => W i j * ind (Nat.eqb (if qnzb (W i j) then c j else 0%nat) m)) n)
  == kc2_nf n W c i.
Proof.
  intros Hc. unfold kc2_nf.
  rewrite (sumM_ext _ _ (fun m => sumQ (fun j => sumQ (fun l => W i j * W i l * (ind (Nat.eqb (c j) m) * ind (Nat.eqb (c l) m))) n) n)).
  - rewrite sumM_fubini. apply sumQ_ext. intros j Hj. rewrite sumM_fubini. apply sumQ_ext. intros l Hl.
    unfold sumM. rewrite sumQ_scal. fold (sumM (vmax n c) (fun m => ind (Nat.eqb (c j) m) * ind (Nat.eqb (c l) m))).
    rewrite (block_collapse (vmax n c) (c j) (fun m => ind (Nat.eqb (c l) m)) (Hc j Hj)).
    rewrite (ind_eqb_sym (c l) (c j)). reflexivity.
  - intros m Hm.
    assert (E : forall j, W i j * ind (Nat.eqb (if qnzb (W i j) then c j else 0%nat) m) == W i j * ind (Nat.eqb (c j) m)).
    { intros j. destruct (qnzb (W i j)) eqn:Eq; [reflexivity|]. rewrite (qnzb_false _ Eq). ring. }
    rewrite (sumQ_ext _ (fun j => W i j * ind (Nat.eqb (c j) m)) n (fun j _ => E j)).
    rewrite sumQ_mul. apply sumQ_ext. intros j _. apply sumQ_ext. intros l _. ring.
Qed.

Lemma kc2_nf_same n W c c' i : same_part n c c' -> kc2_nf n W c i == kc2_nf n W c' i.
Proof.
  intros H. unfold kc2_nf. apply sumQ_ext. intros j Hj. apply sumQ_ext. intros l Hl.
  rewrite (same_part_eqb n c c' H j l Hj Hl). reflexivity.
Qed.

Lemma pcoef_same n W c c' i : canon n c -> canon n c' -> same_part n c c' -> pcoef n W c i == pcoef n W c' i.
Proof.
  intros Hc Hc' H. unfold pcoef. cbv zeta.
  destruct (Qeq_bool (sumQ (fun j => W i j) n) 0); [reflexivity|].
  rewrite (kc2_normal_form n W c i Hc), (kc2_normal_form n W c' i Hc'), (kc2_nf_same n W c c' i H). reflexivity.
Qed.

Theorem participation_coef_partition_only n W ci ci' deg_in i : same_part n ci ci' ->
  participation_coef n W ci deg_in i == participation_coef n W ci' deg_in i.
Proof.
  intros H. unfold participation_coef.
  apply pcoef_same; [apply relabel_canon|apply relabel_canon|apply same_part_relabel; exact H].
Qed.

Theorem participation_coef_sign_partition_only n W ci ci' i : same_part n ci ci' ->
  fst (participation_coef_sign n W ci) i == fst (participation_coef_sign n W ci') i /\
  snd (participation_coef_sign n W ci) i == snd (participation_coef_sign n W ci') i.
Proof.
  intros H. unfold participation_coef_sign. cbn [fst snd].
  split; apply pcoef_same; try apply relabel_canon; apply same_part_relabel; exact H.
Qed.

(* the textbook formula: P_i = 1 - sum_{j,l in the same module} W[i,j] W[i,l] / k_i^2 *)
Theorem participation_coef_formula n W ci i : (i < n)%nat ->
  participation_coef n W ci false i ==
  (if Qeq_bool (sumQ (fun j => W i j) n) 0 then 0
   else 1 - sumQ (fun j => sumQ (fun l => W i j * W i l * ind (Z.eqb (ci j) (ci l))) n) n
            / (sumQ (fun j => W i j) n * sumQ (fun j => W i j) n)).
Proof.
  intros Hi. unfold participation_coef, pcoef. cbv zeta.
  destruct (Qeq_bool (sumQ (fun j => W i j) n) 0); [reflexivity|].
  rewrite (kc2_normal_form n W (relabel n ci) i (relabel_canon n ci)).
  assert (E : kc2_nf n W (relabel n ci) i == sumQ (fun j => sumQ (fun l => W i j * W i l * ind (Z.eqb (ci j) (ci l))) n) n).
  { unfold kc2_nf. apply sumQ_ext. intros j Hj. apply sumQ_ext. intros l Hl.
    assert (Nat.eqb (relabel n ci j) (relabel n ci l) = Z.eqb (ci j) (ci l)) as ->; [|reflexivity].
    pose proof (relabel_same n ci j l Hj Hl) as Hs.
    destruct (Nat.eqb_spec (relabel n ci j) (relabel n ci l)) as [E|E], (Z.eqb_spec (ci j) (ci l)) as [E'|E']; try reflexivity;
      exfalso; tauto. }
  rewrite E. reflexivity.
Qed.

(* ---------- module_degree_zscore ---------- *)
Definition mdz_val (n : nat) (W : mat Q) (c : vec nat) (m i : nat) : Q * Q :=
  (mdz_koi n W c m i - mdz_mean n W c m, mdz_var n W c m).

Lemma mdz_loop_spec n W c K i : (i < n)%nat ->
  mdz_loop n W c K i = if (Nat.leb 1 (c i) && Nat.leb (c i) K)%bool then mdz_val n W c (c i) i else (0, 0).
Proof.
  intros Hi. unfold mdz_loop. induction K as [|K IH].
  - cbn [seq fold_left]. destruct (Nat.leb 1 (c i)) eqn:E1; cbn [andb]; [|reflexivity].
    destruct (Nat.leb (c i) 0) eqn:E2; [|reflexivity]. apply Nat.leb_le in E1, E2. lia.
  - rewrite seq_S, fold_left_app. cbn [fold_left]. rewrite tabv_spec by exact Hi. rewrite IH. cbn [Nat.add].
    destruct (Nat.eqb_spec (c i) (S K)) as [E|E].
    + rewrite E. rewrite Nat.leb_refl, andb_true_r. cbn [Nat.leb]. reflexivity.
    + destruct (Nat.leb 1 (c i)) eqn:E1; cbn [andb]; [|reflexivity].
      destruct (Nat.leb (c i) K) eqn:E2, (Nat.leb (c i) (S K)) eqn:E3; try reflexivity;
        apply Nat.leb_le in E1; try apply Nat.leb_le in E2; try apply Nat.leb_le in E3;
        try apply Nat.leb_gt in E2; try apply Nat.leb_gt in E3; lia.
Qed.

Lemma mdz_loop_canon n W c i : canon n c -> (i < n)%nat -> mdz_loop n W c (vmax n c) i = mdz_val n W c (c i) i.
Proof.
  intros Hc Hi. rewrite mdz_loop_spec by exact Hi. destruct (Hc i Hi) as [H1 H2].
  apply Nat.leb_le in H1, H2. rewrite H1, H2. reflexivity.
Qed.

Lemma mdz_koi_same n W c c' i l : same_part n c c' -> (i < n)%nat -> (l < n)%nat ->
  mdz_koi n W c (c i) l == mdz_koi n W c' (c' i) l.
Proof.
  intros H Hi Hl. unfold mdz_koi. apply sumQ_ext. intros j Hj. rewrite (same_part_eqb n c c' H j i Hj Hi). reflexivity.
Qed.
Lemma mdz_cnt_same n c c' i : same_part n c c' -> (i < n)%nat -> mdz_cnt n c (c i) == mdz_cnt n c' (c' i).
Proof.
  intros H Hi. unfold mdz_cnt. apply sumQ_ext. intros j Hj. rewrite (same_part_eqb n c c' H j i Hj Hi). reflexivity.
Qed.
Lemma mdz_mean_same n W c c' i : same_part n c c' -> (i < n)%nat -> mdz_mean n W c (c i) == mdz_mean n W c' (c' i).
Proof.
  intros H Hi. unfold mdz_mean. rewrite (mdz_cnt_same n c c' i H Hi).
  rewrite (sumQ_ext _ (fun l => ind (Nat.eqb (c' l) (c' i)) * mdz_koi n W c' (c' i) l)); [reflexivity|].
  intros l Hl. rewrite (same_part_eqb n c c' H l i Hl Hi), (mdz_koi_same n W c c' i l H Hi Hl). reflexivity.
Qed.
Lemma mdz_var_same n W c c' i : same_part n c c' -> (i < n)%nat -> mdz_var n W c (c i) == mdz_var n W c' (c' i).
Proof.
  intros H Hi. unfold mdz_var. rewrite (mdz_cnt_same n c c' i H Hi).
  rewrite (sumQ_ext _ (fun l => ind (Nat.eqb (c' l) (c' i)) *
     ((mdz_koi n W c' (c' i) l - mdz_mean n W c' (c' i)) * (mdz_koi n W c' (c' i) l - mdz_mean n W c' (c' i))))); [reflexivity|].
  intros l Hl. rewrite (same_part_eqb n c c' H l i Hl Hi), (mdz_koi_same n W c c' i l H Hi Hl), (mdz_mean_same n W c c' i H Hi).
  reflexivity.
Qed.

Theorem module_degree_zscore_partition_only n W ci ci' flag i : same_part n ci ci' -> (i < n)%nat ->
  fst (module_degree_zscore_parts n W ci flag i) == fst (module_degree_zscore_parts n W ci' flag i) /\
  snd (module_degree_zscore_parts n W ci flag i) == snd (module_degree_zscore_parts n W ci' flag i).
Proof.
  intros H Hi. unfold module_degree_zscore_parts. cbv zeta.
  rewrite (mdz_loop_canon n _ (relabel n ci) i (relabel_canon n ci) Hi).
  rewrite (mdz_loop_canon n _ (relabel n ci') i (relabel_canon n ci') Hi).
  pose proof (same_part_relabel n ci ci' H) as Hs. unfold mdz_val. cbn [fst snd]. split.
  - rewrite (mdz_koi_same n _ _ _ i i Hs Hi Hi), (mdz_mean_same n _ _ _ i Hs Hi). reflexivity.
  - apply mdz_var_same; assumption.
Qed.

(* Z = (Koi - mean) / sqrt(variance), NaN -> 0, for ANY square-root function that respects == *)
Section ZScore.
Variable sqrt : Q -> Q.
Hypothesis sqrt_proper : forall a b, a == b -> sqrt a == sqrt b.
Definition module_degree_zscore (n : nat) (W : mat Q) (ci : vec Z) (flag : nat) (i : nat) : Q :=
  let p := module_degree_zscore_parts n W ci flag i in
  if Qeq_bool (snd p) 0 then 0 else fst p / sqrt (snd p).
Theorem module_degree_zscore_invariant n W ci ci' flag i : same_part n ci ci' -> (i < n)%nat ->
  module_degree_zscore n W ci flag i == module_degree_zscore n W ci' flag i.
Proof.
  intros H Hi. unfold module_degree_zscore. cbv zeta.
  destruct (module_degree_zscore_partition_only n W ci ci' flag i H Hi) as [H1 H2].
  assert (Eb : Qeq_bool (snd (module_degree_zscore_parts n W ci flag i)) 0 =
               Qeq_bool (snd (module_degree_zscore_parts n W ci' flag i)) 0).
  { destruct (Qeq_bool (snd (module_degree_zscore_parts n W ci' flag i)) 0) eqn:E.
    - apply Qeq_bool_iff. apply Qeq_bool_iff in E. rewrite H2. exact E.
    - destruct (Qeq_bool (snd (module_degree_zscore_parts n W ci flag i)) 0) eqn:E'; [|reflexivity].
      apply Qeq_bool_iff in E'. rewrite H2 in E'. apply Qeq_bool_iff in E'. congruence. }
  rewrite Eb. destruct (Qeq_bool (snd (module_degree_zscore_parts n W ci' flag i)) 0); [reflexivity|].
  rewrite H1, (sqrt_proper _ _ H2). reflexivity.
Qed.
End ZScore.

(* ---------- modularity_und / modularity_dir for a given partition ---------- *)
Lemma zsame_same n (ci ci' : vec Z) : same_part n ci ci' ->
  forall i j, (i < n)%nat -> (j < n)%nat -> zsame ci i j = zsame ci' i j.
Proof.
  intros H i j Hi Hj. unfold zsame. f_equal. pose proof (H i j Hi Hj) as Hs.
  destruct (Z.eqb_spec (ci i - ci j) 0) as [E|E], (Z.eqb_spec (ci' i - ci' j) 0) as [E'|E']; try reflexivity; exfalso.
  - apply E'. assert (ci i = ci j) by lia. apply Hs in H0. lia.
  - apply E. assert (ci' i = ci' j) by lia. apply Hs in H0. lia.
Qed.

Theorem modularity_und_partition_only n A gamma ci ci' : same_part n ci ci' ->
  modularity_und_q n A gamma ci == modularity_und_q n A gamma ci'.
Proof.
  intros H. unfold modularity_und_q. cbv zeta. apply sum2Q_ext. intros i j Hi Hj.
  rewrite (zsame_same n ci ci' H i j Hi Hj). reflexivity.
Qed.

Theorem modularity_dir_partition_only n A gamma ci ci' : same_part n ci ci' ->
  modularity_dir_q n A gamma ci == modularity_dir_q n A gamma ci'.
Proof.
  intros H. unfold modularity_dir_q. cbv zeta. apply sum2Q_ext. intros i j Hi Hj.
  rewrite (zsame_same n ci ci' H i j Hi Hj). reflexivity.
Qed.

(* injective renamings give the same partition *)
Lemma injective_same_part n (ci : vec Z) (g : Z -> Z) : (forall x y, g x = g y -> x = y) ->
  same_part n ci (fun i => g (ci i)).
Proof. intros Hg i j _ _. split; [intros ->; reflexivity|apply Hg]. Qed.

(* ---------- modularity_und_sign ---------- *)
Lemma node_degree_collapse n K (c : vec nat) (f : nat -> Q) : (forall j, (j < n)%nat -> (1 <= c j <= K)%nat) ->
  sumM K (fun m => sumQ (fun j => ind (Nat.eqb (c j) m) * f j) n) == sumQ f n.
Proof.
  intros Hc. rewrite sumM_fubini. apply sumQ_ext. intros j Hj.
  apply (block_collapse K (c j) (fun _ => f j)). apply Hc; exact Hj.
Qed.

Theorem modularity_und_sign_partition_only n W ci ci' qt : same_part n ci ci' ->
  modularity_und_sign_q n W ci qt == modularity_und_sign_q n W ci' qt.
Proof.
  intros H. unfold modularity_und_sign_q. cbv zeta.
  pose proof (same_part_relabel n ci ci' H) as Hs.
  set (c := relabel n ci). set (c' := relabel n ci').
  assert (HK0 : forall (M : mat Q) i, sumM (vmax n c) (fun m => sumQ (fun j => ind (Nat.eqb (c j) m) * M i j) n) ==
                              sumM (vmax n c') (fun m => sumQ (fun j => ind (Nat.eqb (c' j) m) * M i j) n)).
  { intros M i. rewrite (node_degree_collapse n (vmax n c) c (fun j => M i j) (relabel_canon n ci)).
    rewrite (node_degree_collapse n (vmax n c') c' (fun j => M i j) (relabel_canon n ci')). reflexivity. }
  destruct (Qeq_bool (sum2Q (pos_part W) n) 0); destruct (Qeq_bool (sum2Q (neg_part W) n) 0);
  (assert (E0 : forall s, sum2Q (fun i j => (pos_part W i j -
        sumM (vmax n c) (fun m => sumQ (fun j0 => ind (Nat.eqb (c j0) m) * pos_part W i j0) n) *
        sumM (vmax n c) (fun m => sumQ (fun j0 => ind (Nat.eqb (c j0) m) * pos_part W j j0) n) / s) * ind (Nat.eqb (c i) (c j))) n ==
      sum2Q (fun i j => (pos_part W i j -
        sumM (vmax n c') (fun m => sumQ (fun j0 => ind (Nat.eqb (c' j0) m) * pos_part W i j0) n) *
        sumM (vmax n c') (fun m => sumQ (fun j0 => ind (Nat.eqb (c' j0) m) * pos_part W j j0) n) / s) * ind (Nat.eqb (c' i) (c' j))) n)
     by (intros s; apply sum2Q_ext; intros i j Hi Hj;
         rewrite (HK0 (pos_part W) i), (HK0 (pos_part W) j), (same_part_eqb n c c' Hs i j Hi Hj); reflexivity));
  (assert (E1 : forall s, sum2Q (fun i j => (neg_part W i j -
        sumM (vmax n c) (fun m => sumQ (fun j0 => ind (Nat.eqb (c j0) m) * neg_part W i j0) n) *
        sumM (vmax n c) (fun m => sumQ (fun j0 => ind (Nat.eqb (c j0) m) * neg_part W j j0) n) / s) * ind (Nat.eqb (c i) (c j))) n ==
      sum2Q (fun i j => (neg_part W i j -
        sumM (vmax n c') (fun m => sumQ (fun j0 => ind (Nat.eqb (c' j0) m) * neg_part W i j0) n) *
        sumM (vmax n c') (fun m => sumQ (fun j0 => ind (Nat.eqb (c' j0) m) * neg_part W j j0) n) / s) * ind (Nat.eqb (c' i) (c' j))) n)
     by (intros s; apply sum2Q_ext; intros i j Hi Hj;
         rewrite (HK0 (neg_part W) i), (HK0 (neg_part W) j), (same_part_eqb n c c' Hs i j Hi Hj); reflexivity));
  rewrite E0, E1; reflexivity.
Qed.

(* ---------- agreement ---------- *)
Theorem agreement_counts n np_ cis i j : (i < n)%nat -> (j < n)%nat -> i <> j ->
  agreement n np_ cis i j == sumQ (fun p => ind (Z.eqb (cis p i) (cis p j))) np_.
Proof.
  intros Hi Hj Hne. unfold agreement. destruct (Nat.eqb_spec i j) as [E|_]; [contradiction|].
  apply sumQ_ext. intros p _. cbv zeta.
  rewrite (block_collapse (vmax n (relabel n (cis p))) (relabel n (cis p) i) (fun m => ind (Nat.eqb (relabel n (cis p) j) m))
             (relabel_canon n (cis p) i Hi)).
  pose proof (relabel_same n (cis p) j i Hj Hi) as Hs.
  destruct (Nat.eqb_spec (relabel n (cis p) j) (relabel n (cis p) i)) as [E|E], (Z.eqb_spec (cis p i) (cis p j)) as [E'|E'];
    try reflexivity; exfalso.
  - apply E'. symmetry. apply Hs. exact E.
  - apply E. apply Hs. symmetry. exact E'.
Qed.

Theorem agreement_partition_only n np_ cis cis' i j :
  (forall p, (p < np_)%nat -> same_part n (cis p) (cis' p)) -> (i < n)%nat -> (j < n)%nat ->
  agreement n np_ cis i j == agreement n np_ cis' i j.
Proof.
  intros H Hi Hj. destruct (Nat.eq_dec i j) as [->|Hne].
  - unfold agreement. rewrite Nat.eqb_refl. reflexivity.
  - rewrite (agreement_counts n np_ cis i j Hi Hj Hne), (agreement_counts n np_ cis' i j Hi Hj Hne).
    apply sumQ_ext. intros p Hp. pose proof (H p Hp i j Hi Hj) as Hs.
    destruct (Z.eqb_spec (cis p i) (cis p j)) as [E|E], (Z.eqb_spec (cis' p i) (cis' p j)) as [E'|E']; try reflexivity; exfalso; tauto.
Qed.

(* ---------- partition_distance ---------- *)
Lemma sumQ_shift f K : sumQ f (S K) == f 0%nat + sumQ (fun u => f (S u)) K.
Proof. induction K; cbn [sumQ]; [ring|]. cbn [sumQ] in IHK. rewrite IHK. ring. Qed.

Lemma fold_map_seq (g : nat -> Q) K : forall s, fold_right Qplus 0 (map g (seq s K)) == sumQ (fun u => g (s + u)%nat) K.
Proof.
  induction K as [|K IH]; intros s; [reflexivity|]. cbn [seq map fold_right]. rewrite IH, sumQ_shift.
  rewrite Nat.add_0_r. apply Qplus_comp; [reflexivity|]. apply sumQ_ext. intros u _. rewrite Nat.add_succ_r. reflexivity.
Qed.

Definition qof (n : nat) : Q := inject_Z (Z.of_nat n).
Definition bsize (n : nat) (c : vec nat) (i : nat) : Q := mdz_cnt n c (c i).     (* size of the block of node i *)

Section Entropy.
Variable log : Q -> Q.
Hypothesis log_proper : forall a b, a == b -> log a == log b.

(* node form of the entropy: H = - sum_i (1/n) log(|block of i| / n) *)
Definition entropy_nf (n : nat) (c : vec nat) : Q :=
  - sumQ (fun i => (1 / qof n) * log (bsize n c i / qof n)) n.

Lemma entropy_node_form n c : canon n c -> entropy log n (hist n c) == entropy_nf n c.
Proof.
  intros Hc. unfold entropy, hist, entropy_nf. rewrite map_map. rewrite fold_map_seq. cbn [Nat.add].
  apply Qopp_comp. fold (qof n).
  change (sumQ (fun u => mdz_cnt n c (S u) / qof n * log (mdz_cnt n c (S u) / qof n)) (vmax n c))
    with (sumM (vmax n c) (fun m => mdz_cnt n c m / qof n * log (mdz_cnt n c m / qof n))).
  rewrite (sumM_ext _ _ (fun m => sumQ (fun i => ind (Nat.eqb (c i) m) * (1 / qof n * log (mdz_cnt n c m / qof n))) n)).
  - rewrite sumM_fubini. apply sumQ_ext. intros i Hi.
    apply (block_collapse (vmax n c) (c i) (fun m => 1 / qof n * log (mdz_cnt n c m / qof n)) (Hc i Hi)).
  - intros m _. rewrite sumQ_scal_r. unfold mdz_cnt at 1. unfold Qdiv. ring.
Qed.

Lemma entropy_same n c c' : canon n c -> canon n c' -> same_part n c c' ->
  entropy log n (hist n c) == entropy log n (hist n c').
Proof.
  intros Hc Hc' H. rewrite (entropy_node_form n c Hc), (entropy_node_form n c' Hc'). unfold entropy_nf.
  apply Qopp_comp. apply sumQ_ext. intros i Hi. unfold bsize.
  rewrite (log_proper _ _ (Qmult_comp _ _ (mdz_cnt_same n c c' i H Hi) _ _ (Qeq_refl (/ qof n)))). reflexivity.
Qed.

(* the joint labelling separates exactly the pairs (x-label, y-label) *)
Lemma joint_key_same n (x y : vec nat) i j : (1 <= x i)%nat -> (1 <= x j)%nat ->
  (1 <= y i <= n)%nat -> (1 <= y j <= n)%nat ->
  (joint_key n x y i = joint_key n x y j <-> x i = x j /\ y i = y j).
Proof.
  intros Hxi Hxj Hyi Hyj. unfold joint_key. split.
  - intros H.
    assert (Ha : (Z.of_nat (pred (x i)) = Z.of_nat (pred (x j)))%Z).
    { assert (E : forall a b, (0 <= b < Z.of_nat (S n))%Z -> ((a * Z.of_nat (S n) + b) / Z.of_nat (S n) = a)%Z).
      { intros a b Hb. rewrite Z.div_add_l by lia. rewrite Z.div_small by exact Hb. lia. }
      rewrite <- (E (Z.of_nat (pred (x i))) (Z.of_nat (pred (y i)))) by lia.
      rewrite <- (E (Z.of_nat (pred (x j))) (Z.of_nat (pred (y j)))) by lia. rewrite H. reflexivity. }
    rewrite Ha in H. split; lia.
  - intros [-> ->]. reflexivity.
Qed.

Lemma joint_same n cx cy :
  forall i j, (i < n)%nat -> (j < n)%nat ->
  (relabel n (joint_key n (relabel n cx) (relabel n cy)) i = relabel n (joint_key n (relabel n cx) (relabel n cy)) j
   <-> cx i = cx j /\ cy i = cy j).
Proof.
  intros i j Hi Hj. rewrite relabel_same by assumption.
  rewrite joint_key_same.
  - rewrite (relabel_same n cx i j Hi Hj), (relabel_same n cy i j Hi Hj). reflexivity.
  - apply (relabel_canon n cx i Hi).
  - apply (relabel_canon n cx j Hj).
  - split; [apply (relabel_canon n cy i Hi)|apply relabel_le; exact Hi].
  - split; [apply (relabel_canon n cy j Hj)|apply relabel_le; exact Hj].
Qed.

Definition Hx_of n cx := entropy log n (hist n (relabel n cx)).
Definition Hxy_of n cx cy := entropy log n (hist n (relabel n (joint_key n (relabel n cx) (relabel n cy)))).

Lemma pd_general_unfold n cx cy :
  pd_general log n cx cy =
  ((2 * Hxy_of n cx cy - Hx_of n cx - Hx_of n cy) / log (qof n),
   2 * (Hx_of n cx + Hx_of n cy - Hxy_of n cx cy) / (Hx_of n cx + Hx_of n cy)).
Proof. reflexivity. Qed.

Lemma Hxy_sym n cx cy : Hxy_of n cx cy == Hxy_of n cy cx.
Proof.
  unfold Hxy_of. apply entropy_same; try apply relabel_canon.
  intros i j Hi Hj. rewrite (joint_same n cx cy i j Hi Hj), (joint_same n cy cx i j Hi Hj). tauto.
Qed.

Theorem pd_general_symmetric n cx cy :
  fst (pd_general log n cx cy) == fst (pd_general log n cy cx) /\
  snd (pd_general log n cx cy) == snd (pd_general log n cy cx).
Proof.
  rewrite !pd_general_unfold. cbn [fst snd]. rewrite (Hxy_sym n cx cy).
  split; [apply Qmult_comp; [ring|reflexivity]|].
  apply Qmult_comp; [ring|]. apply Qinv_comp. ring.
Qed.

(* depends on the two partitions only *)
Theorem pd_general_partition_only n cx cy cx' cy' : same_part n cx cx' -> same_part n cy cy' ->
  fst (pd_general log n cx cy) == fst (pd_general log n cx' cy') /\
  snd (pd_general log n cx cy) == snd (pd_general log n cx' cy').
Proof.
  intros Hx Hy. rewrite !pd_general_unfold. cbn [fst snd].
  assert (E1 : Hx_of n cx == Hx_of n cx').
  { apply entropy_same; try apply relabel_canon. apply same_part_relabel; exact Hx. }
  assert (E2 : Hx_of n cy == Hx_of n cy').
  { apply entropy_same; try apply relabel_canon. apply same_part_relabel; exact Hy. }
  assert (E3 : Hxy_of n cx cy == Hxy_of n cx' cy').
  { unfold Hxy_of. apply entropy_same; try apply relabel_canon.
    intros i j Hi Hj. rewrite (joint_same n cx cy i j Hi Hj), (joint_same n cx' cy' i j Hi Hj).
    rewrite (Hx i j Hi Hj), (Hy i j Hi Hj). reflexivity. }
  rewrite E1, E2, E3. split; reflexivity.
Qed.

(* same partition up to renaming => VIn = 0 and (unless the entropy vanishes: one block) MIn = 1 *)
Theorem pd_general_same n cx cy : same_part n cx cy ->
  fst (pd_general log n cx cy) == 0 /\
  (~ Hx_of n cx == 0 -> snd (pd_general log n cx cy) == 1).
Proof.
  intros H. rewrite pd_general_unfold. cbn [fst snd].
  assert (E2 : Hx_of n cy == Hx_of n cx).
  { apply entropy_same; try apply relabel_canon. apply same_part_relabel. intros i j Hi Hj. symmetry. apply H; assumption. }
  assert (E3 : Hxy_of n cx cy == Hx_of n cx).
  { unfold Hxy_of, Hx_of. apply entropy_same; try apply relabel_canon.
    intros i j Hi Hj. rewrite (joint_same n cx cy i j Hi Hj), (relabel_same n cx i j Hi Hj).
    pose proof (H i j Hi Hj). tauto. }
  rewrite E2, E3. split.
  - unfold Qdiv. ring.
  - intros Hne. field. intros Hc. apply Hne. lra.
Qed.
End Entropy.

(* ---------- ci2ls / ls2ci ---------- *)
Lemma ls2ci_inner v blk : forall (ci0 : vec nat) y,
  fold_left (fun ci y0 => vupd ci y0 v) blk ci0 y = if nmem y blk then v else ci0 y.
Proof.
  induction blk as [|a t IH]; intros ci0 y; cbn [fold_left]; [reflexivity|].
  rewrite IH. unfold nmem. cbn [existsb]. fold (nmem y t). unfold vupd.
  destruct (nmem y t); [rewrite orb_true_r; reflexivity|]. rewrite orb_false_r. reflexivity.
Qed.

Lemma ls2ci_outer y u0 (l : list (nat * list nat)) : forall ci0 : vec nat,
  (forall p, In p l -> nmem y (snd p) = true -> fst p = u0) ->
  fold_left (fun ci ib => fold_left (fun ci y0 => vupd ci y0 (S (fst ib))) (snd ib) ci) l ci0 y =
  if existsb (fun p => nmem y (snd p)) l then S u0 else ci0 y.
Proof.
  induction l as [|p t IH]; intros ci0 H; cbn [fold_left existsb]; [reflexivity|].
  rewrite IH by (intros q Hq; apply H; right; exact Hq).
  rewrite ls2ci_inner. destruct (nmem y (snd p)) eqn:E; cbn [orb].
  - rewrite (H p (or_introl eq_refl) E). destruct (existsb _ t); reflexivity.
  - reflexivity.
Qed.

Lemma combine_map_r {A B} (F : A -> B) l : combine l (map F l) = map (fun u => (u, F u)) l.
Proof. induction l as [|a l IH]; cbn; [reflexivity|]. rewrite IH. reflexivity. Qed.

(* ls2ci(ci2ls(ci)) is the canonical relabelling of ci, hence the same partition *)
Theorem ci2ls_ls2ci_inverse n ci i : (i < n)%nat -> ls2ci (ci2ls n ci) i = relabel n ci i.
Proof.
  intros Hi. unfold ls2ci, ci2ls. cbv zeta. set (c := relabel n ci). set (K := vmax n c).
  rewrite map_length, seq_length. rewrite combine_map_r.
  destruct (relabel_canon n ci i Hi) as [H1 H2]. fold c in H1, H2. fold K in H2.
  rewrite (ls2ci_outer i (pred (c i))).
  - assert (Hex : existsb (fun p : nat * list nat => nmem i (snd p))
                    (map (fun u => (u, filter (fun i0 => Nat.eqb (c i0) (S u)) (seq 0 n))) (seq 0 K)) = true).
    { apply existsb_exists. exists (pred (c i), filter (fun i0 => Nat.eqb (c i0) (S (pred (c i)))) (seq 0 n)). split.
      - apply in_map_iff. exists (pred (c i)). split; [reflexivity|]. apply in_seq. lia.
      - cbn [snd]. apply nmem_In. apply filter_In. split; [apply in_seq; lia|]. apply Nat.eqb_eq. lia. }
    rewrite Hex. lia.
  - intros p Hp Hin. apply in_map_iff in Hp. destruct Hp as [u [<- Hu]]. cbn [fst snd] in *.
    apply nmem_In in Hin. apply filter_In in Hin. destruct Hin as [_ Heq]. apply Nat.eqb_eq in Heq. lia.
Qed.

(* the blocks listed by ci2ls: ascending node lists, block u holds exactly the nodes whose label has rank u+1 *)
Theorem ci2ls_blocks n ci u i : (u < vmax n (relabel n ci))%nat ->
  (In i (nth u (ci2ls n ci) []) <-> (i < n)%nat /\ relabel n ci i = S u).
Proof.
  intros Hu. unfold ci2ls. cbv zeta.
  rewrite (nth_map_seq (fun u => filter (fun i0 => Nat.eqb (relabel n ci i0) (S u)) (seq 0 n)) [] _ u Hu).
  rewrite filter_In, in_seq, Nat.eqb_eq. intuition lia.
Qed.

(* ---------- partition_distance: VIn >= 0 and the converse, for an abstract strictly increasing log ---------- *)
Lemma sumQ_zero_inv' f n : (forall i, (i < n)%nat -> 0 <= f i) -> sumQ f n == 0 -> forall i, (i < n)%nat -> f i == 0.
Proof.
  induction n; intros Hnn Hs i Hi; [lia|]. cbn [sumQ] in Hs.
  assert (H1 : 0 <= sumQ f n) by (apply sumQ_nonneg; intros; apply Hnn; lia).
  assert (H2 : 0 <= f n) by (apply Hnn; lia).
  destruct (Nat.eq_dec i n) as [->|Hne]; [lra|]. apply IHn; [intros; apply Hnn; lia|lra|lia].
Qed.

Lemma ind_nonneg b : 0 <= ind b. Proof. destruct b; cbn; lra. Qed.

Lemma bsize_ge1 n c i : (i < n)%nat -> 1 <= bsize n c i.
Proof.
  intros Hi. unfold bsize, mdz_cnt. rewrite (sumQ_split _ n i Hi). rewrite Nat.eqb_refl. cbn [ind].
  assert (0 <= sumQ (fun i0 => if Nat.eqb i0 i then 0 else ind (Nat.eqb (c i0) (c i))) n).
  { apply sumQ_nonneg. intros l _. destruct (Nat.eqb l i); [lra|apply ind_nonneg]. }
  lra.
Qed.

Lemma bsize_le n c c' i : (forall l, (l < n)%nat -> c l = c i -> c' l = c' i) -> bsize n c i <= bsize n c' i.
Proof.
  intros H. unfold bsize, mdz_cnt. apply sumQ_le. intros l Hl.
  destruct (Nat.eqb_spec (c l) (c i)) as [E|E].
  - rewrite (H l Hl E), Nat.eqb_refl. lra.
  - cbn [ind]. apply ind_nonneg.
Qed.

Lemma qof_pos n : (0 < n)%nat -> 0 < qof n.
Proof. intros H. unfold qof. change 0 with (inject_Z 0). rewrite <- Zlt_Qlt. lia. Qed.

Section EntropyOrder.
Variable log : Q -> Q.
Hypothesis log_proper : forall a b, a == b -> log a == log b.
Hypothesis log_incr : forall a b, 0 < a -> a < b -> log a < log b.
Hypothesis log_1 : log 1 == 0.

Lemma log_mono a b : 0 < a -> a <= b -> log a <= log b.
Proof.
  intros Ha Hab. destruct (Qlt_le_dec a b) as [H|H].
  - apply Qlt_le_weak. apply log_incr; assumption.
  - assert (E : a == b) by lra. rewrite (log_proper a b E). lra.
Qed.

Lemma log_inj_le a b : 0 < a -> a <= b -> log a == log b -> a == b.
Proof.
  intros Ha Hab E. destruct (Qlt_le_dec a b) as [H|H]; [|lra].
  pose proof (log_incr a b Ha H). lra.
Qed.

(* refining a partition cannot lower the entropy; equality forces equal block sizes *)
Lemma entropy_nf_refine n c c' : (0 < n)%nat ->
  (forall i l, (i < n)%nat -> (l < n)%nat -> c l = c i -> c' l = c' i) ->
  entropy_nf log n c' <= entropy_nf log n c /\
  (entropy_nf log n c' == entropy_nf log n c -> forall i, (i < n)%nat -> bsize n c i == bsize n c' i).
Proof.
  intros Hn Href. pose proof (qof_pos n Hn) as Hq.
  assert (Hterm : forall i, (i < n)%nat ->
            0 <= 1 / qof n * log (bsize n c' i / qof n) - 1 / qof n * log (bsize n c i / qof n)).
  { intros i Hi.
    assert (Hle : bsize n c i / qof n <= bsize n c' i / qof n).
    { unfold Qdiv. apply Qmult_le_compat_r; [apply bsize_le; intros l Hl; apply Href; assumption|].
      apply Qlt_le_weak. apply Qinv_lt_0_compat. exact Hq. }
    assert (Hpos : 0 < bsize n c i / qof n).
    { apply Qlt_shift_div_l; [exact Hq|]. pose proof (bsize_ge1 n c i Hi). lra. }
    pose proof (log_mono _ _ Hpos Hle) as Hl.
    assert (H1 : 0 < 1 / qof n) by (apply Qlt_shift_div_l; [exact Hq|lra]).
    nra. }
  assert (Hdiff : entropy_nf log n c - entropy_nf log n c' ==
                  sumQ (fun i => 1 / qof n * log (bsize n c' i / qof n) - 1 / qof n * log (bsize n c i / qof n)) n).
  { unfold entropy_nf. rewrite sumQ_sub. ring. }
  pose proof (sumQ_nonneg _ n Hterm) as Hnn. split; [lra|].
  intros Heq i Hi.
  assert (Hz : sumQ (fun i => 1 / qof n * log (bsize n c' i / qof n) - 1 / qof n * log (bsize n c i / qof n)) n == 0) by lra.
  pose proof (sumQ_zero_inv' _ n Hterm Hz i Hi) as Hi0. cbn beta in Hi0.
  assert (H1 : 0 < 1 / qof n) by (apply Qlt_shift_div_l; [exact Hq|lra]).
  assert (Hlog : log (bsize n c i / qof n) == log (bsize n c' i / qof n)) by nra.
  assert (Hle : bsize n c i / qof n <= bsize n c' i / qof n).
  { unfold Qdiv. apply Qmult_le_compat_r; [apply bsize_le; intros l Hl; apply Href; assumption|].
    apply Qlt_le_weak. apply Qinv_lt_0_compat. exact Hq. }
  assert (Hpos : 0 < bsize n c i / qof n).
  { apply Qlt_shift_div_l; [exact Hq|]. pose proof (bsize_ge1 n c i Hi). lra. }
  pose proof (log_inj_le _ _ Hpos Hle Hlog) as E.
  assert (bsize n c i == bsize n c i / qof n * qof n) as -> by (field; lra).
  rewrite E. field. lra.
Qed.

(* equal block sizes of a refinement: the blocks coincide *)
Lemma bsize_eq_blocks n (c c' : vec nat) i : (i < n)%nat ->
  (forall l, (l < n)%nat -> c l = c i -> c' l = c' i) -> bsize n c i == bsize n c' i ->
  forall l, (l < n)%nat -> c' l = c' i -> c l = c i.
Proof.
  intros Hi Href Heq l Hl Hc'.
  assert (Hterm : forall l, (l < n)%nat -> 0 <= ind (Nat.eqb (c' l) (c' i)) - ind (Nat.eqb (c l) (c i))).
  { intros l0 Hl0. destruct (Nat.eqb_spec (c l0) (c i)) as [E|E].
    - rewrite (Href l0 Hl0 E), Nat.eqb_refl. cbn [ind]. lra.
    - cbn [ind]. pose proof (ind_nonneg (Nat.eqb (c' l0) (c' i))). lra. }
  assert (Hz : sumQ (fun l => ind (Nat.eqb (c' l) (c' i)) - ind (Nat.eqb (c l) (c i))) n == 0).
  { rewrite sumQ_sub. unfold bsize, mdz_cnt in Heq. lra. }
  pose proof (sumQ_zero_inv' _ n Hterm Hz l Hl) as H0. cbn beta in H0.
  rewrite Hc', Nat.eqb_refl in H0. cbn [ind] in H0.
  destruct (Nat.eqb_spec (c l) (c i)) as [E|E]; [exact E|]. cbn [ind] in H0. lra.
Qed.

Theorem Hxy_ge n cx cy : (0 < n)%nat ->
  Hx_of log n cx <= Hxy_of log n cx cy /\ Hx_of log n cy <= Hxy_of log n cx cy.
Proof.
  intros Hn. unfold Hx_of, Hxy_of. rewrite !entropy_node_form by apply relabel_canon.
  split; apply entropy_nf_refine; try exact Hn; intros i l Hi Hl H.
  - apply (joint_same n cx cy l i Hl Hi) in H. apply relabel_same; tauto.
  - apply (joint_same n cx cy l i Hl Hi) in H. apply relabel_same; tauto.
Qed.

Lemma log_n_pos n : (1 < n)%nat -> 0 < log (qof n).
Proof.
  intros Hn. rewrite <- log_1. apply log_incr; [lra|]. unfold qof. change 1 with (inject_Z 1). rewrite <- Zlt_Qlt. lia.
Qed.

Theorem pd_general_VIn_nonneg n cx cy : (1 < n)%nat -> 0 <= fst (pd_general log n cx cy).
Proof.
  intros Hn. rewrite pd_general_unfold. cbn [fst].
  destruct (Hxy_ge n cx cy) as [H1 H2]; [lia|].
  apply Qle_shift_div_l; [apply log_n_pos; exact Hn|]. lra.
Qed.

(* VIn = 0 only for the same partition up to renaming *)
Theorem pd_general_VIn_zero_same n cx cy : (1 < n)%nat -> fst (pd_general log n cx cy) == 0 -> same_part n cx cy.
Proof.
  intros Hn H0. rewrite pd_general_unfold in H0. cbn [fst] in H0.
  pose proof (log_n_pos n Hn) as HL.
  assert (Hnum : 2 * Hxy_of log n cx cy - Hx_of log n cx - Hx_of log n cy == 0).
  { assert (E : 2 * Hxy_of log n cx cy - Hx_of log n cx - Hx_of log n cy ==
                (2 * Hxy_of log n cx cy - Hx_of log n cx - Hx_of log n cy) / log (qof n) * log (qof n)) by (field; lra).
    rewrite E, H0. ring. }
  destruct (Hxy_ge n cx cy) as [H1 H2]; [lia|].
  assert (E1 : Hxy_of log n cx cy == Hx_of log n cx) by lra.
  assert (E2 : Hxy_of log n cx cy == Hx_of log n cy) by lra.
  unfold Hx_of, Hxy_of in E1, E2. rewrite !entropy_node_form in E1, E2 by apply relabel_canon.
  set (x := relabel n cx) in *. set (y := relabel n cy) in *. set (xy := relabel n (joint_key n x y)) in *.
  assert (Rx : forall i l, (i < n)%nat -> (l < n)%nat -> xy l = xy i -> x l = x i).
  { intros i l Hi Hl H. apply (joint_same n cx cy l i Hl Hi) in H. apply relabel_same; tauto. }
  assert (Ry : forall i l, (i < n)%nat -> (l < n)%nat -> xy l = xy i -> y l = y i).
  { intros i l Hi Hl H. apply (joint_same n cx cy l i Hl Hi) in H. apply relabel_same; tauto. }
  destruct (entropy_nf_refine n xy x) as [_ Sx]; [lia|exact Rx|].
  destruct (entropy_nf_refine n xy y) as [_ Sy]; [lia|exact Ry|].
  assert (E1' : entropy_nf log n x == entropy_nf log n xy) by (symmetry; exact E1).
  assert (E2' : entropy_nf log n y == entropy_nf log n xy) by (symmetry; exact E2).
  specialize (Sx E1'). specialize (Sy E2').
  intros i j Hi Hj. split; intros H.
  - assert (Hx : x j = x i) by (apply relabel_same; [exact Hj|exact Hi|symmetry; exact H]).
    pose proof (bsize_eq_blocks n xy x i Hi (fun l Hl => Rx i l Hi Hl) (Sx i Hi) j Hj Hx) as Hxy.
    apply (joint_same n cx cy j i Hj Hi) in Hxy. symmetry. tauto.
  - assert (Hy : y j = y i) by (apply relabel_same; [exact Hj|exact Hi|symmetry; exact H]).
    pose proof (bsize_eq_blocks n xy y i Hi (fun l Hl => Ry i l Hi Hl) (Sy i Hi) j Hj Hy) as Hxy.
    apply (joint_same n cx cy j i Hj Hi) in Hxy. symmetry. tauto.
Qed.

(* MIn = 1 forces VIn = 0 (when H(X)+H(Y) is not 0), hence the same partition *)
Theorem pd_general_MIn_one_same n cx cy : (1 < n)%nat -> ~ Hx_of log n cx + Hx_of log n cy == 0 ->
  snd (pd_general log n cx cy) == 1 -> same_part n cx cy.
Proof.
  intros Hn Hne H1. apply pd_general_VIn_zero_same; [exact Hn|].
  rewrite pd_general_unfold in *. cbn [fst snd] in *.
  assert (E : 2 * (Hx_of log n cx + Hx_of log n cy - Hxy_of log n cx cy) ==
              2 * (Hx_of log n cx + Hx_of log n cy - Hxy_of log n cx cy) / (Hx_of log n cx + Hx_of log n cy)
              * (Hx_of log n cx + Hx_of log n cy)) by (field; exact Hne).
  rewrite H1 in E.
  assert (Hnum : 2 * Hxy_of log n cx cy - Hx_of log n cx - Hx_of log n cy == 0) by lra.
  rewrite Hnum. unfold Qdiv. ring.
Qed.
End EntropyOrder.

(* ---------- partition_distance with the early return of fix b5787bf ---------- *)
Lemma vmax_le n (c : vec nat) b : (forall i, (i < n)%nat -> (c i <= b)%nat) -> (vmax n c <= b)%nat.
Proof.
  intros H. unfold vmax, to_list.
  assert (G : forall l, (forall x, In x l -> (x < n)%nat) -> (fold_right Nat.max 0%nat (map c l) <= b)%nat).
  { induction l as [|a l IH]; intros Hl; cbn [map fold_right]; [lia|].
    pose proof (H a (Hl a (or_introl eq_refl))). specialize (IH (fun x Hx => Hl x (or_intror Hx))). lia. }
  apply G. intros x Hx. apply in_seq in Hx. lia.
Qed.

Lemma rank_all_equal n ci i : (forall j, (j < n)%nat -> ci j = ci i) -> rank (to_list n ci) (ci i) = 0%nat.
Proof.
  intros H. unfold rank.
  assert (E : filter (fun y => Z.ltb y (ci i)) (to_list n ci) = []).
  { unfold to_list. induction (seq 0 n) as [|a l IH] eqn:El in H |- *.
    - reflexivity.
    - assert (Hin : forall x, In x (a :: l) -> (x < n)%nat).
      { intros x Hx. rewrite <- El in Hx. apply in_seq in Hx. lia. }
      clear El. revert Hin. induction (a :: l) as [|b t IHt]; intros Hin; cbn [map filter]; [reflexivity|].
      rewrite (H b (Hin b (or_introl eq_refl))). rewrite Z.ltb_irrefl. apply IHt. intros x Hx. apply Hin. right; exact Hx. }
  rewrite E. reflexivity.
Qed.

(* max(relabelled labels) = 1  <=>  the partition has a single block (and there is at least one node) *)
Lemma one_block_iff n ci :
  Nat.eqb (vmax n (relabel n ci)) 1 = true <-> ((0 < n)%nat /\ forall i j, (i < n)%nat -> (j < n)%nat -> ci i = ci j).
Proof.
  rewrite Nat.eqb_eq. split.
  - intros H. split.
    + destruct n; [cbn in H; discriminate|lia].
    + intros i j Hi Hj. apply (relabel_same n ci i j Hi Hj).
      pose proof (relabel_canon n ci i Hi). pose proof (relabel_canon n ci j Hj). lia.
  - intros [Hn Hall]. apply Nat.le_antisymm.
    + apply vmax_le. intros i Hi. rewrite relabel_spec by exact Hi.
      rewrite (rank_all_equal n ci i (fun j Hj => Hall j i Hj Hi)). lia.
    + pose proof (relabel_canon n ci 0%nat Hn). lia.
Qed.

Lemma one_block_same n ci ci' : same_part n ci ci' ->
  Nat.eqb (vmax n (relabel n ci)) 1 = Nat.eqb (vmax n (relabel n ci')) 1.
Proof.
  intros H.
  destruct (Nat.eqb (vmax n (relabel n ci')) 1) eqn:E'.
  - apply one_block_iff. apply one_block_iff in E'. destruct E' as [Hn Hall]. split; [exact Hn|].
    intros i j Hi Hj. apply (H i j Hi Hj). apply Hall; assumption.
  - destruct (Nat.eqb (vmax n (relabel n ci)) 1) eqn:E; [|reflexivity].
    apply one_block_iff in E. destruct E as [Hn Hall].
    assert (E2 : Nat.eqb (vmax n (relabel n ci')) 1 = true).
    { apply one_block_iff. split; [exact Hn|]. intros i j Hi Hj. apply (H i j Hi Hj). apply Hall; assumption. }
    congruence.
Qed.

Lemma pd_trivial_sym n cx cy : pd_trivial n cx cy = pd_trivial n cy cx.
Proof. unfold pd_trivial. rewrite andb_comm. reflexivity. Qed.

Lemma pd_trivial_same n cx cy cx' cy' : same_part n cx cx' -> same_part n cy cy' ->
  pd_trivial n cx cy = pd_trivial n cx' cy'.
Proof. intros Hx Hy. unfold pd_trivial. rewrite (one_block_same n cx cx' Hx), (one_block_same n cy cy' Hy). reflexivity. Qed.

(* on the early-return branch the two partitions coincide *)
Lemma pd_trivial_same_part n cx cy : pd_trivial n cx cy = true -> same_part n cx cy.
Proof.
  unfold pd_trivial. intros H. apply orb_true_iff in H. destruct H as [H|H].
  - apply Nat.eqb_eq in H. subst n. intros i j Hi Hj. assert (i = 0%nat) by lia. assert (j = 0%nat) by lia. subst. tauto.
  - apply andb_true_iff in H. destruct H as [Hx Hy]. apply one_block_iff in Hx, Hy.
    destruct Hx as [_ Hx], Hy as [_ Hy]. intros i j Hi Hj. split; intros _; [apply Hy|apply Hx]; assumption.
Qed.

Lemma sumQ_const1' n : sumQ (fun _ => 1) n == qof n.
Proof.
  unfold qof. induction n; cbn [sumQ]; [reflexivity|]. rewrite IHn, Nat2Z.inj_succ. unfold Z.succ.
  rewrite inject_Z_plus. reflexivity.
Qed.

Lemma bsize_le_n n c i : bsize n c i <= qof n.
Proof.
  rewrite <- sumQ_const1'. unfold bsize, mdz_cnt. apply sumQ_le. intros l _.
  destruct (Nat.eqb (c l) (c i)); cbn [ind]; lra.
Qed.

Lemma bsize_full_block n (c : vec nat) i : bsize n c i == qof n -> forall l, (l < n)%nat -> c l = c i.
Proof.
  intros H l Hl.
  assert (Hterm : forall l, (l < n)%nat -> 0 <= 1 - ind (Nat.eqb (c l) (c i))).
  { intros l0 _. destruct (Nat.eqb (c l0) (c i)); cbn [ind]; lra. }
  assert (Hz : sumQ (fun l => 1 - ind (Nat.eqb (c l) (c i))) n == 0).
  { rewrite sumQ_sub, sumQ_const1'. unfold bsize, mdz_cnt in H. lra. }
  pose proof (sumQ_zero_inv' _ n Hterm Hz l Hl) as H0. cbn beta in H0.
  destruct (Nat.eqb_spec (c l) (c i)) as [E|E]; [exact E|]. cbn [ind] in H0. lra.
Qed.

Section PartitionDistanceFixed.
Variable log : Q -> Q.
Hypothesis log_proper : forall a b, a == b -> log a == log b.

Theorem partition_distance_symmetric n cx cy :
  fst (partition_distance log n cx cy) == fst (partition_distance log n cy cx) /\
  snd (partition_distance log n cx cy) == snd (partition_distance log n cy cx).
Proof.
  unfold partition_distance. rewrite (pd_trivial_sym n cy cx).
  destruct (pd_trivial n cx cy); [split; reflexivity|apply pd_general_symmetric; exact log_proper].
Qed.

Theorem partition_distance_partition_only n cx cy cx' cy' : same_part n cx cx' -> same_part n cy cy' ->
  fst (partition_distance log n cx cy) == fst (partition_distance log n cx' cy') /\
  snd (partition_distance log n cx cy) == snd (partition_distance log n cx' cy').
Proof.
  intros Hx Hy. unfold partition_distance. rewrite (pd_trivial_same n cx cy cx' cy' Hx Hy).
  destruct (pd_trivial n cx' cy'); [split; reflexivity|apply pd_general_partition_only; assumption].
Qed.

Hypothesis log_incr : forall a b, 0 < a -> a < b -> log a < log b.
Hypothesis log_1 : log 1 == 0.

(* H >= 0, and H = 0 only for the one-block partition *)
Lemma entropy_nf_terms n c i : (0 < n)%nat -> (i < n)%nat -> 0 <= - (1 / qof n * log (bsize n c i / qof n)).
Proof.
  intros Hn Hi. pose proof (qof_pos n Hn) as Hq.
  assert (Hpos : 0 < bsize n c i / qof n).
  { apply Qlt_shift_div_l; [exact Hq|]. pose proof (bsize_ge1 n c i Hi). lra. }
  assert (Hle : bsize n c i / qof n <= 1).
  { apply Qle_shift_div_r; [exact Hq|]. pose proof (bsize_le_n n c i). lra. }
  pose proof (log_mono log log_proper log_incr _ _ Hpos Hle) as Hl. rewrite log_1 in Hl.
  assert (H1 : 0 < 1 / qof n) by (apply Qlt_shift_div_l; [exact Hq|lra]). nra.
Qed.

Lemma entropy_nf_nonneg n c : (0 < n)%nat -> 0 <= entropy_nf log n c.
Proof.
  intros Hn. unfold entropy_nf.
  assert (E : - sumQ (fun i => 1 / qof n * log (bsize n c i / qof n)) n ==
              sumQ (fun i => - (1 / qof n * log (bsize n c i / qof n))) n).
  { rewrite <- (sumQ_scal (-1)). apply sumQ_ext. intros. ring. }
  rewrite E. apply sumQ_nonneg. intros i Hi. apply entropy_nf_terms; assumption.
Qed.

Lemma entropy_nf_zero_one_block n c : (0 < n)%nat -> entropy_nf log n c == 0 ->
  forall i l, (i < n)%nat -> (l < n)%nat -> c l = c i.
Proof.
  intros Hn H0 i l Hi Hl. pose proof (qof_pos n Hn) as Hq. unfold entropy_nf in H0.
  assert (E : sumQ (fun i => - (1 / qof n * log (bsize n c i / qof n))) n == 0).
  { rewrite <- H0. rewrite <- (sumQ_scal (-1)). apply sumQ_ext. intros. ring. }
  pose proof (sumQ_zero_inv' _ n (fun i Hi => entropy_nf_terms n c i Hn Hi) E i Hi) as Hi0. cbn beta in Hi0.
  assert (H1 : 0 < 1 / qof n) by (apply Qlt_shift_div_l; [exact Hq|lra]).
  assert (Hlog : log (bsize n c i / qof n) == log 1) by (rewrite log_1; nra).
  assert (Hpos : 0 < bsize n c i / qof n).
  { apply Qlt_shift_div_l; [exact Hq|]. pose proof (bsize_ge1 n c i Hi). lra. }
  assert (Hle : bsize n c i / qof n <= 1).
  { apply Qle_shift_div_r; [exact Hq|]. pose proof (bsize_le_n n c i). lra. }
  pose proof (log_inj_le log log_incr _ _ Hpos Hle Hlog) as E1.
  apply (bsize_full_block n c i); [|exact Hl].
  assert (bsize n c i == bsize n c i / qof n * qof n) as -> by (field; lra). rewrite E1. ring.
Qed.

Lemma Hx_zero_one_block n cx : (0 < n)%nat -> Hx_of log n cx == 0 -> Nat.eqb (vmax n (relabel n cx)) 1 = true.
Proof.
  intros Hn H0. unfold Hx_of in H0. rewrite entropy_node_form in H0 by (exact log_proper || apply relabel_canon).
  apply one_block_iff. split; [exact Hn|]. intros i j Hi Hj. apply (relabel_same n cx i j Hi Hj).
  symmetry. apply (entropy_nf_zero_one_block n _ Hn H0 i j Hi Hj).
Qed.

Lemma Hx_nonneg n cx : (0 < n)%nat -> 0 <= Hx_of log n cx.
Proof.
  intros Hn. unfold Hx_of. rewrite entropy_node_form by (exact log_proper || apply relabel_canon).
  apply entropy_nf_nonneg; exact Hn.
Qed.

(* same partition up to renaming => VIn = 0 and MIn = 1, with NO side condition (n >= 1) *)
Theorem partition_distance_same n cx cy : (0 < n)%nat -> same_part n cx cy ->
  fst (partition_distance log n cx cy) == 0 /\ snd (partition_distance log n cx cy) == 1.
Proof.
  intros Hn H. unfold partition_distance. destruct (pd_trivial n cx cy) eqn:Et; [split; reflexivity|].
  destruct (pd_general_same log log_proper n cx cy H) as [H1 H2]. split; [exact H1|]. apply H2.
  intros H0. pose proof (Hx_zero_one_block n cx Hn H0) as Ex.
  pose proof (one_block_same n cx cy H) as Exy. unfold pd_trivial in Et. rewrite <- Exy, Ex in Et.
  rewrite orb_true_r in Et. discriminate.
Qed.

Theorem VIn_nonneg n cx cy : (1 < n)%nat -> 0 <= fst (partition_distance log n cx cy).
Proof.
  intros Hn. unfold partition_distance. destruct (pd_trivial n cx cy); [cbn; lra|].
  apply pd_general_VIn_nonneg; assumption.
Qed.

Theorem VIn_zero_same n cx cy : (1 < n)%nat -> fst (partition_distance log n cx cy) == 0 -> same_part n cx cy.
Proof.
  intros Hn. unfold partition_distance. destruct (pd_trivial n cx cy) eqn:Et.
  - intros _. apply pd_trivial_same_part. exact Et.
  - apply pd_general_VIn_zero_same; assumption.
Qed.

Theorem MIn_one_same n cx cy : (1 < n)%nat -> snd (partition_distance log n cx cy) == 1 -> same_part n cx cy.
Proof.
  intros Hn. unfold partition_distance. destruct (pd_trivial n cx cy) eqn:Et.
  - intros _. apply pd_trivial_same_part. exact Et.
  - apply pd_general_MIn_one_same; try assumption.
    intros H0. assert (Hn0 : (0 < n)%nat) by lia.
    pose proof (Hx_nonneg n cx Hn0). pose proof (Hx_nonneg n cy Hn0).
    assert (Ex : Hx_of log n cx == 0) by lra. assert (Ey : Hx_of log n cy == 0) by lra.
    unfold pd_trivial in Et. rewrite (Hx_zero_one_block n cx Hn0 Ex), (Hx_zero_one_block n cy Hn0 Ey) in Et.
    rewrite orb_true_r in Et. discriminate.
Qed.

(* together: for n > 1,  VIn = 0 <=> same partition <=> MIn = 1 *)
Theorem partition_distance_exactly_when n cx cy : (1 < n)%nat ->
  (fst (partition_distance log n cx cy) == 0 <-> same_part n cx cy) /\
  (snd (partition_distance log n cx cy) == 1 <-> same_part n cx cy).
Proof.
  intros Hn. assert (Hn0 : (0 < n)%nat) by lia. split; split.
  - apply VIn_zero_same; exact Hn.
  - intros H. apply (partition_distance_same n cx cy Hn0 H).
  - apply MIn_one_same; exact Hn.
  - intros H. apply (partition_distance_same n cx cy Hn0 H).
Qed.
End PartitionDistanceFixed.
