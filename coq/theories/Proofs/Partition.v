From Coq Require Import QArith List Arith Bool ZArith Lia.
From BCT Require Import Base.Mat Base.SumQ Base.ListX Model.Partition.
Lemma pstub : True. Proof. exact I. Qed.
