(* Proofs/LinearFull.v — pagerank for EVERY non-negative matrix (empty columns included), over Q:
     * l1 contraction for a column-substochastic M and 0 <= d < 1: x <= d M x, x >= 0  =>  x = 0;
     * uniqueness: (I - d M) x = (I - d M) y => x = y  (so `solve` can only return THE solution);
     * any solution of (I - d M) r' = (1-d) f with f >= 0 is >= 0 (> 0 where f > 0), 1-d <= sum r' <= 1;
     * what the code returns when columns are empty (deg[deg == 0] = 1): r = r'/sum r' sums to one, is positive, and solves
         r = d (A D^-1 r + (sum of r over the empty columns) f) + (1-d) f
       i.e. the walker standing on a node without out-going weight restarts from the prior; with no empty column this is
       the property's equation;
     * the prior branch falff / sum(falff). *)
From Coq Require Import QArith Qabs Qfield Lia Lqa Arith List Bool.
From BCT Require Import Base.Mat Base.SumQ Model.Linear Proofs.Linear.
Import ListNotations.
Open Scope Q_scope.

Lemma mvecQ_ext n M x y : (forall j, (j < n)%nat -> x j == y j) -> forall i, mvecQ n M x i == mvecQ n M y i.
Proof. intros H i. unfold mvecQ. apply sumQ_ext. intros j Hj. rewrite (H j Hj). reflexivity. Qed.

Lemma mvecQ_sub n M x y i : mvecQ n M (fun j => x j - y j) i == mvecQ n M x i - mvecQ n M y i.
Proof. unfold mvecQ. rewrite <- sumQ_sub. apply sumQ_ext. intros; ring. Qed.

Lemma mvecQ_scal n M c x i : mvecQ n M (fun j => c * x j) i == c * mvecQ n M x i.
Proof. unfold mvecQ. rewrite <- sumQ_scal. apply sumQ_ext. intros; ring. Qed.

Lemma mvecQ_abs_le n M x i : (forall j, (j < n)%nat -> 0 <= M i j) -> Qabs (mvecQ n M x i) <= mvecQ n M (vabs x) i.
Proof.
  intros HM. unfold mvecQ. eapply Qle_trans; [apply sumQ_abs_triangle|]. apply sumQ_le. intros j Hj.
  rewrite Qabs_Qmult. rewrite (Qabs_pos (M i j) (HM j Hj)). unfold vabs. apply Qle_refl.
Qed.

Lemma sum_mvecQ n M x : sumQ (fun i => mvecQ n M x i) n == sumQ (fun j => sumQ (fun i => M i j) n * x j) n.
Proof. unfold mvecQ. rewrite sumQ_fubini. apply sumQ_ext. intros j _. rewrite sumQ_scal_r. reflexivity. Qed.

(* ---------------- contraction ---------------- *)
Section SubStoch.
Variables (n : nat) (M : mat Q) (d : Q).
Hypothesis HM0 : forall i j, (i < n)%nat -> (j < n)%nat -> 0 <= M i j.
Hypothesis HMc : forall j, (j < n)%nat -> sumQ (fun i => M i j) n <= 1.           (* column sums at most one *)
Hypothesis Hd0 : 0 <= d.
Hypothesis Hd1 : d < 1.

Lemma colsum_nonneg j : (j < n)%nat -> 0 <= sumQ (fun i => M i j) n.
Proof. intros Hj. apply sumQ_nonneg. intros i Hi. apply HM0; assumption. Qed.

Lemma contraction (x : vec Q) :
  (forall i, (i < n)%nat -> 0 <= x i) -> (forall i, (i < n)%nat -> x i <= d * mvecQ n M x i) ->
  forall i, (i < n)%nat -> x i == 0.
Proof.
  intros Hx Hle.
  assert (H1 : sumQ x n <= d * sumQ (fun j => sumQ (fun i => M i j) n * x j) n).
  { rewrite <- sum_mvecQ. rewrite <- sumQ_scal. apply sumQ_le. exact Hle. }
  assert (H2 : sumQ (fun j => sumQ (fun i => M i j) n * x j) n <= sumQ x n).
  { apply sumQ_le. intros j Hj. pose proof (HMc j Hj). pose proof (Hx j Hj). nra. }
  assert (H3 : 0 <= sumQ x n) by (apply sumQ_nonneg; exact Hx).
  assert (H4 : sumQ x n == 0) by nra.
  apply sumQ_zero_inv; assumption.
Qed.

(* the homogeneous system has only the zero solution *)
Lemma homogeneous_zero (y : vec Q) :
  (forall i, (i < n)%nat -> y i == d * mvecQ n M y i) -> forall i, (i < n)%nat -> y i == 0.
Proof.
  intros Hy.
  assert (Hz : forall i, (i < n)%nat -> vabs y i == 0).
  { apply contraction.
    - intros i _. apply Qabs_nonneg.
    - intros i Hi. unfold vabs at 1. rewrite (Hy i Hi). rewrite Qabs_Qmult, (Qabs_pos d Hd0).
      pose proof (mvecQ_abs_le n M y i (fun j Hj => HM0 i j Hi Hj)). nra. }
  intros i Hi. specialize (Hz i Hi). unfold vabs in Hz.
  pose proof (Qle_Qabs (y i)). pose proof (Qle_Qabs (- y i)). rewrite Qabs_opp in H0. lra.
Qed.

(* a solution of r = d M r + g with g >= 0 is >= 0 *)
Lemma solution_nonneg (r g : vec Q) :
  (forall i, (i < n)%nat -> 0 <= g i) ->
  (forall i, (i < n)%nat -> r i == d * mvecQ n M r i + g i) ->
  forall i, (i < n)%nat -> 0 <= r i.
Proof.
  intros Hg Hr.
  assert (Hz : forall i, (i < n)%nat -> (fun j => vabs r j - r j) i == 0).
  { apply contraction.
    - intros i _. cbv beta. unfold vabs. pose proof (Qle_Qabs (r i)). lra.
    - intros i Hi. cbv beta. rewrite mvecQ_sub.
      assert (Ha : vabs r i <= d * mvecQ n M (vabs r) i + g i).
      { unfold vabs at 1. rewrite (Hr i Hi). eapply Qle_trans; [apply Qabs_triangle|].
        rewrite (Qabs_pos (g i) (Hg i Hi)). rewrite Qabs_Qmult, (Qabs_pos d Hd0).
        pose proof (mvecQ_abs_le n M r i (fun j Hj => HM0 i j Hi Hj)). nra. }
      pose proof (Hr i Hi). lra. }
  intros i Hi. specialize (Hz i Hi). cbv beta in Hz. unfold vabs in Hz. pose proof (Qabs_nonneg (r i)). lra.
Qed.

Lemma mvecQ_nonneg (r : vec Q) i : (i < n)%nat -> (forall j, (j < n)%nat -> 0 <= r j) -> 0 <= mvecQ n M r i.
Proof.
  intros Hi Hr. unfold mvecQ. apply sumQ_nonneg. intros j Hj. apply Qmult_le_0_compat; [apply HM0; assumption|apply Hr; exact Hj].
Qed.
End SubStoch.

(* ---------------- A D^-1 as the code builds it, any non-negative A ---------------- *)
Lemma pr_M_colsum0 n A j : colsumQ n A j == 0 -> sumQ (fun i => pr_M n A i j) n == 0.
Proof.
  intros H. unfold pr_M. rewrite sumQ_scal_r. fold (colsumQ n A j). rewrite H. ring.
Qed.

Lemma pr_deg_pos n A j : (forall i, (i < n)%nat -> 0 <= A i j) -> 0 < pr_deg n A j.
Proof.
  intros HA. assert (H0 : 0 <= colsumQ n A j) by (apply sumQ_nonneg; exact HA).
  unfold pr_deg. destruct (Qeq_bool (colsumQ n A j) 0) eqn:E; [reflexivity|].
  apply Qeq_bool_neq in E. lra.
Qed.

Lemma pr_M_nonneg n A i j : (forall k, (k < n)%nat -> 0 <= A k j) -> (i < n)%nat -> 0 <= pr_M n A i j.
Proof.
  intros HA Hi. unfold pr_M. apply Qmult_le_0_compat; [apply HA; exact Hi|].
  pose proof (pr_deg_pos n A j HA) as Hp. unfold Qdiv. rewrite Qmult_1_l. apply Qlt_le_weak, Qinv_lt_0_compat, Hp.
Qed.

Lemma pr_M_colsum_le n A j : sumQ (fun i => pr_M n A i j) n <= 1.
Proof.
  destruct (Qeq_dec (colsumQ n A j) 0) as [E|E].
  - rewrite (pr_M_colsum0 n A j E). lra.
  - rewrite (pr_M_colsum n A j E). lra.
Qed.

Lemma pr_colsum_split n A (x : vec Q) :
  sumQ (fun j => sumQ (fun i => pr_M n A i j) n * x j) n == sumQ x n - dangling n A x.
Proof.
  unfold dangling. rewrite <- sumQ_sub. apply sumQ_ext. intros j _.
  destruct (Qeq_bool (colsumQ n A j) 0) eqn:E.
  - apply Qeq_bool_iff in E. rewrite (pr_M_colsum0 n A j E). ring.
  - apply Qeq_bool_neq in E. rewrite (pr_M_colsum n A j E). ring.
Qed.

Lemma dangling_none n A x : (forall j, (j < n)%nat -> ~ colsumQ n A j == 0) -> dangling n A x == 0.
Proof.
  intros H. unfold dangling. apply sumQ_zero'. intros j Hj.
  destruct (Qeq_bool (colsumQ n A j) 0) eqn:E; [|reflexivity]. apply Qeq_bool_iff in E. destruct (H j Hj E).
Qed.

Lemma dangling_scal n A c x : dangling n A (fun j => x j * c) == dangling n A x * c.
Proof.
  unfold dangling. rewrite <- sumQ_scal_r. apply sumQ_ext. intros j _. destruct (Qeq_bool (colsumQ n A j) 0); ring.
Qed.

Lemma dangling_nonneg n A x : (forall j, (j < n)%nat -> 0 <= x j) -> 0 <= dangling n A x.
Proof.
  intros H. unfold dangling. apply sumQ_nonneg. intros j Hj. destruct (Qeq_bool (colsumQ n A j) 0); [apply H; exact Hj|lra].
Qed.

Lemma dangling_le n A x : (forall j, (j < n)%nat -> 0 <= x j) -> dangling n A x <= sumQ x n.
Proof.
  intros H. unfold dangling. apply sumQ_le. intros j Hj. destruct (Qeq_bool (colsumQ n A j) 0); [lra|apply H; exact Hj].
Qed.

(* ---------------- uniqueness ---------------- *)
Theorem pagerank_unique n (A : mat Q) (d : Q) (b x y : vec Q) :
  0 <= d -> d < 1 -> (forall i j, (i < n)%nat -> (j < n)%nat -> 0 <= A i j) ->
  (forall i, (i < n)%nat -> mvecQ n (pr_B n A d) x i == b i) ->
  (forall i, (i < n)%nat -> mvecQ n (pr_B n A d) y i == b i) ->
  forall i, (i < n)%nat -> x i == y i.
Proof.
  intros Hd0 Hd1 HA Hx Hy.
  assert (Hz : forall i, (i < n)%nat -> (fun j => x j - y j) i == 0).
  { apply (homogeneous_zero n (pr_M n A) d).
    - intros i j Hi Hj. apply pr_M_nonneg; [intros k Hk; apply HA; assumption|exact Hi].
    - intros j _. apply pr_M_colsum_le.
    - exact Hd0.
    - exact Hd1.
    - intros i Hi. cbv beta.
      pose proof (pr_row n A d (fun i => b i / (1 - d)) x) as Rx.
      pose proof (pr_row n A d (fun i => b i / (1 - d)) y) as Ry.
      assert (Hb : forall k, pr_b d (fun i => b i / (1 - d)) k == b k) by (intros k; unfold pr_b; field; lra).
      specialize (Rx (fun k Hk => Qeq_trans _ _ _ (Hx k Hk) (Qeq_sym _ _ (Hb k))) i Hi).
      specialize (Ry (fun k Hk => Qeq_trans _ _ _ (Hy k Hk) (Qeq_sym _ _ (Hb k))) i Hi).
      rewrite mvecQ_sub. lra. }
  intros i Hi. specialize (Hz i Hi). cbv beta in Hz. lra.
Qed.

(* ---------------- what the code returns, empty columns included ---------------- *)
Section PageRankAny.
Variables (n : nat) (A : mat Q) (d : Q) (f r' : vec Q).
Hypothesis Hsolve : forall i, (i < n)%nat -> mvecQ n (pr_B n A d) r' i == pr_b d f i.     (* B r' = (1-d) f *)
Hypothesis Hf : sumQ f n == 1.
Hypothesis Hd0 : 0 <= d.
Hypothesis Hd1 : d < 1.
Hypothesis HA : forall i j, (i < n)%nat -> (j < n)%nat -> 0 <= A i j.
Hypothesis Hf0 : forall i, (i < n)%nat -> 0 <= f i.

Let Mx := pr_M n A.
Let r := pr_norm n r'.

Lemma any_row i : (i < n)%nat -> r' i == d * mvecQ n Mx r' i + (1 - d) * f i.
Proof. intros Hi. pose proof (pr_row n A d f r' Hsolve i Hi) as E. fold Mx in E. lra. Qed.

Lemma any_nonneg i : (i < n)%nat -> 0 <= r' i.
Proof.
  revert i. apply (solution_nonneg n Mx d) with (g := fun i => (1 - d) * f i).
  - intros i j Hi Hj. apply pr_M_nonneg; [intros k Hk; apply HA; assumption|exact Hi].
  - intros j _. apply pr_M_colsum_le.
  - exact Hd0.
  - exact Hd1.
  - intros i Hi. apply Qmult_le_0_compat; [lra|apply Hf0; exact Hi].
  - exact any_row.
Qed.

(* sum r' = 1 - d * (1 - d) ... in closed form: sum r' - d (sum r' - dangling r') = 1 - d *)
Lemma any_sum : sumQ r' n - d * (sumQ r' n - dangling n A r') == 1 - d.
Proof.
  assert (E : sumQ r' n == sumQ (fun i => d * mvecQ n Mx r' i + (1 - d) * f i) n) by (apply sumQ_ext; exact any_row).
  rewrite sumQ_add, !sumQ_scal, Hf in E. rewrite (sum_mvecQ n Mx r') in E. unfold Mx in E.
  rewrite (pr_colsum_split n A r') in E. lra.
Qed.

Lemma any_sum_bounds : 1 - d <= sumQ r' n /\ sumQ r' n <= 1.
Proof.
  pose proof any_sum as E.
  pose proof (dangling_nonneg n A r' any_nonneg) as H1.
  pose proof (dangling_le n A r' any_nonneg) as H2.
  assert (0 <= sumQ r' n) by (apply sumQ_nonneg; exact any_nonneg).
  split; nra.
Qed.

Theorem pagerank_any :
  (forall i, (i < n)%nat -> 0 <= r' i) /\
  (1 - d <= sumQ r' n /\ sumQ r' n <= 1) /\
  sumQ r n == 1 /\
  (forall i, (i < n)%nat -> 0 <= r i) /\
  (forall i, (i < n)%nat -> 0 < f i -> 0 < r i) /\
  (* the equation the returned vector solves: the mass on the empty columns restarts from the prior *)
  (forall i, (i < n)%nat -> r i == d * (mvecQ n Mx r i + dangling n A r * f i) + (1 - d) * f i) /\
  (* with no empty column this is the property's equation and the normalisation changes nothing *)
  ((forall j, (j < n)%nat -> ~ colsumQ n A j == 0) ->
     sumQ r' n == 1 /\ forall i, (i < n)%nat -> r i == d * mvecQ n Mx r i + (1 - d) * f i).
Proof.
  destruct any_sum_bounds as [S1 S2]. pose proof any_sum as ES.
  assert (HS : 0 < sumQ r' n) by lra.
  assert (HSnz : ~ sumQ r' n == 0) by lra.
  assert (Hr : forall i, r i == r' i * (1 / sumQ r' n)) by (intros i; unfold r, pr_norm; field; exact HSnz).
  assert (Hinv : 0 < 1 / sumQ r' n).
  { unfold Qdiv. rewrite Qmult_1_l. apply Qinv_lt_0_compat. exact HS. }
  assert (Hsum : sumQ r n == 1).
  { rewrite (sumQ_ext r (fun i => r' i * (1 / sumQ r' n)) n) by (intros; apply Hr). rewrite sumQ_scal_r. field. exact HSnz. }
  assert (Hnn : forall i, (i < n)%nat -> 0 <= r i).
  { intros i Hi. rewrite (Hr i). apply Qmult_le_0_compat; [apply any_nonneg; exact Hi|lra]. }
  assert (HMr : forall i, mvecQ n Mx r i == mvecQ n Mx r' i * (1 / sumQ r' n)).
  { intros i. rewrite (mvecQ_ext n Mx r (fun j => (1 / sumQ r' n) * r' j)) by (intros j _; rewrite (Hr j); ring).
    rewrite mvecQ_scal. ring. }
  assert (Hdg : dangling n A r == dangling n A r' * (1 / sumQ r' n)).
  { rewrite <- dangling_scal. unfold dangling. apply sumQ_ext. intros j _.
    destruct (Qeq_bool (colsumQ n A j) 0); [apply Hr|reflexivity]. }
  assert (Heq : forall i, (i < n)%nat -> r i == d * (mvecQ n Mx r i + dangling n A r * f i) + (1 - d) * f i).
  { intros i Hi. rewrite (Hr i), (HMr i), Hdg. rewrite (any_row i Hi) at 1.
    (* (1-d) f / S  =  (d * dang r' / S + (1 - d)) f   because  S - d (S - dang r') = 1 - d *)
    assert (K : (1 - d) * (1 / sumQ r' n) == d * (dangling n A r' * (1 / sumQ r' n)) + (1 - d)).
    { field_simplify_eq; [|exact HSnz]. lra. }
    transitivity (d * (mvecQ n Mx r' i * (1 / sumQ r' n)) + ((1 - d) * (1 / sumQ r' n)) * f i); [ring|].
    rewrite K. ring. }
  split; [exact any_nonneg|]. split; [split; assumption|]. split; [exact Hsum|]. split; [exact Hnn|]. split; [|split].
  - intros i Hi Hfi. rewrite (Heq i Hi).
    pose proof (mvecQ_nonneg n Mx (fun i j Hi Hj => pr_M_nonneg n A i j (fun k Hk => HA k j Hk Hj) Hi) r i Hi Hnn) as H1.
    pose proof (dangling_nonneg n A r Hnn) as H2.
    assert (H3 : 0 <= dangling n A r * f i) by (apply Qmult_le_0_compat; [exact H2|lra]).
    assert (H4 : 0 <= d * (mvecQ n Mx r i + dangling n A r * f i)) by (apply Qmult_le_0_compat; lra).
    assert (H5 : 0 < (1 - d) * f i) by (apply Qmult_lt_0_compat; lra).
    lra.
  - exact Heq.
  - intros Hcol. pose proof (dangling_none n A r' Hcol) as D0. split; [nra|].
    intros i Hi. rewrite (Heq i Hi). rewrite (dangling_none n A r Hcol). ring.
Qed.
End PageRankAny.

(* ---------------- the prior ---------------- *)
(* falff / np.sum(falff): sums to one when the sum is not zero; keeps signs when the entries are non-negative *)
Lemma prior_norm n (g : vec Q) : ~ sumQ g n == 0 ->
  sumQ (fun i => g i / sumQ g n) n == 1.
Proof.
  intros H. rewrite (sumQ_ext _ (fun i => g i * (1 / sumQ g n))) by (intros; field; exact H).
  rewrite sumQ_scal_r. field. exact H.
Qed.

Lemma prior_norm_sign n (g : vec Q) : (forall i, (i < n)%nat -> 0 <= g i) -> ~ sumQ g n == 0 ->
  forall i, (i < n)%nat -> (0 <= g i / sumQ g n) /\ (0 < g i -> 0 < g i / sumQ g n).
Proof.
  intros Hg Hs i Hi. assert (H0 : 0 <= sumQ g n) by (apply sumQ_nonneg; exact Hg).
  assert (Hp : 0 < sumQ g n) by lra.
  assert (Hinv : 0 < / sumQ g n) by (apply Qinv_lt_0_compat; exact Hp).
  unfold Qdiv. pose proof (Hg i Hi). split; [nra|intros; nra].
Qed.
