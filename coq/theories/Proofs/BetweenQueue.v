(* Proofs/BetweenQueue.v — the search phase of betweenness_wei / edge_betweenness_wei:
   queue layout (queue_slots), strict growth of distance along predecessor links, positivity of the
   path counts on reached nodes, and termination within n rounds without a slice-length error. *)
From Coq Require Import QArith Lia List Arith Bool ZArith Permutation Sorted.
From BCT Require Import Base.Mat Base.SumQ Base.ListX Model.Between Proofs.BetweenAccum Proofs.BetweenReady.
Import ListNotations.
Open Scope Z_scope.

(* the filled part of the queue: Q[qf], ..., Q[n-1] *)
Definition vis (n : nat) (st : sst) : list nat := map (sQ st) (seq (sqf st) (n - sqf st)).
(* a <= b on finite extended distances *)
Definition xle (a b : option Z) : Prop := match a, b with Some x, Some y => x <= y | _, _ => False end.

Lemma push_vis n st v : (1 <= sqf st)%nat -> (sqf st <= n)%nat -> vis n (push st v) = v :: vis n st.
Proof.
  intros H1 H2. unfold vis, push. cbn [sQ sqf].
  replace (n - (sqf st - 1))%nat with (S (n - sqf st)) by lia.
  cbn [seq map]. rewrite vupd_same. f_equal.
  replace (S (sqf st - 1)) with (sqf st) by lia.
  apply map_ext_in. intros i Hi. apply in_seq in Hi. apply vupd_other. lia.
Qed.

Lemma relax_w_Q G1 v st w : sQ (relax_w G1 v st w) = sQ st /\ sqf (relax_w G1 v st w) = sqf st.
Proof. unfold relax_w. destruct (xlt _ _); [|destruct (xeq _ _)]; cbn [sQ sqf]; auto. Qed.

Lemma fold_relax_Q G1 v l : forall st,
  sQ (fold_left (relax_w G1 v) l st) = sQ st /\ sqf (fold_left (relax_w G1 v) l st) = sqf st.
Proof.
  induction l as [|w l IH]; intros st; cbn [fold_left]; [auto|].
  destruct (IH (relax_w G1 v st w)) as [H1 H2]. destruct (relax_w_Q G1 v st w) as [H3 H4].
  rewrite H1, H2, H3, H4. auto.
Qed.

Lemma visit_w_vis n G1 st v : (1 <= sqf st)%nat -> (sqf st <= n)%nat ->
  vis n (visit_w n G1 st v) = v :: vis n st /\ sqf (visit_w n G1 st v) = (sqf st - 1)%nat.
Proof.
  intros H1 H2. unfold visit_w.
  destruct (fold_relax_Q G1 v (wherev n (fun w => nzb (G1 v w))) (push st v)) as [HQ Hq].
  split; [|rewrite Hq; reflexivity].
  rewrite <- (push_vis n st v H1 H2). unfold vis. rewrite HQ, Hq. reflexivity.
Qed.

Lemma fold_visit_vis n G1 V : forall st, (length V <= sqf st)%nat -> (sqf st <= n)%nat ->
  vis n (fold_left (visit_w n G1) V st) = rev V ++ vis n st /\
  sqf (fold_left (visit_w n G1) V st) = (sqf st - length V)%nat.
Proof.
  induction V as [|v V IH]; intros st H1 H2; cbn [fold_left rev length app].
  - split; [reflexivity|lia].
  - cbn [length] in H1. destruct (visit_w_vis n G1 st v) as [Hv Hq]; [lia|lia|].
    destruct (IH (visit_w n G1 st v)) as [H3 H4]; [lia|lia|].
    rewrite H3, H4, Hv, Hq. split; [rewrite <- app_assoc; reflexivity|lia].
Qed.

(* ---------- one round of the while loop: what the relaxations preserve ---------- *)
Section Batch.
Variables (n : nat) (G2 : mat Z) (S1 : vec bool) (D0 : vec (option Z)) (cur : Z).
Hypothesis HG2 : forall i j, (i < n)%nat -> (j < n)%nat -> G2 i j <> 0 -> 0 < G2 i j /\ S1 j = true.

Definition Bt (st : sst) : Prop :=
  (forall x, (x < n)%nat -> S1 x = false -> sD st x = D0 x) /\
  (forall x, (x < n)%nat -> S1 x = true -> sD st x = None \/ exists d, sD st x = Some d /\ cur < d) /\
  (forall x w, (x < n)%nat -> (w < n)%nat -> sP st x w = true ->
     S1 w = false /\ exists dw g, D0 w = Some dw /\ 0 < g /\ sD st x = Some (dw + g)) /\
  (forall x, (x < n)%nat -> sD st x <> None -> 0 < sNP st x).

Lemma relax_Bt st v w : (v < n)%nat -> (w < n)%nat -> S1 v = false -> D0 v = Some cur -> G2 v w <> 0 ->
  Bt st -> Bt (relax_w G2 v st w).
Proof.
  intros Hv Hw HSv HDv Hg (B1 & B2 & B3 & B4).
  destruct (HG2 v w Hv Hw Hg) as [Hpos HSw].
  assert (Ev : sD st v = Some cur) by (rewrite (B1 v Hv HSv); exact HDv).
  assert (Hvw : v <> w) by (intros ->; congruence).
  assert (HNv : 0 < sNP st v) by (apply B4; [exact Hv|congruence]).
  unfold relax_w. rewrite Ev. cbn [xadd].
  destruct (xlt (Some (cur + G2 v w)) (sD st w)) eqn:Elt.
  - (* strictly shorter: reset *)
    unfold Bt. cbn [sD sNP sP]. split; [|split; [|split]].
    + intros x Hx HSx. rewrite vupd_other by congruence. apply B1; assumption.
    + intros x Hx HSx. destruct (Nat.eq_dec x w) as [->|Hne].
      * rewrite vupd_same. right. exists (cur + G2 v w). split; [reflexivity|lia].
      * rewrite vupd_other by exact Hne. apply B2; assumption.
    + intros x y Hx Hy. destruct (Nat.eqb_spec x w) as [->|Hne].
      * intros E. apply Nat.eqb_eq in E. subst y. split; [exact HSv|].
        exists cur, (G2 v w). rewrite vupd_same. auto.
      * intros E. destruct (B3 x y Hx Hy E) as [H1 (dw & g & H2 & H3 & H4)]. split; [exact H1|].
        exists dw, g. rewrite vupd_other by exact Hne. auto.
    + intros x Hx. destruct (Nat.eq_dec x w) as [->|Hne].
      * rewrite !vupd_same. intros _. exact HNv.
      * rewrite !vupd_other by exact Hne. apply B4; exact Hx.
  - destruct (xeq (Some (cur + G2 v w)) (sD st w)) eqn:Eeq; [|unfold Bt; auto].
    (* equal: one more predecessor *)
    assert (Ew : sD st w = Some (cur + G2 v w)).
    { unfold xeq in Eeq. destruct (sD st w) as [d|]; [|discriminate]. apply Z.eqb_eq in Eeq. congruence. }
    unfold Bt. cbn [sD sNP sP]. split; [exact B1|split; [exact B2|split]].
    + intros x y Hx Hy. unfold upd.
      destruct (Nat.eqb_spec x w) as [->|Hne]; cbn [andb].
      * destruct (Nat.eqb_spec y v) as [->|Hne2].
        -- intros _. split; [exact HSv|]. exists cur, (G2 v w). auto.
        -- apply B3; assumption.
      * apply B3; assumption.
    + intros x Hx Hfin. destruct (Nat.eq_dec x w) as [->|Hne].
      * rewrite vupd_same. assert (0 < sNP st w) by (apply B4; assumption). lia.
      * rewrite vupd_other by exact Hne. apply B4; assumption.
Qed.

Lemma push_Bt st v : Bt st -> Bt (push st v).
Proof. unfold Bt, push. cbn [sD sNP sP]. auto. Qed.

Lemma visit_Bt st v : (v < n)%nat -> S1 v = false -> D0 v = Some cur -> Bt st -> Bt (visit_w n G2 st v).
Proof.
  intros Hv HSv HDv HB. unfold visit_w.
  assert (Hl : forall w, In w (wherev n (fun w => nzb (G2 v w))) -> (w < n)%nat /\ G2 v w <> 0).
  { intros w Hw. apply wherev_In in Hw. destruct Hw as [H1 H2]. split; [exact H1|].
    unfold nzb in H2. apply negb_true_iff, Z.eqb_neq in H2. exact H2. }
  revert Hl. generalize (wherev n (fun w => nzb (G2 v w))). intros l.
  pose proof (push_Bt st v HB) as HB'. revert HB'. generalize (push st v).
  induction l as [|w l IH]; intros s Hs Hl; cbn [fold_left]; [exact Hs|].
  apply IH.
  - destruct (Hl w (or_introl eq_refl)) as [H1 H2]. apply relax_Bt; assumption.
  - intros x Hx. apply Hl. right; exact Hx.
Qed.

Lemma fold_visit_Bt V : forall st, (forall v, In v V -> (v < n)%nat /\ S1 v = false /\ D0 v = Some cur) ->
  Bt st -> Bt (fold_left (visit_w n G2) V st).
Proof.
  induction V as [|v V IH]; intros st HV HB; cbn [fold_left]; [exact HB|].
  apply IH.
  - intros x Hx. apply HV. right; exact Hx.
  - destruct (HV v (or_introl eq_refl)) as (H1 & H2 & H3). apply visit_Bt; assumption.
Qed.
End Batch.

(* ---------- relaxations never unset a distance, and set the distance of the node they relax ---------- *)
Lemma relax_w_mono G1 v st w x : sD st x <> None -> sD (relax_w G1 v st w) x <> None.
Proof.
  unfold relax_w. destruct (xlt _ _) eqn:E1; [|destruct (xeq _ _); cbn [sD]; auto].
  cbn [sD]. unfold vupd. destruct (Nat.eqb x w); [|auto]. intros _.
  unfold xlt in E1. destruct (xadd (sD st v) (G1 v w)); [discriminate|discriminate].
Qed.
Lemma relax_w_sets G1 v st w : sD st v <> None -> sD (relax_w G1 v st w) w <> None.
Proof.
  intros Hv. unfold relax_w. destruct (sD st v) as [dv|] eqn:Ev; [|congruence]. cbn [xadd].
  destruct (xlt (Some (dv + G1 v w)) (sD st w)) eqn:E1.
  - cbn [sD]. rewrite vupd_same. discriminate.
  - destruct (xeq (Some (dv + G1 v w)) (sD st w)) eqn:E2; cbn [sD];
      (destruct (sD st w); [discriminate|cbn in E1; discriminate]).
Qed.
Lemma fold_relax_w_mono G1 v l : forall s x, sD s x <> None -> sD (fold_left (relax_w G1 v) l s) x <> None.
Proof. induction l as [|b l IH]; intros s x Hx; cbn [fold_left]; [exact Hx|]. apply IH, relax_w_mono, Hx. Qed.
Lemma visit_w_mono n G1 st v x : sD st x <> None -> sD (visit_w n G1 st v) x <> None.
Proof. intros H. unfold visit_w. apply fold_relax_w_mono. unfold push. cbn [sD]. exact H. Qed.
Lemma fold_visit_w_mono n G1 V : forall st x, sD st x <> None -> sD (fold_left (visit_w n G1) V st) x <> None.
Proof. induction V as [|v V IH]; intros st x Hx; cbn [fold_left]; [exact Hx|]. apply IH, visit_w_mono, Hx. Qed.
Lemma visit_w_sets n G1 st v : sD st v <> None ->
  forall w, (w < n)%nat -> G1 v w <> 0 -> sD (visit_w n G1 st v) w <> None.
Proof.
  intros Hv w Hw Hg. unfold visit_w.
  assert (Hin : In w (wherev n (fun w => nzb (G1 v w)))).
  { apply wherev_In. split; [exact Hw|]. unfold nzb. apply negb_true_iff, Z.eqb_neq. exact Hg. }
  assert (Hv' : sD (push st v) v <> None) by (unfold push; cbn [sD]; exact Hv).
  revert Hin Hv'. generalize (push st v). generalize (wherev n (fun w => nzb (G1 v w))).
  induction l as [|b l IH]; intros s Hin Hs; [destruct Hin|]. cbn [fold_left]. destruct Hin as [->|Hin].
  - apply fold_relax_w_mono. apply relax_w_sets. exact Hs.
  - apply IH; [exact Hin|]. apply relax_w_mono. exact Hs.
Qed.
Lemma fold_visit_w_sets n G1 V : forall st, (forall v, In v V -> sD st v <> None) ->
  forall v w, In v V -> (w < n)%nat -> G1 v w <> 0 -> sD (fold_left (visit_w n G1) V st) w <> None.
Proof.
  induction V as [|a V IH]; intros st HV v w Hv Hw Hg; [destruct Hv|]. cbn [fold_left]. destruct Hv as [->|Hv].
  - apply fold_visit_w_mono. apply visit_w_sets; auto. apply HV. left; reflexivity.
  - apply (IH (visit_w n G1 st a)) with (v := v); auto. intros x Hx. apply visit_w_mono. apply HV. right; exact Hx.
Qed.

(* quantitative versions: distances only decrease; a relaxation leaves D[w] <= D[v] + G1[v,w] *)
Lemma relax_w_dec G1 v st w x d : sD st x = Some d ->
  exists d', sD (relax_w G1 v st w) x = Some d' /\ d' <= d.
Proof.
  intros Hx. unfold relax_w. destruct (xlt _ _) eqn:E1; [|destruct (xeq _ _); cbn [sD]; exists d; (split; [exact Hx|lia])].
  cbn [sD]. unfold vupd. destruct (Nat.eqb_spec x w) as [->|Hne]; [|exists d; split; [exact Hx|lia]].
  rewrite Hx in E1. destruct (xadd (sD st v) (G1 v w)) as [y|]; [|discriminate].
  cbn in E1. apply Z.ltb_lt in E1. exists y. split; [reflexivity|lia].
Qed.
Lemma relax_w_setq G1 v st w dv : sD st v = Some dv ->
  exists dw, sD (relax_w G1 v st w) w = Some dw /\ dw <= dv + G1 v w.
Proof.
  intros Ev. unfold relax_w. rewrite Ev. cbn [xadd].
  destruct (xlt (Some (dv + G1 v w)) (sD st w)) eqn:E1.
  - cbn [sD]. rewrite vupd_same. exists (dv + G1 v w). split; [reflexivity|lia].
  - destruct (sD st w) as [dw|] eqn:Ew; [|cbn in E1; discriminate].
    cbn in E1. apply Z.ltb_ge in E1.
    destruct (xeq (Some (dv + G1 v w)) (Some dw)); cbn [sD]; rewrite Ew; exists dw; (split; [reflexivity|lia]).
Qed.
Lemma fold_relax_w_dec G1 v l : forall s x d, sD s x = Some d ->
  exists d', sD (fold_left (relax_w G1 v) l s) x = Some d' /\ d' <= d.
Proof.
  induction l as [|b l IH]; intros s x d Hx; cbn [fold_left]; [exists d; split; [exact Hx|lia]|].
  destruct (relax_w_dec G1 v s b x d Hx) as (d1 & H1 & H2).
  destruct (IH _ x d1 H1) as (d2 & H3 & H4). exists d2. split; [exact H3|lia].
Qed.
Lemma visit_w_dec n G1 st v x d : sD st x = Some d -> exists d', sD (visit_w n G1 st v) x = Some d' /\ d' <= d.
Proof. intros H. unfold visit_w. apply fold_relax_w_dec. unfold push. cbn [sD]. exact H. Qed.
Lemma fold_visit_w_dec n G1 V : forall st x d, sD st x = Some d ->
  exists d', sD (fold_left (visit_w n G1) V st) x = Some d' /\ d' <= d.
Proof.
  induction V as [|v V IH]; intros st x d Hx; cbn [fold_left]; [exists d; split; [exact Hx|lia]|].
  destruct (visit_w_dec n G1 st v x d Hx) as (d1 & H1 & H2).
  destruct (IH _ x d1 H1) as (d2 & H3 & H4). exists d2. split; [exact H3|lia].
Qed.
Lemma visit_w_setq n G1 st v dv : sD st v = Some dv ->
  forall w, (w < n)%nat -> G1 v w <> 0 -> exists dw, sD (visit_w n G1 st v) w = Some dw /\ dw <= dv + G1 v w.
Proof.
  intros Hv w Hw Hg. unfold visit_w.
  assert (Hin : In w (wherev n (fun w => nzb (G1 v w)))).
  { apply wherev_In. split; [exact Hw|]. unfold nzb. apply negb_true_iff, Z.eqb_neq. exact Hg. }
  assert (Hv' : exists dv', sD (push st v) v = Some dv' /\ dv' <= dv) by (exists dv; unfold push; cbn [sD]; split; [exact Hv|lia]).
  revert Hin Hv'. generalize (push st v). generalize (wherev n (fun w => nzb (G1 v w))).
  induction l as [|b l IH]; intros s Hin (dv' & Hs & Hle); [destruct Hin|]. cbn [fold_left]. destruct Hin as [->|Hin].
  - destruct (relax_w_setq G1 v s w dv' Hs) as (dw & H1 & H2).
    destruct (fold_relax_w_dec G1 v l _ w dw H1) as (dw' & H3 & H4). exists dw'. split; [exact H3|lia].
  - apply IH; [exact Hin|]. destruct (relax_w_dec G1 v s b v dv' Hs) as (d1 & H1 & H2). exists d1. split; [exact H1|lia].
Qed.
Lemma fold_visit_w_setq n G1 V cur : forall st, (forall v, In v V -> exists dv, sD st v = Some dv /\ dv <= cur) ->
  forall v w, In v V -> (w < n)%nat -> G1 v w <> 0 ->
  exists dw, sD (fold_left (visit_w n G1) V st) w = Some dw /\ dw <= cur + G1 v w.
Proof.
  induction V as [|a V IH]; intros st HV v w Hv Hw Hg; [destruct Hv|]. cbn [fold_left]. destruct Hv as [->|Hv].
  - destruct (HV v (or_introl eq_refl)) as (dv & Ev & Hle).
    destruct (visit_w_setq n G1 st v dv Ev w Hw Hg) as (dw & H1 & H2).
    destruct (fold_visit_w_dec n G1 V _ w dw H1) as (dw' & H3 & H4). exists dw'. split; [exact H3|lia].
  - apply (IH (visit_w n G1 st a)) with (v := v); auto. intros x Hx.
    destruct (HV x (or_intror Hx)) as (dv & Ev & Hle).
    destruct (visit_w_dec n G1 st a x dv Ev) as (d1 & H1 & H2). exists d1. split; [exact H1|lia].
Qed.

(* every connection out of a reached node satisfies the triangle inequality (in particular leads to a reached node) *)
Definition closed (n : nat) (G : mat Z) (st : sst) : Prop :=
  forall v w dv, (v < n)%nat -> (w < n)%nat -> sD st v = Some dv -> G v w <> 0 ->
  exists dw, sD st w = Some dw /\ dw <= dv + G v w.

(* ---------- helpers ---------- *)
Lemma tab_sst_spec n st :
  (forall x, (x < n)%nat -> sD (tab_sst n st) x = sD st x) /\
  (forall x, (x < n)%nat -> sNP (tab_sst n st) x = sNP st x) /\
  (forall x y, (x < n)%nat -> (y < n)%nat -> sP (tab_sst n st) x y = sP st x y) /\
  (forall x, (x < n)%nat -> sQ (tab_sst n st) x = sQ st x) /\
  sqf (tab_sst n st) = sqf st.
Proof.
  unfold tab_sst. cbn [sD sNP sP sQ sqf]. repeat split; intros; try apply tabv_spec; try apply tab_spec; auto.
Qed.

Lemma tab_sst_vis n st : (sqf st <= n)%nat -> vis n (tab_sst n st) = vis n st.
Proof.
  intros Hq. destruct (tab_sst_spec n st) as (_ & _ & _ & HQ & Hqf).
  unfold vis. rewrite Hqf. apply map_ext_in. intros i Hi. apply in_seq in Hi. apply HQ. lia.
Qed.

(* total preorder on extended distances, None = +infinity *)
Definition xleo (a b : option Z) : Prop :=
  match a, b with _, None => True | None, Some _ => False | Some x, Some y => x <= y end.
Lemma xleo_refl a : xleo a a.
Proof. destruct a; cbn; [lia|exact I]. Qed.
Lemma xleo_trans a b c : xleo a b -> xleo b c -> xleo a c.
Proof. destruct a, b, c; cbn; try tauto; lia. Qed.
Lemma xmin_le_l a b : xleo (xmin a b) a.
Proof. unfold xmin, xlt. destruct a as [x|], b as [y|]; try destruct (Z.ltb_spec y x); cbn; try exact I; lia. Qed.
Lemma xmin_le_r a b : xleo (xmin a b) b.
Proof. unfold xmin, xlt. destruct a as [x|], b as [y|]; try destruct (Z.ltb_spec y x); cbn; try exact I; lia. Qed.
Lemma xmin_either a b : xmin a b = a \/ xmin a b = b.
Proof. unfold xmin. destruct (xlt b a); auto. Qed.

Lemma fold_xmin (D : vec (option Z)) (l : list nat) : forall a,
  xleo (fold_left (fun m i => xmin m (D i)) l a) a /\
  (forall x, In x l -> xleo (fold_left (fun m i => xmin m (D i)) l a) (D x)) /\
  (fold_left (fun m i => xmin m (D i)) l a = a \/
   exists x, In x l /\ fold_left (fun m i => xmin m (D i)) l a = D x).
Proof.
  induction l as [|i l IH]; intros a; cbn [fold_left].
  - split; [apply xleo_refl|]. split; [intros x []|left; reflexivity].
  - destruct (IH (xmin a (D i))) as (H1 & H2 & H3). split; [|split].
    + eapply xleo_trans; [exact H1|apply xmin_le_l].
    + intros x [<-|Hx]; [eapply xleo_trans; [exact H1|apply xmin_le_r]|apply H2; exact Hx].
    + destruct H3 as [H3|[x [Hx H3]]].
      * destruct (xmin_either a (D i)) as [E|E]; [left; congruence|].
        right. exists i. split; [left; reflexivity|congruence].
      * right. exists x. split; [right; exact Hx|exact H3].
Qed.

Lemma min_over_spec (D : vec (option Z)) (sel : list nat) : sel <> [] ->
  (forall x, In x sel -> xleo (min_over D sel) (D x)) /\ (exists x, In x sel /\ min_over D sel = D x).
Proof.
  destruct sel as [|a r]; [congruence|]. intros _. unfold min_over.
  destruct (fold_xmin D r (D a)) as (H1 & H2 & H3). split.
  - intros x [<-|Hx]; [exact H1|apply H2; exact Hx].
  - destruct H3 as [H3|[x [Hx H3]]]; [exists a; split; [left; reflexivity|exact H3]|].
    exists x. split; [right; exact Hx|exact H3].
Qed.

(* ---------- list helpers ---------- *)
Lemma sorted_app {A} (R : A -> A -> Prop) l1 l2 :
  StronglySorted R l1 -> StronglySorted R l2 -> (forall a b, In a l1 -> In b l2 -> R a b) ->
  StronglySorted R (l1 ++ l2).
Proof.
  induction l1 as [|a l1 IH]; intros H1 H2 H3; cbn [app]; [exact H2|].
  inversion H1 as [|? ? Hs Hf]; subst. constructor.
  - apply IH; auto. intros x y Hx Hy. apply H3; [right; exact Hx|exact Hy].
  - apply Forall_app. split; [exact Hf|]. apply Forall_forall. intros y Hy. apply H3; [left; reflexivity|exact Hy].
Qed.

Lemma sorted_all {A} (R : A -> A -> Prop) l : (forall a b, In a l -> In b l -> R a b) -> StronglySorted R l.
Proof.
  induction l as [|a l IH]; intros H; constructor.
  - apply IH. intros x y Hx Hy. apply H; right; assumption.
  - apply Forall_forall. intros y Hy. apply H; [left; reflexivity|right; exact Hy].
Qed.

Lemma sorted_ext {A} (R R' : A -> A -> Prop) l :
  (forall a b, In a l -> In b l -> R a b -> R' a b) -> StronglySorted R l -> StronglySorted R' l.
Proof.
  induction l as [|a l IH]; intros H Hs; constructor; inversion Hs as [|? ? Hs' Hf]; subst.
  - apply IH; [|exact Hs']. intros x y Hx Hy. apply H; right; assumption.
  - rewrite Forall_forall in *. intros y Hy. apply H; [left; reflexivity|right; exact Hy|apply Hf; exact Hy].
Qed.

Lemma map_nth_seq {A} (l : list A) d : map (fun i => nth i l d) (seq 0 (length l)) = l.
Proof.
  induction l as [|a l IH]; cbn [length seq map nth]; [reflexivity|]. f_equal.
  rewrite <- seq_shift, map_map. exact IH.
Qed.

Lemma to_list_split {T} n (Q : vec T) k : (k <= n)%nat ->
  to_list n Q = map Q (seq 0 k) ++ map Q (seq k (n - k)).
Proof.
  intros Hk. unfold to_list. replace n with (k + (n - k))%nat at 1 by lia.
  rewrite seq_app, map_app. reflexivity.
Qed.

(* a duplicate-free list of nodes below n that contains every node below n has length n *)
Lemma full_length l n : NoDup l -> (forall x, In x l <-> (x < n)%nat) -> length l = n.
Proof.
  intros Hnd H. rewrite <- (seq_length n 0). apply Permutation_length. apply NoDup_Permutation.
  - exact Hnd.
  - apply seq_NoDup.
  - intros x. rewrite H, in_seq. lia.
Qed.

Lemma last_app_ne {A} (l1 l2 : list A) d : l2 <> [] -> last (l1 ++ l2) d = last l2 d.
Proof.
  intros H. induction l1 as [|a l1 IH]; cbn [app]; [reflexivity|]. rewrite <- IH. cbn [last].
  destruct (l1 ++ l2) eqn:E; [|reflexivity]. apply app_eq_nil in E. destruct E; contradiction.
Qed.

Lemma nth_last {A} (l : list A) d d' : l <> [] -> nth (length l - 1) l d = last l d'.
Proof.
  intros H. destruct (exists_last H) as [l' [x ->]]. rewrite last_last, app_length. cbn [length].
  rewrite app_nth2 by lia. replace (length l' + 1 - 1 - length l')%nat with O by lia. reflexivity.
Qed.

Lemma vis_length n st : length (vis n st) = (n - sqf st)%nat.
Proof. unfold vis. rewrite map_length, seq_length. reflexivity. Qed.

(* ---------- the loop-head invariant of `while True` ---------- *)
Record LH (n : nat) (G : mat Z) (u : nat) (Sm : vec bool) (G1 : mat Z) (V : list nat) (st : sst) (cur : Z) : Prop := {
  lh_qf : (sqf st <= n)%nat;
  lh_nd : NoDup (vis n st);
  lh_vis : forall x, In x (vis n st) <-> (x < n)%nat /\ Sm x = false;
  lh_visD : forall x, In x (vis n st) -> exists d, sD st x = Some d /\ d <= cur;
  lh_sorted : StronglySorted (fun a b => xle (sD st b) (sD st a)) (vis n st);
  lh_Vne : V <> [];
  lh_Vnd : NoDup V;
  lh_V : forall v, In v V <-> (v < n)%nat /\ Sm v = true /\ sD st v = Some cur;
  lh_S : forall x, (x < n)%nat -> Sm x = true -> sD st x = None \/ exists d, sD st x = Some d /\ cur <= d;
  lh_G1 : forall i j, (i < n)%nat -> (j < n)%nat -> G1 i j <> 0 -> 0 < G1 i j /\ Sm j = true;
  lh_last : last (rev V ++ vis n st) u = u;
  lh_P : forall x w, (x < n)%nat -> (w < n)%nat -> sP st x w = true ->
         Sm w = false /\ exists dw g, sD st w = Some dw /\ 0 < g /\ sD st x = Some (dw + g);
  lh_NP : forall x, (x < n)%nat -> sD st x <> None -> 0 < sNP st x;
  lh_G1x : forall i j, (i < n)%nat -> (j < n)%nat -> G1 i j = if Sm j then G i j else 0;
  lh_cl : forall v w, (v < n)%nat -> (w < n)%nat -> Sm v = false -> G v w <> 0 ->
          exists dv dw, sD st v = Some dv /\ sD st w = Some dw /\ dw <= dv + G v w }.

(* what the search phase guarantees at exit *)
Definition queue_ok (n u : nat) (st : sst) : Prop :=
  exists front,
    to_list n (sQ st) = front ++ vis n st /\ length front = sqf st /\ (sqf st <= n)%nat /\
    NoDup front /\ (forall x, In x front <-> (x < n)%nat /\ sD st x = None) /\
    NoDup (vis n st) /\ (forall x, In x (vis n st) <-> (x < n)%nat /\ sD st x <> None) /\
    StronglySorted (fun a b => xle (sD st b) (sD st a)) (vis n st) /\
    last (vis n st) u = u /\ vis n st <> [] /\
    (forall x w, (x < n)%nat -> (w < n)%nat -> sP st x w = true ->
       exists dw g, sD st w = Some dw /\ 0 < g /\ sD st x = Some (dw + g)) /\
    (forall x, (x < n)%nat -> sD st x <> None -> 0 < sNP st x).

Lemma queue_ok_intro n u st front :
  to_list n (sQ st) = front ++ vis n st -> length front = sqf st -> (sqf st <= n)%nat ->
  NoDup front -> (forall x, In x front <-> (x < n)%nat /\ sD st x = None) ->
  NoDup (vis n st) -> (forall x, In x (vis n st) <-> (x < n)%nat /\ sD st x <> None) ->
  StronglySorted (fun a b => xle (sD st b) (sD st a)) (vis n st) ->
  last (vis n st) u = u -> vis n st <> [] ->
  (forall x w, (x < n)%nat -> (w < n)%nat -> sP st x w = true ->
     exists dw g, sD st w = Some dw /\ 0 < g /\ sD st x = Some (dw + g)) ->
  (forall x, (x < n)%nat -> sD st x <> None -> 0 < sNP st x) ->
  queue_ok n u st.
Proof. intros. exists front. tauto. Qed.

Lemma LH_V_le_qf n G u Sm G1 V st cur : LH n G u Sm G1 V st cur -> (length V <= sqf st)%nat.
Proof.
  intros H. assert (Hnd : NoDup (V ++ vis n st)).
  { apply NoDup_app_intro; [apply (lh_Vnd _ _ _ _ _ _ _ _ H)|apply (lh_nd _ _ _ _ _ _ _ _ H)|].
    intros z Hz Hz'. apply (lh_V _ _ _ _ _ _ _ _ H) in Hz. apply (lh_vis _ _ _ _ _ _ _ _ H) in Hz'.
    destruct Hz as (_ & E & _), Hz' as (_ & E'). congruence. }
  assert (Hincl : incl (V ++ vis n st) (seq 0 n)).
  { intros z Hz. apply in_seq. apply in_app_iff in Hz. destruct Hz as [Hz|Hz].
    - apply (lh_V _ _ _ _ _ _ _ _ H) in Hz. lia.
    - apply (lh_vis _ _ _ _ _ _ _ _ H) in Hz. lia. }
  pose proof (NoDup_incl_length Hnd Hincl) as Hl. rewrite app_length, seq_length, vis_length in Hl.
  pose proof (lh_qf _ _ _ _ _ _ _ _ H). lia.
Qed.

Lemma fill_front_ok n st un : length un = sqf st -> (sqf st <= n)%nat ->
  exists st', fill_front n st un = Some st' /\
    sD st' = sD st /\ sNP st' = sNP st /\ sP st' = sP st /\ sqf st' = sqf st /\
    vis n st' = vis n st /\ to_list n (sQ st') = un ++ vis n st.
Proof.
  intros Hl Hq. unfold fill_front. rewrite Hl, Nat.eqb_refl. eexists. split; [reflexivity|].
  cbn [sD sNP sP sqf sQ]. repeat split.
  - unfold vis. cbn [sQ sqf]. apply map_ext_in. intros i Hi. apply in_seq in Hi.
    destruct (Nat.ltb_spec i (sqf st)); [lia|reflexivity].
  - rewrite (to_list_split n _ (sqf st) Hq). f_equal.
    + transitivity (map (fun i => nth i un O) (seq 0 (length un))); [|apply map_nth_seq].
      rewrite Hl. apply map_ext_in. intros i Hi. apply in_seq in Hi.
      destruct (Nat.ltb_spec i (sqf st)); [reflexivity|lia].
    + unfold vis. apply map_ext_in. intros i Hi. apply in_seq in Hi.
      destruct (Nat.ltb_spec i (sqf st)); [lia|reflexivity].
Qed.

Lemma search_w_ok n G u : nonneg_len n G -> forall fuel Sm G1 V st cur,
  LH n G u Sm G1 V st cur -> (sqf st <= fuel)%nat ->
  exists st', search_w fuel n Sm G1 V st = Some st' /\ queue_ok n u st' /\ closed n G st'.
Proof.
  intros Hnn. induction fuel as [|f IH]; intros Sm G1 V st cur H Hf.
  { exfalso. pose proof (LH_V_le_qf _ _ _ _ _ _ _ _ H) as HV. pose proof (lh_Vne _ _ _ _ _ _ _ _ H).
    destruct V; [congruence|]. cbn [length] in HV. lia. }
  pose proof (LH_V_le_qf _ _ _ _ _ _ _ _ H) as HVq.
  destruct H as [Hqf Hnd Hvis HvisD Hsort HVne HVnd HV HS HG1 Hlast HP HNP HG1x Hcl].
  cbn [search_w].
  set (S1 := tabv false n (fun i => if nmem i V then false else Sm i)).
  set (G2 := zero_cols n V G1).
  set (st0 := fold_left (visit_w n G2) V st).
  set (st1 := tab_sst n st0).
  assert (HS1 : forall x, (x < n)%nat -> S1 x = if nmem x V then false else Sm x).
  { intros x Hx. unfold S1. apply tabv_spec. exact Hx. }
  assert (HS1f : forall x, (x < n)%nat -> (S1 x = false <-> In x V \/ Sm x = false)).
  { intros x Hx. rewrite (HS1 x Hx). destruct (nmem x V) eqn:E.
    - apply nmem_In in E. tauto.
    - apply nmem_false in E. split; [auto|]. intros [?|?]; [contradiction|assumption]. }
  assert (HS1t : forall x, (x < n)%nat -> (S1 x = true <-> ~ In x V /\ Sm x = true)).
  { intros x Hx. rewrite (HS1 x Hx). destruct (nmem x V) eqn:E.
    - apply nmem_In in E. split; [discriminate|tauto].
    - apply nmem_false in E. tauto. }
  assert (HG2 : forall i j, (i < n)%nat -> (j < n)%nat -> G2 i j <> 0 -> 0 < G2 i j /\ S1 j = true).
  { intros i j Hi Hj. unfold G2, zero_cols. rewrite tab_spec by assumption.
    destruct (nmem j V) eqn:E; [congruence|]. intros Hne. destruct (HG1 i j Hi Hj Hne) as [H1 H2].
    split; [exact H1|]. apply HS1t; [exact Hj|]. apply nmem_false in E. auto. }
  assert (HB0 : Bt n S1 (sD st) cur st).
  { unfold Bt. split; [auto|split; [|split]].
    - intros x Hx Hx1. apply HS1t in Hx1; [|exact Hx]. destruct Hx1 as [HnV HSx].
      destruct (HS x Hx HSx) as [E|[d [E Hd]]]; [left; exact E|]. right. exists d. split; [exact E|].
      destruct (Z.eq_dec d cur) as [->|Hne]; [|lia]. exfalso. apply HnV. apply HV. auto.
    - intros x w Hx Hw E. destruct (HP x w Hx Hw E) as [H1 H2]. split; [|exact H2].
      apply HS1f; [exact Hw|]. right; exact H1.
    - exact HNP. }
  assert (HVprop : forall v, In v V -> (v < n)%nat /\ S1 v = false /\ sD st v = Some cur).
  { intros v Hv. pose proof (proj1 (HV v) Hv) as (H1 & H2 & H3). split; [exact H1|]. split; [|exact H3].
    apply HS1f; [exact H1|]. left; exact Hv. }
  pose proof (fold_visit_Bt n G2 S1 (sD st) cur HG2 V st HVprop HB0) as HBt. fold st0 in HBt.
  destruct (fold_visit_vis n G2 V st HVq Hqf) as [Hvis0 Hqf0]. fold st0 in Hvis0, Hqf0.
  destruct (tab_sst_spec n st0) as (TD & TNP & TP & TQ & Tqf). fold st1 in TD, TNP, TP, TQ, Tqf.
  assert (Hqf1 : sqf st1 = (sqf st - length V)%nat) by congruence.
  assert (Hvis1 : vis n st1 = rev V ++ vis n st).
  { unfold st1. rewrite tab_sst_vis by lia. exact Hvis0. }
  destruct HBt as (B1 & B2 & B3 & B4).
  (* the new permanent set *)
  assert (Hvis1_in : forall x, In x (vis n st1) <-> (x < n)%nat /\ S1 x = false).
  { intros x. rewrite Hvis1, in_app_iff, <- in_rev, Hvis. split.
    - intros [Hx|[Hx Hx']].
      + pose proof (proj1 (HV x) Hx) as (H1 & _). split; [exact H1|]. apply HS1f; auto.
      + split; [exact Hx|]. apply HS1f; auto.
    - intros [Hx Hx']. apply HS1f in Hx'; [|exact Hx]. tauto. }
  assert (Hnd1 : NoDup (vis n st1)).
  { rewrite Hvis1. apply NoDup_app_intro; [apply NoDup_rev; exact HVnd|exact Hnd|].
    intros z Hz Hz'. apply in_rev in Hz. apply HV in Hz. apply Hvis in Hz'.
    destruct Hz as (_ & E & _), Hz' as (_ & E'). congruence. }
  assert (HvisD1 : forall x, In x (vis n st1) -> exists d, sD st1 x = Some d /\ d <= cur).
  { intros x Hx. pose proof (proj1 (Hvis1_in x) Hx) as [Hxn Hx1].
    rewrite (TD x Hxn), (B1 x Hxn Hx1). rewrite Hvis1, in_app_iff, <- in_rev in Hx. destruct Hx as [Hx|Hx].
    - apply HV in Hx. destruct Hx as (_ & _ & E). exists cur. split; [exact E|lia].
    - apply HvisD; exact Hx. }
  assert (Hsort1 : StronglySorted (fun a b => xle (sD st1 b) (sD st1 a)) (vis n st1)).
  { apply (sorted_ext (fun a b => xle (sD st b) (sD st a))).
    - intros a b Ha Hb. pose proof (proj1 (Hvis1_in a) Ha) as [Han Ha1]. pose proof (proj1 (Hvis1_in b) Hb) as [Hbn Hb1].
      rewrite (TD a Han), (TD b Hbn), (B1 a Han Ha1), (B1 b Hbn Hb1). auto.
    - rewrite Hvis1. apply sorted_app.
      + apply sorted_all. intros a b Ha Hb. apply in_rev in Ha. apply in_rev in Hb.
        apply HV in Ha. apply HV in Hb. destruct Ha as (_ & _ & ->), Hb as (_ & _ & ->). cbn. lia.
      + exact Hsort.
      + intros a b Ha Hb. apply in_rev in Ha. apply HV in Ha. destruct Ha as (_ & _ & ->).
        destruct (HvisD b Hb) as [d [-> Hd]]. cbn. exact Hd. }
  assert (Hlast1 : last (vis n st1) u = u) by (rewrite Hvis1; exact Hlast).
  assert (Hvis1_ne : vis n st1 <> []).
  { rewrite Hvis1. destruct V as [|v V']; [congruence|]. cbn [rev]. intros E.
    apply app_eq_nil in E. destruct E as [E _]. apply app_eq_nil in E. destruct E as [_ E]. discriminate. }
  assert (HP1 : forall x w, (x < n)%nat -> (w < n)%nat -> sP st1 x w = true ->
            S1 w = false /\ exists dw g, sD st1 w = Some dw /\ 0 < g /\ sD st1 x = Some (dw + g)).
  { intros x w Hx Hw. rewrite (TP x w Hx Hw). intros E. destruct (B3 x w Hx Hw E) as [H1 (dw & g & H2 & H3 & H4)].
    split; [exact H1|]. exists dw, g. rewrite (TD w Hw), (TD x Hx), (B1 w Hw H1). auto. }
  assert (HNP1 : forall x, (x < n)%nat -> sD st1 x <> None -> 0 < sNP st1 x).
  { intros x Hx. rewrite (TD x Hx), (TNP x Hx). apply B4; exact Hx. }
  assert (HS1D : forall x, (x < n)%nat -> S1 x = true -> sD st1 x = None \/ exists d, sD st1 x = Some d /\ cur < d).
  { intros x Hx. rewrite (TD x Hx). apply B2; exact Hx. }
  assert (Hqf1n : (sqf st1 <= n)%nat) by lia.
  assert (HG2x : forall i j, (i < n)%nat -> (j < n)%nat -> G2 i j = if S1 j then G i j else 0).
  { intros i j Hi Hj. unfold G2, zero_cols. rewrite tab_spec by assumption. rewrite (HS1 j Hj), (HG1x i j Hi Hj).
    destruct (nmem j V); reflexivity. }
  assert (Hcl1 : forall v w, (v < n)%nat -> (w < n)%nat -> S1 v = false -> G v w <> 0 ->
            exists dv dw, sD st1 v = Some dv /\ sD st1 w = Some dw /\ dw <= dv + G v w).
  { intros v w Hv Hw Hv1 Hg. rewrite (TD v Hv), (TD w Hw), (B1 v Hv Hv1).
    assert (Hgpos : 0 < G v w) by (specialize (Hnn v w Hv Hw); lia).
    pose proof Hv1 as Hv1'. apply HS1f in Hv1'; [|exact Hv]. destruct Hv1' as [HvV|HvS].
    + pose proof (proj1 (HV v) HvV) as (_ & _ & Ev). exists cur. rewrite Ev.
      destruct (S1 w) eqn:Ew1.
      * destruct (fold_visit_w_setq n G2 V cur st) with (v := v) (w := w) as (dw & H1 & H2); auto.
        -- intros x Hx. apply HV in Hx. destruct Hx as (_ & _ & E). exists cur. split; [exact E|lia].
        -- rewrite (HG2x v w Hv Hw), Ew1. exact Hg.
        -- exists dw. fold st0 in H1. rewrite (HG2x v w Hv Hw), Ew1 in H2. auto.
      * assert (Hin : In w (vis n st1)) by (apply Hvis1_in; auto).
        destruct (HvisD1 w Hin) as [d [E Hd]]. rewrite (TD w Hw) in E. exists d. split; [reflexivity|]. split; [exact E|lia].
    + destruct (Hcl v w Hv Hw HvS Hg) as (dv & dw & E1 & E2 & Hle). exists dv. rewrite E1.
      destruct (fold_visit_w_dec n G2 V st w dw E2) as (dw' & H1 & H2). fold st0 in H1.
      exists dw'. split; [reflexivity|]. split; [exact H1|lia]. }
  destruct (wherev n S1) as [|a sel'] eqn:Esel.
  - (* every node is permanent *)
    exists st1. split; [reflexivity|].
    assert (Hall : forall x, In x (vis n st1) <-> (x < n)%nat).
    { intros x. rewrite Hvis1_in. split; [tauto|]. intros Hx. split; [exact Hx|].
      destruct (S1 x) eqn:E; [|reflexivity]. exfalso.
      assert (In x (wherev n S1)) by (apply wherev_In; auto). rewrite Esel in H. exact H. }
    pose proof (full_length _ _ Hnd1 Hall) as Hlen. rewrite vis_length in Hlen.
    assert (Hq0 : sqf st1 = O) by lia.
    split; [|intros v w dv Hv Hw Edv Hg;
             assert (Hv1 : S1 v = false) by (apply Hvis1_in, Hall; exact Hv);
             destruct (Hcl1 v w Hv Hw Hv1 Hg) as (dv' & dw & E1 & E2 & Hle);
             exists dw; split; [exact E2|]; assert (dv' = dv) by congruence; lia].
    apply (queue_ok_intro n u st1 []); auto.
    + unfold vis, to_list. rewrite Hq0, Nat.sub_0_r. reflexivity.
    + constructor.
    + intros x. split; [intros []|]. intros [Hx E]. apply Hall in Hx. destruct (HvisD1 x Hx) as [d [E' _]]. congruence.
    + intros x. split.
      * intros Hx. split; [apply Hall; exact Hx|]. destruct (HvisD1 x Hx) as [d [E' _]]. congruence.
      * intros [Hx _]. apply Hall; exact Hx.
    + intros x w Hx Hw E. destruct (HP1 x w Hx Hw E) as [_ H]. exact H.
  - set (sel := a :: sel') in *.
    assert (Hselne : sel <> []) by (unfold sel; discriminate).
    assert (Hsel : forall x, In x sel <-> (x < n)%nat /\ S1 x = true).
    { intros x. rewrite <- Esel. apply wherev_In. }
    destruct (min_over_spec (sD st1) sel Hselne) as [Hmin [xm [Hxm Hxm']]].
    cbn zeta. destruct (min_over (sD st1) sel) as [m|] eqn:Em; cbn [isinf].
    + (* next round *)
      assert (Hm : cur < m).
      { apply Hsel in Hxm. destruct Hxm as [H1 H2]. destruct (HS1D xm H1 H2) as [E|[d [E Hd]]]; congruence. }
      apply (IH S1 G2 _ st1 m); [|pose proof HVne; destruct V; [congruence|cbn [length] in *; lia]].
      assert (HV' : forall v, In v (wherev n (fun i => xeq (sD st1 i) (Some m))) <->
                      (v < n)%nat /\ S1 v = true /\ sD st1 v = Some m).
      { intros v. rewrite wherev_In. split.
        - intros [Hv E]. split; [exact Hv|]. unfold xeq in E. destruct (sD st1 v) as [d|] eqn:Ed; [|discriminate].
          apply Z.eqb_eq in E. subst d. split; [|reflexivity].
          destruct (S1 v) eqn:ES; [reflexivity|]. exfalso.
          assert (In v (vis n st1)) by (apply Hvis1_in; auto). destruct (HvisD1 v H) as [d [E1 E2]]. 
          assert (d = m) by congruence. lia.
        - intros (Hv & _ & E). split; [exact Hv|]. rewrite E. cbn. apply Z.eqb_refl. }
      constructor; auto.
      * intros x Hx. destruct (HvisD1 x Hx) as [d [E Hd]]. exists d. split; [exact E|lia].
      * intros E. assert (In xm (wherev n (fun i => xeq (sD st1 i) (Some m)))).
        { apply HV'. apply Hsel in Hxm. destruct Hxm. auto. }
        rewrite E in H. exact H.
      * apply wherev_NoDup.
      * intros x Hx Hx1. assert (Hin : In x sel) by (apply Hsel; auto). specialize (Hmin x Hin).
        destruct (sD st1 x) as [d|]; [|left; reflexivity]. right. exists d. split; [reflexivity|exact Hmin].
      * rewrite last_app_ne by exact Hvis1_ne. exact Hlast1.
    + (* the remaining nodes cannot be reached *)
      assert (Hnone : forall x, (x < n)%nat -> S1 x = true -> sD st1 x = None).
      { intros x Hx Hx1. assert (Hin : In x sel) by (apply Hsel; auto). specialize (Hmin x Hin).
        destruct (sD st1 x); [contradiction|reflexivity]. }
      set (un := wherev n (fun i => isinf (sD st1 i))).
      assert (Hun : forall x, In x un <-> (x < n)%nat /\ S1 x = true).
      { intros x. unfold un. rewrite wherev_In. split.
        - intros [Hx E]. split; [exact Hx|]. destruct (S1 x) eqn:ES; [reflexivity|]. exfalso.
          assert (In x (vis n st1)) by (apply Hvis1_in; auto). destruct (HvisD1 x H) as [d [E1 _]].
          rewrite E1 in E. discriminate.
        - intros [Hx Hx1]. split; [exact Hx|]. rewrite (Hnone x Hx Hx1). reflexivity. }
      assert (Hlen : length un = sqf st1).
      { assert (Hnd' : NoDup (un ++ vis n st1)).
        { apply NoDup_app_intro; [apply wherev_NoDup|exact Hnd1|].
          intros z Hz Hz'. apply Hun in Hz. apply Hvis1_in in Hz'. destruct Hz, Hz'. congruence. }
        assert (Hfull : forall x, In x (un ++ vis n st1) <-> (x < n)%nat).
        { intros x. rewrite in_app_iff, Hun, Hvis1_in. destruct (S1 x); split; try tauto; intros; auto. }
        pose proof (full_length _ _ Hnd' Hfull) as Hl. rewrite app_length, vis_length in Hl. lia. }
      destruct (fill_front_ok n st1 un Hlen Hqf1n) as (st2 & E2 & ED & ENP & EP & Eqf & Evis & Elist).
      exists st2. split; [exact E2|].
      split; [|unfold closed; rewrite ED; intros v w dv Hv Hw Edv Hg;
               assert (Hv1 : S1 v = false) by (destruct (S1 v) eqn:ES; [rewrite (Hnone v Hv ES) in Edv; discriminate|reflexivity]);
               destruct (Hcl1 v w Hv Hw Hv1 Hg) as (dv' & dw & Ec1 & Ec2 & Hle);
               exists dw; split; [exact Ec2|]; assert (dv' = dv) by congruence; lia].
      apply (queue_ok_intro n u st2 un); rewrite ?Evis, ?ED, ?ENP, ?EP, ?Eqf; auto.
      * apply wherev_NoDup.
      * intros x. rewrite Hun. split.
        -- intros [Hx Hx1]. split; [exact Hx|apply Hnone; assumption].
        -- intros [Hx E]. split; [exact Hx|]. destruct (S1 x) eqn:ES; [reflexivity|]. exfalso.
           assert (In x (vis n st1)) by (apply Hvis1_in; auto). destruct (HvisD1 x H) as [d [E1 _]]. congruence.
      * intros x. split.
        -- intros Hx. split; [apply Hvis1_in in Hx; tauto|]. destruct (HvisD1 x Hx) as [d [E1 _]]. congruence.
        -- intros [Hx E]. apply Hvis1_in. split; [exact Hx|]. destruct (S1 x) eqn:ES; [|reflexivity].
           exfalso. apply E. apply Hnone; assumption.
      * intros x w Hx Hw E. destruct (HP1 x w Hx Hw E) as [_ H]. exact H.
Qed.

(* ---------- queue_slots for the weighted routines ---------- *)
Lemma LH_init n G u : (u < n)%nat -> nonneg_len n G ->
  LH n G u (fun _ => true) (tab 0 n n G) [u] (init_w n u) 0.
Proof.
  intros Hu HG. unfold init_w.
  assert (Hvis : vis n (mk_sst (vupd (fun _ => None) u (Some 0)) (vupd (fun _ => 0) u 1) (fun _ _ => false) (fun _ => O) n) = []).
  { unfold vis. cbn [sqf]. rewrite Nat.sub_diag. reflexivity. }
  constructor; rewrite ?Hvis; cbn [sD sNP sP sQ sqf].
  - lia.
  - constructor.
  - intros x. split; [intros []|intros [_ E]; discriminate].
  - intros x [].
  - constructor.
  - discriminate.
  - constructor; [intros []|constructor].
  - intros v. split.
    + intros [<-|[]]. rewrite vupd_same. auto.
    + intros (Hv & _ & E). left. unfold vupd in E. destruct (Nat.eqb_spec v u); [auto|discriminate].
  - intros x Hx _. unfold vupd. destruct (Nat.eqb x u); [right; exists 0; split; [reflexivity|lia]|left; reflexivity].
  - intros i j Hi Hj. rewrite tab_spec by assumption. intros Hne. split; [|reflexivity].
    specialize (HG i j Hi Hj). lia.
  - reflexivity.
  - intros x w _ _ E. discriminate.
  - intros x Hx. unfold vupd. destruct (Nat.eqb x u); [lia|congruence].
  - intros i j Hi Hj. apply tab_spec; assumption.
  - intros v w _ _ E. discriminate.
Qed.

Theorem queue_slots_w_closed n G u : (u < n)%nat -> nonneg_len n G ->
  exists st, source_w n G u = Some st /\ queue_ok n u st /\ closed n G st.
Proof.
  intros Hu HG. unfold source_w. apply (search_w_ok n G u HG n _ _ _ _ 0 (LH_init n G u Hu HG)).
  unfold init_w. cbn [sqf]. lia.
Qed.

Theorem queue_slots_w n G u : (u < n)%nat -> nonneg_len n G ->
  exists st, source_w n G u = Some st /\ queue_ok n u st.
Proof.
  intros Hu HG. destruct (queue_slots_w_closed n G u Hu HG) as (st & E & H & _). exists st. auto.
Qed.

(* consequences in the form the property / the accumulation use *)
Lemma queue_ok_perm n u st : queue_ok n u st -> Permutation (to_list n (sQ st)) (seq 0 n).
Proof.
  intros (front & HQ & _ & _ & Hnf & Hf & Hnv & Hv & _). rewrite HQ. apply NoDup_Permutation.
  - apply NoDup_app_intro; auto. intros z Hz Hz'. apply Hf in Hz. apply Hv in Hz'. destruct Hz, Hz'. contradiction.
  - apply seq_NoDup.
  - intros x. rewrite in_app_iff, Hf, Hv, in_seq. destruct (sD st x); split; intros; try lia.
    + right. split; [lia|discriminate].
    + left. split; [lia|reflexivity].
Qed.

(* slots 0..qf-1 hold exactly the unreached nodes, the rest the reached ones in non-increasing distance, source last *)
Lemma queue_ok_slots n u st : queue_ok n u st ->
  (forall i, (i < n)%nat -> ((i < sqf st)%nat <-> sD st (sQ st i) = None)) /\
  (forall i j, (sqf st <= i)%nat -> (i <= j)%nat -> (j < n)%nat -> xle (sD st (sQ st j)) (sD st (sQ st i))) /\
  ((0 < n)%nat -> sQ st (n - 1)%nat = u).
Proof.
  intros (front & HQ & Hlen & Hqn & Hnf & Hf & Hnv & Hv & Hs & Hlast & Hne & _).
  assert (Hnth : forall i, (i < n)%nat -> sQ st i = nth i (front ++ vis n st) O).
  { intros i Hi. rewrite <- HQ. symmetry. apply nth_to_list. exact Hi. }
  assert (Hvisnth : forall i, (sqf st <= i)%nat -> (i < n)%nat -> sQ st i = nth (i - sqf st) (vis n st) O).
  { intros i H1 H2. rewrite (Hnth i H2), app_nth2 by lia. rewrite Hlen. reflexivity. }
  split; [|split].
  - intros i Hi. split.
    + intros Hlt. rewrite (Hnth i Hi), app_nth1 by lia. apply Hf. apply nth_In. lia.
    + intros E. destruct (Nat.lt_ge_cases i (sqf st)) as [|Hge]; [assumption|exfalso].
      assert (In (sQ st i) (vis n st)).
      { rewrite (Hvisnth i Hge Hi). apply nth_In. rewrite vis_length. lia. }
      apply Hv in H. tauto.
  - intros i j H1 H2 H3. destruct (Nat.eq_dec i j) as [->|Hne'].
    + assert (In (sQ st j) (vis n st)).
      { rewrite (Hvisnth j H1 H3). apply nth_In. rewrite vis_length. lia. }
      apply Hv in H. destruct (sD st (sQ st j)); [cbn; lia|tauto].
    + rewrite (Hvisnth i H1) by lia. rewrite (Hvisnth j) by lia.
      assert (Hlv : (j - sqf st < length (vis n st))%nat) by (rewrite vis_length; lia).
      revert Hs Hlv. generalize (vis n st). intros l Hs Hlv.
      assert (Hij : (i - sqf st < j - sqf st)%nat) by lia. revert Hij Hlv.
      generalize (i - sqf st)%nat (j - sqf st)%nat. clear - Hs.
      induction Hs as [|a l Hs IH Hf]; intros p q Hpq Hq; [cbn in Hq; lia|].
      destruct q as [|q]; [lia|]. cbn [length] in Hq. destruct p as [|p]; cbn [nth].
      * rewrite Forall_forall in Hf. apply Hf. apply nth_In. lia.
      * apply IH; lia.
  - intros Hn.
    assert (Hqlt : (sqf st < n)%nat).
    { pose proof (vis_length n st) as Hl. destruct (vis n st); [congruence|cbn [length] in Hl; lia]. }
    rewrite (Hvisnth (n - 1)%nat) by lia.
    replace (n - 1 - sqf st)%nat with (length (vis n st) - 1)%nat by (rewrite vis_length; lia).
    rewrite (nth_last _ O u Hne). exact Hlast.
Qed.

(* ---------- the queue order is a valid processing order for the accumulation ---------- *)
Definition potD (st : sst) (v : nat) : Z := match sD st v with Some d => d | None => 0 end.

Lemma queue_ok_pot n u st : queue_ok n u st ->
  forall w v, (w < n)%nat -> (v < n)%nat -> sP st w v = true -> potD st v < potD st w.
Proof.
  intros (front & _ & _ & _ & _ & _ & _ & _ & _ & _ & _ & HP & _) w v Hw Hv E.
  destruct (HP w v Hw Hv E) as (dw & g & E1 & Hg & E2). unfold potD. rewrite E1, E2. lia.
Qed.

Lemma queue_ok_order n u st : queue_ok n u st ->
  to_list n (sQ st) = queue_prefix n st ++ [u] /\
  NoDup (queue_prefix n st) /\ (forall x, In x (queue_prefix n st) -> (x < n)%nat) /\
  ~ In u (queue_prefix n st) /\ (forall x, (x < n)%nat -> x <> u -> In x (queue_prefix n st)) /\
  succ_first n (sP st) (queue_prefix n st).
Proof.
  intros Hok. pose proof (queue_ok_perm n u st Hok) as Hperm.
  destruct Hok as (front & HQ & Hlen & Hqn & Hnf & Hf & Hnv & Hv & Hs & Hlast & Hne & HP & _).
  destruct (exists_last Hne) as [vis' [z Ez]].
  assert (z = u) by (rewrite Ez, last_last in Hlast; exact Hlast). subst z.
  assert (HL : to_list n (sQ st) = (front ++ vis') ++ [u]) by (rewrite HQ, Ez, app_assoc; reflexivity).
  assert (Hn : length (front ++ vis') = (n - 1)%nat).
  { pose proof (to_list_length n (sQ st)) as Hl. rewrite HL, app_length in Hl. cbn [length] in Hl. lia. }
  assert (Hpre : queue_prefix n st = front ++ vis').
  { unfold queue_prefix. rewrite HL, <- Hn, firstn_app, Nat.sub_diag, firstn_all. cbn [firstn]. apply app_nil_r. }
  rewrite Hpre.
  assert (HndL : NoDup ((front ++ vis') ++ [u])).
  { rewrite <- HL. apply (Permutation_NoDup (Permutation_sym Hperm)), seq_NoDup. }
  destruct (NoDup_app_inv _ _ HndL) as (Hnd1 & _ & Hdisj).
  assert (Hlt : forall x, In x ((front ++ vis') ++ [u]) <-> (x < n)%nat).
  { intros x. rewrite <- HL. split.
    - intros Hx. apply (Permutation_in _ Hperm), in_seq in Hx. lia.
    - intros Hx. apply (Permutation_in _ (Permutation_sym Hperm)), in_seq. lia. }
  split; [exact HL|]. split; [exact Hnd1|]. split; [|split; [|split]].
  - intros x Hx. apply Hlt, in_app_iff. left; exact Hx.
  - intros Hu. apply (Hdisj u Hu). left; reflexivity.
  - intros x Hx Hxu. apply Hlt, in_app_iff in Hx. destruct Hx as [Hx|[Hx|[]]]; [exact Hx|congruence].
  - intros l1 w l2 E x Hx Hp.
    assert (Hw : (w < n)%nat). { apply Hlt. rewrite E. apply in_app_iff. left. apply in_app_iff. right. left; reflexivity. }
    destruct (HP x w Hx Hw Hp) as (dw & g & Ew & Hg & Ex).
    assert (Hxv : In x (vis n st)) by (apply Hv; split; [exact Hx|congruence]).
    assert (Hwf : ~ In w front) by (intros H; apply Hf in H; destruct H; congruence).
    (* locate w inside the filled part *)
    assert (E' : front ++ vis n st = l1 ++ w :: (l2 ++ [u])).
    { rewrite Ez, app_assoc, E, <- app_assoc. reflexivity. }
    apply app_eq_app in E'. destruct E' as [l [[E1 E2]|[E1 E2]]].
    + destruct l as [|b l]; [|exfalso; apply Hwf; cbn [app] in E2; injection E2 as Eb _; rewrite E1; apply in_app_iff; right; left; symmetry; exact Eb].
      cbn [app] in E2. rewrite app_nil_r in E1. subst l1.
      rewrite <- E2 in Hxv. destruct Hxv as [->|Hxv]; [rewrite Ew in Ex; inversion Ex; lia|].
      exfalso. rewrite <- E2 in Hs. inversion Hs as [|? ? _ Hfa]; subst. rewrite Forall_forall in Hfa.
      specialize (Hfa x Hxv). rewrite Ew, Ex in Hfa. cbn in Hfa. lia.
    + rewrite E2 in Hxv. apply in_app_iff in Hxv. destruct Hxv as [Hxv|[->|Hxv]].
      * rewrite E1. apply in_app_iff. right; exact Hxv.
      * rewrite Ew in Ex; inversion Ex; lia.
      * exfalso. rewrite E2 in Hs. replace (l ++ w :: l2 ++ [u]) with ((l ++ [w]) ++ (l2 ++ [u])) in Hs
          by (rewrite <- app_assoc; reflexivity).
        pose proof (sorted_app_ge _ _ _ Hs w x) as Hge. cbn beta in Hge.
        rewrite Ew, Ex in Hge. cbn in Hge.
        assert (dw + g <= dw); [|lia]. apply Hge; [apply in_app_iff; right; left; reflexivity|exact Hxv].
Qed.

Lemma queue_ok_ready n u st : queue_ok n u st -> acc_ready n u st.
Proof.
  intros Hok. pose proof (queue_ok_perm n u st Hok) as Hperm.
  destruct (queue_ok_order n u st Hok) as (HL & Hnd & Hlt & Hnu & Hall & Hsf).
  destruct Hok as (front & _ & _ & _ & _ & _ & _ & _ & _ & _ & _ & HP & HNP).
  split; [exact Hperm|]. split; [exact HL|]. split.
  - intros x w Hx Hw Hp. destruct (HP x w Hx Hw Hp) as (dw & g & Ew & Hg & Ex).
    assert (Hxw : x <> w) by (intros ->; rewrite Ew in Ex; inversion Ex; lia).
    destruct (Nat.eq_dec w u) as [->|Hwu].
    + assert (Hxin : In x (queue_prefix n st)) by (apply Hall; assumption).
      apply in_split in Hxin. destruct Hxin as (a & b & Eab). exists a, b, []. rewrite HL, Eab, <- app_assoc. reflexivity.
    + assert (Hwin : In w (queue_prefix n st)) by (apply Hall; assumption).
      apply in_split in Hwin. destruct Hwin as (l1 & l2 & E12).
      pose proof (Hsf l1 w l2 E12 x Hx Hp) as Hxin. apply in_split in Hxin. destruct Hxin as (a & b & Eab).
      exists a, b, (l2 ++ [u]). rewrite HL, E12, Eab, <- !app_assoc. reflexivity.
  - intros w v Hw Hv E. destruct (HP w v Hw Hv E) as (dw & g & _ & _ & Ex). apply HNP; [exact Hw|congruence].
Qed.

Theorem queue_slots_w_full n G u : (u < n)%nat -> nonneg_len n G ->
  exists st, source_w n G u = Some st /\ queue_ok n u st /\
    Permutation (to_list n (sQ st)) (seq 0 n) /\
    (forall i, (i < n)%nat -> ((i < sqf st)%nat <-> sD st (sQ st i) = None)) /\
    (forall i j, (sqf st <= i)%nat -> (i <= j)%nat -> (j < n)%nat -> xle (sD st (sQ st j)) (sD st (sQ st i))) /\
    sQ st (n - 1)%nat = u.
Proof.
  intros Hu HG. destruct (queue_slots_w n G u Hu HG) as (st & E & Hok). exists st.
  destruct (queue_ok_slots n u st Hok) as (H1 & H2 & H3).
  split; [exact E|]. split; [exact Hok|]. split; [apply (queue_ok_perm n u st Hok)|].
  split; [exact H1|]. split; [exact H2|]. apply H3. lia.
Qed.

(* ---------- the weighted routines as a whole ---------- *)
Open Scope Q_scope.
Theorem ebc_wei_pairsums n G : nonneg_len n G ->
  exists EBC BC, edge_betweenness_wei n G = Some (EBC, BC) /\
    (forall w, (w < n)%nat -> BC w == sumQ (fun u => dep_node n (source_w n G) u w) n) /\
    (forall v w, (v < n)%nat -> (w < n)%nat -> EBC v w == sumQ (fun u => dep_edge n (source_w n G) u v w) n).
Proof.
  intros HG. unfold edge_betweenness_wei.
  destruct (sources_pairsums n (source_w n G)) as (BC & EBC & Es & H1 & H2).
  { intros u Hu. destruct (queue_slots_w n G u Hu HG) as (st & E & Hok). exists st. split; [exact E|].
    apply queue_ok_ready. exact Hok. }
  rewrite Es. exists EBC, BC. auto.
Qed.

Theorem bc_wei_pairsums n G : nonneg_len n G ->
  exists BC, betweenness_wei n G = Some BC /\
    (forall w, (w < n)%nat -> BC w == sumQ (fun u => dep_node n (source_w n G) u w) n).
Proof.
  intros HG. destruct (ebc_wei_pairsums n G HG) as (EBC & BC & E & H1 & _).
  pose proof (ebc_node_vector_eq_bc_wei n G) as Hsim. rewrite E in Hsim.
  destruct (betweenness_wei n G) as [BC'|]; [|contradiction].
  exists BC'. split; [reflexivity|]. intros w Hw. rewrite <- (Hsim w). apply H1. exact Hw.
Qed.
