(* Proofs/EquivModelsEff.v — C04 for the statement-level models of the GLOBAL efficiencies (Model/Distance.v):
   efficiency_bin (the distance_bin loop, then the mean of 1/D over the ordered pairs of distinct nodes), efficiency_wei
   (Dijkstra on invert(W)), rout_efficiency (Floyd-Warshall; global value and the pairwise matrix).  The distance matrices
   are equivariant (Proofs/EquivModels.v); a renumbering permutes the list of ordered pairs of distinct nodes, and a sum
   does not depend on the order of its terms. *)
From Coq Require Import QArith Qring Lia Lqa Arith List Bool Permutation ZArith FinFun.
From BCT Require Import Base.Mat Base.SumQ Base.ListX Model.SymTerm Model.Distance Proofs.DistanceBase Proofs.DistanceBin
  Proofs.DistanceOther Proofs.DistanceFloyd Proofs.EquivModels.
Import ListNotations.
Open Scope Q_scope.

Definition ext_eq (a b : ext) : Prop :=
  match a, b with ENaN, ENaN => True | EInf, EInf => True | EFin x, EFin y => x == y | _, _ => False end.

Lemma fold_left_Qplus l : forall a, fold_left Qplus l a == a + fold_right Qplus 0 l.
Proof. induction l as [|x l IH]; intros a; cbn [fold_left fold_right]; [ring|]. rewrite IH. ring. Qed.
Lemma qsum_fr l : qsum l == fold_right Qplus 0 l.
Proof. unfold qsum. rewrite fold_left_Qplus. ring. Qed.
Lemma qsum_perm l l' : Permutation l l' -> qsum l == qsum l'.
Proof.
  intros H. rewrite !qsum_fr. induction H as [|x l l' _ IH|x y l|l l' l'' _ IH1 _ IH2]; cbn [fold_right].
  - reflexivity.
  - rewrite IH. reflexivity.
  - ring.
  - rewrite IH1. exact IH2.
Qed.
Lemma qsum_map_ext {A} (f g : A -> Q) l : (forall a, In a l -> f a == g a) -> qsum (map f l) == qsum (map g l).
Proof.
  intros H. rewrite !qsum_fr. induction l as [|a l IH]; cbn [map fold_right]; [reflexivity|].
  rewrite (H a (or_introl eq_refl)), IH; [reflexivity|]. intros b Hb. apply H. right. exact Hb.
Qed.

Lemma oinv_oeq a b : oeq a b -> oinv a == oinv b.
Proof. destruct a, b; cbn; try tauto; intros H; [rewrite H|]; reflexivity. Qed.

Section Eff.
Variables (n : nat) (p : nat -> nat).
Hypothesis Hp : perm_on n p.

Definition pp (c : nat * nat) : nat * nat := (p (fst c), p (snd c)).

Lemma offdiag_perm : Permutation (map pp (offdiag n)) (offdiag n).
Proof.
  apply NoDup_Permutation.
  - apply Injective_map_NoDup; [|apply offdiag_NoDup]. intros [a b] [c d] E. unfold pp in E. cbn [fst snd] in E.
    injection E as E1 E2. f_equal; apply (perm_inj n p _ _ Hp); assumption.
  - apply offdiag_NoDup.
  - intros [x y]. rewrite in_map_iff, offdiag_spec. split.
    + intros [[a b] [E Hin]]. apply offdiag_spec in Hin. destruct Hin as [Ha [Hb Hne]]. unfold pp in E. cbn [fst snd] in E.
      injection E as <- <-. split; [apply (perm_lt n p a Hp Ha)|split; [apply (perm_lt n p b Hp Hb)|]].
      intros E. apply Hne. apply (perm_inj n p _ _ Hp E).
    + intros [Hx [Hy Hne]]. destruct (inv_perm_r n p x Hp Hx) as [Ex Hx']. destruct (inv_perm_r n p y Hp Hy) as [Ey Hy'].
      exists (inv_perm n p x, inv_perm n p y). split; [unfold pp; cbn [fst snd]; rewrite Ex, Ey; reflexivity|].
      apply offdiag_spec. split; [exact Hx'|split; [exact Hy'|]]. intros E. apply Hne. rewrite <- Ex, <- Ey, E. reflexivity.
Qed.

Lemma mean_inv_pm (D' D : mat len) :
  (forall i j, (i < n)%nat -> (j < n)%nat -> i <> j -> oeq (D' i j) (D (p i) (p j))) -> ext_eq (mean_inv n D') (mean_inv n D).
Proof.
  intros H. unfold mean_inv. destruct (Nat.eqb (n * n - n) 0); [exact I|]. cbn [ext_eq].
  assert (E : qsum (map (fun c => oinv (D' (fst c) (snd c))) (offdiag n)) == qsum (map (fun c => oinv (D (fst c) (snd c))) (offdiag n))).
  { rewrite <- (qsum_perm _ _ (Permutation_map (fun c => oinv (D (fst c) (snd c))) offdiag_perm)). rewrite map_map.
    apply qsum_map_ext. intros [i j] Hin. apply offdiag_spec in Hin. destruct Hin as [Hi [Hj Hne]]. cbn [fst snd pp].
    apply oinv_oeq. apply H; assumption. }
  rewrite E. reflexivity.
Qed.

Theorem efficiency_bin_model_equivariant (A : mat Z) :
  exists e' e, efficiency_bin n (pm p A) = Some e' /\ efficiency_bin n A = Some e /\ ext_eq e' e.
Proof.
  destruct (distance_bin_model_equivariant n p Hp A) as [D' [D [E' [E HD]]]].
  unfold efficiency_bin. rewrite E', E. eexists. eexists. split; [reflexivity|split; [reflexivity|]].
  apply mean_inv_pm. intros i j Hi Hj _. rewrite (HD i j Hi Hj). apply oeq_refl.
Qed.

Lemma invertQ_nonneg (W : mat Q) : (forall i j, (i < n)%nat -> (j < n)%nat -> 0 <= W i j) ->
  forall i j, (i < n)%nat -> (j < n)%nat -> 0 <= invertQ W i j.
Proof.
  intros H i j Hi Hj. unfold invertQ. specialize (H i j Hi Hj). destruct (Qeq_bool (W i j) 0); [exact H|].
  unfold Qdiv. rewrite Qmult_1_l. apply Qinv_le_0_compat. exact H.
Qed.

Theorem efficiency_wei_model_equivariant (W : mat Q) : (forall i j, (i < n)%nat -> (j < n)%nat -> 0 <= W i j) ->
  exists e' e, efficiency_wei n (pm p W) = Some e' /\ efficiency_wei n W = Some e /\ ext_eq e' e.
Proof.
  intros HW. destruct (distance_wei_model_equivariant n p Hp (invertQ W) (invertQ_nonneg W HW)) as [D' [B' [D [B [E' [E HD]]]]]].
  unfold efficiency_wei. change (invertQ (pm p W)) with (pm p (invertQ W)). rewrite E', E.
  eexists. eexists. split; [reflexivity|split; [reflexivity|]].
  apply mean_inv_pm. intros i j Hi Hj _. apply HD; assumption.
Qed.

(* rout_efficiency: the global value and the pairwise matrix *)
Theorem rout_efficiency_model_equivariant (nlog : Q -> Q) (A : mat Q) (tr : transform) :
  (forall w, 0 < w -> w <= 1 -> 0 <= nlog w) ->
  (forall i j, (i < n)%nat -> (j < n)%nat -> 0 <= A i j) ->
  (tr = TLog -> forall i j, (i < n)%nat -> (j < n)%nat -> A i j <= 1) ->
  ext_eq (fst (rout_efficiency nlog n (pm p A) tr)) (fst (rout_efficiency nlog n A tr)) /\
  forall i j, (i < n)%nat -> (j < n)%nat -> snd (rout_efficiency nlog n (pm p A) tr) i j == snd (rout_efficiency nlog n A tr) (p i) (p j).
Proof.
  intros Hlog HA Hle. pose proof (distance_wei_floyd_model_equivariant n p Hp nlog A tr Hlog HA Hle) as HD.
  unfold rout_efficiency. cbn [fst snd]. split.
  - apply mean_inv_pm. intros i j Hi Hj _. apply HD; assumption.
  - intros i j Hi Hj. destruct (Nat.eqb i j) eqn:E.
    + apply Nat.eqb_eq in E. subst j. rewrite Nat.eqb_refl. reflexivity.
    + assert (E2 : Nat.eqb (p i) (p j) = false).
      { apply Nat.eqb_neq. apply Nat.eqb_neq in E. intros X. apply E. apply (perm_inj n p _ _ Hp X). }
      rewrite E2. apply oinv_oeq. apply HD; assumption.
Qed.
End Eff.
