(* Proofs/DistanceSimple.v — under strictly positive lengths a walk of minimum total length is a PATH (no node
   repeated), so the edge-count outputs B (distance_wei) and hops (distance_wei_floyd) are the number of edges of a
   minimum-length path in the strict sense. *)
From Coq Require Import QArith List Arith Bool ZArith Lia Lqa.
From BCT Require Import Base.Mat Base.ListX Model.Distance Proofs.DistanceBase Proofs.DistanceFloyd Proofs.DistanceBin
  Proofs.DistanceOther Proofs.DistanceWei.
Import ListNotations.
Open Scope Q_scope.

Lemma wl_pos n L : positive n L -> forall mid i j y, (i < n)%nat -> (j < n)%nat -> below n mid ->
  wl L i mid j = Some y -> 0 < y.
Proof.
  intros Hp mid. induction mid as [|m r IH]; intros i j y Hi Hj B; cbn [wl].
  - apply Hp; assumption.
  - apply below_cons in B. destruct B as [Hm B]. intros H.
    destruct (L i m) as [a|] eqn:Ea; [|discriminate]. destruct (wl L m r j) as [b|] eqn:Eb; [|discriminate].
    cbn in H. injection H as <-. pose proof (Hp i m a Hi Hm Ea). pose proof (IH m j b Hm Hj B Eb). lra.
Qed.

Lemma min_walk_simple n L j (Hp : positive n L) (Hj : (j < n)%nat) : forall mid i x, (i < n)%nat -> below n mid ->
  (forall mid' y, below n mid' -> wl L i mid' j = Some y -> x <= y) ->
  oeq (wl L i mid j) (Some x) -> NoDup (i :: mid) /\ ~ In j mid.
Proof.
  induction mid as [|m r IH]; intros i x Hi B Hmin W.
  - split; [constructor; [intros []|constructor]|intros []].
  - assert (Hnoi : ~ In i (m :: r)).
    { intros Hin. apply in_split in Hin. destruct Hin as [l1 [l2 E]]. rewrite E in W, B.
      pose proof (wl_app_oeq L i l1 i l2 j) as Happ.
      apply below_app in B. destruct B as [B1 B2]. apply below_cons in B2. destruct B2 as [_ B2].
      destruct (wl L i (l1 ++ i :: l2) j) as [z|]; [|cbn in W; contradiction]. cbn in W.
      destruct (wl L i l1 i) as [c|] eqn:Ec; [|cbn in Happ; contradiction].
      destruct (wl L i l2 j) as [d|] eqn:Ed; [|cbn in Happ; contradiction]. cbn in Happ.
      pose proof (wl_pos n L Hp l1 i i c Hi Hi B1 Ec). pose proof (Hmin l2 d B2 Ed). lra. }
    cbn [wl] in W. apply below_cons in B. destruct B as [Hm B].
    destruct (L i m) as [a|] eqn:Ea; [|cbn in W; contradiction].
    destruct (wl L m r j) as [b|] eqn:Eb; [|cbn in W; contradiction]. cbn in W.
    pose proof (wl_pos n L Hp r m j b Hm Hj B Eb) as Hb.
    assert (Hsub : forall mid' y, below n mid' -> wl L m mid' j = Some y -> b <= y).
    { intros mid' y B' W'. assert (E : wl L i (m :: mid') j = Some (a + y)) by (cbn [wl]; rewrite Ea, W'; reflexivity).
      pose proof (Hmin (m :: mid') (a + y) ltac:(apply below_cons; auto) E). lra. }
    destruct (IH m b Hm B Hsub ltac:(rewrite Eb; cbn; lra)) as [ND Hnj].
    split; [constructor; assumption|].
    intros [->|Hin]; [|contradiction].
    assert (E : wl L i [] j = Some a) by exact Ea. pose proof (Hmin [] a (below_nil n) E). lra.
Qed.

(* the whole node sequence i, mid..., j of a minimum-length walk between distinct nodes is duplicate-free *)
Theorem min_walk_is_path n L i j x mid : positive n L -> (i < n)%nat -> (j < n)%nat -> i <> j -> below n mid ->
  is_min_dist n L i j (Some x) -> oeq (wl L i mid j) (Some x) -> NoDup (i :: mid ++ [j]).
Proof.
  intros Hp Hi Hj Hne B [_ Hmin] W.
  destruct (min_walk_simple n L j Hp Hj mid i x Hi B Hmin W) as [ND Hnj].
  inversion ND as [|? ? Hni ND']; subst. constructor.
  - rewrite in_app_iff. intros [H|[H|[]]]; [contradiction|congruence].
  - apply NoDup_app_intro; [exact ND'|constructor; [intros []|constructor]|].
    intros z Hz [<-|[]]. contradiction.
Qed.

Lemma Lg_positive n G : (forall i j, (i < n)%nat -> (j < n)%nat -> 0 <= G i j) -> positive n (Lg G).
Proof.
  intros HG i j x Hi Hj. unfold Lg. destruct (Qeq_bool (G i j) 0) eqn:E; [discriminate|].
  intros H. injection H as <-. apply Qeq_bool_neq in E. specialize (HG i j Hi Hj).
  destruct (Qlt_le_dec 0 (G i j)); [assumption|exfalso; apply E; lra].
Qed.

(* distance_wei: B[i,j] is the number of edges of a minimum-length PATH *)
Theorem distance_wei_edge_count_path n G D B :
  (forall i j, (i < n)%nat -> (j < n)%nat -> 0 <= G i j) ->
  distance_wei n G = Some (D, B) ->
  forall i j x, (i < n)%nat -> (j < n)%nat -> i <> j -> D i j = Some x ->
    is_min_dist n (Lg G) i j (Some x) /\
    exists mid, below n mid /\ NoDup (i :: mid ++ [j]) /\ S (length mid) = B i j /\ oeq (wl (Lg G) i mid j) (Some x).
Proof.
  intros HG Hrun i j x Hi Hj Hne HD.
  destruct (distance_wei_correct n G D B HG Hrun) as [Hd [HB _]].
  pose proof (Hd i j Hi Hj Hne) as Hmin. rewrite HD in Hmin. split; [exact Hmin|].
  destruct (HB i j x Hi Hj Hne HD) as [mid [Bm [Hl W]]].
  exists mid. split; [exact Bm|]. split; [|auto].
  apply (min_walk_is_path n (Lg G) i j x mid (Lg_positive n G HG) Hi Hj Hne Bm Hmin W).
Qed.

(* distance_wei_floyd under strictly positive lengths: hops[i,j] is the number of edges of a minimum-length PATH *)
Theorem floyd_hops_path n L : positive n L ->
  forall i j x, (i < n)%nat -> (j < n)%nat -> i <> j -> spl (floyd n L) i j = Some x ->
    is_min_dist n L i j (Some x) /\
    exists mid, below n mid /\ NoDup (i :: mid ++ [j]) /\ S (length mid) = hops (floyd n L) i j /\
                oeq (wl L i mid j) (Some x).
Proof.
  intros Hp i j x Hi Hj Hne HS.
  assert (Hnn : nonneg n L) by (intros a b y Ha Hb E; apply Qlt_le_weak; apply (Hp a b y Ha Hb E)).
  pose proof (floyd_correct n L Hnn i j Hi Hj Hne) as Hmin.
  change (spl (floyd n L) i j = Some x) in HS. change (is_min_dist n L i j (spl (floyd n L) i j)) in Hmin.
  rewrite HS in Hmin. split; [exact Hmin|].
  destruct (floyd_hops_min_path n L Hnn i j x Hi Hj Hne HS) as [mid [Bm [Hl W]]].
  exists mid. split; [exact Bm|]. split; [|auto].
  apply (min_walk_is_path n L i j x mid Hp Hi Hj Hne Bm Hmin W).
Qed.
