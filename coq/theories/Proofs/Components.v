(* Proofs/Components.v — the set-merging loop of get_components computes exactly the classes
   of mutually reachable nodes.  Fold invariant [Inv] (blocks connected through processed
   edges, every processed edge inside one block, blocks pairwise disjoint, duplicate-free,
   non-empty, made of edge endpoints) => every clause of C16. *)
From Coq Require Import ZArith List Arith Bool Lia Relations Permutation.
From BCT Require Import Base.Mat Base.ListX Model.Components.
Import ListNotations.
Local Open Scope nat_scope.

(* ---------- list-sets ---------- *)
Definition disj (s t : nset) : Prop := forall x, In x s -> ~ In x t.

Lemma union_In x s t : In x (union s t) <-> In x s \/ In x t.
Proof. unfold union. rewrite in_app_iff, filter_In. split.
  - intros [H|[H _]]; auto.
  - intros [H|H]; auto. destruct (nmem x s) eqn:E.
    + left. apply nmem_In. exact E.
    + right. split; [exact H|]. reflexivity.
Qed.

Lemma union_NoDup s t : NoDup s -> NoDup t -> NoDup (union s t).
Proof. intros Hs Ht. unfold union. apply NoDup_app_intro; [exact Hs|apply NoDup_filter; exact Ht|].
  intros z Hz Hf. apply filter_In in Hf. destruct Hf as [_ Hf]. apply nmem_In in Hz.
  cbv beta in Hf. rewrite Hz in Hf. discriminate.
Qed.

Lemma disjointb_false s t : disjointb s t = false -> exists x, In x s /\ In x t.
Proof. unfold disjointb. induction s as [|a s IH]; cbn [forallb]; intros H; [discriminate|].
  destruct (nmem a t) eqn:E; cbn [negb andb] in H.
  - exists a. split; [left; reflexivity|apply nmem_In; exact E].
  - destruct (IH H) as [x [Hx1 Hx2]]. exists x. split; [right; exact Hx1|exact Hx2].
Qed.

Lemma disjointb_true s t : disjointb s t = true -> disj s t.
Proof. unfold disjointb, disj. rewrite forallb_forall. intros H x Hx Ht.
  specialize (H x Hx). apply nmem_In in Ht. rewrite Ht in H. discriminate.
Qed.

Lemma mk_item_In x u v : In x (mk_item u v) <-> x = u \/ x = v.
Proof. unfold mk_item. destruct (Nat.eqb_spec u v); cbn [In]; subst; intuition. Qed.

Lemma mk_item_NoDup u v : NoDup (mk_item u v).
Proof. unfold mk_item. destruct (Nat.eqb_spec u v).
  - constructor; [intros []|constructor].
  - constructor; [intros [H|[]]; congruence|]. constructor; [intros []|constructor].
Qed.

Lemma mk_item_nonempty u v : mk_item u v <> [].
Proof. unfold mk_item. destruct (Nat.eqb u v); discriminate. Qed.

(* ---------- connectivity through a list of (processed) edges ---------- *)
Section Conn.
Variable E : list (nat * nat).
Definition adjE (x y : nat) : Prop := In (x, y) E \/ In (y, x) E.
Definition conn := clos_refl_sym_trans nat adjE.
End Conn.

Lemma conn_mono E E' x y : incl E E' -> conn E x y -> conn E' x y.
Proof. intros Hi H. induction H.
  - apply rst_step. destruct H; [left|right]; apply Hi; assumption.
  - apply rst_refl.
  - apply rst_sym; assumption.
  - eapply rst_trans; eassumption.
Qed.

Definition all_conn E (s : nset) : Prop := forall x y, In x s -> In y s -> conn E x y.

(* ---------- one item against the current sets ---------- *)
Lemma absorb_spec E item sets it tmp :
  absorb item sets = (it, tmp) ->
  all_conn E item -> Forall (all_conn E) sets -> ForallOrdPairs disj sets ->
  all_conn E it /\ Forall (all_conn E) tmp /\ incl tmp sets /\
  (forall x, In x item -> In x it) /\
  (forall s, In s sets -> In s tmp \/ (forall x, In x s -> In x it)) /\
  (forall s, In s tmp -> disj s it) /\
  ForallOrdPairs disj tmp /\
  (forall x, In x it -> In x item \/ exists s, In s sets /\ In x s).
Proof.
  revert item it tmp. induction sets as [|s rest IH]; intros item it tmp H Hit Hs Hd; cbn [absorb] in H.
  - inversion H; subst. repeat split; auto using incl_nil_l; try constructor; intros; try contradiction; auto.
  - inversion Hs as [|? ? Hs1 Hs2]; subst. inversion Hd as [|? ? Hd1 Hd2]; subst.
    destruct (disjointb s item) eqn:Dj.
    + destruct (absorb item rest) as [it' tmp'] eqn:A. inversion H; subst. clear H.
      destruct (IH item it tmp' A Hit Hs2 Hd2) as (C1&C2&C3&C4&C5&C6&C7&C8).
      repeat split; auto.
      * apply incl_cons; [left; reflexivity|apply incl_tl; exact C3].
      * intros s' [<-|Hs']; [left; left; reflexivity|].
        destruct (C5 s' Hs'); [left; right; assumption|right; assumption].
      * intros s' [<-|Hs'] x Hx Hxi; [|exact (C6 s' Hs' x Hx Hxi)].
        destruct (C8 x Hxi) as [Hi|[t [Ht Hxt]]].
        -- exact (disjointb_true _ _ Dj x Hx Hi).
        -- rewrite Forall_forall in Hd1. exact (Hd1 t Ht x Hx Hxt).
      * constructor; [|exact C7]. rewrite Forall_forall. intros t Ht.
        rewrite Forall_forall in Hd1. apply Hd1. apply C3. exact Ht.
      * intros x Hx. destruct (C8 x Hx) as [?|[t [Ht Hxt]]]; [left; assumption|].
        right. exists t. split; [right; exact Ht|exact Hxt].
    + assert (Hu : all_conn E (union s item)).
      { destruct (disjointb_false _ _ Dj) as [z [Hz1 Hz2]].
        intros x y Hx Hy. apply union_In in Hx. apply union_In in Hy.
        destruct Hx as [Hx|Hx], Hy as [Hy|Hy].
        - apply Hs1; assumption.
        - apply rst_trans with z; [apply Hs1; assumption|apply Hit; assumption].
        - apply rst_trans with z; [apply Hit; assumption|apply Hs1; assumption].
        - apply Hit; assumption. }
      destruct (IH (union s item) it tmp H Hu Hs2 Hd2) as (C1&C2&C3&C4&C5&C6&C7&C8).
      repeat split; auto.
      * apply incl_tl. exact C3.
      * intros x Hx. apply C4. apply union_In. right. exact Hx.
      * intros s' [<-|Hs']; [right; intros x Hx; apply C4; apply union_In; left; exact Hx|apply C5; exact Hs'].
      * intros x Hx. destruct (C8 x Hx) as [Hi|[t [Ht Hxt]]].
        -- apply union_In in Hi. destruct Hi as [Hi|Hi]; [right; exists s; split; [left; reflexivity|exact Hi]|left; exact Hi].
        -- right. exists t. split; [right; exact Ht|exact Hxt].
Qed.

Lemma absorb_NoDup item sets it tmp :
  absorb item sets = (it, tmp) -> NoDup item -> Forall (@NoDup nat) sets -> NoDup it.
Proof.
  revert item it tmp. induction sets as [|s rest IH]; intros item it tmp H Hi Hs; cbn [absorb] in H.
  - inversion H; subst. exact Hi.
  - inversion Hs as [|? ? Hs1 Hs2]; subst. destruct (disjointb s item).
    + destruct (absorb item rest) as [it' tmp'] eqn:A. inversion H; subst. exact (IH item it tmp' A Hi Hs2).
    + exact (IH (union s item) it tmp H (union_NoDup _ _ Hs1 Hi) Hs2).
Qed.

Lemma fop_app_single {A} (R : A -> A -> Prop) l a :
  ForallOrdPairs R l -> (forall x, In x l -> R x a) -> ForallOrdPairs R (l ++ [a]).
Proof.
  induction 1 as [|b l Hb Hl IH]; intros Ha; cbn [app].
  - constructor; constructor.
  - constructor.
    + rewrite Forall_forall. intros x Hx. apply in_app_iff in Hx. destruct Hx as [Hx|[<-|[]]].
      * rewrite Forall_forall in Hb. exact (Hb x Hx).
      * apply Ha. left. reflexivity.
    + apply IH. intros x Hx. apply Ha. right. exact Hx.
Qed.

(* ---------- the fold invariant ---------- *)
Definition Inv (E : list (nat * nat)) (sets : list nset) : Prop :=
  Forall (all_conn E) sets /\
  (forall u v, In (u, v) E -> exists s, In s sets /\ In u s /\ In v s) /\
  ForallOrdPairs disj sets /\
  Forall (fun s => NoDup s /\ s <> []) sets /\
  (forall s x, In s sets -> In x s -> exists u v, In (u, v) E /\ (x = u \/ x = v)).

Lemma Inv_nil : Inv [] [].
Proof. repeat split; try constructor; intros; contradiction. Qed.

Lemma step_Inv E sets e : Inv E sets -> Inv (E ++ [e]) (step sets e).
Proof.
  intros (I1 & I2 & I3 & I4 & I5). destruct e as [u v]. unfold step. cbn [fst snd].
  destruct (absorb (mk_item u v) sets) as [it tmp] eqn:A.
  assert (Hinc : incl E (E ++ [(u, v)])) by (apply incl_appl; apply incl_refl).
  assert (Hitem : all_conn (E ++ [(u, v)]) (mk_item u v)).
  { intros x y Hx Hy. apply mk_item_In in Hx. apply mk_item_In in Hy.
    assert (Huv : conn (E ++ [(u, v)]) u v).
    { apply rst_step. left. apply in_app_iff. right. left. reflexivity. }
    destruct Hx as [->| ->], Hy as [->| ->];
      [apply rst_refl|exact Huv|apply rst_sym; exact Huv|apply rst_refl]. }
  assert (I1' : Forall (all_conn (E ++ [(u, v)])) sets).
  { rewrite Forall_forall in *. intros s Hs x y Hx Hy. eapply conn_mono; [exact Hinc|]. exact (I1 s Hs x y Hx Hy). }
  destruct (absorb_spec _ _ _ _ _ A Hitem I1' I3) as (C1&C2&C3&C4&C5&C6&C7&C8).
  split; [|split; [|split; [|split]]].
  - apply Forall_app. split; [exact C2|]. constructor; [exact C1|constructor].
  - intros a b Hab. apply in_app_iff in Hab. destruct Hab as [Hab|[Hab|[]]].
    + destruct (I2 a b Hab) as [s [Hs [Ha Hb]]]. destruct (C5 s Hs) as [Ht|Hsub].
      * exists s. split; [apply in_app_iff; left; exact Ht|split; assumption].
      * exists it. split; [apply in_app_iff; right; left; reflexivity|split; apply Hsub; assumption].
    + inversion Hab; subst a b. exists it. split; [apply in_app_iff; right; left; reflexivity|].
      split; apply C4; apply mk_item_In; [left|right]; reflexivity.
  - apply fop_app_single; [exact C7|exact C6].
  - apply Forall_app. split.
    + rewrite Forall_forall in *. intros s Hs. apply I4. apply C3. exact Hs.
    + constructor; [|constructor]. split.
      * eapply absorb_NoDup; [exact A|apply mk_item_NoDup|].
        rewrite Forall_forall in *. intros s Hs. exact (proj1 (I4 s Hs)).
      * intros ->. apply (C4 u). apply mk_item_In. left. reflexivity.
  - intros s x Hs Hx. apply in_app_iff in Hs. destruct Hs as [Hs|[<-|[]]].
    + destruct (I5 s x (C3 s Hs) Hx) as [a [b [Hab Hx']]]. exists a, b. split; [apply Hinc; exact Hab|exact Hx'].
    + destruct (C8 x Hx) as [Hi|[t [Ht Hxt]]].
      * exists u, v. split; [apply in_app_iff; right; left; reflexivity|apply mk_item_In; exact Hi].
      * destruct (I5 t x Ht Hxt) as [a [b [Hab Hx']]]. exists a, b. split; [apply Hinc; exact Hab|exact Hx'].
Qed.

Lemma fold_Inv edges : forall E sets, Inv E sets -> Inv (E ++ edges) (fold_left step edges sets).
Proof.
  induction edges as [|e r IH]; intros E sets HI; cbn [fold_left].
  - rewrite app_nil_r. exact HI.
  - replace (E ++ e :: r) with ((E ++ [e]) ++ r) by (rewrite <- app_assoc; reflexivity).
    apply IH. apply step_Inv. exact HI.
Qed.

(* the invariant holds after EVERY prefix of the edge list, in particular at the end *)
Theorem union_sets_Inv edges : Inv edges (union_sets edges).
Proof. exact (fold_Inv edges [] [] Inv_nil). Qed.

(* ---------- consequences of the invariant ---------- *)
Lemma fop_same_block sets : ForallOrdPairs disj sets ->
  forall s s' x, In s sets -> In s' sets -> In x s -> In x s' -> s = s'.
Proof.
  induction 1 as [|a l Ha Hl IH]; intros s s' x Hs Hs' Hx Hx'; [contradiction|].
  rewrite Forall_forall in Ha.
  destruct Hs as [<-|Hs], Hs' as [<-|Hs'].
  - reflexivity.
  - exfalso. exact (Ha s' Hs' x Hx Hx').
  - exfalso. exact (Ha s Hs x Hx' Hx).
  - exact (IH s s' x Hs Hs' Hx Hx').
Qed.

Lemma conn_block E sets : Inv E sets ->
  forall x y, conn E x y -> forall s, In s sets -> (In x s <-> In y s).
Proof.
  intros (I1 & I2 & I3 & I4 & I5) x y H. induction H as [x y Hxy|x|x y H IH|x y z H1 IH1 H2 IH2]; intros s Hs.
  - assert (Hex : exists s', In s' sets /\ In x s' /\ In y s').
    { destruct Hxy as [Hxy|Hxy]; destruct (I2 _ _ Hxy) as [s' [H1 [H2 H3]]]; exists s'; auto. }
    destruct Hex as [s' [Hs' [Hx Hy]]]. split; intros Hin.
    + rewrite (fop_same_block sets I3 s s' x Hs Hs' Hin Hx). exact Hy.
    + rewrite (fop_same_block sets I3 s s' y Hs Hs' Hin Hy). exact Hx.
  - reflexivity.
  - symmetry. apply IH. exact Hs.
  - rewrite (IH1 s Hs). apply IH2. exact Hs.
Qed.

(* index of the block that holds v *)
Fixpoint idx (v : nat) (sets : list nset) : nat :=
  match sets with [] => 0 | s :: r => if nmem v s then 0 else S (idx v r) end.

Lemma labels_from_none k v l : (forall s, In s l -> ~ In v s) -> labels_from k v l = [].
Proof.
  revert k. induction l as [|a l IH]; intros k H; cbn [labels_from]; [reflexivity|].
  destruct (nmem v a) eqn:Ea.
  - exfalso. apply (H a); [left; reflexivity|apply nmem_In; exact Ea].
  - cbn [app]. apply IH. intros s Hs. apply H. right. exact Hs.
Qed.

Lemma labels_from_single k v sets :
  ForallOrdPairs disj sets -> (exists s, In s sets /\ In v s) ->
  labels_from k v sets = [S (k + idx v sets)] /\ idx v sets < length sets /\ In v (nth (idx v sets) sets []).
Proof.
  revert k. induction sets as [|a l IH]; intros k Hd [s [Hs Hv]]; [contradiction|].
  inversion Hd as [|? ? Ha Hl]; subst. cbn [labels_from idx].
  destruct (nmem v a) eqn:Ea.
  - rewrite labels_from_none.
    + cbn [app nth length]. split; [f_equal; f_equal; lia|]. split; [lia|apply nmem_In; exact Ea].
    + intros t Ht Hvt. rewrite Forall_forall in Ha. apply nmem_In in Ea. exact (Ha t Ht v Ea Hvt).
  - destruct Hs as [<-|Hs]; [apply nmem_In in Hv; congruence|].
    destruct (IH (S k) Hl (ex_intro _ s (conj Hs Hv))) as (L1 & L2 & L3).
    rewrite L1. cbn [app nth length]. split; [f_equal; f_equal; lia|]. split; [lia|exact L3].
Qed.

Lemma idx_unique v sets : ForallOrdPairs disj sets ->
  forall i, i < length sets -> In v (nth i sets []) -> idx v sets = i.
Proof.
  induction 1 as [|a l Ha Hl IH]; intros i Hi Hv; cbn [length] in Hi; [lia|]. cbn [idx].
  destruct i as [|i]; cbn [nth] in Hv.
  - apply nmem_In in Hv. rewrite Hv. reflexivity.
  - assert (Hin : In (nth i l []) l) by (apply nth_In; lia).
    destruct (nmem v a) eqn:Ea.
    + exfalso. apply nmem_In in Ea. rewrite Forall_forall in Ha. exact (Ha _ Hin v Ea Hv).
    + f_equal. apply IH; [lia|exact Hv].
Qed.

Lemma flat_map_singletons {A B} (f : A -> list B) (g : A -> B) l :
  (forall x, In x l -> f x = [g x]) -> flat_map f l = map g l.
Proof.
  induction l as [|a l IH]; intros H; cbn [flat_map map]; [reflexivity|].
  rewrite (H a) by (left; reflexivity). cbn [app]. f_equal. apply IH. intros x Hx. apply H. right. exact Hx.
Qed.

Lemma comps_of_map n sets :
  ForallOrdPairs disj sets -> (forall v, v < n -> exists s, In s sets /\ In v s) ->
  comps_of n sets = map (fun v => S (idx v sets)) (seq 0 n).
Proof.
  intros Hd Hc. unfold comps_of. apply flat_map_singletons. intros v Hv. apply in_seq in Hv.
  destruct (labels_from_single 0 v sets Hd (Hc v ltac:(lia))) as [L _]. exact L.
Qed.

Lemma filter_map_length {A B} (p : B -> bool) (g : A -> B) l :
  length (filter p (map g l)) = length (filter (fun x => p (g x)) l).
Proof.
  induction l as [|a l IH]; cbn [map filter]; [reflexivity|].
  destruct (p (g a)); cbn [length]; rewrite IH; reflexivity.
Qed.

Lemma forallb_false_ex {A} (f : A -> bool) l : forallb f l = false -> exists x, In x l /\ f x = false.
Proof.
  induction l as [|a l IH]; cbn [forallb]; intros H; [discriminate|].
  destruct (f a) eqn:Ea; cbn [andb] in H.
  - destruct (IH H) as [x [Hx Hf]]. exists x. split; [right; exact Hx|exact Hf].
  - exists a. split; [left; reflexivity|exact Ea].
Qed.

Lemma NoDup_all_eq_length1 (s : nset) u : NoDup s -> In u s -> (forall y, In y s -> y = u) -> length s = 1.
Proof.
  intros Hnd Hu Hall. destruct s as [|a [|b r]]; [contradiction|reflexivity|].
  exfalso. assert (a = u) by (apply Hall; left; reflexivity).
  assert (b = u) by (apply Hall; right; left; reflexivity). subst.
  inversion Hnd as [|? ? Hn _]. apply Hn. left. reflexivity.
Qed.

(* ---------- paths in the matrix vs connectivity through the edge list ---------- *)
Lemma symmetricb_true n A : symmetricb n A = true <-> sym_on n A.
Proof.
  unfold symmetricb, sym_on. rewrite forallb_forall. split.
  - intros H i j Hi Hj. specialize (H (i, j) (proj2 (cells_In n i j) (conj Hi Hj))).
    cbn [fst snd] in H. apply Z.eqb_eq. exact H.
  - intros H [i j] Hc. apply cells_In in Hc. cbn [fst snd]. apply Z.eqb_eq. apply H; tauto.
Qed.

Lemma edge_cells_In n A u v :
  In (u, v) (edge_cells n (fill_diag1 (binarizeZ A))) <-> u < n /\ v < n /\ (u = v \/ A u v <> 0%Z).
Proof.
  unfold edge_cells. rewrite filter_In, cells_In. cbn [fst snd]. unfold fill_diag1, binarizeZ.
  destruct (Nat.eqb_spec u v) as [Huv|Huv].
  - split; [intros [[H1 H2] _]; auto|intros (H1 & H2 & _); split; [auto|reflexivity]].
  - destruct (Z.eqb_spec (A u v) 0) as [Hz|Hz].
    + rewrite Hz. split; [intros [_ H]; discriminate|intros (_ & _ & [H|H]); contradiction].
    + split; [intros [[H1 H2] _]; auto|intros (H1 & H2 & _); split; [auto|reflexivity]].
Qed.

Lemma path_trans n A u v w : path n A u v -> path n A v w -> path n A u w.
Proof. induction 1 as [|a b c Ha Hb Hab Hp IH]; intros H2; [exact H2|]. exact (path_step n A a b w Ha Hb Hab (IH H2)). Qed.

Lemma path_sym n A : sym_on n A -> forall u v, path n A u v -> path n A v u.
Proof.
  intros Hs u v H. induction H as [|a b c Ha Hb Hab Hp IH]; [apply path_refl|].
  apply path_trans with b; [exact IH|].
  apply (path_step n A b a a Hb Ha); [rewrite <- (Hs a b Ha Hb); exact Hab|apply path_refl].
Qed.

Lemma conn_path n A : sym_on n A ->
  forall x y, conn (edge_cells n (fill_diag1 (binarizeZ A))) x y -> path n A x y.
Proof.
  intros Hs x y H. induction H as [x y Hxy|x|x y H IH|x y z H1 IH1 H2 IH2].
  - destruct Hxy as [Hxy|Hxy]; apply edge_cells_In in Hxy; destruct Hxy as (H1 & H2 & [->|H3]);
      try apply path_refl.
    + exact (path_step n A x y y H1 H2 H3 (path_refl n A y)).
    + apply (path_step n A x y y H2 H1); [rewrite (Hs x y H2 H1); exact H3|apply path_refl].
  - apply path_refl.
  - apply path_sym; assumption.
  - exact (path_trans n A x y z IH1 IH2).
Qed.

Lemma path_conn n A x y : path n A x y -> conn (edge_cells n (fill_diag1 (binarizeZ A))) x y.
Proof.
  induction 1 as [|a b c Ha Hb Hab Hp IH]; [apply rst_refl|].
  apply rst_trans with b; [|exact IH]. apply rst_step. left. apply edge_cells_In. auto.
Qed.

Lemma path_isolated n A u w : path n A u w ->
  (forall v, v < n -> v <> u -> A u v = 0%Z) -> w = u.
Proof.
  induction 1 as [|a b c Ha Hb Hab Hp IH]; intros Hiso; [reflexivity|].
  destruct (Nat.eq_dec b a) as [->|Hne]; [exact (IH Hiso)|].
  exfalso. apply Hab. exact (Hiso b Hb Hne).
Qed.

(* ---------- everything about one successful call, in one place ---------- *)
Section Run.
Variables (n : nat) (A : mat Z).
Let E := edge_cells n (fill_diag1 (binarizeZ A)).
Let sets := gc_sets n A.

Lemma gc_Inv : Inv E sets.
Proof. exact (union_sets_Inv E). Qed.

Lemma gc_disj : ForallOrdPairs disj sets.
Proof. exact (proj1 (proj2 (proj2 gc_Inv))). Qed.

Lemma gc_cover v : v < n -> exists s, In s sets /\ In v s.
Proof.
  intros Hv. destruct gc_Inv as (_ & I2 & _).
  destruct (I2 v v) as [s [Hs [Hv' _]]]; [apply edge_cells_In; auto|]. exists s. auto.
Qed.

Lemma gc_lt s x : In s sets -> In x s -> x < n.
Proof.
  intros Hs Hx. destruct gc_Inv as (_ & _ & _ & _ & I5).
  destruct (I5 s x Hs Hx) as [u [v [Huv Hx']]]. apply edge_cells_In in Huv. destruct Hx'; subst; tauto.
Qed.

Lemma gc_comps : comps_of n sets = map (fun v => S (idx v sets)) (seq 0 n).
Proof. exact (comps_of_map n sets gc_disj gc_cover). Qed.

Lemma gc_label v : v < n -> nth v (comps_of n sets) 0 = S (idx v sets).
Proof. intros Hv. rewrite gc_comps. exact (nth_map_seq (fun v => S (idx v sets)) 0 n v Hv). Qed.

Lemma gc_idx v : v < n -> idx v sets < length sets /\ In v (nth (idx v sets) sets []).
Proof. intros Hv. exact (proj2 (labels_from_single 0 v sets gc_disj (gc_cover v Hv))). Qed.

Lemma gc_block_nodup i : i < length sets -> NoDup (nth i sets []) /\ nth i sets [] <> [].
Proof.
  intros Hi. destruct gc_Inv as (_ & _ & _ & I4 & _). rewrite Forall_forall in I4.
  apply I4. apply nth_In. exact Hi.
Qed.

Lemma gc_same_block (Hs : sym_on n A) u v : u < n -> v < n ->
  (idx u sets = idx v sets <-> path n A u v).
Proof.
  intros Hu Hv. destruct (gc_idx u Hu) as [Lu Iu]. destruct (gc_idx v Hv) as [Lv Iv]. split.
  - intros Heq. apply conn_path; [exact Hs|]. destruct gc_Inv as (I1 & _). rewrite Forall_forall in I1.
    apply (I1 (nth (idx u sets) sets [])); [apply nth_In; exact Lu|exact Iu|rewrite Heq; exact Iv].
  - intros Hp. apply path_conn in Hp. symmetry. apply idx_unique; [exact gc_disj|exact Lu|].
    apply (conn_block E sets gc_Inv u v Hp); [apply nth_In; exact Lu|exact Iu].
Qed.

Lemma gc_count i : i < length sets -> length (nth i sets []) = count_label (S i) (comps_of n sets).
Proof.
  intros Hi. unfold count_label. rewrite gc_comps, filter_map_length.
  apply Permutation_length. apply NoDup_Permutation.
  - exact (proj1 (gc_block_nodup i Hi)).
  - apply NoDup_filter. apply seq_NoDup.
  - intros v. rewrite filter_In, in_seq. split.
    + intros Hv. assert (Hlt : v < n) by (apply (gc_lt (nth i sets [])); [apply nth_In; exact Hi|exact Hv]).
      split; [lia|]. rewrite (idx_unique v sets gc_disj i Hi Hv). apply Nat.eqb_refl.
    + intros [Hlt He]. apply Nat.eqb_eq in He. injection He as He. rewrite He.
      apply gc_idx. lia.
Qed.
End Run.

(* ---------- the clauses of C16 ---------- *)
Lemma gc_some n A comps sizes : get_components n A = Some (comps, sizes) ->
  sym_on n A /\ comps = comps_of n (gc_sets n A) /\ sizes = sizes_of (gc_sets n A).
Proof.
  unfold get_components. destruct (symmetricb n A) eqn:Es; [|discriminate].
  intros H. inversion H; subst. split; [apply symmetricb_true; exact Es|split; reflexivity].
Qed.

Lemma sizes_nth sets i : nth i (sizes_of sets) 0 = length (nth i sets []).
Proof. unfold sizes_of. change 0 with (length (@nil nat)). apply map_nth. Qed.

Lemma sizes_length sets : length (sizes_of sets) = length sets.
Proof. unfold sizes_of. apply map_length. Qed.

Theorem components_iff_path n A comps sizes :
  get_components n A = Some (comps, sizes) ->
  length comps = n /\
  forall u v, u < n -> v < n -> (nth u comps 0 = nth v comps 0 <-> path n A u v).
Proof.
  intros H. destruct (gc_some n A comps sizes H) as (Hs & -> & ->). split.
  - rewrite gc_comps, map_length, seq_length. reflexivity.
  - intros u v Hu Hv. rewrite !gc_label by assumption.
    rewrite <- (gc_same_block n A Hs u v Hu Hv). split; [intros E; injection E; auto|intros ->; reflexivity].
Qed.

Theorem labels_1_to_m n A comps sizes :
  get_components n A = Some (comps, sizes) ->
  forall l, (1 <= l <= length sizes) <-> (exists v, v < n /\ nth v comps 0 = l).
Proof.
  intros H. destruct (gc_some n A comps sizes H) as (Hs & -> & ->). intros l. rewrite sizes_length. split.
  - intros Hl. destruct l as [|i]; [lia|]. assert (Hi : i < length (gc_sets n A)) by lia.
    destruct (gc_block_nodup n A i Hi) as [_ Hne].
    destruct (nth i (gc_sets n A) []) as [|v r] eqn:Eb; [congruence|].
    assert (Hin : In v (nth i (gc_sets n A) [])) by (rewrite Eb; left; reflexivity).
    assert (Hv : v < n) by (apply (gc_lt n A (nth i (gc_sets n A) [])); [apply nth_In; exact Hi|exact Hin]).
    exists v. split; [exact Hv|]. rewrite gc_label by exact Hv.
    rewrite (idx_unique v _ (gc_disj n A) i Hi Hin). reflexivity.
  - intros [v [Hv Hl]]. rewrite gc_label in Hl by exact Hv. destruct (gc_idx n A v Hv) as [L _]. lia.
Qed.

Theorem sizes_are_counts n A comps sizes :
  get_components n A = Some (comps, sizes) ->
  forall l, 1 <= l <= length sizes -> nth (l - 1) sizes 0 = count_label l comps.
Proof.
  intros H. destruct (gc_some n A comps sizes H) as (Hs & -> & ->). intros l. rewrite sizes_length. intros Hl.
  destruct l as [|i]; [lia|]. replace (S i - 1) with i by lia. rewrite sizes_nth. apply gc_count. lia.
Qed.

Theorem isolated_singletons n A comps sizes :
  get_components n A = Some (comps, sizes) ->
  forall u, u < n -> (forall v, v < n -> v <> u -> A u v = 0%Z) ->
  nth (nth u comps 0 - 1) sizes 0 = 1.
Proof.
  intros H. destruct (gc_some n A comps sizes H) as (Hs & -> & ->). intros u Hu Hiso.
  rewrite gc_label by exact Hu. replace (S (idx u (gc_sets n A)) - 1) with (idx u (gc_sets n A)) by lia.
  rewrite sizes_nth. destruct (gc_idx n A u Hu) as [L I].
  apply (NoDup_all_eq_length1 _ u); [exact (proj1 (gc_block_nodup n A _ L))|exact I|].
  intros y Hy. apply (path_isolated n A u y); [|exact Hiso].
  apply conn_path; [exact Hs|]. destruct (gc_Inv n A) as (I1 & _). rewrite Forall_forall in I1.
  apply (I1 (nth (idx u (gc_sets n A)) (gc_sets n A) [])); [apply nth_In; exact L|exact I|exact Hy].
Qed.

Theorem asym_rejected n A :
  get_components n A = None <-> exists i j, i < n /\ j < n /\ A i j <> A j i.
Proof.
  unfold get_components. destruct (symmetricb n A) eqn:Es; split.
  - discriminate.
  - intros (i & j & Hi & Hj & Hne). exfalso. apply Hne. apply symmetricb_true in Es. exact (Es i j Hi Hj).
  - intros _. unfold symmetricb in Es. apply forallb_false_ex in Es. destruct Es as [[i j] [Hc Hf]].
    apply cells_In in Hc. cbn [fst snd] in Hf. exists i, j. split; [tauto|split; [tauto|]].
    intros Heq. rewrite Heq, Z.eqb_refl in Hf. discriminate.
  - reflexivity.
Qed.

Theorem number_of_components_def n A m :
  number_of_components n A = Some m <->
  exists comps sizes, get_components n A = Some (comps, sizes) /\ m = length sizes.
Proof.
  unfold number_of_components. destruct (get_components n A) as [[c s]|]; split.
  - intros H. inversion H. exists c, s. split; reflexivity.
  - intros (c' & s' & H & ->). inversion H. reflexivity.
  - discriminate.
  - intros (c' & s' & H & _). discriminate.
Qed.

(* the count really is the number of reachability classes: m pairwise unjoined representatives
   that together reach every node *)
Theorem number_is_class_count n A m :
  number_of_components n A = Some m ->
  exists reps, length reps = m /\
    (forall i, i < m -> nth i reps 0 < n) /\
    (forall i j, i < m -> j < m -> path n A (nth i reps 0) (nth j reps 0) -> i = j) /\
    (forall v, v < n -> exists i, i < m /\ path n A (nth i reps 0) v).
Proof.
  intros H. apply number_of_components_def in H. destruct H as (comps & sizes & H & ->).
  destruct (gc_some n A comps sizes H) as (Hs & -> & ->). rewrite sizes_length.
  set (sets := gc_sets n A).
  assert (Hrep : forall i, i < length sets -> In (nth i (map (hd 0) sets) 0) (nth i sets [])).
  { intros i Hi.
    assert (Em : nth i (map (hd 0) sets) 0 = hd 0 (nth i sets [])) by exact (map_nth (hd 0) sets [] i).
    rewrite Em.
    destruct (gc_block_nodup n A i Hi) as [_ Hne]. fold sets in Hne.
    destruct (nth i sets []) as [|a r]; [congruence|left; reflexivity]. }
  assert (Hlt : forall i, i < length sets -> nth i (map (hd 0) sets) 0 < n).
  { intros i Hi. apply (gc_lt n A (nth i sets [])); [apply nth_In; exact Hi|apply Hrep; exact Hi]. }
  exists (map (hd 0) sets). split; [apply map_length|]. split; [exact Hlt|]. split.
  - intros i j Hi Hj Hp.
    apply (gc_same_block n A Hs _ _ (Hlt i Hi) (Hlt j Hj)) in Hp. fold sets in Hp.
    rewrite (idx_unique _ sets (gc_disj n A) i Hi (Hrep i Hi)) in Hp.
    rewrite (idx_unique _ sets (gc_disj n A) j Hj (Hrep j Hj)) in Hp. exact Hp.
  - intros v Hv. destruct (gc_idx n A v Hv) as [L I]. fold sets in L, I.
    exists (idx v sets). split; [exact L|].
    apply (gc_same_block n A Hs _ _ (Hlt _ L) Hv). fold sets.
    apply (idx_unique _ sets (gc_disj n A) _ L (Hrep _ L)).
Qed.

(* agreement with ANY distance routine whose finite entries are exactly the joined pairs
   (that is what C03 establishes for distance_bin / breadthdist / reachdist) *)
Theorem agrees_with_distance n A comps sizes (finite : nat -> nat -> Prop) :
  get_components n A = Some (comps, sizes) ->
  (forall u v, u < n -> v < n -> (finite u v <-> path n A u v)) ->
  forall u v, u < n -> v < n -> (nth u comps 0 = nth v comps 0 <-> finite u v).
Proof.
  intros H Hf u v Hu Hv. rewrite (Hf u v Hu Hv). exact (proj2 (components_iff_path n A comps sizes H) u v Hu Hv).
Qed.
