(* Proofs/PartitionLS.v — ci2ls / ls2ci as whole routines: the REVERSE direction ci2ls(ls2ci(ls)) = ls with every block
   written in ascending order (for a partition in list form, either value of zeroindexed), the empty cases, the
   IndexError, and the forward direction lifted to the whole routines. *)
From Coq Require Import QArith List Arith Bool ZArith Lia Permutation Sorted.
From BCT Require Import Base.Mat Base.SumQ Base.ListX Model.Partition Model.PartitionLS Proofs.Partition.
Import ListNotations.

(* ---------- small list facts ---------- *)
Lemma combine_seq_nth {A} (d : A) (l : list A) : forall s,
  combine (seq s (length l)) l = map (fun u => (u, nth (u - s) l d)) (seq s (length l)).
Proof.
  induction l as [|a t IH]; intros s; cbn [length seq combine map]; [reflexivity|].
  rewrite Nat.sub_diag. cbn [nth]. f_equal. rewrite IH. apply map_ext_in. intros u Hu. apply in_seq in Hu.
  replace (u - s)%nat with (S (u - S s)) by lia. reflexivity.
Qed.

Lemma map_nth_seq {A B} (F : A -> B) (d : A) (l : list A) : map F l = map (fun u => F (nth u l d)) (seq 0 (length l)).
Proof.
  induction l as [|a t IH]; cbn [length seq map]; [reflexivity|]. f_equal. rewrite IH, <- seq_shift, map_map. reflexivity.
Qed.

Lemma list_sum_concat {A} (ls : list (list A)) : list_sum (map (@length A) ls) = length (concat ls).
Proof. unfold list_sum. induction ls as [|b t IH]; cbn [map fold_right concat]; [reflexivity|]. rewrite app_length, IH. reflexivity. Qed.

Lemma block_unique (ls : list (list nat)) : NoDup (concat ls) -> forall i j y,
  (i < length ls)%nat -> (j < length ls)%nat -> In y (nth i ls []) -> In y (nth j ls []) -> i = j.
Proof.
  induction ls as [|b t IH]; intros Hnd i j y Hi Hj Hyi Hyj; cbn [length] in *; [lia|].
  cbn [concat] in Hnd. destruct (NoDup_app_inv _ _ Hnd) as (_ & Ht & Hdis).
  assert (Hc : forall u, (u < length t)%nat -> In y (nth u t []) -> In y (concat t)).
  { intros u Hu Hin. apply in_concat. exists (nth u t []). split; [apply nth_In; exact Hu|exact Hin]. }
  destruct i as [|i], j as [|j]; cbn [nth] in *.
  - reflexivity.
  - exfalso. apply (Hdis y Hyi). apply (Hc j); [lia|exact Hyj].
  - exfalso. apply (Hdis y Hyj). apply (Hc i); [lia|exact Hyi].
  - f_equal. apply (IH Ht i j y); [lia|lia|exact Hyi|exact Hyj].
Qed.

(* NoDup, entries below the length: every index below the length occurs (pigeonhole) *)
Lemma perm_covers (l : list nat) y : NoDup l -> (forall x, In x l -> (x < length l)%nat) -> (y < length l)%nat -> In y l.
Proof.
  intros Hnd Hlt Hy.
  assert (HP : Permutation l (seq 0 (length l))).
  { apply NoDup_Permutation_bis; [exact Hnd|rewrite seq_length; lia|].
    intros x Hx. apply in_seq. specialize (Hlt x Hx). lia. }
  apply (Permutation_in y (Permutation_sym HP)). apply in_seq. lia.
Qed.

(* ---------- ls2ci with the offset z ---------- *)
Lemma ls2ci_z_outer y u0 z (l : list (nat * list nat)) : forall ci0 : vec nat,
  (forall p, In p l -> nmem y (snd p) = true -> fst p = u0) ->
  fold_left (fun ci ib => fold_left (fun ci y0 => vupd ci y0 (fst ib + z)%nat) (snd ib) ci) l ci0 y =
  if existsb (fun p => nmem y (snd p)) l then (u0 + z)%nat else ci0 y.
Proof.
  induction l as [|p t IH]; intros ci0 H; cbn [fold_left existsb]; [reflexivity|].
  rewrite IH by (intros q Hq; apply H; right; exact Hq).
  rewrite ls2ci_inner. destruct (nmem y (snd p)) eqn:E; cbn [orb].
  - rewrite (H p (or_introl eq_refl) E). destruct (existsb _ t); reflexivity.
  - reflexivity.
Qed.

(* a node of block u gets the label u + z *)
Lemma ls2ci_z_value z ls u y : NoDup (concat ls) -> (u < length ls)%nat -> In y (nth u ls []) -> ls2ci_z z ls y = (u + z)%nat.
Proof.
  intros Hnd Hu Hy. unfold ls2ci_z. rewrite (combine_seq_nth [] ls 0).
  rewrite (ls2ci_z_outer y u z).
  - assert (Hex : existsb (fun p : nat * list nat => nmem y (snd p))
                    (map (fun u0 => (u0, nth (u0 - 0) ls [])) (seq 0 (length ls))) = true).
    { apply existsb_exists. exists (u, nth (u - 0) ls []). split.
      - apply in_map_iff. exists u. split; [reflexivity|apply in_seq; lia].
      - cbn [snd]. rewrite Nat.sub_0_r. apply nmem_In. exact Hy. }
    rewrite Hex. reflexivity.
  - intros p Hp Hin. apply in_map_iff in Hp. destruct Hp as [v [<- Hv]]. cbn [fst snd] in *. apply in_seq in Hv.
    rewrite Nat.sub_0_r in Hin. apply nmem_In in Hin. apply (block_unique ls Hnd v u y); [lia|exact Hu|exact Hin|exact Hy].
Qed.

(* the loop of Model/Partition.v is the case z = 1 *)
Lemma ls2ci_z_one ls y : ls2ci_z 1 ls y = ls2ci ls y.
Proof.
  unfold ls2ci_z, ls2ci. generalize (combine (seq 0 (length ls)) ls) as l. generalize (fun _ : nat => 0%nat) as c0.
  intros c0 l. revert c0. induction l as [|p t IH]; intros c0; cbn [fold_left]; [reflexivity|].
  replace (fst p + 1)%nat with (S (fst p)) by lia. apply IH.
Qed.

(* ---------- sort_block ---------- *)
Lemma sorted_filter_seq (f : nat -> bool) : forall n s, StronglySorted lt (filter f (seq s n)).
Proof.
  induction n as [|n IH]; intros s; cbn [seq filter]; [constructor|].
  destruct (f s); [|apply IH]. constructor; [apply IH|].
  apply Forall_forall. intros x Hx. apply filter_In in Hx. destruct Hx as [Hx _]. apply in_seq in Hx. lia.
Qed.

Theorem sort_block_spec N b : NoDup b -> (forall y, In y b -> (y < N)%nat) ->
  Permutation (sort_block N b) b /\ StronglySorted lt (sort_block N b).
Proof.
  intros Hnd Hlt. split; [|apply sorted_filter_seq].
  apply NoDup_Permutation; [apply NoDup_filter, seq_NoDup|exact Hnd|].
  intros x. unfold sort_block. rewrite filter_In, in_seq, nmem_In. split; [tauto|]. intros Hx. specialize (Hlt x Hx). split; [lia|exact Hx].
Qed.

(* ---------- the reverse direction ---------- *)
Section Reverse.
Variables (ls : list (list nat)) (z : nat).
Hypothesis Hok : blocks_ok ls.
Let N := length (concat ls).
Let c' := ls2ci_z z ls.
Let ci : vec Z := fun i => Z.of_nat (c' i).

Lemma rev_block_of y : (y < N)%nat -> exists u, (u < length ls)%nat /\ In y (nth u ls []).
Proof.
  intros Hy. destruct Hok as (Hnd & Hlt & _).
  pose proof (perm_covers (concat ls) y Hnd Hlt Hy) as Hin. apply in_concat in Hin. destruct Hin as [b [Hb Hyb]].
  destruct (In_nth ls b [] Hb) as [u [Hu Hnth]]. exists u. split; [exact Hu|]. rewrite Hnth. exact Hyb.
Qed.

Lemma rev_in_block_lt u y : (u < length ls)%nat -> In y (nth u ls []) -> (y < N)%nat.
Proof.
  intros Hu Hy. destruct Hok as (_ & Hlt & _). apply Hlt. apply in_concat. exists (nth u ls []). split; [apply nth_In; exact Hu|exact Hy].
Qed.

Lemma rev_block_nonempty u : (u < length ls)%nat -> exists y, In y (nth u ls []).
Proof.
  intros Hu. destruct Hok as (_ & _ & Hne). specialize (Hne (nth u ls []) (nth_In ls [] Hu)).
  destruct (nth u ls []) as [|y t]; [contradiction|]. exists y. left. reflexivity.
Qed.

Lemma rev_value u y : (u < length ls)%nat -> In y (nth u ls []) -> c' y = (u + z)%nat.
Proof. intros Hu Hy. destruct Hok as (Hnd & _ & _). apply ls2ci_z_value; assumption. Qed.

(* the labels below u + z are exactly j + z for j < u: the rank of u + z is u *)
Lemma rev_rank u : (u < length ls)%nat -> rank (to_list N ci) (Z.of_nat (u + z)) = u.
Proof.
  intros Hu. unfold rank.
  assert (HP : Permutation (nodup Z.eq_dec (filter (fun y => Z.ltb y (Z.of_nat (u + z))) (to_list N ci)))
                           (map (fun j => Z.of_nat (j + z)) (seq 0 u))).
  { apply NoDup_Permutation; [apply NoDup_nodup| |].
    - apply FinFun.Injective_map_NoDup; [|apply seq_NoDup]. intros a b Hab. lia.
    - intros v. rewrite nodup_In, filter_In, in_map_iff. split.
      + intros [Hin Hlt]. apply Z.ltb_lt in Hlt. unfold to_list in Hin. apply in_map_iff in Hin.
        destruct Hin as [i [<- Hi]]. apply in_seq in Hi.
        destruct (rev_block_of i) as [u' [Hu' Hy']]; [lia|]. unfold ci in *. rewrite (rev_value u' i Hu' Hy') in *.
        exists u'. split; [reflexivity|apply in_seq; lia].
      + intros [j [<- Hj]]. apply in_seq in Hj.
        destruct (rev_block_nonempty j) as [y Hy]; [lia|].
        assert (HyN : (y < N)%nat) by (apply (rev_in_block_lt j); [lia|exact Hy]).
        split; [|apply Z.ltb_lt; lia].
        replace (Z.of_nat (j + z)) with (ci y) by (unfold ci; rewrite (rev_value j y); [reflexivity|lia|exact Hy]).
        apply In_to_list. exact HyN. }
  rewrite (Permutation_length HP), map_length, seq_length. reflexivity.
Qed.

Lemma rev_relabel u y : (u < length ls)%nat -> In y (nth u ls []) -> relabel N ci y = S u.
Proof.
  intros Hu Hy. rewrite relabel_spec by (apply (rev_in_block_lt u); assumption).
  unfold ci at 2. rewrite (rev_value u y Hu Hy). rewrite rev_rank by exact Hu. reflexivity.
Qed.

Lemma rev_vmax : vmax N (relabel N ci) = length ls.
Proof.
  apply Nat.le_antisymm.
  - apply vmax_le. intros i Hi. destruct (rev_block_of i Hi) as [u [Hu Hy]]. rewrite (rev_relabel u i Hu Hy). lia.
  - destruct (length ls) as [|k] eqn:E; [lia|].
    destruct (rev_block_nonempty k) as [y Hy]; [lia|].
    assert (Hk : (k < length ls)%nat) by lia.
    pose proof (vmax_ge N (relabel N ci) y (rev_in_block_lt k y Hk Hy)) as H. rewrite (rev_relabel k y Hk Hy) in H. exact H.
Qed.

Theorem rev_ci2ls : ci2ls N ci = map (sort_block N) ls.
Proof.
  unfold ci2ls. cbv zeta. rewrite rev_vmax. rewrite (map_nth_seq (sort_block N) [] ls).
  apply map_ext_in. intros u Hu. apply in_seq in Hu. unfold sort_block. apply filter_ext_in. intros i Hi. apply in_seq in Hi.
  destruct (rev_block_of i) as [u' [Hu' Hy']]; [lia|]. rewrite (rev_relabel u' i Hu' Hy').
  destruct (Nat.eqb_spec (S u') (S u)) as [E|E].
  - injection E as ->. symmetry. apply nmem_In. exact Hy'.
  - symmetry. apply nmem_false. intros Hin. apply E. f_equal. destruct Hok as (Hnd & _ & _).
    apply (block_unique ls Hnd u' u i); [exact Hu'|lia|exact Hy'|exact Hin].
Qed.
End Reverse.

(* ci2ls reads its argument only on 0..n-1 *)
Lemma relabel_ext n ci ci' : (forall i, (i < n)%nat -> ci i = ci' i) -> relabel n ci = relabel n ci'.
Proof.
  intros H. unfold relabel. cbv zeta.
  assert (E : to_list n ci = to_list n ci') by (apply map_ext_in; intros i Hi; apply in_seq in Hi; apply H; lia).
  rewrite E. unfold tabv. f_equal. apply map_ext_in. intros i Hi. apply in_seq in Hi. rewrite H by lia. reflexivity.
Qed.
Lemma ci2ls_ext n ci ci' : (forall i, (i < n)%nat -> ci i = ci' i) -> ci2ls n ci = ci2ls n ci'.
Proof. intros H. unfold ci2ls. rewrite (relabel_ext n ci ci' H). reflexivity. Qed.

Lemma ci2ls_run_eq ci : ci2ls_run ci = ci2ls (length ci) (of_list 0%Z ci).
Proof. destruct ci; reflexivity. Qed.

(* ci2ls(ls2ci(ls, zeroindexed)) = ls with every block in ascending order, for every partition in list form and both
   values of zeroindexed; ls2ci does not raise on such a list and returns one label per index *)
Theorem ls2ci_ci2ls_inverse zi ls : blocks_ok ls ->
  exists ci, ls2ci_run zi ls = Some ci /\ length ci = length (concat ls) /\
             ci2ls_run (map Z.of_nat ci) = map (sort_block (length ci)) ls /\
             forall b, In b ls -> Permutation (sort_block (length ci) b) b /\ StronglySorted lt (sort_block (length ci) b).
Proof.
  intros Hok. destruct ls as [|b0 t] eqn:Els.
  - exists []. split; [reflexivity|]. split; [reflexivity|]. split; [reflexivity|]. intros b1 Hb1. destruct Hb1.
  - rewrite <- Els in *. set (z := if zi then 0%nat else 1%nat). set (N := length (concat ls)).
    exists (to_list N (ls2ci_z z ls)).
    assert (Hrun : ls2ci_run zi ls = Some (to_list N (ls2ci_z z ls))).
    { unfold ls2ci_run. rewrite Els at 1. rewrite list_sum_concat. fold N.
      assert (Hall : forallb (fun y => Nat.ltb y N) (concat ls) = true).
      { apply forallb_forall. intros y Hy. apply Nat.ltb_lt. destruct Hok as (_ & Hlt & _). apply Hlt. exact Hy. }
      rewrite Hall. reflexivity. }
    rewrite to_list_length. split; [exact Hrun|]. split; [reflexivity|]. split.
    + rewrite ci2ls_run_eq, map_length, to_list_length. pose proof (rev_ci2ls ls z Hok) as HR. cbv zeta in HR. fold N in HR. rewrite <- HR.
      apply ci2ls_ext. intros i Hi. unfold of_list.
      rewrite (nth_indep _ 0%Z (Z.of_nat 0)) by (rewrite map_length, to_list_length; exact Hi).
      rewrite map_nth. rewrite nth_to_list by exact Hi. reflexivity.
    + intros b Hb. destruct Hok as (Hnd & Hlt & _). apply sort_block_spec.
      * clear - Hnd Hb. induction ls as [|a r IH]; [contradiction|]. cbn [concat] in Hnd.
        destruct (NoDup_app_inv _ _ Hnd) as (Ha & Hr & _). destruct Hb as [->|Hb]; [exact Ha|apply IH; assumption].
      * intros y Hy. apply Hlt. apply in_concat. exists b. split; assumption.
Qed.

(* why the blocks must be non-empty: an empty block leaves a gap in the labels, ci2ls closes it *)
Example ls2ci_ci2ls_empty_block :
  ls2ci_run false [[2; 0]; []; [1]]%nat = Some [1; 3; 1]%nat /\ ci2ls_run [1; 3; 1]%Z = [[0; 2]; [1]]%nat.
Proof. vm_compute. split; reflexivity. Qed.

(* the early returns and the IndexError *)
Theorem ls2ci_run_empty zi : ls2ci_run zi [] = Some [].
Proof. reflexivity. Qed.
Theorem ci2ls_run_empty : ci2ls_run [] = [].
Proof. reflexivity. Qed.
Theorem ls2ci_run_raises zi ls y : ls <> [] -> In y (concat ls) -> (length (concat ls) <= y)%nat -> ls2ci_run zi ls = None.
Proof.
  intros Hne Hy Hge. unfold ls2ci_run. destruct ls as [|b t]; [contradiction|]. rewrite list_sum_concat.
  set (l := b :: t) in *.
  assert (Hall : forallb (fun y0 => Nat.ltb y0 (length (concat l))) (concat l) = false).
  { apply Bool.not_true_is_false. intros H. rewrite forallb_forall in H. specialize (H y Hy). apply Nat.ltb_lt in H. lia. }
  rewrite Hall. reflexivity.
Qed.

(* ---------- the forward direction for the whole routines: ls2ci(ci2ls(ci), zeroindexed) = np.unique ranks (+1 or +0) ---------- *)
Lemma ci2ls_concat_perm n ci : Permutation (concat (ci2ls n ci)) (seq 0 n).
Proof.
  apply NoDup_Permutation; [| apply seq_NoDup |].
  - unfold ci2ls. cbv zeta. rewrite <- flat_map_concat_map. apply NoDup_flat_map.
    + apply seq_NoDup.
    + intros u _. apply NoDup_filter, seq_NoDup.
    + intros u v x _ _ Hu Hv. apply filter_In in Hu. apply filter_In in Hv. destruct Hu as [_ Hu], Hv as [_ Hv].
      apply Nat.eqb_eq in Hu. apply Nat.eqb_eq in Hv. lia.
  - intros x. rewrite in_concat. split.
    + intros [b [Hb Hx]]. unfold ci2ls in Hb. cbv zeta in Hb. apply in_map_iff in Hb. destruct Hb as [u [<- _]].
      apply filter_In in Hx. tauto.
    + intros Hx. pose proof Hx as Hx'. apply in_seq in Hx'. destruct (relabel_canon n ci x) as [H1 H2]; [lia|].
      exists (filter (fun i => Nat.eqb (relabel n ci i) (S (pred (relabel n ci x)))) (seq 0 n)). split.
      * unfold ci2ls. cbv zeta. apply in_map_iff. exists (pred (relabel n ci x)). split; [reflexivity|apply in_seq; lia].
      * apply filter_In. split; [exact Hx|]. apply Nat.eqb_eq. lia.
Qed.

Lemma ci2ls_block_value n ci z u y : (u < length (ci2ls n ci))%nat -> In y (nth u (ci2ls n ci) []) ->
  ls2ci_z z (ci2ls n ci) y = (pred (relabel n ci y) + z)%nat.
Proof.
  intros Hu Hy.
  assert (Hnd : NoDup (concat (ci2ls n ci))).
  { apply (Permutation_NoDup (Permutation_sym (ci2ls_concat_perm n ci))). apply seq_NoDup. }
  rewrite (ls2ci_z_value z _ u y Hnd Hu Hy). f_equal.
  assert (HK : (u < vmax n (relabel n ci))%nat) by (unfold ci2ls in Hu; cbv zeta in Hu; rewrite map_length, seq_length in Hu; exact Hu).
  apply (ci2ls_blocks n ci u y HK) in Hy. destruct Hy as [_ Hy]. rewrite Hy. reflexivity.
Qed.

Theorem ci2ls_ls2ci_run zi (cil : list Z) : cil <> [] ->
  let n := length cil in
  ls2ci_run zi (ci2ls_run cil) =
  Some (map (fun i => (pred (relabel n (of_list 0%Z cil) i) + (if zi then 0 else 1))%nat) (seq 0 n)).
Proof.
  intros Hne n. rewrite ci2ls_run_eq. fold n. set (ci := of_list 0%Z cil). set (ls := ci2ls n ci).
  pose proof (ci2ls_concat_perm n ci) as HP. fold ls in HP.
  assert (HN : length (concat ls) = n) by (rewrite (Permutation_length HP), seq_length; reflexivity).
  assert (Hn : (0 < n)%nat) by (unfold n; destruct cil; [contradiction|cbn [length]; lia]).
  assert (Hls : ls <> []).
  { intros E. rewrite E in HN. cbn in HN. lia. }
  unfold ls2ci_run. destruct ls as [|b t] eqn:Els; [contradiction|]. rewrite <- Els in *. rewrite list_sum_concat, HN.
  assert (Hall : forallb (fun y => Nat.ltb y n) (concat ls) = true).
  { apply forallb_forall. intros y Hy. apply Nat.ltb_lt. apply (Permutation_in y HP) in Hy. apply in_seq in Hy. lia. }
  rewrite Hall. f_equal. unfold to_list. apply map_ext_in. intros y Hy.
  assert (Hin : In y (concat ls)) by (apply (Permutation_in y (Permutation_sym HP)); exact Hy).
  apply in_concat in Hin. destruct Hin as [blk [Hb Hyb]]. destruct (In_nth ls blk [] Hb) as [u [Hu Hnth]].
  unfold ls. apply (ci2ls_block_value n ci _ u y); [exact Hu|]. fold ls. rewrite Hnth. exact Hyb.
Qed.
