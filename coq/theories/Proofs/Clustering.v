(* Proofs/Clustering.v — the routines of Model/Clustering.v equal the published definitions of
   Proofs/ClusteringSpec.v (C09: definition and zero clauses). *)
From Coq Require Import QArith Qabs List Arith Bool ZArith Lia Lqa Qring Qfield.
From BCT Require Import Base.Mat Base.SumQ Model.Threshold Proofs.Threshold Model.Clustering Proofs.ClusteringSpec.
Import ListNotations.
Open Scope Q_scope.

(* ================= generic sums ================= *)
Lemma sumQ_mul (f g : nat -> Q) n : sumQ f n * sumQ g n == sum2Q (fun j k => f j * g k) n.
Proof.
  unfold sum2Q. rewrite <- sumQ_scal_r. apply sumQ_ext; intros j _. cbv beta. rewrite <- sumQ_scal. reflexivity.
Qed.

Lemma sum2Q_sym_lt (f : nat -> nat -> Q) n :
  (forall j k, (j < n)%nat -> (k < n)%nat -> f j k == f k j) -> (forall j, (j < n)%nat -> f j j == 0) ->
  sum2Q f n == 2 * sum2Q (fun j k => if (j <? k)%nat then f j k else 0) n.
Proof.
  intros Hs Hd. set (g := fun j k => if (j <? k)%nat then f j k else 0).
  rewrite (sum2Q_ext f (fun j k => g j k + g k j) n).
  - rewrite sum2Q_add. rewrite (sum2Q_transpose g n). ring.
  - intros j k Hj Hk. unfold g.
    destruct (Nat.ltb_spec j k); destruct (Nat.ltb_spec k j); try lia.
    + ring.
    + rewrite (Hs j k Hj Hk). ring.
    + assert (j = k) by lia. subst. rewrite Hd by assumption. ring.
Qed.

Lemma sum2Q_zero' f n : (forall j k, (j < n)%nat -> (k < n)%nat -> f j k == 0) -> sum2Q f n == 0.
Proof. intros H. unfold sum2Q. apply sumQ_zero'. intros j Hj. apply sumQ_zero'. intros k Hk. auto. Qed.

Lemma sum2Q_le f g n : (forall j k, (j < n)%nat -> (k < n)%nat -> f j k <= g j k) -> sum2Q f n <= sum2Q g n.
Proof. intros H. unfold sum2Q. apply sumQ_le. intros j Hj. apply sumQ_le. intros k Hk. auto. Qed.

Lemma sum2Q_nonneg f n : (forall j k, (j < n)%nat -> (k < n)%nat -> 0 <= f j k) -> 0 <= sum2Q f n.
Proof. intros H. unfold sum2Q. apply sumQ_nonneg. intros j Hj. apply sumQ_nonneg. intros k Hk. auto. Qed.

Lemma sum2Q_scal_r c f n : sum2Q (fun i j => f i j * c) n == sum2Q f n * c.
Proof. rewrite (sum2Q_ext _ (fun i j => c * f i j)) by (intros; ring). rewrite sum2Q_scal. ring. Qed.

(* off-diagonal double sum = product of the sums minus the diagonal *)
Lemma sum2Q_offdiag (f g : nat -> Q) n :
  sum2Q (fun j k => if Nat.eqb j k then 0 else f j * g k) n == sumQ f n * sumQ g n - sumQ (fun j => f j * g j) n.
Proof.
  rewrite sumQ_mul.
  assert (E : sumQ (fun j => f j * g j) n == sum2Q (fun j k => if Nat.eqb j k then f j * g k else 0) n).
  { unfold sum2Q. apply sumQ_ext; intros j Hj.
    rewrite (sumQ_ext (fun k => if Nat.eqb j k then f j * g k else 0) (fun k => ind (Nat.eqb j k) * (f j * g k)) n).
    - rewrite sumQ_ind_collapse by exact Hj. reflexivity.
    - intros k _. destruct (Nat.eqb j k); unfold ind; ring. }
  assert (H : sum2Q (fun j k => (if Nat.eqb j k then 0 else f j * g k) + (if Nat.eqb j k then f j * g k else 0)) n ==
              sum2Q (fun j k => f j * g k) n).
  { apply sum2Q_ext; intros j k _ _. destruct (Nat.eqb j k); ring. }
  rewrite sum2Q_add in H. rewrite E. lra.
Qed.

(* lists produced by np.where on a row *)
Lemma sumL_nil f : sumL f [] = 0.
Proof. reflexivity. Qed.
Lemma sumL_cons f a l : sumL f (a :: l) = f a + sumL f l.
Proof. reflexivity. Qed.
Lemma sumL_app f l1 l2 : sumL f (l1 ++ l2) == sumL f l1 + sumL f l2.
Proof.
  induction l1 as [|a l IH]; [rewrite sumL_nil; cbn [app]; ring|].
  cbn [app]. rewrite !sumL_cons, IH. ring.
Qed.

Lemma sumL_ext f g l : (forall x, In x l -> f x == g x) -> sumL f l == sumL g l.
Proof.
  induction l as [|a l IH]; intros H; [reflexivity|].
  rewrite !sumL_cons, IH by (intros; apply H; right; assumption). rewrite (H a) by (left; reflexivity). reflexivity.
Qed.

Lemma sumL_filter f (p : nat -> bool) n :
  sumL f (filter p (seq 0 n)) == sumQ (fun v => if p v then f v else 0) n.
Proof.
  induction n; [reflexivity|].
  rewrite seq_S, filter_app, sumL_app, IHn. cbn [plus filter sumQ].
  destruct (p n); [rewrite sumL_cons, sumL_nil|rewrite sumL_nil]; ring.
Qed.

Lemma length_filter (p : nat -> bool) n :
  inject_Z (Z.of_nat (length (filter p (seq 0 n)))) == sumQ (fun v => if p v then 1 else 0) n.
Proof.
  induction n; [reflexivity|].
  rewrite seq_S, filter_app, app_length, Nat2Z.inj_add, inject_Z_plus, IHn. cbn [plus filter sumQ].
  destruct (p n); cbn [length]; [|ring]. reflexivity.
Qed.

Lemma filter_In_seq (p : nat -> bool) n x : In x (filter p (seq 0 n)) -> (x < n)%nat /\ p x = true.
Proof. intros H. apply filter_In in H. destruct H as [H1 H2]. apply in_seq in H1. split; [lia|exact H2]. Qed.

(* ================= option-valued quotients ================= *)
Lemma odiv_ext a a' b b' : a == a' -> b == b' -> oeq (odiv a b) (odiv a' b').
Proof.
  intros Ha Hb. unfold odiv.
  destruct (Qeq_bool b 0) eqn:E; destruct (Qeq_bool b' 0) eqn:E'; cbn [oeq]; auto.
  - apply Qeq_bool_iff in E. apply Qeq_bool_neq in E'. apply E'. rewrite <- Hb. exact E.
  - apply Qeq_bool_iff in E'. apply Qeq_bool_neq in E. apply E. rewrite Hb. exact E'.
  - rewrite Ha, Hb. reflexivity.
Qed.

Lemma odiv_scale c a b : ~ c == 0 -> oeq (odiv (c * a) (c * b)) (odiv a b).
Proof.
  intros Hc. unfold odiv.
  destruct (Qeq_bool (c * b) 0) eqn:E; destruct (Qeq_bool b 0) eqn:E'; cbn [oeq]; auto.
  - apply Qeq_bool_iff in E. apply Qeq_bool_neq in E'. apply Qmult_integral in E. tauto.
  - apply Qeq_bool_iff in E'. apply Qeq_bool_neq in E. apply E. rewrite E'. ring.
  - apply Qeq_bool_neq in E'. field. tauto.
Qed.

Lemma oeq_trans a b c : oeq a b -> oeq b c -> oeq a c.
Proof. destruct a, b, c; cbn [oeq]; try tauto. intros H1 H2. rewrite H1. exact H2. Qed.
Lemma oeq_sym a b : oeq a b -> oeq b a.
Proof. destruct a, b; cbn [oeq]; try tauto. intros H. symmetry. exact H. Qed.
Lemma oeq_refl a : oeq a a.
Proof. destruct a; cbn [oeq]; [reflexivity|exact I]. Qed.

(* ================= the masking idiom ================= *)
Lemma Qeq_bool_ext a b : a == b -> Qeq_bool a 0 = Qeq_bool b 0.
Proof.
  intros H. destruct (Qeq_bool a 0) eqn:E; destruct (Qeq_bool b 0) eqn:E'; auto.
  - apply Qeq_bool_iff in E. apply Qeq_bool_neq in E'. exfalso. apply E'. rewrite <- H. exact E.
  - apply Qeq_bool_iff in E'. apply Qeq_bool_neq in E. exfalso. apply E. rewrite H. exact E'.
Qed.

(* cyc3 / ((K with inf where cyc3 = 0) * (. - 1) - d)  is  "0 if cyc3 = 0, else the quotient" *)
Lemma mask_div c k d : xdiv c (xsub (xkk1 (xmask c k)) d) == if Qeq_bool c 0 then 0 else c / (k * (k - 1) - d).
Proof. unfold xmask. destruct (Qeq_bool c 0); cbn [xkk1 xsub xdiv]; reflexivity. Qed.
Lemma mask_div0 c k : xdiv c (xkk1 (xmask c k)) == if Qeq_bool c 0 then 0 else c / (k * (k - 1)).
Proof. unfold xmask. destruct (Qeq_bool c 0); cbn [xkk1 xdiv]; reflexivity. Qed.
Lemma mask_div1 c k : xdiv c (xmask c k) == if Qeq_bool c 0 then 0 else c / k.
Proof. unfold xmask. destruct (Qeq_bool c 0); cbn [xdiv]; reflexivity. Qed.

Lemma ite0_ext c c' x x' : c == c' -> x == x' ->
  (if Qeq_bool c 0 then 0 else x) == (if Qeq_bool c' 0 then 0 else x').
Proof. intros Hc Hx. rewrite (Qeq_bool_ext c c' Hc). destruct (Qeq_bool c' 0); [reflexivity|exact Hx]. Qed.

(* ================= diag(S.S.S) is the sum over node triples ================= *)
Lemma diag_cube_is_triples n S i :
  diag3 n S i == sumQ (fun j => sumQ (fun k => S i j * S j k * S k i) n) n.
Proof.
  unfold diag3, mmul. apply sumQ_ext; intros j _. rewrite <- sumQ_scal. apply sumQ_ext; intros k _. ring.
Qed.

Lemma diag3_ext n S S' i : (forall a b, (a < n)%nat -> (b < n)%nat -> S a b == S' a b) -> (i < n)%nat ->
  diag3 n S i == diag3 n S' i.
Proof.
  intros H Hi. rewrite !diag_cube_is_triples. apply sumQ_ext; intros j Hj. apply sumQ_ext; intros k Hk.
  rewrite (H i j), (H j k), (H k i) by assumption. reflexivity.
Qed.

Lemma diag2_ext n A A' i : (forall a b, (a < n)%nat -> (b < n)%nat -> A a b == A' a b) -> (i < n)%nat ->
  diag2 n A i == diag2 n A' i.
Proof.
  intros H Hi. unfold diag2, mmul. apply sumQ_ext; intros j Hj. rewrite (H i j), (H j i) by assumption. reflexivity.
Qed.

Lemma rowsum_ext n A A' i : (forall b, (b < n)%nat -> A i b == A' i b) -> rowsum n A i == rowsum n A' i.
Proof. intros H. unfold rowsum. apply sumQ_ext; intros j Hj. auto. Qed.

(* ================= directed routines = Fagiolo's formula (no hypothesis on the input) ================= *)
Lemma cyc3_tri n C i : diag3 n (madd C (mT C)) i / 2 == tri_dir n C i.
Proof. unfold tri_dir. rewrite diag_cube_is_triples. reflexivity. Qed.

Lemma rowsum_dtot n A i : rowsum n (madd A (mT A)) i == dtot n A i.
Proof. reflexivity. Qed.

Lemma diag2_dbi n A i : diag2 n A i == dbi n A i.
Proof. reflexivity. Qed.

Lemma cc_bd_fagiolo n A i : cc_bd n A i == def_cc_bd n A i.
Proof.
  unfold cc_bd, def_cc_bd, def_cc_dir. cbv zeta. rewrite mask_div.
  apply ite0_ext; [apply cyc3_tri|]. rewrite cyc3_tri, rowsum_dtot, diag2_dbi. reflexivity.
Qed.

Lemma trans_bd_def n A : oeq (trans_bd n A) (def_trans_bd n A).
Proof.
  unfold trans_bd, def_trans_bd, def_trans_dir. cbv zeta. apply odiv_ext.
  - apply sumQ_ext; intros i _. apply cyc3_tri.
  - apply sumQ_ext; intros i _. reflexivity.
Qed.

Lemma cc_wd_def cbrt n W i : cc_wd cbrt n W i == def_cc_wd cbrt n W i.
Proof.
  unfold cc_wd, def_cc_wd, def_cc_dir. cbv zeta. rewrite mask_div.
  change (mmap cbrt (mT W)) with (mT (mmap cbrt W)).
  apply ite0_ext; [apply cyc3_tri|]. rewrite cyc3_tri, rowsum_dtot, diag2_dbi. reflexivity.
Qed.

Lemma trans_wd_def cbrt n W : oeq (trans_wd cbrt n W) (def_trans_wd cbrt n W).
Proof.
  unfold trans_wd, def_trans_wd, def_trans_dir. cbv zeta. change (mmap cbrt (mT W)) with (mT (mmap cbrt W)).
  apply odiv_ext.
  - apply sumQ_ext; intros i _. apply cyc3_tri.
  - apply sumQ_ext; intros i _. reflexivity.
Qed.

(* ================= neighbour counting ================= *)
Lemma nzQ_01 w : nzQ w == 0 \/ nzQ w == 1.
Proof. unfold nzQ. destruct (Qeq_bool w 0); [left|right]; reflexivity. Qed.
Lemma nzQ_nonneg w : 0 <= nzQ w.
Proof. destruct (nzQ_01 w) as [H|H]; rewrite H; lra. Qed.
Lemma nzQ_zero w : w == 0 -> nzQ w == 0.
Proof. intros H. unfold nzQ. apply Qeq_bool_iff in H. rewrite H. reflexivity. Qed.
Lemma nzQ_one w : ~ w == 0 -> nzQ w == 1.
Proof. intros H. unfold nzQ. destruct (Qeq_bool w 0) eqn:E; [apply Qeq_bool_iff in E; contradiction|reflexivity]. Qed.
Lemma nzQ_idem w : nzQ w * nzQ w == nzQ w.
Proof. destruct (nzQ_01 w) as [H|H]; rewrite H; ring. Qed.
Lemma nzQ_binary w : (w == 0 \/ w == 1) -> nzQ w == w.
Proof. intros [H|H]; [rewrite nzQ_zero, H by exact H; reflexivity|]. rewrite nzQ_one, H; [reflexivity|]. rewrite H. discriminate. Qed.

(* two distinct nonzero entries in a row of nonnegative numbers bound the sum from below *)
Lemma sumQ_two (f : nat -> Q) n j k : (forall x, (x < n)%nat -> 0 <= f x) -> (j < n)%nat -> (k < n)%nat -> j <> k ->
  f j + f k <= sumQ f n.
Proof.
  intros Hpos Hj Hk Hjk. rewrite (sumQ_split f n j Hj).
  rewrite (sumQ_split (fun x => if Nat.eqb x j then 0 else f x) n k Hk). cbv beta.
  destruct (Nat.eqb_spec k j); [congruence|].
  assert (0 <= sumQ (fun x => if Nat.eqb x k then 0 else if Nat.eqb x j then 0 else f x) n).
  { apply sumQ_nonneg. intros x Hx. destruct (Nat.eqb x k); [lra|]. destruct (Nat.eqb x j); [lra|]. auto. }
  lra.
Qed.

(* node i has at most one neighbour (arcs in either direction count) *)
Definition few_neighbours (n : nat) (W : mat Q) (i : nat) : Prop :=
  forall j k, (j < n)%nat -> (k < n)%nat -> (~ W i j == 0 \/ ~ W j i == 0) -> (~ W i k == 0 \/ ~ W k i == 0) -> j = k.
(* node i lies on no triangle of the (symmetrised) support *)
Definition no_triangle (n : nat) (W : mat Q) (i : nat) : Prop :=
  forall j k, (j < n)%nat -> (k < n)%nat ->
    (W i j == 0 /\ W j i == 0) \/ (W j k == 0 /\ W k j == 0) \/ (W k i == 0 /\ W i k == 0).

Lemma few_no_triangle n W i : nodiag n W -> few_neighbours n W i -> no_triangle n W i.
Proof.
  intros Hd Hf j k Hj Hk.
  destruct (Qeq_dec (W i j) 0) as [E1|E1]; destruct (Qeq_dec (W j i) 0) as [E2|E2]; try (left; split; assumption);
  (destruct (Qeq_dec (W k i) 0) as [E3|E3]; destruct (Qeq_dec (W i k) 0) as [E4|E4]; try (right; right; split; assumption);
   assert (j = k) by (apply Hf; tauto); subst k; right; left; split; apply Hd; exact Hj).
Qed.

Lemma kdeg_lt2_few n W i : symmetric n W -> (i < n)%nat -> kdeg n W i < 2 -> few_neighbours n W i.
Proof.
  intros Hs Hi Hk j k Hj Hk' H1 H2.
  destruct (Nat.eq_dec j k) as [E|E]; [exact E|exfalso].
  assert (N1 : ~ W i j == 0) by (destruct H1 as [H|H]; [exact H|rewrite (Hs i j Hi Hj); exact H]).
  assert (N2 : ~ W i k == 0) by (destruct H2 as [H|H]; [exact H|rewrite (Hs i k Hi Hk'); exact H]).
  assert (H := sumQ_two (fun x => nzQ (W i x)) n j k (fun x _ => nzQ_nonneg _) Hj Hk' E). cbv beta in H.
  rewrite (nzQ_one _ N1), (nzQ_one _ N2) in H. unfold kdeg in Hk. lra.
Qed.

(* ================= triple sums that vanish ================= *)
Lemma triple_zero n S i :
  (forall j k, (j < n)%nat -> (k < n)%nat -> S i j == 0 \/ S j k == 0 \/ S k i == 0) -> diag3 n S i == 0.
Proof.
  intros H. rewrite diag_cube_is_triples. apply sumQ_zero'; intros j Hj. apply sumQ_zero'; intros k Hk.
  destruct (H j k Hj Hk) as [E|[E|E]]; rewrite E; ring.
Qed.

(* ================= clustering_coef_bu: the np.where / np.ix_ loop as a double sum ================= *)
Lemma ite_nz (g : Q) (x : Q) : (if negb (Qeq_bool g 0) then x else 0) == nzQ g * x.
Proof. unfold nzQ. destruct (Qeq_bool g 0); cbn [negb]; ring. Qed.

Lemma cc_bu_num n G u :
  let V := filter (fun v => negb (Qeq_bool (G u v) 0)) (seq 0 n) in
  sumL (fun a => sumL (fun b => G a b) V) V == sum2Q (fun a b => nzQ (G u a) * nzQ (G u b) * G a b) n.
Proof.
  cbv zeta. rewrite sumL_filter. unfold sum2Q. apply sumQ_ext; intros a _. cbv beta.
  rewrite ite_nz, sumL_filter, <- sumQ_scal. apply sumQ_ext; intros b _. cbv beta. rewrite ite_nz. ring.
Qed.

Lemma cc_bu_k n G u :
  inject_Z (Z.of_nat (length (filter (fun v => negb (Qeq_bool (G u v) 0)) (seq 0 n)))) == kdeg n G u.
Proof.
  rewrite length_filter. unfold kdeg. apply sumQ_ext; intros v _. cbv beta.
  rewrite (ite_nz (G u v) 1). ring.
Qed.

Lemma inj_kk (k : nat) : inject_Z (Z.of_nat (k * k - k)) == inject_Z (Z.of_nat k) * (inject_Z (Z.of_nat k) - 1).
Proof.
  assert (H : (k <= k * k)%nat) by nia.
  rewrite Nat2Z.inj_sub by exact H. rewrite Nat2Z.inj_mul.
  unfold Zminus. rewrite inject_Z_plus, inject_Z_mult, inject_Z_opp. ring.
Qed.

Lemma Qle_bool_ext a b : a == b -> Qle_bool 2 a = Qle_bool 2 b.
Proof.
  intros H. destruct (Qle_bool 2 a) eqn:E; destruct (Qle_bool 2 b) eqn:E'; auto.
  - apply Qle_bool_iff in E. rewrite H in E. apply Qle_bool_iff in E. congruence.
  - apply Qle_bool_iff in E'. rewrite <- H in E'. apply Qle_bool_iff in E'. congruence.
Qed.

Lemma leb2_inj (k : nat) : (2 <=? k)%nat = Qle_bool 2 (inject_Z (Z.of_nat k)).
Proof.
  destruct (Nat.leb_spec 2 k) as [H|H]; symmetry.
  - apply Qle_bool_iff. change 2 with (inject_Z 2). rewrite <- Zle_Qle. lia.
  - destruct (Qle_bool 2 (inject_Z (Z.of_nat k))) eqn:E; [|reflexivity].
    apply Qle_bool_iff in E. change 2 with (inject_Z 2) in E. rewrite <- Zle_Qle in E. lia.
Qed.

Lemma cc_bu_sumform n G u :
  cc_bu n G u == if Qle_bool 2 (kdeg n G u)
                 then sum2Q (fun a b => nzQ (G u a) * nzQ (G u b) * G a b) n / (kdeg n G u * (kdeg n G u - 1))
                 else 0.
Proof.
  unfold cc_bu. cbv zeta. rewrite leb2_inj, (Qle_bool_ext _ _ (cc_bu_k n G u)).
  destruct (Qle_bool 2 (kdeg n G u)); [|reflexivity].
  rewrite (cc_bu_num n G u), inj_kk, (cc_bu_k n G u). reflexivity.
Qed.

Lemma kdeg_binary n A i : binary n A -> (i < n)%nat -> kdeg n A i == deg n A i.
Proof. intros Hb Hi. unfold kdeg, deg. apply sumQ_ext; intros j Hj. apply nzQ_binary. apply Hb; assumption. Qed.

Lemma pairs_twice n A i : symmetric n A -> nodiag n A -> (i < n)%nat ->
  sum2Q (fun j k => A i j * A i k * A j k) n == 2 * linked_pairs n A i.
Proof.
  intros Hs Hd Hi. unfold linked_pairs. apply (sum2Q_sym_lt (fun j k => A i j * A i k * A j k)).
  - intros j k Hj Hk. cbv beta. rewrite (Hs j k Hj Hk). ring.
  - intros j Hj. cbv beta. rewrite (Hd j Hj). ring.
Qed.

Theorem cc_bu_def n A i : binary n A -> symmetric n A -> nodiag n A -> (i < n)%nat ->
  cc_bu n A i == def_cc_bu n A i.
Proof.
  intros Hb Hs Hd Hi. rewrite cc_bu_sumform. unfold def_cc_bu.
  rewrite (Qle_bool_ext _ _ (kdeg_binary n A i Hb Hi)).
  destruct (Qle_bool 2 (deg n A i)) eqn:E; [|reflexivity].
  apply Qle_bool_iff in E.
  rewrite (sum2Q_ext (fun a b => nzQ (A i a) * nzQ (A i b) * A a b) (fun j k => A i j * A i k * A j k) n).
  - rewrite (pairs_twice n A i Hs Hd Hi), (kdeg_binary n A i Hb Hi). field. split; lra.
  - intros a b Ha Hb'. rewrite !nzQ_binary by (apply Hb; assumption). reflexivity.
Qed.

(* ================= cube roots ================= *)
Lemma sq_nonneg (a : Q) : 0 <= a * a.
Proof. destruct (Qlt_le_dec a 0); nra. Qed.

Lemma cube_lt x y : x < y -> x * x * x < y * y * y.
Proof.
  intros H. set (d := y - x). assert (Hd : 0 < d) by (unfold d; lra).
  assert (E : y*y*y - x*x*x == d * (3 * ((x + d*(1#2)) * (x + d*(1#2))) + d*d*(1#4))) by (unfold d; ring).
  assert (H1 := sq_nonneg (x + d*(1#2))).
  assert (H2 : 0 < d*d) by (apply Qmult_lt_0_compat; exact Hd).
  assert (H3 : 0 < d * (3 * ((x + d*(1#2)) * (x + d*(1#2))) + d*d*(1#4))).
  { apply Qmult_lt_0_compat; [exact Hd|]. lra. }
  lra.
Qed.

Lemma cube_inj x y : x * x * x == y * y * y -> x == y.
Proof.
  intros H. destruct (Q_dec x y) as [[L|G]|E]; [apply cube_lt in L; lra|apply cube_lt in G; lra|exact E].
Qed.

Section Cbrt.
Variable cbrt : Q -> Q.
Notation cra := (cube_root_at cbrt).

(* everything below is derived from "cbrt x is a cube root of x" at the values involved *)
Lemma cra_proper x y : cra x -> cra y -> x == y -> cbrt x == cbrt y.
Proof. unfold cube_root_at. intros Hx Hy H. apply cube_inj. rewrite Hx, Hy. exact H. Qed.
Lemma cra_zero x : cra x -> x == 0 -> cbrt x == 0.
Proof. unfold cube_root_at. intros Hx H. apply cube_inj. rewrite Hx, H. ring. Qed.
Lemma cra_one x : cra x -> x == 1 -> cbrt x == 1.
Proof. unfold cube_root_at. intros Hx H. apply cube_inj. rewrite Hx, H. ring. Qed.
Lemma cra_nz x : cra x -> ~ x == 0 -> ~ cbrt x == 0.
Proof. unfold cube_root_at. intros Hx H E. apply H. rewrite <- Hx, E. ring. Qed.
Lemma cra_mul3 x y z : cra x -> cra y -> cra z -> cra (x * y * z) -> cbrt (x * y * z) == cbrt x * cbrt y * cbrt z.
Proof.
  unfold cube_root_at. intros Hx Hy Hz H. apply cube_inj. rewrite H.
  setoid_replace (cbrt x * cbrt y * cbrt z * (cbrt x * cbrt y * cbrt z) * (cbrt x * cbrt y * cbrt z))
    with ((cbrt x * cbrt x * cbrt x) * (cbrt y * cbrt y * cbrt y) * (cbrt z * cbrt z * cbrt z)) by ring.
  rewrite Hx, Hy, Hz. reflexivity.
Qed.
Lemma cra_opp x : cra x -> cra (- x) -> cbrt (- x) == - cbrt x.
Proof.
  unfold cube_root_at. intros Hx Hn. apply cube_inj. rewrite Hn.
  setoid_replace (- cbrt x * - cbrt x * - cbrt x) with (- (cbrt x * cbrt x * cbrt x)) by ring. rewrite Hx. reflexivity.
Qed.
Lemma cra_mono x y : cra x -> cra y -> x <= y -> cbrt x <= cbrt y.
Proof.
  unfold cube_root_at. intros Hx Hy H. destruct (Qlt_le_dec (cbrt y) (cbrt x)) as [L|L]; [|exact L].
  apply cube_lt in L. rewrite Hx, Hy in L. lra.
Qed.
Lemma cra_binary w : cra w -> (w == 0 \/ w == 1) -> cbrt w == w.
Proof. intros Hw [H|H]; [rewrite (cra_zero w Hw H), H|rewrite (cra_one w Hw H), H]; reflexivity. Qed.
Lemma cra_unit w : cra w -> 0 <= w <= 1 -> 0 <= cbrt w <= 1.
Proof.
  unfold cube_root_at. intros Hw [H0 H1]. split.
  - destruct (Qlt_le_dec (cbrt w) 0) as [L|L]; [|exact L]. apply cube_lt in L. rewrite Hw in L. lra.
  - destruct (Qlt_le_dec 1 (cbrt w)) as [L|L]; [|exact L]. apply cube_lt in L. rewrite Hw in L. lra.
Qed.

(* ---------- clustering_coef_wu = Onnela ---------- *)
Lemma cyc3_intensity n W i : cbrt_ok cbrt n W -> cbrt_ok3 cbrt n W -> (i < n)%nat ->
  diag3 n (mmap cbrt W) i == intensity cbrt n W i.
Proof.
  intros H1 H3 Hi. rewrite diag_cube_is_triples. unfold intensity, sum2Q, mmap.
  apply sumQ_ext; intros j Hj. apply sumQ_ext; intros k Hk.
  rewrite cra_mul3; [reflexivity| | | |]; auto.
Qed.

Lemma cc_wu_unfold n W i :
  cc_wu cbrt n W i == if Qeq_bool (diag3 n (mmap cbrt W) i) 0 then 0
                      else diag3 n (mmap cbrt W) i / (kdeg n W i * (kdeg n W i - 1)).
Proof. unfold cc_wu. cbv zeta. rewrite mask_div0. reflexivity. Qed.

Lemma no_triangle_cyc3 n W i : cbrt_ok cbrt n W -> (i < n)%nat -> no_triangle n W i -> diag3 n (mmap cbrt W) i == 0.
Proof.
  intros Hc Hi H. apply triple_zero. intros j k Hj Hk. unfold mmap.
  destruct (H j k Hj Hk) as [[E _]|[[E _]|[E _]]]; [left|right; left|right; right]; (apply cra_zero; [apply Hc; assumption|exact E]).
Qed.

Theorem cc_wu_onnela n W i : cbrt_ok cbrt n W -> cbrt_ok3 cbrt n W -> symmetric n W -> nodiag n W -> (i < n)%nat ->
  cc_wu cbrt n W i == def_cc_wu cbrt n W i.
Proof.
  intros Hc Hc3 Hs Hd Hi. rewrite cc_wu_unfold. unfold def_cc_wu.
  assert (EI := cyc3_intensity n W i Hc Hc3 Hi).
  destruct (Qle_bool 2 (kdeg n W i)) eqn:E.
  - rewrite (Qeq_bool_ext _ _ EI). destruct (Qeq_bool (intensity cbrt n W i) 0) eqn:E0; [|rewrite EI; reflexivity].
    apply Qeq_bool_iff in E0. rewrite E0. unfold Qdiv. ring.
  - assert (Hk : kdeg n W i < 2).
    { destruct (Qlt_le_dec (kdeg n W i) 2) as [L|L]; [exact L|]. apply Qle_bool_iff in L. congruence. }
    assert (Hz := no_triangle_cyc3 n W i Hc Hi (few_no_triangle n W i Hd (kdeg_lt2_few n W i Hs Hi Hk))).
    apply Qeq_bool_iff in Hz. rewrite Hz. reflexivity.
Qed.

Theorem trans_wu_def n W : cbrt_ok cbrt n W -> cbrt_ok3 cbrt n W -> oeq (trans_wu cbrt n W) (def_trans_wu cbrt n W).
Proof.
  intros Hc Hc3. unfold trans_wu, def_trans_wu. cbv zeta. apply odiv_ext.
  - apply sumQ_ext; intros i Hi. apply cyc3_intensity; assumption.
  - apply sumQ_ext; intros i _. reflexivity.
Qed.

(* ---------- clustering_coef_wu_sign, coef_type='default' ---------- *)
Lemma pospart_sym n W : symmetric n W -> symmetric n (pospart W).
Proof.
  intros Hs i j Hi Hj. unfold pospart.
  destruct (Qltb 0 (W i j)) eqn:E1; destruct (Qltb 0 (W j i)) eqn:E2; rewrite (Hs i j Hi Hj); try reflexivity.
  - apply Qltb_true in E1. apply Qltb_false in E2. rewrite (Hs i j Hi Hj) in E1. lra.
  - apply Qltb_true in E2. apply Qltb_false in E1. rewrite (Hs i j Hi Hj) in E1. lra.
Qed.
Lemma negpart_sym n W : symmetric n W -> symmetric n (negpart W).
Proof.
  intros Hs i j Hi Hj. unfold negpart.
  destruct (Qltb (W i j) 0) eqn:E1; destruct (Qltb (W j i) 0) eqn:E2; rewrite (Hs i j Hi Hj); try reflexivity.
  - apply Qltb_true in E1. apply Qltb_false in E2. rewrite (Hs i j Hi Hj) in E1. lra.
  - apply Qltb_true in E2. apply Qltb_false in E1. rewrite (Hs i j Hi Hj) in E1. lra.
Qed.
Lemma clear_diag_sym n W : symmetric n W -> symmetric n (clear_diag W).
Proof.
  intros Hs i j Hi Hj. unfold clear_diag. rewrite (Nat.eqb_sym j i). destruct (Nat.eqb i j); [reflexivity|auto].
Qed.
Lemma clear_diag_nodiag n W : nodiag n (clear_diag W).
Proof. intros i _. unfold clear_diag. rewrite Nat.eqb_refl. reflexivity. Qed.
Lemma pospart_nodiag n W : nodiag n W -> nodiag n (pospart W).
Proof. intros H i Hi. unfold pospart. destruct (Qltb 0 (W i i)); rewrite (H i Hi); ring. Qed.
Lemma negpart_nodiag n W : nodiag n W -> nodiag n (negpart W).
Proof. intros H i Hi. unfold negpart. destruct (Qltb (W i i) 0); rewrite (H i Hi); ring. Qed.

Theorem cc_wu_sign_def n W i : symmetric n W -> (i < n)%nat ->
  (cbrt_ok cbrt n (pospart (clear_diag W)) -> cbrt_ok3 cbrt n (pospart (clear_diag W)) ->
   fst (cc_wu_sign_default cbrt n W i) == fst (def_cc_wu_sign cbrt n W i)) /\
  (cbrt_ok cbrt n (negpart (clear_diag W)) -> cbrt_ok3 cbrt n (negpart (clear_diag W)) ->
   snd (cc_wu_sign_default cbrt n W i) == snd (def_cc_wu_sign cbrt n W i)).
Proof.
  intros Hs Hi. unfold cc_wu_sign_default, def_cc_wu_sign. cbv zeta. cbn [fst snd].
  split; intros Hc Hc3; apply cc_wu_onnela; auto.
  - apply pospart_sym, clear_diag_sym, Hs.
  - apply pospart_nodiag, clear_diag_nodiag.
  - apply negpart_sym, clear_diag_sym, Hs.
  - apply negpart_nodiag, clear_diag_nodiag.
Qed.

(* ---------- zero clauses ---------- *)
Lemma no_triangle_sym_zero n C W i :
  (forall a b, (a < n)%nat -> (b < n)%nat -> W a b == 0 -> C a b == 0) -> (i < n)%nat ->
  no_triangle n W i -> diag3 n (madd C (mT C)) i == 0.
Proof.
  intros HC Hi H. apply triple_zero. intros j k Hj Hk. unfold madd, mT.
  destruct (H j k Hj Hk) as [[E1 E2]|[[E1 E2]|[E1 E2]]].
  - left. rewrite (HC i j Hi Hj E1), (HC j i Hj Hi E2). ring.
  - right; left. rewrite (HC j k Hj Hk E1), (HC k j Hk Hj E2). ring.
  - right; right. rewrite (HC k i Hk Hi E1), (HC i k Hi Hk E2). ring.
Qed.

Lemma no_triangle_zero_bin n W i : (i < n)%nat -> no_triangle n W i -> cc_bu n W i == 0 /\ cc_bd n W i == 0.
Proof.
  intros Hi H. split.
  - rewrite cc_bu_sumform. destruct (Qle_bool 2 (kdeg n W i)); [|reflexivity].
    rewrite sum2Q_zero'; [unfold Qdiv; ring|]. intros a b Ha Hb.
    destruct (H a b Ha Hb) as [[E _]|[[E _]|[_ E]]].
    + rewrite (nzQ_zero _ E). ring.
    + rewrite E. ring.
    + rewrite (nzQ_zero _ E). ring.
  - rewrite cc_bd_fagiolo. unfold def_cc_bd, def_cc_dir.
    assert (E : tri_dir n W i == 0).
    { rewrite <- cyc3_tri. rewrite (no_triangle_sym_zero n W W i (fun _ _ _ _ e => e) Hi H). reflexivity. }
    apply Qeq_bool_iff in E. rewrite E. reflexivity.
Qed.

Theorem no_triangle_zero n W i : cbrt_ok cbrt n W -> (i < n)%nat -> no_triangle n W i ->
  cc_bu n W i == 0 /\ cc_bd n W i == 0 /\ cc_wu cbrt n W i == 0 /\ cc_wd cbrt n W i == 0.
Proof.
  intros Hc Hi H. destruct (no_triangle_zero_bin n W i Hi H) as [B1 B2]. split; [exact B1|split; [exact B2|split]].
  - rewrite cc_wu_unfold. assert (E := no_triangle_cyc3 n W i Hc Hi H). apply Qeq_bool_iff in E. rewrite E. reflexivity.
  - rewrite cc_wd_def. unfold def_cc_wd, def_cc_dir.
    assert (E : tri_dir n (mmap cbrt W) i == 0).
    { rewrite <- cyc3_tri. rewrite (no_triangle_sym_zero n (mmap cbrt W) W i); [reflexivity| |exact Hi|exact H].
      intros a b Ha Hb e. unfold mmap. apply cra_zero; [apply Hc; assumption|exact e]. }
    apply Qeq_bool_iff in E. rewrite E. reflexivity.
Qed.

Theorem deg_lt2_zero n W i : cbrt_ok cbrt n W -> (i < n)%nat -> nodiag n W -> few_neighbours n W i ->
  cc_bu n W i == 0 /\ cc_bd n W i == 0 /\ cc_wu cbrt n W i == 0 /\ cc_wd cbrt n W i == 0.
Proof. intros Hc Hi Hd Hf. apply no_triangle_zero; [exact Hc|exact Hi|]. apply few_no_triangle; assumption. Qed.
End Cbrt.

(* ================= transitivity_bu = 3 x triangles / connected triples ================= *)
Lemma diag3_pairs n A i : symmetric n A -> nodiag n A -> (i < n)%nat -> diag3 n A i == 2 * linked_pairs n A i.
Proof.
  intros Hs Hd Hi. rewrite diag_cube_is_triples, <- (pairs_twice n A i Hs Hd Hi).
  apply sum2Q_ext; intros j k Hj Hk. rewrite (Hs k i Hk Hi). ring.
Qed.

Lemma colsum_deg n A k : symmetric n A -> (k < n)%nat -> sumQ (fun i => A i k) n == deg n A k.
Proof. intros Hs Hk. unfold deg. apply sumQ_ext; intros i Hi. apply Hs; assumption. Qed.

Lemma sum_sq_paths n A : symmetric n A -> sum2Q (mmul n A A) n == sumQ (fun k => deg n A k * deg n A k) n.
Proof.
  intros Hs. unfold sum2Q, mmul.
  rewrite (sumQ_ext _ (fun i => sumQ (fun k => A i k * deg n A k) n)).
  - rewrite sumQ_fubini. apply sumQ_ext; intros k Hk. rewrite sumQ_scal_r. rewrite (colsum_deg n A k Hs Hk). reflexivity.
  - intros i Hi. rewrite sumQ_fubini. apply sumQ_ext; intros k Hk. rewrite sumQ_scal. reflexivity.
Qed.

Lemma trace_sq_deg n A : binary n A -> symmetric n A -> sumQ (diag2 n A) n == sumQ (deg n A) n.
Proof.
  intros Hb Hs. apply sumQ_ext; intros i Hi. unfold diag2, mmul, deg. apply sumQ_ext; intros k Hk.
  rewrite (Hs k i Hk Hi). destruct (Hb i k Hi Hk) as [E|E]; rewrite E; ring.
Qed.

Theorem trans_bu_def n A : binary n A -> symmetric n A -> nodiag n A ->
  oeq (trans_bu n A) (def_trans_bu n A).
Proof.
  intros Hb Hs Hd. unfold trans_bu, def_trans_bu. cbv zeta.
  apply (oeq_trans _ (odiv (2 * sumQ (linked_pairs n A) n) (2 * sumQ (fun i => deg n A i * (deg n A i - 1) / 2) n))).
  - apply odiv_ext.
    + rewrite <- sumQ_scal. apply sumQ_ext; intros i Hi. apply diag3_pairs; assumption.
    + rewrite (sum_sq_paths n A Hs), (trace_sq_deg n A Hb Hs), <- sumQ_sub, <- sumQ_scal.
      apply sumQ_ext; intros i _. field.
  - apply odiv_scale. discriminate.
Qed.

(* ================= Zhang-Horvath / Costantini-Perugini variants of clustering_coef_wu_sign ================= *)
Lemma zh_cyc3_sym n W i : symmetric n W -> (i < n)%nat ->
  zh_cyc3 n W i == sum2Q (fun j q => W i j * W i q * W j q) n.
Proof. intros Hs Hi. unfold zh_cyc3. apply sum2Q_ext; intros j q Hj Hq. rewrite (Hs j i Hj Hi). reflexivity. Qed.

Lemma zh_cyc2_sym n W i : symmetric n W -> (i < n)%nat ->
  zh_cyc2 n W i == sumQ (fun j => W i j) n * sumQ (fun j => W i j) n - sumQ (fun j => W i j * W i j) n.
Proof.
  intros Hs Hi. unfold zh_cyc2.
  change (sumQ (fun j => sumQ (fun q => if Nat.eqb j q then 0 else W j i * W i q) n) n)
    with (sum2Q (fun j q => if Nat.eqb j q then 0 else (fun j => W j i) j * (fun q => W i q) q) n).
  rewrite sum2Q_offdiag.
  rewrite (sumQ_ext (fun j => W j i) (fun j => W i j) n) by (intros j Hj; apply Hs; assumption).
  rewrite (sumQ_ext (fun j => W j i * W i j) (fun j => W i j * W i j) n); [reflexivity|].
  intros j Hj. rewrite (Hs j i Hj Hi). reflexivity.
Qed.

Theorem cc_zhang_def n W i : symmetric n W -> (i < n)%nat -> cc_zhang1 n W i == def_zhang n W i.
Proof.
  intros Hs Hi. unfold cc_zhang1, def_zhang. cbv zeta. rewrite mask_div1.
  apply ite0_ext; [apply zh_cyc3_sym; assumption|].
  rewrite (zh_cyc3_sym n W i Hs Hi), (zh_cyc2_sym n W i Hs Hi). reflexivity.
Qed.

Lemma Qabs_sq a : Qabs a * Qabs a == a * a.
Proof. rewrite <- Qabs_Qmult. apply Qabs_pos. apply sq_nonneg. Qed.

Lemma co_cyc2_sym n W i : symmetric n W -> (i < n)%nat ->
  co_cyc2 n W i == sumQ (fun j => Qabs (W i j)) n * sumQ (fun j => Qabs (W i j)) n - sumQ (fun j => W i j * W i j) n.
Proof.
  intros Hs Hi. unfold co_cyc2.
  assert (E := sum2Q_offdiag (fun j => Qabs (W j i)) (fun q => Qabs (W i q)) n). cbv beta in E. unfold sum2Q in E.
  rewrite (sumQ_ext _ (fun j => sumQ (fun k => if Nat.eqb j k then 0 else Qabs (W j i) * Qabs (W i k)) n)).
  - rewrite E.
    rewrite (sumQ_ext (fun j => Qabs (W j i)) (fun j => Qabs (W i j)) n) by (intros j Hj; rewrite (Hs j i Hj Hi); reflexivity).
    rewrite (sumQ_ext (fun j => Qabs (W j i) * Qabs (W i j)) (fun j => W i j * W i j) n); [reflexivity|].
    intros j Hj. rewrite (Hs j i Hj Hi). apply Qabs_sq.
  - intros j _. apply sumQ_ext; intros q _. destruct (Nat.eqb j q); [reflexivity|apply Qabs_Qmult].
Qed.

Theorem cc_costantini_def n W i : symmetric n W -> (i < n)%nat ->
  cc_wu_sign_costantini n W i == def_costantini n (clear_diag W) i.
Proof.
  intros Hs Hi. unfold cc_wu_sign_costantini, def_costantini. cbv zeta. rewrite mask_div1.
  assert (Hs' := clear_diag_sym n W Hs).
  apply ite0_ext; [apply zh_cyc3_sym; assumption|].
  rewrite (zh_cyc3_sym n _ i Hs' Hi), (co_cyc2_sym n _ i Hs' Hi). reflexivity.
Qed.

Theorem cc_sign_zhang_def n W i : symmetric n W -> (i < n)%nat ->
  fst (cc_wu_sign_zhang n W i) == def_zhang n (pospart (clear_diag W)) i /\
  snd (cc_wu_sign_zhang n W i) == def_zhang n (negpart (clear_diag W)) i.
Proof.
  intros Hs Hi. unfold cc_wu_sign_zhang. cbv zeta. cbn [fst snd]. split; apply cc_zhang_def; auto.
  - apply pospart_sym, clear_diag_sym, Hs.
  - apply negpart_sym, clear_diag_sym, Hs.
Qed.
