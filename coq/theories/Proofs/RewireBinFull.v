(* Proofs/RewireBinFull.v — the whole of randomizer_bin_und (Model/RewireBin.v): every run that returns keeps
   every node's degree, returns a symmetric 0/1 matrix with the diagonal of the binarised input; the working
   matrix of every recorded swap satisfies the loop invariant [LI] and has the degrees of the matrix the loop
   started from.  No hypothesis beyond "the run returned". *)
From Coq Require Import ZArith List Arith Bool Lia QArith.
From BCT Require Import Base.Mat Base.ListX Model.Components Model.Rewire Model.RewireBin Proofs.RewireSwap Proofs.RewireBin.
From BCT Require Proofs.Components.
Import ListNotations.
Open Scope Z_scope.

(* number of y < n, y <> x, with R x y <> 0 *)
Definition offdeg (n : nat) (R : mat Z) (x : nat) : Z :=
  sumn (fun y => if Nat.eqb y x then 0 else nz (R x y)) n.

(* a working matrix: symmetric, 0/1 off the diagonal, sentinel on the diagonal *)
Record WM (n : nat) (R : mat Z) : Prop := {
  wm_sym : forall x y, R x y = R y x;
  wm_01 : forall x y, (x < n)%nat -> (y < n)%nat -> x <> y -> R x y = 0 \/ R x y = 1;
  wm_diag : forall x, (x < n)%nat -> R x x = SENT }.

Lemma SENT_not0 : SENT <> 0. Proof. unfold SENT; lia. Qed.
Lemma SENT_not1 : SENT <> 1. Proof. unfold SENT; lia. Qed.

(* ------------------------------------------------------------------ sums *)
Lemma sumn_const1 n : sumn (fun _ => 1) n = Z.of_nat n.
Proof. induction n as [|n IH]; [reflexivity|]. cbn [sumn]. rewrite IH. lia. Qed.

Lemma sumn_le_eq f g n :
  (forall i, (i < n)%nat -> f i <= g i) -> sumn f n = sumn g n -> forall i, (i < n)%nat -> f i = g i.
Proof.
  induction n as [|n IH]; intros Hle Heq i Hi; [lia|]. cbn [sumn] in Heq.
  assert (sumn f n <= sumn g n) by (apply sumn_le; intros; apply Hle; lia).
  pose proof (Hle n ltac:(lia)).
  destruct (Nat.eq_dec i n) as [->|Hne]; [lia|].
  apply IH; try lia. intros; apply Hle; lia.
Qed.

Lemma sumn_except n x : (x < n)%nat -> sumn (fun y => if Nat.eqb y x then 0 else 1) n = Z.of_nat n - 1.
Proof.
  intros Hx. pose proof (sumn_split (fun _ => 1) n x Hx) as H. cbv beta in H.
  rewrite sumn_const1 in H. lia.
Qed.

Lemma nz_01 z : nz z = 0 \/ nz z = 1.
Proof. unfold nz. destruct (Z.eqb z 0); auto. Qed.
Lemma nz_bin z : z = 0 \/ z = 1 -> nz z = z.
Proof. intros [->| ->]; reflexivity. Qed.
Lemma nz_eq0 z : nz z = 0 -> z = 0.
Proof. unfold nz. destruct (Z.eqb_spec z 0); [auto|discriminate]. Qed.
Lemma nz_eq1 z : nz z = 1 -> z <> 0.
Proof. unfold nz. destruct (Z.eqb_spec z 0); [discriminate|auto]. Qed.

(* ------------------------------------------------------------------ offdeg *)
Lemma offdeg_ext n R R' x :
  (forall y, (y < n)%nat -> y <> x -> R x y = R' x y) -> offdeg n R x = offdeg n R' x.
Proof.
  intros H. unfold offdeg. apply sumn_ext. intros y Hy.
  destruct (Nat.eqb_spec y x); [reflexivity|]. rewrite H; auto.
Qed.

Lemma offdeg_outdeg n R x : (x < n)%nat -> offdeg n R x = outdeg n R x - nz (R x x).
Proof.
  intros Hx. unfold offdeg, outdeg.
  pose proof (sumn_split (fun y => nz (R x y)) n x Hx) as H. cbv beta in H. lia.
Qed.

Lemma offdeg_lnot n R x : (x < n)%nat -> offdeg n (lnot R) x = Z.of_nat n - 1 - offdeg n R x.
Proof.
  intros Hx. rewrite <- (sumn_except n x Hx). unfold offdeg.
  assert (E: sumn (fun y => if Nat.eqb y x then 0 else 1) n =
             sumn (fun y => (if Nat.eqb y x then 0 else nz (lnot R x y)) + (if Nat.eqb y x then 0 else nz (R x y))) n).
  { apply sumn_ext. intros y _. destruct (Nat.eqb_spec y x); [reflexivity|].
    unfold lnot, nz. destruct (Z.eqb_spec (R x y) 0); reflexivity. }
  rewrite E, sumn_add. lia.
Qed.

(* degree n-1: adjacent to every other node *)
Lemma offdeg_full n R x y :
  offdeg n R x = Z.of_nat n - 1 -> (x < n)%nat -> (y < n)%nat -> y <> x -> R x y <> 0.
Proof.
  intros H Hx Hy Hne. rewrite <- (sumn_except n x Hx) in H. unfold offdeg in H.
  assert (E: (if Nat.eqb y x then 0 else nz (R x y)) = (if Nat.eqb y x then 0 else 1)).
  { apply (sumn_le_eq (fun y => if Nat.eqb y x then 0 else nz (R x y)) (fun y => if Nat.eqb y x then 0 else 1) n); auto.
    intros i _. destruct (Nat.eqb i x); [lia|destruct (nz_01 (R x i)); lia]. }
  destruct (Nat.eqb_spec y x); [contradiction|]. apply nz_eq1. exact E.
Qed.

(* degree 0: the row is empty *)
Lemma offdeg_zero n R x y :
  offdeg n R x = 0 -> (y < n)%nat -> y <> x -> R x y = 0.
Proof.
  intros H Hy Hne. unfold offdeg in H.
  assert (H': sumn (fun _ => 0) n = sumn (fun y => if Nat.eqb y x then 0 else nz (R x y)) n)
    by (rewrite sumn_zero; symmetry; exact H).
  assert (E: 0 = (if Nat.eqb y x then 0 else nz (R x y))).
  { apply (sumn_le_eq (fun _ => 0) (fun y => if Nat.eqb y x then 0 else nz (R x y)) n); auto.
    intros i _. destruct (Nat.eqb i x); [lia|destruct (nz_01 (R x i)); lia]. }
  destruct (Nat.eqb_spec y x); [contradiction|]. apply nz_eq0. symmetry. exact E.
Qed.

(* the degree computed by the code from the two triangles *)
Lemma wdeg_offdeg n R x : WM n R -> (x < n)%nat -> wdeg n R x = offdeg n R x.
Proof.
  intros [Hs H01 _] Hx. unfold wdeg, offdeg. rewrite <- sumn_add. apply sumn_ext. intros y Hy.
  destruct (Nat.eqb_spec y x) as [->|Hne].
  - rewrite Nat.ltb_irrefl. reflexivity.
  - rewrite (nz_bin _ (H01 x y Hx Hy (not_eq_sym Hne))).
    destruct (Nat.ltb_spec y x); destruct (Nat.ltb_spec x y); try lia. rewrite (Hs y x). lia.
Qed.

(* ------------------------------------------------------------------ the swap, cell by cell *)
Definition cut (a b c d x y : nat) : Prop :=
  (x = a /\ y = b) \/ (x = b /\ y = a) \/ (x = c /\ y = d) \/ (x = d /\ y = c).
Definition put (a b c d x y : nat) : Prop :=
  (x = a /\ y = c) \/ (x = c /\ y = a) \/ (x = b /\ y = d) \/ (x = d /\ y = b).

Lemma rbu_swap_cases R a b c d x y :
  a <> b -> a <> c -> a <> d -> b <> c -> b <> d -> c <> d ->
  (cut a b c d x y /\ rbu_swap R a b c d x y = 0) \/
  (put a b c d x y /\ rbu_swap R a b c d x y = 1) \/
  (~ cut a b c d x y /\ ~ put a b c d x y /\ rbu_swap R a b c d x y = R x y).
Proof.
  intros Hab Hac Had Hbc Hbd Hcd. unfold cut, put, rbu_swap, upd.
  destruct (Nat.eq_dec x a) as [Exa|Exa]; [|destruct (Nat.eq_dec x b) as [Exb|Exb];
    [|destruct (Nat.eq_dec x c) as [Exc|Exc]; [|destruct (Nat.eq_dec x d) as [Exd|Exd]]]];
  (destruct (Nat.eq_dec y a) as [Eya|Eya]; [|destruct (Nat.eq_dec y b) as [Eyb|Eyb];
    [|destruct (Nat.eq_dec y c) as [Eyc|Eyc]; [|destruct (Nat.eq_dec y d) as [Eyd|Eyd]]]]);
  subst;
  repeat match goal with
  | |- context[Nat.eqb ?u ?v] => destruct (Nat.eqb_spec u v); try congruence; cbn [andb]
  end;
  first [ left; split; [tauto|reflexivity]
        | right; left; split; [tauto|reflexivity]
        | right; right; split; [|split]; [intuition congruence|intuition congruence|reflexivity] ].
Qed.

(* ------------------------------------------------------------------ the loop invariant *)
(* [i], [j] (k entries) list every connection of the working matrix exactly once, in one orientation *)
Record LI (n k : nat) (R : mat Z) (i j : vec nat) : Prop := {
  li_wm : WM n R;
  li_edge : forall m, (m < k)%nat -> (i m < n)%nat /\ (j m < n)%nat /\ R (i m) (j m) = 1;
  li_dist : forall m m', (m < k)%nat -> (m' < k)%nat -> m <> m' ->
      ~ (i m = i m' /\ j m = j m') /\ ~ (i m = j m' /\ j m = i m');
  li_all : forall u v, (u < n)%nat -> (v < n)%nat -> R u v = 1 ->
      exists m, (m < k)%nat /\ ((i m = u /\ j m = v) \/ (i m = v /\ j m = u)) }.

(* ---------- the edge-index update ---------- *)
Definition pmatch (i j : vec nat) (c d m : nat) : Prop := (i m = d /\ j m = c) \/ (i m = c /\ j m = d).

Lemma patch_app l1 l2 it b c d i j :
  (forall m, In m l1 -> ~ pmatch i j c d m) ->
  patch_loop (l1 ++ l2) it b c d i j = patch_loop l2 it b c d i j.
Proof.
  induction l1 as [|m r IH]; intros H; cbn [app patch_loop]; [reflexivity|].
  assert (Hm := H m (or_introl eq_refl)). unfold pmatch in Hm.
  destruct (Nat.eqb (i m) d && Nat.eqb (j m) c)%bool eqn:E1.
  { exfalso. apply andb_true_iff in E1. rewrite !Nat.eqb_eq in E1. tauto. }
  destruct (Nat.eqb (i m) c && Nat.eqb (j m) d)%bool eqn:E2.
  { exfalso. apply andb_true_iff in E2. rewrite !Nat.eqb_eq in E2. tauto. }
  apply IH. intros m' Hm'. apply H. right. exact Hm'.
Qed.

Lemma patch_nomatch ms it b c d i j :
  (forall m, In m ms -> ~ pmatch i j c d m) -> patch_loop ms it b c d i j = (i, j).
Proof. intros H. rewrite <- (app_nil_r ms). rewrite patch_app by exact H. reflexivity. Qed.

Lemma patch_spec n k R i j it c d i' j' :
  LI n k R i j -> (it < k)%nat -> (c < n)%nat -> (d < n)%nat -> R c d = 1 ->
  i it <> c -> i it <> d -> c <> d ->
  patch_loop (seq 0 k) it (j it) c d i j = (i', j') ->
  exists m0, (m0 < k)%nat /\ m0 <> it /\
    ((i m0 = c /\ j m0 = d) \/ (i m0 = d /\ j m0 = c)) /\
    i' it = i it /\ j' it = c /\
    ((i' m0 = d /\ j' m0 = j it) \/ (i' m0 = j it /\ j' m0 = d)) /\
    (forall m, m <> it -> m <> m0 -> i' m = i m /\ j' m = j m).
Proof.
  intros HLI Hit Hc Hd Hcd Hac Had Hcd' HP.
  destruct HLI as [_ Hedge Hdist Hall].
  destruct (Hall c d Hc Hd Hcd) as (m0 & Hm0 & Em0).
  assert (Hne: m0 <> it) by (intros ->; destruct Em0 as [[E1 E2]|[E1 E2]]; congruence).
  exists m0. split; [exact Hm0|]. split; [exact Hne|]. split; [exact Em0|].
  assert (Hin: In m0 (seq 0 k)) by (apply in_seq; lia).
  destruct (in_split _ _ Hin) as (l1 & l2 & El).
  assert (Hnd: NoDup (l1 ++ m0 :: l2)) by (rewrite <- El; apply seq_NoDup).
  assert (Hnot: ~ In m0 (l1 ++ l2)) by (apply NoDup_remove_2; exact Hnd).
  assert (Hlt: forall m, In m (l1 ++ l2) -> (m < k)%nat /\ m <> m0).
  { intros m Hm. split.
    - assert (In m (seq 0 k)) by (rewrite El; apply in_app_iff; apply in_app_iff in Hm; destruct Hm; [left|right; right]; assumption).
      apply in_seq in H. lia.
    - intros ->. contradiction. }
  (* an old entry other than m0 never matches *)
  assert (Hold: forall m, (m < k)%nat -> m <> m0 -> ~ pmatch i j c d m).
  { intros m Hm Hmm [[E1 E2]|[E1 E2]]; destruct (Hdist m m0 Hm Hm0 Hmm) as [D1 D2];
    destruct Em0 as [[F1 F2]|[F1 F2]]; first [apply D1; split; congruence|apply D2; split; congruence]. }
  rewrite El in HP. rewrite patch_app in HP.
  2:{ intros m Hm. destruct (Hlt m) as [A B]; [apply in_app_iff; left; exact Hm|]. apply Hold; assumption. }
  cbn [patch_loop] in HP.
  destruct Em0 as [[F1 F2]|[F1 F2]].
  - (* entry m0 is (c, d): second branch *)
    assert (T1: (Nat.eqb (i m0) d && Nat.eqb (j m0) c)%bool = false).
    { rewrite F1. destruct (Nat.eqb_spec c d); [contradiction|reflexivity]. }
    assert (T2: (Nat.eqb (i m0) c && Nat.eqb (j m0) d)%bool = true) by (rewrite F1, F2, !Nat.eqb_refl; reflexivity).
    rewrite T1, T2 in HP.
    rewrite patch_nomatch in HP.
    + inversion HP; subst i' j'; clear HP.
      split; [apply vupd_other; auto|]. split; [apply vupd_same|].
      split; [right; split; [apply vupd_same|rewrite vupd_other by exact Hne; exact F2]|].
      intros m M1 M2. split; apply vupd_other; assumption.
    + intros m Hm. destruct (Hlt m) as [A B]; [apply in_app_iff; right; exact Hm|].
      unfold pmatch. rewrite (vupd_other i m0 (j it) m B).
      destruct (Nat.eq_dec m it) as [->|Hmi].
      * rewrite vupd_same. intros [[E1 E2]|[E1 E2]]; congruence.
      * rewrite vupd_other by exact Hmi. apply (Hold m A B).
  - (* entry m0 is (d, c): first branch *)
    assert (T1: (Nat.eqb (i m0) d && Nat.eqb (j m0) c)%bool = true) by (rewrite F1, F2, !Nat.eqb_refl; reflexivity).
    rewrite T1 in HP.
    rewrite patch_nomatch in HP.
    + inversion HP; subst i' j'; clear HP.
      split; [reflexivity|]. split; [rewrite vupd_other by auto; apply vupd_same|].
      split; [left; split; [exact F1|apply vupd_same]|].
      intros m M1 M2. split; [reflexivity|]. rewrite !vupd_other by assumption. reflexivity.
    + intros m Hm. destruct (Hlt m) as [A B]; [apply in_app_iff; right; exact Hm|].
      unfold pmatch. rewrite (vupd_other _ m0 (j it) m B).
      destruct (Nat.eq_dec m it) as [->|Hmi].
      * rewrite vupd_same. intros [[E1 E2]|[E1 E2]]; congruence.
      * rewrite vupd_other by exact Hmi. apply (Hold m A B).
Qed.

(* ---------- one accepted swap keeps the invariant and every degree ---------- *)
Lemma step_LI n k R i j it c d i' j' m0 :
  LI n k R i j -> (it < k)%nat -> (m0 < k)%nat -> m0 <> it ->
  (c < n)%nat -> (d < n)%nat ->
  R c d = 1 -> R c (i it) = 0 -> R c (j it) = 0 -> R d (i it) = 0 -> R d (j it) = 0 ->
  ((i m0 = c /\ j m0 = d) \/ (i m0 = d /\ j m0 = c)) ->
  i' it = i it -> j' it = c ->
  ((i' m0 = d /\ j' m0 = j it) \/ (i' m0 = j it /\ j' m0 = d)) ->
  (forall m, m <> it -> m <> m0 -> i' m = i m /\ j' m = j m) ->
  LI n k (rbu_swap R (i it) (j it) c d) i' j' /\
  (forall x, (x < n)%nat -> offdeg n (rbu_swap R (i it) (j it) c d) x = offdeg n R x).
Proof.
  intros HLI Hit Hm0 Hne Hc Hd Hcd1 Hca Hcb Hda Hdb Em0 Ei Ej Em0' Hoth.
  destruct HLI as [[Hsym H01 Hdiag] Hedge Hdist Hall].
  destruct (Hedge it Hit) as (Ha & Hb & Hab1).
  remember (i it) as a eqn:Ea. remember (j it) as b eqn:Eb.
  assert (Hab: a <> b) by (intros E; rewrite E, Hdiag in Hab1 by exact Hb; exact (SENT_not1 Hab1)).
  assert (Hac: a <> c) by (intros E; rewrite <- E, Hdiag in Hca by exact Ha; exact (SENT_not0 Hca)).
  assert (Had: a <> d) by (intros E; rewrite <- E, Hdiag in Hda by exact Ha; exact (SENT_not0 Hda)).
  assert (Hbc: b <> c) by (intros E; rewrite <- E, Hdiag in Hcb by exact Hb; exact (SENT_not0 Hcb)).
  assert (Hbd: b <> d) by (intros E; rewrite <- E, Hdiag in Hdb by exact Hb; exact (SENT_not0 Hdb)).
  assert (Hcd: c <> d) by (intros E; rewrite <- E, Hdiag in Hcd1 by exact Hc; exact (SENT_not1 Hcd1)).
  assert (Hadm: rbu_admissible R a b c d = true).
  { unfold rbu_admissible. rewrite Hab1, Hcd1, Hca, Hcb, Hda, Hdb. reflexivity. }
  destruct (rbu_step R a b c d Hab Hac Had Hbc Hbd Hcd Hsym Hadm n Ha Hb Hc Hd) as (S1 & _ & S3 & S4).
  pose proof (rbu_swap_cases R a b c d) as Cases.
  set (R' := rbu_swap R a b c d) in *.
  assert (Rac: R a c = 0) by (rewrite Hsym; exact Hca).
  assert (Rbc: R b c = 0) by (rewrite Hsym; exact Hcb).
  assert (Rad: R a d = 0) by (rewrite Hsym; exact Hda).
  assert (Rbd: R b d = 0) by (rewrite Hsym; exact Hdb).
  assert (Rba: R b a = 1) by (rewrite Hsym; exact Hab1).
  assert (Rdc: R d c = 1) by (rewrite Hsym; exact Hcd1).
  (* an entry other than it, m0 is none of the eight touched cells *)
  assert (Hfree: forall m, (m < k)%nat -> m <> it -> m <> m0 ->
            ~ cut a b c d (i m) (j m) /\ ~ put a b c d (i m) (j m)).
  { intros m Hm M1 M2. destruct (Hedge m Hm) as (_ & _ & V).
    destruct (Hdist m it Hm Hit M1) as [D1 D2]. rewrite <- Ea, <- Eb in D1, D2.
    destruct (Hdist m m0 Hm Hm0 M2) as [D3 D4].
    split.
    - unfold cut. intros [[E1 E2]|[[E1 E2]|[[E1 E2]|[E1 E2]]]].
      + apply D1; split; assumption.
      + apply D2; split; assumption.
      + destruct Em0 as [[F1 F2]|[F1 F2]]; [apply D3|apply D4]; split; congruence.
      + destruct Em0 as [[F1 F2]|[F1 F2]]; [apply D4|apply D3]; split; congruence.
    - unfold put. intros [[E1 E2]|[[E1 E2]|[[E1 E2]|[E1 E2]]]]; rewrite E1, E2 in V; congruence. }
  split; [constructor; [constructor|..]|].
  - exact S3.
  - intros x y Hx Hy Hxy. destruct (Cases x y Hab Hac Had Hbc Hbd Hcd) as [[_ E]|[[_ E]|(_ & _ & E)]]; rewrite E; auto.
  - intros x Hx. rewrite S4. apply Hdiag; exact Hx.
  - (* li_edge *)
    intros m Hm. destruct (Nat.eq_dec m it) as [->|M1]; [|destruct (Nat.eq_dec m m0) as [->|M2]].
    + rewrite Ei, Ej. split; [exact Ha|]. split; [exact Hc|].
      destruct (Cases a c Hab Hac Had Hbc Hbd Hcd) as [[C _]|[[_ E]|(_ & C & _)]]; [|exact E|].
      * exfalso. unfold cut in C. intuition congruence.
      * exfalso. apply C. unfold put. tauto.
    + destruct Em0' as [[E1 E2]|[E1 E2]]; rewrite E1, E2.
      * split; [exact Hd|]. split; [exact Hb|].
        destruct (Cases d b Hab Hac Had Hbc Hbd Hcd) as [[C _]|[[_ E]|(_ & C & _)]]; [|exact E|].
        -- exfalso. unfold cut in C. intuition congruence.
        -- exfalso. apply C. unfold put. tauto.
      * split; [exact Hb|]. split; [exact Hd|].
        destruct (Cases b d Hab Hac Had Hbc Hbd Hcd) as [[C _]|[[_ E]|(_ & C & _)]]; [|exact E|].
        -- exfalso. unfold cut in C. intuition congruence.
        -- exfalso. apply C. unfold put. tauto.
    + destruct (Hoth m M1 M2) as [E1 E2]. rewrite E1, E2.
      destruct (Hedge m Hm) as (A & B & V). split; [exact A|]. split; [exact B|].
      destruct (Hfree m Hm M1 M2) as [NC NP].
      destruct (Cases (i m) (j m) Hab Hac Had Hbc Hbd Hcd) as [[C _]|[[C _]|(_ & _ & E)]]; try contradiction.
      rewrite E. exact V.
  - (* li_dist *)
    assert (Hnew: forall m u v, (m < k)%nat -> m <> it -> m <> m0 -> put a b c d u v ->
              ~ (i' m = u /\ j' m = v)).
    { intros m u v Hm M1 M2 P [E1 E2]. destruct (Hoth m M1 M2) as [F1 F2].
      destruct (Hfree m Hm M1 M2) as [_ NP]. apply NP. rewrite <- F1, <- F2, E1, E2. exact P. }
    assert (Hit_m0: ~ (i' it = i' m0 /\ j' it = j' m0) /\ ~ (i' it = j' m0 /\ j' it = i' m0)).
    { rewrite Ei, Ej. destruct Em0' as [[E1 E2]|[E1 E2]]; rewrite E1, E2; split; intros [X Y]; congruence. }
    intros m m' Hm Hm' Hmm.
    destruct (Nat.eq_dec m it) as [M1|M1]; [|destruct (Nat.eq_dec m m0) as [M2|M2]];
    (destruct (Nat.eq_dec m' it) as [M1'|M1']; [|destruct (Nat.eq_dec m' m0) as [M2'|M2']]).
    + congruence.
    + subst m m'. exact Hit_m0.
    + subst m. rewrite Ei, Ej. split; intros [X Y].
      * apply (Hnew m' a c Hm' M1' M2'); [unfold put; tauto|split; congruence].
      * apply (Hnew m' c a Hm' M1' M2'); [unfold put; tauto|split; congruence].
    + subst m m'. destruct Hit_m0 as [X Y]. split; intros [U V]; [apply X|apply Y]; split; congruence.
    + congruence.
    + subst m. destruct Em0' as [[E1 E2]|[E1 E2]]; rewrite E1, E2; split; intros [X Y].
      * apply (Hnew m' d b Hm' M1' M2'); [unfold put; tauto|split; congruence].
      * apply (Hnew m' b d Hm' M1' M2'); [unfold put; tauto|split; congruence].
      * apply (Hnew m' b d Hm' M1' M2'); [unfold put; tauto|split; congruence].
      * apply (Hnew m' d b Hm' M1' M2'); [unfold put; tauto|split; congruence].
    + subst m'. rewrite Ei, Ej. split; intros [X Y].
      * apply (Hnew m a c Hm M1 M2); [unfold put; tauto|split; congruence].
      * apply (Hnew m c a Hm M1 M2); [unfold put; tauto|split; congruence].
    + subst m'. destruct Em0' as [[E1 E2]|[E1 E2]]; rewrite E1, E2; split; intros [X Y].
      * apply (Hnew m d b Hm M1 M2); [unfold put; tauto|split; congruence].
      * apply (Hnew m b d Hm M1 M2); [unfold put; tauto|split; congruence].
      * apply (Hnew m b d Hm M1 M2); [unfold put; tauto|split; congruence].
      * apply (Hnew m d b Hm M1 M2); [unfold put; tauto|split; congruence].
    + destruct (Hoth m M1 M2) as [F1 F2]. destruct (Hoth m' M1' M2') as [G1 G2].
      rewrite F1, F2, G1, G2. apply Hdist; assumption.
  - (* li_all *)
    intros u v Hu Hv V.
    destruct (Cases u v Hab Hac Had Hbc Hbd Hcd) as [[_ E]|[[P _]|(NC & NP & E)]].
    + rewrite E in V. discriminate.
    + unfold put in P. destruct P as [[E1 E2]|[[E1 E2]|[[E1 E2]|[E1 E2]]]]; subst u v.
      * exists it. split; [exact Hit|]. left. split; assumption.
      * exists it. split; [exact Hit|]. right. split; assumption.
      * exists m0. split; [exact Hm0|]. destruct Em0' as [[E1 E2]|[E1 E2]]; [right|left]; split; assumption.
      * exists m0. split; [exact Hm0|]. destruct Em0' as [[E1 E2]|[E1 E2]]; [left|right]; split; assumption.
    + rewrite E in V. destruct (Hall u v Hu Hv V) as (m & Hm & Em).
      assert (M1: m <> it).
      { intros ->. rewrite <- Ea, <- Eb in Em. apply NC. unfold cut. destruct Em as [[X Y]|[X Y]]; subst u v; tauto. }
      assert (M2: m <> m0).
      { intros ->. apply NC. unfold cut.
        destruct Em as [[X Y]|[X Y]]; destruct Em0 as [[F1 F2]|[F1 F2]]; subst u v; rewrite F1, F2; tauto. }
      exists m. split; [exact Hm|]. destruct (Hoth m M1 M2) as [F1 F2]. rewrite F1, F2. exact Em.
  - intros x Hx. rewrite !offdeg_outdeg by exact Hx. rewrite S1, S4. reflexivity.
Qed.

(* ------------------------------------------------------------------ the mate search *)
Lemma common_holes_In n R a b x :
  In x (common_holes n R a b) <-> (x < n)%nat /\ R x a = 0 /\ R x b = 0.
Proof.
  unfold common_holes. rewrite filter_In, in_seq, andb_true_iff, !Z.eqb_eq. split; intros H; [|split; [lia|tauto]].
  split; [lia|tauto].
Qed.

Lemma mates_In R h u v : In (u, v) (mates R h) <-> In u h /\ In v h /\ R u v = 1.
Proof.
  unfold mates. rewrite in_flat_map. split.
  - intros (u' & Hu & H). apply in_flat_map in H. destruct H as (v' & Hv & H).
    destruct (Z.eqb_spec (R u' v') 1) as [E|E]; [|contradiction].
    destruct H as [H|[]]. inversion H; subst. tauto.
  - intros (Hu & Hv & E). exists u. split; [exact Hu|]. apply in_flat_map. exists v. split; [exact Hv|].
    rewrite E. left. reflexivity.
Qed.

Lemma randint_lt len z : (0 < len)%nat -> (randint len z < len)%nat.
Proof.
  intros H. unfold randint.
  assert (0 <= z mod Z.of_nat len < Z.of_nat len) by (apply Z.mod_pos_bound; lia). lia.
Qed.

(* one iteration: either nothing happens, or a mate (c,d) (in either orientation) is swapped in *)
Lemma rbu_loop_cons n k alpha it rest R i j s tr res :
  rbu_loop n k alpha (it :: rest) R i j s tr = Some res ->
  (exists s1, rbu_loop n k alpha rest R i j s1 tr = Some res) \/
  (exists s2 c d i' j',
     (In (c, d) (mates R (common_holes n R (i it) (j it))) \/ In (d, c) (mates R (common_holes n R (i it) (j it)))) /\
     patch_loop (seq 0 k) it (j it) c d i j = (i', j') /\
     rbu_loop n k alpha rest (rbu_swap R (i it) (j it) c d) i' j' s2
        (tr ++ [mkrbu (i it, j it, c, d) (rbu_swap R (i it) (j it) c d) i' j']) = Some res).
Proof.
  cbn [rbu_loop]. destruct s as [|[z|q|l] s1]; try discriminate.
  destruct (Qgtb q alpha); [intros H; left; eexists; exact H|].
  cbv zeta.
  remember (mates R (common_holes n R (i it) (j it))) as ms eqn:Ems.
  destruct ms as [|m1 msr]; [intros H; left; eexists; exact H|].
  destruct s1 as [|[z|q1|l1] [|[z2|q2|l2] s2]]; try discriminate.
  remember (nth (randint (length (m1 :: msr)) z) (m1 :: msr) (O, O)) as mate eqn:Emate.
  assert (Hin: In mate (m1 :: msr)).
  { rewrite Emate. apply nth_In. apply randint_lt. cbn [length]. lia. }
  destruct mate as [u v]. cbn [fst snd].
  destruct (Qgtb q2 (1 # 2)).
  - destruct (patch_loop (seq 0 k) it (j it) u v i j) as [i' j'] eqn:EP.
    intros H. right. exists s2, u, v, i', j'. split; [left; exact Hin|]. split; [exact EP|exact H].
  - destruct (patch_loop (seq 0 k) it (j it) v u i j) as [i' j'] eqn:EP.
    intros H. right. exists s2, v, u, i', j'. split; [right; exact Hin|]. split; [exact EP|exact H].
Qed.

(* what is recorded with every accepted swap *)
Definition EvI (n k : nat) (Rs : mat Z) (e : rbu_event) : Prop :=
  LI n k (re_R e) (re_i e) (re_j e) /\
  (forall x, (x < n)%nat -> offdeg n (re_R e) x = offdeg n Rs x).

Theorem rbu_loop_inv n k alpha Rs : forall its R i j s tr R4 tr4 s4,
  (forall it, In it its -> (it < k)%nat) ->
  LI n k R i j -> (forall x, (x < n)%nat -> offdeg n R x = offdeg n Rs x) -> Forall (EvI n k Rs) tr ->
  rbu_loop n k alpha its R i j s tr = Some (R4, tr4, s4) ->
  (exists i4 j4, LI n k R4 i4 j4) /\ (forall x, (x < n)%nat -> offdeg n R4 x = offdeg n Rs x) /\
  Forall (EvI n k Rs) tr4.
Proof.
  induction its as [|it rest IH]; intros R i j s tr R4 tr4 s4 Hits HLI Hdeg Htr H.
  - cbn [rbu_loop] in H. inversion H; subst. split; [exists i, j; exact HLI|]. split; assumption.
  - assert (Hrest: forall it', In it' rest -> (it' < k)%nat) by (intros; apply Hits; right; assumption).
    assert (Hit: (it < k)%nat) by (apply Hits; left; reflexivity).
    apply rbu_loop_cons in H. destruct H as [[s1 H]|(s2 & c & d & i' & j' & Hmate & HP & H)].
    + exact (IH R i j s1 tr R4 tr4 s4 Hrest HLI Hdeg Htr H).
    + pose proof HLI as [[Hsym H01 Hdiag] Hedge _ _].
      destruct (Hedge it Hit) as (Ha & Hb & Hab1).
      assert (Hm: In c (common_holes n R (i it) (j it)) /\ In d (common_holes n R (i it) (j it)) /\ R c d = 1).
      { destruct Hmate as [Hm|Hm]; apply mates_In in Hm; destruct Hm as (A & B & C); [tauto|].
        split; [exact B|]. split; [exact A|]. rewrite Hsym. exact C. }
      destruct Hm as (Hch & Hdh & Hcd1).
      apply common_holes_In in Hch. destruct Hch as (Hc & Hca & Hcb).
      apply common_holes_In in Hdh. destruct Hdh as (Hd & Hda & Hdb).
      assert (Hac: i it <> c) by (intros E; rewrite <- E, Hdiag in Hca by exact Ha; exact (SENT_not0 Hca)).
      assert (Had: i it <> d) by (intros E; rewrite <- E, Hdiag in Hda by exact Ha; exact (SENT_not0 Hda)).
      assert (Hcd: c <> d) by (intros E; rewrite <- E, Hdiag in Hcd1 by exact Hc; exact (SENT_not1 Hcd1)).
      destruct (patch_spec n k R i j it c d i' j' HLI Hit Hc Hd Hcd1 Hac Had Hcd HP)
        as (m0 & Hm0 & Hne & Em0 & Ei & Ej & Em0' & Hoth).
      destruct (step_LI n k R i j it c d i' j' m0 HLI Hit Hm0 Hne Hc Hd Hcd1 Hca Hcb Hda Hdb Em0 Ei Ej Em0' Hoth)
        as [HLI' Hdeg'].
      assert (Hdeg2: forall x, (x < n)%nat -> offdeg n (rbu_swap R (i it) (j it) c d) x = offdeg n Rs x)
        by (intros x Hx; rewrite Hdeg' by exact Hx; apply Hdeg; exact Hx).
      refine (IH _ _ _ _ _ R4 tr4 s4 Hrest HLI' Hdeg2 _ H).
      apply Forall_app. split; [exact Htr|]. constructor; [|constructor].
      split; cbn [re_R re_i re_j]; assumption.
Qed.
