(* Proofs/RewireBinFull.v — the whole of randomizer_bin_und (Model/RewireBin.v): every run that returns keeps
   every node's degree, returns a symmetric 0/1 matrix with the diagonal of the binarised input; the working
   matrix of every recorded swap satisfies the loop invariant [LI] and has the degrees of the matrix the loop
   started from.  No hypothesis beyond "the run returned". *)
From Coq Require Import ZArith List Arith Bool Lia QArith.
From BCT Require Import Base.Mat Base.ListX Model.Components Model.Rewire Model.RewireBin Proofs.RewireSwap Proofs.RewireBin Proofs.RewireRun.
From BCT Require Proofs.Components.
Import ListNotations.
Open Scope Z_scope.

(* number of y < n, y <> x, with R x y <> 0 *)
Definition offdeg (n : nat) (R : mat Z) (x : nat) : Z :=
  sumn (fun y => if Nat.eqb y x then 0 else nz (R x y)) n.

(* a working matrix: symmetric, 0/1 off the diagonal, sentinel on the diagonal *)
Record WM (n : nat) (R : mat Z) : Prop := {
  wm_sym : forall x y, R x y = R y x;
  wm_01 : forall x y, (x < n)%nat -> (y < n)%nat -> x <> y -> R x y = 0 \/ R x y = 1;
  wm_diag : forall x, (x < n)%nat -> R x x = SENT }.

Lemma SENT_not0 : SENT <> 0. Proof. unfold SENT; lia. Qed.
Lemma SENT_not1 : SENT <> 1. Proof. unfold SENT; lia. Qed.

(* ------------------------------------------------------------------ sums *)
Lemma sumn_const1 n : sumn (fun _ => 1) n = Z.of_nat n.
Proof. induction n as [|n IH]; [reflexivity|]. cbn [sumn]. rewrite IH. lia. Qed.

Lemma sumn_le_eq f g n :
  (forall i, (i < n)%nat -> f i <= g i) -> sumn f n = sumn g n -> forall i, (i < n)%nat -> f i = g i.
Proof.
  induction n as [|n IH]; intros Hle Heq i Hi; [lia|]. cbn [sumn] in Heq.
  assert (sumn f n <= sumn g n) by (apply sumn_le; intros; apply Hle; lia).
  pose proof (Hle n ltac:(lia)).
  destruct (Nat.eq_dec i n) as [->|Hne]; [lia|].
  apply IH; try lia. intros; apply Hle; lia.
Qed.

Lemma sumn_except n x : (x < n)%nat -> sumn (fun y => if Nat.eqb y x then 0 else 1) n = Z.of_nat n - 1.
Proof.
  intros Hx. pose proof (sumn_split (fun _ => 1) n x Hx) as H. cbv beta in H.
  rewrite sumn_const1 in H. lia.
Qed.

Lemma nz_01 z : nz z = 0 \/ nz z = 1.
Proof. unfold nz. destruct (Z.eqb z 0); auto. Qed.
Lemma nz_bin z : z = 0 \/ z = 1 -> nz z = z.
Proof. intros [->| ->]; reflexivity. Qed.
Lemma nz_eq0 z : nz z = 0 -> z = 0.
Proof. unfold nz. destruct (Z.eqb_spec z 0); [auto|discriminate]. Qed.
Lemma nz_eq1 z : nz z = 1 -> z <> 0.
Proof. unfold nz. destruct (Z.eqb_spec z 0); [discriminate|auto]. Qed.

(* ------------------------------------------------------------------ offdeg *)
Lemma offdeg_ext n R R' x :
  (forall y, (y < n)%nat -> y <> x -> R x y = R' x y) -> offdeg n R x = offdeg n R' x.
Proof.
  intros H. unfold offdeg. apply sumn_ext. intros y Hy.
  destruct (Nat.eqb_spec y x); [reflexivity|]. rewrite H; auto.
Qed.

Lemma offdeg_outdeg n R x : (x < n)%nat -> offdeg n R x = outdeg n R x - nz (R x x).
Proof.
  intros Hx. unfold offdeg, outdeg.
  pose proof (sumn_split (fun y => nz (R x y)) n x Hx) as H. cbv beta in H. lia.
Qed.

Lemma offdeg_lnot n R x : (x < n)%nat -> offdeg n (lnot R) x = Z.of_nat n - 1 - offdeg n R x.
Proof.
  intros Hx. rewrite <- (sumn_except n x Hx). unfold offdeg.
  assert (E: sumn (fun y => if Nat.eqb y x then 0 else 1) n =
             sumn (fun y => (if Nat.eqb y x then 0 else nz (lnot R x y)) + (if Nat.eqb y x then 0 else nz (R x y))) n).
  { apply sumn_ext. intros y _. destruct (Nat.eqb_spec y x); [reflexivity|].
    unfold lnot, nz. destruct (Z.eqb_spec (R x y) 0); reflexivity. }
  rewrite E, sumn_add. lia.
Qed.

(* degree n-1: adjacent to every other node *)
Lemma offdeg_full n R x y :
  offdeg n R x = Z.of_nat n - 1 -> (x < n)%nat -> (y < n)%nat -> y <> x -> R x y <> 0.
Proof.
  intros H Hx Hy Hne. rewrite <- (sumn_except n x Hx) in H. unfold offdeg in H.
  assert (E: (if Nat.eqb y x then 0 else nz (R x y)) = (if Nat.eqb y x then 0 else 1)).
  { apply (sumn_le_eq (fun y => if Nat.eqb y x then 0 else nz (R x y)) (fun y => if Nat.eqb y x then 0 else 1) n); auto.
    intros i _. destruct (Nat.eqb i x); [lia|destruct (nz_01 (R x i)); lia]. }
  destruct (Nat.eqb_spec y x); [contradiction|]. apply nz_eq1. exact E.
Qed.

(* degree 0: the row is empty *)
Lemma offdeg_zero n R x y :
  offdeg n R x = 0 -> (y < n)%nat -> y <> x -> R x y = 0.
Proof.
  intros H Hy Hne. unfold offdeg in H.
  assert (H': sumn (fun _ => 0) n = sumn (fun y => if Nat.eqb y x then 0 else nz (R x y)) n)
    by (rewrite sumn_zero; symmetry; exact H).
  assert (E: 0 = (if Nat.eqb y x then 0 else nz (R x y))).
  { apply (sumn_le_eq (fun _ => 0) (fun y => if Nat.eqb y x then 0 else nz (R x y)) n); auto.
    intros i _. destruct (Nat.eqb i x); [lia|destruct (nz_01 (R x i)); lia]. }
  destruct (Nat.eqb_spec y x); [contradiction|]. apply nz_eq0. symmetry. exact E.
Qed.

(* the degree computed by the code from the two triangles *)
Lemma wdeg_offdeg n R x : WM n R -> (x < n)%nat -> wdeg n R x = offdeg n R x.
Proof.
  intros [Hs H01 _] Hx. unfold wdeg, offdeg. rewrite <- sumn_add. apply sumn_ext. intros y Hy.
  destruct (Nat.eqb_spec y x) as [->|Hne].
  - rewrite Nat.ltb_irrefl. reflexivity.
  - rewrite (nz_bin _ (H01 x y Hx Hy (not_eq_sym Hne))).
    destruct (Nat.ltb_spec y x); destruct (Nat.ltb_spec x y); try lia. rewrite (Hs y x). lia.
Qed.

(* ------------------------------------------------------------------ the swap, cell by cell *)
Definition cut (a b c d x y : nat) : Prop :=
  (x = a /\ y = b) \/ (x = b /\ y = a) \/ (x = c /\ y = d) \/ (x = d /\ y = c).
Definition put (a b c d x y : nat) : Prop :=
  (x = a /\ y = c) \/ (x = c /\ y = a) \/ (x = b /\ y = d) \/ (x = d /\ y = b).

Lemma rbu_swap_cases R a b c d x y :
  a <> b -> a <> c -> a <> d -> b <> c -> b <> d -> c <> d ->
  (cut a b c d x y /\ rbu_swap R a b c d x y = 0) \/
  (put a b c d x y /\ rbu_swap R a b c d x y = 1) \/
  (~ cut a b c d x y /\ ~ put a b c d x y /\ rbu_swap R a b c d x y = R x y).
Proof.
  intros Hab Hac Had Hbc Hbd Hcd. unfold cut, put, rbu_swap, upd.
  destruct (Nat.eq_dec x a) as [Exa|Exa]; [|destruct (Nat.eq_dec x b) as [Exb|Exb];
    [|destruct (Nat.eq_dec x c) as [Exc|Exc]; [|destruct (Nat.eq_dec x d) as [Exd|Exd]]]];
  (destruct (Nat.eq_dec y a) as [Eya|Eya]; [|destruct (Nat.eq_dec y b) as [Eyb|Eyb];
    [|destruct (Nat.eq_dec y c) as [Eyc|Eyc]; [|destruct (Nat.eq_dec y d) as [Eyd|Eyd]]]]);
  subst;
  repeat match goal with
  | |- context[Nat.eqb ?u ?v] => destruct (Nat.eqb_spec u v); try congruence; cbn [andb]
  end;
  first [ left; split; [tauto|reflexivity]
        | right; left; split; [tauto|reflexivity]
        | right; right; split; [|split]; [intuition congruence|intuition congruence|reflexivity] ].
Qed.

(* ------------------------------------------------------------------ the loop invariant *)
(* [i], [j] (k entries) list every connection of the working matrix exactly once, in one orientation *)
Record LI (n k : nat) (R : mat Z) (i j : vec nat) : Prop := {
  li_wm : WM n R;
  li_edge : forall m, (m < k)%nat -> (i m < n)%nat /\ (j m < n)%nat /\ R (i m) (j m) = 1;
  li_dist : forall m m', (m < k)%nat -> (m' < k)%nat -> m <> m' ->
      ~ (i m = i m' /\ j m = j m') /\ ~ (i m = j m' /\ j m = i m');
  li_all : forall u v, (u < n)%nat -> (v < n)%nat -> R u v = 1 ->
      exists m, (m < k)%nat /\ ((i m = u /\ j m = v) \/ (i m = v /\ j m = u)) }.

(* ---------- the edge-index update ---------- *)
Definition pmatch (i j : vec nat) (c d m : nat) : Prop := (i m = d /\ j m = c) \/ (i m = c /\ j m = d).

Lemma patch_app l1 l2 it b c d i j :
  (forall m, In m l1 -> ~ pmatch i j c d m) ->
  patch_loop (l1 ++ l2) it b c d i j = patch_loop l2 it b c d i j.
Proof.
  induction l1 as [|m r IH]; intros H; cbn [app patch_loop]; [reflexivity|].
  assert (Hm := H m (or_introl eq_refl)). unfold pmatch in Hm.
  destruct (Nat.eqb (i m) d && Nat.eqb (j m) c)%bool eqn:E1.
  { exfalso. apply andb_true_iff in E1. rewrite !Nat.eqb_eq in E1. tauto. }
  destruct (Nat.eqb (i m) c && Nat.eqb (j m) d)%bool eqn:E2.
  { exfalso. apply andb_true_iff in E2. rewrite !Nat.eqb_eq in E2. tauto. }
  apply IH. intros m' Hm'. apply H. right. exact Hm'.
Qed.

Lemma patch_nomatch ms it b c d i j :
  (forall m, In m ms -> ~ pmatch i j c d m) -> patch_loop ms it b c d i j = (i, j).
Proof. intros H. rewrite <- (app_nil_r ms). rewrite patch_app by exact H. reflexivity. Qed.

Lemma patch_spec n k R i j it c d i' j' :
  LI n k R i j -> (it < k)%nat -> (c < n)%nat -> (d < n)%nat -> R c d = 1 ->
  i it <> c -> i it <> d -> c <> d ->
  patch_loop (seq 0 k) it (j it) c d i j = (i', j') ->
  exists m0, (m0 < k)%nat /\ m0 <> it /\
    ((i m0 = c /\ j m0 = d) \/ (i m0 = d /\ j m0 = c)) /\
    i' it = i it /\ j' it = c /\
    ((i' m0 = d /\ j' m0 = j it) \/ (i' m0 = j it /\ j' m0 = d)) /\
    (forall m, m <> it -> m <> m0 -> i' m = i m /\ j' m = j m).
Proof.
  intros HLI Hit Hc Hd Hcd Hac Had Hcd' HP.
  destruct HLI as [_ Hedge Hdist Hall].
  destruct (Hall c d Hc Hd Hcd) as (m0 & Hm0 & Em0).
  assert (Hne: m0 <> it) by (intros ->; destruct Em0 as [[E1 E2]|[E1 E2]]; congruence).
  exists m0. split; [exact Hm0|]. split; [exact Hne|]. split; [exact Em0|].
  assert (Hin: In m0 (seq 0 k)) by (apply in_seq; lia).
  destruct (in_split _ _ Hin) as (l1 & l2 & El).
  assert (Hnd: NoDup (l1 ++ m0 :: l2)) by (rewrite <- El; apply seq_NoDup).
  assert (Hnot: ~ In m0 (l1 ++ l2)) by (apply NoDup_remove_2; exact Hnd).
  assert (Hlt: forall m, In m (l1 ++ l2) -> (m < k)%nat /\ m <> m0).
  { intros m Hm. split.
    - assert (In m (seq 0 k)) by (rewrite El; apply in_app_iff; apply in_app_iff in Hm; destruct Hm; [left|right; right]; assumption).
      apply in_seq in H. lia.
    - intros ->. contradiction. }
  (* an old entry other than m0 never matches *)
  assert (Hold: forall m, (m < k)%nat -> m <> m0 -> ~ pmatch i j c d m).
  { intros m Hm Hmm [[E1 E2]|[E1 E2]]; destruct (Hdist m m0 Hm Hm0 Hmm) as [D1 D2];
    destruct Em0 as [[F1 F2]|[F1 F2]]; first [apply D1; split; congruence|apply D2; split; congruence]. }
  rewrite El in HP. rewrite patch_app in HP.
  2:{ intros m Hm. destruct (Hlt m) as [A B]; [apply in_app_iff; left; exact Hm|]. apply Hold; assumption. }
  cbn [patch_loop] in HP.
  destruct Em0 as [[F1 F2]|[F1 F2]].
  - (* entry m0 is (c, d): second branch *)
    assert (T1: (Nat.eqb (i m0) d && Nat.eqb (j m0) c)%bool = false).
    { rewrite F1. destruct (Nat.eqb_spec c d); [contradiction|reflexivity]. }
    assert (T2: (Nat.eqb (i m0) c && Nat.eqb (j m0) d)%bool = true) by (rewrite F1, F2, !Nat.eqb_refl; reflexivity).
    rewrite T1, T2 in HP.
    rewrite patch_nomatch in HP.
    + inversion HP; subst i' j'; clear HP.
      split; [apply vupd_other; auto|]. split; [apply vupd_same|].
      split; [right; split; [apply vupd_same|rewrite vupd_other by exact Hne; exact F2]|].
      intros m M1 M2. split; apply vupd_other; assumption.
    + intros m Hm. destruct (Hlt m) as [A B]; [apply in_app_iff; right; exact Hm|].
      unfold pmatch. rewrite (vupd_other i m0 (j it) m B).
      destruct (Nat.eq_dec m it) as [->|Hmi].
      * rewrite vupd_same. intros [[E1 E2]|[E1 E2]]; congruence.
      * rewrite vupd_other by exact Hmi. apply (Hold m A B).
  - (* entry m0 is (d, c): first branch *)
    assert (T1: (Nat.eqb (i m0) d && Nat.eqb (j m0) c)%bool = true) by (rewrite F1, F2, !Nat.eqb_refl; reflexivity).
    rewrite T1 in HP.
    rewrite patch_nomatch in HP.
    + inversion HP; subst i' j'; clear HP.
      split; [reflexivity|]. split; [rewrite vupd_other by auto; apply vupd_same|].
      split; [left; split; [exact F1|apply vupd_same]|].
      intros m M1 M2. split; [reflexivity|]. rewrite !vupd_other by assumption. reflexivity.
    + intros m Hm. destruct (Hlt m) as [A B]; [apply in_app_iff; right; exact Hm|].
      unfold pmatch. rewrite (vupd_other _ m0 (j it) m B).
      destruct (Nat.eq_dec m it) as [->|Hmi].
      * rewrite vupd_same. intros [[E1 E2]|[E1 E2]]; congruence.
      * rewrite vupd_other by exact Hmi. apply (Hold m A B).
Qed.

(* ---------- one accepted swap keeps the invariant and every degree ---------- *)
Lemma step_LI n k R i j it c d i' j' m0 :
  LI n k R i j -> (it < k)%nat -> (m0 < k)%nat -> m0 <> it ->
  (c < n)%nat -> (d < n)%nat ->
  R c d = 1 -> R c (i it) = 0 -> R c (j it) = 0 -> R d (i it) = 0 -> R d (j it) = 0 ->
  ((i m0 = c /\ j m0 = d) \/ (i m0 = d /\ j m0 = c)) ->
  i' it = i it -> j' it = c ->
  ((i' m0 = d /\ j' m0 = j it) \/ (i' m0 = j it /\ j' m0 = d)) ->
  (forall m, m <> it -> m <> m0 -> i' m = i m /\ j' m = j m) ->
  LI n k (rbu_swap R (i it) (j it) c d) i' j' /\
  (forall x, (x < n)%nat -> offdeg n (rbu_swap R (i it) (j it) c d) x = offdeg n R x).
Proof.
  intros HLI Hit Hm0 Hne Hc Hd Hcd1 Hca Hcb Hda Hdb Em0 Ei Ej Em0' Hoth.
  destruct HLI as [[Hsym H01 Hdiag] Hedge Hdist Hall].
  destruct (Hedge it Hit) as (Ha & Hb & Hab1).
  remember (i it) as a eqn:Ea. remember (j it) as b eqn:Eb.
  assert (Hab: a <> b) by (intros E; rewrite E, Hdiag in Hab1 by exact Hb; exact (SENT_not1 Hab1)).
  assert (Hac: a <> c) by (intros E; rewrite <- E, Hdiag in Hca by exact Ha; exact (SENT_not0 Hca)).
  assert (Had: a <> d) by (intros E; rewrite <- E, Hdiag in Hda by exact Ha; exact (SENT_not0 Hda)).
  assert (Hbc: b <> c) by (intros E; rewrite <- E, Hdiag in Hcb by exact Hb; exact (SENT_not0 Hcb)).
  assert (Hbd: b <> d) by (intros E; rewrite <- E, Hdiag in Hdb by exact Hb; exact (SENT_not0 Hdb)).
  assert (Hcd: c <> d) by (intros E; rewrite <- E, Hdiag in Hcd1 by exact Hc; exact (SENT_not1 Hcd1)).
  assert (Hadm: rbu_admissible R a b c d = true).
  { unfold rbu_admissible. rewrite Hab1, Hcd1, Hca, Hcb, Hda, Hdb. reflexivity. }
  destruct (rbu_step R a b c d Hab Hac Had Hbc Hbd Hcd Hsym Hadm n Ha Hb Hc Hd) as (S1 & _ & S3 & S4).
  pose proof (rbu_swap_cases R a b c d) as Cases.
  set (R' := rbu_swap R a b c d) in *.
  assert (Rac: R a c = 0) by (rewrite Hsym; exact Hca).
  assert (Rbc: R b c = 0) by (rewrite Hsym; exact Hcb).
  assert (Rad: R a d = 0) by (rewrite Hsym; exact Hda).
  assert (Rbd: R b d = 0) by (rewrite Hsym; exact Hdb).
  assert (Rba: R b a = 1) by (rewrite Hsym; exact Hab1).
  assert (Rdc: R d c = 1) by (rewrite Hsym; exact Hcd1).
  (* an entry other than it, m0 is none of the eight touched cells *)
  assert (Hfree: forall m, (m < k)%nat -> m <> it -> m <> m0 ->
            ~ cut a b c d (i m) (j m) /\ ~ put a b c d (i m) (j m)).
  { intros m Hm M1 M2. destruct (Hedge m Hm) as (_ & _ & V).
    destruct (Hdist m it Hm Hit M1) as [D1 D2]. rewrite <- Ea, <- Eb in D1, D2.
    destruct (Hdist m m0 Hm Hm0 M2) as [D3 D4].
    split.
    - unfold cut. intros [[E1 E2]|[[E1 E2]|[[E1 E2]|[E1 E2]]]].
      + apply D1; split; assumption.
      + apply D2; split; assumption.
      + destruct Em0 as [[F1 F2]|[F1 F2]]; [apply D3|apply D4]; split; congruence.
      + destruct Em0 as [[F1 F2]|[F1 F2]]; [apply D4|apply D3]; split; congruence.
    - unfold put. intros [[E1 E2]|[[E1 E2]|[[E1 E2]|[E1 E2]]]]; rewrite E1, E2 in V; congruence. }
  split; [constructor; [constructor|..]|].
  - exact S3.
  - intros x y Hx Hy Hxy. destruct (Cases x y Hab Hac Had Hbc Hbd Hcd) as [[_ E]|[[_ E]|(_ & _ & E)]]; rewrite E; auto.
  - intros x Hx. rewrite S4. apply Hdiag; exact Hx.
  - (* li_edge *)
    intros m Hm. destruct (Nat.eq_dec m it) as [->|M1]; [|destruct (Nat.eq_dec m m0) as [->|M2]].
    + rewrite Ei, Ej. split; [exact Ha|]. split; [exact Hc|].
      destruct (Cases a c Hab Hac Had Hbc Hbd Hcd) as [[C _]|[[_ E]|(_ & C & _)]]; [|exact E|].
      * exfalso. unfold cut in C. intuition congruence.
      * exfalso. apply C. unfold put. tauto.
    + destruct Em0' as [[E1 E2]|[E1 E2]]; rewrite E1, E2.
      * split; [exact Hd|]. split; [exact Hb|].
        destruct (Cases d b Hab Hac Had Hbc Hbd Hcd) as [[C _]|[[_ E]|(_ & C & _)]]; [|exact E|].
        -- exfalso. unfold cut in C. intuition congruence.
        -- exfalso. apply C. unfold put. tauto.
      * split; [exact Hb|]. split; [exact Hd|].
        destruct (Cases b d Hab Hac Had Hbc Hbd Hcd) as [[C _]|[[_ E]|(_ & C & _)]]; [|exact E|].
        -- exfalso. unfold cut in C. intuition congruence.
        -- exfalso. apply C. unfold put. tauto.
    + destruct (Hoth m M1 M2) as [E1 E2]. rewrite E1, E2.
      destruct (Hedge m Hm) as (A & B & V). split; [exact A|]. split; [exact B|].
      destruct (Hfree m Hm M1 M2) as [NC NP].
      destruct (Cases (i m) (j m) Hab Hac Had Hbc Hbd Hcd) as [[C _]|[[C _]|(_ & _ & E)]]; try contradiction.
      rewrite E. exact V.
  - (* li_dist *)
    assert (Hnew: forall m u v, (m < k)%nat -> m <> it -> m <> m0 -> put a b c d u v ->
              ~ (i' m = u /\ j' m = v)).
    { intros m u v Hm M1 M2 P [E1 E2]. destruct (Hoth m M1 M2) as [F1 F2].
      destruct (Hfree m Hm M1 M2) as [_ NP]. apply NP. rewrite <- F1, <- F2, E1, E2. exact P. }
    assert (Hit_m0: ~ (i' it = i' m0 /\ j' it = j' m0) /\ ~ (i' it = j' m0 /\ j' it = i' m0)).
    { rewrite Ei, Ej. destruct Em0' as [[E1 E2]|[E1 E2]]; rewrite E1, E2; split; intros [X Y]; congruence. }
    intros m m' Hm Hm' Hmm.
    destruct (Nat.eq_dec m it) as [M1|M1]; [|destruct (Nat.eq_dec m m0) as [M2|M2]];
    (destruct (Nat.eq_dec m' it) as [M1'|M1']; [|destruct (Nat.eq_dec m' m0) as [M2'|M2']]).
    + congruence.
    + subst m m'. exact Hit_m0.
    + subst m. rewrite Ei, Ej. split; intros [X Y].
      * apply (Hnew m' a c Hm' M1' M2'); [unfold put; tauto|split; congruence].
      * apply (Hnew m' c a Hm' M1' M2'); [unfold put; tauto|split; congruence].
    + subst m m'. destruct Hit_m0 as [X Y]. split; intros [U V]; [apply X|apply Y]; split; congruence.
    + congruence.
    + subst m. destruct Em0' as [[E1 E2]|[E1 E2]]; rewrite E1, E2; split; intros [X Y].
      * apply (Hnew m' d b Hm' M1' M2'); [unfold put; tauto|split; congruence].
      * apply (Hnew m' b d Hm' M1' M2'); [unfold put; tauto|split; congruence].
      * apply (Hnew m' b d Hm' M1' M2'); [unfold put; tauto|split; congruence].
      * apply (Hnew m' d b Hm' M1' M2'); [unfold put; tauto|split; congruence].
    + subst m'. rewrite Ei, Ej. split; intros [X Y].
      * apply (Hnew m a c Hm M1 M2); [unfold put; tauto|split; congruence].
      * apply (Hnew m c a Hm M1 M2); [unfold put; tauto|split; congruence].
    + subst m'. destruct Em0' as [[E1 E2]|[E1 E2]]; rewrite E1, E2; split; intros [X Y].
      * apply (Hnew m d b Hm M1 M2); [unfold put; tauto|split; congruence].
      * apply (Hnew m b d Hm M1 M2); [unfold put; tauto|split; congruence].
      * apply (Hnew m b d Hm M1 M2); [unfold put; tauto|split; congruence].
      * apply (Hnew m d b Hm M1 M2); [unfold put; tauto|split; congruence].
    + destruct (Hoth m M1 M2) as [F1 F2]. destruct (Hoth m' M1' M2') as [G1 G2].
      rewrite F1, F2, G1, G2. apply Hdist; assumption.
  - (* li_all *)
    intros u v Hu Hv V.
    destruct (Cases u v Hab Hac Had Hbc Hbd Hcd) as [[_ E]|[[P _]|(NC & NP & E)]].
    + rewrite E in V. discriminate.
    + unfold put in P. destruct P as [[E1 E2]|[[E1 E2]|[[E1 E2]|[E1 E2]]]]; subst u v.
      * exists it. split; [exact Hit|]. left. split; assumption.
      * exists it. split; [exact Hit|]. right. split; assumption.
      * exists m0. split; [exact Hm0|]. destruct Em0' as [[E1 E2]|[E1 E2]]; [right|left]; split; assumption.
      * exists m0. split; [exact Hm0|]. destruct Em0' as [[E1 E2]|[E1 E2]]; [left|right]; split; assumption.
    + rewrite E in V. destruct (Hall u v Hu Hv V) as (m & Hm & Em).
      assert (M1: m <> it).
      { intros ->. rewrite <- Ea, <- Eb in Em. apply NC. unfold cut. destruct Em as [[X Y]|[X Y]]; subst u v; tauto. }
      assert (M2: m <> m0).
      { intros ->. apply NC. unfold cut.
        destruct Em as [[X Y]|[X Y]]; destruct Em0 as [[F1 F2]|[F1 F2]]; subst u v; rewrite F1, F2; tauto. }
      exists m. split; [exact Hm|]. destruct (Hoth m M1 M2) as [F1 F2]. rewrite F1, F2. exact Em.
  - intros x Hx. rewrite !offdeg_outdeg by exact Hx. rewrite S1, S4. reflexivity.
Qed.

(* ------------------------------------------------------------------ the mate search *)
Lemma common_holes_In n R a b x :
  In x (common_holes n R a b) <-> (x < n)%nat /\ R x a = 0 /\ R x b = 0.
Proof.
  unfold common_holes. rewrite filter_In, in_seq, andb_true_iff, !Z.eqb_eq. split; intros H; [|split; [lia|tauto]].
  split; [lia|tauto].
Qed.

Lemma mates_In R h u v : In (u, v) (mates R h) <-> In u h /\ In v h /\ R u v = 1.
Proof.
  unfold mates. rewrite in_flat_map. split.
  - intros (u' & Hu & H). apply in_flat_map in H. destruct H as (v' & Hv & H).
    destruct (Z.eqb_spec (R u' v') 1) as [E|E]; [|contradiction].
    destruct H as [H|[]]. inversion H; subst. tauto.
  - intros (Hu & Hv & E). exists u. split; [exact Hu|]. apply in_flat_map. exists v. split; [exact Hv|].
    rewrite E. left. reflexivity.
Qed.

Lemma randint_lt len z : (0 < len)%nat -> (randint len z < len)%nat.
Proof.
  intros H. unfold randint.
  assert (0 <= z mod Z.of_nat len < Z.of_nat len) by (apply Z.mod_pos_bound; lia). lia.
Qed.

(* one iteration: either nothing happens, or a mate (c,d) (in either orientation) is swapped in *)
Lemma rbu_loop_cons n k alpha it rest R i j s tr res :
  rbu_loop n k alpha (it :: rest) R i j s tr = Some res ->
  (exists s1, rbu_loop n k alpha rest R i j s1 tr = Some res) \/
  (exists s2 c d i' j',
     (In (c, d) (mates R (common_holes n R (i it) (j it))) \/ In (d, c) (mates R (common_holes n R (i it) (j it)))) /\
     patch_loop (seq 0 k) it (j it) c d i j = (i', j') /\
     rbu_loop n k alpha rest (rbu_swap R (i it) (j it) c d) i' j' s2
        (tr ++ [mkrbu (i it, j it, c, d) (rbu_swap R (i it) (j it) c d) i' j']) = Some res).
Proof.
  cbn [rbu_loop]. destruct s as [|[z|q|l] s1]; try discriminate.
  destruct (Qgtb q alpha); [intros H; left; eexists; exact H|].
  cbv zeta.
  remember (mates R (common_holes n R (i it) (j it))) as ms eqn:Ems.
  destruct ms as [|m1 msr]; [intros H; left; eexists; exact H|].
  destruct s1 as [|[z|q1|l1] [|[z2|q2|l2] s2]]; try discriminate.
  remember (nth (randint (length (m1 :: msr)) z) (m1 :: msr) (O, O)) as mate eqn:Emate.
  assert (Hin: In mate (m1 :: msr)).
  { rewrite Emate. apply nth_In. apply randint_lt. cbn [length]. lia. }
  destruct mate as [u v]. cbn [fst snd].
  destruct (Qgtb q2 (1 # 2)).
  - destruct (patch_loop (seq 0 k) it (j it) u v i j) as [i' j'] eqn:EP.
    intros H. right. exists s2, u, v, i', j'. split; [left; exact Hin|]. split; [exact EP|exact H].
  - destruct (patch_loop (seq 0 k) it (j it) v u i j) as [i' j'] eqn:EP.
    intros H. right. exists s2, v, u, i', j'. split; [right; exact Hin|]. split; [exact EP|exact H].
Qed.

(* what is recorded with every accepted swap *)
Definition EvI (n k : nat) (Rs : mat Z) (e : rbu_event) : Prop :=
  LI n k (re_R e) (re_i e) (re_j e) /\
  (forall x, (x < n)%nat -> offdeg n (re_R e) x = offdeg n Rs x).

Theorem rbu_loop_inv n k alpha Rs : forall its R i j s tr R4 tr4 s4,
  (forall it, In it its -> (it < k)%nat) ->
  LI n k R i j -> (forall x, (x < n)%nat -> offdeg n R x = offdeg n Rs x) -> Forall (EvI n k Rs) tr ->
  rbu_loop n k alpha its R i j s tr = Some (R4, tr4, s4) ->
  (exists i4 j4, LI n k R4 i4 j4) /\ (forall x, (x < n)%nat -> offdeg n R4 x = offdeg n Rs x) /\
  Forall (EvI n k Rs) tr4.
Proof.
  induction its as [|it rest IH]; intros R i j s tr R4 tr4 s4 Hits HLI Hdeg Htr H.
  - cbn [rbu_loop] in H. inversion H; subst. split; [exists i, j; exact HLI|]. split; assumption.
  - assert (Hrest: forall it', In it' rest -> (it' < k)%nat) by (intros; apply Hits; right; assumption).
    assert (Hit: (it < k)%nat) by (apply Hits; left; reflexivity).
    apply rbu_loop_cons in H. destruct H as [[s1 H]|(s2 & c & d & i' & j' & Hmate & HP & H)].
    + exact (IH R i j s1 tr R4 tr4 s4 Hrest HLI Hdeg Htr H).
    + pose proof HLI as [[Hsym H01 Hdiag] Hedge _ _].
      destruct (Hedge it Hit) as (Ha & Hb & Hab1).
      assert (Hm: In c (common_holes n R (i it) (j it)) /\ In d (common_holes n R (i it) (j it)) /\ R c d = 1).
      { destruct Hmate as [Hm|Hm]; apply mates_In in Hm; destruct Hm as (A & B & C); [tauto|].
        split; [exact B|]. split; [exact A|]. rewrite Hsym. exact C. }
      destruct Hm as (Hch & Hdh & Hcd1).
      apply common_holes_In in Hch. destruct Hch as (Hc & Hca & Hcb).
      apply common_holes_In in Hdh. destruct Hdh as (Hd & Hda & Hdb).
      assert (Hac: i it <> c) by (intros E; rewrite <- E, Hdiag in Hca by exact Ha; exact (SENT_not0 Hca)).
      assert (Had: i it <> d) by (intros E; rewrite <- E, Hdiag in Hda by exact Ha; exact (SENT_not0 Hda)).
      assert (Hcd: c <> d) by (intros E; rewrite <- E, Hdiag in Hcd1 by exact Hc; exact (SENT_not1 Hcd1)).
      destruct (patch_spec n k R i j it c d i' j' HLI Hit Hc Hd Hcd1 Hac Had Hcd HP)
        as (m0 & Hm0 & Hne & Em0 & Ei & Ej & Em0' & Hoth).
      destruct (step_LI n k R i j it c d i' j' m0 HLI Hit Hm0 Hne Hc Hd Hcd1 Hca Hcb Hda Hdb Em0 Ei Ej Em0' Hoth)
        as [HLI' Hdeg'].
      assert (Hdeg2: forall x, (x < n)%nat -> offdeg n (rbu_swap R (i it) (j it) c d) x = offdeg n Rs x)
        by (intros x Hx; rewrite Hdeg' by exact Hx; apply Hdeg; exact Hx).
      refine (IH _ _ _ _ _ R4 tr4 s4 Hrest HLI' Hdeg2 _ H).
      apply Forall_app. split; [exact Htr|]. constructor; [|constructor].
      split; cbn [re_R re_i re_j]; assumption.
Qed.

(* ------------------------------------------------------------------ before the loop *)
Lemma tab_sym_on (f : mat Z) n :
  (forall x y, (x < n)%nat -> (y < n)%nat -> f x y = f y x) -> forall x y, tab 0 n n f x y = tab 0 n n f y x.
Proof.
  intros Hs x y. destruct (lt_dec x n) as [Hx|Hx]; destruct (lt_dec y n) as [Hy|Hy].
  - rewrite !tab_spec; auto.
  - rewrite !tab_out; auto; lia.
  - rewrite !tab_out; auto; lia.
  - rewrite !tab_out; auto; lia.
Qed.

Lemma tab_fill_off n f x y : (x < n)%nat -> (y < n)%nat -> x <> y -> tab 0 n n (fill_sent f) x y = f x y.
Proof. intros Hx Hy Hne. rewrite tab_spec by assumption. unfold fill_sent. destruct (Nat.eqb_spec x y); [contradiction|reflexivity]. Qed.

Lemma WM_tab_fill n f :
  (forall x y, (x < n)%nat -> (y < n)%nat -> f x y = f y x) ->
  (forall x y, (x < n)%nat -> (y < n)%nat -> x <> y -> f x y = 0 \/ f x y = 1) ->
  WM n (tab 0 n n (fill_sent f)).
Proof.
  intros Hs H01. constructor.
  - apply tab_sym_on. intros x y Hx Hy. unfold fill_sent. rewrite (Nat.eqb_sym y x).
    destruct (Nat.eqb x y); [reflexivity|apply Hs; assumption].
  - intros x y Hx Hy Hne. rewrite tab_fill_off by assumption. apply H01; assumption.
  - intros x Hx. rewrite tab_spec by assumption. unfold fill_sent. rewrite Nat.eqb_refl. reflexivity.
Qed.

Lemma bin01_01 R x y : bin01 R x y = 0 \/ bin01 R x y = 1.
Proof. unfold bin01. destruct (Z.eqb (R x y) 0); auto. Qed.
Lemma lnot_01 R x y : lnot R x y = 0 \/ lnot R x y = 1.
Proof. unfold lnot. destruct (Z.eqb (R x y) 0); auto. Qed.

(* the edge index the loop starts from *)
Lemma init_LI n R : WM n R ->
  LI n (length (triu_edges n R)) R (of_list O (map fst (triu_edges n R))) (of_list O (map snd (triu_edges n R))).
Proof.
  intros HW. pose proof HW as [Hsym H01 Hdiag].
  set (el := triu_edges n R).
  assert (Hcell: forall m, (of_list O (map fst el) m, of_list O (map snd el) m) = nth m el (O, O)).
  { intros m. unfold of_list. rewrite (nth_fst el m O O), (nth_snd el m O O). destruct (nth m el (O, O)); reflexivity. }
  assert (Hin: forall m, (m < length el)%nat ->
            (of_list O (map fst el) m < n)%nat /\ (of_list O (map snd el) m < n)%nat /\
            R (of_list O (map fst el) m) (of_list O (map snd el) m) = 1 /\
            (of_list O (map fst el) m < of_list O (map snd el) m)%nat).
  { intros m Hm. assert (I: In (of_list O (map fst el) m, of_list O (map snd el) m) el) by (rewrite Hcell; apply nth_In; exact Hm).
    unfold el, triu_edges in I. apply edge_list_In in I. destruct I as ([A B] & C & D).
    cbn [el_keep fst snd] in D. apply Nat.ltb_lt in D.
    split; [exact A|]. split; [exact B|]. split; [|exact D].
    destruct (H01 _ _ A B ltac:(lia)) as [E|E]; [contradiction|exact E]. }
  constructor.
  - exact HW.
  - intros m Hm. destruct (Hin m Hm) as (A & B & C & _). auto.
  - intros m m' Hm Hm' Hne. destruct (Hin m Hm) as (_ & _ & _ & L). destruct (Hin m' Hm') as (_ & _ & _ & L').
    split; [|lia]. intros [E1 E2]. apply Hne.
    apply (proj1 (NoDup_nth el (O, O)) (edge_list_NoDup ELtriu1 n R)); auto.
    rewrite <- !Hcell. congruence.
  - intros u v Hu Hv V.
    assert (Huv: u <> v) by (intros ->; rewrite Hdiag in V by exact Hv; exact (SENT_not1 V)).
    assert (Key: forall p q, (p < n)%nat -> (q < n)%nat -> R p q = 1 -> (p < q)%nat ->
              exists m, (m < length el)%nat /\ of_list O (map fst el) m = p /\ of_list O (map snd el) m = q).
    { intros p q Hp Hq W L.
      assert (I: In (p, q) el).
      { unfold el, triu_edges. apply edge_list_In. split; [auto|]. split; [rewrite W; discriminate|].
        cbn [el_keep fst snd]. apply Nat.ltb_lt. exact L. }
      destruct (In_nth el (p, q) (O, O) I) as (m & Hm & Em). exists m. split; [exact Hm|].
      specialize (Hcell m). rewrite Em in Hcell. inversion Hcell. auto. }
    destruct (lt_dec u v) as [L|L].
    + destruct (Key u v Hu Hv V L) as (m & Hm & E1 & E2). exists m. auto.
    + assert (V': R v u = 1) by (rewrite Hsym; exact V).
      destruct (Key v u Hv Hu V' ltac:(lia)) as (m & Hm & E1 & E2). exists m. auto.
Qed.

(* ---------- masking and unmasking the fully connected nodes ---------- *)
Definition mask_full (n : nat) (fl : list nat) (R2 : mat Z) : mat Z :=
  match fl with [] => R2 | _ => tab 0 n n (fill_sent (set_lines fl 0 R2)) end.
Definition unmask (fl : list nat) (R4 : mat Z) : mat Z :=
  match fl with [] => R4 | _ => set_lines fl 1 R4 end.

Lemma unmask_spec fl R x y : unmask fl R x y = if (nmem x fl || nmem y fl)%bool then 1 else R x y.
Proof. destruct fl; reflexivity. Qed.

Lemma mask_full_spec n fl R2 : WM n R2 ->
  WM n (mask_full n fl R2) /\
  (forall x y, (x < n)%nat -> (y < n)%nat -> x <> y ->
     mask_full n fl R2 x y = if (nmem x fl || nmem y fl)%bool then 0 else R2 x y).
Proof.
  intros HW. pose proof HW as [Hsym H01 Hdiag]. destruct fl as [|f0 fr].
  - split; [exact HW|]. intros; reflexivity.
  - cbn [mask_full]. split.
    + apply WM_tab_fill.
      * intros x y _ _. unfold set_lines. rewrite (orb_comm (nmem y _)). rewrite (Hsym y x). reflexivity.
      * intros x y Hx Hy Hne. unfold set_lines. destruct (nmem x _ || nmem y _)%bool; [left; reflexivity|apply H01; assumption].
    + intros x y Hx Hy Hne. rewrite tab_fill_off by assumption. reflexivity.
Qed.

Lemma fullnodes_In n R x : WM n R ->
  (In x (fullnodes n R) <-> (x < n)%nat /\ offdeg n R x = Z.of_nat n - 1).
Proof.
  intros HW. unfold fullnodes. rewrite filter_In, in_seq, Z.eqb_eq. split.
  - intros [A B]. split; [lia|]. rewrite <- wdeg_offdeg by (auto; lia). exact B.
  - intros [A B]. split; [lia|]. rewrite wdeg_offdeg by auto. exact B.
Qed.

Section Mask.
Variables (n : nat) (R2 R4 : mat Z).
Hypothesis HW2 : WM n R2.
Hypothesis HW4 : WM n R4.
Notation fl := (fullnodes n R2).
Notation R3 := (mask_full n (fullnodes n R2) R2).
Hypothesis Hdeg : forall x, (x < n)%nat -> offdeg n R4 x = offdeg n R3 x.

Definition nfull : Z := sumn (fun y => b2z (nmem y fl)) n.

Lemma full_adj x y : In x fl -> (y < n)%nat -> y <> x -> R2 x y = 1 /\ R2 y x = 1.
Proof.
  intros Hx Hy Hne. apply (fullnodes_In n R2 x HW2) in Hx. destruct Hx as [Hx E].
  pose proof (offdeg_full n R2 x y E Hx Hy Hne) as NZ.
  destruct (wm_01 n R2 HW2 x y Hx Hy (not_eq_sym Hne)) as [Z0|Z1]; [contradiction|].
  split; [exact Z1|]. rewrite (wm_sym n R2 HW2). exact Z1.
Qed.

Lemma R3_off x y : (x < n)%nat -> (y < n)%nat -> x <> y ->
  R3 x y = if (nmem x fl || nmem y fl)%bool then 0 else R2 x y.
Proof. apply (mask_full_spec n fl R2 HW2). Qed.

Lemma R3_deg_in x : (x < n)%nat -> In x fl -> offdeg n R3 x = 0.
Proof.
  intros Hx Hin. unfold offdeg. transitivity (sumn (fun _ => 0) n); [|apply sumn_zero]. apply sumn_ext. intros y Hy.
  destruct (Nat.eqb_spec y x); [reflexivity|]. rewrite R3_off by auto.
  apply nmem_In in Hin. rewrite Hin. reflexivity.
Qed.

Lemma R3_deg_out x : (x < n)%nat -> ~ In x fl -> offdeg n R2 x = offdeg n R3 x + nfull.
Proof.
  intros Hx Hnin. unfold offdeg, nfull. rewrite <- sumn_add. apply sumn_ext. intros y Hy.
  apply nmem_false in Hnin.
  destruct (Nat.eqb_spec y x) as [->|Hne]; [rewrite Hnin; reflexivity|].
  rewrite R3_off by auto. rewrite Hnin. cbn [orb].
  destruct (nmem y fl) eqn:Ey; cbn [b2z]; [|lia].
  apply nmem_In in Ey. destruct (full_adj y x Ey Hx (not_eq_sym Hne)) as [_ E]. rewrite E. reflexivity.
Qed.

Lemma R4_zero x y : In x fl -> (y < n)%nat -> y <> x -> R4 x y = 0 /\ R4 y x = 0.
Proof.
  intros Hin Hy Hne. assert (Hx: (x < n)%nat) by (apply (fullnodes_In n R2 x HW2) in Hin; tauto).
  assert (E: R4 x y = 0).
  { apply (offdeg_zero n R4 x y); auto. rewrite Hdeg by exact Hx. apply R3_deg_in; assumption. }
  split; [exact E|]. rewrite (wm_sym n R4 HW4). exact E.
Qed.

Lemma unmask_deg x : (x < n)%nat -> offdeg n (unmask fl R4) x = offdeg n R2 x.
Proof.
  intros Hx. destruct (in_dec Nat.eq_dec x fl) as [Hin|Hnin].
  - pose proof (proj1 (fullnodes_In n R2 x HW2) Hin) as [_ E]. rewrite E.
    rewrite <- (sumn_except n x Hx). unfold offdeg. apply sumn_ext. intros y Hy.
    destruct (Nat.eqb_spec y x); [reflexivity|]. rewrite unmask_spec.
    apply nmem_In in Hin. rewrite Hin. reflexivity.
  - rewrite (R3_deg_out x Hx Hnin). rewrite <- Hdeg by exact Hx.
    unfold offdeg, nfull. rewrite <- sumn_add. apply sumn_ext. intros y Hy.
    pose proof Hnin as Hf. apply nmem_false in Hf.
    destruct (Nat.eqb_spec y x) as [->|Hne]; [rewrite Hf; reflexivity|].
    rewrite unmask_spec, Hf. cbn [orb].
    destruct (nmem y fl) eqn:Ey; cbn [b2z]; [|lia].
    apply nmem_In in Ey. destruct (R4_zero y x Ey Hx (not_eq_sym Hne)) as [_ E]. rewrite E. reflexivity.
Qed.

Lemma unmask_sym x y : unmask fl R4 x y = unmask fl R4 y x.
Proof. rewrite !unmask_spec. rewrite (orb_comm (nmem y _)). rewrite (wm_sym n R4 HW4 y x). reflexivity. Qed.

Lemma unmask_01 x y : (x < n)%nat -> (y < n)%nat -> x <> y -> unmask fl R4 x y = 0 \/ unmask fl R4 x y = 1.
Proof.
  intros Hx Hy Hne. rewrite unmask_spec. destruct (nmem x _ || nmem y _)%bool; [right; reflexivity|].
  apply (wm_01 n R4 HW4); assumption.
Qed.
End Mask.

(* ------------------------------------------------------------------ the stages of the routine, named *)
Definition rbu_R1 (n : nat) (R0 : mat Z) : mat Z := tab 0 n n (fill_sent (bin01 R0)).
Definition rbu_swapped (n : nat) (R0 : mat Z) : bool :=
  Nat.ltb (n * n - n) (4 * length (triu_edges n (rbu_R1 n R0))).
Definition rbu_R2 (n : nat) (R0 : mat Z) : mat Z :=
  if rbu_swapped n R0 then tab 0 n n (fill_sent (lnot (rbu_R1 n R0))) else rbu_R1 n R0.
Definition rbu_fl (n : nat) (R0 : mat Z) : list nat := fullnodes n (rbu_R2 n R0).
(* the matrix the loop starts from, and the number of its connections *)
Definition rbu_R3 (n : nat) (R0 : mat Z) : mat Z := mask_full n (rbu_fl n R0) (rbu_R2 n R0).
Definition rbu_k (n : nat) (R0 : mat Z) : nat := length (triu_edges n (rbu_R3 n R0)).

Lemma rbu_unfold n R0 alpha s :
  randomizer_bin_und n R0 alpha s =
  if negb (symmetricb n (bin01 R0)) then RbuError else
  if (Nat.eqb (rbu_k n R0) 0 || Nat.leb ((n * n - n) - 2) (2 * rbu_k n R0))%bool then RbuError else
  match rbu_loop n (rbu_k n R0) alpha (seq 0 (rbu_k n R0)) (rbu_R3 n R0)
          (of_list O (map fst (triu_edges n (rbu_R3 n R0)))) (of_list O (map snd (triu_edges n (rbu_R3 n R0)))) s [] with
  | None => RbuStream
  | Some (R4, tr, s') =>
      RbuOk (fun x y => if Nat.eqb x y then bin01 R0 x x
                        else (if rbu_swapped n R0 then lnot (unmask (rbu_fl n R0) R4) else unmask (rbu_fl n R0) R4) x y)
            tr (length s')
  end.
Proof. reflexivity. Qed.

Lemma rbu_R1_WM n R0 : symmetricb n (bin01 R0) = true -> WM n (rbu_R1 n R0).
Proof.
  intros Hs. apply Proofs.Components.symmetricb_true in Hs. apply WM_tab_fill.
  - exact Hs.
  - intros x y _ _ _. apply bin01_01.
Qed.

Lemma rbu_R2_WM n R0 : symmetricb n (bin01 R0) = true -> WM n (rbu_R2 n R0).
Proof.
  intros Hs. pose proof (rbu_R1_WM n R0 Hs) as HW. unfold rbu_R2. destruct (rbu_swapped n R0); [|exact HW].
  apply WM_tab_fill.
  - intros x y _ _. unfold lnot. rewrite (wm_sym _ _ HW x y). reflexivity.
  - intros x y _ _ _. apply lnot_01.
Qed.

Lemma rbu_R3_WM n R0 : symmetricb n (bin01 R0) = true -> WM n (rbu_R3 n R0).
Proof. intros Hs. apply mask_full_spec. apply rbu_R2_WM. exact Hs. Qed.

Lemma rbu_R1_deg n R0 x : (x < n)%nat -> offdeg n (rbu_R1 n R0) x = offdeg n (bin01 R0) x.
Proof. intros Hx. apply offdeg_ext. intros y Hy Hne. unfold rbu_R1. apply tab_fill_off; auto. Qed.

(* the working matrix the loop starts from (before full nodes are masked) has the degrees of the input, or
   their complements when the routine works on the complement graph *)
Lemma rbu_R2_deg n R0 x : (x < n)%nat ->
  offdeg n (rbu_R2 n R0) x =
  if rbu_swapped n R0 then Z.of_nat n - 1 - offdeg n (bin01 R0) x else offdeg n (bin01 R0) x.
Proof.
  intros Hx. unfold rbu_R2. destruct (rbu_swapped n R0); [|apply rbu_R1_deg; exact Hx].
  rewrite <- rbu_R1_deg by exact Hx. rewrite <- (offdeg_lnot n (rbu_R1 n R0) x Hx).
  apply offdeg_ext. intros y Hy Hne. apply tab_fill_off; auto.
Qed.

(* ------------------------------------------------------------------ the whole routine *)
Theorem rbu_full : forall n R0 alpha s out tr lft,
  randomizer_bin_und n R0 alpha s = RbuOk out tr lft ->
  (* every node keeps its degree *)
  (forall x, (x < n)%nat -> offdeg n out x = offdeg n (bin01 R0) x) /\
  (* symmetric, binary, diagonal of the binarised input *)
  (forall x y, (x < n)%nat -> (y < n)%nat -> out x y = out y x) /\
  (forall x y, (x < n)%nat -> (y < n)%nat -> x <> y -> out x y = 0 \/ out x y = 1) /\
  (forall x, (x < n)%nat -> out x x = bin01 R0 x x) /\
  (* same number of connections *)
  sumn (offdeg n out) n = sumn (offdeg n (bin01 R0)) n /\
  (* the run only returns on a symmetric (binarised) input *)
  (forall x y, (x < n)%nat -> (y < n)%nat -> bin01 R0 x y = bin01 R0 y x) /\
  (* every recorded swap: the invariant, and the degrees of the matrix the loop started from *)
  Forall (EvI n (rbu_k n R0) (rbu_R3 n R0)) tr.
Proof.
  intros n R0 alpha s out tr lft H. rewrite rbu_unfold in H.
  destruct (symmetricb n (bin01 R0)) eqn:Hs; cbn [negb] in H; [|discriminate].
  destruct (Nat.eqb (rbu_k n R0) 0 || Nat.leb (n * n - n - 2) (2 * rbu_k n R0))%bool; [discriminate|].
  destruct (rbu_loop _ _ _ _ _ _ _ _ _) as [[[R4 tr4] s4]|] eqn:HL; [|discriminate].
  inversion H; subst out tr lft; clear H.
  pose proof (rbu_R2_WM n R0 Hs) as HW2. pose proof (rbu_R3_WM n R0 Hs) as HW3.
  assert (Hits: forall it, In it (seq 0 (rbu_k n R0)) -> (it < rbu_k n R0)%nat)
    by (intros it Hit; apply in_seq in Hit; lia).
  assert (Hd0: forall x, (x < n)%nat -> offdeg n (rbu_R3 n R0) x = offdeg n (rbu_R3 n R0) x) by reflexivity.
  destruct (rbu_loop_inv n (rbu_k n R0) alpha (rbu_R3 n R0) _ _ _ _ _ _ _ _ _
              Hits (init_LI n (rbu_R3 n R0) HW3) Hd0 (Forall_nil _) HL)
    as ((i4 & j4 & HLI4) & Hdeg4 & Htr4).
  pose proof (li_wm _ _ _ _ _ HLI4) as HW4.
  set (R5 := unmask (rbu_fl n R0) R4).
  assert (D5: forall x, (x < n)%nat -> offdeg n R5 x = offdeg n (rbu_R2 n R0) x).
  { intros x Hx. apply (unmask_deg n (rbu_R2 n R0) R4 HW2 HW4 Hdeg4 x Hx). }
  assert (S5: forall x y, R5 x y = R5 y x) by (apply (unmask_sym n (rbu_R2 n R0) R4 HW4)).
  assert (B5: forall x y, (x < n)%nat -> (y < n)%nat -> x <> y -> R5 x y = 0 \/ R5 x y = 1)
    by (apply (unmask_01 n (rbu_R2 n R0) R4 HW4)).
  set (R6 := if rbu_swapped n R0 then lnot R5 else R5).
  set (out := fun x y => if Nat.eqb x y then bin01 R0 x x else R6 x y).
  assert (Dout: forall x, (x < n)%nat -> offdeg n out x = offdeg n (bin01 R0) x).
  { intros x Hx. transitivity (offdeg n R6 x).
    - apply offdeg_ext. intros y Hy Hne. unfold out. destruct (Nat.eqb_spec x y); [congruence|reflexivity].
    - unfold R6. pose proof (rbu_R2_deg n R0 x Hx) as E2. pose proof (D5 x Hx) as E5.
      destruct (rbu_swapped n R0).
      + rewrite offdeg_lnot by exact Hx. lia.
      + lia. }
  split; [exact Dout|].
  split.
  { intros x y _ _. unfold out. rewrite (Nat.eqb_sym y x). destruct (Nat.eqb_spec x y) as [->|_]; [reflexivity|].
    unfold R6. destruct (rbu_swapped n R0); [unfold lnot; rewrite (S5 x y); reflexivity|apply S5]. }
  split.
  { intros x y Hx Hy Hne. unfold out. destruct (Nat.eqb_spec x y); [contradiction|].
    unfold R6. destruct (rbu_swapped n R0); [apply lnot_01|apply B5; assumption]. }
  split.
  { intros x _. unfold out. rewrite Nat.eqb_refl. reflexivity. }
  split.
  { apply sumn_ext. exact Dout. }
  split.
  { apply Proofs.Components.symmetricb_true. exact Hs. }
  exact Htr4.
Qed.

(* degrees of the matrix the loop starts from, in terms of the input: masked (fully connected) nodes have
   degree 0 there, every other node loses its connections to the masked nodes *)
Lemma rbu_R3_deg n R0 x : symmetricb n (bin01 R0) = true -> (x < n)%nat ->
  offdeg n (rbu_R3 n R0) x =
  if nmem x (rbu_fl n R0) then 0 else offdeg n (rbu_R2 n R0) x - nfull n (rbu_R2 n R0).
Proof.
  intros Hs Hx. pose proof (rbu_R2_WM n R0 Hs) as HW2. unfold rbu_R3, rbu_fl.
  destruct (nmem x (fullnodes n (rbu_R2 n R0))) eqn:E.
  - apply nmem_In in E. apply R3_deg_in; assumption.
  - apply nmem_false in E. rewrite (R3_deg_out n (rbu_R2 n R0) HW2 x Hx E). lia.
Qed.

Lemma rbu_start_degrees n R0 x : symmetricb n (bin01 R0) = true -> (x < n)%nat ->
  offdeg n (rbu_R2 n R0) x =
    (if rbu_swapped n R0 then Z.of_nat n - 1 - offdeg n (bin01 R0) x else offdeg n (bin01 R0) x) /\
  offdeg n (rbu_R3 n R0) x =
    (if nmem x (rbu_fl n R0) then 0 else offdeg n (rbu_R2 n R0) x - nfull n (rbu_R2 n R0)).
Proof. intros Hs Hx. split; [apply rbu_R2_deg; exact Hx|apply rbu_R3_deg; assumption]. Qed.

(* ------------------------------------------------------------------ the theorem is not vacuous *)
(* two disjoint edges on 4 nodes: one swap (0-1, 2-3 -> 0-2, 1-3), second edge skipped *)
Example rbu_full_nonvacuous_sparse :
  match randomizer_bin_und 4 (of_rows 0 [[0;3;0;0];[3;0;0;0];[0;0;0;1];[0;0;1;0]]) 1
          [DFlt 0; DInt 0; DFlt (3 # 4); DFlt 2] with
  | RbuOk out tr lft => (to_rows 4 4 out, length tr, lft)
  | _ => ([], O, O)
  end = ([[0;0;1;0];[0;0;0;1];[1;0;0;0];[0;1;0;0]], 1%nat, 0%nat).
Proof. vm_compute. reflexivity. Qed.

(* 6 nodes, K5 minus {0-1, 2-3} plus the isolated node 5, a self-loop on node 4: the routine works on the
   complement (rbu_swapped), masks the fully connected node 5 there (rbu_fl = [5]), swaps once, skips the
   second edge, and restores everything *)
Example rbu_full_nonvacuous_dense :
  let R0 := of_rows 0 [[0;0;1;1;1;0];[0;0;1;1;1;0];[1;1;0;0;1;0];[1;1;0;0;1;0];[1;1;1;1;7;0];[0;0;0;0;0;0]] in
  (rbu_swapped 6 R0, rbu_fl 6 R0,
   match randomizer_bin_und 6 R0 1 [DFlt 0; DInt 1; DFlt 0; DFlt 2] with
   | RbuOk out tr lft => (to_rows 6 6 out, length tr, lft)
   | _ => ([], O, O)
   end) =
  (true, [5%nat],
   ([[0;1;0;1;1;0];[1;0;1;0;1;0];[0;1;0;1;1;0];[1;0;1;0;1;0];[1;1;1;1;1;0];[0;0;0;0;0;0]], 1%nat, 0%nat)).
Proof. vm_compute. reflexivity. Qed.
