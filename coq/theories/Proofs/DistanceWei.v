(* Proofs/DistanceWei.v — FULL correctness of the distance_wei model (Dijkstra as written: permanent set S,
   simultaneous relaxation of all nodes at the current minimum, hop vector B), for non-negative entries.
   Invariant at the head of the while loop:  soundness (rowinv) + every permanent node and every node about
   to become permanent is optimal + every edge out of a permanent node is relaxed ("edge-closed"). *)
From Coq Require Import QArith List Arith Bool ZArith Lia Lqa.
From BCT Require Import Base.Mat Base.ListX Model.Distance Proofs.DistanceBase Proofs.DistanceFloyd
  Proofs.DistanceBin Proofs.DistanceOther.
Import ListNotations.
Open Scope Q_scope.

Lemma wl_nonneg n L : nonneg n L -> forall mid i j y, (i < n)%nat -> (j < n)%nat -> below n mid ->
  wl L i mid j = Some y -> 0 <= y.
Proof.
  intros Hnn mid. induction mid as [|m r IH]; intros i j y Hi Hj B; cbn [wl].
  - apply Hnn; assumption.
  - apply below_cons in B. destruct B as [Hm B]. intros H.
    destruct (L i m) as [a|] eqn:Ea; [|discriminate]. destruct (wl L m r j) as [b|] eqn:Eb; [|discriminate].
    cbn in H. injection H as <-. pose proof (Hnn i m a Hi Hm Ea). pose proof (IH m j b Hm Hj B Eb). lra.
Qed.

Lemma fold_omin_le l : forall a, ole (fold_left omin l a) a /\ forall x, In x l -> ole (fold_left omin l a) x.
Proof.
  induction l as [|b l IH]; intros a; cbn [fold_left].
  - split; [apply ole_refl|]. intros x [].
  - destruct (IH (omin a b)) as [H1 H2]. split.
    + eapply ole_trans; [exact H1|apply omin_le_l].
    + intros x [<-|Hx]; [eapply ole_trans; [exact H1|apply omin_le_r]|apply H2; exact Hx].
Qed.

Section DijkstraFull.
Variable n : nat.
Variable G : mat Q.
Variable u : nat.
Hypothesis Hu : (u < n)%nat.
Hypothesis Hpos : forall i j, (i < n)%nat -> (j < n)%nat -> 0 <= G i j.
Let L := Lg G.

Lemma Lg_nonneg : nonneg n L.
Proof.
  intros i j x Hi Hj. unfold L, Lg. destruct (Qeq_bool (G i j) 0); [discriminate|].
  intros H. injection H as <-. apply Hpos; assumption.
Qed.

(* D w is a lower bound of every walk u -> w (so None only if there is none) *)
Definition opt (D : vec len) (w : nat) : Prop :=
  forall mid y, below n mid -> wl L u mid w = Some y -> ole (D w) (Some y).
(* every edge out of a permanent node has been relaxed *)
Definition ecl (S : vec bool) (D : vec len) : Prop :=
  forall p w, (p < n)%nat -> (w < n)%nat -> S p = false -> ole (D w) (oadd (D p) (L p w)).

(* a walk from a permanent node to a temporary node crosses the frontier: some temporary node carries a label
   not larger than the walk *)
Lemma first_exit S D : ecl S D -> forall mid p w dp y, (p < n)%nat -> (w < n)%nat -> below n mid ->
  S p = false -> D p = Some dp -> S w = true -> wl L p mid w = Some y ->
  exists z, (z < n)%nat /\ S z = true /\ ole (D z) (Some (dp + y)).
Proof.
  intros He mid. induction mid as [|m r IH]; intros p w dp y Hp Hw B HSp HDp HSw; cbn [wl].
  - intros HL. exists w. split; [exact Hw|]. split; [exact HSw|].
    pose proof (He p w Hp Hw HSp) as E. rewrite HDp, HL in E. exact E.
  - apply below_cons in B. destruct B as [Hm B]. intros H.
    destruct (L p m) as [a|] eqn:Ea; [|discriminate]. destruct (wl L m r w) as [b|] eqn:Eb; [|discriminate].
    cbn in H. injection H as <-.
    pose proof (wl_nonneg n L Lg_nonneg r m w b Hm Hw B Eb) as Nb.
    pose proof (He p m Hp Hm HSp) as E. rewrite HDp, Ea in E. cbn [oadd] in E.
    destruct (S m) eqn:ESm.
    + exists m. split; [exact Hm|]. split; [exact ESm|]. destruct (D m) as [dm|]; cbn in *; [lra|contradiction].
    + destruct (D m) as [dm|] eqn:EDm; [|cbn in E; contradiction]. cbn in E.
      destruct (IH m w dm b Hm Hw B ESm EDm HSw Eb) as [z [Hz [HSz Hle]]].
      exists z. split; [exact Hz|]. split; [exact HSz|]. destruct (D z) as [dz|]; cbn in *; [lra|contradiction].
Qed.

(* ---------- one relaxation, then the fold over V ---------- *)
Lemma relax_fst S DB v w : (w < n)%nat ->
  fst (dw_relax n G S DB v) w =
  if (S w && negb (Qeq_bool (G v w) 0) && oltb (oadd (fst DB v) (Some (G v w))) (fst DB w))%bool
  then oadd (fst DB v) (Some (G v w)) else fst DB w.
Proof. intros Hw. unfold dw_relax. cbv zeta. cbn [fst]. rewrite tabv_spec by exact Hw. reflexivity. Qed.

Lemma relax_le S DB v w : (w < n)%nat -> ole (fst (dw_relax n G S DB v) w) (fst DB w).
Proof.
  intros Hw. rewrite relax_fst by exact Hw.
  destruct (S w && negb (Qeq_bool (G v w) 0))%bool; cbn [andb]; [|apply ole_refl].
  destruct (oltb _ _) eqn:E; [|apply ole_refl]. apply oltb_true in E.
  destruct (oadd (fst DB v) (Some (G v w))), (fst DB w); cbn in *; try tauto; lra.
Qed.

Lemma relax_perm S DB v w : (w < n)%nat -> S w = false -> fst (dw_relax n G S DB v) w = fst DB w.
Proof. intros Hw HS. rewrite relax_fst by exact Hw. rewrite HS. reflexivity. Qed.

Lemma relax_edge S DB v w : (w < n)%nat -> S w = true ->
  ole (fst (dw_relax n G S DB v) w) (oadd (fst DB v) (L v w)).
Proof.
  intros Hw HS. rewrite relax_fst by exact Hw. rewrite HS. cbn [andb]. unfold L, Lg.
  destruct (Qeq_bool (G v w) 0); cbn [negb andb].
  - rewrite oadd_None_r. destruct (fst DB w); exact Logic.I.
  - destruct (oltb _ _) eqn:E; [apply ole_refl|]. apply oltb_false in E. exact E.
Qed.

Lemma fold_le S V : forall DB w, (w < n)%nat -> ole (fst (fold_left (dw_relax n G S) V DB) w) (fst DB w).
Proof.
  induction V as [|v r IH]; intros DB w Hw; cbn [fold_left]; [apply ole_refl|].
  eapply ole_trans; [apply IH; exact Hw|apply relax_le; exact Hw].
Qed.

Lemma fold_perm S V : forall DB w, (w < n)%nat -> S w = false ->
  fst (fold_left (dw_relax n G S) V DB) w = fst DB w.
Proof.
  induction V as [|v r IH]; intros DB w Hw HS; cbn [fold_left]; [reflexivity|].
  rewrite IH by assumption. apply relax_perm; assumption.
Qed.

Lemma fold_edge S V : forall DB v w, In v V -> (v < n)%nat -> S v = false -> (w < n)%nat -> S w = true ->
  ole (fst (fold_left (dw_relax n G S) V DB) w) (oadd (fst DB v) (L v w)).
Proof.
  induction V as [|a r IH]; intros DB v w Hin Hv HSv Hw HSw; [destruct Hin|]. cbn [fold_left].
  destruct Hin as [->|Hin].
  - eapply ole_trans; [apply fold_le; exact Hw|]. apply relax_edge; assumption.
  - rewrite <- (relax_perm S DB a v Hv HSv). apply IH; assumption.
Qed.

(* ---------- the loop invariant ---------- *)
Record dwinv (S : vec bool) (DB : vec len * vec nat) (V : list nat) : Prop := {
  dwi_row : rowinv n G u DB;
  dwi_V : forall v, In v V -> (v < n)%nat /\ opt (fst DB) v;
  dwi_perm : forall w, (w < n)%nat -> S w = false -> opt (fst DB) w;
  dwi_ecl : ecl S (fst DB);
  dwi_u : S u = false \/ In u V
}.

(* state after `S[V]=0` and the relaxations of this round *)
Record dwpost (S1 : vec bool) (DB1 : vec len * vec nat) : Prop := {
  dwp_row : rowinv n G u DB1;
  dwp_perm : forall w, (w < n)%nat -> S1 w = false -> opt (fst DB1) w;
  dwp_ecl : ecl S1 (fst DB1);
  dwp_u : S1 u = false
}.

Lemma opt_ext D D' w : D' w = D w -> opt D w -> opt D' w.
Proof. intros E H mid y B W. rewrite E. apply (H mid y B W). Qed.

Lemma dw_round S DB V : dwinv S DB V ->
  let S1 := tabv false n (fun w => (S w && negb (nmem w V))%bool) in
  dwpost S1 (fold_left (dw_relax n G S1) V DB).
Proof.
  intros I S1. set (DB1 := fold_left (dw_relax n G S1) V DB).
  assert (HV : Forall (fun v => (v < n)%nat) V).
  { apply Forall_forall. intros v Hv. apply (dwi_V _ _ _ I v Hv). }
  assert (HS1 : forall w, (w < n)%nat -> S1 w = false -> S w = false \/ In w V).
  { intros w Hw. unfold S1. rewrite tabv_spec by exact Hw. intros H. apply andb_false_iff in H.
    destruct H as [H|H]; [left; exact H|right]. apply negb_false_iff in H. apply nmem_In. exact H. }
  assert (HS1' : forall w, (w < n)%nat -> (S w = false \/ In w V) -> S1 w = false).
  { intros w Hw H. unfold S1. rewrite tabv_spec by exact Hw. destruct H as [->|H]; [reflexivity|].
    apply nmem_In in H. rewrite H. apply andb_false_r. }
  assert (HS1t : forall w, (w < n)%nat -> S1 w = true -> S w = true).
  { intros w Hw. unfold S1. rewrite tabv_spec by exact Hw. intros H. apply andb_true_iff in H. tauto. }
  assert (Hu1 : S1 u = false) by (apply HS1'; [exact Hu|exact (dwi_u _ _ _ I)]).
  assert (Hopt : forall w, (w < n)%nat -> S1 w = false -> opt (fst DB) w).
  { intros w Hw H. destruct (HS1 w Hw H) as [H0|H0]; [apply (dwi_perm _ _ _ I w Hw H0)|apply (dwi_V _ _ _ I w H0)]. }
  assert (Hrow1 : rowinv n G u DB1) by (apply relax_fold; [exact Hu|exact (dwi_row _ _ _ I)|exact Hu1|exact HV]).
  constructor.
  - exact Hrow1.
  - intros w Hw H. apply (opt_ext (fst DB)); [apply fold_perm; assumption|apply Hopt; assumption].
  - intros p w Hp Hw HSp. unfold DB1. rewrite (fold_perm S1 V DB p Hp HSp).
    destruct (S1 w) eqn:ESw.
    + (* w still temporary *)
      destruct (HS1 p Hp HSp) as [H0|H0].
      * eapply ole_trans; [apply fold_le; exact Hw|]. apply (dwi_ecl _ _ _ I p w Hp Hw H0).
      * apply fold_edge; assumption.
    + (* w permanent: it is optimal and p's label is the length of a real walk *)
      rewrite (fold_perm S1 V DB w Hw ESw).
      pose proof (Hopt w Hw ESw) as Ow.
      destruct (fst DB p) as [dp|] eqn:Edp; [|destruct (fst DB w); exact Logic.I].
      destruct (L p w) as [a|] eqn:Ea; [|destruct (fst DB w); exact Logic.I]. cbn [oadd].
      destruct (dwi_row _ _ _ I) as [_ [_ Hwk]].
      destruct (Hwk p dp Hp Edp) as [[-> [E0 _]]|[mid [Bm [_ Wm]]]].
      * specialize (Ow [] a (below_nil n) Ea). destruct (fst DB w); cbn in *; [lra|contradiction].
      * pose proof (wl_snoc_oeq L u mid p w) as Hs. fold L in Wm. rewrite Ea in Hs.
        destruct (wl L u mid p) as [y|]; [|cbn in Wm; contradiction]. cbn in Wm. cbn [oadd] in Hs.
        destruct (wl L u (mid ++ [p]) w) as [z|] eqn:Ez; [|cbn in Hs; contradiction]. cbn in Hs.
        assert (Bz : below n (mid ++ [p])) by (apply below_app; split; [exact Bm|apply below_cons; split; [exact Hp|apply below_nil]]).
        specialize (Ow (mid ++ [p]) z Bz Ez). destruct (fst DB w); cbn in *; [lra|contradiction].
  - exact Hu1.
Qed.

Lemma dw_loop_full fuel : forall S DB V R, dwinv S DB V ->
  dw_loop fuel n G S DB V = Some R -> rowinv n G u R /\ forall w, (w < n)%nat -> opt (fst R) w.
Proof.
  induction fuel as [|f IH]; intros S DB V R I Hrun; [discriminate|].
  cbn [dw_loop] in Hrun.
  pose proof (dw_round S DB V I) as P. cbv zeta in P.
  set (S1 := tabv false n (fun w => (S w && negb (nmem w V))%bool)) in *.
  set (DB1 := fold_left (dw_relax n G S1) V DB) in *.
  assert (HD1u : fst DB1 u = Some 0) by (destruct (dwp_row _ _ P) as [H _]; exact H).
  destruct (filter S1 (seq 0 n)) as [|t ts] eqn:Et.
  - (* all nodes permanent *)
    injection Hrun as <-. split; [exact (dwp_row _ _ P)|]. intros w Hw. apply (dwp_perm _ _ P w Hw).
    destruct (S1 w) eqn:E; [|reflexivity]. exfalso.
    assert (In w (filter S1 (seq 0 n))) by (apply filter_In; split; [apply in_seq; lia|exact E]).
    rewrite Et in H. destruct H.
  - assert (Htemp : forall z, (z < n)%nat -> S1 z = true -> In (fst DB1 z) (map (fst DB1) (t :: ts))).
    { intros z Hz HSz. apply in_map. rewrite <- Et. apply filter_In. split; [apply in_seq; lia|exact HSz]. }
    destruct (fold_omin_le (map (fst DB1) (t :: ts)) None) as [_ Hmin].
    destruct (fold_left omin (map (fst DB1) (t :: ts)) None) as [m|] eqn:Em.
    + (* next round with V' = all nodes at the minimum *)
      refine (IH S1 DB1 _ R _ Hrun). constructor.
      * exact (dwp_row _ _ P).
      * intros v Hv. apply filter_In in Hv. destruct Hv as [Hv Hm]. apply in_seq in Hv.
        assert (Hvn : (v < n)%nat) by lia. split; [exact Hvn|].
        destruct (S1 v) eqn:ESv; [|apply (dwp_perm _ _ P v Hvn ESv)].
        intros mid y B W.
        destruct (first_exit S1 (fst DB1) (dwp_ecl _ _ P) mid u v 0 y Hu Hvn B (dwp_u _ _ P) HD1u ESv W)
          as [z [Hz [HSz Hle]]].
        pose proof (Hmin _ (Htemp z Hz HSz)) as Hmz.
        destruct (fst DB1 v) as [x|]; cbn [oeqb] in Hm; [|discriminate]. apply Qeq_bool_iff in Hm.
        destruct (fst DB1 z) as [dz|]; cbn in *; [lra|contradiction].
      * exact (dwp_perm _ _ P).
      * exact (dwp_ecl _ _ P).
      * left. exact (dwp_u _ _ P).
    + (* every temporary label is infinite: those nodes are unreachable *)
      injection Hrun as <-. split; [exact (dwp_row _ _ P)|]. intros w Hw.
      destruct (S1 w) eqn:ESw; [|apply (dwp_perm _ _ P w Hw ESw)].
      intros mid y B W. exfalso.
      destruct (first_exit S1 (fst DB1) (dwp_ecl _ _ P) mid u w 0 y Hu Hw B (dwp_u _ _ P) HD1u ESw W)
        as [z [Hz [HSz Hle]]].
      pose proof (Hmin _ (Htemp z Hz HSz)) as Hmz.
      destruct (fst DB1 z); cbn in *; contradiction.
Qed.

Lemma dw_row_full R : dw_row n G u = Some R -> rowinv n G u R /\ forall w, (w < n)%nat -> opt (fst R) w.
Proof.
  unfold dw_row. apply dw_loop_full. constructor.
  - split; [apply vupd_same|]. split; [reflexivity|]. intros w x Hw. cbn [fst snd].
    unfold vupd. destruct (Nat.eqb_spec w u); [|discriminate]. intros H. injection H as <-.
    left. split; [assumption|]. split; reflexivity.
  - intros v [<-|[]]. split; [exact Hu|]. intros mid y B W. cbn [fst]. rewrite vupd_same. cbn.
    apply (wl_nonneg n L Lg_nonneg mid u u y Hu Hu B W).
  - intros w _ H. discriminate.
  - intros p w _ _ H. discriminate.
  - right. left. reflexivity.
Qed.
End DijkstraFull.

(* ---------- the returned matrices ---------- *)
(* for non-negative entries (0 = no connection): D[i,j] is the minimum total length over all walks i -> j,
   infinite exactly when there is none, and B[i,j] is the number of edges of a walk of that minimum length *)
Theorem distance_wei_correct n G D B :
  (forall i j, (i < n)%nat -> (j < n)%nat -> 0 <= G i j) ->
  distance_wei n G = Some (D, B) ->
  dist_correct n (Lg G) D /\
  (forall i j x, (i < n)%nat -> (j < n)%nat -> i <> j -> D i j = Some x ->
     exists mid, below n mid /\ S (length mid) = B i j /\ oeq (wl (Lg G) i mid j) (Some x)) /\
  (forall i j, (i < n)%nat -> (j < n)%nat -> i <> j -> (D i j <> None <-> reachable n (Lg G) i j)).
Proof.
  intros Hpos Hrun.
  assert (Hd : dist_correct n (Lg G) D).
  { revert Hrun. unfold distance_wei.
    destruct (all_some (map (dw_row n G) (seq 0 n))) as [rows|] eqn:Er; [|discriminate].
    intros H. injection H as <- <-. intros i j Hi Hj Hne.
    pose proof (all_some_nth (dw_row n G) n rows (fun _ => None, fun _ => 0%nat) Er i Hi) as Hrow.
    destruct (dw_row_full n G i Hi Hpos _ Hrow) as [[_ [_ Hw]] Hopt].
    specialize (Hopt j Hj). unfold opt in Hopt. cbv beta.
    destruct (fst (nth i rows (fun _ => None, fun _ => 0%nat)) j) as [x|] eqn:Ex; cbn [is_min_dist].
    - split.
      + destruct (Hw j x Hj Ex) as [[E _]|[mid [Bm [_ W]]]]; [congruence|].
        exists mid. split; [exact Bm|]. destruct (wl (Lg G) i mid j) as [y|]; [|cbn in W; contradiction].
        exists y. split; [reflexivity|exact W].
      + intros mid y Bm W. exact (Hopt mid y Bm W).
    - intros mid Bm. destruct (wl (Lg G) i mid j) as [y|] eqn:W; [|reflexivity].
      exfalso. exact (Hopt mid y Bm W). }
  split; [exact Hd|]. split; [exact (distance_wei_partial n G D B Hrun)|].
  intros i j Hi Hj Hne. specialize (Hd i j Hi Hj Hne).
  destruct (D i j) as [x|]; cbn [is_min_dist] in Hd.
  - split; [intros _|congruence]. destruct Hd as [[mid [Bm [y [W _]]]] _]. exists mid. split; [exact Bm|congruence].
  - split; [congruence|]. intros [mid [Bm W]]. specialize (Hd mid Bm). contradiction.
Qed.

(* distance_wei and distance_wei_floyd return the same distances (both are THE minimum) *)
Theorem agree_wei_floyd n G D B :
  (forall i j, (i < n)%nat -> (j < n)%nat -> 0 <= G i j) ->
  distance_wei n G = Some (D, B) ->
  forall i j, (i < n)%nat -> (j < n)%nat -> i <> j -> oeq (spl (floyd n (Lg G)) i j) (D i j).
Proof.
  intros Hpos Hrun. apply agree_any.
  - exact (Lg_nonneg n G Hpos).
  - exact (proj1 (distance_wei_correct n G D B Hpos Hrun)).
Qed.

(* efficiency_wei: mean inverse of the TRUE shortest-path lengths over the lengths 1/w *)
Theorem efficiency_wei_correct n W e : (2 <= n)%nat ->
  (forall i j, (i < n)%nat -> (j < n)%nat -> 0 <= W i j) ->
  efficiency_wei n W = Some e ->
  exists D B, distance_wei n (invertQ W) = Some (D, B) /\ dist_correct n (Lg (invertQ W)) D /\
    e = EFin (meanQ (map (fun c => oinv (D (fst c) (snd c))) (offdiag n))).
Proof.
  intros Hn HW He. destruct (efficiency_wei_mean_inverse n W e Hn He) as [D [B [Hrun Hm]]].
  exists D, B. split; [exact Hrun|]. split; [|exact Hm].
  apply (distance_wei_correct n (invertQ W) D B); [|exact Hrun].
  intros i j Hi Hj. unfold invertQ. destruct (Qeq_bool (W i j) 0) eqn:E; [apply HW; assumption|].
  apply Qeq_bool_neq in E. specialize (HW i j Hi Hj).
  assert (0 < W i j) by (destruct (Qlt_le_dec 0 (W i j)); [assumption|exfalso; apply E; lra]).
  unfold Qdiv. rewrite Qmult_1_l. apply Qlt_le_weak. apply Qinv_lt_0_compat. assumption.
Qed.
