(* Proofs/PartitionGWB.v — gateway_coef_sign with the centrality vector as an oracle (Model/PartitionGWB.v):
   the 'degree' instance is the model of Model/PartitionDG.v; with centrality_type='betweenness' the routine is NOT a
   function of the partition either (same root cause: kj[i] /= 2 on the row whose index is the module number,
   cent[neighbs] indexed by position inside the module). *)
From Coq Require Import QArith Lia Arith List Bool ZArith.
From BCT Require Import Base.Mat Base.SumQ Base.ListX Model.Partition Model.PartitionDG Model.PartitionGWB
  Proofs.Partition Proofs.PartitionDG.
Import ListNotations.
Open Scope Q_scope.

(* cent = s.copy(): the oracle version is the 'degree' model *)
Theorem gcoef_c_degree n W c K : gcoef_c n W c K (tabv 0 n (gw_s n W)) = gcoef n W c K.
Proof. reflexivity. Qed.

(* witness (audit of C14): a 4-cycle with weights 1,3,1,2; betweenness_wei(invert(W)) = [0, 2, 2, 0] (checked against the
   implementation on every run of the harness), blocks {0,1},{2,3} numbered (1,2) or (2,1) *)
Definition gwb_witness_W : mat Q := of_rows 0 [[0; 1; 0; 2]; [1; 0; 3; 0]; [0; 3; 0; 1]; [2; 0; 1; 0]]%list.
Definition gwb_witness_cent : vec Q := of_list 0 [0; 2; 2; 0]%list.
Definition gwb_witness_ci : vec Z := of_list 0%Z [1; 1; 2; 2]%Z.
Definition gwb_witness_ci' : vec Z := of_list 0%Z [2; 2; 1; 1]%Z.

Lemma gwb_witness_same_part : same_part 4 gwb_witness_ci gwb_witness_ci'.
Proof.
  intros i j Hi Hj. unfold gwb_witness_ci, gwb_witness_ci', of_list.
  destruct i as [|[|[|[|i]]]]; try lia; destruct j as [|[|[|[|j]]]]; try lia; cbn [nth];
    split; intros E; first [reflexivity|discriminate E].
Qed.

Lemma gwb_witness_values :
  run_gwb [[0; 1; 0; 2]; [1; 0; 3; 0]; [0; 3; 0; 1]; [2; 0; 1; 0]]%list [1; 1; 2; 2]%Z [0; 2; 2; 0]%list [0; 0; 0; 0]%list
    = Some ([380 # 441; 3 # 8; 151 # 196; 4 # 9], [0; 0; 0; 0])%list /\
  run_gwb [[0; 1; 0; 2]; [1; 0; 3; 0]; [0; 3; 0; 1]; [2; 0; 1; 0]]%list [2; 2; 1; 1]%Z [0; 2; 2; 0]%list [0; 0; 0; 0]%list
    = Some ([305 # 441; 3 # 8; 375 # 392; 4 # 9], [0; 0; 0; 0])%list.
Proof. split; vm_compute; reflexivity. Qed.

Theorem gateway_coef_sign_betw_refuted :
  exists n W ci ci' centp centn, same_part n ci ci' /\
    ~ gw_agree n (gateway_coef_sign_betw n W ci centp centn) (gateway_coef_sign_betw n W ci' centp centn).
Proof.
  exists 4%nat, gwb_witness_W, gwb_witness_ci, gwb_witness_ci', gwb_witness_cent, (fun _ => 0).
  split; [exact gwb_witness_same_part|]. intros H.
  assert (E1 : gw_raises 4 (relabel 4 gwb_witness_ci) (vmax 4 (relabel 4 gwb_witness_ci)) = false) by (vm_compute; reflexivity).
  assert (E2 : gw_raises 4 (relabel 4 gwb_witness_ci') (vmax 4 (relabel 4 gwb_witness_ci')) = false) by (vm_compute; reflexivity).
  unfold gw_agree, gateway_coef_sign_betw in H. cbv zeta in H. rewrite E1, E2 in H.
  destruct (H 0%nat ltac:(lia)) as [H0 _]. cbn [fst] in H0. vm_compute in H0. discriminate H0.
Qed.
