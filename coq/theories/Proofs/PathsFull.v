(* Proofs/PathsFull.v — C12 clauses that used to hold "by construction" or were only tested:
   failed navigations are infinite in ALL THREE reported lengths (and exactly the navigations that do not end at
   the target fail); navigation_wu returns exactly one result per ordered pair of distinct nodes, in row-major
   order; with a finite max_hops the loop always terminates (fuel max_hops + 2 suffices);
   retrieve_shortest_path from a node to itself is empty. *)
From Coq Require Import QArith List Arith Bool ZArith Lia Lqa.
From BCT Require Import Base.Mat Base.ListX Model.Distance Model.Paths
  Proofs.DistanceBase Proofs.DistanceFloyd Proofs.DistanceOther Proofs.Paths.
Import ListNotations.
Open Scope Q_scope.

Theorem nav_fail_all_inf n L D mh fuel i j r : (i < n)%nat -> nav_pair fuel n L D mh i j = Some r ->
  (nv_bin r = None <-> nv_wei r = None) /\ (nv_bin r = None <-> nv_dis r = None) /\
  (nv_bin r = None <-> last (nv_path r) i <> j).
Proof.
  intros Hi Hrun. destruct (nav_walk_valid n L D mh fuel i j r Hi Hrun) as [_ [_ [_ [_ H]]]].
  destruct (nv_bin r) as [b|], (nv_wei r) as [w|], (nv_dis r) as [d|]; try contradiction.
  - destruct H as [Hl _]. repeat split; try discriminate; intros; congruence.
  - repeat split; auto.
Qed.

Lemma all_some_map {A T} (f : A -> option T) l rs : all_some (map f l) = Some rs -> map f l = map Some rs.
Proof.
  revert rs. induction l as [|a l IH]; intros rs H; cbn [map all_some] in H.
  - injection H as <-. reflexivity.
  - destruct (f a) as [x|] eqn:Ea; [|discriminate].
    destruct (all_some (map f l)) as [rs'|] eqn:Er; [|discriminate]. injection H as <-.
    cbn [map]. rewrite Ea, (IH rs' eq_refl). reflexivity.
Qed.

(* the result list is, position by position, the navigation of the k-th ordered pair of distinct nodes in row-major
   order ([offdiag n] enumerates every such pair exactly once: C03_offdiag_pairs) *)
Theorem nav_one_per_pair fuel n L D mh sr rs : navigation_wu fuel n L D mh = Some (sr, rs) ->
  map (fun c => nav_pair fuel n L D mh (fst c) (snd c)) (offdiag n) = map Some rs.
Proof.
  unfold navigation_wu. destruct (all_some _) as [rs'|] eqn:Er; [|discriminate].
  intros H. injection H as _ <-. apply all_some_map. exact Er.
Qed.

(* finite max_hops: pl_bin grows by one per step and the step is refused once pl_bin > max_hops *)
Lemma nav_loop_total n L D m fuel : forall target curr lst path pb pw pd,
  (pb <= m + 1)%nat -> (m + 2 <= fuel + pb)%nat ->
  exists r, nav_loop fuel n L D (Some m) target curr lst path pb pw pd = Some r.
Proof.
  induction fuel as [|f IH]; intros target curr lst path pb pw pd Hpb Hf; [lia|].
  cbn [nav_loop]. destruct (Nat.eqb curr target); [eexists; reflexivity|].
  destruct (neighbors n L curr) as [|v0 rr]; [eexists; reflexivity|].
  destruct (Nat.ltb_spec m pb) as [Hlt|Hge].
  - rewrite orb_true_r. eexists; reflexivity.
  - rewrite orb_false_r. destruct (Nat.eqb _ lst); [eexists; reflexivity|].
    apply IH; lia.
Qed.

Theorem nav_pair_total n L D m fuel i j : (m + 2 <= fuel)%nat ->
  exists r, nav_pair fuel n L D (Some m) i j = Some r.
Proof. intros Hf. unfold nav_pair. apply nav_loop_total; lia. Qed.

Theorem navigation_wu_total n L D m fuel : (m + 2 <= fuel)%nat ->
  exists res, navigation_wu fuel n L D (Some m) = Some res.
Proof.
  intros Hf. unfold navigation_wu.
  assert (H : exists rs, all_some (map (fun c => nav_pair fuel n L D (Some m) (fst c) (snd c)) (offdiag n)) = Some rs).
  { generalize (offdiag n). induction l as [|c l IH]; cbn [map all_some]; [eexists; reflexivity|].
    destruct (nav_pair_total n L D m fuel (fst c) (snd c) Hf) as [r ->]. destruct IH as [rs ->]. eexists; reflexivity. }
  destruct H as [rs ->]. eexists; reflexivity.
Qed.

(* source = target: hops[s,s] = 0, the returned path is empty *)
Theorem retrieve_diag n L s : retrieve s s (hops (floyd n L)) (pmat (floyd n L)) = [].
Proof.
  unfold retrieve. destruct (floyd_diag_zero n L s) as [_ [H _]].
  change (hops (floyd n L) s s = 0%nat) in H. rewrite H. reflexivity.
Qed.
