(* Proofs/LinearSpectralFull.v — C18, eigenvector_centrality_und: abs(vecs[:, argmax(vals)]) is a non-negative
   eigenvector for the same eigenvalue and of the same norm — FULL (the former `eigvec_abs_ok_partial` of
   Proofs/LinearSpectral.v ASSUMED "only eigenvectors attain the top of the Rayleigh quotient"; that is PROVED here).

   What eigh is asked for, and nothing more, is assumed of its output (lam, u):
     A u = lam u                                   (an eigenpair)
     forall x, x^T A x <= lam x^T x                (lam is the LARGEST eigenvalue of the symmetric matrix A: the top of the
                                                    Rayleigh quotient - what `argmax(vals)` selects)
   and of the input: A symmetric (the routine is `_und`) and entrywise non-negative.

   Part 1 (first-order condition, no sign assumption): for symmetric A, a vector x that ATTAINS the Rayleigh bound,
          x^T A x = lam x^T x, is an eigenvector: A x = lam x.  Algebraic proof over an ordered field: for every direction y
          and every rational t,   0 <= lam |x+ty|^2 - (x+ty)^T A (x+ty) = 2 t y^T(lam x - A x) + t^2 (lam |y|^2 - y^T A y),
          and a quadratic  2 t c + t^2 d  that is >= 0 for all t has c = 0; y = e_i gives row i.
   Part 2 for A >= 0:  |u|^T A |u| >= u^T A u = lam u^T u = lam |u|^T |u|, so |u| attains the bound: A |u| = lam |u|.
   Part 3 the statement recorded before the extension as `C18_eigvec_full_statement` (lam only required to dominate the
          eigenvalues that have RATIONAL eigenvectors) is FALSE over Q: the path 0-1-2 has eigenvalues sqrt 2, 0, -sqrt 2; its
          only rational eigenpairs belong to 0; u = (1,0,-1) meets every hypothesis and A |u| = (0,2,0) <> 0.  Over an
          ordered field that is not real closed "largest eigenvalue" has to be said through the Rayleigh bound.
   Part 4 the same theorem over Coq's REALS (irrational eigenpairs - the generic case): Proofs/LinearSpectralReal.v. *)
From Coq Require Import QArith Qabs Qfield Lia Lqa Arith List Bool ZArith.
From BCT Require Import Base.Mat Base.SumQ Model.Linear Proofs.Linear Proofs.LinearSpectral.
Import ListNotations.
Open Scope Q_scope.

(* x^T A y and x^T y;  qform n A x = bform n A x x and normsq n x = dotQ n x x by definition *)
Definition bform (n : nat) (A : mat Q) (x y : vec Q) : Q := sumQ (fun i => x i * mvecQ n A y i) n.
Definition dotQ (n : nat) (x y : vec Q) : Q := sumQ (fun i => x i * y i) n.
(* x + t y *)
Definition vline (x y : vec Q) (t : Q) : vec Q := fun i => x i + t * y i.

Lemma mvecQ_line n A x y t i : mvecQ n A (vline x y t) i == mvecQ n A x i + t * mvecQ n A y i.
Proof.
  unfold mvecQ, vline. rewrite <- sumQ_scal, <- sumQ_add. apply sumQ_ext. intros j _. ring.
Qed.

Lemma qform_line n A x y t :
  qform n A (vline x y t) == qform n A x + t * (bform n A x y + bform n A y x) + t * t * qform n A y.
Proof.
  unfold qform, bform. rewrite <- sumQ_add, <- !sumQ_scal, <- !sumQ_add. apply sumQ_ext. intros i _.
  rewrite (mvecQ_line n A x y t i). unfold vline. ring.
Qed.

Lemma normsq_line n x y t :
  normsq n (vline x y t) == normsq n x + t * (2 * dotQ n x y) + t * t * normsq n y.
Proof.
  unfold normsq, dotQ, vline. rewrite <- !sumQ_scal, <- !sumQ_add. apply sumQ_ext. intros i _. ring.
Qed.

(* x^T A y = y^T A x for symmetric A *)
Lemma bform_sym n A x y : (forall i j, (i < n)%nat -> (j < n)%nat -> A i j == A j i) -> bform n A x y == bform n A y x.
Proof.
  intros As. unfold bform, mvecQ.
  rewrite (sumQ_ext (fun i => x i * sumQ (fun j => A i j * y j) n) (fun i => sumQ (fun j => x i * (A i j * y j)) n))
    by (intros i _; rewrite sumQ_scal; reflexivity).
  rewrite (sumQ_ext (fun i => y i * sumQ (fun j => A i j * x j) n) (fun i => sumQ (fun j => y i * (A i j * x j)) n))
    by (intros i _; rewrite sumQ_scal; reflexivity).
  rewrite sumQ_fubini. apply sumQ_ext. intros j Hj. apply sumQ_ext. intros i Hi. rewrite (As i j Hi Hj). ring.
Qed.

Lemma Qsq_nonneg (c : Q) : 0 <= c * c.
Proof. unfold Qle, Qmult. cbn [Qnum Qden]. nia. Qed.

Lemma Qsq_zero (c : Q) : c * c == 0 -> c == 0.
Proof. intros H. apply Qmult_integral in H. destruct H; assumption. Qed.

(* a quadratic 2 t c + t^2 d that is non-negative for EVERY rational t has no linear part *)
Lemma quadratic_nonneg_linear_zero (c d : Q) : (forall t : Q, 0 <= 2 * t * c + t * t * d) -> c == 0.
Proof.
  intros H. pose proof (Qsq_nonneg c) as Hc. apply Qsq_zero.
  destruct (Qlt_le_dec 0 d) as [Hd|Hd].
  - set (k := / d). assert (Hk : 0 < k) by (apply Qinv_lt_0_compat; exact Hd).
    assert (Hdk : d * k == 1) by (apply Qmult_inv_r; lra).
    specialize (H (- (c * k))).
    assert (E : 2 * - (c * k) * c + - (c * k) * - (c * k) * d == - (c * c * k)).
    { transitivity (- (2) * (c * c * k) + c * c * k * (d * k)); [ring|]. rewrite Hdk. ring. }
    rewrite E in H.
    assert (P : 0 <= c * c * k) by (apply Qmult_le_0_compat; [exact Hc|lra]).
    assert (Z : c * c * k == 0) by lra.
    apply Qmult_integral in Z. destruct Z as [Z|Z]; [exact Z|lra].
  - specialize (H (- c)).
    assert (P : 0 <= c * c * - d) by (apply Qmult_le_0_compat; [exact Hc|lra]).
    assert (E : 2 * - c * c + - c * - c * d == - (2 * (c * c)) - c * c * - d) by ring.
    rewrite E in H. lra.
Qed.

(* ---------------- Part 1: a maximiser of the Rayleigh quotient of a symmetric matrix is an eigenvector -------------- *)
Section RayleighMax.
Variables (n : nat) (A : mat Q) (lam : Q).
Hypothesis Asym : forall i j, (i < n)%nat -> (j < n)%nat -> A i j == A j i.
Hypothesis Hray : forall x : vec Q, qform n A x <= lam * normsq n x.

(* y^T (lam x - A x) = 0 for every direction y *)
Lemma rayleigh_first_order (x y : vec Q) : qform n A x == lam * normsq n x -> lam * dotQ n x y == bform n A y x.
Proof.
  intros Hx.
  assert (Q : forall t : Q, 0 <= 2 * t * (lam * dotQ n x y - bform n A y x) + t * t * (lam * normsq n y - qform n A y)).
  { intros t. pose proof (Hray (vline x y t)) as R.
    rewrite (qform_line n A x y t), (normsq_line n x y t), (bform_sym n A x y Asym) in R.
    assert (E : 2 * t * (lam * dotQ n x y - bform n A y x) + t * t * (lam * normsq n y - qform n A y)
                == lam * (normsq n x + t * (2 * dotQ n x y) + t * t * normsq n y)
                   - (qform n A x + t * (bform n A y x + bform n A y x) + t * t * qform n A y)).
    { rewrite Hx. ring. }
    rewrite E. lra. }
  apply quadratic_nonneg_linear_zero in Q. lra.
Qed.

Theorem rayleigh_max_is_eigvec (x : vec Q) : qform n A x == lam * normsq n x ->
  forall i, (i < n)%nat -> mvecQ n A x i == lam * x i.
Proof.
  intros Hx i Hi. pose proof (rayleigh_first_order x (fun k => delta k i) Hx) as F.
  unfold dotQ, bform in F. rewrite (sumQ_delta_r x n i Hi) in F.
  rewrite (sumQ_delta_r' (fun k => mvecQ n A x k) n i Hi) in F. symmetry. exact F.
Qed.
End RayleighMax.

(* ---------------- Part 2: eigenvector_centrality_und ---------------- *)
Theorem eigvec_abs_ok : forall n (A : mat Q) (u : vec Q) (lam : Q),
  (forall i j, (i < n)%nat -> (j < n)%nat -> 0 <= A i j) ->
  (forall i j, (i < n)%nat -> (j < n)%nat -> A i j == A j i) ->
  (forall i, (i < n)%nat -> mvecQ n A u i == lam * u i) ->
  (forall x : vec Q, qform n A x <= lam * normsq n x) ->
  (forall i, 0 <= vabs u i) /\
  normsq n (vabs u) == normsq n u /\
  (forall i, (i < n)%nat -> mvecQ n A (vabs u) i == lam * vabs u i).
Proof.
  intros n A u lam Ann Asym Hu Hray.
  exact (eigvec_abs_ok_partial n A u lam Ann Hu Hray (rayleigh_max_is_eigvec n A lam Asym Hray)).
Qed.

(* |u| vanishes exactly where u does: a non-zero u gives a non-zero |u| *)
Lemma vabs_nonzero (u : vec Q) i : ~ u i == 0 -> ~ vabs u i == 0.
Proof.
  intros H E. apply H. unfold vabs in E. destruct (Qlt_le_dec (u i) 0) as [L|L].
  - rewrite (Qabs_neg (u i)) in E by lra. lra.
  - rewrite (Qabs_pos (u i) L) in E. exact E.
Qed.

(* the Rayleigh bound makes lam dominate EVERY eigenvalue that has a non-zero rational eigenvector: it implies the
   hypothesis of the earlier statement (the converse fails over Q: Part 3) *)
Lemma rayleigh_dominates n (A : mat Q) lam : (forall x : vec Q, qform n A x <= lam * normsq n x) ->
  forall (x : vec Q) (mu : Q), (forall i, (i < n)%nat -> mvecQ n A x i == mu * x i) ->
  (exists i, (i < n)%nat /\ ~ x i == 0) -> mu <= lam.
Proof.
  intros Hray x mu Hx [i0 [Hi0 Hnz]]. pose proof (Hray x) as R.
  assert (E : qform n A x == mu * normsq n x).
  { unfold qform, normsq. rewrite <- sumQ_scal. apply sumQ_ext. intros i Hi. rewrite (Hx i Hi). ring. }
  rewrite E in R.
  assert (P : 0 < normsq n x).
  { unfold normsq. clear - Hi0 Hnz. revert Hi0. induction n as [|m IH]; intros Hi0; [lia|]. cbn [sumQ].
    assert (N : 0 <= sumQ (fun i => x i * x i) m) by (apply sumQ_nonneg; intros; apply Qsq_nonneg).
    pose proof (Qsq_nonneg (x m)) as Hm.
    destruct (Nat.eq_dec i0 m) as [->|Hne].
    - assert (~ x m * x m == 0) by (intros Z; apply Hnz, Qsq_zero, Z). lra.
    - assert (0 < sumQ (fun i => x i * x i) m) by (apply IH; lia). lra. }
  destruct (Qlt_le_dec lam mu) as [L|L]; [exfalso|exact L].
  assert (0 < (mu - lam) * normsq n x) by (apply Qmult_lt_0_compat; lra). lra.
Qed.

(* ---------------- Part 3: the earlier full statement is false over Q ---------------- *)
Definition P3 : mat Q := fun i j =>
  match i, j with 0%nat, 1%nat => 1 | 1%nat, 0%nat => 1 | 1%nat, 2%nat => 1 | 2%nat, 1%nat => 1 | _, _ => 0 end.
Definition P3u : vec Q := fun i => match i with 0%nat => 1 | 2%nat => -(1) | _ => 0 end.

(* no rational number squares to 2 *)
Lemma Z_sq2_descent : forall (k : nat) (a b : Z), (0 <= a)%Z -> (Z.to_nat a < k)%nat -> (0 <= b)%Z ->
  (a * a = 2 * (b * b))%Z -> a = 0%Z.
Proof.
  induction k as [|k IH]; intros a b Ha Hk Hb E; [lia|].
  destruct (Z.eq_dec a 0) as [e|ne]; [exact e|exfalso].
  assert (Ea : exists a', a = (2 * a')%Z).
  { destruct (Z.Even_or_Odd a) as [[a' e]|[a' e]]; [exists a'; exact e|exfalso]. subst a. lia. }
  destruct Ea as [a' ->].
  assert (E' : (b * b = 2 * (a' * a'))%Z) by lia.
  assert (Hlt : (b < 2 * a')%Z) by nia.
  assert (Hb0 : b = 0%Z) by (apply (IH b a'); [exact Hb|lia|lia|exact E']).
  subst b. nia.
Qed.
Lemma no_rational_sqrt2 (q : Q) : ~ q * q == 2.
Proof.
  intros H. unfold Qeq, Qmult in H. cbn [Qnum Qden] in H.
  destruct q as [a b]. cbn [Qnum Qden] in H.
  assert (E : (Z.abs a * Z.abs a = 2 * (Z.pos b * Z.pos b))%Z) by lia.
  pose proof (Z_sq2_descent (S (Z.to_nat (Z.abs a))) (Z.abs a) (Z.pos b) ltac:(lia) ltac:(lia) ltac:(lia) E) as Z0. lia.
Qed.

Lemma P3_rational_eigenvalues (x : vec Q) (mu : Q) :
  (forall i, (i < 3)%nat -> mvecQ 3 P3 x i == mu * x i) -> (exists i, (i < 3)%nat /\ ~ x i == 0) -> mu == 0.
Proof.
  intros Hx [i [Hi Hnz]].
  pose proof (Hx 0%nat ltac:(lia)) as E0. pose proof (Hx 1%nat ltac:(lia)) as E1. pose proof (Hx 2%nat ltac:(lia)) as E2.
  unfold mvecQ, P3 in E0, E1, E2. cbn [sumQ] in E0, E1, E2.
  assert (F0 : x 1%nat == mu * x 0%nat) by lra.
  assert (F1 : x 0%nat + x 2%nat == mu * x 1%nat) by lra.
  assert (F2 : x 1%nat == mu * x 2%nat) by lra.
  destruct (Qeq_dec mu 0) as [e|ne]; [exact e|exfalso].
  (* (mu^2 - 2) x1 = 0 *)
  assert (G : (mu * mu - 2) * x 1%nat == 0).
  { transitivity (mu * (mu * x 1%nat) - 2 * x 1%nat); [ring|]. rewrite <- F1.
    transitivity (mu * x 0%nat + mu * x 2%nat - 2 * x 1%nat); [ring|]. rewrite <- F0, <- F2. ring. }
  apply Qmult_integral in G. destruct G as [G|G].
  - apply (no_rational_sqrt2 mu). lra.
  - (* x1 = 0, so mu x0 = 0 = mu x2 *)
    rewrite G in F0, F2.
    assert (X0 : x 0%nat == 0). { symmetry in F0. apply Qmult_integral in F0. destruct F0; [contradiction|assumption]. }
    assert (X2 : x 2%nat == 0). { symmetry in F2. apply Qmult_integral in F2. destruct F2; [contradiction|assumption]. }
    destruct i as [|[|[|i]]]; [| | |lia]; contradiction.
Qed.

(* the statement as it was recorded (largest among the eigenvalues with rational eigenvectors) *)
Definition eigvec_old_full_statement : Prop :=
  forall n (A : mat Q) (u : vec Q) (lam : Q),
  (forall i j, (i < n)%nat -> (j < n)%nat -> 0 <= A i j /\ A i j == A j i) ->
  (forall i, (i < n)%nat -> mvecQ n A u i == lam * u i) ->
  (forall (x : vec Q) (mu : Q), (forall i, (i < n)%nat -> mvecQ n A x i == mu * x i) ->
                                (exists i, (i < n)%nat /\ ~ x i == 0) -> mu <= lam) ->
  forall i, (i < n)%nat -> mvecQ n A (vabs u) i == lam * vabs u i.

Theorem eigvec_old_full_statement_refuted : ~ eigvec_old_full_statement.
Proof.
  intros H. specialize (H 3%nat P3 P3u 0).
  assert (H1 : forall i j, (i < 3)%nat -> (j < 3)%nat -> 0 <= P3 i j /\ P3 i j == P3 j i).
  { intros i j Hi Hj. destruct i as [|[|[|i]]]; [| | |lia]; (destruct j as [|[|[|j]]]; [| | |lia]); cbn [P3]; split; lra. }
  assert (H2 : forall i, (i < 3)%nat -> mvecQ 3 P3 P3u i == 0 * P3u i).
  { intros i Hi. destruct i as [|[|[|i]]]; [| | |lia]; unfold mvecQ, P3, P3u; cbn [sumQ]; lra. }
  assert (H3 : forall (x : vec Q) (mu : Q), (forall i, (i < 3)%nat -> mvecQ 3 P3 x i == mu * x i) ->
                                            (exists i, (i < 3)%nat /\ ~ x i == 0) -> mu <= 0).
  { intros x mu Hx Hnz. rewrite (P3_rational_eigenvalues x mu Hx Hnz). lra. }
  specialize (H H1 H2 H3 1%nat ltac:(lia)).
  unfold mvecQ, P3, P3u, vabs in H. cbn [sumQ] in H. cbn in H. revert H. unfold Qeq. cbn. lia.
Qed.

(* non-vacuity of eigvec_abs_ok: K_2, lam = 1, u = (-1,-1): all four hypotheses hold, |u| = (1,1) *)
Definition K2Q : mat Q := fun i j => if Nat.eqb i j then 0 else 1.
Example eigvec_abs_ok_nonvacuous :
  (forall i j, (i < 2)%nat -> (j < 2)%nat -> 0 <= K2Q i j) /\
  (forall i j, (i < 2)%nat -> (j < 2)%nat -> K2Q i j == K2Q j i) /\
  (forall i, (i < 2)%nat -> mvecQ 2 K2Q (fun _ => -(1)) i == 1 * (fun _ => -(1)) i) /\
  (forall x : vec Q, qform 2 K2Q x <= 1 * normsq 2 x).
Proof.
  split; [|split; [|split]].
  - intros i j _ _. unfold K2Q. destruct (Nat.eqb i j); lra.
  - intros i j _ _. unfold K2Q. rewrite (Nat.eqb_sym j i). reflexivity.
  - intros i Hi. destruct i as [|[|i]]; [| |lia]; unfold mvecQ, K2Q; cbn [sumQ Nat.eqb]; lra.
  - intros x. unfold qform, normsq, mvecQ, K2Q. cbn [sumQ Nat.eqb].
    pose proof (Qsq_nonneg (x 0%nat - x 1%nat)) as H.
    assert (Hex : (x 0%nat - x 1%nat) * (x 0%nat - x 1%nat) == x 0%nat * x 0%nat - (x 0%nat * x 1%nat + x 1%nat * x 0%nat) + x 1%nat * x 1%nat) by ring.
    rewrite Hex in H. lra.
Qed.
